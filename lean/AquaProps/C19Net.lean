import AquaProps.Lemmas.NetLift
/-!
# C19 along whole histories (`Aqua.Net`)

The per-run theorems of `C19.lean` hold for arbitrary inputs; here they are stated for every run of every
state honest hosts can reach (any script, services and schedule): a host is only ever asked to execute
calls addressed to its own peer, and is never asked to send the particle to itself.
-/
namespace AquaProps.C19
open Aqua Aqua.Exec Aqua.Air Aqua.Net AquaProps AquaProps.NetLift

theorem genuine_out {env : Env} {P : Particle} {r : Run} (hg : Genuine env P r) :
    r.out.callRequests = (finalCtx env r.fuel P.script r.prev r.cur ⟨P.initPeer, r.peer, P.timestamp, P.ttl⟩ r.results).callRequests ∧
    r.out.nextPeerPks = (finalCtx env r.fuel P.script r.prev r.cur ⟨P.initPeer, r.peer, P.timestamp, P.ttl⟩ r.results).nextPeerPks := by
  have hf := farewell_frame env r.fuel P.script r.prev r.cur ⟨P.initPeer, r.peer, P.timestamp, P.ttl⟩ r.results
  unfold Genuine at hg
  have hout : r.out = (runExecFarewell env r.fuel P.script r.prev r.cur ⟨P.initPeer, r.peer, P.timestamp, P.ttl⟩ r.results).2 := by
    rw [← hg]
  simp only at hf
  rw [← hout] at hf
  exact ⟨hf.1, hf.2.2⟩

/-- **Calls run only where they are addressed, along any honest history**: every request any host was ever
handed names a call whose resolved peer is that host's peer. -/
theorem C19_network_requests_local (env : Env) (svc : Services) (P : Particle) (st : NetSt)
    (h : Reachable env svc P st) : ∀ r ∈ st.runs, ∀ x ∈ r.requests, x.2.forPeer = r.peer := by
  intro r hr x hx
  have hg := (reachable_inv h).genuine r hr
  unfold Run.requests at hx
  split at hx
  · rw [(genuine_out hg).1] at hx
    exact C19_local_only env r.fuel P.script r.prev r.cur ⟨P.initPeer, r.peer, P.timestamp, P.ttl⟩ r.results x hx
  · cases hx

/-- **No host is ever asked to send the particle to itself** (so no message on the wire is addressed to the
peer whose run produced it). -/
theorem C19_network_never_forwards_to_self (env : Env) (svc : Services) (P : Particle) (st : NetSt)
    (h : Reachable env svc P st) : ∀ r ∈ st.runs, ∀ q ∈ r.nextPeers, q ≠ r.peer := by
  intro r hr q hq
  have hg := (reachable_inv h).genuine r hr
  unfold Run.nextPeers at hq
  split at hq
  · rw [(genuine_out hg).2] at hq
    exact C19_next_peers_not_self env r.fuel P.script r.prev r.cur ⟨P.initPeer, r.peer, P.timestamp, P.ttl⟩ r.results q hq
  · cases hq

/-- a run that is not accepted (uncatchable error, panic) hands its host nothing: no request, no next peer, the stored data unchanged -/
theorem C19_network_failed_run_inert (r : Run) (h : accepted r.res = false) :
    r.requests = [] ∧ r.nextPeers = [] ∧ r.newData = r.prev := by
  unfold Run.requests Run.nextPeers Run.newData
  simp [h]

/-- non-vacuity: the empty history is reachable, and so is the state after the first run of any particle -/
example (env : Env) (svc : Services) (P : Particle) : Reachable env svc P {} := ⟨[], rfl⟩
example (env : Env) (svc : Services) (P : Particle) : ∃ st, Reachable env svc P st ∧ st.runs.length = 1 :=
  ⟨_, ⟨[.start], rfl⟩, rfl⟩

end AquaProps.C19

namespace AquaProps.C19
open Aqua Aqua.Exec Aqua.Air Aqua.Net AquaProps AquaProps.NetLift

/-- **Everything on the wire was produced by a run**: in every reachable state, each message in flight carries the
data an earlier accepted run returned to its host and is addressed to one of the next peers that run named —
never to the peer that produced it.  (So the current data an honest host is ever handed is interpreter output,
and a particle travels only where some run asked for it.) -/
theorem C19_network_wire_from_runs (env : Env) (svc : Services) (P : Particle) (st : NetSt)
    (h : Reachable env svc P st) :
    ∀ m ∈ st.wire, ∃ r ∈ st.runs, accepted r.res = true ∧ m.data = r.newData ∧ m.dest ∈ r.nextPeers ∧ m.dest ≠ r.peer := by
  have hw : ∀ m ∈ st.wire, ∃ r ∈ st.runs, m.data = r.newData ∧ m.dest ∈ r.nextPeers := by
    refine reachable_induction (env := env) (svc := svc) (P := P)
      (fun st => ∀ m ∈ st.wire, ∃ r ∈ st.runs, m.data = r.newData ∧ m.dest ∈ r.nextPeers) ?_ ?_ ?_ h
    · intro m hm; cases hm
    · intro st w hsub hq m hm; exact hq m (hsub.subset hm)
    · intro st r hq m hm
      have hwire : (absorb st r).wire = st.wire ++ r.nextPeers.map (fun q => ⟨q, r.newData⟩) := rfl
      have hruns : (absorb st r).runs = st.runs ++ [r] := rfl
      rw [hwire] at hm
      rw [hruns]
      rcases List.mem_append.mp hm with hm | hm
      · obtain ⟨r', hr', h1, h2⟩ := hq m hm
        exact ⟨r', List.mem_append_left _ hr', h1, h2⟩
      · obtain ⟨q, hq', rfl⟩ := List.mem_map.mp hm
        exact ⟨r, List.mem_append_right _ (List.mem_singleton.mpr rfl), rfl, hq'⟩
  intro m hm
  obtain ⟨r, hr, h1, h2⟩ := hw m hm
  refine ⟨r, hr, ?_, h1, h2, C19_network_never_forwards_to_self env svc P st h r hr m.dest h2⟩
  cases hacc : accepted r.res with
  | true => rfl
  | false =>
    have := (C19_network_failed_run_inert r hacc).2.1
    rw [this] at h2; cases h2

end AquaProps.C19
