import AquaProps.Lemmas.C16Main
import AquaProps.C19
/-!
# C16 — distributed execution agrees with the sequential meaning of the script

Reference semantics: `Aqua.Ref.eval` (`lean/Aqua/Ref/Eval.lean`), a sequential big-step evaluator written
from the documented meaning of the instructions; `Ref.calls O p fuel script` is the list of service
calls of the sequential reading under the deterministic service oracle `O`.

Executor: `Aqua.Exec.runExec` (the replica of `air.execute`), one run of one peer.

What is proved here (all kernel-checked, for ALL scripts of the stated sub-fragment, all oracles, all
fuel that covers the nesting depth, all run parameters, all hash / JSON-parser environments):

* `C16_first_run_sound_partial` — the first run of the init peer (empty previous and current data);
* `C16_replay_sound_partial` — a run on previous data holding earlier results (replay);
* `C16_run_sound_partial` — ANY run without call results (a particle delivered, duplicated or stale:
  arbitrary previous and current data, merged by the trace handler) whose input data is *honest*
  (`HonestInputs`: every `Executed(Scalar)` / `Failed` call state of the two traces resolves, through
  the merged CID stores, to an entry that is the oracle's answer for every argument list with the stored
  argument hash; no `Executed(Unused)` states): every call request the run issues is a call of the
  sequential reading — same peer, service, function, argument values.  Replayed `Executed` states
  re-bind the oracle's value (`verifyCall`: stored argument hash and tetraplet equal the current ones),
  `Failed` states re-raise where the sequential reading fails;
* `C16_run_outcome_partial` — no branch is taken that the sequential reading does not take: the run
  completes only if the sequential reading completes, fails catchably only if the sequential reading fails;
* `C16_stores_unchanged_partial`, `C16_requests_for_current_peer` (from C19).

Sub-fragment of the theorems (`FragA`, decidable; `InFragmentA` adds "output scalars pairwise distinct"):
call (scalar or no output; triplet parts literal / `%init_peer_id%` / scalar / scalar with lens; arguments
additionally `%timestamp%`, `%ttl%`, numbers, booleans, `[]`), seq, par, xor, match, mismatch, scalar ap,
fail, null, never.  The xor-guard side condition of the property is NOT needed by these theorems.
NOT covered by the theorems (gap, see `C16_full`): `new`, `fold`/`next` (the scoping of scalars by fold
depth), runs that consume call results (the link between a request id and the call that issued it lives
in the host, not in the data — it needs the trace-replay theory of Appendix B), preservation of
`HonestInputs` by a run (monitored instead on every data blob of every explored history by the harness),
and the induction over network events.  The direct oracle (`harness/src/props/c16.rs`) covers the whole
fragment on the real interpreter over all small interleavings.
-/
namespace AquaProps.C16
open Aqua Aqua.Json Aqua.Air Aqua.Exec Aqua.Ref AquaProps

/-- the particle parameters the reference evaluator reads -/
def refParams (rp : RunParams) : Params := ⟨rp.initPeerId, rp.timestamp, rp.ttl⟩

/-- a call request as a call of the reference semantics -/
abbrev asCall (r : CallRequest) : Call := toCall r

/-- the merged CID stores a run works with (`ExecutionCtx::new`) -/
def mergedStores (prev cur : DataIn) : CidState := (initCtx prev cur ⟨"", "", 0, 0⟩ []).cid

/-- **honest input data** for oracle `O`: every call state of the two traces that carries a result agrees
with the oracle through the merged stores -/
def HonestInputs (O : Oracle) (env : Env) (prev cur : DataIn) : Prop :=
  ∀ st, st ∈ prev.trace ∨ st ∈ cur.trace → GoodState O env (mergedStores prev cur) st

theorem inv_init (O : Oracle) (prev cur : DataIn) (rp : RunParams) :
    Inv (refParams rp) (mergedStores prev cur) prev.trace cur.trace (initCtx prev cur rp []) {} where
  flatC := ⟨rfl, ⟨rfl, rfl, fun name cells h => by
    have e : (initCtx prev cur rp []).scalars.nonIterable.cells = [] := rfl
    rw [e] at h; simp [Exec.lookup] at h⟩⟩
  flatS := ⟨⟨{}, rfl, rfl⟩, rfl⟩
  sub := fun n va h => by
    have e : (initCtx prev cur rp []).scalars.nonIterable.cells = [] := rfl
    unfold scalarOf at h; rw [e] at h; simp [Exec.lookup] at h
  params := ⟨rfl, rfl, rfl⟩
  noResults := rfl
  cid := rfl
  ptrace := rfl
  ctrace := rfl
  reqs := fun x hx => by simp [initCtx] at hx

/-- the scalars of the script are bound at most once (output names of calls and `ap`s pairwise distinct) and
the fuel covers the nesting depth: then the sequential reading is defined (`Ref.eval` does not abort) -/
def WellFormedA (script : Instr) (fuel : Nat) : Bool :=
  FragA script && decide ((binders script).Nodup) && decide (depth script ≤ fuel)

/-- decidable predicate of the sub-fragment the theorems cover -/
def InFragmentA (script : Instr) : Bool := FragA script && decide ((binders script).Nodup)

theorem ref_noAbort (O : Oracle) (p : Params) (fuel : Nat) (script : Instr) (h : WellFormedA script fuel = true) :
    NoAbort (Ref.run O p fuel script).1 := by
  simp only [WellFormedA, Bool.and_eq_true, decide_eq_true_eq] at h
  obtain ⟨⟨hf, hn⟩, hd⟩ := h
  have := eval_noAbort O p fuel false script {} [] hf ⟨⟨{}, rfl, rfl⟩, rfl⟩ hd (by simpa using hn) (fun n _ => rfl)
  exact this.1

/-- the simulation applied to a whole run -/
theorem run_sim (O : Oracle) (env : Env) (fuel : Nat) (script : Instr) (prev cur : DataIn) (rp : RunParams)
    (hfrag : FragA script = true) (hhonest : HonestInputs O env prev cur)
    (hna : NoAbort (Ref.run O (refParams rp) fuel script).1) :
    SimPost (refParams rp) (mergedStores prev cur) prev.trace cur.trace
      (runExec env fuel script prev cur rp []).1 (runExec env fuel script prev cur rp []).2 (Ref.run O (refParams rp) fuel script) :=
  exec_sim (O := O) (env := env) (p := refParams rp) hhonest fuel false script _ _ hfrag (inv_init O prev cur rp) hna
    (runExec env fuel script prev cur rp []).1 (runExec env fuel script prev cur rp []).2 rfl

/-- **Soundness of one run without call results** (delivery of a particle, duplicate, stale data; any
previous / current data that is honest for the oracle): every call request issued by the run is a call
of the sequential reading of the script, with the same peer, service, function and argument values.
Quantifies over all scripts of the sub-fragment `FragA` whose output scalars are pairwise distinct, all
oracles, hash / JSON-parser environments, data, parameters, and all fuel that covers the nesting depth. -/
theorem C16_run_sound_partial (O : Oracle) (env : Env) (fuel : Nat) (script : Instr) (prev cur : DataIn) (rp : RunParams)
    (hwf : WellFormedA script fuel = true) (hhonest : HonestInputs O env prev cur) :
    ∀ x ∈ (runExec env fuel script prev cur rp []).2.callRequests,
      asCall x.2 ∈ Ref.calls O (refParams rp) fuel script := by
  have hfrag : FragA script = true := by
    simp only [WellFormedA, Bool.and_eq_true] at hwf; exact hwf.1.1
  exact (run_sim O env fuel script prev cur rp hfrag hhonest (ref_noAbort O _ fuel script hwf)).inv.reqs

/-- the same with the semantic premise "the sequential reading does not abort" instead of the syntactic one
(covers scripts that bind a name twice on paths the sequential reading does not both take) -/
theorem C16_run_sound_of_defined_partial (O : Oracle) (env : Env) (fuel : Nat) (script : Instr) (prev cur : DataIn) (rp : RunParams)
    (hfrag : FragA script = true) (hhonest : HonestInputs O env prev cur)
    (hna : NoAbort (Ref.run O (refParams rp) fuel script).1) :
    ∀ x ∈ (runExec env fuel script prev cur rp []).2.callRequests,
      asCall x.2 ∈ Ref.calls O (refParams rp) fuel script :=
  (run_sim O env fuel script prev cur rp hfrag hhonest hna).inv.reqs

/-- **First run of the init peer** (empty previous and current data): every request is a call of the
sequential reading. -/
theorem C16_first_run_sound_partial (O : Oracle) (env : Env) (fuel : Nat) (script : Instr) (rp : RunParams)
    (hwf : WellFormedA script fuel = true) :
    ∀ x ∈ (runExec env fuel script {} {} rp []).2.callRequests,
      asCall x.2 ∈ Ref.calls O (refParams rp) fuel script :=
  C16_run_sound_partial O env fuel script {} {} rp hwf (fun st h => by rcases h with h | h <;> simp at h)

/-- **Replay**: previous data holding results of earlier honest runs (no current data): replayed `Executed`
states re-bind the oracle's values, `Failed` states re-raise where the sequential reading fails, and the
calls the run newly issues (its frontier) are calls of the sequential reading. -/
theorem C16_replay_sound_partial (O : Oracle) (env : Env) (fuel : Nat) (script : Instr) (prev : DataIn) (rp : RunParams)
    (hwf : WellFormedA script fuel = true) (hhonest : HonestInputs O env prev {}) :
    ∀ x ∈ (runExec env fuel script prev {} rp []).2.callRequests,
      asCall x.2 ∈ Ref.calls O (refParams rp) fuel script :=
  C16_run_sound_partial O env fuel script prev {} rp hwf hhonest

/-- the run's result agrees with the sequential reading: a run that completes the script (`Ok`, subgraph
complete) only happens when the sequential reading completes; a run that ends in a catchable error only
when the sequential reading fails: no peer takes a branch the sequential reading does not take -/
theorem C16_run_outcome_partial (O : Oracle) (env : Env) (fuel : Nat) (script : Instr) (prev cur : DataIn) (rp : RunParams)
    (hwf : WellFormedA script fuel = true) (hhonest : HonestInputs O env prev cur) :
    ((runExec env fuel script prev cur rp []).1 = .ok () → (runExec env fuel script prev cur rp []).2.subgraphComplete = true →
        (Ref.run O (refParams rp) fuel script).1 = .done) ∧
    (∀ ce, (runExec env fuel script prev cur rp []).1 = .error (.catchable ce) → (Ref.run O (refParams rp) fuel script).1 = .failed) := by
  have hfrag : FragA script = true := by
    simp only [WellFormedA, Bool.and_eq_true] at hwf; exact hwf.1.1
  have h := run_sim O env fuel script prev cur rp hfrag hhonest (ref_noAbort O _ fuel script hwf)
  exact ⟨h.done, h.failed⟩

/-- the stores are not changed by a run without call results (so honest stores stay honest) -/
theorem C16_stores_unchanged_partial (O : Oracle) (env : Env) (fuel : Nat) (script : Instr) (prev cur : DataIn) (rp : RunParams)
    (hwf : WellFormedA script fuel = true) (hhonest : HonestInputs O env prev cur) :
    (runExec env fuel script prev cur rp []).2.cid = mergedStores prev cur := by
  have hfrag : FragA script = true := by
    simp only [WellFormedA, Bool.and_eq_true] at hwf; exact hwf.1.1
  exact (run_sim O env fuel script prev cur rp hfrag hhonest (ref_noAbort O _ fuel script hwf)).inv.cid

/-- every request is issued for the current peer (C19): together with `C16_run_sound_partial` the peer
that runs a service call is the peer the sequential reading names -/
theorem C16_requests_for_current_peer (env : Env) (fuel : Nat) (script : Instr) (prev cur : DataIn) (rp : RunParams)
    (results : List (String × CallServiceResult)) :
    ∀ x ∈ (runExec env fuel script prev cur rp results).2.callRequests, (asCall x.2).peer = rp.currentPeerId :=
  C19.C19_local_only env fuel script prev cur rp results

/-! ## non-vacuity: concrete inputs that satisfy the hypotheses -/

/-- a script of the sub-fragment: the result of the first call is the argument of the second, which runs on
another peer and decides a branch -/
def exScript : Instr :=
  .seq (.call (.literal "a") (.literal "svc") (.literal "f") [] (.scalar "x"))
       (.xor (.seq (.call (.literal "b") (.literal "svc") (.literal "g") [.scalar "x", .number 1] (.scalar "y"))
                   (.match_ (.scalar "y") (.literal "no") .null))
             (.par (.call (.scalar "x") (.literal "svc") (.literal "h") [.scalar "y"] .none) .never))

/-- an oracle whose answers steer the script: `f` returns a peer id, `g` returns "yes" -/
def exOracle : Oracle := fun _peer _svc fn _args =>
  if fn = "f" then .ok (.str "b") else if fn = "g" then .ok (.str "yes") else .fail 1 "no such function"

def exParams : RunParams := ⟨"a", "a", 0, 0⟩
def exEnv : Env := { hash := fun s => s, parseJson := fun s => if s = "\"b\"" then some (.str "b") else none }

example : FragA exScript = true := by decide

/-- the sequential reading: `f` on a, `g` on b with [x = "b", 1], the match fails, the handler calls `h` on b -/
example : (Ref.calls exOracle (refParams exParams) 10 exScript).map (fun c => (c.peer, c.function)) =
    [("a", "f"), ("b", "g"), ("b", "h")] := by decide

example : WellFormedA exScript 10 = true := by decide
example : InFragmentA exScript = true := by decide

/-- previous data of peer b after the result of `f` arrived from peer a: one executed call, its value, tetraplet
and service-result aggregate in the stores (content ids abbreviated) -/
def exPrev : DataIn :=
  { trace := [.call (.executed (.scalar "c1"))], lcid := 0,
    cid := { values := [("v1", "\"b\"")], tetraplets := [("t1", ⟨"a", "svc", "f", ""⟩)],
             serviceResults := [("c1", ⟨"v1", "[]", "t1"⟩)] } }

/-- the data is honest for `exOracle`: the stored value of the call `f` on peer a is the oracle's answer -/
theorem ex_honest : HonestInputs exOracle exEnv exPrev {} := by
  intro st h
  rcases h with h | h
  · simp only [exPrev, List.mem_singleton] at h
    subst h
    intro v t agg hres args _
    have hr : resolveServiceInfo exEnv (mergedStores exPrev {}) "c1" =
        .ok (.str "b", ⟨"a", "svc", "f", ""⟩, ⟨"v1", "[]", "t1"⟩) := by rfl
    rw [hr] at hres
    injection hres with hres; injection hres with h1 h2; injection h2 with h2 h3
    subst h1; subst h2
    rfl
  · simp at h

/-- so `C16_run_sound_partial` applies to a run of peer b on this data -/
example : ∀ x ∈ (runExec exEnv 10 exScript exPrev {} ⟨"a", "b", 0, 0⟩ []).2.callRequests,
    asCall x.2 ∈ Ref.calls exOracle (refParams ⟨"a", "b", 0, 0⟩) 10 exScript :=
  C16_run_sound_partial exOracle exEnv 10 exScript exPrev {} ⟨"a", "b", 0, 0⟩ (by decide) ex_honest

/-! ## the network of Appendix H (model used to STATE the full property) -/

structure HostPeer where
  id : String
  /-- last data returned by the interpreter -/
  prev : DataIn := {}
  /-- issued, not yet answered -/
  pending : List (Nat × CallRequest) := []
  /-- every request ever handed to the host -/
  log : List CallRequest := []

structure Net where
  peers : List HostPeer
  /-- particles on the wire: (addressee, data) -/
  inflight : List (String × DataIn) := []

inductive Event where
  /-- run the addressee of message `i` with it as current data; `keep` = the message stays on the wire (duplicate) -/
  | deliver (i : Nat) (keep : Bool)
  /-- hand peer `peer` the answers for the pending requests `ids` -/
  | answer (peer : String) (ids : List Nat)

/-- the data a run returns (`InterpreterData` fields the execution stage produces) -/
def outData (c : Ctx) : DataIn := { trace := c.th.keeper.resultTrace, lcid := c.lastCallRequestId, cid := c.cid }

/-- the host executes a request with the deterministic services -/
def answerOf (O : Oracle) (r : CallRequest) : CallServiceResult :=
  match O r.forPeer r.serviceId r.functionName r.arguments with
  | .ok v => ⟨0, v.render⟩
  | .fail code msg => ⟨code, msg⟩

structure Particle where
  script : Instr
  initPeerId : String
  timestamp : Nat
  ttl : Nat

/-- one run of a peer: current data `cur`, answers for the pending ids `ids`; the host contract
(keep the data on uncatchable failure, remember and execute the new requests, forward to the next peers) -/
def runPeer (env : Env) (fuel : Nat) (O : Oracle) (pt : Particle) (h : HostPeer) (cur : DataIn) (ids : List Nat) :
    HostPeer × List (String × DataIn) :=
  let answered := h.pending.filter fun x => ids.contains x.1
  let results := answered.map fun x => (toString x.1, answerOf O x.2)
  let rc := runExec env fuel pt.script h.prev cur ⟨pt.initPeerId, h.id, pt.timestamp, pt.ttl⟩ results
  let accepted : Bool := match rc.1 with
    | .ok () => true
    | .error (.catchable _) => true
    | _ => false
  if accepted then
    ({ h with prev := outData rc.2,
              pending := (h.pending.filter fun x => !(ids.contains x.1)) ++ rc.2.callRequests,
              log := h.log ++ rc.2.callRequests.map (·.2) },
     rc.2.nextPeerPks.map fun q => (q, outData rc.2))
  else (h, [])

def replacePeer (peers : List HostPeer) (h : HostPeer) : List HostPeer :=
  peers.map fun x => if x.id == h.id then h else x

def Net.step (env : Env) (fuel : Nat) (O : Oracle) (pt : Particle) (n : Net) : Event → Net
  | .deliver i keep =>
    match n.inflight[i]? with
    | none => n
    | some (q, d) =>
      match n.peers.find? (fun h => h.id == q) with
      | none => n
      | some h =>
        let (h', out) := runPeer env fuel O pt h d []
        { peers := replacePeer n.peers h', inflight := (if keep then n.inflight else n.inflight.eraseIdx i) ++ out }
  | .answer peer ids =>
    match n.peers.find? (fun h => h.id == peer) with
    | none => n
    | some h =>
      let (h', out) := runPeer env fuel O pt h {} ids
      { peers := replacePeer n.peers h', inflight := n.inflight ++ out }

/-- the start: the init peer runs on empty data -/
def Net.start (env : Env) (fuel : Nat) (O : Oracle) (pt : Particle) (peerIds : List String) : Net :=
  let peers : List HostPeer := peerIds.map fun i => { id := i }
  match peers.find? (fun h => h.id == pt.initPeerId) with
  | none => { peers := peers }
  | some h =>
    let (h', out) := runPeer env fuel O pt h {} []
    { peers := replacePeer peers h', inflight := out }

inductive Reachable (env : Env) (fuel : Nat) (O : Oracle) (pt : Particle) (peerIds : List String) : Net → Prop
  | start : Reachable env fuel O pt peerIds (Net.start env fuel O pt peerIds)
  | step (n : Net) (e : Event) : Reachable env fuel O pt peerIds n → Reachable env fuel O pt peerIds (Net.step env fuel O pt n e)

/-! ## the whole fragment of the property (decidable) -/

def readsVar : Value → Bool
  | .scalar _ | .scalarWL _ _ => true
  | _ => false

/-- instructions that can raise a catchable error by themselves -/
def fallible : Instr → Bool
  | .call .. | .fail _ | .match_ .. | .mismatch .. => true
  | .ap arg _ => readsVar arg
  | .foldScalar it _ _ _ => readsVar it
  | _ => false

/-- instruction set and operands of the C16 fragment, and the side condition: every fallible instruction
is under an xor left branch with no par in between (`g` = currently guarded) -/
def InFragment (g : Bool) : Instr → Bool
  | .call p s f args out => g && FragT p && FragT s && FragT f && args.all FragV && (match out with | .stream .. => false | _ => true)
  | .seq l r => InFragment g l && InFragment g r
  | .par l r => InFragment false l && InFragment false r
  | .xor l r => InFragment true l && InFragment g r
  | .match_ a b i => g && FragV a && FragV b && InFragment g i
  | .mismatch a b i => g && FragV a && FragV b && InFragment g i
  | .ap arg out => (g || !readsVar arg) && FragV arg && (match out with | .scalar _ => true | _ => false)
  | .fail arg => g && (match arg with | .canonWL .. => false | _ => true)
  | .foldScalar it _ body last => (g || !readsVar it) && (match it with | .scalar _ | .scalarWL _ _ | .emptyArray => true | _ => false) &&
      InFragment g body && (match last with | some l => InFragment g l | none => true)
  | .next _ => true
  | .new arg body _ _ => (match arg with | .scalar _ => true | _ => false) && InFragment g body
  | .null | .never => true
  | _ => false

/-- **the property at full strength** (NOT proved; the theorems above are its single-run part on `FragA` for
runs without call results): for every script of the whole fragment (`InFragment false`: with `new`,
`fold`/`next` and the xor-guard side condition), every oracle, every reachable state of the honest network
(all delivery orders, duplicates, late / batched answers), every request any peer ever handed to its host is
a call of the sequential reading — same peer, service, function, argument values.
Missing: `new` and `fold`/`next` in the simulation; runs that consume call results (the request-id ↔ call
link, i.e. the trace-replay theory of DESIGN.md Appendix B); `Executed(Unused)` states; preservation of
honest data by every run; the induction over `Reachable`.  On the real interpreter the statement is FALSE
for three script shapes (see the known findings `c16-*`). -/
def C16_full : Prop :=
  ∀ (O : Oracle) (env : Env) (fuel : Nat) (pt : Particle) (peerIds : List String) (n : Net),
    InFragment false pt.script = true → pt.initPeerId ∈ peerIds →
    Reachable env fuel O pt peerIds n →
    ∀ h ∈ n.peers, ∀ q ∈ h.log,
      (asCall q ∈ Ref.calls O ⟨pt.initPeerId, pt.timestamp, pt.ttl⟩ fuel pt.script ∧ (asCall q).peer = h.id)

end AquaProps.C16
