import AquaProps.Lemmas.Grow
import Aqua.Exec.Run
/-!
# C19 — calls run only where addressed; the particle is never forwarded to the current peer

Statements are about `Aqua.Exec.runExec` for EVERY script, fuel, data pair, parameters and call results.
-/
namespace AquaProps.C19
open Aqua Aqua.Exec Aqua.Air AquaProps

abbrev finalCtx (env : Env) (fuel : Nat) (script : Instr) (prev cur : DataIn) (p : RunParams)
    (results : List (String × CallServiceResult)) : Ctx := (runExec env fuel script prev cur p results).2

theorem mem_numbered_snd : ∀ (n : Nat) (l : List CallRequest) (y : Nat × CallRequest), y ∈ numbered n l → y.2 ∈ l := by
  intro n l
  induction l generalizing n with
  | nil => intro y hy; simp [numbered] at hy
  | cons r rs ih =>
    intro y hy
    simp only [numbered, List.mem_cons] at hy
    rcases hy with h | h
    · subst h; simp
    · exact List.mem_cons_of_mem _ (ih _ y h)

/-- **Requests only for calls addressed to the current peer**: every request handed to the host in a
run was issued for a call whose resolved peer is the current peer. -/
theorem C19_local_only (env : Env) (fuel : Nat) (script : Instr) (prev cur : DataIn) (p : RunParams)
    (results : List (String × CallServiceResult)) :
    ∀ x ∈ (finalCtx env fuel script prev cur p results).callRequests, x.2.forPeer = p.currentPeerId := by
  have h := exec_grow env fuel script (initCtx prev cur p results)
  obtain ⟨rs, hr, _, hf⟩ := h.reqs
  have h0 : (initCtx prev cur p results).callRequests = [] := rfl
  have h2 : (initCtx prev cur p results).currentPeerId = p.currentPeerId := rfl
  rw [h0, List.nil_append] at hr
  intro x hx
  have hx' : x ∈ numbered ((initCtx prev cur p results).lastCallRequestId + 1) rs := by
    have : (finalCtx env fuel script prev cur p results).callRequests = _ := hr
    rw [this] at hx; exact hx
  rw [← h2]
  exact hf x.2 (mem_numbered_snd _ _ x hx')

/-- **The current peer is never among the next peers** collected by a run. -/
theorem C19_next_peers_not_self (env : Env) (fuel : Nat) (script : Instr) (prev cur : DataIn) (p : RunParams)
    (results : List (String × CallServiceResult)) :
    ∀ q ∈ (finalCtx env fuel script prev cur p results).nextPeerPks, q ≠ p.currentPeerId := by
  have h := exec_grow env fuel script (initCtx prev cur p results)
  obtain ⟨ps, hp, hn⟩ := h.next
  have h0 : (initCtx prev cur p results).nextPeerPks = [] := rfl
  have h2 : (initCtx prev cur p results).currentPeerId = p.currentPeerId := rfl
  rw [h0, List.nil_append] at hp
  intro q hq
  have : (finalCtx env fuel script prev cur p results).nextPeerPks = ps := hp
  rw [this] at hq
  rw [← h2]
  exact hn q hq

/-- `dedup` of farewell_step/outcome.rs is a `HashSet` round trip: the outcome's list is *some*
duplicate-free list with the same members (the order is the hash map's).  `IsDedupOf out l` is that
contract; `dedupModel` is one function satisfying it. -/
def IsDedupOf (out l : List String) : Prop := out.Nodup ∧ ∀ x, x ∈ out ↔ x ∈ l

def dedupModel : List String → List String
  | [] => []
  | x :: xs => if x ∈ dedupModel xs then dedupModel xs else x :: dedupModel xs

theorem dedupModel_spec (l : List String) : IsDedupOf (dedupModel l) l := by
  induction l with
  | nil => exact ⟨List.nodup_nil, fun x => Iff.rfl⟩
  | cons a as ih =>
    obtain ⟨hn, hm⟩ := ih
    unfold dedupModel
    by_cases h : a ∈ dedupModel as
    · simp only [h, if_true]
      refine ⟨hn, fun x => ?_⟩
      constructor
      · intro hx; exact List.mem_cons_of_mem _ ((hm x).mp hx)
      · intro hx
        rcases List.mem_cons.mp hx with rfl | hx'
        · exact h
        · exact (hm x).mpr hx'
    · simp only [h, if_false]
      refine ⟨List.nodup_cons.mpr ⟨h, hn⟩, fun x => ?_⟩
      simp only [List.mem_cons, hm x]

/-- **The outcome's next-peer list has no duplicates and never names the current peer**, for every
list satisfying the `dedup` contract. -/
theorem C19_outcome_next_peers (env : Env) (fuel : Nat) (script : Instr) (prev cur : DataIn) (p : RunParams)
    (results : List (String × CallServiceResult)) (out : List String)
    (hout : IsDedupOf out (finalCtx env fuel script prev cur p results).nextPeerPks) :
    out.Nodup ∧ ∀ q ∈ out, q ≠ p.currentPeerId :=
  ⟨hout.1, fun q hq => C19_next_peers_not_self env fuel script prev cur p results q ((hout.2 q).mp hq)⟩

/-- the peer ids never change during execution -/
theorem C19_peer_ids_stable (env : Env) (fuel : Nat) (script : Instr) (c : Ctx) :
    (exec env fuel script c).2.currentPeerId = c.currentPeerId ∧ (exec env fuel script c).2.initPeerId = c.initPeerId :=
  ⟨(exec_grow env fuel script c).me, (exec_grow env fuel script c).init⟩


/-! ## forwarding: whenever a run marks a call or a canon as sent to another peer, that peer is named

These are the only two places where the executor creates a "sent by me" entry (`updRemoteCall` is the
context update of `handle_remote_call`; the canon case is the `.empty` branch of `execCanon`, primitive
`canonRemote` of `ExecPrims`).  Re-emitting a request found in the merged data (`pushRequest`,
`canonPushRequest`) creates nothing new and names no peer. -/

/-- **A call forwarded to another peer names that peer**: the state pushed is `RequestSentBy(current peer)`
and the call's resolved peer is appended to the next peers, in one step. -/
theorem C19_remote_call_forwarded (t : Tetraplet) (c : Ctx) :
    (updRemoteCall t c).nextPeerPks = c.nextPeerPks ++ [t.peerPk] ∧
    (updRemoteCall t c).th.keeper.resultTrace =
      c.th.keeper.resultTrace ++ [.call (.requestSentBy (.peerId c.currentPeerId))] ∧
    (updRemoteCall t c).callRequests = c.callRequests := ⟨rfl, rfl, rfl⟩

/-- the same for every whole run: every peer appended to the next peers differs from the current peer, and
canon instructions addressed elsewhere append their target (`Grow` is preserved by the canon primitives) -/
theorem C19_canon_and_calls_never_forward_to_self (env : Env) (fuel : Nat) (script : Instr) (c : Ctx) :
    ∃ ps, (exec env fuel script c).2.nextPeerPks = c.nextPeerPks ++ ps ∧ ∀ p ∈ ps, p ≠ c.currentPeerId :=
  (exec_grow env fuel script c).next

end AquaProps.C19
