import Aqua.Gen.JsonCfg
import Aqua.Json.Parse
import Aqua.Json.Std
import AquaProps.Lemmas.JsonValue
import AquaProps.Lemmas.JsonStd
import AquaProps.Lemmas.JsonCanon
import AquaProps.Lemmas.JsonFuel
/-!
# C26 — the interpreter's JSON value type is faithful to JSON

Model: `Aqua/Json/Value.lean` (values, `serde_json` compact printing), `Aqua/Json/Parse.lean`
(`serde_json::from_str::<JValue>`: the deserializer of serde_json 1.0.108 driven by `JValue`'s visitor,
recursion limit 128), `Aqua/Json/Std.lean` (`serde_json::Value` mirror, `From<&Value>`, `to_value`, the
derived `==`, `partial_eq.rs`).

`f64` formatting and parsing are *not* modelled: floats are the texts `ryu` prints, and the number lexer
hands `(sign, u64 significand, decimal exponent)` — computed exactly as serde_json computes them — to an
oracle `fo` (`f64_from_parts` + printing).  Statements about floats are relative to that oracle: a value
is well formed (`WF fo v`) when its float texts are read back as themselves (`FloatRT`), its integers lie
in `[i64::MIN, u64::MAX]` and its object keys are strictly sorted.  Whether the *real* float conversion
has the read-back property is checked on the implementation by the harness (it has not: see the known
finding `float-text-roundtrip-not-identity`).
-/
namespace AquaProps.C26
open Aqua.Json AquaProps.JsonLemmas

/-- **The configuration the model is written for** (table regenerated from the repo on every run:
Cargo.lock, the crates' Cargo.toml, the serde_json source in the cargo registry): recursion limit 128,
objects are `BTreeMap`s (no `preserve_order` in serde_json or in `air-interpreter-value`), numbers are
`u64`/`i64`/`f64` (no `arbitrary_precision`), the default float parser (no `float_roundtrip`), the
recursion limit cannot be switched off (no `unbounded_depth`).  A change of any of these breaks this
theorem, i.e. the check, until the model is revisited. -/
theorem C26_config :
    Aqua.Gen.serdeJsonRecursionLimit = recursionLimit ∧ Aqua.Gen.serdeJsonArbitraryPrecision = false ∧
    Aqua.Gen.serdeJsonFloatRoundtrip = false ∧ Aqua.Gen.serdeJsonPreserveOrder = false ∧
    Aqua.Gen.serdeJsonUnboundedDepth = false ∧ Aqua.Gen.jvaluePreserveOrder = false ∧
    Aqua.Gen.serdeJsonVersion = "1.0.108" := by decide

/-! ## printing then parsing -/

/-- **Print → parse, any recursion limit.**  Parsing the compact text of a well-formed value returns
exactly that value, whenever the recursion limit exceeds the nesting depth. -/
theorem C26_print_parse_limit (fo : FloatOracle) (limit : Nat) (v : JVal) (hw : WF fo v) (hd : vdepth v < limit) :
    JVal.parseList fo limit v.render.toList = .ok v :=
  parseList_render fo limit v hw hd

/-- **Print → parse** for `serde_json::from_str::<JValue>(&v.to_string())` with serde_json's limit (128):
values nested less than 128 deep come back unchanged. -/
theorem C26_print_parse (fo : FloatOracle) (v : JVal) (hw : WF fo v) (hd : vdepth v < recursionLimit) :
    JVal.parse fo v.render = some v := by
  unfold JVal.parse JVal.parseWith
  rw [parseList_render fo recursionLimit v hw hd]

/-- **Printing is canonical**: well-formed values with the same text are the same value (so a content id
computed from the text is a function of the value and identifies it).  No depth bound. -/
theorem C26_render_injective (fo : FloatOracle) (v w : JVal) (hv : WF fo v) (hw : WF fo w)
    (h : v.render = w.render) : v = w := by
  have h1 := parseList_render fo (vdepth v + vdepth w + 1) v hv (by omega)
  have h2 := parseList_render fo (vdepth v + vdepth w + 1) w hw (by omega)
  rw [h, h2] at h1
  injection h1 with h1
  exact h1.symm

/-- **Parse → print.**  If the float oracle is canonical (every float text it produces is read back as
itself — idempotence of print∘parse on `f64`, a property of the float routines outside the model), then
whatever `from_str` accepts is a well-formed value below the recursion limit, and printing it and parsing
the text again returns the same value: parsing lands in the canonical forms, on which print/parse are
mutually inverse. -/
theorem C26_parse_print_canonical (fo : FloatOracle) (hfo : OracleCanonical fo) (t : String) (v : JVal)
    (h : JVal.parse fo t = some v) :
    WF fo v ∧ vdepth v < recursionLimit ∧ JVal.parse fo v.render = some v := by
  have hp : JVal.parseList fo recursionLimit t.toList = .ok v := by
    unfold JVal.parse JVal.parseWith at h
    split at h
    · rename_i v' hv; simp only [Option.some.injEq] at h; subst h; exact hv
    · exact absurd h (by simp)
  obtain ⟨hw, hd⟩ := parseList_wf fo hfo recursionLimit t.toList v hp
  have hd' : vdepth v < recursionLimit := by unfold recursionLimit at *; omega
  exact ⟨hw, hd', C26_print_parse fo v hw hd'⟩

/-- two texts that parse to the same printed form parse to the same value (and conversely, trivially) -/
theorem C26_parse_canonical_unique (fo : FloatOracle) (hfo : OracleCanonical fo) (t u : String) (v w : JVal)
    (hv : JVal.parse fo t = some v) (hw : JVal.parse fo u = some w) : v.render = w.render ↔ v = w := by
  constructor
  · intro h
    exact C26_render_injective fo v w (C26_parse_print_canonical fo hfo t v hv).1 (C26_parse_print_canonical fo hfo u w hw).1 h
  · intro h; rw [h]

/-- **The model's parser is total for the right reason**: the fuel that `parseWith` supplies is never
exhausted, so a rejection by the model is always one of serde_json's rejections (`syntax`,
`recursionLimit`, `numberOutOfRange`) and never the totalisation artefact. -/
theorem C26_model_never_out_of_fuel (fo : FloatOracle) (s : String) : JVal.parseWith fo s ≠ .error .fuel :=
  parseList_ne_fuel fo recursionLimit s.toList

/-! ## comparing -/

/-- structural comparison is equality (`1` and `1.0` differ by constructor) -/
theorem C26_beq_iff_eq (v w : JVal) : JVal.beq v w = true ↔ v = w := beq_iff v w

/-- the implementation's `==` (derived `PartialEq`; `f64` `==` on floats) is equality up to the sign of
zero floats — and nothing else -/
theorem C26_eq_iff_eq_up_to_zero_sign (v w : JVal) : JVal.valEq v w = true ↔ v.normZero = w.normZero :=
  valEq_iff v w

/-- equal texts ⇒ `==`; `==` ⇒ equal texts once the sign of zeros is normalised -/
theorem C26_eq_vs_print (fo : FloatOracle) (v w : JVal) (hv : WF fo v) (hw : WF fo w) :
    (v.render = w.render → JVal.valEq v w = true) ∧
    (JVal.valEq v w = true → v.normZero.render = w.normZero.render) := by
  constructor
  · intro h
    rw [C26_render_injective fo v w hv hw h, valEq_iff]
  · intro h
    rw [(valEq_iff v w).mp h]

/-! ## `partial_eq.rs` -/

/-- `value == (other: i64)` holds exactly for the integer value `other` -/
theorem C26_peq_i64 (v : JVal) (other : Int) (hhi : other ≤ 9223372036854775807) :
    eqI64 v other = true ↔ v = .num other := by
  unfold eqI64
  cases v <;> simp [JVal.asI64]
  rename_i i
  unfold i64Max
  constructor
  · intro h; split at h <;> simp_all
  · intro h; subst h; simp [hhi]

/-- `value == (other: u64)` holds exactly for the integer value `other` -/
theorem C26_peq_u64 (v : JVal) (other : Int) (hlo : 0 ≤ other) :
    eqU64 v other = true ↔ v = .num other := by
  unfold eqU64
  cases v <;> simp [JVal.asU64]
  rename_i i
  constructor
  · intro h; split at h <;> simp_all
  · intro h; subst h; simp [hlo]

theorem C26_peq_bool (v : JVal) (other : Bool) : eqBool v other = true ↔ v = .bool other := by
  unfold eqBool; cases v <;> simp [JVal.asBool]

theorem C26_peq_str (v : JVal) (other : String) : eqStr v other = true ↔ v = .str other := by
  unfold eqStr; cases v <;> simp [JVal.asStr?]

/-! ## `JValue` ↔ `serde_json::Value` -/

/-- `serde_json::to_value(&JValue::from(&s)) = s` -/
theorem C26_std_roundtrip_from_to (s : StdVal) (h : StdWF s) : toStd (fromStd s) = s := toStd_fromStd s h

/-- `JValue::from(serde_json::to_value(&v)) = v` -/
theorem C26_std_roundtrip_to_from (v : JVal) (h : Sorted v) : fromStd (toStd v) = v := fromStd_toStd v h

/-- converting does not change the printed text -/
theorem C26_std_print_commutes (s : StdVal) (h : StdWF s) : (fromStd s).render = s.render := render_fromStd s h

/-- converting does not change `==` -/
theorem C26_std_eq_commutes (s t : StdVal) (hs : StdWF s) (ht : StdWF t) :
    JVal.valEq (fromStd s) (fromStd t) = StdVal.valEq s t := valEq_fromStd s t hs ht


/-- `to_value` yields a proper `serde_json::Value` with the same text and the same `==` -/
theorem C26_std_to_value (v w : JVal) (hv : Sorted v) (hw : Sorted w) :
    StdWF (toStd v) ∧ (toStd v).render = v.render ∧ StdVal.valEq (toStd v) (toStd w) = JVal.valEq v w := by
  have sv := stdWF_toStd v hv
  have sw := stdWF_toStd w hw
  refine ⟨sv, ?_, ?_⟩
  · rw [← render_fromStd (toStd v) sv, fromStd_toStd v hv]
  · rw [← valEq_fromStd (toStd v) (toStd w) sv sw, fromStd_toStd v hv, fromStd_toStd w hw]

/-- well-formed values have sorted keys (the hypothesis of the conversion theorems) -/
theorem C26_wf_sorted (fo : FloatOracle) (v : JVal) (h : WF fo v) : Sorted v := sorted_of_WF fo v h

/-! ## Non-vacuity: a concrete oracle and a concrete nested value meeting every hypothesis above -/

/-- a toy oracle knowing one float: `15 × 10⁻¹ ↦ "1.5"` -/
def fo0 : FloatOracle := fun p s e => if p = true ∧ s = 15 ∧ e = -1 then some "1.5" else none

theorem floatRT_fo0 : FloatRT fo0 "1.5" := by
  refine ⟨⟨'1', ['.', '5'], by decide, Or.inr (by decide)⟩, ?_⟩
  intro rest hr
  have h : "1.5".toList = ['1', '.', '5'] := by decide
  rw [h]
  cases rest with
  | nil =>
    simp [parseNumTok, parseInteger, intLoop, parseNumber, parseDecimal, decLoop, numberTail, f64FromParts, fo0,
        isDigit, digitVal, overflowMul, u64Max]
  | cons c r =>
    simp only [restOk, Bool.or_eq_true, beq_iff_eq] at hr
    rcases hr with (hc | hc) | hc <;> subst hc <;>
      simp [parseNumTok, parseInteger, intLoop, parseNumber, parseDecimal, decLoop, numberTail, f64FromParts, fo0,
        isDigit, digitVal, overflowMul, u64Max]

def v0 : JVal := .obj [("a", .arr [.num 1, .float "1.5", .str "x\n", .num (-9223372036854775808)]), ("b", .null), ("é", .obj [])]

theorem wf_v0 : WF fo0 v0 := by
  simp only [v0, WF, WFPairs, WFList, KeysSorted, and_true, true_and]
  refine ⟨⟨⟨⟨by omega, by omega⟩, floatRT_fo0, by omega, by omega⟩, by simp⟩, ?_⟩
  simp only [List.map, List.pairwise_cons, List.Pairwise.nil, and_true]
  decide
example : vdepth v0 < recursionLimit := by decide
example : JVal.parse fo0 v0.render = some v0 := C26_print_parse fo0 v0 wf_v0 (by decide)
example : v0.render = "{\"a\":[1,1.5,\"x\\n\",-9223372036854775808],\"b\":null,\"é\":{}}" := by decide

example : Sorted v0 := C26_wf_sorted fo0 v0 wf_v0
example : fromStd (toStd v0) = v0 := C26_std_roundtrip_to_from v0 (C26_wf_sorted fo0 v0 wf_v0)
example : StdWF (.object [("a", .number (.negInt (-1))), ("b", .array [.number (.posInt 18446744073709551615), .number (.float "-0.0")])]) := by
  simp only [StdWF, StdWFPairs, StdWFList, List.map, and_true]
  refine ⟨by omega, ?_⟩
  simp only [List.pairwise_cons, List.Pairwise.nil, and_true]; decide
example : JVal.valEq (.arr [.float "0.0"]) (.arr [.float "-0.0"]) = true := by decide
example : JVal.beq (.num 1) (.float "1.0") = false := by decide
example : eqI64 (.num 9223372036854775808) 9223372036854775807 = false := by decide
example : eqU64 (.num 9223372036854775808) 9223372036854775808 = true := by decide


theorem fo0_canonical : OracleCanonical fo0 := by
  intro p s e r h
  unfold fo0 at h
  split at h
  · simp only [Option.some.injEq] at h; subst h; exact floatRT_fo0
  · exact absurd h (by simp)

/-- a text with whitespace, an array, a float, and a duplicate key (the later `"b"` wins, keys come out sorted) -/
theorem parse_example : JVal.parse fo0 "{\"b\":1, \"a\":[1.5],\"b\":null}" = some (.obj [("a", .arr [.float "1.5"]), ("b", .null)]) := by
  have h : "{\"b\":1, \"a\":[1.5],\"b\":null}".toList = ['{', '"', 'b', '"', ':', '1', ',', ' ', '"', 'a', '"', ':', '[', '1', '.', '5', ']', ',', '"', 'b', '"', ':', 'n', 'u', 'l', 'l', '}'] := by decide
  have hb : String.ofList ['b'] = "b" := by decide
  have ha : String.ofList ['a'] = "a" := by decide
  simp [JVal.parse, JVal.parseWith, JVal.parseList, h, recursionLimit, parseValue, parseElems, parseMembers, skipWs, isWs, parseNumTok, parseInteger, intLoop, parseNumber,
    parseDecimal, decLoop, numberTail, f64FromParts, fo0, isDigit, digitVal, overflowMul, u64Max, parseStr, parseStrChars, consChar, parseIdent, JVal.mkObj, insertSorted, strLt, ha, hb]
example : WF fo0 (.obj [("a", .arr [.float "1.5"]), ("b", .null)]) := (C26_parse_print_canonical fo0 fo0_canonical _ _ parse_example).1
example : JVal.parse fo0 " [1.5 ,[ 1,-2 ]]\n" = some (.arr [.float "1.5", .arr [.num 1, .num (-2)]]) := by
  have h : " [1.5 ,[ 1,-2 ]]\n".toList = [' ', '[', '1', '.', '5', ' ', ',', '[', ' ', '1', ',', '-', '2', ' ', ']', ']', '\n'] := by decide
  simp [JVal.parse, JVal.parseWith, JVal.parseList, h, recursionLimit, parseValue, parseElems, skipWs, isWs, parseNumTok, parseInteger, intLoop, parseNumber,
    parseDecimal, decLoop, numberTail, f64FromParts, fo0, isDigit, digitVal, overflowMul, u64Max, wrappingNegAsI64, i64MinAbs]

end AquaProps.C26
