import AquaProps.Lemmas.MergeLattice
/-!
# C07 — re-delivering already merged data changes nothing

Proved (all states): the per-state merges are idempotent and absorbing — merging the merged state `m`
again with either input gives `m` back (content-wise).  The run-level statement `f(c,b) = f(c,a) =
f(c,c) = f(c,∅) = c` (`C07_full`) is checked after every step of every simulated history by the direct
oracle; it is not proved (`_partial`).
-/
namespace AquaProps.C07
open Aqua Aqua.Data Aqua.Trace AquaProps.Merge

def C07_full (trace : α → List ExecutedState) (run : α → Option α → Option α) : Prop :=
  ∀ a b c, run a (some b) = some c →
    ∀ x ∈ [some b, some a, some c, none], ∃ c', run c x = some c' ∧ trace c' = trace c

theorem C07_call_merge_idempotent_partial (x : CallResult) : ∃ s, mergeCallResults x x = .ok (x, s) := mergeCall_idem x

theorem C07_canon_merge_idempotent_partial (x : CanonResult) : mergeCanonResults x x = .ok x := mergeCanon_idem x

/-- absorbing: once `m = merge p c`, merging `m` (as previous) with `c` or with `p` again keeps `m`'s content,
and the merged state is `m` itself (previous wins) -/
theorem C07_call_merge_absorbs_partial (p c m : CallResult) (s : PreparationScheme) (h : mergeCallResults p c = .ok (m, s)) :
    (∃ s', mergeCallResults m c = .ok (m, s') ∨ ∃ m', mergeCallResults m c = .ok (m', s') ∧ contentOf m' = contentOf m) ∧
    (∃ s', mergeCallResults m p = .ok (m, s') ∨ ∃ m', mergeCallResults m p = .ok (m', s') ∧ contentOf m' = contentOf m) := by
  have hk := mergeCall_keeps_results p c m s h
  have absorb : ∀ x : CallResult, (isResult x → contentOf m = contentOf x) →
      ∃ s', mergeCallResults m x = .ok (m, s') ∨ ∃ m', mergeCallResults m x = .ok (m', s') ∧ contentOf m' = contentOf m := by
    intro x hx
    have hcompat : ¬ (isResult m ∧ isResult x ∧ contentOf m ≠ contentOf x) := fun ⟨_, hr, hne⟩ => hne (hx hr)
    obtain ⟨m', s', hm'⟩ := mergeCall_ok_of_compatible m x hcompat
    refine ⟨s', .inr ⟨m', hm', ?_⟩⟩
    have hk' := mergeCall_keeps_results m x m' s' hm'
    by_cases hm : isResult m
    · exact hk'.1 hm
    · by_cases hr : isResult x
      · rw [hk'.2 hr, hx hr]
      · have up := mergeCall_upper m x m' s' hm'
        have pm : contentOf m = .pending := by simpa [isResult] using hm
        have px : contentOf x = .pending := by simpa [isResult] using hr
        rcases up.2.2 with rfl | rfl <;> simp [pm, px]
  exact ⟨absorb c hk.2, absorb p hk.1⟩

end AquaProps.C07
