import Aqua.Run.Runner
/-!
# C22 — size limits are enforced exactly as configured

Statements are about `Aqua.Run.executeAir` for **every** instantiation of the stages
(`Stages B D S A C K X`), every input and every limit configuration `l : Limits`
(the four limit fields of `RunParameters`; the remaining fields are `inp.params`).
-/
namespace AquaProps.C22
open Aqua Aqua.Run

variable {B D S A C K X : Type}

/-- the call-result stage is reached: everything before `make_exec_ctx`'s size check succeeded;
returns the deserialised call results -/
def reachedCallResults (St : Stages B D S A C K X) (inp : RunInput B) : Option C :=
  match St.parseData inp.prev inp.cur with
  | .error _ => none
  | .ok (p, c) =>
    match St.verify p c inp.params.particleId with
    | .error _ => none
    | .ok _ =>
      match St.parseAir inp.air with
      | .error _ => none
      | .ok _ =>
        match St.deCallResults inp.callResults with
        | .error _ => none
        | .ok crs => some crs

/-- specification of the three soft-limit flags, written from the property text -/
def expectedFlags (St : Stages B D S A C K X) (l : Limits) (inp : RunInput B) : Flags :=
  { air := decide (l.airSizeLimit < inp.air.utf8ByteSize)
    particle := decide (l.particleSizeLimit < St.blob.len inp.cur)
    callResult := match reachedCallResults St inp with
      | none => false
      | some crs => anyExceeds l.callResultSizeLimit (St.resultLens crs) }

/-- Hard mode, script larger than its limit: rejected with the AIR size error, previous data returned,
nothing forwarded, no requests. -/
theorem C22_hard_air (St : Stages B D S A C K X) (l : Limits) (inp : RunInput B)
    (hh : l.hardLimitEnabled = true)
    (ha : l.airSizeLimit < inp.air.utf8ByteSize) :
    let o := executeAir St l inp
    o.retCode = (St.sizeErr (.air inp.air.utf8ByteSize l.airSizeLimit)).code ∧
    o.data = inp.prev ∧ o.nextPeerPks = [] ∧ o.callRequests = St.emptyCallRequests := by
  simp [executeAir, checkAgainstSizeLimits, handleLimitExceeding, hh, ha, fromUncatchableError]

/-- Hard mode, script within its limit, current data larger than the particle limit. -/
theorem C22_hard_particle (St : Stages B D S A C K X) (l : Limits) (inp : RunInput B)
    (hh : l.hardLimitEnabled = true)
    (ha : ¬ l.airSizeLimit < inp.air.utf8ByteSize)
    (hp : l.particleSizeLimit < St.blob.len inp.cur) :
    let o := executeAir St l inp
    o.retCode = (St.sizeErr (.particle (St.blob.len inp.cur) l.particleSizeLimit)).code ∧
    o.data = inp.prev ∧ o.nextPeerPks = [] ∧ o.callRequests = St.emptyCallRequests := by
  simp [executeAir, checkAgainstSizeLimits, handleLimitExceeding, hh, ha, hp, fromUncatchableError]

/-- Hard mode, script and particle within limits, the earlier stages pass, and some call result is
larger than the call-result limit. -/
theorem C22_hard_call_result (St : Stages B D S A C K X) (l : Limits) (inp : RunInput B) (crs : C)
    (hh : l.hardLimitEnabled = true)
    (ha : ¬ l.airSizeLimit < inp.air.utf8ByteSize)
    (hp : ¬ l.particleSizeLimit < St.blob.len inp.cur)
    (hr : reachedCallResults St inp = some crs)
    (hc : anyExceeds l.callResultSizeLimit (St.resultLens crs) = true) :
    let o := executeAir St l inp
    o.retCode = (St.sizeErr (.callResult l.callResultSizeLimit)).code ∧
    o.data = inp.prev ∧ o.nextPeerPks = [] ∧ o.callRequests = St.emptyCallRequests := by
  unfold reachedCallResults at hr
  simp only [executeAir, checkAgainstSizeLimits, handleLimitExceeding, hh, ha, hp]
  split at hr <;> try contradiction
  rename_i p c hpd
  split at hr <;> try contradiction
  rename_i s hv
  split at hr <;> try contradiction
  rename_i a hpa
  split at hr <;> try contradiction
  rename_i crs' hde
  cases hr
  simp [hpd, hv, hpa, hde, checkCallResults, handleLimitExceeding, hh, hc, fromUncatchableError]

/-- "nothing exceeds `l`" for the sizes of this input -/
def NothingExceeds (St : Stages B D S A C K X) (l : Limits) (inp : RunInput B) : Prop :=
  ¬ l.airSizeLimit < inp.air.utf8ByteSize ∧ ¬ l.particleSizeLimit < St.blob.len inp.cur ∧
  ∀ crs, reachedCallResults St inp = some crs → anyExceeds l.callResultSizeLimit (St.resultLens crs) = false

/-- **Soft mode = unlimited run + flags.**  In soft mode the outcome is exactly the outcome of the same
run under any limits `l'` that nothing exceeds (`l'` in either mode), except that the flags are the
expected ones. -/
theorem C22_soft_equiv (St : Stages B D S A C K X) (l l' : Limits) (inp : RunInput B)
    (hs : l.hardLimitEnabled = false)
    (hn : NothingExceeds St l' inp) :
    executeAir St l inp = { executeAir St l' inp with flags := expectedFlags St l inp } := by
  obtain ⟨ha', hp', hc'⟩ := hn
  unfold reachedCallResults at hc'
  unfold expectedFlags reachedCallResults
  simp only [executeAir, checkAgainstSizeLimits, handleLimitExceeding, hs, ha', hp',
    checkCallResults, Bool.false_eq_true, if_false]
  by_cases h1 : l.airSizeLimit < inp.air.utf8ByteSize <;>
  by_cases h2 : l.particleSizeLimit < St.blob.len inp.cur <;>
  simp only [h1, h2, if_true, if_false, decide_true, decide_false] <;>
  (cases hpd : St.parseData inp.prev inp.cur with
  | error e => simp [fromUncatchableError]
  | ok pc =>
    obtain ⟨p, c⟩ := pc
    simp only [hpd] at hc' ⊢
    cases hv : St.verify p c inp.params.particleId with
    | error e => simp [fromUncatchableError]
    | ok s =>
      simp only [hv] at hc' ⊢
      cases hpa : St.parseAir inp.air with
      | error e => simp [fromUncatchableError]
      | ok a =>
        simp only [hpa] at hc' ⊢
        cases hde : St.deCallResults inp.callResults with
        | error e => simp [fromUncatchableError]
        | ok crs =>
          simp only [hde] at hc' ⊢
          have hcl := hc' crs rfl
          simp only [hcl, Bool.false_eq_true, if_false]
          cases h3 : anyExceeds l.callResultSizeLimit (St.resultLens crs) <;>
          simp only [if_true, if_false, Bool.false_eq_true] <;>
          (cases St.keypair inp.params with
           | error e => simp [fromUncatchableError]
           | ok kp =>
             simp only
             generalize St.execute a p c crs s inp.params = r
             obtain ⟨exit, x0⟩ := r
             simp only [finish]
             cases St.signProduced x0 kp inp.params.particleId with
             | error e => simp [fromUncatchableError]
             | ok x =>
               simp only
               cases exit with
               | ok => cases St.leftover x <;> simp [populateOutcome] <;> cases St.populate x kp <;> simp
               | catchable e => simp [populateOutcome]; cases St.populate x kp <;> simp
               | uncatchable e => simp [fromUncatchableError]))

/-- `expectedFlags` are all false when nothing exceeds -/
theorem expectedFlags_none (St : Stages B D S A C K X) (l : Limits) (inp : RunInput B)
    (hn : NothingExceeds St l inp) : expectedFlags St l inp = {} := by
  obtain ⟨ha, hp, hc⟩ := hn
  unfold expectedFlags
  cases hr : reachedCallResults St inp with
  | none => simp [ha, hp]
  | some crs => simp [ha, hp, hc crs hr]

/-- Inputs at or below every limit never trigger a limit, **in either mode**: no flag is raised and
the outcome is the same as under any other limits that nothing exceeds. -/
theorem C22_at_or_below_never_triggers (St : Stages B D S A C K X) (l : Limits) (inp : RunInput B)
    (hn : NothingExceeds St l inp) :
    (executeAir St l inp).flags = {} ∧
    ∀ l', NothingExceeds St l' inp → executeAir St l inp = executeAir St l' inp := by
  -- a run in which nothing exceeds does not look at the mode: compare both with the soft variant
  have key : ∀ l₁, NothingExceeds St l₁ inp →
      executeAir St l₁ inp = { executeAir St l inp with flags := {} } := by
    intro l₁ h₁
    obtain ⟨ha, hp, hc⟩ := h₁
    have hsoft := C22_soft_equiv St { l₁ with hardLimitEnabled := false } l inp rfl hn
    have hf : expectedFlags St { l₁ with hardLimitEnabled := false } inp = {} :=
      expectedFlags_none St _ inp ⟨ha, hp, hc⟩
    rw [hf] at hsoft
    rw [← hsoft]
    -- `l₁` and its soft variant agree when nothing exceeds
    unfold reachedCallResults at hc
    simp only [executeAir, checkAgainstSizeLimits, ha, hp, if_false, checkCallResults]
    cases hpd : St.parseData inp.prev inp.cur with
    | error e => rfl
    | ok pc =>
      obtain ⟨p, c⟩ := pc
      simp only [hpd] at hc ⊢
      cases hv : St.verify p c inp.params.particleId with
      | error e => rfl
      | ok s =>
        simp only [hv] at hc ⊢
        cases hpa : St.parseAir inp.air with
        | error e => rfl
        | ok a =>
          simp only [hpa] at hc ⊢
          cases hde : St.deCallResults inp.callResults with
          | error e => rfl
          | ok crs =>
            simp only [hde] at hc ⊢
            simp only [hc crs rfl, Bool.false_eq_true, if_false]
  have hself := key l hn
  refine ⟨?_, ?_⟩
  · rw [hself]
  · intro l' hl'
    rw [key l' hl', ← hself]

/-! ### Non-vacuity: a concrete instantiation exercising the hypotheses -/

/-- toy stages: blobs are byte lists, every stage succeeds, one call result of the length of the bytes -/
def toy : Stages Bytes Unit Unit Unit Bytes Unit Unit where
  blob := { len := List.length, empty := [] }
  parseData := fun _ _ => .ok ((), ())
  verify := fun _ _ _ => .ok ()
  parseAir := fun _ => .ok ()
  deCallResults := fun b => .ok b
  resultLens := fun b => [b.length]
  keypair := fun _ => .ok ()
  execute := fun _ _ _ _ _ _ => (.ok, ())
  signProduced := fun x _ _ => .ok x
  leftover := fun _ => none
  populate := fun _ _ => .ok { data := [1], nextPeerPks := ["p"], callRequests := [2] }
  sizeErr := fun _ => ⟨10, "size"⟩
  emptyCallRequests := [0x80]

def toyInput : RunInput Bytes :=
  { air := "(null)", prev := [7], cur := [1, 2, 3], params := default, callResults := [9, 9] }

example : reachedCallResults toy toyInput = some [9, 9] := rfl
example : anyExceeds 1 (toy.resultLens [9, 9]) = true := by decide
example : NothingExceeds toy ⟨6, 3, 2, true⟩ toyInput := by
  refine ⟨by decide, by decide, ?_⟩
  intro crs h; cases h; decide
example : (executeAir toy ⟨6, 3, 1, true⟩ toyInput).retCode = 10 := by decide
example : (executeAir toy ⟨6, 3, 1, false⟩ toyInput).flags = ⟨false, false, true⟩ := by decide

end AquaProps.C22
