import AquaProps.Lemmas.EnvInvCall
import Aqua.Exec.Run
/-!
# C17 — security tetraplets describe where each argument came from

*Specification* (`Aqua/Exec/Prov.lean`, written from the property text): a provenance environment
`ProvEnv` attributes every name to a producer triplet plus the lens applied so far;
`expectedTetraplets arg env` is what the property promises for one call argument; `prov c` reads the
environment off an execution context.

*Theorems* (about the executor model `Aqua.Exec.*`, for EVERY context / script / fuel / data):

* `C17_resolve_spec_partial`, `C17_collect_args_spec`, `C17_request_tetraplets` — the resolver, the
  argument collector and the request builder hand out exactly the specified tetraplets, one list per
  argument;
* `C17_call_result_tetraplet`, `C17_merged_value_tetraplet`, `C17_ap_binding`,
  `C17_fold_element_tetraplet` — the binding rules: what is stored when a call result (local or arriving
  via merged data), an `ap` or a fold iterator binds a name;
* `C17_env_inv_preserved`, `C17_requests_along_exec`, `C17_run_requests` — the invariant "every stored
  tetraplet (scalars, fold iterables, streams, canon streams, error values) extends a tetraplet recorded in
  the particle's tetraplet store" is preserved by every instruction (incl. streams, `canon`, stream folds),
  and every request issued anywhere during a run was built in a context satisfying it;
* where the property is silent or the code deviates: `C17_functor_tetraplet`,
  `C17_error_lens_not_recorded`, `C17_full_refuted_by_error_lens`.
-/
namespace AquaProps.C17
open Aqua Aqua.Exec Aqua.Air Aqua.Trace Aqua.Json Aqua.Data AquaProps

/-! ## the resolver meets the specification -/

/-- **Resolver = specification** for every argument kind the property covers unambiguously and the
model executes (literals, built-ins, scalars, iterators, scalar lenses, bare `:error:` / `%last_error%`).
Partial: see `C17_full` below. -/
theorem C17_resolve_spec_partial (c : Ctx) (arg : Value) (v : JVal) (ts : List Tetraplet) (p : Provenance)
    (hcov : Covered arg = true) (h : resolveValue c arg = .ok (v, ts, p)) :
    expectedTetraplets arg (prov c) = some ts :=
  resolve_spec c arg v ts p hcov h

/-- The full-strength statement: for EVERY argument the property speaks about (everything but the
`.length` functor) — including lenses on `:error:` / `%last_error%` and canon streams / maps.
Missing from `C17_resolve_spec_partial`:
* lenses on `:error:` / `%last_error%`: the code does NOT record the lens — `C17_full` is refuted
  (`C17_full_refuted_by_error_lens`), a finding replayed on the real interpreter by the harness;
* lenses into canon streams and canon maps (`#c.$.[0].field`, `#%m.$.key`): executed by the model
  (`canonStreamApplyLambda`, `canonMapApplyLambda`, compared with the implementation by the correspondence runs) but the
  code deviates from the wording: `#c.$.[i].field` hands out the element's tetraplet WITHOUT `.field` (second finding:
  lens dropped), `#%m.$.key` REPLACES the lens field (`C17_canon_map_lens_key_tetraplet`), `#%m.$.key.[i]` is the
  tetraplet of the `i`-th value under the key (`C17_canon_map_lens_key_index_tetraplet`).  Whole canon streams (`#c`)
  and whole canon maps (`#%m`) ARE covered by `C17_resolve_spec_partial`. -/
def C17_full : Prop :=
  ∀ (c : Ctx) (arg : Value) (v : JVal) (ts : List Tetraplet) (p : Provenance),
    SpecDefined arg = true → resolveValue c arg = .ok (v, ts, p) → expectedTetraplets arg (prov c) = some ts

/-- what the code does for a lens on an error value: the tetraplet is the one of the bare error value;
the lens text is not appended (deviation from "the exact lens applied") -/
theorem C17_error_lens_not_recorded (c : Ctx) (l : Lambda) (v : JVal) (ts : List Tetraplet) (p : Provenance) :
    (resolveValue c (.error (some l)) = .ok (v, ts, p) → expectedTetraplets (.error none) (prov c) = some ts) ∧
    (resolveValue c (.lastError (some l)) = .ok (v, ts, p) → expectedTetraplets (.lastError none) (prov c) = some ts) := by
  constructor
  · intro h
    simp only [resolveValue] at h
    obtain ⟨h1, _⟩ := resolveErrors_tetraplets c _ _ _ _ _ h
    subst h1
    simp only [expectedTetraplets, prov]
    cases c.error.error.tetraplet <;> rfl
  · intro h
    simp only [resolveValue] at h
    obtain ⟨h1, _⟩ := resolveErrors_tetraplets c _ _ _ _ _ h
    subst h1
    simp only [expectedTetraplets, prov]
    cases c.lastError.error.tetraplet <;> rfl

/-- what the code does where the property is silent: `x.length` carries the erased tetraplet
`("", "", "", ".length")` — no trace of the producer of `x` -/
theorem C17_functor_tetraplet (c : Ctx) (n : String) (v : JVal) (ts : List Tetraplet) (p : Provenance)
    (h : resolveValue c (.scalarWL n .functorLength) = .ok (v, ts, p)) : ts = [functorTetraplet] := by
  simp only [resolveValue] at h
  cases hg : c.scalars.getValue n with
  | ok r =>
    simp only [hg, bind, Res.bind] at h
    cases hp : r.parts with
    | ok x =>
      obtain ⟨v', t', p'⟩ := x
      simp only [hp] at h
      cases hs : selectByLambdaFromScalar c.scalars v' .functorLength with
      | ok sel =>
        simp only [hs, pure] at h
        injection h with h; injection h with _ h; injection h with h _
        subst h; rfl
      | error e => simp [hs] at h
      | panic s => simp [hs] at h
    | error e => simp [hp] at h
    | panic s => simp [hp] at h
  | error e => simp [hg, bind, Res.bind] at h
  | panic s => simp [hg, bind, Res.bind] at h

/-! ## arguments and requests -/

/-- `collect_args`: one value and one tetraplet list per argument, in order, each list as specified -/
theorem C17_collect_args_spec (c : Ctx) (args : List Value) (vs : List JVal) (tss : List (List Tetraplet))
    (h : collectArgs c args = .ok (vs, tss)) :
    vs.length = args.length ∧ tss.length = args.length ∧
    ∀ (i : Nat) (a : Value) (ts : List Tetraplet), args[i]? = some a → tss[i]? = some ts → Covered a = true →
      expectedTetraplets a (prov c) = some ts := by
  obtain ⟨hl, hs⟩ := collectArgs_spec c args vs tss h
  exact ⟨hl, hs.length_eq, fun i a ts ha hts => hs.get i a ts ha hts⟩

/-- **Every request carries, per argument, exactly the specified tetraplets.**  `issueRequest` is the only
place where the model creates a call request. -/
theorem C17_request_tetraplets (t : Tetraplet) (args : List Value) (c c' : Ctx) (h : issueRequest t args c = .ok c') :
    ∃ r : CallRequest, c'.callRequests = c.callRequests ++ [(c.lastCallRequestId + 1, r)] ∧
      r.serviceId = t.serviceId ∧ r.functionName = t.functionName ∧
      r.arguments.length = args.length ∧ r.tetraplets.length = args.length ∧
      ∀ (i : Nat) (a : Value) (ts : List Tetraplet), args[i]? = some a → r.tetraplets[i]? = some ts → Covered a = true →
        expectedTetraplets a (prov c) = some ts := by
  unfold issueRequest at h
  split at h
  · rename_i vs tss hca
    split at h
    · cases h
    · injection h with h; subst h
      obtain ⟨h1, h2, h3⟩ := C17_collect_args_spec c args vs tss hca
      exact ⟨⟨t.serviceId, t.functionName, vs, tss, t.peerPk⟩, rfl, rfl, rfl, h1, h2, h3⟩
  · cases h
  · cases h

/-! ## binding rules -/

theorem lookup_upsert_self {β : Type} (l : List (String × β)) (k : String) (v : β) : lookup (upsert l k v) k = some v := by
  unfold lookup upsert
  split
  · rename_i h
    obtain ⟨e, he, hk⟩ := List.any_eq_true.mp h
    rw [List.find?_map]
    have hcomp : ((fun (x : String × β) => x.1 == k) ∘ fun (x : String × β) => if (x.1 == k) = true then (x.1, v) else (x.1, x.2)) =
        fun (x : String × β) => x.1 == k := by
      funext x
      simp only [Function.comp]
      split <;> rfl
    have hsome : (l.find? (fun (x : String × β) => x.1 == k)).isSome := by
      rw [List.find?_isSome]
      exact ⟨e, he, hk⟩
    cases hf : l.find? (fun (x : String × β) => x.1 == k) with
    | none => simp [hf] at hsome
    | some e0 =>
      have hp := List.find?_some hf
      have hgoal : (Option.map (fun (x : String × β) => if (x.1 == k) = true then (x.1, v) else (x.1, x.2))
          (l.find? ((fun (x : String × β) => x.1 == k) ∘ fun (x : String × β) => if (x.1 == k) = true then (x.1, v) else (x.1, x.2)))).map (·.2) = some v := by
        rw [hcomp, hf]
        simp only [Option.map]
        rw [if_pos hp]
      exact hgoal
  · rename_i h
    have hnone : l.find? (fun (x : String × β) => x.1 == k) = none := by
      rw [List.find?_eq_none]
      intro x hx hk
      exact h (List.any_eq_true.mpr ⟨x, hx, hk⟩)
    rw [List.find?_append, hnone]
    simp

/-- after `set_scalar_value` the top cell of `name` holds the aggregate -/
theorem setScalarValue_top {s s' : Scalars} {name : String} {va : ValueAggregate} (h : s.setScalarValue name va = .ok s') :
    ∃ stack cell, s'.nonIterable.getCells name = some stack ∧ stack.getLast? = some cell ∧ cell.value = some va := by
  unfold Scalars.setScalarValue at h
  cases hm : s.nonIterable.setValue name va with
  | ok r =>
    obtain ⟨b, m⟩ := r
    simp [hm, bind, Res.bind, pure] at h
    subst h
    unfold SparseMatrix.setValue at hm
    cases hg : s.nonIterable.getCells name with
    | none =>
      simp only [hg] at hm
      injection hm with hm; injection hm with _ hm; subst hm
      exact ⟨_, _, lookup_upsert_self _ _ _, rfl, rfl⟩
    | some cells =>
      simp only [hg] at hm
      split at hm
      · simp [uncatchable] at hm
      · cases hl : cells.getLast? with
        | none =>
          simp only [hl] at hm
          injection hm with hm; injection hm with _ hm; subst hm
          exact ⟨_, _, lookup_upsert_self _ _ _, rfl, rfl⟩
        | some last =>
          simp only [hl] at hm
          split at hm
          · injection hm with hm; injection hm with _ hm; subst hm
            exact ⟨_, ⟨last.depth, some va⟩, lookup_upsert_self _ _ _, by simp, rfl⟩
          · injection hm with hm; injection hm with _ hm; subst hm
            exact ⟨_, ⟨s.nonIterable.currentDepth, some va⟩, lookup_upsert_self _ _ _, by simp, rfl⟩
  | error e => simp [hm, bind, Res.bind] at h
  | panic e => simp [hm, bind, Res.bind] at h

/-- **A value produced on this peer** is bound with the tetraplet of the call that produced it — the
resolved (peer, service, function), no lens — and is recorded under its CID in the CID stores. -/
theorem C17_call_result_tetraplet (env : Env) (c c' : Ctx) (result : JVal) (t : Tetraplet) (ah : String) (pos : Nat) (name : String)
    (cr : CallResult) (h : populateFromPeerServiceResult env c result t ah pos (.scalar name) = .ok (cr, c')) :
    ∃ stack cell, c'.scalars.nonIterable.getCells name = some stack ∧ stack.getLast? = some cell ∧
      cell.value = some ⟨result, t, pos, .serviceResult (trackServiceResult env c.cid result t ah).1⟩ ∧
      cr = .executed (.scalar (trackServiceResult env c.cid result t ah).1) ∧
      lookup c'.cid.serviceResults (trackServiceResult env c.cid result t ah).1 =
        some ⟨env.hash result.render, ah, env.hash t.json⟩ ∧
      lookup c'.cid.tetraplets (env.hash t.json) = some t := by
  simp only [populateFromPeerServiceResult, bind, Res.bind] at h
  cases hs : ({ c with cid := (trackServiceResult env c.cid result t ah).2 } : Ctx).scalars.setScalarValue name
      ⟨result, t, pos, .serviceResult (trackServiceResult env c.cid result t ah).1⟩ with
  | ok sc =>
    simp only [hs, pure] at h
    injection h with h; injection h with h1 h2; subst h1 h2
    obtain ⟨stack, cell, g1, g2, g3⟩ := setScalarValue_top hs
    refine ⟨stack, cell, by simpa using g1, g2, g3, rfl, ?_, ?_⟩
    · simp only [rcc_cid, trackServiceResult, trackValue, trackTetraplet]
      exact lookup_upsert_self _ _ _
    · simp only [rcc_cid, trackServiceResult, trackValue, trackTetraplet]
      exact lookup_upsert_self _ _ _
  | error e => simp [hs] at h
  | panic s => simp [hs] at h

/-- **A value arriving via merged data** (a previous / current trace state `executed(scalar cid)`) is bound
with the tetraplet `t` of the call instruction that consumes it, and this is only possible when the
tetraplet recorded for `cid` in the CID stores is that same `t` (and the argument hash matches):
`verify_call`. -/
theorem C17_merged_value_tetraplet (env : Env) (c c' : Ctx) (cid : Cid) (ah : String) (t : Tetraplet) (pos : Nat) (name : String)
    (src : ValueSource) (h : populateFromData env c (.scalar cid) ah t pos (.scalar name) src = .ok c') :
    ∃ v agg, lookup c.cid.serviceResults cid = some agg ∧ lookup c.cid.tetraplets agg.tetrapletCid = some t ∧
      agg.argumentHash = ah ∧
      ∃ stack cell, c'.scalars.nonIterable.getCells name = some stack ∧ stack.getLast? = some cell ∧
        cell.value = some ⟨v, t, pos, .serviceResult cid⟩ := by
  simp only [populateFromData, bind, Res.bind] at h
  cases hr : resolveServiceInfo env c.cid cid with
  | ok x =>
    obtain ⟨v, curT, agg⟩ := x
    simp only [hr] at h
    cases hv : verifyCall ah t agg.argumentHash curT with
    | ok u =>
      simp only [hv] at h
      cases hs : c.scalars.setScalarValue name ⟨v, t, pos, .serviceResult cid⟩ with
      | ok sc =>
        simp only [hs, pure] at h
        injection h with h; subst h
        obtain ⟨hsr, htet, _⟩ := resolveServiceInfo_ok hr
        obtain ⟨hah, heq⟩ := verifyCall_ok hv
        subst heq
        exact ⟨v, agg, hsr, htet, hah.symm, setScalarValue_top hs⟩
      | error e => simp [hs] at h
      | panic s => simp [hs] at h
    | error e => simp [hv] at h
    | panic s => simp [hv] at h
  | error e => simp [hr] at h
  | panic s => simp [hr] at h

/-- the normal form `ValueAggregate::new` stores: service results keep the whole tetraplet -/
theorem new_tetraplet (v : JVal) (t : Tetraplet) (pos : Nat) (p : Provenance) :
    (∀ k, p = .serviceResult k → (ValueAggregate.new v t pos p).tetraplet = t) ∧
    (p = .literal → (ValueAggregate.new v t pos p).tetraplet = Tetraplet.literal t.peerPk) ∧
    (ValueAggregate.new v t pos p).provenance = p := by
  cases p <;> simp [ValueAggregate.new]

/-- **`ap`**: the aggregate bound by `(ap arg name)` carries the tetraplet the specification gives for
`arg` (for values with a service-result provenance: exactly; the literal variant of `ValueAggregate`
keeps the peer only). -/
theorem C17_ap_binding (c : Ctx) (arg : Value) (va : ValueAggregate) (t : Tetraplet)
    (hcov : Covered arg = true) (h : applyToArg c arg = .ok va) (hs : expectedTetraplets arg (prov c) = some [t]) :
    (∀ k, va.provenance = .serviceResult k → va.tetraplet = t) ∧
    (va.provenance = .literal → va.tetraplet = t ∨ va.tetraplet = Tetraplet.literal t.peerPk) := by
  have hnew : ∀ {v : JVal} {ts : List Tetraplet} {p : Provenance}, resolveValue c arg = .ok (v, ts, p) →
      (match ts with
        | t :: _ => (pure (ValueAggregate.new v t c.th.tracePos p) : ER ValueAggregate)
        | [] => Res.panic "apply_to_arguments.rs:tetraplets.remove(0)") = .ok va →
      (∀ k, va.provenance = .serviceResult k → va.tetraplet = t) ∧
      (va.provenance = .literal → va.tetraplet = t ∨ va.tetraplet = Tetraplet.literal t.peerPk) := by
    intro v ts p hr hm
    have := resolve_spec c arg v ts p hcov hr
    rw [hs] at this
    injection this with this; subst this
    simp only [pure] at hm
    injection hm with hm; subst hm
    obtain ⟨h1, h2, h3⟩ := new_tetraplet v t c.th.tracePos p
    exact ⟨fun k hk => h1 k (h3 ▸ hk), fun hl => Or.inr (h2 (h3 ▸ hl))⟩
  cases arg with
  | initPeerId | literal _ | timestamp | ttl | number _ | float _ | boolean _ | emptyArray =>
    simp only [applyToArg] at h
    injection h with h; subst h
    simp only [expectedTetraplets] at hs
    injection hs with hs; injection hs with hs
    subst hs
    exact ⟨fun k hk => (by cases hk), fun _ => Or.inl rfl⟩
  | error l =>
    simp only [applyToArg, bind, Res.bind] at h
    cases hr : resolveValue c (.error l) with
    | ok x => obtain ⟨v, ts, p⟩ := x; simp only [hr] at h; exact hnew hr h
    | error e => simp [hr] at h
    | panic s => simp [hr] at h
  | lastError l =>
    simp only [applyToArg, bind, Res.bind] at h
    cases hr : resolveValue c (.lastError l) with
    | ok x => obtain ⟨v, ts, p⟩ := x; simp only [hr] at h; exact hnew hr h
    | error e => simp [hr] at h
    | panic s => simp [hr] at h
  | scalarWL n l =>
    simp only [applyToArg, bind, Res.bind] at h
    cases hr : resolveValue c (.scalarWL n l) with
    | ok x => obtain ⟨v, ts, p⟩ := x; simp only [hr] at h; exact hnew hr h
    | error e => simp [hr] at h
    | panic s => simp [hr] at h
  | scalar n =>
    simp only [applyToArg, bind, Res.bind] at h
    simp only [expectedTetraplets, prov, scalarTetraplet] at hs
    cases hg : c.scalars.getValue n with
    | ok r =>
      simp only [hg] at h hs
      cases r with
      | value v =>
        simp only [pure] at h
        injection h with h; subst h
        simp [ScalarRef.parts] at hs
        subst hs
        exact ⟨fun _ _ => rfl, fun _ => Or.inl rfl⟩
      | iterableValue f =>
        simp only at h
        simp only [ScalarRef.parts, bind, Res.bind] at hs
        cases hk : f.iterable.peekExpect with
        | ok x =>
          obtain ⟨x1, t1, pos1, p1⟩ := x
          simp only [hk, pure] at h hs
          injection h with h; subst h
          simp at hs; subst hs
          obtain ⟨h1, h2, h3⟩ := new_tetraplet x1 t1 pos1 p1
          exact ⟨fun k hk' => h1 k (h3 ▸ hk'), fun hl => Or.inr (h2 (h3 ▸ hl))⟩
        | error e => simp [hk] at h
        | panic s => simp [hk] at h
    | error e => simp [hg] at h
    | panic s => simp [hg] at h
  | canon n =>
    -- `(ap #c x)`: the aggregate has a canon provenance (neither a service result nor a literal)
    simp only [applyToArg, bind, Res.bind] at h
    cases hg : c.scalars.getCanonStream n with
    | ok cs =>
      simp only [hg, pure] at h
      injection h with h; subst h
      exact ⟨fun k hk => (by simp [ValueAggregate.new] at hk), fun hl => (by simp [ValueAggregate.new] at hl)⟩
    | error e => simp [hg] at h
    | panic s => simp [hg] at h
  | canonWL n l => simp [Covered] at hcov
  | canonMap n =>
    -- `(ap #%m x)`: the aggregate has a canon provenance (neither a service result nor a literal)
    simp only [applyToArg, bind, Res.bind] at h
    cases hg : c.scalars.getCanonMap n with
    | ok cs =>
      simp only [hg, pure] at h
      injection h with h; subst h
      exact ⟨fun k hk => (by simp [ValueAggregate.new] at hk), fun hl => (by simp [ValueAggregate.new] at hl)⟩
    | error e => simp [hg] at h
    | panic s => simp [hg] at h
  | canonMapWL n l => simp [Covered] at hcov

/-- **Fold iterators**: the `k`-th element of an iterated array carries the tetraplet the specification
gives for the iterable, extended by the element index the way the interpreter writes it
(`iterElem`: `<lens>.$.[k]`, appended even after a lens: `.$.args.$.[9]`, cf. the repository test
`fold_lens`).  (For service-result provenance; an element of a literal-provenance iterator that is
itself iterated is first normalised by `ValueAggregate::new` and keeps the peer only.) -/
theorem C17_fold_element_tetraplet (c : Ctx) (iterable : Value) (itv : IterableValue) (t0 : Tetraplet)
    (hnc : ∀ n, iterable ≠ .canon n) (hncm : ∀ n, iterable ≠ .canonMap n)
    (h : createScalarIterable c iterable = .ok (some itv)) (hs : expectedTetraplets iterable (prov c) = some [t0])
    (k : Nat) (x : JVal) (t : Tetraplet) (pos : Nat) (p : Provenance) (cid : Cid) (hp : p = .serviceResult cid)
    (hk : (itv.setCursor k).peek = .ok (some (x, t, pos, p))) : t = iterElem t0 k := by
  have hfrom : ∀ (v : ValueAggregate) (name : String), (v.provenance = p → v.tetraplet = t0) →
      (match v.result with
        | .arr a => if a.isEmpty then (.ok none : ER (Option IterableValue)) else .ok (some (.resolvedCall v 0 a.length))
        | other => catchable (.foldIteratesOverNonArray other name)) = .ok (some itv) → t = iterElem t0 k := by
    intro v name hv hm
    split at hm
    · split at hm
      · cases hm
      · injection hm with hm; injection hm with hm; subst hm
        simp only [IterableValue.setCursor, IterableValue.peek] at hk
        split at hk
        · cases hk
        · split at hk
          · split at hk
            · injection hk with hk; injection hk with hk
              injection hk with _ hk; injection hk with h1 hk; injection hk with _ h2
              rw [hv h2] at h1
              rw [← h1]; rfl
            · cases hk
          · cases hk
    · simp [catchable] at hm
  cases iterable with
  | scalar n =>
    simp only [createScalarIterable, bind, Res.bind] at h
    simp only [expectedTetraplets, prov, scalarTetraplet] at hs
    cases hg : c.scalars.getValue n with
    | ok r =>
      simp only [hg] at h hs
      cases r with
      | value v =>
        simp [ScalarRef.parts] at hs
        exact hfrom v n (fun _ => hs) h
      | iterableValue f =>
        simp only at h
        simp only [ScalarRef.parts, bind, Res.bind] at hs
        cases hpk : f.iterable.peekExpect with
        | ok y =>
          obtain ⟨x1, t1, pos1, p1⟩ := y
          simp only [hpk, pure] at h hs
          simp at hs; subst hs
          obtain ⟨h1, _, h3⟩ := new_tetraplet x1 t1 pos1 p1
          refine hfrom _ n ?_ h
          intro hpp
          simp only [itemIntoResolvedResult] at hpp ⊢
          rw [h3] at hpp
          exact h1 cid (hpp.trans hp)
        | error e => simp [hpk] at h
        | panic s => simp [hpk] at h
    | error e => simp [hg] at h
    | panic s => simp [hg] at h
  | scalarWL n l =>
    cases l with
    | functorLength => simp [expectedTetraplets, isFunctor] at hs
    | path as =>
      simp only [createScalarIterable, bind, Res.bind] at h
      simp only [expectedTetraplets, prov, scalarTetraplet, isFunctor] at hs
      cases hg : c.scalars.getValue n with
      | ok r =>
        simp only [hg] at h hs
        cases hpr : r.parts with
        | ok y =>
          obtain ⟨v', t', p'⟩ := y
          simp only [hpr] at h hs
          simp at hs; subst hs
          cases hsel : selectByLambdaFromScalar c.scalars v' (.path as) with
          | ok sel =>
            simp only [hsel] at h
            split at h
            · split at h
              · cases h
              · simp only [pure] at h
                injection h with h; injection h with h; subst h
                simp only [IterableValue.setCursor, IterableValue.peek] at hk
                split at hk
                · cases hk
                · split at hk
                  · injection hk with hk; injection hk with hk
                    injection hk with _ hk; injection hk with h1 _
                    rw [← h1]; rfl
                  · cases hk
            · simp [catchable] at h
          | error e => simp [hsel] at h
          | panic s => simp [hsel] at h
        | error e => simp [hpr] at h
        | panic s => simp [hpr] at h
      | error e => simp [hg] at h
      | panic s => simp [hg] at h
  | emptyArray => simp [createScalarIterable] at h
  | initPeerId => simp [createScalarIterable, unmodelled] at h
  | lastError l => simp [createScalarIterable, unmodelled] at h
  | error l => simp [createScalarIterable, unmodelled] at h
  | literal s => simp [createScalarIterable, unmodelled] at h
  | timestamp => simp [createScalarIterable, unmodelled] at h
  | ttl => simp [createScalarIterable, unmodelled] at h
  | number n => simp [createScalarIterable, unmodelled] at h
  | float r => simp [createScalarIterable, unmodelled] at h
  | boolean b => simp [createScalarIterable, unmodelled] at h
  -- canon streams are iterated by the real interpreter only (harness oracle); no canon bindings in `prov` yet
  | canon n => exact absurd rfl (hnc n)
  | canonWL n l => simp [createScalarIterable, unmodelled] at h
  -- canon maps are iterated pair by pair, each pair with its own tetraplet (`C17_canon_map_fold_element_tetraplet`)
  | canonMap n => exact absurd rfl (hncm n)
  | canonMapWL n l => simp [expectedTetraplets] at hs

/-- **Folds over canon streams**: the iterator denotes the elements of the canon stream with the tetraplets
they were canonicalised with (no element index is appended) — element `k` carries the `k`-th tetraplet the
specification lists for `#c`. -/
theorem C17_canon_fold_element_tetraplet (c : Ctx) (n : String) (itv : IterableValue) (ts : List Tetraplet)
    (h : createScalarIterable c (.canon n) = .ok (some itv)) (hs : expectedTetraplets (.canon n) (prov c) = some ts)
    (k : Nat) (x : JVal) (t : Tetraplet) (pos : Nat) (p : Provenance)
    (hk : (itv.setCursor k).peek = .ok (some (x, t, pos, p))) : ts[k]? = some t := by
  simp only [createScalarIterable, bind, Res.bind] at h
  simp only [expectedTetraplets, prov, canonTetraplets] at hs
  cases hg : c.scalars.getCanonStream n with
  | ok cs =>
    simp only [hg] at h hs
    injection hs with hs; subst hs
    split at h
    · simp [pure] at h
    · simp only [pure] at h
      injection h with h; injection h with h; subst h
      simp only [IterableValue.setCursor, IterableValue.peek] at hk
      split at hk
      · cases hk
      · split at hk
        · rename_i y hy
          injection hk with hk; injection hk with hk
          injection hk with _ hk; injection hk with h1 _
          subst h1
          simp [hy]
        · cases hk
  | error e => simp [hg] at h
  | panic s => simp [hg] at h

/-! ## the invariant along executions -/

/-- **Every instruction preserves the invariant** `EnvInv`: "the tetraplet store is keyed by content, and
every aggregate in the scalar cells, the fold iterables, the stream store, the canon streams and both error
descriptors that has a service-result provenance carries the erased functor tetraplet or a lens-extension of a
tetraplet whose content id is a key of the tetraplet store" — for every fuel, script (incl. streams, `canon`,
stream folds, `new`) and context, whether the execution succeeds, fails or panics. -/
theorem C17_env_inv_preserved (env : Env) (fuel : Nat) (i : Instr) (c : Ctx) (h : EnvInv env c) :
    EnvInv env (exec env fuel i c).2 :=
  ((exec_step env fuel i c).2 h).1

/-- **Every request issued anywhere during an execution** was built in a context `c0` satisfying the
invariant, and carries one tetraplet list per argument, each as specified by `expectedTetraplets` in
that context. -/
theorem C17_requests_along_exec (env : Env) (fuel : Nat) (i : Instr) (c : Ctx) (h : EnvInv env c) :
    ∃ rs, (exec env fuel i c).2.callRequests = c.callRequests ++ rs ∧
      ∀ r ∈ rs, ∃ (c0 : Ctx) (args : List Value), EnvInv env c0 ∧
        r.2.arguments.length = args.length ∧ r.2.tetraplets.length = args.length ∧
        ∀ (j : Nat) (a : Value) (ts : List Tetraplet), args[j]? = some a → r.2.tetraplets[j]? = some ts → Covered a = true →
          expectedTetraplets a (prov c0) = some ts := by
  obtain ⟨_, rs, hr, hok⟩ := (exec_step env fuel i c).2 h
  refine ⟨rs, hr, fun r hr' => ?_⟩
  obtain ⟨c0, args, hi, hl, hs⟩ := hok r hr'
  exact ⟨c0, args, hi, hl, hs.length_eq, fun j a ts ha hts => hs.get j a ts ha hts⟩

/-- the content-keyed property of a tetraplet store, on lists -/
def KeyedList (env : Env) (l : List (Cid × Tetraplet)) : Prop := ∀ e ∈ l, e.1 = env.hash e.2.json

theorem keyedList_mergeStores (env : Env) (prev cur : List (Cid × Tetraplet)) (hp : KeyedList env prev) (hc : KeyedList env cur) :
    KeyedList env (mergeStores prev cur) := by
  unfold mergeStores
  induction cur generalizing prev with
  | nil => exact hp
  | cons e rest ih =>
    simp only [List.foldl_cons]
    apply ih
    · intro x hx
      rcases mem_upsert hx with h | h
      · exact hp x h
      · subst h; exact hc e (List.mem_cons_self ..)
    · intro x hx; exact hc x (List.mem_cons_of_mem _ hx)

/-- the initial context of a run satisfies the invariant as soon as the incoming tetraplet stores are
keyed by content (which the preparation stage checks: `CidStore::verify`) -/
theorem envInv_initCtx (env : Env) (prev cur : DataIn) (p : RunParams) (results : List (String × CallServiceResult))
    (hp : KeyedList env prev.cid.tetraplets) (hc : KeyedList env cur.cid.tetraplets) : EnvInv env (initCtx prev cur p results) := by
  refine ⟨keyedList_mergeStores env _ _ hp hc, ⟨?_, ?_, ?_, ?_⟩, ?_, ?_, ?_⟩
  · intro e he; simp [initCtx] at he
  · intro e he; simp [initCtx] at he
  · intro e he; simp [initCtx] at he
  · intro e he; simp [initCtx] at he
  · intro e he; simp [initCtx] at he
  · intro k hk; simp [initCtx, noError] at hk
  · intro k hk; simp [initCtx, noError] at hk

/-- **Whole runs**: every call request a run hands to the host was built in a context satisfying the
invariant and carries exactly the specified tetraplets, one list per argument. -/
theorem C17_run_requests (env : Env) (fuel : Nat) (script : Instr) (prev cur : DataIn) (p : RunParams)
    (results : List (String × CallServiceResult))
    (hp : KeyedList env prev.cid.tetraplets) (hc : KeyedList env cur.cid.tetraplets) :
    ∀ r ∈ (runExec env fuel script prev cur p results).2.callRequests, ∃ (c0 : Ctx) (args : List Value), EnvInv env c0 ∧
      r.2.arguments.length = args.length ∧ r.2.tetraplets.length = args.length ∧
      ∀ (j : Nat) (a : Value) (ts : List Tetraplet), args[j]? = some a → r.2.tetraplets[j]? = some ts → Covered a = true →
        expectedTetraplets a (prov c0) = some ts := by
  obtain ⟨rs, hr, hok⟩ := C17_requests_along_exec env fuel script _ (envInv_initCtx env prev cur p results hp hc)
  intro r hr'
  have h0 : (initCtx prev cur p results).callRequests = [] := rfl
  unfold runExec at hr'
  rw [hr, h0, List.nil_append] at hr'
  exact hok r hr'

/-- what the invariant says about an argument that names a scalar holding a service result: its
tetraplet is the erased functor tetraplet, or it extends (by a lens) a tetraplet whose content id is a key
of the particle's tetraplet store -/
theorem C17_scalar_arg_producer_recorded (env : Env) (c : Ctx) (hi : EnvInv env c) (n : String) (v : JVal) (ts : List Tetraplet) (k : Cid)
    (h : resolveValue c (.scalar n) = .ok (v, ts, .serviceResult k)) :
    ∃ t, ts = [t] ∧ (IsErased t ∨ ∃ (t0 : Tetraplet) (l : String), env.hash t0.json ∈ keys c.cid.tetraplets ∧ t = t0.addLens l) := by
  obtain ⟨t, ht, hok⟩ := resolve_scalar_shape hi h
  exact ⟨t, ht, hok⟩

/-! ## non-vacuity and the refutation of the full statement -/

def exParams : RunParams := { initPeerId := "init", currentPeerId := "me", timestamp := 1, ttl := 2 }
def exProducer : Tetraplet := { peerPk := "A", serviceId := "svc", functionName := "f", lens := "" }
def exValue : JVal := .obj [("a", .arr [.num 1, .num 2])]
def exAgg : ValueAggregate := ⟨exValue, exProducer, 0, .serviceResult "cid0"⟩
/-- a context in which `x` holds a result of `(call "A" ("svc" "f") [] x)` and `:error:` holds an error
of a call to `("B" "s" "g")` -/
def exCtx : Ctx :=
  { initCtx {} {} exParams [] with
    scalars := { nonIterable := { cells := [("x", [⟨0, some exAgg⟩])] } }
    error := { error := ⟨.obj [("error_code", .num 10000), ("message", .str "m")], some ⟨"B", "s", "g", ""⟩, .literal, none⟩, canBeSet := false } }

def exLens : Lambda := .path [.fieldByName "a", .arrayAccess 1]

example : resolveValue exCtx (.scalarWL "x" exLens) = .ok (.num 2, [⟨"A", "svc", "f", ".$.a.[1]"⟩], .serviceResult "cid0") := by rfl
example : expectedTetraplets (.scalarWL "x" exLens) (prov exCtx) = some [⟨"A", "svc", "f", ".$.a.[1]"⟩] :=
  C17_resolve_spec_partial exCtx _ (.num 2) _ (.serviceResult "cid0") rfl (by rfl)
example : resolveValue exCtx (.literal "s") = .ok (.str "s", [⟨"init", "", "", ""⟩], .literal) := by rfl
example : collectArgs exCtx [.scalar "x", .number 5, .scalar "x"] =
    .ok ([exValue, .num 5, exValue], [[exProducer], [⟨"init", "", "", ""⟩], [exProducer]]) := by rfl
example : (createScalarIterable exCtx (.scalarWL "x" (.path [.fieldByName "a"]))).isOk = true := by rfl
example : applyToArg exCtx (.scalarWL "x" exLens) = .ok ⟨.num 2, ⟨"A", "svc", "f", ".$.a.[1]"⟩, 0, .serviceResult "cid0"⟩ := by rfl

/-- a lens on `:error:` resolves, but the tetraplet does not mention the lens -/
theorem exError_resolves : resolveValue exCtx (.error (some (.path [.fieldByName "message"]))) =
    .ok (.str "m", [⟨"B", "s", "g", ""⟩], .literal) := by rfl

/-- **Finding (model level)**: the full statement fails — for `:error:.$.message` the specification
(producer of the error value + the exact lens `.$.message`) and the resolver (`lens = ""`) differ. -/
theorem C17_full_refuted_by_error_lens : ¬ C17_full := by
  intro h
  have := h exCtx _ _ _ _ rfl exError_resolves
  simp [expectedTetraplets, prov, exCtx, isFunctor, withLens, Lambda.render, Accessor.render] at this

/-- an environment with a content-keyed (here: empty) store -/
def exEnv : Env := { hash := fun s => "cid:" ++ s, parseJson := fun _ => none }

example : EnvInv exEnv (initCtx {} {} exParams []) :=
  envInv_initCtx exEnv {} {} exParams [] (by intro e he; simp at he) (by intro e he; simp at he)


/-- hypotheses of `C17_call_result_tetraplet` are satisfiable: a local result bound to `y` -/
example : (populateFromPeerServiceResult exEnv exCtx (.str "r") ⟨"me", "s", "f", ""⟩ "ah" 3 (.scalar "y")).isOk = true := by rfl

/-- a context whose CID stores record a value produced by `("A", "svc", "f")` under the CID `c1` -/
def exDataCtx : Ctx :=
  { exCtx with cid := { values := [("vc", "\"r\"")], tetraplets := [("tc", exProducer)], serviceResults := [("c1", ⟨"vc", "ah", "tc"⟩)] } }
def exEnv' : Env := { hash := fun s => "cid:" ++ s, parseJson := fun _ => some (.str "r") }

/-- hypotheses of `C17_merged_value_tetraplet` are satisfiable (the consuming call names the recorded producer) … -/
example : (populateFromData exEnv' exDataCtx (.scalar "c1") "ah" exProducer 5 (.scalar "y") .currentData).isOk = true := by rfl
/-- … and a consuming call that names another function is refused -/
example : (populateFromData exEnv' exDataCtx (.scalar "c1") "ah" { exProducer with functionName := "g" } 5 (.scalar "y") .currentData).isOk = false := by rfl

/-- hypotheses of `C17_fold_element_tetraplet` are satisfiable: the element `1` of `x.$.a` -/
example : (match createScalarIterable exCtx (.scalarWL "x" (.path [.fieldByName "a"])) with
    | .ok (some itv) => (match (itv.setCursor 1).peek with | .ok (some (_, t, _, _)) => some t | _ => none)
    | _ => none) = some ⟨"A", "svc", "f", ".$.a.$.[1]"⟩ := by rfl


/-- a context with a canon stream `#cs` holding two values of different producers -/
def exCanonCtx : Ctx :=
  { exCtx with scalars := { exCtx.scalars with
      canonStreams := { cells := [("#cs", [⟨0, some ⟨⟨[exAgg, ⟨.num 1, ⟨"B", "s2", "g", ".$.n"⟩, 0, .serviceResult "cid1"⟩], { peerPk := "C" }⟩, "ccid"⟩⟩])] } } }

/-- a whole canon stream: one tetraplet per element, each element's own -/
example : resolveValue exCanonCtx (.canon "#cs") =
    .ok (.arr [exValue, .num 1], [exProducer, ⟨"B", "s2", "g", ".$.n"⟩], .canon "ccid") := by rfl
example : expectedTetraplets (.canon "#cs") (prov exCanonCtx) = some [exProducer, ⟨"B", "s2", "g", ".$.n"⟩] :=
  C17_resolve_spec_partial exCanonCtx _ (.arr [exValue, .num 1]) _ (.canon "ccid") rfl (by rfl)
/-- hypotheses of `C17_canon_fold_element_tetraplet` are satisfiable -/
example : (match createScalarIterable exCanonCtx (.canon "#cs") with
    | .ok (some itv) => (match (itv.setCursor 1).peek with | .ok (some (_, t, _, _)) => some t | _ => none)
    | _ => none) = some ⟨"B", "s2", "g", ".$.n"⟩ := by rfl

/-- a request with a lens argument, a literal and the same variable twice -/
example : (match issueRequest ⟨"me", "s", "f", ""⟩ [.scalarWL "x" exLens, .literal "lit", .scalar "x", .scalar "x"] exCtx with
    | .ok c' => c'.callRequests.map (fun r => r.2.tetraplets)
    | _ => []) = [[[⟨"A", "svc", "f", ".$.a.[1]"⟩], [⟨"init", "", "", ""⟩], [exProducer], [exProducer]]] := by rfl

/-- **Folds over canon maps**: the iterator denotes key-value pairs of the canon map (the last pair of every key),
each with the tetraplet it was canonicalised with (no element index is appended): the tetraplet of every iterated
pair is one of those the specification lists for `#%m`. -/
theorem C17_canon_map_fold_element_tetraplet (c : Ctx) (n : String) (itv : IterableValue) (ts : List Tetraplet)
    (h : createScalarIterable c (.canonMap n) = .ok (some itv)) (hs : expectedTetraplets (.canonMap n) (prov c) = some ts)
    (k : Nat) (x : JVal) (t : Tetraplet) (pos : Nat) (p : Provenance)
    (hk : (itv.setCursor k).peek = .ok (some (x, t, pos, p))) : t ∈ ts := by
  simp only [createScalarIterable, bind, Res.bind] at h
  simp only [expectedTetraplets, prov, canonMapTetraplets] at hs
  cases hg : c.scalars.getCanonMap n with
  | ok cm =>
    simp only [hg] at h hs
    injection hs with hs; subst hs
    split at h
    · simp [pure] at h
    · simp only [pure] at h
      injection h with h; injection h with h; subst h
      simp only [IterableValue.setCursor, IterableValue.peek] at hk
      split at hk
      · cases hk
      · split at hk
        · rename_i y hy
          injection hk with hk; injection hk with hk
          injection hk with _ hk; injection hk with h1 _
          subst h1
          exact List.mem_map.mpr ⟨y, mem_lastPairPerKey (List.mem_of_getElem? hy), rfl⟩
        · cases hk
  | error e => simp [hg] at h
  | panic s => simp [hg] at h

/-- **`#%m.$.key` (one accessor)**: the result is the array of the values under the key and its tetraplet is the canon's
own (the canonicalising peer, empty service and function) with the lens text as written — what the code does
(`update_tetraplet_with_path(.., prefix_with_path = false)`). -/
theorem C17_canon_map_lens_key_tetraplet (c : Ctx) (m : CanonStreamMapAgg) (a : Accessor) (t : Tetraplet)
    (h : canonMapLensTetraplet c m (.path [a]) = .ok t) :
    t = { m.tetraplet with lens := (Lambda.path [a]).render } := by
  unfold canonMapLensTetraplet at h
  simp only at h
  split at h
  · injection h with h; exact h.symm
  · cases h
  · cases h

/-- **`#%m.$.key.[i]`**: the tetraplet of the `i`-th value inserted under the key, unchanged (the rest of the lens, if
any, is appended to ITS lens field) -/
theorem C17_canon_map_lens_key_index_tetraplet (c : Ctx) (m : CanonStreamMapAgg) (key : String) (i : Nat) (t : Tetraplet)
    (h : canonMapLensTetraplet c m (.path [.fieldByName key, .arrayAccess i]) = .ok t) :
    ∃ cs va, m.index (.str key) = some cs ∧ cs.values[i]? = some va ∧ t = va.tetraplet := by
  unfold canonMapLensTetraplet at h
  simp only [Lens.ValueAccessor.ofAccessor, Lens.canonMapKeyOfPrefix] at h
  cases hidx : m.index (.str key) with
  | some cs =>
    simp only [hidx, canonMapStreamTetraplet, Lens.ValueAccessor.ofAccessor, Lens.splitToIdx] at h
    cases hv : cs.values[i]? with
    | some va =>
      simp only [hv, List.isEmpty_nil, if_true] at h
      injection h with h
      exact ⟨cs, va, rfl, hv, h.symm⟩
    | none => simp [hv, lambdaErr, catchable] at h
  | none =>
    simp only [hidx, canonMapStreamTetraplet, Lens.ValueAccessor.ofAccessor, Lens.splitToIdx] at h
    simp [lambdaErr, catchable] at h

end AquaProps.C17
