import Aqua.Exec.Streams
import AquaProps.Lemmas.TraceFrame
/-!
# C12 — a peer never reorders the stream values it has already seen

Theorems about the Lean replica of `Stream::compactify` (stream_definition.rs), which decides the
generation numbers written into the produced data, for EVERY stream content:

* `C12_compactify_applies_plan`: compaction writes exactly the generation numbers of `compactPlan`
  into the result trace, one `update_generation` per stream value;
* `C12_plan_follows_iteration_order`: the plan lists the stream's values in the stream's own iteration
  order — values of the previous data (by generation), then of the current data, then those produced in
  this run;
* `C12_plan_generations_sorted`: along that order the new generation numbers never decrease — so two values
  are never swapped: a value that came earlier keeps a generation ≤ that of a later one;
* `C12_sources_ordered`: every value from the previous data gets a smaller generation than every value
  that only the current data had, which in turn precede every value produced in this run;
* `C12_plan_dense`: the numbers used are exactly `0 … n-1` (renumbered densely; no gaps, no placeholder).

History level (consecutive run pairs of one peer): the previous data's generation numbers are what the
next run reads back as `previous(g)`; since they were written sorted and dense and are re-written by the
same monotone renumbering, relative order is kept.  That composition is checked by the oracle on
consecutive data of every peer in generated histories, not proved (it needs the replay alignment, C09).
-/
namespace AquaProps.C12
open Aqua Aqua.Exec Aqua.Json Aqua.Data Aqua.Trace AquaProps

/-- the generations compaction assigns: the `i`-th slice gets `start + i` (trace position, generation) -/
def planSlices : List (List ValueAggregate) → Nat → List (Nat × Nat)
  | [], _ => []
  | vs :: rest, g => vs.map (fun v => (v.tracePos, g)) ++ planSlices rest (g + 1)

def nonEmpty (m : ValuesMatrix) : List (List ValueAggregate) := m.values.filter (fun g => !g.isEmpty)

/-- all `(trace position, new generation)` pairs compaction writes, in the order it writes them -/
def compactPlan (s : Stream) : List (Nat × Nat) :=
  planSlices (nonEmpty s.prev) 0 ++ planSlices (nonEmpty s.cur) (nonEmpty s.prev).length ++
    planSlices (nonEmpty s.new) ((nonEmpty s.prev).length + (nonEmpty s.cur).length)

/-- writing a list of generations into the trace, stopping at the first failure -/
def applyPlan : List (Nat × Nat) → TraceHandler → ER TraceHandler
  | [], th => .ok th
  | (pos, g) :: rest, th =>
    match th.updateGeneration pos g with
    | .ok th' => applyPlan rest th'
    | .error _ => uncatchable .generationCompactificationError
    | .panic s => .panic s

theorem applyPlan_append (a b : List (Nat × Nat)) (th : TraceHandler) :
    applyPlan (a ++ b) th = (applyPlan a th).bind (applyPlan b) := by
  induction a generalizing th with
  | nil => rfl
  | cons x xs ih =>
    obtain ⟨pos, g⟩ := x
    simp only [List.cons_append, applyPlan]
    cases th.updateGeneration pos g with
    | ok th' => exact ih th'
    | error e => rfl
    | panic s => rfl

theorem inner_eq (g : Nat) (vs : List ValueAggregate) (th : TraceHandler) :
    Stream.updateGenerations.go.inner g vs th = applyPlan (vs.map fun v => (v.tracePos, g)) th := by
  induction vs generalizing th with
  | nil => unfold Stream.updateGenerations.go.inner; rfl
  | cons v more ih =>
    unfold Stream.updateGenerations.go.inner
    simp only [List.map_cons, applyPlan]
    cases th.updateGeneration v.tracePos g with
    | ok th' => exact ih th'
    | error e => rfl
    | panic s => rfl

theorem updateGenerations_eq (slices : List (List ValueAggregate)) (start : Nat) (th : TraceHandler) :
    Stream.updateGenerations slices start th = applyPlan (planSlices slices start) th := by
  unfold Stream.updateGenerations
  induction slices generalizing start th with
  | nil => unfold Stream.updateGenerations.go; rfl
  | cons vs rest ih =>
    unfold Stream.updateGenerations.go
    simp only [planSlices, applyPlan_append, inner_eq]
    cases applyPlan (vs.map fun v => (v.tracePos, start)) th with
    | ok th' => exact ih (start + 1) th'
    | error e => rfl
    | panic s => rfl

theorem filter_filter_nonEmpty (l : List (List ValueAggregate)) :
    (l.filter (fun g => !g.isEmpty)).filter (fun g => !g.isEmpty) = l.filter (fun g => !g.isEmpty) := by
  simp [List.filter_filter]

/-- **Compaction writes exactly the plan.** -/
theorem C12_compactify_applies_plan (s : Stream) (th : TraceHandler) :
    (s.compactify th).bind (fun r => .ok r.2) = applyPlan (compactPlan s) th := by
  unfold Stream.compactify compactPlan
  simp only [bind, updateGenerations_eq, ValuesMatrix.sliceIter, ValuesMatrix.removeEmptyGenerations,
    ValuesMatrix.generationsCount, List.drop_zero, filter_filter_nonEmpty, applyPlan_append, nonEmpty]
  cases applyPlan (planSlices (s.prev.values.filter fun g => !g.isEmpty) 0) th with
  | ok t1 =>
    simp only [Res.bind]
    cases applyPlan (planSlices (s.cur.values.filter fun g => !g.isEmpty) (s.prev.values.filter fun g => !g.isEmpty).length) t1 with
    | ok t2 =>
      simp only
      cases applyPlan (planSlices (s.new.values.filter fun g => !g.isEmpty)
          ((s.prev.values.filter fun g => !g.isEmpty).length + (s.cur.values.filter fun g => !g.isEmpty).length)) t2 with
      | ok t3 => rfl
      | error e => rfl
      | panic p => rfl
    | error e => rfl
    | panic p => rfl
  | error e => rfl
  | panic p => rfl

/-! ## the plan is in iteration order, sorted, source-ordered and dense -/

theorem planSlices_positions (slices : List (List ValueAggregate)) (g : Nat) :
    (planSlices slices g).map (·.1) = slices.flatten.map (·.tracePos) := by
  induction slices generalizing g with
  | nil => rfl
  | cons vs rest ih => simp [planSlices, ih, List.map_map, Function.comp_def]

theorem filter_nonempty_flatten (l : List (List ValueAggregate)) : (l.filter (fun g => !g.isEmpty)).flatten = l.flatten := by
  induction l with
  | nil => rfl
  | cons x xs ih =>
    cases x with
    | nil => simpa using ih
    | cons a as => simp [ih]

/-- **The plan visits the values in the stream's iteration order** (`Stream::iter`: previous, current, new). -/
theorem C12_plan_follows_iteration_order (s : Stream) : (compactPlan s).map (·.1) = s.all.map (·.tracePos) := by
  unfold compactPlan Stream.all ValuesMatrix.all nonEmpty
  simp [planSlices_positions, filter_nonempty_flatten]

theorem planSlices_bounds (slices : List (List ValueAggregate)) (g : Nat) :
    ∀ x ∈ planSlices slices g, g ≤ x.2 ∧ x.2 < g + slices.length := by
  induction slices generalizing g with
  | nil => intro x hx; cases hx
  | cons vs rest ih =>
    intro x hx
    simp only [planSlices, List.mem_append, List.mem_map] at hx
    rcases hx with ⟨v, _, rfl⟩ | hx
    · simp
    · have := ih (g + 1) x hx
      simp only [List.length_cons]; omega

theorem planSlices_sorted (slices : List (List ValueAggregate)) (g : Nat) :
    ((planSlices slices g).map (·.2)).Pairwise (· ≤ ·) := by
  induction slices generalizing g with
  | nil => simp [planSlices]
  | cons vs rest ih =>
    simp only [planSlices, List.map_append, List.map_map, List.pairwise_append]
    refine ⟨?_, ih (g + 1), ?_⟩
    · have : ∀ (l : List ValueAggregate), (l.map ((fun x : Nat × Nat => x.2) ∘ fun v => (v.tracePos, g))).Pairwise (· ≤ ·) := by
        intro l
        induction l with
        | nil => simp
        | cons a as iha =>
          simp only [List.map_cons, List.pairwise_cons]
          refine ⟨?_, iha⟩
          intro b hb
          obtain ⟨v, _, rfl⟩ := List.mem_map.mp hb
          simp
      exact this vs
    · intro a ha b hb
      simp only [List.mem_map, Function.comp] at ha
      obtain ⟨v, _, rfl⟩ := ha
      obtain ⟨x, hx, rfl⟩ := List.mem_map.mp hb
      have := (planSlices_bounds rest (g + 1) x hx).1
      omega

/-- **Generations never decrease along the iteration order**: compaction never swaps two values. -/
theorem C12_plan_generations_sorted (s : Stream) : ((compactPlan s).map (·.2)).Pairwise (· ≤ ·) := by
  unfold compactPlan
  simp only [List.map_append, List.pairwise_append]
  refine ⟨⟨planSlices_sorted _ _, planSlices_sorted _ _, ?_⟩, planSlices_sorted _ _, ?_⟩
  · intro a ha b hb
    obtain ⟨x, hx, rfl⟩ := List.mem_map.mp ha
    obtain ⟨y, hy, rfl⟩ := List.mem_map.mp hb
    have h1 := (planSlices_bounds _ _ x hx).2
    have h2 := (planSlices_bounds _ _ y hy).1
    omega
  · intro a ha b hb
    obtain ⟨y, hy, rfl⟩ := List.mem_map.mp hb
    have h2 := (planSlices_bounds _ _ y hy).1
    rcases List.mem_append.mp ha with ha | ha
    · obtain ⟨x, hx, rfl⟩ := List.mem_map.mp ha
      have h1 := (planSlices_bounds _ _ x hx).2
      omega
    · obtain ⟨x, hx, rfl⟩ := List.mem_map.mp ha
      have h1 := (planSlices_bounds _ _ x hx).2
      omega

/-- **Previous before current before new**: strict separation of the three sources. -/
theorem C12_sources_ordered (s : Stream) :
    (∀ x ∈ planSlices (nonEmpty s.prev) 0, ∀ y ∈ planSlices (nonEmpty s.cur) (nonEmpty s.prev).length, x.2 < y.2) ∧
    (∀ y ∈ planSlices (nonEmpty s.cur) (nonEmpty s.prev).length,
      ∀ z ∈ planSlices (nonEmpty s.new) ((nonEmpty s.prev).length + (nonEmpty s.cur).length), y.2 < z.2) := by
  constructor
  · intro x hx y hy
    have h1 := (planSlices_bounds _ _ x hx).2
    have h2 := (planSlices_bounds _ _ y hy).1
    omega
  · intro y hy z hz
    have h1 := (planSlices_bounds _ _ y hy).2
    have h2 := (planSlices_bounds _ _ z hz).1
    omega

theorem planSlices_covers (slices : List (List ValueAggregate)) (g : Nat) (hne : ∀ vs ∈ slices, vs ≠ []) :
    ∀ k, g ≤ k → k < g + slices.length → k ∈ (planSlices slices g).map (·.2) := by
  induction slices generalizing g with
  | nil => intro k h1 h2; simp at h2; omega
  | cons vs rest ih =>
    intro k h1 h2
    simp only [planSlices, List.map_append, List.mem_append, List.map_map]
    by_cases hk : k = g
    · left
      subst hk
      cases vs with
      | nil => exact absurd rfl (hne [] List.mem_cons_self)
      | cons v more => simp
    · right
      exact ih (g + 1) (fun vs h => hne vs (List.mem_cons_of_mem _ h)) k (by omega) (by simp only [List.length_cons] at h2; omega)

theorem nonEmpty_ne (m : ValuesMatrix) : ∀ vs ∈ nonEmpty m, vs ≠ [] := by
  intro vs h
  unfold nonEmpty at h
  have := (List.mem_filter.mp h).2
  intro he; subst he; simp at this

/-- **Dense renumbering**: the generation numbers written are exactly `0, …, n-1` where `n` is the number
of non-empty generations of the three sources; in particular the placeholder `0xCAFEBABE` is never
written for a stream with fewer values than that. -/
theorem C12_plan_dense (s : Stream) :
    let n := (nonEmpty s.prev).length + (nonEmpty s.cur).length + (nonEmpty s.new).length
    (∀ x ∈ compactPlan s, x.2 < n) ∧ (∀ k < n, k ∈ (compactPlan s).map (·.2)) := by
  intro n
  constructor
  · intro x hx
    unfold compactPlan at hx
    simp only [List.mem_append] at hx
    rcases hx with (hx | hx) | hx
    · have := (planSlices_bounds _ _ x hx).2; omega
    · have := (planSlices_bounds _ _ x hx).2; omega
    · have := (planSlices_bounds _ _ x hx).2; omega
  · intro k hk
    unfold compactPlan
    simp only [List.map_append, List.mem_append]
    by_cases h1 : k < (nonEmpty s.prev).length
    · exact Or.inl (Or.inl (planSlices_covers _ 0 (nonEmpty_ne _) k (by omega) (by omega)))
    · by_cases h2 : k < (nonEmpty s.prev).length + (nonEmpty s.cur).length
      · exact Or.inl (Or.inr (planSlices_covers _ _ (nonEmpty_ne _) k (by omega) (by omega)))
      · exact Or.inr (planSlices_covers _ _ (nonEmpty_ne _) k (by omega) (by omega))

/-! ### non-vacuity -/
section Examples
def va (n : Int) (pos : Nat) : ValueAggregate := ⟨.num n, { peerPk := "p" }, pos, .literal⟩
/-- previous generations 0 (one value), 2 (two values; generation 1 is empty), one current, one new value -/
def s0 : Stream := { prev := { values := [[va 1 10], [], [va 2 11, va 3 12]], size := 3 },
                     cur := { values := [[va 4 13]], size := 1 }, new := { values := [[va 5 14]], size := 1 } }
example : compactPlan s0 = [(10, 0), (11, 1), (12, 1), (13, 2), (14, 3)] := by decide
end Examples

end AquaProps.C12
