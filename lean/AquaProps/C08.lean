import AquaProps.Lemmas.MergeLattice
/-!
# C08 — merge results do not depend on delivery order or grouping

Proved (all states): the per-state call merge is commutative up to the sender of a pending request and
associative on content; success/failure does not depend on the order.  The run-level statement over
sets of data (`C08_full`) is explored by the oracle (all permutations of up to four data, random
groupings) and not proved (`_partial`).
-/
namespace AquaProps.C08
open Aqua Aqua.Data Aqua.Trace AquaProps.Merge

def C08_full (knowledge : α → List (String × String)) (merge : List α → Option α) : Prop :=
  ∀ l l' : List α, l.Perm l' → ∀ m m', merge l = some m → merge l' = some m' →
    ∀ r, (knowledge m).count r = (knowledge m').count r

theorem C08_call_merge_commutes_partial (p c : CallResult) :
    (∀ m s, mergeCallResults p c = .ok (m, s) → ∃ m' s', mergeCallResults c p = .ok (m', s') ∧ contentOf m' = contentOf m) ∧
    (∀ e, mergeCallResults p c = .error e → ∃ e', mergeCallResults c p = .error e') := mergeCall_comm p c

theorem C08_call_merge_associates_partial (a b c ab abc bc abc' : CallResult) (s1 s2 s3 s4 : PreparationScheme)
    (h1 : mergeCallResults a b = .ok (ab, s1)) (h2 : mergeCallResults ab c = .ok (abc, s2))
    (h3 : mergeCallResults b c = .ok (bc, s3)) (h4 : mergeCallResults a bc = .ok (abc', s4)) :
    contentOf abc = contentOf abc' := mergeCall_assoc a b c ab abc bc abc' s1 s2 s3 s4 h1 h2 h3 h4

/-- only the sender of a pending request can differ between the two orders -/
theorem C08_only_sender_differs_partial (p c m m' : CallResult) (s s' : PreparationScheme)
    (h : mergeCallResults p c = .ok (m, s)) (h' : mergeCallResults c p = .ok (m', s')) : contentOf m = contentOf m' := by
  obtain ⟨m2, s2, h2, hc⟩ := (mergeCall_comm p c).1 m s h
  rw [h'] at h2
  injection h2 with h2; injection h2 with hm _; subst hm
  exact hc.symm

example : mergeCallResults (.requestSentBy (.peerId "a")) (.requestSentBy (.peerId "b")) = .ok (.requestSentBy (.peerId "a"), .previous) := rfl
example : mergeCallResults (.requestSentBy (.peerId "b")) (.requestSentBy (.peerId "a")) = .ok (.requestSentBy (.peerId "b"), .previous) := rfl

end AquaProps.C08
