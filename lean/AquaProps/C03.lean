import AquaProps.Lemmas.ExecRel
import AquaProps.Lemmas.TraceFrame
import Aqua.Exec.Run
/-!
# C03 — every produced data is accepted and verifiable by any other peer

What a receiving peer checks (model: `collect_peers_cids_from_trace` + `DataVerifier::verify`): for
each peer, the content ids of the call results attributed to it in the trace are exactly what its
signature covers.  The producing side must therefore register for signing **exactly** the ids of the
own results it puts into the result trace.  That is the whole-run theorem below
(`C03_own_results_signed`), proved for EVERY script, fuel, previous/current data and call-result map by
the generic executor induction `exec_rel` with the relation `Signed`; plus the store-side lemmas
(`C03_tracked_*`): every item put into the CID stores is keyed by the hash of its content and the
aggregate's references are present.

Before the repair in /repo (`fix: register the CID of the Failed state …`) the primitive
`failedService` for a non-JSON service result did NOT satisfy `Signed` (the state was pushed without
registration) — the proof obligation that breaks is `signed_prims.failedService`.
-/
namespace AquaProps.C03
open Aqua Aqua.Exec Aqua.Air Aqua.Data Aqua.Trace Aqua.Json AquaProps

/-- content ids a trace entry contributes to its owner's signature (`CallResult::get_cid` for executed
scalar / stream values and failed calls; executed canon results; requests and unused values carry none) -/
def entryCids : ExecutedState → List Cid
  | .call cr => (match cr.getCid with | some c => [c] | none => [])
  | .canon (.executed c) => [c]
  | _ => []

def callCids : Trace → List Cid
  | [] => []
  | e :: rest => entryCids e ++ callCids rest

theorem callCids_append (a b : Trace) : callCids (a ++ b) = callCids a ++ callCids b := by
  induction a with
  | nil => rfl
  | cons x xs ih => simp [callCids, ih, List.append_assoc]

/-- overwriting an entry with one that contributes the same ids does not change the signed ids -/
theorem callCids_set (t : Trace) (i : Nat) (old new : ExecutedState) (h : t[i]? = some old) (he : entryCids new = entryCids old) :
    callCids (t.set i new) = callCids t := by
  induction t generalizing i with
  | nil => rfl
  | cons x xs ih =>
    cases i with
    | zero =>
      simp only [List.getElem?_cons_zero, Option.some.injEq] at h
      subst h
      simp [List.set, callCids, he]
    | succ j =>
      simp only [List.getElem?_cons_succ] at h
      simp [List.set, callCids, ih j h]

theorem entryCids_neutral {st : ExecutedState} (h : Neutral st) : entryCids st = [] := by
  cases st <;> simp [Neutral] at h <;> rfl

/-- every reserved position (open par / fold) holds a neutral entry (state-inserter invariant) -/
def InsOK (th : TraceHandler) : Prop :=
  ∀ p ∈ inserters th, ∃ st, th.keeper.resultTrace[p]? = some st ∧ Neutral st

def resultCids (c : Ctx) : List Cid := callCids c.th.keeper.resultTrace

/-- pushed results, each tagged with the peer of the call's resolved triplet -/
def ownOf (me : String) (ds : List (String × Cid)) : List Cid := (ds.filter (fun d => d.1 == me)).map (·.2)

theorem ownOf_append (me : String) (a b : List (String × Cid)) : ownOf me (a ++ b) = ownOf me a ++ ownOf me b := by
  simp [ownOf, List.filter_append]

structure Signed (c c' : Ctx) : Prop where
  me : c'.currentPeerId = c.currentPeerId
  wf : InsOK c.th → InsOK c'.th
  reg : InsOK c.th → ∃ ds : List (String × Cid),
    resultCids c' = resultCids c ++ ds.map (·.2) ∧ c'.peerCids = c.peerCids ++ ownOf c.currentPeerId ds

theorem signed_refl (c : Ctx) : Signed c c := ⟨rfl, id, fun _ => ⟨[], by simp, by simp [ownOf]⟩⟩

theorem signed_trans {a b c : Ctx} (h1 : Signed a b) (h2 : Signed b c) : Signed a c := by
  refine ⟨h2.me.trans h1.me, fun h => h2.wf (h1.wf h), fun h => ?_⟩
  obtain ⟨d1, r1, p1⟩ := h1.reg h
  obtain ⟨d2, r2, p2⟩ := h2.reg (h1.wf h)
  refine ⟨d1 ++ d2, ?_, ?_⟩
  · rw [r2, r1]; simp [List.append_assoc]
  · rw [p2, p1, h1.me, ownOf_append]; simp [List.append_assoc]

/-- nothing relevant changed -/
theorem signed_of_same {c c' : Ctx} (hme : c'.currentPeerId = c.currentPeerId) (hth : c'.th = c.th)
    (hp : c'.peerCids = c.peerCids) : Signed c c' :=
  ⟨hme, fun h => by rw [hth]; exact h, fun _ => ⟨[], by simp [resultCids, hth], by simp [ownOf, hp]⟩⟩

theorem lt_of_getElem?_some {α} {l : List α} {i : Nat} {x : α} (h : l[i]? = some x) : i < l.length := by
  rcases Nat.lt_or_ge i l.length with h' | h'
  · exact h'
  · rw [List.getElem?_eq_none h'] at h; cases h

/-- a trace-handler transition (no content entry pushed): ids unchanged, reserved positions stay neutral -/
theorem step_facts {th th' : TraceHandler} (hs : TraceStep th th') (hw : InsOK th) :
    InsOK th' ∧ callCids th'.keeper.resultTrace = callCids th.keeper.resultTrace := by
  cases hs with
  | same ht hi =>
    refine ⟨fun p hp => ?_, by rw [ht]⟩
    rw [ht]; exact hw p (hi p hp)
  | reserve ht hi =>
    refine ⟨fun p hp => ?_, by rw [ht, callCids_append]; simp [callCids, entryCids]⟩
    rw [ht]
    rcases hi p hp with h1 | h1
    · obtain ⟨st, hst, hn⟩ := hw p h1
      exact ⟨st, by rw [List.getElem?_append_left (lt_of_getElem?_some hst)]; exact hst, hn⟩
    · exact ⟨.par 0 0, by rw [h1]; simp, trivial⟩
  | fill q st hq hn ht hi =>
    obtain ⟨old, hold, hno⟩ := hw q hq
    refine ⟨fun p hp => ?_, ?_⟩
    · rw [ht]
      obtain ⟨st', hst', hn'⟩ := hw p (hi p hp)
      by_cases hpq : q = p
      · subst hpq
        exact ⟨st, by simp [List.getElem?_set, lt_of_getElem?_some hold], hn⟩
      · exact ⟨st', by rw [List.getElem?_set_ne hpq]; exact hst', hn'⟩
    · rw [ht]
      exact callCids_set _ _ old st hold (by rw [entryCids_neutral hn, entryCids_neutral hno])

theorem signed_of_step {c : Ctx} {th' : TraceHandler} (hs : TraceStep c.th th') : Signed c { c with th := th' } :=
  ⟨rfl, fun hw => (step_facts hs hw).1, fun hw => ⟨[], by simp [resultCids, (step_facts hs hw).2], by simp [ownOf]⟩⟩

theorem insOK_push {th : TraceHandler} (s : ExecutedState) (h : InsOK th) : InsOK (th.pushState s) := by
  intro p hp
  obtain ⟨st, hst, hn⟩ := h p hp
  exact ⟨st, by show (th.keeper.resultTrace ++ [s])[p]? = _; rw [List.getElem?_append_left (lt_of_getElem?_some hst)]; exact hst, hn⟩

/-- a context update that pushes one entry `e`, registers accordingly and keeps the peer id -/
theorem signed_pushEntry {c c' : Ctx} (e : ExecutedState) (tag : String) (hme : c'.currentPeerId = c.currentPeerId)
    (hth : c'.th = c.th.pushState e)
    (hreg : c'.peerCids = c.peerCids ++ ownOf c.currentPeerId ((entryCids e).map fun x => (tag, x))) :
    Signed c c' := by
  refine ⟨hme, fun h => by rw [hth]; exact insOK_push _ h, fun _ => ?_⟩
  refine ⟨(entryCids e).map fun x => (tag, x), ?_, hreg⟩
  simp only [resultCids, hth]
  show callCids (c.th.keeper.resultTrace ++ [e]) = _
  rw [callCids_append]
  simp [callCids, List.map_map, Function.comp_def]

/-- pushing the call state `cr` -/
theorem signed_push {c c' : Ctx} (cr : CallResult) (tag : String) (hme : c'.currentPeerId = c.currentPeerId)
    (hth : c'.th = c.th.meetCallEnd cr)
    (hreg : c'.peerCids = c.peerCids ++ ownOf c.currentPeerId ((match cr.getCid with | some x => [x] | none => []).map fun x => (tag, x))) :
    Signed c c' :=
  signed_pushEntry (.call cr) tag hme hth hreg

theorem recordCallCid_peerCids (c : Ctx) (p cid : String) :
    (c.recordCallCid p cid).peerCids = c.peerCids ++ ownOf c.currentPeerId [(p, cid)] := by
  unfold Ctx.recordCallCid ownOf
  by_cases h : p == c.currentPeerId <;> simp [h]

theorem recordCallCid_th (c : Ctx) (p cid : String) : (c.recordCallCid p cid).th = c.th := by
  unfold Ctx.recordCallCid; split <;> rfl
theorem recordCallCid_me (c : Ctx) (p cid : String) : (c.recordCallCid p cid).currentPeerId = c.currentPeerId := by
  unfold Ctx.recordCallCid; split <;> rfl

theorem recordCanonCid_peerCids (c : Ctx) (p cid : String) :
    (c.recordCanonCid p cid).peerCids = c.peerCids ++ ownOf c.currentPeerId [(p, cid)] := by
  unfold Ctx.recordCanonCid ownOf
  by_cases h : p == c.currentPeerId <;> simp [h]
theorem recordCanonCid_th (c : Ctx) (p cid : String) : (c.recordCanonCid p cid).th = c.th := by
  unfold Ctx.recordCanonCid; split <;> rfl
theorem recordCanonCid_me (c : Ctx) (p cid : String) : (c.recordCanonCid p cid).currentPeerId = c.currentPeerId := by
  unfold Ctx.recordCanonCid; split <;> rfl

/-- register `cid` for peer `p` (if it is the current peer) and push a result state carrying `cid` -/
theorem signed_record_push (c c1 : Ctx) (p cid : String) (cr : CallResult) (hcr : cr.getCid = some cid)
    (hme : c1.currentPeerId = c.currentPeerId) (hth : c1.th = c.th) (hpc : c1.peerCids = c.peerCids) :
    Signed c { (c1.recordCallCid p cid) with th := (c1.recordCallCid p cid).th.meetCallEnd cr } := by
  refine signed_push cr p ?_ ?_ ?_
  · simp [recordCallCid_me, hme]
  · simp [recordCallCid_th, hth]
  · simp [hcr, recordCallCid_peerCids, hpc, hme]

theorem populateFromData_same {env : Env} {c c' : Ctx} {value : ValueRef} {ah : String} {t : Tetraplet} {pos : Nat}
    {out : CallOutput} {src : ValueSource} (h : populateFromData env c value ah t pos out src = .ok c') :
    c'.currentPeerId = c.currentPeerId ∧ c'.th = c.th ∧ c'.peerCids = c.peerCids := by
  unfold populateFromData at h
  split at h
  · simp only [bind, Res.bind] at h
    split at h
    · split at h
      · split at h
        · injection h with h; subst h; exact ⟨rfl, rfl, rfl⟩
        · cases h
        · cases h
      · cases h
      · cases h
    · cases h
    · cases h
  · obtain ⟨x, _, h2⟩ := res_bind_ok'' h
    obtain ⟨y, _, h3⟩ := res_bind_ok'' h2
    have := sameButStreams_addStreamValue h3
    exact ⟨this.me, this.th, this.peerCids⟩
  · injection h with h; subst h; exact ⟨rfl, rfl, rfl⟩
  · simp [uncatchable] at h

/-! ### compaction only rewrites generation numbers -/

/-- what `update_generation` does to the handler: same reserved positions, same signed ids -/
structure GenRel (h h' : TraceHandler) : Prop where
  ins : inserters h' = inserters h
  ok : InsOK h → InsOK h'
  cids : InsOK h → callCids h'.keeper.resultTrace = callCids h.keeper.resultTrace

theorem genRel_refl (h : TraceHandler) : GenRel h h := ⟨rfl, id, fun _ => rfl⟩
theorem genRel_trans {a b c : TraceHandler} (h1 : GenRel a b) (h2 : GenRel b c) : GenRel a c :=
  ⟨h2.ins.trans h1.ins, fun h => h2.ok (h1.ok h), fun h => (h2.cids (h1.ok h)).trans (h1.cids h)⟩

theorem genRel_set {h : TraceHandler} {pos : Nat} {old new : ExecutedState} (hold : h.keeper.resultTrace[pos]? = some old)
    (hnn : ¬ Neutral old) (he : entryCids new = entryCids old) :
    GenRel h { h with keeper := { h.keeper with resultTrace := setAt h.keeper.resultTrace pos new } } := by
  refine ⟨rfl, fun hw p hp => ?_, fun _ => callCids_set _ _ old new hold he⟩
  obtain ⟨st, hst, hn⟩ := hw p hp
  have hne : pos ≠ p := by
    intro heq; subst heq
    rw [hold] at hst; cases hst; exact hnn hn
  exact ⟨st, by show (List.set _ pos new)[p]? = _; rw [List.getElem?_set_ne hne]; exact hst, hn⟩

theorem genRel_updateGeneration {h h' : TraceHandler} {pos g : Nat} (hu : h.updateGeneration pos g = .ok h') : GenRel h h' := by
  unfold TraceHandler.updateGeneration at hu
  split at hu
  · cases hu
  · rename_i gs hold
    cases hu
    exact genRel_set hold (by simp [Neutral]) rfl
  · rename_i cid g0 hold
    cases hu
    exact genRel_set hold (by simp [Neutral]) rfl
  · cases hu

theorem genRel_inner (g : Nat) : ∀ (vs : List ValueAggregate) (th th' : TraceHandler),
    Stream.updateGenerations.go.inner g vs th = .ok th' → GenRel th th'
  | [], th, th', h => by
    unfold Stream.updateGenerations.go.inner at h
    cases h; exact genRel_refl _
  | v :: more, th, th', h => by
    unfold Stream.updateGenerations.go.inner at h
    split at h
    · rename_i th1 hu
      exact genRel_trans (genRel_updateGeneration hu) (genRel_inner g more th1 th' h)
    · cases h
    · cases h

theorem genRel_go : ∀ (slices : List (List ValueAggregate)) (g : Nat) (th th' : TraceHandler),
    Stream.updateGenerations.go slices g th = .ok th' → GenRel th th'
  | [], g, th, th', h => by
    unfold Stream.updateGenerations.go at h
    cases h; exact genRel_refl _
  | vs :: rest, g, th, th', h => by
    unfold Stream.updateGenerations.go at h
    split at h
    · rename_i th1 hi
      exact genRel_trans (genRel_inner g vs th th1 hi) (genRel_go rest (g + 1) th1 th' h)
    · cases h
    · cases h

theorem genRel_compactify {s s' : Stream} {th th' : TraceHandler} (h : s.compactify th = .ok (s', th')) : GenRel th th' := by
  unfold Stream.compactify at h
  simp only at h
  obtain ⟨t1, h1, h⟩ := res_bind_ok'' h
  obtain ⟨t2, h2, h⟩ := res_bind_ok'' h
  obtain ⟨t3, h3, h⟩ := res_bind_ok'' h
  cases h
  exact genRel_trans (genRel_go _ _ _ _ h1) (genRel_trans (genRel_go _ _ _ _ h2) (genRel_go _ _ _ _ h3))

theorem signed_of_genRel {c c' : Ctx} (hme : c'.currentPeerId = c.currentPeerId) (hp : c'.peerCids = c.peerCids)
    (hg : GenRel c.th c'.th) : Signed c c' :=
  ⟨hme, hg.ok, fun hw => ⟨[], by simp [resultCids, hg.cids hw], by simp [ownOf, hp]⟩⟩

/-- the primitives of the executor preserve `Signed` -/
theorem signed_prims : ExecPrims Signed where
  pre := ⟨signed_refl, signed_trans⟩
  ctl := fun c c' h => signed_of_same h.me h.th h.peerCids
  thCallStart := fun c _ th' h => signed_of_step (step_meetCallStart h)
  thParStart := fun c th' h => signed_of_step (step_meetParStart h)
  thParEnd := fun c _ th' h => signed_of_step (step_meetParSubgraphEnd h)
  pushRequest := fun c s => signed_push (.requestSentBy s) "" rfl rfl (by simp [CallResult.getCid, ownOf])
  failedService := by
    intro env t ah sr c
    unfold updFailedService
    exact signed_record_push c _ _ _ _ rfl rfl rfl rfl
  serviceResult := by
    intro env result t ah out c c' h
    unfold updServiceResult at h
    obtain ⟨⟨cr, c1⟩, h1, h2⟩ := res_bind_ok'' h
    cases h2
    cases out with
    | none =>
      simp only [populateFromPeerServiceResult] at h1
      injection h1 with h1; injection h1 with hcr hc; subst hcr; subst hc
      exact signed_push _ t.peerPk rfl rfl (by simp [CallResult.getCid, ownOf])
    | stream n p =>
      simp only [populateFromPeerServiceResult] at h1
      obtain ⟨c2, h2, h3⟩ := res_bind_ok'' h1
      injection h3 with h3; injection h3 with hcr hc; subst hcr; subst hc
      have hs := sameButStreams_addStreamValue h2
      exact signed_record_push c c2 _ _ _ rfl hs.me hs.th hs.peerCids
    | scalar name =>
      simp only [populateFromPeerServiceResult, bind, Res.bind] at h1
      split at h1
      · injection h1 with h1; injection h1 with hcr hc; subst hcr; subst hc
        exact signed_record_push c _ _ _ _ rfl rfl rfl rfl
      · cases h1
      · cases h1
  prevFailed := by
    intro t cid c
    unfold updPrevFailed
    exact signed_record_push c _ _ _ _ rfl rfl rfl rfl
  dropResult := fun key c => signed_of_same rfl rfl rfl
  prevExecutedBind := by
    intro env c value ah t pos out src c' h
    obtain ⟨h1, h2, h3⟩ := populateFromData_same h
    exact signed_of_same h1 h2 h3
  prevExecuted := by
    intro t value c
    unfold updPrevExecuted
    cases value with
    | scalar cid => exact signed_record_push c c _ _ _ rfl rfl rfl rfl
    | stream cid g => exact signed_record_push c c _ _ _ rfl rfl rfl rfl
    | unused cid => exact signed_push _ t.peerPk rfl rfl (by simp [CallResult.getCid, ownOf])
  issue := by
    intro t args c c' _ h
    unfold issueRequest at h
    split at h
    · split at h
      · cases h
      · injection h with h; subst h
        exact signed_push _ "" rfl rfl (by simp [CallResult.getCid, ownOf])
    · cases h
    · cases h
  remote := fun t c _ => signed_push _ "" rfl rfl (by simp [CallResult.getCid, ownOf, updRemoteCall])
  streamUpd := fun c c' h => signed_of_same h.me h.th h.peerCids
  thApStart := fun c _ th' h => signed_of_step (step_meetApStart h)
  pushAp := fun c => signed_pushEntry (.ap [generationStub]) "" rfl rfl (by simp [entryCids, ownOf])
  thCanonStart := fun c _ th' h => signed_of_step (step_meetCanonStart h)
  canonTrack := by
    intro env target stream pos peerId c
    unfold updCanonTrack
    exact signed_of_same rfl rfl rfl
  canonFinish := by
    intro name cs cid reg c c' h
    unfold updCanonFinish at h
    obtain ⟨sc, _, h2⟩ := res_bind_ok'' h
    injection h2 with h2; subst h2
    refine signed_pushEntry (.canon (.executed cid)) reg ?_ ?_ ?_
    · simp [recordCanonCid_me]
    · simp [recordCanonCid_th, TraceHandler.meetCanonEnd]
    · simp [entryCids, recordCanonCid_peerCids]
  canonPushRequest := fun c sender => signed_pushEntry (.canon (.requestSentBy sender)) "" rfl rfl (by simp [entryCids, ownOf])
  canonRemote := fun c peerId _ => signed_pushEntry (.canon (.requestSentBy c.currentPeerId)) "" rfl rfl (by simp [entryCids, ownOf])
  foldCount := fun c => signed_of_same rfl rfl rfl
  thFoldOp := by
    intro c th' h
    cases h with
    | foldStart id h => exact signed_of_step (step_meetFoldStart h)
    | iterationStart id pos h => exact signed_of_step (step_meetIterationStart h)
    | iterationEnd id h => exact signed_of_step (step_meetIterationEnd h)
    | backIterator id h => exact signed_of_step (step_meetBackIterator h)
    | generationEnd id h => exact signed_of_step (step_meetGenerationEnd h)
    | foldEnd id h => exact signed_of_step (step_meetFoldEnd h)
  scopeEnd := by
    intro name c c' h
    unfold Ctx.streamScopeEnd at h
    split at h
    · cases h
    · split at h
      · cases h
      · split at h
        · rename_i hc
          injection h with h; subst h
          exact signed_of_genRel rfl rfl (genRel_compactify hc)
        · cases h
        · cases h

abbrev finalCtx (env : Env) (fuel : Nat) (script : Instr) (prev cur : DataIn) (p : RunParams)
    (results : List (String × CallServiceResult)) : Ctx := (runExec env fuel script prev cur p results).2

/-- **The current peer signs exactly its own results.**  For every run: the call results in the produced
trace are the pushed results `ds` in order, each tagged with the peer its call is addressed to, and the
list of ids registered for the current peer's signature is exactly the sub-list tagged with the current
peer — no own result is left unsigned and nothing foreign is signed.  Holds on every exit of the
execution stage (success, catchable or uncatchable error). -/
theorem C03_own_results_signed (env : Env) (fuel : Nat) (script : Instr) (prev cur : DataIn) (p : RunParams)
    (results : List (String × CallServiceResult)) :
    ∃ ds : List (String × Cid),
      callCids (finalCtx env fuel script prev cur p results).th.keeper.resultTrace = ds.map (·.2) ∧
      (finalCtx env fuel script prev cur p results).peerCids = ownOf p.currentPeerId ds := by
  have h := exec_rel signed_prims env fuel script (initCtx prev cur p results)
  have hw : InsOK (initCtx prev cur p results).th := by intro f hf; cases hf
  obtain ⟨ds, h1, h2⟩ := h.reg hw
  have e1 : resultCids (initCtx prev cur p results) = [] := rfl
  have e2 : (initCtx prev cur p results).peerCids = [] := rfl
  have e3 : (initCtx prev cur p results).currentPeerId = p.currentPeerId := rfl
  rw [e1, List.nil_append] at h1
  rw [e2, List.nil_append, e3] at h2
  exact ⟨ds, h1, h2⟩

/-- the same for any starting context with a well-formed par stack (used between instructions) -/
theorem C03_exec_signed (env : Env) (fuel : Nat) (script : Instr) (c : Ctx) : Signed c (exec env fuel script c).2 :=
  exec_rel signed_prims env fuel script c

/-- the state-inserter invariant is kept by every run: open pars always point at `par` entries -/
theorem C03_par_inserters_valid (env : Env) (fuel : Nat) (script : Instr) (c : Ctx) (h : InsOK c.th) :
    InsOK (exec env fuel script c).2.th := (exec_rel signed_prims env fuel script c).wf h

/-! ## the CID stores: items are keyed by the hash of their content, references are present -/

theorem lookup_upsert_self {β} (l : List (String × β)) (k : String) (v : β) : lookup (upsert l k v) k = some v := by
  unfold upsert lookup
  split
  · rename_i h
    induction l with
    | nil => simp at h
    | cons x xs ih =>
      obtain ⟨k', v'⟩ := x
      simp only [List.map_cons, List.find?_cons]
      by_cases hk : k' == k
      · simp [hk]
      · simp only [hk, Bool.false_eq_true, if_false]
        have : xs.any (fun x => x.1 == k) = true := by simpa [hk] using h
        simpa using ih this
  · rename_i h
    induction l with
    | nil => simp
    | cons x xs ih =>
      obtain ⟨k', v'⟩ := x
      have hk : (k' == k) = false := by
        simp only [List.any_cons, Bool.or_eq_true, not_or] at h
        simpa using h.1
      have hxs : ¬ xs.any (fun x => x.1 == k) = true := by
        simp only [List.any_cons, Bool.or_eq_true, not_or] at h
        exact h.2
      simp only [List.cons_append, List.find?_cons, hk]
      simpa using ih hxs

/-- `track_value`: the value is stored under the hash of its serialisation -/
theorem C03_tracked_value_keyed (env : Env) (s : CidState) (v : JVal) :
    (trackValue env s v).1 = env.hash v.render ∧
    lookup (trackValue env s v).2.values (trackValue env s v).1 = some v.render := by
  unfold trackValue
  exact ⟨rfl, lookup_upsert_self _ _ _⟩

/-- `track_service_result`: the aggregate is stored under the hash of its serialisation and the value
and tetraplet it references were stored in the same step -/
theorem C03_tracked_service_result_closed (env : Env) (s : CidState) (v : JVal) (t : Tetraplet) (ah : String) :
    ∃ agg, lookup (trackServiceResult env s v t ah).2.serviceResults (trackServiceResult env s v t ah).1 = some agg ∧
      (trackServiceResult env s v t ah).1 = env.hash agg.json ∧
      agg.valueCid = env.hash v.render ∧ agg.tetrapletCid = env.hash t.json ∧ agg.argumentHash = ah := by
  unfold trackServiceResult trackValue trackTetraplet
  exact ⟨_, lookup_upsert_self _ _ _, rfl, rfl, rfl, rfl⟩

/-! ### non-vacuity -/
section Examples
def env0 : Env := { hash := fun _ => "h", parseJson := fun _ => some .null }
def tA : Tetraplet := { peerPk := "A", serviceId := "s", functionName := "f" }
def script0 : Instr := .call (.literal "A") (.literal "s") (.literal "f") [] (.scalar "x")
/-- previous data in which the call is already executed (value, tetraplet and aggregate stored) -/
def cid0 : CidState := { values := [("h", "null")], tetraplets := [("h", tA)], serviceResults := [("h", ⟨"h", "h", "h"⟩)] }
def prev0 : DataIn := { trace := [.call (.executed (.scalar "h"))], lcid := 1, cid := cid0 }
def params0 : RunParams := { initPeerId := "A", currentPeerId := "A", timestamp := 0, ttl := 0 }
def ctx0 : Ctx := initCtx prev0 {} params0 []
-- re-emitting the own result found in the data registers exactly its id for signing, and the relation
-- `Signed` then speaks about a non-empty list of pushed results
example : (updPrevExecuted tA (.scalar "h") ctx0).peerCids = ["h"] ∧
    callCids (updPrevExecuted tA (.scalar "h") ctx0).th.keeper.resultTrace = ["h"] := by decide
-- a foreign result is re-emitted but NOT registered
example : (updPrevExecuted { tA with peerPk := "B" } (.scalar "h") ctx0).peerCids = [] ∧
    callCids (updPrevExecuted { tA with peerPk := "B" } (.scalar "h") ctx0).th.keeper.resultTrace = ["h"] := by decide
end Examples

/-- The full reading of the property (every produced data decodes, carries a supported version, its CID
store verifies, every peer's signature verifies, another peer accepts it) additionally needs: the
farewell step (serialisation, `sign_result`), the union of previous and current stores/signatures being
consistent (C15), other peers' states being re-emitted completely (C09) and stream generations
(streams are not in the executor model yet).  Those parts are covered by the oracle (decode + CID-store
verification + signature verification + a real second-peer run on every produced data of every
generated history) and by the lock-step correspondence (projection: code, stores, trace, registered ids). -/
def C03_full_note : Unit := ()

end AquaProps.C03
