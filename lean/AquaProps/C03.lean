import AquaProps.Lemmas.ExecRel
import AquaProps.Lemmas.TraceFrame
import Aqua.Exec.Run
/-!
# C03 — every produced data is accepted and verifiable by any other peer

What a receiving peer checks (model: `collect_peers_cids_from_trace` + `DataVerifier::verify`): for
each peer, the content ids of the call results attributed to it in the trace are exactly what its
signature covers.  The producing side must therefore register for signing **exactly** the ids of the
own results it puts into the result trace.  That is the whole-run theorem below
(`C03_own_results_signed`), proved for EVERY script, fuel, previous/current data and call-result map by
the generic executor induction `exec_rel` with the relation `Signed`; plus the store-side lemmas
(`C03_tracked_*`): every item put into the CID stores is keyed by the hash of its content and the
aggregate's references are present.

Before the repair in /repo (`fix: register the CID of the Failed state …`) the primitive
`failedService` for a non-JSON service result did NOT satisfy `Signed` (the state was pushed without
registration) — the proof obligation that breaks is `signed_prims.failedService`.
-/
namespace AquaProps.C03
open Aqua Aqua.Exec Aqua.Air Aqua.Data Aqua.Trace Aqua.Json AquaProps

/-- content ids of the call results in a trace, in order (`CallResult::get_cid`: executed scalar /
stream values and failed calls; requests and unused values carry no signed id) -/
def callCids : Trace → List Cid
  | [] => []
  | .call cr :: rest => (match cr.getCid with | some c => [c] | none => []) ++ callCids rest
  | _ :: rest => callCids rest

theorem callCids_append (a b : Trace) : callCids (a ++ b) = callCids a ++ callCids b := by
  induction a with
  | nil => rfl
  | cons x xs ih =>
    cases x <;> simp [callCids, ih, List.append_assoc]

/-- overwriting a `par` entry with a `par` entry does not touch the call results -/
theorem callCids_set_par (t : Trace) (i : Nat) (l r l' r' : Nat) (h : t[i]? = some (.par l r)) :
    callCids (t.set i (.par l' r')) = callCids t := by
  induction t generalizing i with
  | nil => rfl
  | cons x xs ih =>
    cases i with
    | zero =>
      simp only [List.getElem?_cons_zero, Option.some.injEq] at h
      subst h
      simp [List.set, callCids]
    | succ j =>
      simp only [List.getElem?_cons_succ] at h
      simp only [List.set]
      cases x <;> simp [callCids, ih j h]

/-- every open par's inserter points at a `par` entry of the result trace (state-inserter invariant) -/
def ParOK (th : TraceHandler) : Prop :=
  ∀ f ∈ th.parStack, ∃ l r, th.keeper.resultTrace[f.inserterPos]? = some (.par l r)

def resultCids (c : Ctx) : List Cid := callCids c.th.keeper.resultTrace

/-- pushed results, each tagged with the peer of the call's resolved triplet -/
def ownOf (me : String) (ds : List (String × Cid)) : List Cid := (ds.filter (fun d => d.1 == me)).map (·.2)

theorem ownOf_append (me : String) (a b : List (String × Cid)) : ownOf me (a ++ b) = ownOf me a ++ ownOf me b := by
  simp [ownOf, List.filter_append]

structure Signed (c c' : Ctx) : Prop where
  me : c'.currentPeerId = c.currentPeerId
  wf : ParOK c.th → ParOK c'.th
  reg : ParOK c.th → ∃ ds : List (String × Cid),
    resultCids c' = resultCids c ++ ds.map (·.2) ∧ c'.peerCids = c.peerCids ++ ownOf c.currentPeerId ds

theorem signed_refl (c : Ctx) : Signed c c := ⟨rfl, id, fun _ => ⟨[], by simp, by simp [ownOf]⟩⟩

theorem signed_trans {a b c : Ctx} (h1 : Signed a b) (h2 : Signed b c) : Signed a c := by
  refine ⟨h2.me.trans h1.me, fun h => h2.wf (h1.wf h), fun h => ?_⟩
  obtain ⟨d1, r1, p1⟩ := h1.reg h
  obtain ⟨d2, r2, p2⟩ := h2.reg (h1.wf h)
  refine ⟨d1 ++ d2, ?_, ?_⟩
  · rw [r2, r1]; simp [List.append_assoc]
  · rw [p2, p1, h1.me, ownOf_append]; simp [List.append_assoc]

/-- nothing relevant changed -/
theorem signed_of_same {c c' : Ctx} (hme : c'.currentPeerId = c.currentPeerId) (hth : c'.th = c.th)
    (hp : c'.peerCids = c.peerCids) : Signed c c' :=
  ⟨hme, fun h => by rw [hth]; exact h, fun _ => ⟨[], by simp [resultCids, hth], by simp [ownOf, hp]⟩⟩

theorem parOK_push {th : TraceHandler} (s : ExecutedState) (h : ParOK th) : ParOK (th.pushState s) := by
  intro f hf
  obtain ⟨l, r, hl⟩ := h f hf
  refine ⟨l, r, ?_⟩
  show (th.keeper.resultTrace ++ [s])[f.inserterPos]? = _
  have hlt : f.inserterPos < th.keeper.resultTrace.length := by
    rcases Nat.lt_or_ge f.inserterPos th.keeper.resultTrace.length with h' | h'
    · exact h'
    · rw [List.getElem?_eq_none h'] at hl; cases hl
  rw [List.getElem?_append_left hlt]; exact hl

/-- pushing one call state: the ids grow by that state's id (if it has one) -/
theorem resultCids_push (th : TraceHandler) (cr : CallResult) :
    callCids (th.meetCallEnd cr).keeper.resultTrace =
      callCids th.keeper.resultTrace ++ (match cr.getCid with | some c => [c] | none => []) := by
  show callCids (th.keeper.resultTrace ++ [.call cr]) = _
  rw [callCids_append]; simp [callCids]

/-- a context update that pushes the call state `cr`, registers `reg` and keeps the peer id -/
theorem signed_push {c c' : Ctx} (cr : CallResult) (tag : String) (hme : c'.currentPeerId = c.currentPeerId)
    (hth : c'.th = c.th.meetCallEnd cr)
    (hreg : c'.peerCids = c.peerCids ++ ownOf c.currentPeerId ((match cr.getCid with | some x => [x] | none => []).map fun x => (tag, x))) :
    Signed c c' := by
  refine ⟨hme, fun h => by rw [hth]; exact parOK_push _ h, fun _ => ?_⟩
  refine ⟨(match cr.getCid with | some x => [x] | none => []).map fun x => (tag, x), ?_, hreg⟩
  simp only [resultCids, hth, resultCids_push]
  congr 1
  cases cr.getCid <;> simp

theorem recordCallCid_peerCids (c : Ctx) (p cid : String) :
    (c.recordCallCid p cid).peerCids = c.peerCids ++ ownOf c.currentPeerId [(p, cid)] := by
  unfold Ctx.recordCallCid ownOf
  by_cases h : p == c.currentPeerId <;> simp [h]

theorem recordCallCid_th (c : Ctx) (p cid : String) : (c.recordCallCid p cid).th = c.th := by
  unfold Ctx.recordCallCid; split <;> rfl
theorem recordCallCid_me (c : Ctx) (p cid : String) : (c.recordCallCid p cid).currentPeerId = c.currentPeerId := by
  unfold Ctx.recordCallCid; split <;> rfl


/-- register `cid` for peer `p` (if it is the current peer) and push a result state carrying `cid` -/
theorem signed_record_push (c c1 : Ctx) (p cid : String) (cr : CallResult) (hcr : cr.getCid = some cid)
    (hme : c1.currentPeerId = c.currentPeerId) (hth : c1.th = c.th) (hpc : c1.peerCids = c.peerCids) :
    Signed c { (c1.recordCallCid p cid) with th := (c1.recordCallCid p cid).th.meetCallEnd cr } := by
  refine signed_push cr p ?_ ?_ ?_
  · simp [recordCallCid_me, hme]
  · simp [recordCallCid_th, hth]
  · simp [hcr, recordCallCid_peerCids, hpc, hme]

theorem populateFromData_same {env : Env} {c c' : Ctx} {value : ValueRef} {ah : String} {t : Tetraplet} {pos : Nat}
    {out : CallOutput} (h : populateFromData env c value ah t pos out = .ok c') :
    c'.currentPeerId = c.currentPeerId ∧ c'.th = c.th ∧ c'.peerCids = c.peerCids := by
  unfold populateFromData at h
  split at h
  · simp only [bind, Res.bind] at h
    split at h
    · split at h
      · split at h
        · injection h with h; subst h; exact ⟨rfl, rfl, rfl⟩
        · cases h
        · cases h
      · cases h
      · cases h
    · cases h
    · cases h
  · simp [unmodelled] at h
  · injection h with h; subst h; exact ⟨rfl, rfl, rfl⟩
  · simp [uncatchable] at h

/-- the primitives of the executor preserve `Signed` -/
theorem signed_prims : ExecPrims Signed where
  pre := ⟨signed_refl, signed_trans⟩
  ctl := fun c c' h => signed_of_same h.me h.th h.peerCids
  thCallStart := by
    intro c met th' h
    obtain ⟨ht, hp⟩ := meetCallStart_frame h
    refine ⟨rfl, fun hw => ?_, fun _ => ⟨[], by simp [resultCids, ht], by simp [ownOf]⟩⟩
    intro f hf
    rw [show ({ c with th := th' } : Ctx).th = th' from rfl] at hf ⊢
    rw [hp] at hf; rw [ht]; exact hw f hf
  thParStart := by
    intro c th' h
    obtain ⟨ht, f0, hp, hpos⟩ := meetParStart_frame h
    refine ⟨rfl, fun hw => ?_, fun _ => ⟨[], ?_, by simp [ownOf]⟩⟩
    · intro f hf
      rw [show ({ c with th := th' } : Ctx).th = th' from rfl] at hf ⊢
      rw [hp] at hf; rw [ht]
      rcases List.mem_cons.mp hf with rfl | hf'
      · exact ⟨0, 0, by rw [hpos]; simp⟩
      · obtain ⟨l, r, hl⟩ := hw f hf'
        have hlt : f.inserterPos < c.th.keeper.resultTrace.length := by
          rcases Nat.lt_or_ge f.inserterPos c.th.keeper.resultTrace.length with h' | h'
          · exact h'
          · rw [List.getElem?_eq_none h'] at hl; cases hl
        exact ⟨l, r, by rw [List.getElem?_append_left hlt]; exact hl⟩
    · simp [resultCids, ht, callCids_append, callCids]
  thParEnd := by
    intro c t th' h
    obtain ⟨f, rest, hs, hcase⟩ := meetParSubgraphEnd_frame h
    rcases hcase with ⟨_, ht, f', hp, hpos⟩ | ⟨_, hp, l', r', ht⟩
    · refine ⟨rfl, fun hw => ?_, fun _ => ⟨[], by simp [resultCids, ht], by simp [ownOf]⟩⟩
      intro g hg
      rw [show ({ c with th := th' } : Ctx).th = th' from rfl] at hg ⊢
      rw [hp] at hg; rw [ht]
      rcases List.mem_cons.mp hg with rfl | hg'
      · rw [hpos]; exact hw f (by rw [hs]; exact List.mem_cons_self)
      · exact hw g (by rw [hs]; exact List.mem_cons_of_mem _ hg')
    · refine ⟨rfl, fun hw => ?_, fun hw => ⟨[], ?_, by simp [ownOf]⟩⟩
      · intro g hg
        rw [show ({ c with th := th' } : Ctx).th = th' from rfl] at hg ⊢
        rw [hp] at hg; rw [ht]
        obtain ⟨l, r, hl⟩ := hw g (by rw [hs]; exact List.mem_cons_of_mem _ hg)
        by_cases hi : f.inserterPos = g.inserterPos
        · refine ⟨l', r', ?_⟩
          have hlt : g.inserterPos < c.th.keeper.resultTrace.length := by
            rcases Nat.lt_or_ge g.inserterPos c.th.keeper.resultTrace.length with h' | h'
            · exact h'
            · rw [List.getElem?_eq_none h'] at hl; cases hl
          rw [hi]; simp [List.getElem?_set, hlt]
        · exact ⟨l, r, by rw [List.getElem?_set_ne hi]; exact hl⟩
      · obtain ⟨l, r, hl⟩ := hw f (by rw [hs]; exact List.mem_cons_self)
        simp only [resultCids, List.map_nil, List.append_nil]
        show callCids th'.keeper.resultTrace = _
        rw [ht]
        exact callCids_set_par _ _ l r l' r' hl
  pushRequest := fun c s => signed_push (.requestSentBy s) "" rfl rfl (by simp [CallResult.getCid, ownOf])
  failedService := by
    intro env t ah sr c
    unfold updFailedService
    exact signed_record_push c _ _ _ _ rfl rfl rfl rfl
  serviceResult := by
    intro env result t ah out c c' h
    unfold updServiceResult at h
    obtain ⟨⟨cr, c1⟩, h1, h2⟩ := res_bind_ok' h
    cases h2
    cases out with
    | none =>
      simp only [populateFromPeerServiceResult] at h1
      injection h1 with h1; injection h1 with hcr hc; subst hcr; subst hc
      exact signed_push _ t.peerPk rfl rfl (by simp [CallResult.getCid, ownOf])
    | stream n p => simp [populateFromPeerServiceResult, unmodelled] at h1
    | scalar name =>
      simp only [populateFromPeerServiceResult, bind, Res.bind] at h1
      split at h1
      · injection h1 with h1; injection h1 with hcr hc; subst hcr; subst hc
        exact signed_record_push c _ _ _ _ rfl rfl rfl rfl
      · cases h1
      · cases h1
  prevFailed := by
    intro t cid c
    unfold updPrevFailed
    exact signed_record_push c _ _ _ _ rfl rfl rfl rfl
  dropResult := fun key c => signed_of_same rfl rfl rfl
  prevExecutedBind := by
    intro env c value ah t pos out c' h
    obtain ⟨h1, h2, h3⟩ := populateFromData_same h
    exact signed_of_same h1 h2 h3
  prevExecuted := by
    intro t value c
    unfold updPrevExecuted
    cases value with
    | scalar cid => exact signed_record_push c c _ _ _ rfl rfl rfl rfl
    | stream cid g => exact signed_record_push c c _ _ _ rfl rfl rfl rfl
    | unused cid => exact signed_push _ t.peerPk rfl rfl (by simp [CallResult.getCid, ownOf])
  issue := by
    intro t args c c' _ h
    unfold issueRequest at h
    split at h
    · split at h
      · cases h
      · injection h with h; subst h
        exact signed_push _ "" rfl rfl (by simp [CallResult.getCid, ownOf])
    · cases h
    · cases h
  remote := fun t c _ => signed_push _ "" rfl rfl (by simp [CallResult.getCid, ownOf, updRemoteCall])

abbrev finalCtx (env : Env) (fuel : Nat) (script : Instr) (prev cur : DataIn) (p : RunParams)
    (results : List (String × CallServiceResult)) : Ctx := (runExec env fuel script prev cur p results).2

/-- **The current peer signs exactly its own results.**  For every run: the call results in the produced
trace are the pushed results `ds` in order, each tagged with the peer its call is addressed to, and the
list of ids registered for the current peer's signature is exactly the sub-list tagged with the current
peer — no own result is left unsigned and nothing foreign is signed.  Holds on every exit of the
execution stage (success, catchable or uncatchable error). -/
theorem C03_own_results_signed (env : Env) (fuel : Nat) (script : Instr) (prev cur : DataIn) (p : RunParams)
    (results : List (String × CallServiceResult)) :
    ∃ ds : List (String × Cid),
      callCids (finalCtx env fuel script prev cur p results).th.keeper.resultTrace = ds.map (·.2) ∧
      (finalCtx env fuel script prev cur p results).peerCids = ownOf p.currentPeerId ds := by
  have h := exec_rel signed_prims env fuel script (initCtx prev cur p results)
  have hw : ParOK (initCtx prev cur p results).th := by intro f hf; cases hf
  obtain ⟨ds, h1, h2⟩ := h.reg hw
  have e1 : resultCids (initCtx prev cur p results) = [] := rfl
  have e2 : (initCtx prev cur p results).peerCids = [] := rfl
  have e3 : (initCtx prev cur p results).currentPeerId = p.currentPeerId := rfl
  rw [e1, List.nil_append] at h1
  rw [e2, List.nil_append, e3] at h2
  exact ⟨ds, h1, h2⟩

/-- the same for any starting context with a well-formed par stack (used between instructions) -/
theorem C03_exec_signed (env : Env) (fuel : Nat) (script : Instr) (c : Ctx) : Signed c (exec env fuel script c).2 :=
  exec_rel signed_prims env fuel script c

/-- the state-inserter invariant is kept by every run: open pars always point at `par` entries -/
theorem C03_par_inserters_valid (env : Env) (fuel : Nat) (script : Instr) (c : Ctx) (h : ParOK c.th) :
    ParOK (exec env fuel script c).2.th := (exec_rel signed_prims env fuel script c).wf h

/-! ## the CID stores: items are keyed by the hash of their content, references are present -/

theorem lookup_upsert_self {β} (l : List (String × β)) (k : String) (v : β) : lookup (upsert l k v) k = some v := by
  unfold upsert lookup
  split
  · rename_i h
    induction l with
    | nil => simp at h
    | cons x xs ih =>
      obtain ⟨k', v'⟩ := x
      simp only [List.map_cons, List.find?_cons]
      by_cases hk : k' == k
      · simp [hk]
      · simp only [hk, Bool.false_eq_true, if_false]
        have : xs.any (fun x => x.1 == k) = true := by simpa [hk] using h
        simpa using ih this
  · rename_i h
    induction l with
    | nil => simp
    | cons x xs ih =>
      obtain ⟨k', v'⟩ := x
      have hk : (k' == k) = false := by
        simp only [List.any_cons, Bool.or_eq_true, not_or] at h
        simpa using h.1
      have hxs : ¬ xs.any (fun x => x.1 == k) = true := by
        simp only [List.any_cons, Bool.or_eq_true, not_or] at h
        exact h.2
      simp only [List.cons_append, List.find?_cons, hk]
      simpa using ih hxs

/-- `track_value`: the value is stored under the hash of its serialisation -/
theorem C03_tracked_value_keyed (env : Env) (s : CidState) (v : JVal) :
    (trackValue env s v).1 = env.hash v.render ∧
    lookup (trackValue env s v).2.values (trackValue env s v).1 = some v.render := by
  unfold trackValue
  exact ⟨rfl, lookup_upsert_self _ _ _⟩

/-- `track_service_result`: the aggregate is stored under the hash of its serialisation and the value
and tetraplet it references were stored in the same step -/
theorem C03_tracked_service_result_closed (env : Env) (s : CidState) (v : JVal) (t : Tetraplet) (ah : String) :
    ∃ agg, lookup (trackServiceResult env s v t ah).2.serviceResults (trackServiceResult env s v t ah).1 = some agg ∧
      (trackServiceResult env s v t ah).1 = env.hash agg.json ∧
      agg.valueCid = env.hash v.render ∧ agg.tetrapletCid = env.hash t.json ∧ agg.argumentHash = ah := by
  unfold trackServiceResult trackValue trackTetraplet
  exact ⟨_, lookup_upsert_self _ _ _, rfl, rfl, rfl, rfl⟩

/-! ### non-vacuity -/
section Examples
def env0 : Env := { hash := fun _ => "h", parseJson := fun _ => some .null }
def tA : Tetraplet := { peerPk := "A", serviceId := "s", functionName := "f" }
def script0 : Instr := .call (.literal "A") (.literal "s") (.literal "f") [] (.scalar "x")
/-- previous data in which the call is already executed (value, tetraplet and aggregate stored) -/
def cid0 : CidState := { values := [("h", "null")], tetraplets := [("h", tA)], serviceResults := [("h", ⟨"h", "h", "h"⟩)] }
def prev0 : DataIn := { trace := [.call (.executed (.scalar "h"))], lcid := 1, cid := cid0 }
def params0 : RunParams := { initPeerId := "A", currentPeerId := "A", timestamp := 0, ttl := 0 }
def ctx0 : Ctx := initCtx prev0 {} params0 []
-- re-emitting the own result found in the data registers exactly its id for signing, and the relation
-- `Signed` then speaks about a non-empty list of pushed results
example : (updPrevExecuted tA (.scalar "h") ctx0).peerCids = ["h"] ∧
    callCids (updPrevExecuted tA (.scalar "h") ctx0).th.keeper.resultTrace = ["h"] := by decide
-- a foreign result is re-emitted but NOT registered
example : (updPrevExecuted { tA with peerPk := "B" } (.scalar "h") ctx0).peerCids = [] ∧
    callCids (updPrevExecuted { tA with peerPk := "B" } (.scalar "h") ctx0).th.keeper.resultTrace = ["h"] := by decide
end Examples

/-- The full reading of the property (every produced data decodes, carries a supported version, its CID
store verifies, every peer's signature verifies, another peer accepts it) additionally needs: the
farewell step (serialisation, `sign_result`), the union of previous and current stores/signatures being
consistent (C15), other peers' states being re-emitted completely (C09) and stream generations
(streams are not in the executor model yet).  Those parts are covered by the oracle (decode + CID-store
verification + signature verification + a real second-peer run on every produced data of every
generated history) and by the lock-step correspondence (projection: code, stores, trace, registered ids). -/
def C03_full_note : Unit := ()

end AquaProps.C03
