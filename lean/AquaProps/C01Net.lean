import AquaProps.Lemmas.NetLift
import AquaProps.C01
/-!
# C01 along whole histories (`Aqua.Net`)

The panic-site theorem holds for arbitrary inputs of one run; stated here for every run honest hosts ever make:
whatever the script, the services and the schedule, a run of the execution-stage model (with the farewell
compaction) can only panic at one of the listed sites.
-/
namespace AquaProps.C01
open Aqua Aqua.Exec Aqua.Air Aqua.Net AquaProps AquaProps.NetLift

/-- **Along any honest history** a run of the model panics only at a listed site. -/
theorem C01_network_panic_sites_partial (env : Env) (svc : Services) (P : Particle) (st : NetSt)
    (h : Reachable env svc P st) : ∀ r ∈ st.runs, ∀ s, r.res = .panic s → s ∈ modelledExecPanicSites := by
  intro r hr s hs
  have hg := (reachable_inv h).genuine r hr
  unfold Genuine at hg
  have hres : r.res = (runExecFarewell env r.fuel P.script r.prev r.cur ⟨P.initPeer, r.peer, P.timestamp, P.ttl⟩ r.results).1 := by
    rw [← hg]
  rw [hres] at hs
  exact C01_exec_farewell_panic_sites_partial env r.fuel P.script r.prev r.cur ⟨P.initPeer, r.peer, P.timestamp, P.ttl⟩ r.results s hs

/-- a run that panics leaves the host's state as it was: nothing is stored, requested or sent -/
theorem C01_network_panic_is_inert (r : Run) (s : String) (h : r.res = .panic s) :
    r.newData = r.prev ∧ r.requests = [] ∧ r.nextPeers = [] := by
  unfold Run.newData Run.requests Run.nextPeers accepted
  rw [h]; simp

end AquaProps.C01
