import AquaProps.Lemmas.NetLift
import AquaProps.C03
/-!
# C03 for the data a host actually receives, along whole histories

`C03_own_results_signed` speaks about the context at the end of the execution stage.  What the host gets
is that context after the farewell compaction of all streams (`runExecFarewell`).  Compaction only rewrites
generation numbers, so the statement carries over to the returned data, and — through the network
invariant — to every run of every honest history.
-/
namespace AquaProps.C03
open Aqua Aqua.Exec Aqua.Air Aqua.Data Aqua.Trace Aqua.Net AquaProps AquaProps.NetLift

theorem genRel_descs : ∀ (ds ds' : List StreamDesc) (th th' : TraceHandler),
    Ctx.compactifyStreams.descs ds th = .ok (ds', th') → GenRel th th'
  | [], _, th, th', h => by
    unfold Ctx.compactifyStreams.descs at h
    injection h with h; injection h with _ h2; subst h2; exact genRel_refl _
  | d :: rest, ds', th, th', h => by
    unfold Ctx.compactifyStreams.descs at h
    split at h
    · rename_i s th1 hc
      split at h
      · rename_i r th2 hr
        injection h with h; injection h with _ h2; subst h2
        exact genRel_trans (genRel_compactify hc) (genRel_descs rest _ _ _ hr)
      · cases h
      · cases h
    · cases h
    · cases h

theorem genRel_all : ∀ (l l' : List (String × List StreamDesc)) (th th' : TraceHandler),
    Ctx.compactifyStreams.all l th = .ok (l', th') → GenRel th th'
  | [], _, th, th', h => by
    unfold Ctx.compactifyStreams.all at h
    injection h with h; injection h with _ h2; subst h2; exact genRel_refl _
  | (n, ds) :: rest, l', th, th', h => by
    unfold Ctx.compactifyStreams.all at h
    split at h
    · rename_i ds1 th1 hd
      split at h
      · rename_i r th2 hr
        injection h with h; injection h with _ h2; subst h2
        exact genRel_trans (genRel_descs ds _ _ _ hd) (genRel_all rest _ _ _ hr)
      · cases h
      · cases h
    · cases h
    · cases h

/-- the farewell compaction rewrites generation numbers only -/
theorem compactifyStreams_genRel {c c' : Ctx} (h : c.compactifyStreams = .ok c') :
    GenRel c.th c'.th ∧ c'.peerCids = c.peerCids ∧ c'.currentPeerId = c.currentPeerId := by
  unfold Ctx.compactifyStreams at h
  split at h
  · rename_i ss th hall
    injection h with h; subst h
    exact ⟨genRel_all _ _ _ _ hall, rfl, rfl⟩
  · cases h
  · cases h

/-- **The data handed to the host is signed exactly for the peer's own results**: `C03_own_results_signed`
for the outcome of the whole run including the farewell compaction, on every exit. -/
theorem C03_returned_data_signed (env : Env) (fuel : Nat) (script : Instr) (prev cur : DataIn) (p : RunParams)
    (results : List (String × CallServiceResult)) :
    ∃ ds : List (String × Cid),
      callCids (runExecFarewell env fuel script prev cur p results).2.th.keeper.resultTrace = ds.map (·.2) ∧
      (runExecFarewell env fuel script prev cur p results).2.peerCids = ownOf p.currentPeerId ds := by
  obtain ⟨ds, h1, h2⟩ := C03_own_results_signed env fuel script prev cur p results
  have hsig := exec_rel signed_prims env fuel script (initCtx prev cur p results)
  have hw0 : InsOK (initCtx prev cur p results).th := by intro f hf; cases hf
  have hw : InsOK (runExec env fuel script prev cur p results).2.th := hsig.wf hw0
  unfold runExecFarewell
  cases hx : runExec env fuel script prev cur p results with
  | mk res cx =>
    unfold finalCtx at h1 h2
    rw [hx] at h1 h2 hw
    simp only at h1 h2 hw ⊢
    have key : ∀ c', cx.compactifyStreams = .ok c' →
        callCids c'.th.keeper.resultTrace = ds.map (·.2) ∧ c'.peerCids = ownOf p.currentPeerId ds := by
      intro c' hc
      obtain ⟨hg, hp, _⟩ := compactifyStreams_genRel hc
      exact ⟨(hg.cids hw).trans h1, hp.trans h2⟩
    cases res with
    | ok u =>
      cases u
      simp only
      cases hcomp : cx.compactifyStreams with
      | ok c' => exact ⟨ds, key c' hcomp⟩
      | error e => exact ⟨ds, h1, h2⟩
      | panic s => exact ⟨ds, h1, h2⟩
    | error e =>
      cases e with
      | catchable ce =>
        simp only
        cases hcomp : cx.compactifyStreams with
        | ok c' => exact ⟨ds, key c' hcomp⟩
        | error e => exact ⟨ds, h1, h2⟩
        | panic s => exact ⟨ds, h1, h2⟩
      | uncatchable ue => exact ⟨ds, h1, h2⟩
      | unmodelled w => exact ⟨ds, h1, h2⟩
    | panic s => exact ⟨ds, h1, h2⟩

/-- **Along any honest history**: for every run of every reachable state of the network (any script, services
and schedule) the ids registered for the running peer's signature are exactly the ids of the results its run
left in the returned trace at calls addressed to that peer. -/
theorem C03_network_own_results_signed (env : Env) (svc : Services) (P : Particle) (st : NetSt)
    (h : Reachable env svc P st) : ∀ r ∈ st.runs, ∃ ds : List (String × Cid),
      callCids r.out.th.keeper.resultTrace = ds.map (·.2) ∧ r.out.peerCids = ownOf r.peer ds := by
  intro r hr
  have hg := (reachable_inv h).genuine r hr
  unfold Genuine at hg
  have hout : r.out = (runExecFarewell env r.fuel P.script r.prev r.cur ⟨P.initPeer, r.peer, P.timestamp, P.ttl⟩ r.results).2 := by
    rw [← hg]
  rw [hout]
  exact C03_returned_data_signed env r.fuel P.script r.prev r.cur ⟨P.initPeer, r.peer, P.timestamp, P.ttl⟩ r.results

end AquaProps.C03
