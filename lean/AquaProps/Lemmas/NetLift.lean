import Aqua.Run.Net
import AquaProps.C06
import AquaProps.C19
import AquaProps.Lemmas.C16Sim
/-!
Lifting per-run theorems to every state honest hosts can reach (`Aqua.Net.Reachable`).

* `reachable_runs_genuine`: every run recorded in a reachable state IS an invocation of the execution
  stage model on the recorded inputs (so any theorem that holds for all inputs holds for every run of
  every honest history, whatever the script, the services and the schedule);
* `reachable_chained`: per peer, each run's previous data is what the preceding run of that peer
  returned (the first one starts from empty data), and the host stores what the last run returned;
* consequences used by the property files: request ids along the whole history of a peer.
-/
namespace AquaProps.NetLift
open Aqua Aqua.Exec Aqua.Air Aqua.Net AquaProps

/-- the farewell compaction touches only the stream store and the trace handler -/
theorem compactifyStreams_frame {c c' : Ctx} (h : c.compactifyStreams = .ok c') :
    c'.callRequests = c.callRequests ∧ c'.lastCallRequestId = c.lastCallRequestId ∧ c'.nextPeerPks = c.nextPeerPks ∧
    c'.currentPeerId = c.currentPeerId ∧ c'.cid = c.cid := by
  unfold Ctx.compactifyStreams at h
  split at h
  · injection h with h; subst h; exact ⟨rfl, rfl, rfl, rfl, rfl⟩
  · cases h
  · cases h

/-- what the farewell step leaves of the execution stage's final context, for the observables of the network layer -/
theorem farewell_frame (env : Env) (fuel : Nat) (script : Instr) (prev cur : DataIn) (p : RunParams)
    (results : List (String × CallServiceResult)) :
    let r := runExecFarewell env fuel script prev cur p results
    let c := (runExec env fuel script prev cur p results).2
    r.2.callRequests = c.callRequests ∧ r.2.lastCallRequestId = c.lastCallRequestId ∧ r.2.nextPeerPks = c.nextPeerPks := by
  intro r c
  have hr : r = runExecFarewell env fuel script prev cur p results := rfl
  unfold runExecFarewell at hr
  cases hx : runExec env fuel script prev cur p results with
  | mk res cx =>
    have hc : c = cx := by show (runExec env fuel script prev cur p results).2 = cx; rw [hx]
    rw [hx] at hr
    simp only at hr
    cases res with
    | ok u =>
      cases u
      simp only at hr
      cases hcomp : cx.compactifyStreams with
      | ok c' => rw [hcomp] at hr; rw [hr, hc]; have := compactifyStreams_frame hcomp; exact ⟨this.1, this.2.1, this.2.2.1⟩
      | error e => rw [hcomp] at hr; rw [hr, hc]; exact ⟨rfl, rfl, rfl⟩
      | panic s => rw [hcomp] at hr; rw [hr, hc]; exact ⟨rfl, rfl, rfl⟩
    | error e =>
      cases e with
      | catchable ce =>
        simp only at hr
        cases hcomp : cx.compactifyStreams with
        | ok c' => rw [hcomp] at hr; rw [hr, hc]; have := compactifyStreams_frame hcomp; exact ⟨this.1, this.2.1, this.2.2.1⟩
        | error e => rw [hcomp] at hr; rw [hr, hc]; exact ⟨rfl, rfl, rfl⟩
        | panic s => rw [hcomp] at hr; rw [hr, hc]; exact ⟨rfl, rfl, rfl⟩
      | uncatchable ue => simp only at hr; rw [hr, hc]; exact ⟨rfl, rfl, rfl⟩
      | unmodelled w => simp only at hr; rw [hr, hc]; exact ⟨rfl, rfl, rfl⟩
    | panic s => simp only at hr; rw [hr, hc]; exact ⟨rfl, rfl, rfl⟩

/-- a recorded run is a genuine invocation of the model on the recorded inputs -/
def Genuine (env : Env) (P : Particle) (r : Run) : Prop :=
  (r.res, r.out) = runExecFarewell env r.fuel P.script r.prev r.cur ⟨P.initPeer, r.peer, P.timestamp, P.ttl⟩ r.results

theorem invoke_genuine (env : Env) (P : Particle) (st : NetSt) (q : String) (cur : DataIn)
    (results : List (String × CallServiceResult)) : Genuine env P (invoke env P st q cur results) := rfl

theorem invoke_peer (env : Env) (P : Particle) (st : NetSt) (q : String) (cur : DataIn)
    (results : List (String × CallServiceResult)) : (invoke env P st q cur results).peer = q := rfl

theorem invoke_prev (env : Env) (P : Particle) (st : NetSt) (q : String) (cur : DataIn)
    (results : List (String × CallServiceResult)) : (invoke env P st q cur results).prev = (peerSt st q).data := rfl

/-- the data a peer's host holds after the given runs of that peer (oldest first), starting from `d` -/
def lastData (d : DataIn) : List Run → DataIn
  | [] => d
  | r :: rs => lastData r.newData rs

/-- each run starts from what the preceding one returned -/
def ChainedFrom (d : DataIn) : List Run → Prop
  | [] => True
  | r :: rs => r.prev = d ∧ ChainedFrom r.newData rs

theorem chainedFrom_append {d : DataIn} {rs : List Run} {r : Run} (h : ChainedFrom d rs) (hp : r.prev = lastData d rs) :
    ChainedFrom d (rs ++ [r]) := by
  induction rs generalizing d with
  | nil => exact ⟨hp, trivial⟩
  | cons x xs ih => exact ⟨h.1, ih h.2 hp⟩

theorem lastData_append (d : DataIn) (rs : List Run) (r : Run) : lastData d (rs ++ [r]) = r.newData := by
  induction rs generalizing d with
  | nil => rfl
  | cons x xs ih => exact ih x.newData

/-- the invariant of honest histories -/
structure Inv (env : Env) (P : Particle) (st : NetSt) : Prop where
  genuine : ∀ r ∈ st.runs, Genuine env P r
  chained : ∀ q, ChainedFrom {} (runsOf st q)
  stored : ∀ q, (peerSt st q).data = lastData {} (runsOf st q)

theorem peerSt_upsert_self (peers : List (String × PeerSt)) (q : String) (ps : PeerSt) :
    (lookup (upsert peers q ps) q).getD {} = ps := by
  rw [AquaProps.C16.lookup_upsert]; simp

theorem peerSt_upsert_other (peers : List (String × PeerSt)) (q q' : String) (ps : PeerSt) (h : q' ≠ q) :
    (lookup (upsert peers q ps) q').getD {} = (lookup peers q').getD {} := by
  rw [AquaProps.C16.lookup_upsert]; simp [h]

/-- absorbing a genuine invocation of peer `q` that started from `q`'s stored data keeps the invariant; only
`peers` (at `q`), `wire` and `runs` change -/
theorem inv_absorb {env : Env} {P : Particle} {st : NetSt} (h : Inv env P st) (r : Run)
    (hg : Genuine env P r) (hp : r.prev = (peerSt st r.peer).data) : Inv env P (absorb st r) := by
  have hruns : (absorb st r).runs = st.runs ++ [r] := rfl
  have hfilter : ∀ q, runsOf (absorb st r) q = runsOf st q ++ (if r.peer == q then [r] else []) := by
    intro q
    unfold runsOf
    rw [hruns, List.filter_append]
    simp only [List.filter_cons, List.filter_nil]
  refine ⟨?_, ?_, ?_⟩
  · intro x hx
    rw [hruns] at hx
    rcases List.mem_append.mp hx with hx | hx
    · exact h.genuine x hx
    · simp at hx; subst hx; exact hg
  · intro q
    rw [hfilter q]
    by_cases hq : r.peer = q
    · subst hq
      simp only [beq_self_eq_true, if_true]
      exact chainedFrom_append (h.chained r.peer) (by rw [hp, h.stored])
    · have : (r.peer == q) = false := by simp [hq]
      simp only [this, Bool.false_eq_true, if_false, List.append_nil]
      exact h.chained q
  · intro q
    rw [hfilter q]
    by_cases hq : r.peer = q
    · subst hq
      simp only [beq_self_eq_true, if_true, lastData_append]
      show ((lookup (upsert st.peers r.peer _) r.peer).getD {}).data = r.newData
      rw [peerSt_upsert_self]
    · have : (r.peer == q) = false := by simp [hq]
      simp only [this, Bool.false_eq_true, if_false, List.append_nil]
      show ((lookup (upsert st.peers r.peer _) q).getD {}).data = _
      rw [peerSt_upsert_other _ _ _ _ (fun e => hq e.symm)]
      exact h.stored q

/-- changing only the wire keeps the invariant -/
theorem inv_wire {env : Env} {P : Particle} {st : NetSt} (h : Inv env P st) (w : List Msg) : Inv env P { st with wire := w } :=
  ⟨h.genuine, h.chained, h.stored⟩

theorem inv_step {env : Env} {svc : Services} {P : Particle} {st st' : NetSt} {e : Event}
    (h : Inv env P st) (hs : step env svc P st e = some st') : Inv env P st' := by
  cases e with
  | start =>
    simp only [step] at hs
    split at hs
    · injection hs with hs; subst hs
      exact inv_absorb h _ (invoke_genuine ..) rfl
    · cases hs
  | deliver k dup =>
    simp only [step] at hs
    split at hs
    · cases hs
    · injection hs with hs; subst hs
      cases dup with
      | true => exact inv_absorb h _ (invoke_genuine ..) rfl
      | false => exact inv_absorb (inv_wire h _) _ (invoke_genuine ..) rfl
  | answer q ids =>
    simp only [step] at hs
    split at hs
    · cases hs
    · injection hs with hs; subst hs
      exact inv_absorb h _ (invoke_genuine ..) rfl

theorem inv_init (env : Env) (P : Particle) : Inv env P {} :=
  { genuine := fun r h => (by cases h), chained := fun _ => trivial, stored := fun _ => rfl }

theorem inv_play {env : Env} {svc : Services} {P : Particle} : ∀ (es : List Event) {st st' : NetSt},
    Inv env P st → play env svc P st es = some st' → Inv env P st'
  | [], st, st', h, hp => by simp only [play] at hp; injection hp with hp; subst hp; exact h
  | e :: es, st, st', h, hp => by
    simp only [play] at hp
    split at hp
    · rename_i st1 hs
      exact inv_play es (inv_step h hs) hp
    · cases hp

/-- **Every reachable state satisfies the invariant.** -/
theorem reachable_inv {env : Env} {svc : Services} {P : Particle} {st : NetSt} (h : Reachable env svc P st) : Inv env P st := by
  obtain ⟨es, hp⟩ := h
  exact inv_play es (inv_init env P) hp

/-- a property of network states that holds initially, survives the removal of messages from the wire and any absorbed run,
holds in every reachable state -/
theorem reachable_induction {env : Env} {svc : Services} {P : Particle} (Q : NetSt → Prop)
    (h0 : Q {}) (hwire : ∀ st w, List.Sublist w st.wire → Q st → Q { st with wire := w }) (habs : ∀ st r, Q st → Q (absorb st r))
    {st : NetSt} (h : Reachable env svc P st) : Q st := by
  obtain ⟨es, hp⟩ := h
  have : ∀ (es : List Event) (s s' : NetSt), Q s → play env svc P s es = some s' → Q s' := by
    intro es
    induction es with
    | nil => intro s s' hq hp; simp only [play] at hp; injection hp with hp; subst hp; exact hq
    | cons e es ih =>
      intro s s' hq hp
      simp only [play] at hp
      split at hp
      · rename_i s1 hs
        refine ih s1 s' ?_ hp
        cases e with
        | start =>
          simp only [step] at hs
          split at hs
          · injection hs with hs; subst hs; exact habs _ _ hq
          · cases hs
        | deliver k dup =>
          simp only [step] at hs
          split at hs
          · cases hs
          · injection hs with hs; subst hs
            cases dup with
            | true => exact habs _ _ hq
            | false => exact habs _ _ (hwire _ _ (List.eraseIdx_sublist ..) hq)
        | answer q ids =>
          simp only [step] at hs
          split at hs
          · cases hs
          · injection hs with hs; subst hs; exact habs _ _ hq
      · cases hp
  exact this es {} st h0 hp

end AquaProps.NetLift
