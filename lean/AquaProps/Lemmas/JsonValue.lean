import Aqua.Json.Parse
import AquaProps.Lemmas.JsonNum
import AquaProps.Lemmas.JsonStr
/-! Print → parse round trip of whole values: `parseValue (render v ++ rest) = (v, rest)`. -/
namespace AquaProps.JsonLemmas
open Aqua.Json

/-- what may follow a value inside printed JSON: end of text, `,`, `]`, `}` -/
def restOk : List Char → Bool
  | [] => true
  | c :: _ => c == ',' || c == ']' || c == '}'

theorem numEnd_of_restOk (rest : List Char) (h : restOk rest = true) : numEnd rest = true := by
  cases rest with
  | nil => rfl
  | cons c r =>
    simp only [restOk, Bool.or_eq_true, beq_iff_eq] at h
    rcases h with (h | h) | h <;> subst h <;> rfl

/-- the float text `r` is one the number lexer (with the oracle `fo`) reads back as itself: it starts
like a number and, followed by anything that can follow a value, lexes to `float r`.  This is the
print/parse round trip of `f64` — outside the model (`ryu` / `f64_from_parts`). -/
def FloatRT (fo : FloatOracle) (r : String) : Prop :=
  (∃ c cs, r.toList = c :: cs ∧ (c = '-' ∨ isDigit c = true)) ∧
  ∀ rest, restOk rest = true → parseNumTok fo (r.toList ++ rest) = .ok (.float r, rest)

/-- keys strictly increasing (hence distinct): the iteration order of a `BTreeMap` -/
def KeysSorted (kvs : List (String × JVal)) : Prop := (kvs.map Prod.fst).Pairwise (· < ·)

mutual
/-- the invariant of values held by the implementation: integers within `[i64::MIN, u64::MAX]`, floats in
canonical text, object keys strictly sorted -/
def WF (fo : FloatOracle) : JVal → Prop
  | .null => True
  | .bool _ => True
  | .num i => -9223372036854775808 ≤ i ∧ i ≤ 18446744073709551615
  | .float r => FloatRT fo r
  | .str _ => True
  | .arr l => WFList fo l
  | .obj kvs => WFPairs fo kvs ∧ KeysSorted kvs
def WFList (fo : FloatOracle) : List JVal → Prop
  | [] => True
  | v :: vs => WF fo v ∧ WFList fo vs
def WFPairs (fo : FloatOracle) : List (String × JVal) → Prop
  | [] => True
  | (_, v) :: kvs => WF fo v ∧ WFPairs fo kvs
end

mutual
/-- nesting depth of containers -/
def vdepth : JVal → Nat
  | .arr l => 1 + vdepthList l
  | .obj kvs => 1 + vdepthPairs kvs
  | _ => 0
def vdepthList : List JVal → Nat
  | [] => 0
  | v :: vs => max (vdepth v) (vdepthList vs)
def vdepthPairs : List (String × JVal) → Nat
  | [] => 0
  | (_, v) :: kvs => max (vdepth v) (vdepthPairs kvs)
end

mutual
/-- fuel that suffices to parse the printed value -/
def sz : JVal → Nat
  | .arr l => 1 + szList l
  | .obj kvs => 1 + szPairs kvs
  | _ => 1
def szList : List JVal → Nat
  | [] => 1
  | v :: vs => 1 + sz v + szList vs
def szPairs : List (String × JVal) → Nat
  | [] => 1
  | (_, v) :: kvs => 1 + sz v + szPairs kvs
end

theorem sz_pos (v : JVal) : 1 ≤ sz v := by cases v <;> simp [sz] <;> omega

/-- first characters of printed values -/
def startOk (c : Char) : Bool :=
  c == 'n' || c == 't' || c == 'f' || c == '-' || isDigit c || c == '"' || c == '[' || c == '{'

theorem startOk_facts (c : Char) (h : startOk c = true) : isWs c = false ∧ c ≠ ']' ∧ c ≠ '}' ∧ c ≠ ',' ∧ c ≠ ':' := by
  simp only [startOk, Bool.or_eq_true, beq_iff_eq] at h
  rcases h with ((((((h | h) | h) | h) | h) | h) | h) | h
  all_goals first
    | (subst h; decide)
    | (rw [isDigit_iff] at h
       refine ⟨?_, ?_, ?_, ?_, ?_⟩
       · cases hw : isWs c with
         | false => rfl
         | true =>
           simp only [isWs, Bool.or_eq_true, decide_eq_true_eq] at hw
           rcases hw with ((hw | hw) | hw) | hw <;> subst hw <;> simp at h
       all_goals (intro hc; subst hc; simp at h))

theorem toString_int_head (i : Int) : ∃ c cs, (toString i).toList = c :: cs ∧ (c = '-' ∨ isDigit c = true) := by
  rw [Int.toString_eq_repr, Int.repr_eq_if]
  by_cases h : 0 ≤ i
  · simp only [h, if_true, Nat.toList_repr]
    obtain ⟨hd, _, _⟩ := toDigits_spec i.toNat
    cases hq : Nat.toDigits 10 i.toNat with
    | nil => exact absurd hq Nat.toDigits_ne_nil
    | cons d ds => exact ⟨d, ds, rfl, Or.inr (hd d (by simp [hq]))⟩
  · simp only [h, if_false, String.toList_append]
    have hl : ("-" : String).toList = ['-'] := by decide
    rw [hl]; exact ⟨'-', _, rfl, Or.inl rfl⟩

theorem skipWs_of_not_ws (c : Char) (cs : List Char) (h : isWs c = false) : skipWs (c :: cs) = c :: cs := by
  simp [skipWs, h]

theorem render_arr_toList (l : List JVal) :
    (JVal.render (.arr l)).toList = '[' :: ((JVal.renderList l).toList ++ [']']) := by
  simp only [JVal.render, String.toList_append]
  have h1 : ("[" : String).toList = ['['] := by decide
  have h2 : ("]" : String).toList = [']'] := by decide
  rw [h1, h2]; rfl

theorem render_obj_toList (kvs : List (String × JVal)) :
    (JVal.render (.obj kvs)).toList = '{' :: ((JVal.renderPairs kvs).toList ++ ['}']) := by
  simp only [JVal.render, String.toList_append]
  have h1 : ("{" : String).toList = ['{'] := by decide
  have h2 : ("}" : String).toList = ['}'] := by decide
  rw [h1, h2]; rfl

/-- the elements after the first, each preceded by its comma -/
def renderTail : List JVal → List Char
  | [] => []
  | v :: vs => ',' :: ((JVal.render v).toList ++ renderTail vs)

theorem renderList_toList (v : JVal) (vs : List JVal) :
    (JVal.renderList (v :: vs)).toList = (JVal.render v).toList ++ renderTail vs := by
  induction vs generalizing v with
  | nil => simp [JVal.renderList, renderTail]
  | cons v' vs' ih =>
    have hc : (",": String).toList = [','] := by decide
    simp only [JVal.renderList, String.toList_append, hc, ih v', renderTail]
    simp

def renderMember (k : String) (v : JVal) : List Char := (renderStr k).toList ++ ':' :: (JVal.render v).toList

def renderPairsTail : List (String × JVal) → List Char
  | [] => []
  | (k, v) :: kvs => ',' :: (renderMember k v ++ renderPairsTail kvs)

theorem renderPairs_toList (k : String) (v : JVal) (kvs : List (String × JVal)) :
    (JVal.renderPairs ((k, v) :: kvs)).toList = renderMember k v ++ renderPairsTail kvs := by
  induction kvs generalizing k v with
  | nil =>
    have hc : (":": String).toList = [':'] := by decide
    simp [JVal.renderPairs, renderPairsTail, renderMember, hc]
  | cons kv kvs' ih =>
    obtain ⟨k', v'⟩ := kv
    have hc : (",": String).toList = [','] := by decide
    have hd : (":": String).toList = [':'] := by decide
    simp only [JVal.renderPairs, String.toList_append, hc, hd, ih k' v', renderPairsTail, renderMember]
    simp

end AquaProps.JsonLemmas

namespace AquaProps.JsonLemmas
open Aqua.Json

/-! ## scalars -/

theorem parseValue_null (fo : FloatOracle) (f depth : Nat) (rest : List Char) :
    parseValue fo (f + 1) depth ("null".toList ++ rest) = .ok (.null, rest) := by
  have h : "null".toList = ['n', 'u', 'l', 'l'] := by decide
  rw [h]
  simp [parseValue, skipWs, isWs, parseIdent]

theorem parseValue_true (fo : FloatOracle) (f depth : Nat) (rest : List Char) :
    parseValue fo (f + 1) depth ("true".toList ++ rest) = .ok (.bool true, rest) := by
  have h : "true".toList = ['t', 'r', 'u', 'e'] := by decide
  rw [h]
  simp [parseValue, skipWs, isWs, parseIdent]

theorem parseValue_false (fo : FloatOracle) (f depth : Nat) (rest : List Char) :
    parseValue fo (f + 1) depth ("false".toList ++ rest) = .ok (.bool false, rest) := by
  have h : "false".toList = ['f', 'a', 'l', 's', 'e'] := by decide
  rw [h]
  simp [parseValue, skipWs, isWs, parseIdent]

theorem parseValue_numTok (fo : FloatOracle) (f depth : Nat) (c : Char) (cs : List Char)
    (h : c = '-' ∨ isDigit c = true) : parseValue fo (f + 1) depth (c :: cs) = parseNumTok fo (c :: cs) := by
  have hs : startOk c = true := by
    simp only [startOk, Bool.or_eq_true, beq_iff_eq]
    rcases h with h | h
    · left; left; left; left; right; exact h
    · left; left; left; right; exact h
  obtain ⟨hw, _, _, _, _⟩ := startOk_facts c hs
  have hn : c ≠ 'n' ∧ c ≠ 't' ∧ c ≠ 'f' := by
    rcases h with h | h
    · subst h; decide
    · rw [isDigit_iff] at h
      refine ⟨?_, ?_, ?_⟩ <;> (intro hc; subst hc; simp at h)
  have hd : (c = '-' || isDigit c) = true := by
    rcases h with h | h
    · subst h; rfl
    · simp [h]
  rw [parseValue, skipWs_of_not_ws c cs hw]
  simp only [hn.1, hn.2.1, hn.2.2, if_false, hd, if_true]

theorem parseValue_str (fo : FloatOracle) (f depth : Nat) (s : String) (rest : List Char) :
    parseValue fo (f + 1) depth ((renderStr s).toList ++ rest) = .ok (.str s, rest) := by
  rw [renderStr_toList]
  simp only [List.cons_append, List.append_assoc, List.nil_append]
  rw [parseValue, skipWs_of_not_ws _ _ (by decide)]
  simp only [show ('"' : Char) ≠ 'n' by decide, show ('"' : Char) ≠ 't' by decide, show ('"' : Char) ≠ 'f' by decide,
    show (('"' : Char) = '-' || isDigit '"') = false by decide, if_false, if_true, Bool.false_eq_true]
  rw [parseStr_renderStr]

/-! ## the head of a printed value -/

theorem render_head (fo : FloatOracle) (v : JVal) (h : WF fo v) :
    ∃ c cs, (JVal.render v).toList = c :: cs ∧ startOk c = true := by
  cases v with
  | null => exact ⟨'n', ['u', 'l', 'l'], by decide, by decide⟩
  | bool b => cases b
              · exact ⟨'f', ['a', 'l', 's', 'e'], by decide, by decide⟩
              · exact ⟨'t', ['r', 'u', 'e'], by decide, by decide⟩
  | num i =>
    obtain ⟨c, cs, h1, h2⟩ := toString_int_head i
    refine ⟨c, cs, h1, ?_⟩
    simp only [startOk, Bool.or_eq_true, beq_iff_eq]
    rcases h2 with h2 | h2
    · left; left; left; left; right; exact h2
    · left; left; left; right; exact h2
  | float r =>
    obtain ⟨⟨c, cs, h1, h2⟩, _⟩ := h
    refine ⟨c, cs, h1, ?_⟩
    simp only [startOk, Bool.or_eq_true, beq_iff_eq]
    rcases h2 with h2 | h2
    · left; left; left; left; right; exact h2
    · left; left; left; right; exact h2
  | str s => exact ⟨'"', _, renderStr_toList s, by decide⟩
  | arr l => exact ⟨'[', _, render_arr_toList l, by decide⟩
  | obj kvs => exact ⟨'{', _, render_obj_toList kvs, by decide⟩

theorem restOk_tail (vs : List JVal) (rest : List Char) : restOk (renderTail vs ++ ']' :: rest) = true := by
  cases vs <;> rfl

theorem restOk_pairsTail (kvs : List (String × JVal)) (rest : List Char) : restOk (renderPairsTail kvs ++ '}' :: rest) = true := by
  cases kvs with
  | nil => rfl
  | cons kv kvs => obtain ⟨k, v⟩ := kv; rfl

/-! ## one step of the element / member loops -/

theorem parseElems_nil (fo : FloatOracle) (f depth : Nat) (first : Bool) (rest : List Char) :
    parseElems fo (f + 1) depth first (']' :: rest) = .ok ([], ']' :: rest) := by
  rw [parseElems, skipWs_of_not_ws _ _ (by decide)]; simp

theorem parseElems_first_step (fo : FloatOracle) (f depth : Nat) (c : Char) (cs : List Char) (hs : startOk c = true)
    (v : JVal) (r : List Char) (vs : List JVal) (r' : List Char)
    (hv : parseValue fo f depth (c :: cs) = .ok (v, r)) (hr : parseElems fo f depth false r = .ok (vs, r')) :
    parseElems fo (f + 1) depth true (c :: cs) = .ok (v :: vs, r') := by
  obtain ⟨hw, h1, _, _, _⟩ := startOk_facts c hs
  rw [parseElems, skipWs_of_not_ws c cs hw]
  simp only [h1, if_false, Bool.not_true, Bool.and_false, Bool.false_eq_true, if_true, hv, hr]

theorem parseElems_next_step (fo : FloatOracle) (f depth : Nat) (c : Char) (cs : List Char) (hs : startOk c = true)
    (v : JVal) (r : List Char) (vs : List JVal) (r' : List Char)
    (hv : parseValue fo f depth (c :: cs) = .ok (v, r)) (hr : parseElems fo f depth false r = .ok (vs, r')) :
    parseElems fo (f + 1) depth false (',' :: c :: cs) = .ok (v :: vs, r') := by
  obtain ⟨hw, h1, _, _, _⟩ := startOk_facts c hs
  rw [parseElems, skipWs_of_not_ws _ _ (by decide)]
  simp only [show (',' : Char) ≠ ']' by decide, if_false, Bool.not_false, Bool.and_true, decide_true, if_true,
    skipWs_of_not_ws c cs hw, h1, hv, hr]

theorem parseMembers_nil (fo : FloatOracle) (f depth : Nat) (first : Bool) (rest : List Char) :
    parseMembers fo (f + 1) depth first ('}' :: rest) = .ok ([], '}' :: rest) := by
  rw [parseMembers, skipWs_of_not_ws _ _ (by decide)]; simp

/-- a printed member `"key":value…` is consumed by one round of the member loop -/
theorem parseMembers_first_step (fo : FloatOracle) (f depth : Nat) (k : String) (tail : List Char)
    (v : JVal) (r : List Char) (kvs : List (String × JVal)) (r' : List Char)
    (hv : parseValue fo f depth tail = .ok (v, r)) (hr : parseMembers fo f depth false r = .ok (kvs, r')) :
    parseMembers fo (f + 1) depth true ((renderStr k).toList ++ ':' :: tail) = .ok ((k, v) :: kvs, r') := by
  rw [renderStr_toList]
  simp only [List.cons_append, List.nil_append, List.append_assoc]
  rw [parseMembers, skipWs_of_not_ws _ _ (by decide)]
  simp only [show ('"' : Char) ≠ '}' by decide, show ('"' : Char) ≠ ',' by decide, if_false, Bool.not_true, Bool.and_false,
    Bool.false_eq_true, if_true, decide_false, parseStr_renderStr, skipWs_of_not_ws ':' tail (by decide), hv, hr]

theorem parseMembers_next_step (fo : FloatOracle) (f depth : Nat) (k : String) (tail : List Char)
    (v : JVal) (r : List Char) (kvs : List (String × JVal)) (r' : List Char)
    (hv : parseValue fo f depth tail = .ok (v, r)) (hr : parseMembers fo f depth false r = .ok (kvs, r')) :
    parseMembers fo (f + 1) depth false (',' :: ((renderStr k).toList ++ ':' :: tail)) = .ok ((k, v) :: kvs, r') := by
  rw [renderStr_toList]
  simp only [List.cons_append, List.nil_append, List.append_assoc]
  rw [parseMembers, skipWs_of_not_ws _ _ (by decide)]
  simp only [show (',' : Char) ≠ '}' by decide, if_false, Bool.not_false, Bool.and_true, decide_true, if_true,
    skipWs_of_not_ws '"' _ (by decide), parseStr_renderStr, skipWs_of_not_ws ':' tail (by decide), hv, hr]

/-! ## objects: sorted distinct keys are rebuilt as they are -/

theorem insertSorted_append (k : String) (v : JVal) (acc : List (String × JVal)) (h : ∀ p ∈ acc, p.1 < k) :
    insertSorted k v acc = acc ++ [(k, v)] := by
  induction acc with
  | nil => rfl
  | cons p rest ih =>
    obtain ⟨k', v'⟩ := p
    have hlt : k' < k := h (k', v') (by simp)
    have hne : (k == k') = false := by
      cases hb : k == k' with
      | false => rfl
      | true => rw [beq_iff_eq] at hb; subst hb; exact absurd hlt (String.lt_irrefl _)
    have hnl : strLt k k' = false := by
      unfold strLt
      simp only [decide_eq_false_iff_not]
      exact String.lt_asymm hlt
    simp only [insertSorted, hne, hnl, Bool.false_eq_true, if_false, List.cons_append]
    rw [ih (fun p hp => h p (by simp [hp]))]

theorem foldl_insertSorted (kvs acc : List (String × JVal)) (h : ((acc ++ kvs).map Prod.fst).Pairwise (· < ·)) :
    kvs.foldl (fun acc (p : String × JVal) => insertSorted p.1 p.2 acc) acc = acc ++ kvs := by
  induction kvs generalizing acc with
  | nil => simp
  | cons p rest ih =>
    obtain ⟨k, v⟩ := p
    simp only [List.foldl_cons]
    have hall : ∀ q ∈ acc, q.1 < k := by
      intro q hq
      rw [List.map_append, List.pairwise_append] at h
      exact h.2.2 q.1 (List.mem_map_of_mem hq) k (by simp)
    rw [insertSorted_append k v acc hall, ih (acc ++ [(k, v)]) (by simpa using h)]
    simp

theorem mkObj_sorted (kvs : List (String × JVal)) (h : KeysSorted kvs) : JVal.mkObj kvs = .obj kvs := by
  unfold JVal.mkObj
  congr 1
  have := foldl_insertSorted kvs [] (by simpa [KeysSorted] using h)
  simpa using this

/-! ## the round trip of values (mutual structural induction) -/

mutual
theorem parseValue_render (fo : FloatOracle) : (v : JVal) → ∀ (fuel depth : Nat) (rest : List Char),
    WF fo v → sz v ≤ fuel → vdepth v < depth → restOk rest = true →
    parseValue fo fuel depth ((JVal.render v).toList ++ rest) = .ok (v, rest)
  | .null, fuel, depth, rest, _, hf, _, _ => by
    obtain ⟨f, rfl⟩ : ∃ f, fuel = f + 1 := ⟨fuel - 1, by simp [sz] at hf; omega⟩
    exact parseValue_null fo f depth rest
  | .bool b, fuel, depth, rest, _, hf, _, _ => by
    obtain ⟨f, rfl⟩ : ∃ f, fuel = f + 1 := ⟨fuel - 1, by simp [sz] at hf; omega⟩
    cases b
    · exact parseValue_false fo f depth rest
    · exact parseValue_true fo f depth rest
  | .num i, fuel, depth, rest, hw, hf, _, hr => by
    obtain ⟨f, rfl⟩ : ∃ f, fuel = f + 1 := ⟨fuel - 1, by simp [sz] at hf; omega⟩
    obtain ⟨c, cs, h1, h2⟩ := toString_int_head i
    show parseValue fo (f + 1) depth ((toString i).toList ++ rest) = _
    rw [h1, List.cons_append, parseValue_numTok fo f depth c _ h2, ← List.cons_append, ← h1]
    exact parseNumTok_toString fo i rest hw.1 hw.2 (numEnd_of_restOk rest hr)
  | .float r, fuel, depth, rest, hw, hf, _, hr => by
    obtain ⟨f, rfl⟩ : ∃ f, fuel = f + 1 := ⟨fuel - 1, by simp [sz] at hf; omega⟩
    obtain ⟨⟨c, cs, h1, h2⟩, h3⟩ := hw
    show parseValue fo (f + 1) depth (r.toList ++ rest) = _
    rw [h1, List.cons_append, parseValue_numTok fo f depth c _ h2, ← List.cons_append, ← h1]
    exact h3 rest hr
  | .str s, fuel, depth, rest, _, hf, _, _ => by
    obtain ⟨f, rfl⟩ : ∃ f, fuel = f + 1 := ⟨fuel - 1, by simp [sz] at hf; omega⟩
    exact parseValue_str fo f depth s rest
  | .arr l, fuel, depth, rest, hw, hf, hd, _ => by
    obtain ⟨f, rfl⟩ : ∃ f, fuel = f + 1 := ⟨fuel - 1, by simp [sz] at hf; omega⟩
    simp only [sz] at hf
    simp only [vdepth] at hd
    rw [render_arr_toList]
    simp only [List.cons_append, List.append_assoc, List.nil_append]
    have he := parseElems_first fo l f (depth - 1) rest hw (by omega) (by omega)
    rw [parseValue, skipWs_of_not_ws _ _ (by decide)]
    have hd1 : ¬ depth ≤ 1 := by omega
    simp only [show ('[' : Char) ≠ 'n' by decide, show ('[' : Char) ≠ 't' by decide, show ('[' : Char) ≠ 'f' by decide,
      show (('[' : Char) = '-' || isDigit '[') = false by decide, show ('[' : Char) ≠ '"' by decide, if_false, if_true,
      Bool.false_eq_true, hd1, he, skipWs_of_not_ws ']' rest (by decide)]
  | .obj kvs, fuel, depth, rest, hw, hf, hd, _ => by
    obtain ⟨f, rfl⟩ : ∃ f, fuel = f + 1 := ⟨fuel - 1, by simp [sz] at hf; omega⟩
    simp only [sz] at hf
    simp only [vdepth] at hd
    rw [render_obj_toList]
    simp only [List.cons_append, List.append_assoc, List.nil_append]
    have he := parseMembers_first fo kvs f (depth - 1) rest hw.1 (by omega) (by omega)
    rw [parseValue, skipWs_of_not_ws _ _ (by decide)]
    have hd1 : ¬ depth ≤ 1 := by omega
    simp only [show ('{' : Char) ≠ 'n' by decide, show ('{' : Char) ≠ 't' by decide, show ('{' : Char) ≠ 'f' by decide,
      show (('{' : Char) = '-' || isDigit '{') = false by decide, show ('{' : Char) ≠ '"' by decide,
      show ('{' : Char) ≠ '[' by decide, if_false, if_true,
      Bool.false_eq_true, hd1, he, skipWs_of_not_ws '}' rest (by decide), mkObj_sorted kvs hw.2]
theorem parseElems_first (fo : FloatOracle) : (l : List JVal) → ∀ (fuel depth : Nat) (rest : List Char),
    WFList fo l → szList l ≤ fuel → vdepthList l < depth →
    parseElems fo fuel depth true ((JVal.renderList l).toList ++ ']' :: rest) = .ok (l, ']' :: rest)
  | [], fuel, depth, rest, _, hf, _ => by
    obtain ⟨f, rfl⟩ : ∃ f, fuel = f + 1 := ⟨fuel - 1, by simp [szList] at hf; omega⟩
    have : (JVal.renderList []).toList = [] := by decide
    rw [this]; exact parseElems_nil fo f depth true rest
  | v :: vs, fuel, depth, rest, hw, hf, hd => by
    obtain ⟨f, rfl⟩ : ∃ f, fuel = f + 1 := ⟨fuel - 1, by simp [szList] at hf; omega⟩
    simp only [szList] at hf
    simp only [vdepthList] at hd
    obtain ⟨c, cs, h1, h2⟩ := render_head fo v hw.1
    rw [renderList_toList, List.append_assoc]
    have hv := parseValue_render fo v f depth (renderTail vs ++ ']' :: rest) hw.1 (by omega) (by omega) (restOk_tail vs rest)
    have ht := parseElems_tail fo vs f depth rest hw.2 (by omega) (by omega)
    rw [h1, List.cons_append] at hv ⊢
    exact parseElems_first_step fo f depth c _ h2 v _ vs _ hv ht
theorem parseElems_tail (fo : FloatOracle) : (l : List JVal) → ∀ (fuel depth : Nat) (rest : List Char),
    WFList fo l → szList l ≤ fuel → vdepthList l < depth →
    parseElems fo fuel depth false (renderTail l ++ ']' :: rest) = .ok (l, ']' :: rest)
  | [], fuel, depth, rest, _, hf, _ => by
    obtain ⟨f, rfl⟩ : ∃ f, fuel = f + 1 := ⟨fuel - 1, by simp [szList] at hf; omega⟩
    exact parseElems_nil fo f depth false rest
  | v :: vs, fuel, depth, rest, hw, hf, hd => by
    obtain ⟨f, rfl⟩ : ∃ f, fuel = f + 1 := ⟨fuel - 1, by simp [szList] at hf; omega⟩
    simp only [szList] at hf
    simp only [vdepthList] at hd
    obtain ⟨c, cs, h1, h2⟩ := render_head fo v hw.1
    have hv := parseValue_render fo v f depth (renderTail vs ++ ']' :: rest) hw.1 (by omega) (by omega) (restOk_tail vs rest)
    have ht := parseElems_tail fo vs f depth rest hw.2 (by omega) (by omega)
    simp only [renderTail, List.cons_append, List.append_assoc]
    rw [h1, List.cons_append] at hv ⊢
    exact parseElems_next_step fo f depth c _ h2 v _ vs _ hv ht
theorem parseMembers_first (fo : FloatOracle) : (kvs : List (String × JVal)) → ∀ (fuel depth : Nat) (rest : List Char),
    WFPairs fo kvs → szPairs kvs ≤ fuel → vdepthPairs kvs < depth →
    parseMembers fo fuel depth true ((JVal.renderPairs kvs).toList ++ '}' :: rest) = .ok (kvs, '}' :: rest)
  | [], fuel, depth, rest, _, hf, _ => by
    obtain ⟨f, rfl⟩ : ∃ f, fuel = f + 1 := ⟨fuel - 1, by simp [szPairs] at hf; omega⟩
    have : (JVal.renderPairs []).toList = [] := by decide
    rw [this]; exact parseMembers_nil fo f depth true rest
  | (k, v) :: kvs, fuel, depth, rest, hw, hf, hd => by
    obtain ⟨f, rfl⟩ : ∃ f, fuel = f + 1 := ⟨fuel - 1, by simp [szPairs] at hf; omega⟩
    simp only [szPairs] at hf
    simp only [vdepthPairs] at hd
    rw [renderPairs_toList, renderMember, List.append_assoc, List.append_assoc]
    have hv := parseValue_render fo v f depth (renderPairsTail kvs ++ '}' :: rest) hw.1 (by omega) (by omega) (restOk_pairsTail kvs rest)
    have ht := parseMembers_tail fo kvs f depth rest hw.2 (by omega) (by omega)
    exact parseMembers_first_step fo f depth k _ v _ kvs _ hv ht
theorem parseMembers_tail (fo : FloatOracle) : (kvs : List (String × JVal)) → ∀ (fuel depth : Nat) (rest : List Char),
    WFPairs fo kvs → szPairs kvs ≤ fuel → vdepthPairs kvs < depth →
    parseMembers fo fuel depth false (renderPairsTail kvs ++ '}' :: rest) = .ok (kvs, '}' :: rest)
  | [], fuel, depth, rest, _, hf, _ => by
    obtain ⟨f, rfl⟩ : ∃ f, fuel = f + 1 := ⟨fuel - 1, by simp [szPairs] at hf; omega⟩
    exact parseMembers_nil fo f depth false rest
  | (k, v) :: kvs, fuel, depth, rest, hw, hf, hd => by
    obtain ⟨f, rfl⟩ : ∃ f, fuel = f + 1 := ⟨fuel - 1, by simp [szPairs] at hf; omega⟩
    simp only [szPairs] at hf
    simp only [vdepthPairs] at hd
    have hv := parseValue_render fo v f depth (renderPairsTail kvs ++ '}' :: rest) hw.1 (by omega) (by omega) (restOk_pairsTail kvs rest)
    have ht := parseMembers_tail fo kvs f depth rest hw.2 (by omega) (by omega)
    simp only [renderPairsTail, renderMember, List.cons_append, List.append_assoc]
    exact parseMembers_next_step fo f depth k _ v _ kvs _ hv ht
end

/-! ## enough fuel at top level -/

theorem render_length_pos (fo : FloatOracle) (v : JVal) (h : WF fo v) : 1 ≤ (JVal.render v).toList.length := by
  obtain ⟨c, cs, h1, _⟩ := render_head fo v h
  rw [h1]; simp

mutual
theorem sz_le (fo : FloatOracle) : (v : JVal) → WF fo v → sz v ≤ 2 * (JVal.render v).toList.length
  | .null, h => by have := render_length_pos fo .null h; simp only [sz]; omega
  | .bool b, h => by have := render_length_pos fo (.bool b) h; simp only [sz]; omega
  | .num i, h => by have := render_length_pos fo (.num i) h; simp only [sz]; omega
  | .float r, h => by have := render_length_pos fo (.float r) h; simp only [sz]; omega
  | .str s, h => by have := render_length_pos fo (.str s) h; simp only [sz]; omega
  | .arr [], _ => by
    rw [render_arr_toList]; simp only [sz, szList, List.length_cons, List.length_append]; omega
  | .arr (v :: vs), h => by
    rw [render_arr_toList, renderList_toList]
    have h1 := sz_le fo v h.1
    have h2 := szList_tail_le fo vs h.2
    simp only [sz, szList, List.length_cons, List.length_append, List.length_nil]
    omega
  | .obj [], _ => by
    rw [render_obj_toList]; simp only [sz, szPairs, List.length_cons, List.length_append]; omega
  | .obj ((k, v) :: kvs), h => by
    rw [render_obj_toList, renderPairs_toList]
    have h1 := sz_le fo v h.1.1
    have h2 := szPairs_tail_le fo kvs h.1.2
    simp only [sz, szPairs, renderMember, List.length_cons, List.length_append, List.length_nil]
    omega
theorem szList_tail_le (fo : FloatOracle) : (vs : List JVal) → WFList fo vs → szList vs ≤ 2 * (renderTail vs).length + 1
  | [], _ => by simp [szList, renderTail]
  | v :: vs, h => by
    have h1 := sz_le fo v h.1
    have h2 := szList_tail_le fo vs h.2
    simp only [szList, renderTail, List.length_cons, List.length_append]
    omega
theorem szPairs_tail_le (fo : FloatOracle) : (kvs : List (String × JVal)) → WFPairs fo kvs →
    szPairs kvs ≤ 2 * (renderPairsTail kvs).length + 1
  | [], _ => by simp [szPairs, renderPairsTail]
  | (k, v) :: kvs, h => by
    have h1 := sz_le fo v h.1
    have h2 := szPairs_tail_le fo kvs h.2
    simp only [szPairs, renderPairsTail, renderMember, List.length_cons, List.length_append]
    omega
end

/-- **print → parse** on lists of characters, for any recursion limit above the depth of the value -/
theorem parseList_render (fo : FloatOracle) (limit : Nat) (v : JVal) (hw : WF fo v) (hd : vdepth v < limit) :
    JVal.parseList fo limit (JVal.render v).toList = .ok v := by
  unfold JVal.parseList
  have hs := sz_le fo v hw
  have h := parseValue_render fo v (2 * (JVal.render v).toList.length + 8) limit [] hw (by omega) hd rfl
  rw [List.append_nil] at h
  rw [h]; rfl
end AquaProps.JsonLemmas
