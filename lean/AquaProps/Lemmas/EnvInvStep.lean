import AquaProps.Lemmas.EnvInvExec
/-!
`Step env` holds for every primitive of the interpreter and for `exec` (fuel induction).
The per-instruction lemmas are separate theorems so that an extension of the executor model only
touches the final case split (`step_execInner`).
-/
namespace AquaProps
open Aqua Aqua.Exec Aqua.Air Aqua.Trace Aqua.Json Aqua.Data

variable {env : Env}

/-! ## generic: binds whose continuation needs a fact about the value read -/

section generic
variable {R : Ctx → Ctx → Prop} {α β : Type}

theorem rel_bind_at (hR : Preorder' R) {m : M α} {f : α → M β} (c : Ctx) (hm : R c (m c).2) (hf : ∀ a, Rel R (f a)) :
    R c ((m >>= f) c).2 := by
  show R c ((M.bind m f) c).2
  unfold M.bind
  cases hmc : m c with
  | mk r c' =>
    rw [hmc] at hm
    cases r with
    | ok a => exact hR.trans hm (hf a c')
    | error e => exact hm
    | panic s => exact hm

theorem rel_bind_readER (hR : Preorder' R) {g : Ctx → ER α} {f : α → M β}
    (hf : ∀ c a, g c = .ok a → R c ((f a) c).2) : Rel R (readER g >>= f) := by
  intro c
  show R c ((M.bind (readER g) f) c).2
  simp only [M.bind, readER]
  cases hg : g c with
  | ok a => exact hf c a hg
  | error e => exact hR.refl c
  | panic s => exact hR.refl c

theorem rel_bind_joinable_readER (hR : Preorder' R) (hinc : ∀ c, R c { c with subgraphComplete := false })
    {g : Ctx → ER α} {f : Option α → M β} (hnone : Rel R (f none))
    (hf : ∀ c a, g c = .ok a → R c ((f (some a)) c).2) : Rel R (joinable (readER g) >>= f) := by
  intro c
  show R c ((M.bind (joinable (readER g)) f) c).2
  simp only [M.bind, joinable, readER]
  cases hg : g c with
  | ok a => exact hf c a hg
  | error e =>
    by_cases hj : e.isJoinable = true
    · simp only [hj, if_true]; exact hR.trans (hinc c) (hnone _)
    · simp only [hj]; exact hR.refl c
  | panic s => exact hR.refl c

theorem rel_bind_joinable_readER_at (hR : Preorder' R) (hinc : ∀ c, R c { c with subgraphComplete := false })
    {g : Ctx → ER α} {f : Option α → M β} (c : Ctx) (hnone : Rel R (f none))
    (hf : ∀ a, g c = .ok a → R c ((f (some a)) c).2) : R c ((joinable (readER g) >>= f) c).2 := by
  show R c ((M.bind (joinable (readER g)) f) c).2
  simp only [M.bind, joinable, readER]
  cases hg : g c with
  | ok a => exact hf a hg
  | error e =>
    by_cases hj : e.isJoinable = true
    · simp only [hj, if_true]; exact hR.trans (hinc c) (hnone _)
    · simp only [hj]; exact hR.refl c
  | panic s => exact hR.refl c

/-- a bind whose continuation needs a state-independent fact about the value -/
theorem rel_bind_val (hR : Preorder' R) {m : M α} {f : α → M β} (Q : α → Prop) (hm : Rel R m)
    (hq : ∀ c a, (m c).1 = .ok a → Q a) (hf : ∀ a, Q a → Rel R (f a)) : Rel R (m >>= f) := by
  intro c
  show R c ((M.bind m f) c).2
  unfold M.bind
  have h1 := hm c
  have h2 := hq c
  cases hmc : m c with
  | mk r c' =>
    rw [hmc] at h1 h2
    cases r with
    | ok a => exact hR.trans h1 (hf a (h2 a rfl) c')
    | error e => exact h1
    | panic s => exact h1

theorem rel_modifyER_at (hR : Preorder' R) {f : Ctx → ER Ctx} (c : Ctx) (h : ∀ c', f c = .ok c' → R c c') : R c ((modifyER f) c).2 := by
  unfold modifyER
  cases hf : f c with
  | ok c' => exact h c' hf
  | error e => exact hR.refl c
  | panic s => exact hR.refl c

/-- a bind under a guard `G` on the state that is stable along `R` (e.g. "these values are justified by the
current CID stores") -/
theorem rel_bind_guard (hR : Preorder' R) {G : Ctx → Prop} (hG : ∀ c c', G c → R c c' → G c') {m : M α} {f : α → M β} (c : Ctx) (hc : G c)
    (hm : R c (m c).2) (hf : ∀ a c', G c' → R c' ((f a) c').2) : R c ((m >>= f) c).2 := by
  show R c ((M.bind m f) c).2
  unfold M.bind
  cases hmc : m c with
  | mk r c' =>
    rw [hmc] at hm
    cases r with
    | ok a => exact hR.trans hm (hf a c' (hG c c' hc hm))
    | error e => exact hm
    | panic s => exact hm

end generic

local notation "SP" => step_preorder env

theorem step_refl (c : Ctx) : Step env c c := (step_preorder env).refl c

/-! ## error descriptors -/

theorem errOK_fromExec {P : TP} (hP : LensClosed P) (e : CatchableErr) (i : String) (peer : Option String) (t : Option Tetraplet) :
    ErrOK P (instructionErrorFromExec e i peer t) := by
  unfold ErrOK instructionErrorFromExec
  cases t with
  | some t => exact hP.nonService _ _ (by intro k hk; cases hk)
  | none => intro k hk; cases hk

theorem step_setErrors (c : Ctx) (e : CatchableErr) (i : String) (t : Option Tetraplet) (b : Bool) :
    Step env c (c.setErrors e i t b) := by
  refine step_keep (by unfold Ctx.setErrors; rfl) (by unfold Ctx.setErrors; rfl) fun h => ?_
  have hP := pairOK_closed env c.cid
  unfold Ctx.setErrors
  refine ⟨h.keyed, h.scalars, h.streams, ?_, ?_⟩
  · simp only
    split
    · exact errOK_fromExec hP _ _ _ _
    · exact h.error
  · simp only
    split
    · exact errOK_fromExec hP _ _ _ _
    · exact h.lastError

theorem step_setErrorsOf (e : ExecErr) (i : Instr) (c : Ctx) : Step env c (c.setErrorsOf e i) := by
  unfold Ctx.setErrorsOf
  split
  · exact step_setErrors _ _ _ _ _
  · exact step_refl c

theorem step_callSetErrors (i : Instr) (t : Option Tetraplet) (e : ExecErr) (c : Ctx) : Step env c (callSetErrors i t e c) := by
  unfold callSetErrors
  split
  · split
    · exact step_refl c
    · exact step_setErrors _ _ _ _ _
  · exact step_refl c

theorem step_xorEnterRight (e : CatchableErr) (c : Ctx) : Step env c (xorEnterRight e c) := by
  unfold xorEnterRight
  exact step_keep rfl rfl fun h => ⟨h.keyed, h.scalars, h.streams, h.error, h.lastError⟩

theorem step_xorLeaveRight (b : Bool) (c : Ctx) : Step env c (xorLeaveRight b c) := by
  refine step_keep (by unfold xorLeaveRight; simp only []; split <;> split <;> rfl) (by unfold xorLeaveRight; simp only []; split <;> split <;> rfl) fun h => ?_
  have hne : ErrOK (PairOK env c.cid) noError := by
    unfold ErrOK noError; intro k hk; cases hk
  unfold xorLeaveRight
  simp only []
  split <;> split <;> first
    | exact ⟨h.keyed, h.scalars, h.streams, hne, h.lastError⟩
    | exact ⟨h.keyed, h.scalars, h.streams, h.error, h.lastError⟩

theorem step_failWithErrorObject_at (c : Ctx) (v : JVal) (t : Option Tetraplet) (p : Provenance)
    (h : EnvInv env c → OptOK (PairOK env c.cid) t p) : Step env c ((failWithErrorObject v t p) c).2 := by
  unfold failWithErrorObject
  refine rel_bind_at SP c ?_ (fun _ => rel_throwE SP _)
  simp only [modifyCtx]
  refine step_keep rfl rfl fun hi => ⟨hi.keyed, hi.scalars, hi.streams, hi.error, ?_⟩
  have := h hi
  unfold OptOK at this
  unfold ErrOK
  simp only
  cases t with
  | some t => exact this
  | none => exact this

theorem failOperand_ok {c : Ctx} (hi : EnvInv env c) {arg : FailArg} {v : JVal} {t : Option Tetraplet} {p : Provenance}
    (h : failOperand c arg = .ok (v, t, p)) : OptOK (PairOK env c.cid) t p := by
  cases arg with
  | scalar name =>
    simp only [failOperand, bind, Res.bind] at h
    cases hr : resolveValue c (.scalar name) with
    | ok x =>
      obtain ⟨v', ts, p'⟩ := x
      simp only [hr] at h
      obtain ⟨t0, rfl, hok⟩ := resolve_scalar_shape hi hr
      cases he : errObjER (checkErrorObject v') with
      | ok u =>
        simp only [he, pure] at h
        injection h with h; injection h with _ h; injection h with h1 h2
        subst h1 h2; exact hok
      | error e => simp [he] at h
      | panic s => simp [he] at h
    | error e => simp [hr] at h
    | panic s => simp [hr] at h
  | scalarWL name l =>
    simp only [failOperand, bind, Res.bind] at h
    cases hr : resolveValue c (.scalarWL name l) with
    | ok x =>
      obtain ⟨v', ts, p'⟩ := x
      simp only [hr] at h
      obtain ⟨t0, rfl, hok⟩ := resolve_scalarWL_shape hi hr
      cases he : errObjER (checkErrorObject v') with
      | ok u =>
        simp only [he, pure] at h
        injection h with h; injection h with _ h; injection h with h1 h2
        subst h1 h2; exact hok
      | error e => simp [he] at h
      | panic s => simp [he] at h
    | error e => simp [hr] at h
    | panic s => simp [hr] at h
  | literal code msg =>
    simp only [failOperand] at h
    injection h with h; injection h with _ h; injection h with h1 h2
    subst h1 h2
    show PairOK env c.cid (Tetraplet.literal c.initPeerId) Provenance.literal
    trivial
  | canonWL name l =>
    simp only [failOperand, bind, Res.bind] at h
    cases hr : resolveValue c (.canonWL name l) with
    | ok x =>
      obtain ⟨v', ts, p'⟩ := x
      simp only [hr] at h
      obtain ⟨t0, rfl, hok⟩ := resolve_canonWL_shape hi hr
      cases he : errObjER (checkErrorObject v') with
      | ok u =>
        simp only [he, pure] at h
        injection h with h; injection h with _ h; injection h with h1 h2
        subst h1 h2; exact hok
      | error e => simp [he] at h
      | panic s => simp [he] at h
    | error e => simp [hr] at h
    | panic s => simp [hr] at h
  | lastError =>
    simp only [failOperand, bind, Res.bind] at h
    cases he : errObjER (checkErrorObject c.lastError.error.error) with
    | ok u =>
      simp only [he, pure] at h
      injection h with h; injection h with _ h; injection h with h1 h2
      subst h1 h2; exact hi.lastError
    | error e => simp [he] at h
    | panic s => simp [he] at h
  | error =>
    simp only [failOperand, bind, Res.bind] at h
    cases he : errObjER (checkErrorObject c.error.error.error) with
    | ok u =>
      simp only [he, pure] at h
      injection h with h; injection h with _ h; injection h with h1 h2
      subst h1 h2; exact hi.error
    | error e => simp [he] at h
    | panic s => simp [he] at h

theorem step_execFailError_at (c : Ctx) (v : JVal) (t : Option Tetraplet) (p : Provenance)
    (h : EnvInv env c → OptOK (PairOK env c.cid) t p) : Step env c ((execFailError v t p) c).2 := by
  unfold execFailError
  -- the first bind only reads
  show Step env c ((M.bind (readCtx _) _) c).2
  simp only [M.bind, readCtx]
  refine rel_bind_at SP c ?_ ?_
  · exact step_failWithErrorObject_at c v t p h
  · intro res
    apply rel_bind SP
    · apply rel_modifyCtx; intro c; samestate
    · intro _; split
      · exact rel_throwE SP _
      · exact rel_reraise SP _

theorem step_execFail (arg : FailArg) : Rel (Step env) (execFail arg) := by
  unfold execFail
  apply rel_bind_readER SP
  intro c r hr
  obtain ⟨v, t, p⟩ := r
  have hok : EnvInv env c → OptOK (PairOK env c.cid) t p := fun hi => failOperand_ok hi hr
  split
  · exact step_execFailError_at c v t p hok
  · exact step_failWithErrorObject_at c v t p hok

/-! ## `ap` -/

theorem applyToArg_ok {c : Ctx} (hi : EnvInv env c) {arg : Value} {va : ValueAggregate} (h : applyToArg c arg = .ok va) :
    AggP (PairOK env c.cid) va := by
  have hP := pairOK_closed env c.cid
  have hconst : ∀ (v : JVal), AggP (PairOK env c.cid) ⟨v, Tetraplet.literal c.initPeerId, c.th.tracePos, .literal⟩ :=
    fun v => hP.nonService _ _ (by intro k hk; cases hk)
  have hnew : ∀ {a : Value} {v : JVal} {ts : List Tetraplet} {p : Provenance}, resolveValue c a = .ok (v, ts, p) →
      (∃ t, ts = [t] ∧ PairOK env c.cid t p) →
      (match ts with
        | t :: _ => (pure (ValueAggregate.new v t c.th.tracePos p) : ER ValueAggregate)
        | [] => Res.panic "apply_to_arguments.rs:tetraplets.remove(0)") = .ok va → AggP (PairOK env c.cid) va := by
    intro a v ts p _ hs hm
    obtain ⟨t, rfl, hok⟩ := hs
    simp only [pure] at hm
    injection hm with hm; subst hm
    exact new_ok hP _ _ hok
  cases arg with
  | initPeerId | literal _ | timestamp | ttl | number _ | float _ | boolean _ | emptyArray =>
    simp only [applyToArg] at h
    injection h with h; subst h; exact hconst _
  | error l =>
    simp only [applyToArg, bind, Res.bind] at h
    cases hr : resolveValue c (.error l) with
    | ok x => obtain ⟨v, ts, p⟩ := x; simp only [hr] at h; exact hnew hr (resolve_error_shape hi hr) h
    | error e => simp [hr] at h
    | panic s => simp [hr] at h
  | lastError l =>
    simp only [applyToArg, bind, Res.bind] at h
    cases hr : resolveValue c (.lastError l) with
    | ok x => obtain ⟨v, ts, p⟩ := x; simp only [hr] at h; exact hnew hr (resolve_lastError_shape hi hr) h
    | error e => simp [hr] at h
    | panic s => simp [hr] at h
  | scalarWL n l =>
    simp only [applyToArg, bind, Res.bind] at h
    cases hr : resolveValue c (.scalarWL n l) with
    | ok x => obtain ⟨v, ts, p⟩ := x; simp only [hr] at h; exact hnew hr (resolve_scalarWL_shape hi hr) h
    | error e => simp [hr] at h
    | panic s => simp [hr] at h
  | scalar n =>
    simp only [applyToArg, bind, Res.bind] at h
    cases hg : c.scalars.getValue n with
    | ok r =>
      simp only [hg] at h
      have hr := scalars_getValue_ok hi.scalars hg
      cases r with
      | value v =>
        simp only [pure] at h
        injection h with h; subst h; exact hr
      | iterableValue f =>
        simp only at h
        cases hk : f.iterable.peekExpect with
        | ok x =>
          simp only [hk, pure] at h
          injection h with h; subst h
          obtain ⟨x1, t1, pos1, p1⟩ := x
          exact item_ok hP (peekExpect_ok hP hr hk)
        | error e => simp [hk] at h
        | panic s => simp [hk] at h
    | error e => simp [hg] at h
    | panic s => simp [hg] at h
  | canon n =>
    simp only [applyToArg, bind, Res.bind] at h
    cases hg : c.scalars.getCanonStream n with
    | ok cs =>
      simp only [hg, pure] at h
      injection h with h; subst h
      exact hP.nonService _ _ (by intro k hk; simp [ValueAggregate.new] at hk)
    | error e => simp [hg] at h
    | panic s => simp [hg] at h
  | canonWL n l =>
    simp only [applyToArg, bind, Res.bind] at h
    cases hr : resolveValue c (.canonWL n l) with
    | ok x => obtain ⟨v, ts, p⟩ := x; simp only [hr] at h; exact hnew hr (resolve_canonWL_shape hi hr) h
    | error e => simp [hr] at h
    | panic s => simp [hr] at h
  | canonMap n =>
    simp only [applyToArg, bind, Res.bind] at h
    cases hg : c.scalars.getCanonMap n with
    | ok cs =>
      simp only [hg, pure] at h
      injection h with h; subst h
      exact hP.nonService _ _ (by intro k hk; simp [ValueAggregate.new] at hk)
    | error e => simp [hg] at h
    | panic s => simp [hg] at h
  | canonMapWL n l =>
    simp only [applyToArg, bind, Res.bind] at h
    cases hr : resolveValue c (.canonMapWL n l) with
    | ok x => obtain ⟨v, ts, p⟩ := x; simp only [hr] at h; exact hnew hr (resolve_canonMapWL_shape hi hr) h
    | error e => simp [hr] at h
    | panic s => simp [hr] at h

theorem step_withScalars {c c' : Ctx} {g : Scalars → ER Scalars} (h : withScalars c g = .ok c')
    (hg : ∀ sc, EnvInv env c → g c.scalars = .ok sc → ScalarsOK (PairOK env c.cid) sc) : Step env c c' := by
  unfold withScalars at h
  cases hgc : g c.scalars with
  | ok sc =>
    simp [hgc, Res.bind] at h; subst h
    exact step_keep rfl rfl fun hi => ⟨hi.keyed, hg sc hi hgc, hi.streams, hi.error, hi.lastError⟩
  | error e => simp [hgc, Res.bind] at h
  | panic s => simp [hgc, Res.bind] at h

theorem step_withScalarsRet {α : Type} {c c' : Ctx} {a : α} {g : Scalars → ER (α × Scalars)} (h : withScalarsRet c g = .ok (a, c'))
    (hg : ∀ a sc, EnvInv env c → g c.scalars = .ok (a, sc) → ScalarsOK (PairOK env c.cid) sc) : Step env c c' := by
  unfold withScalarsRet at h
  cases hgc : g c.scalars with
  | ok x =>
    obtain ⟨a', sc⟩ := x
    simp [hgc, Res.bind] at h; obtain ⟨_, rfl⟩ := h
    exact step_keep rfl rfl fun hi => ⟨hi.keyed, hg a' sc hi hgc, hi.streams, hi.error, hi.lastError⟩
  | error e => simp [hgc, Res.bind] at h
  | panic s => simp [hgc, Res.bind] at h

theorem step_setScalar_at (c : Ctx) (name : String) (v : ValueAggregate) (hv : EnvInv env c → AggP (PairOK env c.cid) v) :
    Step env c ((setScalar name v) c).2 := by
  unfold setScalar
  apply rel_modifyER_at SP
  intro c' h
  exact step_withScalars h fun sc hi hs => setScalarValue_ok hi.scalars (hv hi) hs

theorem step_execAp (arg : Value) (out : CallOutput) : Rel (Step env) (execAp arg out) := by
  unfold execAp
  split
  · apply rel_bind_joinable_readER SP (step_inc env)
    · exact rel_pure SP _
    · intro c va h
      exact step_setScalar_at c _ va fun hi => applyToArg_ok hi h
  · exact rel_throwE SP _

/-! ## scalar folds -/

theorem createScalarIterable_ok {c : Ctx} (hi : EnvInv env c) {iterable : Value} {itv : IterableValue}
    (h : createScalarIterable c iterable = .ok (some itv)) : IterOK (PairOK env c.cid) itv := by
  have hP := pairOK_closed env c.cid
  have hfrom : ∀ (v : ValueAggregate) (name : String), AggP (PairOK env c.cid) v →
      (match v.result with
        | .arr a => if a.isEmpty then (.ok none : ER (Option IterableValue)) else .ok (some (.resolvedCall v 0 a.length))
        | other => catchable (.foldIteratesOverNonArray other name)) = .ok (some itv) → IterOK (PairOK env c.cid) itv := by
    intro v name hv hm
    split at hm
    · split at hm
      · cases hm
      · injection hm with hm; injection hm with hm; subst hm; exact hv
    · simp [catchable] at hm
  cases iterable with
  | scalar n =>
    simp only [createScalarIterable, bind, Res.bind] at h
    cases hg : c.scalars.getValue n with
    | ok r =>
      simp only [hg] at h
      have hr := scalars_getValue_ok hi.scalars hg
      cases r with
      | value v => exact hfrom v n hr h
      | iterableValue f =>
        simp only at h
        cases hk : f.iterable.peekExpect with
        | ok x =>
          simp only [hk] at h
          obtain ⟨x1, t1, pos1, p1⟩ := x
          exact hfrom _ n (item_ok hP (peekExpect_ok hP hr hk)) h
        | error e => simp [hk] at h
        | panic s => simp [hk] at h
    | error e => simp [hg] at h
    | panic s => simp [hg] at h
  | scalarWL n l =>
    simp only [createScalarIterable, bind, Res.bind] at h
    cases hg : c.scalars.getValue n with
    | ok r =>
      simp only [hg] at h
      have hr := scalars_getValue_ok hi.scalars hg
      cases hp : r.parts with
      | ok x =>
        obtain ⟨v', t', p'⟩ := x
        simp only [hp] at h
        cases hs : selectByLambdaFromScalar c.scalars v' l with
        | ok sel =>
          simp only [hs] at h
          split at h
          · split at h
            · cases h
            · simp only [pure] at h
              injection h with h; injection h with h; subst h
              exact populate_ok hP l (parts_ok hP hr hp)
          · simp [catchable] at h
        | error e => simp [hs] at h
        | panic s => simp [hs] at h
      | error e => simp [hp] at h
      | panic s => simp [hp] at h
    | error e => simp [hg] at h
    | panic s => simp [hg] at h
  | emptyArray => simp [createScalarIterable] at h
  -- not iterable in the modelled fragment today
  | initPeerId => simp [createScalarIterable, unmodelled] at h
  | lastError l => simp [createScalarIterable, unmodelled] at h
  | error l => simp [createScalarIterable, unmodelled] at h
  | literal s => simp [createScalarIterable, unmodelled] at h
  | timestamp => simp [createScalarIterable, unmodelled] at h
  | ttl => simp [createScalarIterable, unmodelled] at h
  | number n => simp [createScalarIterable, unmodelled] at h
  | float r => simp [createScalarIterable, unmodelled] at h
  | boolean b => simp [createScalarIterable, unmodelled] at h
  | canon n =>
    simp only [createScalarIterable, bind, Res.bind] at h
    cases hg : c.scalars.getCanonStream n with
    | ok cs =>
      simp only [hg] at h
      split at h
      · simp [pure] at h
      · simp only [pure] at h
        injection h with h; injection h with h; subst h
        exact getCanonStream_ok hi.scalars hg
    | error e => simp [hg] at h
    | panic s => simp [hg] at h
  | canonWL n l => simp [createScalarIterable, unmodelled] at h
  | canonMap n =>
    simp only [createScalarIterable, bind, Res.bind] at h
    cases hg : c.scalars.getCanonMap n with
    | ok cm =>
      simp only [hg] at h
      split at h
      · simp [pure] at h
      · simp only [pure] at h
        injection h with h; injection h with h; subst h
        intro x hx
        exact getCanonMap_ok hi.scalars hg x (mem_lastPairPerKey hx)
    | error e => simp [hg] at h
    | panic s => simp [hg] at h
  | canonMapWL n l =>
    simp only [createScalarIterable, bind, Res.bind] at h
    cases hg : c.scalars.getCanonMap n with
    | ok cm =>
      simp only [hg] at h
      split at h
      · simp [pure] at h
      · cases hs : lensOfLambda l (fun lam => Lens.selectByLambdaFromCanonMap c.scalars cm.canonStreamMap.toLens lam) with
        | ok sel =>
          simp only [hs] at h
          split at h
          · split at h
            · cases h
            · simp only [pure] at h
              injection h with h; injection h with h; subst h
              simp only [IterOK, PairOK]
          · simp [catchable] at h
        | error e => simp [hs] at h
        | panic s => simp [hs] at h
    | error e => simp [hg] at h
    | panic s => simp [hg] at h

theorem step_foldEnter {c c' : Ctx} (iterator : String) (fs : FoldState) (hf : EnvInv env c → IterOK (PairOK env c.cid) fs.iterable)
    (h : foldEnter iterator fs c = .ok c') : Step env c c' := by
  unfold foldEnter at h
  exact step_withScalars h fun sc hi hs => setIterableValue_ok (s_meetFoldStart_ok hi.scalars) (hf hi) hs

theorem step_foldLeave {c c' : Ctx} (iterator : String) (h : foldLeave iterator c = .ok c') : Step env c c' := by
  unfold foldLeave at h
  exact step_withScalars h fun sc hi hs => s_meetFoldEnd_ok (removeIterableValue_ok iterator hi.scalars) hs

theorem step_nextAdvance {c c' : Ctx} {iterator : String} {r : Option FoldState} (h : nextAdvance iterator c = .ok (r, c')) : Step env c c' := by
  unfold nextAdvance at h
  refine step_withScalarsRet h ?_
  intro a sc hi hs
  simp only [bind, Res.bind] at hs
  cases hg : c.scalars.getIterable iterator with
  | ok fs =>
    simp only [hg] at hs
    have hfs := getIterable_ok hi.scalars hg
    split at hs
    · simp only [pure] at hs
      injection hs with hs; injection hs with _ hs; subst hs; exact hi.scalars
    · simp only [pure] at hs
      injection hs with hs; injection hs with _ hs; subst hs
      exact s_meetNextBefore_ok (setIterableState_ok iterator hi.scalars (iterOK_next hfs))
  | error e => simp [hg] at hs
  | panic s => simp [hg] at hs

theorem step_nextAfter {c c' : Ctx} (h : nextAfter c = .ok c') : Step env c c' := by
  unfold nextAfter at h
  exact step_withScalars h fun sc hi hs => s_meetNextAfter_ok hi.scalars hs

theorem step_nextBack {c c' : Ctx} {iterator : String} (h : nextBack iterator c = .ok c') : Step env c c' := by
  unfold nextBack at h
  refine step_withScalars h ?_
  intro sc hi hs
  simp only [bind, Res.bind] at hs
  cases hg : c.scalars.getIterable iterator with
  | ok fs =>
    simp only [hg, pure] at hs
    injection hs with hs; subst hs
    exact setIterableState_ok iterator hi.scalars (iterOK_prev (getIterable_ok hi.scalars hg))
  | error e => simp [hg] at hs
  | panic s => simp [hg] at hs

theorem step_newLeave {c c' : Ctx} {name : String} {b : Bool} (h : newLeave name c = .ok (b, c')) : Step env c c' := by
  unfold newLeave at h
  refine step_withScalarsRet h ?_
  intro a sc hi hs
  simp only at hs
  injection hs with hs; injection hs with _ hs; subst hs
  exact s_meetNewEnd_ok name hi.scalars

end AquaProps
