import Aqua.Codec.Sede
import AquaProps.Lemmas.Sede
set_option linter.unusedSimpArgs false
/-!
Call arguments (`Vec<JValue>` ↔ msgpack): the reader undoes the writer on well-formed JSON values
(integers in `[-2^63, 2^64)`, finite floats, string / array / object sizes below 2^32, object keys strictly
increasing — the iteration order of a `BTreeMap`).
-/
namespace AquaProps.Lemmas.JArg
open Aqua Aqua.Sede Aqua.MsgPack
open AquaProps.Lemmas.MsgPack (WF WFList WFPairs)
open AquaProps.Lemmas.Sede

mutual
def JWF : JArg → Prop
  | .null => True
  | .bool _ => True
  | .num i => -(2 ^ 63) ≤ i ∧ i < 2 ^ 64
  | .f64 b => b < 2 ^ 64 ∧ f64Finite b = true
  | .str s => (strBytes s).length < 2 ^ 32
  | .arr l => l.length < 2 ^ 32 ∧ JWFList l
  | .obj kvs => kvs.length < 2 ^ 32 ∧ kvs.Pairwise (fun a b => a.1 < b.1) ∧ JWFPairs kvs
def JWFList : List JArg → Prop
  | [] => True
  | a :: as => JWF a ∧ JWFList as
def JWFPairs : List (String × JArg) → Prop
  | [] => True
  | (k, a) :: kvs => (strBytes k).length < 2 ^ 32 ∧ JWF a ∧ JWFPairs kvs
end

theorem insertSorted_last (k : String) (v : JArg) (acc : List (String × JArg)) (h : ∀ e ∈ acc, e.1 < k) :
    insertSorted k v acc = acc ++ [(k, v)] := by
  induction acc with
  | nil => rfl
  | cons e rest ih =>
    obtain ⟨k', v'⟩ := e
    have hlt : k' < k := h (k', v') (by simp)
    have hne : ¬ (k = k') := fun e => String.ne_of_lt hlt e.symm
    have hnlt : ¬ (k < k') := String.lt_asymm hlt
    simp [insertSorted, hne, hnlt, ih fun e he => h e (List.mem_cons_of_mem _ he)]

theorem length_toValList (l : List JArg) : (JArg.toValList l).length = l.length := by
  induction l with
  | nil => rfl
  | cons a as ih => simp [JArg.toValList, ih]

theorem length_toValPairs (l : List (String × JArg)) : (JArg.toValPairs l).length = l.length := by
  induction l with
  | nil => rfl
  | cons a as ih => obtain ⟨k, v⟩ := a; simp [JArg.toValPairs, ih]

mutual
theorem ofVal_toVal (a : JArg) (h : JWF a) : JArg.ofVal a.toVal = some a := by
  match a, h with
  | .null, _ => rfl
  | .bool _, _ => rfl
  | .num _, _ => rfl
  | .f64 b, h => simp [JArg.toVal, JArg.ofVal, h.2]
  | .str s, _ => simp [JArg.toVal, JArg.ofVal, bytesToString_strBytes]
  | .arr l, h => simp [JArg.toVal, JArg.ofVal, ofValList_toValList l h.2]
  | .obj kvs, h =>
    have := ofValPairs_toValPairs kvs h.2.2 h.2.1 [] (by simp)
    simp [JArg.toVal, JArg.ofVal, this]
theorem ofValList_toValList (l : List JArg) (h : JWFList l) : JArg.ofValList (JArg.toValList l) = some l := by
  match l, h with
  | [], _ => rfl
  | a :: as, h => simp [JArg.toValList, JArg.ofValList, ofVal_toVal a h.1, ofValList_toValList as h.2]
theorem ofValPairs_toValPairs (kvs : List (String × JArg)) (h : JWFPairs kvs)
    (hs : kvs.Pairwise (fun a b => a.1 < b.1)) (acc : List (String × JArg))
    (hacc : ∀ e ∈ acc, ∀ e' ∈ kvs, e.1 < e'.1) :
    JArg.ofValPairs (JArg.toValPairs kvs) acc = some (acc ++ kvs) := by
  match kvs, h, hs, hacc with
  | [], _, _, _ => simp [JArg.toValPairs, JArg.ofValPairs]
  | (k, a) :: rest, h, hs, hacc =>
    have hlast : insertSorted k a acc = acc ++ [(k, a)] :=
      insertSorted_last k a acc fun e he => hacc e he (k, a) (by simp)
    have hs' := List.pairwise_cons.mp hs
    have ih := ofValPairs_toValPairs rest h.2.2 hs'.2 (acc ++ [(k, a)]) (by
      intro e he e' he'
      rcases List.mem_append.mp he with he | he
      · exact hacc e he e' (List.mem_cons_of_mem _ he')
      · simp at he; subst he; exact hs'.1 e' he')
    simp [JArg.toValPairs, JArg.ofValPairs, deStrOnly_str, ofVal_toVal a h.2.1, hlast, ih]
end

mutual
theorem wf_toVal (a : JArg) (h : JWF a) : WF a.toVal := by
  match a, h with
  | .null, _ => simp [JArg.toVal, WF]
  | .bool _, _ => simp [JArg.toVal, WF]
  | .num _, h => simpa [JArg.toVal, WF, JWF] using h
  | .f64 _, h => simpa [JArg.toVal, WF, JWF] using h.1
  | .str _, h => simpa [JArg.toVal, WF, JWF] using h
  | .arr l, h => exact ⟨by rw [length_toValList]; exact h.1, wfList_toValList l h.2⟩
  | .obj kvs, h => exact ⟨by rw [length_toValPairs]; exact h.1, wfPairs_toValPairs kvs h.2.2⟩
theorem wfList_toValList (l : List JArg) (h : JWFList l) : WFList (JArg.toValList l) := by
  match l, h with
  | [], _ => simp [JArg.toValList, WFList]
  | a :: as, h => exact ⟨wf_toVal a h.1, wfList_toValList as h.2⟩
theorem wfPairs_toValPairs (kvs : List (String × JArg)) (h : JWFPairs kvs) : WFPairs (JArg.toValPairs kvs) := by
  match kvs, h with
  | [], _ => simp [JArg.toValPairs, WFPairs]
  | (k, a) :: rest, h => exact ⟨by simpa [WF] using h.1, wf_toVal a h.2.1, wfPairs_toValPairs rest h.2.2⟩
end

end AquaProps.Lemmas.JArg
