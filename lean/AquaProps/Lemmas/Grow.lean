import AquaProps.Lemmas.Rel
import AquaProps.Lemmas.ExecRel
/-!
The relation `Grow` between the context before and after any piece of execution: the peer ids do not
change, call requests are only appended and carry the consecutive ids `lcid+1, lcid+2, …`, next peers
are only appended and are never the current peer.  `exec_grow` proves it for every script, every fuel
and every context by induction over the interpreter.
-/
namespace AquaProps
open Aqua Aqua.Exec Aqua.Air Aqua.Trace Aqua.Json

/-- requests numbered consecutively from `n` -/
def numbered : Nat → List CallRequest → List (Nat × CallRequest)
  | _, [] => []
  | n, r :: rs => (n, r) :: numbered (n + 1) rs

theorem numbered_append (n : Nat) (a b : List CallRequest) :
    numbered n (a ++ b) = numbered n a ++ numbered (n + a.length) b := by
  induction a generalizing n with
  | nil => simp [numbered]
  | cons x xs ih =>
    have : n + 1 + xs.length = n + (xs.length + 1) := by omega
    simp [numbered, ih, this]

structure Grow (c c' : Ctx) : Prop where
  me : c'.currentPeerId = c.currentPeerId
  init : c'.initPeerId = c.initPeerId
  reqs : ∃ rs : List CallRequest,
    c'.callRequests = c.callRequests ++ numbered (c.lastCallRequestId + 1) rs ∧
    c'.lastCallRequestId = c.lastCallRequestId + rs.length ∧
    ∀ r ∈ rs, r.forPeer = c.currentPeerId
  next : ∃ ps : List String, c'.nextPeerPks = c.nextPeerPks ++ ps ∧ ∀ p ∈ ps, p ≠ c.currentPeerId

/-- the observed fields are untouched -/
structure SameObs (c c' : Ctx) : Prop where
  me : c'.currentPeerId = c.currentPeerId
  init : c'.initPeerId = c.initPeerId
  reqs : c'.callRequests = c.callRequests
  lcid : c'.lastCallRequestId = c.lastCallRequestId
  next : c'.nextPeerPks = c.nextPeerPks

theorem SameObs.grow {c c' : Ctx} (h : SameObs c c') : Grow c c' :=
  ⟨h.me, h.init, ⟨[], by simp [numbered, h.reqs], by simp [h.lcid], by simp⟩, ⟨[], by simp [h.next], by simp⟩⟩

theorem grow_preorder : Preorder' Grow where
  refl c := SameObs.grow (c := c) (c' := c) ⟨rfl, rfl, rfl, rfl, rfl⟩
  trans := by
    intro a b c hab hbc
    obtain ⟨rs1, hr1, hl1, hf1⟩ := hab.reqs
    obtain ⟨rs2, hr2, hl2, hf2⟩ := hbc.reqs
    obtain ⟨ps1, hp1, hn1⟩ := hab.next
    obtain ⟨ps2, hp2, hn2⟩ := hbc.next
    refine ⟨hbc.me.trans hab.me, hbc.init.trans hab.init, ⟨rs1 ++ rs2, ?_, ?_, ?_⟩, ⟨ps1 ++ ps2, ?_, ?_⟩⟩
    · rw [hr2, hr1, hl1, numbered_append]
      simp [List.append_assoc, Nat.add_assoc, Nat.add_comm, Nat.add_left_comm]
    · rw [hl2, hl1]; simp [Nat.add_assoc]
    · intro r hr
      rcases List.mem_append.mp hr with h | h
      · exact hf1 r h
      · rw [hf2 r h, hab.me]
    · rw [hp2, hp1]; simp
    · intro p hp
      rcases List.mem_append.mp hp with h | h
      · exact hn1 p h
      · have := hn2 p h
        rw [hab.me] at this
        exact this

/-! ### the primitives -/

theorem grow_th (c : Ctx) (th : TraceHandler) : Grow c { c with th := th } :=
  SameObs.grow (c := c) (c' := { c with th := th }) ⟨rfl, rfl, rfl, rfl, rfl⟩
theorem grow_inc (c : Ctx) : Grow c { c with subgraphComplete := false } :=
  SameObs.grow (c := c) (c' := { c with subgraphComplete := false }) ⟨rfl, rfl, rfl, rfl, rfl⟩

theorem sameObs_setErrors (c : Ctx) (e : CatchableErr) (i : String) (t : Option Tetraplet) (b : Bool) :
    SameObs c (c.setErrors e i t b) := by
  unfold Ctx.setErrors
  exact ⟨rfl, rfl, rfl, rfl, rfl⟩

theorem grow_setErrorsOf (e : ExecErr) (i : Instr) (c : Ctx) : Grow c (c.setErrorsOf e i) := by
  unfold Ctx.setErrorsOf
  split
  · exact (sameObs_setErrors _ _ _ _ _).grow
  · exact grow_preorder.refl c

theorem grow_callSetErrors (i : Instr) (t : Option Tetraplet) (e : ExecErr) (c : Ctx) : Grow c (callSetErrors i t e c) := by
  unfold callSetErrors
  split
  · split
    · exact grow_preorder.refl c
    · exact (sameObs_setErrors _ _ _ _ _).grow
  · exact grow_preorder.refl c

theorem sameObs_recordCallCid (c : Ctx) (p : String) (cid : String) : SameObs c (c.recordCallCid p cid) := by
  unfold Ctx.recordCallCid
  split <;> exact ⟨rfl, rfl, rfl, rfl, rfl⟩

end AquaProps

namespace AquaProps
open Aqua Aqua.Exec Aqua.Air Aqua.Trace Aqua.Json

theorem sameObs_withScalars {c c' : Ctx} {g : Scalars → ER Scalars} (h : withScalars c g = .ok c') : SameObs c c' := by
  unfold withScalars at h
  cases hg : g c.scalars with
  | ok sc => simp [hg, Res.bind] at h; subst h; exact ⟨rfl, rfl, rfl, rfl, rfl⟩
  | error e => simp [hg, Res.bind] at h
  | panic s => simp [hg, Res.bind] at h

theorem sameObs_withScalarsRet {α} {c c' : Ctx} {a : α} {g : Scalars → ER (α × Scalars)} (h : withScalarsRet c g = .ok (a, c')) : SameObs c c' := by
  unfold withScalarsRet at h
  cases hg : g c.scalars with
  | ok p => obtain ⟨a', sc⟩ := p; simp [hg, Res.bind] at h; obtain ⟨_, rfl⟩ := h; exact ⟨rfl, rfl, rfl, rfl, rfl⟩
  | error e => simp [hg, Res.bind] at h
  | panic s => simp [hg, Res.bind] at h

theorem SameObs.trans {a b c : Ctx} (h1 : SameObs a b) (h2 : SameObs b c) : SameObs a c :=
  ⟨h2.me.trans h1.me, h2.init.trans h1.init, h2.reqs.trans h1.reqs, h2.lcid.trans h1.lcid, h2.next.trans h1.next⟩

theorem SameButStreams.sameObs {c c' : Ctx} (h : SameButStreams c c') : SameObs c c' :=
  ⟨h.me, h.init, h.reqs, h.lcid, h.next⟩

theorem sameObs_populateFromPeerServiceResult (env : Env) (c c' : Ctx) (result : JVal) (t : Tetraplet) (ah : String) (pos : Nat)
    (out : CallOutput) (cr : Data.CallResult) (h : populateFromPeerServiceResult env c result t ah pos out = .ok (cr, c')) : SameObs c c' := by
  cases out with
  | none =>
    simp only [populateFromPeerServiceResult] at h
    injection h with h; injection h with _ h; subst h; exact ⟨rfl, rfl, rfl, rfl, rfl⟩
  | stream n p =>
    simp only [populateFromPeerServiceResult] at h
    obtain ⟨c1, h1, h2⟩ := res_bind_ok'' h
    injection h2 with h2; injection h2 with _ h2; subst h2
    have hs := (sameButStreams_addStreamValue h1).sameObs
    refine SameObs.trans (b := c1) ?_ (sameObs_recordCallCid _ _ _)
    exact ⟨hs.me, hs.init, hs.reqs, hs.lcid, hs.next⟩
  | scalar name =>
    simp only [populateFromPeerServiceResult, bind, Res.bind] at h
    split at h
    · injection h with h; injection h with _ h; subst h
      refine SameObs.trans (b := _) ?_ (sameObs_recordCallCid _ _ _)
      exact ⟨rfl, rfl, rfl, rfl, rfl⟩
    · cases h
    · cases h

theorem sameObs_populateFromData (env : Env) (c c' : Ctx) (value : Data.ValueRef) (ah : String) (t : Tetraplet) (pos : Nat)
    (out : CallOutput) (src : Trace.ValueSource) (h : populateFromData env c value ah t pos out src = .ok c') : SameObs c c' := by
  unfold populateFromData at h
  split at h
  · simp only [bind, Res.bind] at h
    split at h
    · split at h
      · split at h
        · injection h with h; subst h; exact ⟨rfl, rfl, rfl, rfl, rfl⟩
        · cases h
        · cases h
      · cases h
      · cases h
    · cases h
    · cases h
  · obtain ⟨x, _, h2⟩ := res_bind_ok'' h
    obtain ⟨y, _, h3⟩ := res_bind_ok'' h2
    exact (sameButStreams_addStreamValue h3).sameObs
  · injection h with h; subst h; exact ⟨rfl, rfl, rfl, rfl, rfl⟩
  · simp [uncatchable] at h

local notation "GP" => grow_preorder

@[simp] theorem rcc_me (c : Ctx) (p cid : String) : (c.recordCallCid p cid).currentPeerId = c.currentPeerId := (sameObs_recordCallCid c p cid).me
@[simp] theorem rcc_init (c : Ctx) (p cid : String) : (c.recordCallCid p cid).initPeerId = c.initPeerId := (sameObs_recordCallCid c p cid).init
@[simp] theorem rcc_reqs (c : Ctx) (p cid : String) : (c.recordCallCid p cid).callRequests = c.callRequests := (sameObs_recordCallCid c p cid).reqs
@[simp] theorem rcc_lcid (c : Ctx) (p cid : String) : (c.recordCallCid p cid).lastCallRequestId = c.lastCallRequestId := (sameObs_recordCallCid c p cid).lcid
@[simp] theorem rcc_next (c : Ctx) (p cid : String) : (c.recordCallCid p cid).nextPeerPks = c.nextPeerPks := (sameObs_recordCallCid c p cid).next

macro "sameobs" : tactic => `(tactic| (refine SameObs.grow ⟨?_, ?_, ?_, ?_, ?_⟩ <;> simp))

theorem grow_meetCallEnd (cr : Data.CallResult) : Rel Grow (meetCallEnd cr) :=
  rel_modifyCtx fun c => grow_th c _

theorem grow_makeSubgraphIncomplete : Rel Grow makeSubgraphIncomplete := rel_modifyCtx grow_inc

theorem grow_updateStateWithServiceResult (env : Env) (t : Tetraplet) (ah : String) (out : CallOutput) (sr : CallServiceResult) :
    Rel Grow (updateStateWithServiceResult env t ah out sr) := by
  unfold updateStateWithServiceResult
  split
  · apply rel_bind GP
    · apply rel_modifyCtx
      intro c
      sameobs
    · intro _; exact rel_throwE GP _
  · split
    · apply rel_bind GP
      · apply rel_modifyCtx
        intro c
        sameobs
      · intro _; exact rel_throwE GP _
    · apply rel_modifyER GP
      intro c c' h
      simp only [bind, Res.bind] at h
      split at h
      · rename_i p hp
        obtain ⟨cr, c1⟩ := p
        injection h with h; subst h
        have h1 := sameObs_populateFromPeerServiceResult _ _ _ _ _ _ _ _ _ hp
        refine SameObs.grow ⟨?_, ?_, ?_, ?_, ?_⟩ <;> simp [h1.me, h1.init, h1.reqs, h1.lcid, h1.next]
      · cases h
      · cases h

theorem grow_sentByOther (met : MetCallResult) (t : Tetraplet) : Rel Grow (sentByOther met t) := by
  unfold sentByOther
  apply rel_bind GP (rel_readCtx GP _)
  intro me
  split
  · exact rel_pure GP _
  · exact rel_bind GP grow_makeSubgraphIncomplete fun _ => rel_pure GP _

theorem grow_unwrapHash (s : String) (h : Option String) : Rel Grow (unwrapHash s h) := by
  unfold unwrapHash; split
  · exact rel_pure GP _
  · exact rel_panicM GP _

theorem grow_handlePrevState (env : Env) (met : MetCallResult) (t : Tetraplet) (ah : Option String) (out : CallOutput) :
    Rel Grow (handlePrevState env met t ah out) := by
  unfold handlePrevState
  split
  · -- failed
    apply rel_bind GP (rel_readER GP _); intro r
    apply rel_bind GP (grow_unwrapHash _ _); intro h
    apply rel_bind GP (rel_readER GP _); intro _
    split
    · split
      · exact rel_throwE GP _
      · apply rel_bind GP
        · apply rel_modifyCtx; intro c; sameobs
        · intro _; exact rel_throwE GP _
    · exact rel_throwE GP _
  · -- own request
    apply rel_bind GP (rel_readCtx GP _); intro me
    split
    · apply rel_bind GP (rel_readCtx GP _); intro found
      split
      · apply rel_bind GP
        · apply rel_modifyCtx; intro c; sameobs
        · intro _
          apply rel_bind GP (grow_unwrapHash _ _); intro h
          apply rel_bind GP (grow_updateStateWithServiceResult _ _ _ _ _); intro _
          exact rel_pure GP _
      · exact rel_bind GP grow_makeSubgraphIncomplete fun _ => rel_pure GP _
    · exact grow_sentByOther _ _
  · exact grow_sentByOther _ _
  · -- executed
    apply rel_bind GP (grow_unwrapHash _ _); intro h
    apply rel_bind GP
    · apply rel_modifyER GP; intro c c' hc; exact (sameObs_populateFromData _ _ _ _ _ _ _ _ _ hc).grow
    · intro _
      apply rel_bind GP
      · apply rel_modifyCtx; intro c
        refine SameObs.grow ⟨?_, ?_, ?_, ?_, ?_⟩ <;> (simp only []; split <;> simp)
      · intro _; exact rel_pure GP _

theorem grow_issueRequest (t : Tetraplet) (args : List Value) (c c' : Ctx) (ht : t.peerPk = c.currentPeerId)
    (h : issueRequest t args c = .ok c') : Grow c c' := by
  unfold issueRequest at h
  split at h
  · split at h
    · cases h
    · injection h with h; subst h
      rename_i vs tss _ _
      refine ⟨rfl, rfl, ⟨[⟨t.serviceId, t.functionName, vs, tss, t.peerPk⟩], ?_, ?_, ?_⟩, ⟨[], by simp, by simp⟩⟩
      · simp [numbered]
      · simp
      · intro r hr; simp at hr; subst hr; exact ht
  · cases h
  · cases h

/-- `ResolvedCall::execute` after the state has been prepared: forwards to the addressed peer (never the
current one) or issues a local request -/
theorem grow_dispatch (t : Tetraplet) (args : List Value) (state : StateDescriptor) :
    Rel Grow (dispatch t args state) := by
  intro c
  unfold dispatch
  show Grow c ((M.bind (readCtx (·.currentPeerId)) _) c).2
  simp only [M.bind, readCtx]
  split
  · -- remote: the pushed peer differs from the current one
    rename_i hne
    simp only [handleRemoteCall, modifyCtx]
    refine ⟨rfl, rfl, ⟨[], by simp [numbered], by simp, by simp⟩, ⟨[t.peerPk], rfl, ?_⟩⟩
    intro p hp
    simp at hp; subst hp
    simpa using hne
  · -- local: the request is issued for the current peer
    rename_i heq
    have ht : t.peerPk = c.currentPeerId := by simpa using heq
    show Grow c ((M.bind (tryM (modifyER (issueRequest t args))) _) c).2
    simp only [M.bind, tryM, modifyER]
    cases hi : issueRequest t args c with
    | ok c' =>
      simp only
      exact grow_issueRequest t args c c' ht hi
    | error e =>
      simp only
      split
      · have : Rel Grow (do state.maybeSetPrevState; throwE e : M Unit) := by
          apply rel_bind GP
          · unfold StateDescriptor.maybeSetPrevState; split
            · exact grow_meetCallEnd _
            · exact rel_pure GP _
          · intro _; exact rel_throwE GP _
        exact this c
      · exact grow_preorder.refl c
    | panic s => exact grow_preorder.refl c

theorem grow_maybeSetPrevState (s : StateDescriptor) : Rel Grow s.maybeSetPrevState := by
  unfold StateDescriptor.maybeSetPrevState; split
  · exact grow_meetCallEnd _
  · exact rel_pure GP _

theorem grow_resolvedExecute (env : Env) (i : Instr) (t : Tetraplet) (args : List Value) (out : CallOutput) :
    Rel Grow (resolvedExecute env i t args out) := by
  unfold resolvedExecute
  apply rel_bind GP (rel_readER GP _); intro checked
  apply rel_bind GP (rel_liftTH GP _ _ grow_th); intro met
  apply rel_bind GP
  · unfold prepareState; split
    · exact grow_handlePrevState _ _ _ _ _
    · exact rel_pure GP _
  · intro state
    unfold afterState
    split
    split
    · exact grow_maybeSetPrevState _
    · exact grow_dispatch _ _ _

theorem grow_execCall (env : Env) (i : Instr) (p s f : Value) (args : List Value) (out : CallOutput) :
    Rel Grow (execCall env i p s f args out) := by
  unfold execCall
  apply rel_bind GP
  · exact rel_joinable GP (rel_onError GP (rel_readER GP _) (grow_callSetErrors i none)) grow_inc
  · intro r
    split
    · exact rel_pure GP _
    · apply rel_bind GP
      · exact rel_joinable GP (rel_onError GP (grow_resolvedExecute _ _ _ _ _) (grow_callSetErrors i _)) grow_inc
      · intro _; exact rel_pure GP _

theorem grow_failWithErrorObject (v : JVal) (t : Option Tetraplet) (p : Provenance) : Rel Grow (failWithErrorObject v t p) := by
  unfold failWithErrorObject
  apply rel_bind GP
  · apply rel_modifyCtx; intro c; sameobs
  · intro _; exact rel_throwE GP _

theorem grow_execFail (arg : FailArg) : Rel Grow (execFail arg) := by
  unfold execFail
  apply rel_bind GP (rel_readER GP _); intro r
  split
  · unfold execFailError
    apply rel_bind GP (rel_readCtx GP _); intro orig
    apply rel_bind GP (rel_tryM (grow_failWithErrorObject _ _ _)); intro res
    apply rel_bind GP
    · apply rel_modifyCtx; intro c; sameobs
    · intro _; split
      · exact rel_throwE GP _
      · exact rel_reraise GP _
  · exact grow_failWithErrorObject _ _ _

theorem grow_setScalar (name : String) (v : ValueAggregate) : Rel Grow (setScalar name v) := by
  unfold setScalar
  exact rel_modifyER GP fun c c' h => (sameObs_withScalars h).grow

theorem grow_execAp (arg : Value) (out : CallOutput) : Rel Grow (execAp arg out) := by
  unfold execAp
  split
  · apply rel_bind GP (rel_joinable GP (rel_readER GP _) grow_inc); intro r
    split
    · exact rel_pure GP _
    · exact grow_setScalar _ _
  · exact rel_throwE GP _

theorem grow_xorEnterRight (e : CatchableErr) (c : Ctx) : Grow c (xorEnterRight e c) := by
  unfold xorEnterRight; sameobs

theorem grow_xorLeaveRight (b : Bool) (c : Ctx) : Grow c (xorLeaveRight b c) := by
  unfold xorLeaveRight
  refine SameObs.grow ⟨?_, ?_, ?_, ?_, ?_⟩ <;> (simp only []; split <;> split <;> rfl)

/-- the primitives of the executor preserve `Grow` -/
theorem grow_prims : ExecPrims Grow where
  pre := grow_preorder
  ctl := fun c c' h => SameObs.grow ⟨h.me, h.init, h.reqs, h.lcid, h.next⟩
  thCallStart := fun c _ th' _ => grow_th c th'
  thParStart := fun c th' _ => grow_th c th'
  thParEnd := fun c _ th' _ => grow_th c th'
  pushRequest := fun c _ => grow_th c _
  failedService := by intro env t ah sr c; unfold updFailedService; sameobs
  serviceResult := by
    intro env result t ah out c c' h
    unfold updServiceResult at h
    obtain ⟨⟨cr, c1⟩, h1, h2⟩ := res_bind_ok'' h
    injection h2 with h2; subst h2
    have h1' := sameObs_populateFromPeerServiceResult _ _ _ _ _ _ _ _ _ h1
    refine SameObs.grow ⟨?_, ?_, ?_, ?_, ?_⟩ <;> simp [h1'.me, h1'.init, h1'.reqs, h1'.lcid, h1'.next]
  prevFailed := by intro t cid c; unfold updPrevFailed; sameobs
  dropResult := by intro key c; unfold updDropResult; sameobs
  prevExecutedBind := fun env c value ah t pos out src c' h => (sameObs_populateFromData _ _ _ _ _ _ _ _ _ h).grow
  prevExecuted := by
    intro t value c
    unfold updPrevExecuted
    refine SameObs.grow ⟨?_, ?_, ?_, ?_, ?_⟩ <;> (simp only []; split <;> simp)
  issue := fun t args c c' ht h => grow_issueRequest t args c c' ht h
  remote := by
    intro t c hne
    unfold updRemoteCall
    refine ⟨rfl, rfl, ⟨[], by simp [numbered], by simp, by simp⟩, ⟨[t.peerPk], rfl, ?_⟩⟩
    intro p hp
    simp at hp; subst hp
    exact hne
  streamUpd := fun c c' h => h.sameObs.grow
  thApStart := fun c _ th' _ => grow_th c th'
  pushAp := fun c => grow_th c _
  thCanonStart := fun c _ th' _ => grow_th c th'
  canonTrack := by
    intro env target stream pos peerId c
    unfold updCanonTrack
    exact SameObs.grow ⟨rfl, rfl, rfl, rfl, rfl⟩
  canonFinish := by
    intro name cs cid reg c c' h
    unfold updCanonFinish at h
    obtain ⟨sc, _, h2⟩ := res_bind_ok'' h
    injection h2 with h2; subst h2
    unfold Ctx.recordCanonCid
    refine SameObs.grow ⟨?_, ?_, ?_, ?_, ?_⟩ <;> (simp only []; split <;> rfl)
  canonPushRequest := fun c _ => SameObs.grow ⟨rfl, rfl, rfl, rfl, rfl⟩
  canonRemote := by
    intro c peerId hne
    refine ⟨rfl, rfl, ⟨[], by simp [numbered], by simp, by simp⟩, ⟨[peerId], rfl, ?_⟩⟩
    intro p hp
    simp at hp; subst hp
    exact hne
  foldCount := fun c => SameObs.grow ⟨rfl, rfl, rfl, rfl, rfl⟩
  thFoldOp := fun c th' _ => grow_th c th'
  scopeEnd := by
    intro name c c' h
    unfold Ctx.streamScopeEnd at h
    split at h
    · cases h
    · split at h
      · cases h
      · split at h
        · injection h with h; subst h; exact SameObs.grow ⟨rfl, rfl, rfl, rfl, rfl⟩
        · cases h
        · cases h

/-- **Main invariant**: for every fuel, script and context, executing the script relates the initial and
the final context by `Grow`, whether the execution succeeds, fails or panics. -/
theorem exec_grow (env : Env) (fuel : Nat) (i : Instr) : Rel Grow (exec env fuel i) :=
  exec_rel grow_prims env fuel i

end AquaProps
