import Aqua.Codec.Sede
import AquaProps.Lemmas.VarintU32
import AquaProps.Lemmas.MsgPack
set_option linter.unusedSimpArgs false
/-!
Typed layer of the codecs (`Aqua.Codec.Sede`): the typed readers undo the typed writers.
-/
namespace AquaProps.Lemmas.Sede
open Aqua Aqua.Sede Aqua.MsgPack
open AquaProps.Lemmas.MsgPack (WF WFList WFPairs)

/-! ## strings -/

theorem bytesToString_strBytes (s : String) : bytesToString (strBytes s) = some s := by
  unfold bytesToString strBytes
  have h : (ByteArray.mk s.toUTF8.data.toList.toArray) = s.toUTF8 := by simp
  rw [h]
  unfold String.fromUTF8?
  have hv : s.toUTF8.IsValidUTF8 := s.isValidUTF8
  rw [dif_pos hv]
  rfl

theorem deString_str (s : String) : deString (.str (strBytes s)) = some s := bytesToString_strBytes s
theorem deStrOnly_str (s : String) : deStrOnly (.str (strBytes s)) = some s := bytesToString_strBytes s

theorem deVersion_str (s : String) (v : Semver.Version) (h : Semver.parse s.toList = some v) :
    deVersion (.str (strBytes s)) = some v := by
  simp [deVersion, deStrOnly_str, h]

/-! ## multiformat -/

theorem decodeMultiformat_encodeMultiformat {α : Type} (codec : Nat) (hc : codec < 2 ^ 32) (fromSlice : Bytes → Option α)
    (payload : Bytes) :
    decodeMultiformat codec fromSlice (encodeMultiformat codec payload) =
      match fromSlice payload with
      | some v => .ok v
      | none => .error .format := by
  unfold decodeMultiformat encodeMultiformat
  rw [Varint.encodeU32_roundtrip codec hc payload]
  simp only [ne_eq, not_true_eq_false, if_false]
  cases fromSlice payload <;> rfl

theorem decodeMultiformat_other_codec {α : Type} (codec expected : Nat) (hc : codec < 2 ^ 32) (hne : codec ≠ expected)
    (fromSlice : Bytes → Option α) (payload : Bytes) :
    decodeMultiformat expected fromSlice (encodeMultiformat codec payload) = .error (.codec codec) := by
  simp [decodeMultiformat, encodeMultiformat, Varint.encodeU32_roundtrip codec hc payload, hne]

/-! ## rmp_serde on a written value -/

theorem rmpParse_rmpWrite (v : Val) (hv : WF v) (hd : depth v < maxDepth) (rest : Bytes) :
    rmpParse (rmpWrite v ++ rest) = some v := by
  simp [rmpParse, rmpWrite, MsgPack.decodeAll_encode v hv rest, hd]

theorem rmpParse_rmpWrite' (v : Val) (hv : WF v) (hd : depth v < maxDepth) : rmpParse (rmpWrite v) = some v := by
  have := rmpParse_rmpWrite v hv hd []
  simpa using this

/-! ## derived structs (concrete field tables: by evaluation) -/

theorem deStruct_req (a b c d : Val) :
    deStruct Gen.callRequestParamsFieldBytes (structVal Gen.callRequestParamsFieldBytes [a, b, c, d]) = some [a, b, c, d] := rfl
theorem deStruct_res (a b : Val) :
    deStruct Gen.callServiceResultFieldBytes (structVal Gen.callServiceResultFieldBytes [a, b]) = some [a, b] := rfl
theorem deStruct_tet (a b c d : Val) :
    deStruct Gen.securityTetrapletFieldBytes (structVal Gen.securityTetrapletFieldBytes [a, b, c, d]) = some [a, b, c, d] := rfl
theorem deStruct_ver (a b c : Val) :
    deStruct Gen.versionsFieldBytes (structVal (Gen.versionsFieldBytes ++ Gen.envelopeFieldBytes) [a, b, c]) = some [a, b] := rfl

theorem deCallRequestParams_toVal (p : CallRequestParams) : deCallRequestParams p.toVal = some p := by
  simp [deCallRequestParams, CallRequestParams.toVal, deStruct_req, deString_str, deByteBuf]

theorem deCallServiceResult_toVal (r : CallServiceResult) (h : -(2 ^ 31) ≤ r.retCode ∧ r.retCode < 2 ^ 31) :
    deCallServiceResult r.toVal = some r := by
  have h' : -2147483648 ≤ r.retCode ∧ r.retCode < 2147483648 := by omega
  simp [deCallServiceResult, CallServiceResult.toVal, deStruct_res, deString_str, deI32, h']

theorem deTetraplet_toVal (t : Tetraplet) : deTetraplet t.toVal = some t := by
  simp [deTetraplet, Tetraplet.toVal, deStruct_tet, deString_str]

/-! ## hash maps -/

theorem insertKV_fresh {κ β : Type} [BEq κ] [LawfulBEq κ] (k : κ) (v : β) (acc : List (κ × β))
    (h : k ∉ acc.map Prod.fst) : insertKV k v acc = acc ++ [(k, v)] := by
  induction acc with
  | nil => rfl
  | cons e rest ih =>
    obtain ⟨k', v'⟩ := e
    simp only [List.map_cons, List.mem_cons, not_or] at h
    have hne : (k' == k) = false := by
      rw [beq_eq_false_iff_ne]; exact fun e => h.1 e.symm
    simp [insertKV, hne, ih h.2]

theorem deEntries_encoded {κ β : Type} [BEq κ] [LawfulBEq κ] (deK : Val → Option κ) (deV : Val → Option β)
    (encK : κ → Val) (encV : β → Val) (m : List (κ × β)) :
    ∀ (acc : List (κ × β)),
    (∀ e ∈ m, deK (encK e.1) = some e.1 ∧ deV (encV e.2) = some e.2) →
    ((acc ++ m).map Prod.fst).Nodup →
    deEntries deK deV (m.map fun e => (encK e.1, encV e.2)) acc = some (acc ++ m) := by
  induction m with
  | nil => intro acc _ _; simp [deEntries]
  | cons e rest ih =>
    intro acc hde hnd
    obtain ⟨k, v⟩ := e
    have h1 := hde (k, v) (by simp)
    simp only [List.map_cons, deEntries, h1.1, h1.2]
    have hfresh : k ∉ acc.map Prod.fst := by
      intro hmem
      rw [List.map_append, List.map_cons] at hnd
      have := (List.nodup_append.mp hnd).2.2 k hmem k (by simp)
      exact this rfl
    rw [insertKV_fresh k v acc hfresh]
    have := ih (acc ++ [(k, v)]) (fun e he => hde e (List.mem_cons_of_mem _ he)) (by simpa [List.append_assoc] using hnd)
    simpa [List.append_assoc] using this

/-! ## well-formedness and depth of the typed layouts -/

theorem wf_structVal4 (f : List Bytes) (a b c d : Val) (hf : ∀ x ∈ f, x.length < 2 ^ 32)
    (ha : WF a) (hb : WF b) (hc : WF c) (hd : WF d) : WF (structVal f [a, b, c, d]) := by
  match f with
  | [] => simp [structVal, WF, WFPairs]
  | [f1] => simp [structVal, WF, WFPairs, ha, hf]
  | [f1, f2] => simp [structVal, WF, WFPairs, ha, hb]; exact ⟨hf f1 (by simp), hf f2 (by simp)⟩
  | [f1, f2, f3] =>
    simp [structVal, WF, WFPairs, ha, hb, hc]; exact ⟨hf f1 (by simp), hf f2 (by simp), hf f3 (by simp)⟩
  | f1 :: f2 :: f3 :: f4 :: rest =>
    simp [structVal, WF, WFPairs, ha, hb, hc, hd]
    exact ⟨hf f1 (by simp), hf f2 (by simp), hf f3 (by simp), hf f4 (by simp)⟩

theorem wf_req (p : CallRequestParams) (h1 : (strBytes p.serviceId).length < 2 ^ 32)
    (h2 : (strBytes p.functionName).length < 2 ^ 32) (h3 : p.arguments.length < 2 ^ 32) (h4 : p.tetraplets.length < 2 ^ 32) :
    WF p.toVal := by
  simp [CallRequestParams.toVal, structVal, Gen.callRequestParamsFieldBytes, WF, WFPairs, h1, h2, h3, h4]

theorem wf_res (r : CallServiceResult) (h1 : -(2 ^ 31) ≤ r.retCode ∧ r.retCode < 2 ^ 31)
    (h2 : (strBytes r.result).length < 2 ^ 32) : WF r.toVal := by
  simp [CallServiceResult.toVal, structVal, Gen.callServiceResultFieldBytes, WF, WFPairs, h2]
  omega

theorem wf_tet (t : Tetraplet) (h1 : (strBytes t.peerPk).length < 2 ^ 32) (h2 : (strBytes t.serviceId).length < 2 ^ 32)
    (h3 : (strBytes t.functionName).length < 2 ^ 32) (h4 : (strBytes t.lens).length < 2 ^ 32) : WF t.toVal := by
  simp [Tetraplet.toVal, structVal, Gen.securityTetrapletFieldBytes, WF, WFPairs, h1, h2, h3, h4]

theorem depth_req (p : CallRequestParams) : depth p.toVal = 1 := by
  simp [CallRequestParams.toVal, structVal, Gen.callRequestParamsFieldBytes, depth, depthPairs]
theorem depth_res (r : CallServiceResult) : depth r.toVal = 1 := by
  simp [CallServiceResult.toVal, structVal, Gen.callServiceResultFieldBytes, depth, depthPairs]
theorem depth_tet (t : Tetraplet) : depth t.toVal = 1 := by
  simp [Tetraplet.toVal, structVal, Gen.securityTetrapletFieldBytes, depth, depthPairs]

theorem wfPairs_map {α : Type} (f : α → Val × Val) (l : List α) (h : ∀ x ∈ l, WF (f x).1 ∧ WF (f x).2) :
    WFPairs (l.map f) := by
  induction l with
  | nil => simp [WFPairs]
  | cons x xs ih =>
    have hx := h x (by simp)
    simp only [List.map_cons]
    cases hfx : f x with
    | mk k v =>
      rw [hfx] at hx
      exact ⟨hx.1, hx.2, ih fun y hy => h y (List.mem_cons_of_mem _ hy)⟩

theorem wfList_map {α : Type} (f : α → Val) (l : List α) (h : ∀ x ∈ l, WF (f x)) : WFList (l.map f) := by
  induction l with
  | nil => simp [WFList]
  | cons x xs ih => exact ⟨h x (by simp), ih fun y hy => h y (List.mem_cons_of_mem _ hy)⟩

theorem depthPairs_map_le {α : Type} (f : α → Val × Val) (l : List α) (n : Nat)
    (h : ∀ x ∈ l, depth (f x).1 ≤ n ∧ depth (f x).2 ≤ n) : depthPairs (l.map f) ≤ n := by
  induction l with
  | nil => simp [depthPairs]
  | cons x xs ih =>
    have hx := h x (by simp)
    have := ih fun y hy => h y (List.mem_cons_of_mem _ hy)
    simp only [List.map_cons]
    cases hfx : f x with
    | mk k v =>
      rw [hfx] at hx
      simp only at hx
      simp only [depthPairs]; omega

theorem depthList_map_le {α : Type} (f : α → Val) (l : List α) (n : Nat) (h : ∀ x ∈ l, depth (f x) ≤ n) :
    depthList (l.map f) ≤ n := by
  induction l with
  | nil => simp [depthList]
  | cons x xs ih =>
    have hx := h x (by simp)
    have := ih fun y hy => h y (List.mem_cons_of_mem _ hy)
    simp only [List.map_cons, depthList]; omega

theorem mapM_map_some {α β : Type} (enc : α → β) (dec : β → Option α) (l : List α) (h : ∀ x ∈ l, dec (enc x) = some x) :
    (l.map enc).mapM dec = some l := by
  induction l with
  | nil => rfl
  | cons x xs ih =>
    simp [List.mapM_cons, h x (by simp), ih fun y hy => h y (List.mem_cons_of_mem _ hy)]

end AquaProps.Lemmas.Sede
