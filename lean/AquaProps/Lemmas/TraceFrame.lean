import Aqua.Trace.Handler
/-!
Frame lemmas for the trace-handler model: what each `meet_*` transition used by the stream-free
executor does to the *result trace* and to the stack of open `par`s — for every handler state
(nothing is assumed about the sliders or the previous/current traces).
-/
namespace AquaProps
open Aqua Aqua.Data Aqua.Trace

theorem res_bind_ok {ε α β : Type} {x : Res ε α} {f : α → Res ε β} {b : β} (h : x.bind f = .ok b) :
    ∃ a, x = .ok a ∧ f a = .ok b := by
  cases x with
  | ok a => exact ⟨a, rfl, h⟩
  | error e => cases h
  | panic s => cases h

theorem res_bind_ok' {ε α β : Type} {x : Res ε α} {f : α → Res ε β} {b : β} (h : (x >>= f) = .ok b) :
    ∃ a, x = .ok a ∧ f a = .ok b := res_bind_ok h

theorem mapErr_ok {ε ε' α : Type} {f : ε → ε'} {x : Res ε α} {a : α} (h : x.mapErr f = .ok a) : x = .ok a := by
  cases x with
  | ok b => simp [Res.mapErr] at h; subst h; rfl
  | error e => cases h
  | panic s => cases h

theorem preparePositionsMapping_trace {scheme : PreparationScheme} {k k' : DataKeeper}
    (h : preparePositionsMapping scheme k = .ok k') : k'.resultTrace = k.resultTrace := by
  unfold preparePositionsMapping at h
  cases scheme with
  | previous =>
    obtain ⟨p, _, h2⟩ := res_bind_ok' h
    cases h2; rfl
  | current =>
    obtain ⟨p, _, h2⟩ := res_bind_ok' h
    cases h2; rfl
  | both =>
    obtain ⟨p, _, h2⟩ := res_bind_ok' h
    obtain ⟨q, _, h3⟩ := res_bind_ok' h2
    cases h3; rfl

theorem nextStates_trace (k : DataKeeper) : (nextStates k).2.2.resultTrace = k.resultTrace := rfl

theorem prepareCallResult_trace {r : CallResult} {scheme : PreparationScheme} {k k' : DataKeeper} {m : MergerCallResult}
    (h : prepareCallResult r scheme k = .ok (m, k')) : k'.resultTrace = k.resultTrace := by
  unfold prepareCallResult at h
  obtain ⟨k1, h1, h2⟩ := res_bind_ok' h
  cases h2
  exact preparePositionsMapping_trace h1

theorem tryMergeNextStateAsCall_trace {k k' : DataKeeper} {m : MergerCallResult}
    (h : tryMergeNextStateAsCall k = .ok (m, k')) : k'.resultTrace = k.resultTrace := by
  unfold tryMergeNextStateAsCall at h
  simp only at h
  split at h
  · split at h
    · exact (prepareCallResult_trace h).trans (nextStates_trace k)
    · cases h
    · cases h
  · exact (prepareCallResult_trace h).trans (nextStates_trace k)
  · exact (prepareCallResult_trace h).trans (nextStates_trace k)
  · cases h; rfl
  · cases h

/-- `meet_call_start` leaves the result trace and the open pars alone -/
theorem meetCallStart_frame {h h' : TraceHandler} {m : MergerCallResult} (hm : h.meetCallStart = .ok (m, h')) :
    h'.keeper.resultTrace = h.keeper.resultTrace ∧ h'.parStack = h.parStack := by
  unfold TraceHandler.meetCallStart at hm
  obtain ⟨⟨r, k⟩, h1, h2⟩ := res_bind_ok' hm
  cases h2
  exact ⟨tryMergeNextStateAsCall_trace h1, rfl⟩

theorem updateCtxStates_trace {p : CtxStatesPair} {k k' : DataKeeper} (h : updateCtxStates p k = .ok k') :
    k'.resultTrace = k.resultTrace := by
  unfold updateCtxStates at h
  simp only at h
  obtain ⟨ps, _, h2⟩ := res_bind_ok' h
  obtain ⟨cs, _, h3⟩ := res_bind_ok' h2
  cases h3; rfl

theorem parPrepareSliders_trace {f : ParFSM} {t : SubgraphType} {k k' : DataKeeper} (h : parPrepareSliders f t k = .ok k') :
    k'.resultTrace = k.resultTrace := by
  unfold parPrepareSliders at h
  cases t <;>
  · simp only at h
    obtain ⟨ps, _, h2⟩ := res_bind_ok' h
    obtain ⟨cs, _, h3⟩ := res_bind_ok' h2
    cases h3; rfl

theorem tryMergeNextStateAsPar_trace {k k' : DataKeeper} {a b : ParResult}
    (h : tryMergeNextStateAsPar k = .ok (a, b, k')) : k'.resultTrace = k.resultTrace := by
  unfold tryMergeNextStateAsPar at h
  simp only at h
  split at h <;> first | (cases h; rfl) | cases h

theorem fromLeftStarted_frame {pp cp : ParResult} {k k' : DataKeeper} {f : ParFSM}
    (h : ParFSM.fromLeftStarted pp cp k = .ok (f, k')) :
    k'.resultTrace = k.resultTrace ++ [.par 0 0] ∧ f.inserterPos = k.resultTrace.length := by
  unfold ParFSM.fromLeftStarted at h
  simp only at h
  obtain ⟨lp, _, h⟩ := res_bind_ok' h
  obtain ⟨lc, _, h⟩ := res_bind_ok' h
  obtain ⟨rp, _, h⟩ := res_bind_ok' h
  obtain ⟨rc, _, h⟩ := res_bind_ok' h
  obtain ⟨k2, h1, h⟩ := res_bind_ok' h
  cases h
  exact ⟨parPrepareSliders_trace h1, rfl⟩

/-- `meet_par_start` appends the placeholder and opens a par whose inserter points at it -/
theorem meetParStart_frame {h h' : TraceHandler} (hm : h.meetParStart = .ok h') :
    h'.keeper.resultTrace = h.keeper.resultTrace ++ [.par 0 0] ∧
    ∃ f, h'.parStack = f :: h.parStack ∧ f.inserterPos = h.keeper.resultTrace.length := by
  unfold TraceHandler.meetParStart at hm
  obtain ⟨⟨pp, cp, k⟩, h1, h2⟩ := res_bind_ok' hm
  obtain ⟨⟨f, k2⟩, h3, h4⟩ := res_bind_ok' h2
  cases h4
  obtain ⟨ht, hp⟩ := fromLeftStarted_frame h3
  have := tryMergeNextStateAsPar_trace h1
  exact ⟨by rw [ht, this], f, rfl, by rw [hp, this]⟩

theorem leftCompleted_frame {f f' : ParFSM} {k k' : DataKeeper} (h : f.leftCompleted k = .ok (f', k')) :
    k'.resultTrace = k.resultTrace ∧ f'.inserterPos = f.inserterPos := by
  unfold ParFSM.leftCompleted at h
  simp only at h
  obtain ⟨k1, h1, h⟩ := res_bind_ok' h
  have t1 := updateCtxStates_trace h1
  split at h
  · rename_i k2 h2
    cases h
    exact ⟨(parPrepareSliders_trace h2).trans t1, by unfold ParFSM.track; simp⟩
  · split at h
    · cases h; exact ⟨t1, by unfold ParFSM.track; simp⟩
    · cases h; exact ⟨t1, by unfold ParFSM.track; simp⟩
    · cases h
  · cases h

theorem rightCompleted_frame {f : ParFSM} {k k' : DataKeeper} (h : f.rightCompleted k = .ok k') :
    ∃ l r, k'.resultTrace = k.resultTrace.set f.inserterPos (.par l r) := by
  unfold ParFSM.rightCompleted at h
  simp only at h
  have := updateCtxStates_trace h
  refine ⟨truncU32 (f.track k .right).leftSize, truncU32 (f.track k .right).rightSize, ?_⟩
  rw [this]
  have hp : (f.track k .right).inserterPos = f.inserterPos := by unfold ParFSM.track; simp
  simp only [setAt, hp]

/-- `meet_par_subgraph_end`: the left end changes neither the trace nor the inserter; the right end
overwrites the inserter position with the final `par` sizes and closes the par -/
theorem meetParSubgraphEnd_frame {h h' : TraceHandler} {t : SubgraphType} (hm : h.meetParSubgraphEnd t = .ok h') :
    ∃ f rest, h.parStack = f :: rest ∧
      ((t = .left ∧ h'.keeper.resultTrace = h.keeper.resultTrace ∧ ∃ f', h'.parStack = f' :: rest ∧ f'.inserterPos = f.inserterPos) ∨
       (t = .right ∧ h'.parStack = rest ∧ ∃ l r, h'.keeper.resultTrace = h.keeper.resultTrace.set f.inserterPos (.par l r))) := by
  unfold TraceHandler.meetParSubgraphEnd at hm
  split at hm
  · cases hm
  · rename_i f rest hs
    refine ⟨f, rest, hs, ?_⟩
    cases t with
    | left =>
      left
      simp only at hm
      obtain ⟨⟨f', k⟩, h1, h2⟩ := res_bind_ok' hm
      cases h2
      obtain ⟨ht, hp⟩ := leftCompleted_frame h1
      exact ⟨rfl, ht, f', rfl, hp⟩
    | right =>
      right
      simp only at hm
      obtain ⟨k, h1, h2⟩ := res_bind_ok' hm
      cases h2
      obtain ⟨l, r, ht⟩ := rightCompleted_frame h1
      exact ⟨rfl, rfl, l, r, ht⟩


/-! ## a uniform description of what a trace-handler transition does to the result trace -/

/-- entries that carry no content id: the placeholders / final forms of `par` and `fold` -/
def Neutral : ExecutedState → Prop
  | .par _ _ => True
  | .fold _ => True
  | _ => False

/-- positions reserved by the open pars and folds (their `StateInserter`s) -/
def inserters (h : TraceHandler) : List Nat := h.parStack.map (·.inserterPos) ++ h.foldMap.map (·.2.inserterPos)

/-- what a transition may do: nothing, reserve a new placeholder at the end, or fill a reserved position
with a neutral entry; the set of reserved positions only changes accordingly -/
inductive TraceStep (h h' : TraceHandler) : Prop where
  | same (ht : h'.keeper.resultTrace = h.keeper.resultTrace) (hi : ∀ p ∈ inserters h', p ∈ inserters h)
  | reserve (ht : h'.keeper.resultTrace = h.keeper.resultTrace ++ [.par 0 0])
      (hi : ∀ p ∈ inserters h', p ∈ inserters h ∨ p = h.keeper.resultTrace.length)
  | fill (p : Nat) (st : ExecutedState) (hp : p ∈ inserters h) (hn : Neutral st)
      (ht : h'.keeper.resultTrace = h.keeper.resultTrace.set p st) (hi : ∀ q ∈ inserters h', q ∈ inserters h)

theorem mem_inserters_par {h : TraceHandler} {f : ParFSM} (hf : f ∈ h.parStack) : f.inserterPos ∈ inserters h :=
  List.mem_append_left _ (List.mem_map.mpr ⟨f, hf, rfl⟩)

theorem step_meetCallStart {h h' : TraceHandler} {m : MergerCallResult} (hm : h.meetCallStart = .ok (m, h')) : TraceStep h h' := by
  unfold TraceHandler.meetCallStart at hm
  obtain ⟨⟨r, k⟩, h1, h2⟩ := res_bind_ok' hm
  cases h2
  exact .same (tryMergeNextStateAsCall_trace h1) (fun p hp => hp)

theorem prepareApMergeResult_trace {g : List Nat} {scheme : PreparationScheme} {k k' : DataKeeper} {m : MergerApResult}
    (h : prepareApMergeResult g scheme k = .ok (m, k')) : k'.resultTrace = k.resultTrace := by
  unfold prepareApMergeResult at h
  obtain ⟨k1, h1, h2⟩ := res_bind_ok' h
  split at h2
  · cases h2; exact preparePositionsMapping_trace h1
  · cases h2

theorem step_meetApStart {h h' : TraceHandler} {m : MergerApResult} (hm : h.meetApStart = .ok (m, h')) : TraceStep h h' := by
  unfold TraceHandler.meetApStart at hm
  obtain ⟨⟨r, k⟩, h1, h2⟩ := res_bind_ok' hm
  cases h2
  refine .same ?_ (fun p hp => hp)
  unfold tryMergeNextStateAsAp at h1
  simp only at h1
  split at h1
  · exact (prepareApMergeResult_trace h1).trans (nextStates_trace _)
  · exact (prepareApMergeResult_trace h1).trans (nextStates_trace _)
  · exact (prepareApMergeResult_trace h1).trans (nextStates_trace _)
  · cases h1; rfl
  · cases h1

theorem step_meetCanonStart {h h' : TraceHandler} {m : MergerCanonResult} (hm : h.meetCanonStart = .ok (m, h')) : TraceStep h h' := by
  unfold TraceHandler.meetCanonStart at hm
  obtain ⟨⟨r, k⟩, h1, h2⟩ := res_bind_ok' hm
  cases h2
  refine .same ?_ (fun p hp => hp)
  unfold tryMergeNextStateAsCanon at h1
  simp only at h1
  split at h1
  · split at h1
    · cases h1; rfl
    · cases h1
    · cases h1
  · cases h1; rfl
  · cases h1; rfl
  · cases h1; rfl
  · cases h1

theorem step_meetParStart {h h' : TraceHandler} (hm : h.meetParStart = .ok h') : TraceStep h h' := by
  obtain ⟨ht, f, hp, hpos⟩ := meetParStart_frame hm
  have hfm : h'.foldMap = h.foldMap := by
    unfold TraceHandler.meetParStart at hm
    obtain ⟨⟨pp, cp, k⟩, _, h2⟩ := res_bind_ok' hm
    obtain ⟨⟨f', k2⟩, _, h4⟩ := res_bind_ok' h2
    cases h4; rfl
  refine .reserve ht ?_
  intro p hp'
  unfold inserters at hp' ⊢
  rw [hp, hfm] at hp'
  simp only [List.map_cons, List.cons_append, List.mem_cons] at hp'
  rcases hp' with rfl | hp'
  · exact Or.inr hpos
  · exact Or.inl hp'

theorem step_meetParSubgraphEnd {h h' : TraceHandler} {t : SubgraphType} (hm : h.meetParSubgraphEnd t = .ok h') : TraceStep h h' := by
  have hfm : h'.foldMap = h.foldMap := by
    unfold TraceHandler.meetParSubgraphEnd at hm
    split at hm
    · cases hm
    · cases t
      · simp only at hm; obtain ⟨⟨f', k⟩, _, h2⟩ := res_bind_ok' hm; cases h2; rfl
      · simp only at hm; obtain ⟨k, _, h2⟩ := res_bind_ok' hm; cases h2; rfl
  obtain ⟨f, rest, hs, hcase⟩ := meetParSubgraphEnd_frame hm
  rcases hcase with ⟨_, ht, f', hp, hpos⟩ | ⟨_, hp, l, r, ht⟩
  · refine .same ht ?_
    intro p hp'
    unfold inserters at hp' ⊢
    rw [hp, hfm] at hp'; rw [hs]
    simpa [hpos] using hp'
  · refine .fill f.inserterPos (.par l r) (mem_inserters_par (by rw [hs]; exact List.mem_cons_self)) trivial ht ?_
    intro p hp'
    unfold inserters at hp' ⊢
    rw [hp, hfm] at hp'; rw [hs]
    simp only [List.map_cons, List.cons_append, List.mem_cons]
    exact Or.inr hp'

/-! ### fold transitions -/

theorem applyFoldLore_trace {k k' : DataKeeper} {pl cl : Option ResolvedSubTraceDescs} {w : ByNextPosition}
    (h : applyFoldLore k pl cl w = .ok k') : k'.resultTrace = k.resultTrace := by
  unfold applyFoldLore at h
  obtain ⟨ps, _, h2⟩ := res_bind_ok' h
  obtain ⟨cs, _, h3⟩ := res_bind_ok' h2
  cases h3; rfl

theorem setFold_inserters_sub (h : TraceHandler) (id : Nat) (f g : FoldFSM) (hg : h.foldMap.find? (fun x => x.1 == id) = some (id, g))
    (hpos : f.inserterPos = g.inserterPos) : ∀ p ∈ inserters (h.setFold id f), p ∈ inserters h := by
  intro p hp
  unfold inserters TraceHandler.setFold at hp
  unfold inserters
  simp only [List.mem_append, List.mem_map] at hp ⊢
  rcases hp with hp | ⟨x, hx, rfl⟩
  · exact Or.inl hp
  · right
    obtain ⟨y, hy, rfl⟩ := hx
    obtain ⟨i, g'⟩ := y
    by_cases hi : (i == id) = true
    · simp only [hi, if_true]
      have hm := List.mem_of_find?_eq_some hg
      exact ⟨(id, g), hm, by simp [hpos]⟩
    · simp only [hi]
      exact ⟨(i, g'), hy, rfl⟩

theorem foldMut_find {h : TraceHandler} {id : Nat} {f : FoldFSM} (hf : h.foldMut id = .ok f) :
    ∃ j, h.foldMap.find? (fun x => x.1 == id) = some (j, f) ∧ j = id := by
  unfold TraceHandler.foldMut at hf
  split at hf
  · rename_i j g hfind
    cases hf
    have := List.find?_some hfind
    exact ⟨j, hfind, by simpa using this⟩
  · cases hf

theorem step_meetFoldStart {h h' : TraceHandler} {id : Nat} (hm : h.meetFoldStart id = .ok h') : TraceStep h h' := by
  unfold TraceHandler.meetFoldStart at hm
  obtain ⟨⟨pf, cf, k⟩, h1, h2⟩ := res_bind_ok' hm
  obtain ⟨⟨f, k2⟩, h3, h4⟩ := res_bind_ok' h2
  cases h4
  have t1 : k.resultTrace = h.keeper.resultTrace := by
    unfold tryMergeNextStateAsFold at h1
    simp only at h1
    split at h1
    · obtain ⟨a, _, h5⟩ := res_bind_ok' h1
      obtain ⟨b, _, h6⟩ := res_bind_ok' h5
      cases h6; rfl
    · obtain ⟨a, _, h5⟩ := res_bind_ok' h1
      cases h5; rfl
    · obtain ⟨a, _, h5⟩ := res_bind_ok' h1
      cases h5; rfl
    · cases h1; rfl
    · cases h1
  unfold FoldFSM.fromFoldStart at h3
  simp only at h3
  obtain ⟨ps, _, h5⟩ := res_bind_ok' h3
  obtain ⟨cs, _, h6⟩ := res_bind_ok' h5
  cases h6
  refine .reserve (by simp [t1]) ?_
  intro p hp
  unfold inserters at hp ⊢
  simp only [List.map_cons, List.mem_append, List.mem_cons, List.mem_map] at hp ⊢
  rcases hp with hp | hp | ⟨x, hx, rfl⟩
  · exact Or.inl (Or.inl hp)
  · right; rw [hp]; simp [DataKeeper.resultTraceNextPos, t1]
  · exact Or.inl (Or.inr ⟨x, (List.mem_filter.mp hx).1, rfl⟩)

theorem step_foldUpdate {h h' : TraceHandler} {id : Nat} {f f' : FoldFSM} {k' : DataKeeper}
    (hf : h.foldMut id = .ok f) (hh : h' = ({ h with keeper := k' }).setFold id f')
    (ht : k'.resultTrace = h.keeper.resultTrace) (hpos : f'.inserterPos = f.inserterPos) : TraceStep h h' := by
  subst hh
  obtain ⟨j, hfind, rfl⟩ := foldMut_find hf
  refine .same ht ?_
  intro p hp
  have := setFold_inserters_sub { h with keeper := k' } j f' f hfind hpos p hp
  exact this

theorem step_meetIterationStart {h h' : TraceHandler} {id pos : Nat} (hm : h.meetIterationStart id pos = .ok h') : TraceStep h h' := by
  unfold TraceHandler.meetIterationStart at hm
  obtain ⟨f, hf, h2⟩ := res_bind_ok' hm
  obtain ⟨⟨f', k⟩, h3, h4⟩ := res_bind_ok' h2
  cases h4
  unfold FoldFSM.meetIterationStart at h3
  simp only at h3
  obtain ⟨k2, h5, h6⟩ := res_bind_ok' h3
  cases h6
  exact step_foldUpdate hf rfl (applyFoldLore_trace h5) rfl

theorem setCtor_pos (f : FoldFSM) (i : Nat) (c : SubTraceLoreCtor) : (f.setCtor i c).inserterPos = f.inserterPos := rfl

theorem step_meetIterationEnd {h h' : TraceHandler} {id : Nat} (hm : h.meetIterationEnd id = .ok h') : TraceStep h h' := by
  unfold TraceHandler.meetIterationEnd at hm
  obtain ⟨f, hf, h2⟩ := res_bind_ok' hm
  obtain ⟨f', h3, h4⟩ := res_bind_ok' h2
  cases h4
  unfold FoldFSM.meetIterationEnd at h3
  obtain ⟨⟨i, d⟩, _, h5⟩ := res_bind_ok' h3
  cases h5
  exact step_foldUpdate (k' := h.keeper) hf rfl rfl rfl

theorem step_meetGenerationEnd {h h' : TraceHandler} {id : Nat} (hm : h.meetGenerationEnd id = .ok h') : TraceStep h h' := by
  unfold TraceHandler.meetGenerationEnd at hm
  obtain ⟨f, hf, h2⟩ := res_bind_ok' hm
  obtain ⟨f', h3, h4⟩ := res_bind_ok' h2
  cases h4
  unfold FoldFSM.meetGenerationEnd at h3
  simp only at h3
  obtain ⟨lore, _, h5⟩ := res_bind_ok' h3
  cases h5
  exact step_foldUpdate (k' := h.keeper) hf rfl rfl rfl

theorem step_meetBackIterator {h h' : TraceHandler} {id : Nat} (hm : h.meetBackIterator id = .ok h') : TraceStep h h' := by
  unfold TraceHandler.meetBackIterator at hm
  obtain ⟨f, hf, h2⟩ := res_bind_ok' hm
  obtain ⟨⟨f', k⟩, h3, h4⟩ := res_bind_ok' h2
  cases h4
  unfold FoldFSM.meetBackIterator at h3
  obtain ⟨⟨i, d⟩, _, h5⟩ := res_bind_ok' h3
  simp only at h5
  split at h5
  · obtain ⟨k2, h6, h7⟩ := res_bind_ok' h5
    cases h7
    exact step_foldUpdate hf rfl (applyFoldLore_trace h6) rfl
  · obtain ⟨pos, _, h6⟩ := res_bind_ok' h5
    obtain ⟨⟨j, d2⟩, _, h7⟩ := res_bind_ok' h6
    simp only at h7
    obtain ⟨k2, h8, h9⟩ := res_bind_ok' h7
    cases h9
    exact step_foldUpdate hf rfl (applyFoldLore_trace h8) rfl

theorem step_meetFoldEnd {h h' : TraceHandler} {id : Nat} (hm : h.meetFoldEnd id = .ok h') : TraceStep h h' := by
  unfold TraceHandler.meetFoldEnd at hm
  obtain ⟨f, hf, h2⟩ := res_bind_ok' hm
  obtain ⟨k, h3, h4⟩ := res_bind_ok' h2
  cases h4
  obtain ⟨j, hfind, rfl⟩ := foldMut_find hf
  unfold FoldFSM.meetFoldEnd at h3
  simp only at h3
  have ht := updateCtxStates_trace h3
  refine .fill f.inserterPos (.fold f.resultLore) ?_ trivial (by rw [ht]; rfl) ?_
  · unfold inserters
    exact List.mem_append_right _ (List.mem_map.mpr ⟨(j, f), List.mem_of_find?_eq_some hfind, rfl⟩)
  · intro p hp
    unfold inserters at hp ⊢
    simp only [List.mem_append, List.mem_map] at hp ⊢
    rcases hp with hp | ⟨x, hx, rfl⟩
    · exact Or.inl hp
    · exact Or.inr ⟨x, (List.mem_filter.mp hx).1, rfl⟩

end AquaProps
