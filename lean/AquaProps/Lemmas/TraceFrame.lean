import Aqua.Trace.Handler
/-!
Frame lemmas for the trace-handler model: what each `meet_*` transition used by the stream-free
executor does to the *result trace* and to the stack of open `par`s — for every handler state
(nothing is assumed about the sliders or the previous/current traces).
-/
namespace AquaProps
open Aqua Aqua.Data Aqua.Trace

theorem res_bind_ok {ε α β : Type} {x : Res ε α} {f : α → Res ε β} {b : β} (h : x.bind f = .ok b) :
    ∃ a, x = .ok a ∧ f a = .ok b := by
  cases x with
  | ok a => exact ⟨a, rfl, h⟩
  | error e => cases h
  | panic s => cases h

theorem res_bind_ok' {ε α β : Type} {x : Res ε α} {f : α → Res ε β} {b : β} (h : (x >>= f) = .ok b) :
    ∃ a, x = .ok a ∧ f a = .ok b := res_bind_ok h

theorem mapErr_ok {ε ε' α : Type} {f : ε → ε'} {x : Res ε α} {a : α} (h : x.mapErr f = .ok a) : x = .ok a := by
  cases x with
  | ok b => simp [Res.mapErr] at h; subst h; rfl
  | error e => cases h
  | panic s => cases h

theorem preparePositionsMapping_trace {scheme : PreparationScheme} {k k' : DataKeeper}
    (h : preparePositionsMapping scheme k = .ok k') : k'.resultTrace = k.resultTrace := by
  unfold preparePositionsMapping at h
  cases scheme with
  | previous =>
    obtain ⟨p, _, h2⟩ := res_bind_ok' h
    cases h2; rfl
  | current =>
    obtain ⟨p, _, h2⟩ := res_bind_ok' h
    cases h2; rfl
  | both =>
    obtain ⟨p, _, h2⟩ := res_bind_ok' h
    obtain ⟨q, _, h3⟩ := res_bind_ok' h2
    cases h3; rfl

theorem nextStates_trace (k : DataKeeper) : (nextStates k).2.2.resultTrace = k.resultTrace := rfl

theorem prepareCallResult_trace {r : CallResult} {scheme : PreparationScheme} {k k' : DataKeeper} {m : MergerCallResult}
    (h : prepareCallResult r scheme k = .ok (m, k')) : k'.resultTrace = k.resultTrace := by
  unfold prepareCallResult at h
  obtain ⟨k1, h1, h2⟩ := res_bind_ok' h
  cases h2
  exact preparePositionsMapping_trace h1

theorem tryMergeNextStateAsCall_trace {k k' : DataKeeper} {m : MergerCallResult}
    (h : tryMergeNextStateAsCall k = .ok (m, k')) : k'.resultTrace = k.resultTrace := by
  unfold tryMergeNextStateAsCall at h
  simp only at h
  split at h
  · split at h
    · exact (prepareCallResult_trace h).trans (nextStates_trace k)
    · cases h
    · cases h
  · exact (prepareCallResult_trace h).trans (nextStates_trace k)
  · exact (prepareCallResult_trace h).trans (nextStates_trace k)
  · cases h; rfl
  · cases h

/-- `meet_call_start` leaves the result trace and the open pars alone -/
theorem meetCallStart_frame {h h' : TraceHandler} {m : MergerCallResult} (hm : h.meetCallStart = .ok (m, h')) :
    h'.keeper.resultTrace = h.keeper.resultTrace ∧ h'.parStack = h.parStack := by
  unfold TraceHandler.meetCallStart at hm
  obtain ⟨⟨r, k⟩, h1, h2⟩ := res_bind_ok' hm
  cases h2
  exact ⟨tryMergeNextStateAsCall_trace h1, rfl⟩

theorem updateCtxStates_trace {p : CtxStatesPair} {k k' : DataKeeper} (h : updateCtxStates p k = .ok k') :
    k'.resultTrace = k.resultTrace := by
  unfold updateCtxStates at h
  simp only at h
  obtain ⟨ps, _, h2⟩ := res_bind_ok' h
  obtain ⟨cs, _, h3⟩ := res_bind_ok' h2
  cases h3; rfl

theorem parPrepareSliders_trace {f : ParFSM} {t : SubgraphType} {k k' : DataKeeper} (h : parPrepareSliders f t k = .ok k') :
    k'.resultTrace = k.resultTrace := by
  unfold parPrepareSliders at h
  cases t <;>
  · simp only at h
    obtain ⟨ps, _, h2⟩ := res_bind_ok' h
    obtain ⟨cs, _, h3⟩ := res_bind_ok' h2
    cases h3; rfl

theorem tryMergeNextStateAsPar_trace {k k' : DataKeeper} {a b : ParResult}
    (h : tryMergeNextStateAsPar k = .ok (a, b, k')) : k'.resultTrace = k.resultTrace := by
  unfold tryMergeNextStateAsPar at h
  simp only at h
  split at h <;> first | (cases h; rfl) | cases h

theorem fromLeftStarted_frame {pp cp : ParResult} {k k' : DataKeeper} {f : ParFSM}
    (h : ParFSM.fromLeftStarted pp cp k = .ok (f, k')) :
    k'.resultTrace = k.resultTrace ++ [.par 0 0] ∧ f.inserterPos = k.resultTrace.length := by
  unfold ParFSM.fromLeftStarted at h
  simp only at h
  obtain ⟨lp, _, h⟩ := res_bind_ok' h
  obtain ⟨lc, _, h⟩ := res_bind_ok' h
  obtain ⟨rp, _, h⟩ := res_bind_ok' h
  obtain ⟨rc, _, h⟩ := res_bind_ok' h
  obtain ⟨k2, h1, h⟩ := res_bind_ok' h
  cases h
  exact ⟨parPrepareSliders_trace h1, rfl⟩

/-- `meet_par_start` appends the placeholder and opens a par whose inserter points at it -/
theorem meetParStart_frame {h h' : TraceHandler} (hm : h.meetParStart = .ok h') :
    h'.keeper.resultTrace = h.keeper.resultTrace ++ [.par 0 0] ∧
    ∃ f, h'.parStack = f :: h.parStack ∧ f.inserterPos = h.keeper.resultTrace.length := by
  unfold TraceHandler.meetParStart at hm
  obtain ⟨⟨pp, cp, k⟩, h1, h2⟩ := res_bind_ok' hm
  obtain ⟨⟨f, k2⟩, h3, h4⟩ := res_bind_ok' h2
  cases h4
  obtain ⟨ht, hp⟩ := fromLeftStarted_frame h3
  have := tryMergeNextStateAsPar_trace h1
  exact ⟨by rw [ht, this], f, rfl, by rw [hp, this]⟩

theorem leftCompleted_frame {f f' : ParFSM} {k k' : DataKeeper} (h : f.leftCompleted k = .ok (f', k')) :
    k'.resultTrace = k.resultTrace ∧ f'.inserterPos = f.inserterPos := by
  unfold ParFSM.leftCompleted at h
  simp only at h
  obtain ⟨k1, h1, h⟩ := res_bind_ok' h
  have t1 := updateCtxStates_trace h1
  split at h
  · rename_i k2 h2
    cases h
    exact ⟨(parPrepareSliders_trace h2).trans t1, by unfold ParFSM.track; simp⟩
  · split at h
    · cases h; exact ⟨t1, by unfold ParFSM.track; simp⟩
    · cases h; exact ⟨t1, by unfold ParFSM.track; simp⟩
    · cases h
  · cases h

theorem rightCompleted_frame {f : ParFSM} {k k' : DataKeeper} (h : f.rightCompleted k = .ok k') :
    ∃ l r, k'.resultTrace = k.resultTrace.set f.inserterPos (.par l r) := by
  unfold ParFSM.rightCompleted at h
  simp only at h
  have := updateCtxStates_trace h
  refine ⟨truncU32 (f.track k .right).leftSize, truncU32 (f.track k .right).rightSize, ?_⟩
  rw [this]
  have hp : (f.track k .right).inserterPos = f.inserterPos := by unfold ParFSM.track; simp
  simp only [setAt, hp]

/-- `meet_par_subgraph_end`: the left end changes neither the trace nor the inserter; the right end
overwrites the inserter position with the final `par` sizes and closes the par -/
theorem meetParSubgraphEnd_frame {h h' : TraceHandler} {t : SubgraphType} (hm : h.meetParSubgraphEnd t = .ok h') :
    ∃ f rest, h.parStack = f :: rest ∧
      ((t = .left ∧ h'.keeper.resultTrace = h.keeper.resultTrace ∧ ∃ f', h'.parStack = f' :: rest ∧ f'.inserterPos = f.inserterPos) ∨
       (t = .right ∧ h'.parStack = rest ∧ ∃ l r, h'.keeper.resultTrace = h.keeper.resultTrace.set f.inserterPos (.par l r))) := by
  unfold TraceHandler.meetParSubgraphEnd at hm
  split at hm
  · cases hm
  · rename_i f rest hs
    refine ⟨f, rest, hs, ?_⟩
    cases t with
    | left =>
      left
      simp only at hm
      obtain ⟨⟨f', k⟩, h1, h2⟩ := res_bind_ok' hm
      cases h2
      obtain ⟨ht, hp⟩ := leftCompleted_frame h1
      exact ⟨rfl, ht, f', rfl, hp⟩
    | right =>
      right
      simp only at hm
      obtain ⟨k, h1, h2⟩ := res_bind_ok' hm
      cases h2
      obtain ⟨l, r, ht⟩ := rightCompleted_frame h1
      exact ⟨rfl, rfl, l, r, ht⟩

end AquaProps
