import AquaProps.Lemmas.Panic
/-!
C01: panic sites of the trace-handler model, function by function.  Every lemma is generic in the list `L`
and names, as hypotheses, exactly the sites the function can reach — so the lemmas serve both the theorem
about the handler alone (all sites) and the executor fragment (which only uses the call and par entry points).
-/
namespace AquaProps.Panic
open Aqua Aqua.Trace Aqua.Data

def sPMP := "position_mapping.rs:prev_position-1"
def sPMC := "position_mapping.rs:current_position-1"
def sCUM := "fold_lore_resolver.rs:cum_after_len+=after_len"
def sLB := "lore_ctor.rs:PositionsTracker::len(before)"
def sLA := "lore_ctor.rs:PositionsTracker::len(after)"
def sCUR0 := "lore_ctor_queue.rs:current:back_traversal_pos-1"
def sCURI := "lore_ctor_queue.rs:current:index"
def sTB := "lore_ctor_queue.rs:traverse_back"

variable {L : List String} {ε α : Type}

macro "th_leaf" : tactic => `(tactic| first
  | exact resIn_ok _ | exact resIn_error _ | exact resIn_pure _ | assumption)
macro "th_leafs" : tactic => `(tactic| repeat' (first | th_leaf | split))
/-- for functions that never panic: case analysis on the computation -/
macro "never_panics" : tactic => `(tactic| (intro s' h; simp only [bind, Res.bind, pure] at h; (repeat' (split at h)) <;> cases h))

/-- repaired in /repo 95e5498 (`checked_add`): **`set_position_and_len` never panics** -/
theorem setPositionAndLen_in (s : TraceSlider) (p l : Nat) : ResIn L (s.setPositionAndLen p l) := by
  unfold TraceSlider.setPositionAndLen
  dsimp only
  split
  · exact resIn_error _
  · exact resIn_ok _

/-- repaired in /repo d774f34 (`saturating_sub`): **`set_subtrace_len` never panics** -/
theorem setSubtraceLen_in (s : TraceSlider) (l : Nat) : ResIn L (s.setSubtraceLen l) := by
  unfold TraceSlider.setSubtraceLen
  dsimp only
  split
  · exact resIn_error _
  · exact resIn_ok _

/-- repaired in /repo 8502764 (match guard): **`try_get_generation` never panics** -/
theorem tryGetGeneration_in (s : TraceSlider) (p : Nat) : ResIn L (tryGetGeneration s p) := by
  unfold tryGetGeneration
  split
  · exact resIn_error _
  · exact resIn_ok _
  · split
    · exact resIn_ok _
    · exact resIn_error _
  · exact resIn_error _

theorem preparePositionsMapping_in (hp : sPMP ∈ L) (hc : sPMC ∈ L) (sch : PreparationScheme) (k : DataKeeper) :
    ResIn L (preparePositionsMapping sch k) := by
  unfold preparePositionsMapping
  dsimp only
  split
  · apply resIn_bind' (resIn_subU32 hp _ _); intro p; exact resIn_pure _
  · apply resIn_bind' (resIn_subU32 hc _ _); intro p; exact resIn_pure _
  · apply resIn_bind' (resIn_subU32 hp _ _); intro p
    apply resIn_bind' (resIn_subU32 hc _ _); intro c; exact resIn_pure _

theorem mergeExecuted_in (p c : ValueRef) : ResIn L (mergeExecuted p c) := by unfold mergeExecuted; th_leafs

theorem mergeCallResults_in (p c : CallResult) : ResIn L (mergeCallResults p c) := by
  unfold mergeCallResults
  split <;> first
    | th_leafs; done
    | exact resIn_rbind (mergeExecuted_in _ _) fun _ => resIn_ok _

/-! `position - 1` of the position mapping cannot underflow: a state has just been read from the slider concerned -/

theorem nextState_some_pos (s : TraceSlider) (st : ExecutedState) (s' : TraceSlider) (h : s.nextState = (some st, s')) : 1 ≤ s'.position := by
  unfold TraceSlider.nextState at h
  split at h
  · cases h
  · split at h
    · cases h
    · cases h; simp

theorem subU32_one {ε : Type} (site : String) (a : Nat) (h : 1 ≤ a) : (subU32 site a 1 : Res ε Nat) = .ok (a - 1) := by
  unfold subU32
  have : ¬ a < 1 := by omega
  simp [this]

theorem preparePositionsMapping_never (sch : PreparationScheme) (k : DataKeeper)
    (hp : sch ≠ .current → 1 ≤ k.prev.position) (hc : sch ≠ .previous → 1 ≤ k.cur.position) :
    ResIn L (preparePositionsMapping sch k) := by
  intro s h
  cases sch
  · have h1 := hp (by decide)
    simp [preparePositionsMapping, subU32_one _ _ h1, bind, Res.bind, pure] at h
  · have h2 := hc (by decide)
    simp [preparePositionsMapping, subU32_one _ _ h2, bind, Res.bind, pure] at h
  · have h1 := hp (by decide); have h2 := hc (by decide)
    simp [preparePositionsMapping, subU32_one _ _ h1, subU32_one _ _ h2, bind, Res.bind, pure] at h

theorem prepareCallResult_never (r : CallResult) (sch : PreparationScheme) (k : DataKeeper)
    (hp : sch ≠ .current → 1 ≤ k.prev.position) (hc : sch ≠ .previous → 1 ≤ k.cur.position) :
    ResIn L (prepareCallResult r sch k) := by
  unfold prepareCallResult
  dsimp only
  apply resIn_bind' (preparePositionsMapping_never _ _ hp hc); intro k'; exact resIn_pure _

theorem tryMergeNextStateAsCall_never (k : DataKeeper) : ResIn L (tryMergeNextStateAsCall k) := by
  unfold tryMergeNextStateAsCall nextStates
  rcases hp : k.prev.nextState with ⟨p, ps⟩
  rcases hc : k.cur.nextState with ⟨c, cs⟩
  rcases p with _ | pst <;> rcases c with _ | cst
  · exact resIn_ok _
  · have h2 := nextState_some_pos _ _ _ hc
    cases cst <;> first
      | exact resIn_error _
      | exact prepareCallResult_never _ _ _ (fun h => absurd rfl h) (fun _ => h2)
  · have h1 := nextState_some_pos _ _ _ hp
    cases pst <;> first
      | exact resIn_error _
      | exact prepareCallResult_never _ _ _ (fun _ => h1) (fun h => absurd rfl h)
  · have h1 := nextState_some_pos _ _ _ hp
    have h2 := nextState_some_pos _ _ _ hc
    cases pst <;> cases cst <;> first
      | exact resIn_error _
      | (dsimp only
         split
         · exact prepareCallResult_never _ _ _ (fun _ => h1) (fun _ => h2)
         · exact resIn_error _
         · rename_i s h
           exact fun s' hs => by cases hs; exact mergeCallResults_in _ _ _ h)

theorem prepareApMergeResult_never (g : List Nat) (sch : PreparationScheme) (k : DataKeeper)
    (hp : sch ≠ .current → 1 ≤ k.prev.position) (hc : sch ≠ .previous → 1 ≤ k.cur.position) :
    ResIn L (prepareApMergeResult g sch k) := by
  unfold prepareApMergeResult
  apply resIn_bind' (preparePositionsMapping_never _ _ hp hc); intro k'
  th_leafs

theorem tryMergeNextStateAsAp_never (k : DataKeeper) : ResIn L (tryMergeNextStateAsAp k) := by
  unfold tryMergeNextStateAsAp nextStates
  rcases hp : k.prev.nextState with ⟨p, ps⟩
  rcases hc : k.cur.nextState with ⟨c, cs⟩
  rcases p with _ | pst <;> rcases c with _ | cst
  · exact resIn_ok _
  · have h2 := nextState_some_pos _ _ _ hc
    cases cst <;> first
      | exact resIn_error _
      | exact prepareApMergeResult_never _ _ _ (fun h => absurd rfl h) (fun _ => h2)
  · have h1 := nextState_some_pos _ _ _ hp
    cases pst <;> first
      | exact resIn_error _
      | exact prepareApMergeResult_never _ _ _ (fun _ => h1) (fun h => absurd rfl h)
  · have h1 := nextState_some_pos _ _ _ hp
    have h2 := nextState_some_pos _ _ _ hc
    cases pst <;> cases cst <;> first
      | exact resIn_error _
      | exact prepareApMergeResult_never _ _ _ (fun _ => h1) (fun _ => h2)

theorem mergeCanonResults_in (p c : CanonResult) : ResIn L (mergeCanonResults p c) := by unfold mergeCanonResults; th_leafs

theorem tryMergeNextStateAsCanon_in (k : DataKeeper) : ResIn L (tryMergeNextStateAsCanon k) := by
  unfold tryMergeNextStateAsCanon
  dsimp only
  split
  · split
    · exact resIn_ok _
    · exact resIn_error _
    · rename_i s h
      exact fun s' hs => by cases hs; exact mergeCanonResults_in _ _ _ h
  all_goals th_leaf

theorem tryMergeNextStateAsPar_in (k : DataKeeper) : ResIn L (tryMergeNextStateAsPar k) := by
  unfold tryMergeNextStateAsPar; dsimp only; th_leafs

theorem updateCtxStates_in (p : CtxStatesPair) (k : DataKeeper) : ResIn L (updateCtxStates p k) := by
  unfold updateCtxStates
  have upd : ∀ (s : TraceSlider) (c : CtxState), ResIn L
      (match s.setPositionAndLen c.pos c.subtraceLen with
        | .ok s' => (.ok s' : TR TraceSlider)
        | .error _ => .ok s
        | .panic site => .panic site) := by
    intro s c
    split
    · exact resIn_ok _
    · exact resIn_ok _
    · rename_i site hs
      exact fun s' h' => by cases h'; exact setPositionAndLen_in _ _ _ _ hs
  dsimp only
  apply resIn_bind' (upd _ _); intro ps
  apply resIn_bind' (upd _ _); intro cs
  exact resIn_pure _

theorem parComputeNewState_in (par : ParResult) (t : SubgraphType) (s : TraceSlider) : ResIn L (parComputeNewState par t s) := by
  unfold parComputeNewState
  cases t <;> never_panics

theorem liftFsm_in {r : Res FsmErr α} (h : ResIn L r) : ResIn L (liftFsm r) := by unfold liftFsm; exact resIn_mapErr _ h
theorem liftKeeperF_in {r : Res KeeperErr α} (h : ResIn L r) : ResIn L (liftKeeperF r) := by unfold liftKeeperF; exact resIn_mapErr _ h

theorem parPrepareSliders_in (f : ParFSM) (t : SubgraphType) (k : DataKeeper) : ResIn L (parPrepareSliders f t k) := by
  unfold parPrepareSliders
  dsimp only
  split <;>
  · apply resIn_bind' (liftKeeperF_in (setSubtraceLen_in _ _)); intro ps
    apply resIn_bind' (liftKeeperF_in (setSubtraceLen_in _ _)); intro cs
    exact resIn_pure _

theorem fromLeftStarted_in (pp cp : ParResult) (k : DataKeeper) : ResIn L (ParFSM.fromLeftStarted pp cp k) := by
  unfold ParFSM.fromLeftStarted
  dsimp only
  apply resIn_bind' (liftFsm_in (parComputeNewState_in _ _ _)); intro lp
  apply resIn_bind' (liftFsm_in (parComputeNewState_in _ _ _)); intro lc
  apply resIn_bind' (liftFsm_in (parComputeNewState_in _ _ _)); intro rp
  apply resIn_bind' (liftFsm_in (parComputeNewState_in _ _ _)); intro rc
  apply resIn_bind' (parPrepareSliders_in _ _ _); intro k'
  exact resIn_pure _

theorem leftCompleted_in (f : ParFSM) (k : DataKeeper) : ResIn L (f.leftCompleted k) := by
  unfold ParFSM.leftCompleted
  dsimp only
  apply resIn_bind' (updateCtxStates_in _ _); intro k'
  split
  · exact resIn_pure _
  · split
    · exact resIn_pure _
    · exact resIn_pure _
    · rename_i s hs
      exact fun s' h' => by cases h'; exact setSubtraceLen_in _ _ _ hs
  · rename_i s hs
    exact fun s' h' => by cases h'; exact parPrepareSliders_in _ _ _ _ hs

theorem rightCompleted_in (f : ParFSM) (k : DataKeeper) : ResIn L (f.rightCompleted k) := by
  unfold ParFSM.rightCompleted
  dsimp only
  exact updateCtxStates_in _ _

/-! ### the entry points used by the stream-free executor fragment -/

theorem meetCallStart_in (h : TraceHandler) : ResIn L h.meetCallStart := by
  unfold TraceHandler.meetCallStart
  apply resIn_bind' (tryMergeNextStateAsCall_never _); intro r; exact resIn_pure _

theorem meetParStart_in (h : TraceHandler) : ResIn L h.meetParStart := by
  unfold TraceHandler.meetParStart
  apply resIn_bind' (tryMergeNextStateAsPar_in _); intro r
  apply resIn_bind' (fromLeftStarted_in _ _ _); intro r2
  exact resIn_pure _

theorem meetParSubgraphEnd_in (h : TraceHandler) (t : SubgraphType) : ResIn L (h.meetParSubgraphEnd t) := by
  unfold TraceHandler.meetParSubgraphEnd
  split
  · exact resIn_error _
  · split
    · apply resIn_bind' (leftCompleted_in _ _); intro r; exact resIn_pure _
    · apply resIn_bind' (rightCompleted_in _ _); intro r; exact resIn_pure _


/-! ### fold: lore resolver, FoldFSM -/

theorem computeLensConvolution_loop_in (h2 : sCUM ∈ L) (s : TraceSlider) :
    ∀ (ls : List FoldSubTraceLore) (id : Nat) (st : ConvState), ResIn L (computeLensConvolution.loop s id ls st)
  | [], id, st => by unfold computeLensConvolution.loop; exact resIn_ok _
  | l :: rest, id, st => by
    unfold computeLensConvolution.loop
    split
    · exact resIn_error _
    · apply resIn_bind' (resIn_mapErr _ (tryGetGeneration_in _ _)); intro gen
      dsimp only
      repeat' (first
        | exact resIn_error _
        | (apply resIn_bind' (resIn_addU32 h2 _ _); intro cum; exact computeLensConvolution_loop_in h2 s rest _ _)
        | split)

theorem computeLensConvolution_in (h2 : sCUM ∈ L) (lore : List FoldSubTraceLore) (s : TraceSlider) :
    ResIn L (computeLensConvolution lore s) := by
  unfold computeLensConvolution
  apply resIn_bind' (computeLensConvolution_loop_in h2 s _ _ _); intro st
  exact resIn_pure _

theorem resolveFoldLore_build_in : ∀ (ls : List (FoldSubTraceLore × LoresLen)) (acc : List (Nat × ResolvedSubTraceDescs)),
    ResIn L (resolveFoldLore.build ls acc)
  | [], acc => by unfold resolveFoldLore.build; exact resIn_ok _
  | (l, len) :: rest, acc => by
    unfold resolveFoldLore.build
    dsimp only
    split
    · exact resIn_error _
    · exact resolveFoldLore_build_in rest _

theorem resolveFoldLore_in (h2 : sCUM ∈ L) (lore : List FoldSubTraceLore) (s : TraceSlider) :
    ResIn L (resolveFoldLore lore s) := by
  unfold resolveFoldLore
  apply resIn_bind' (computeLensConvolution_in h2 _ _); intro r
  apply resIn_bind' (resolveFoldLore_build_in _ _); intro r2
  exact resIn_pure _

theorem tryMergeNextStateAsFold_in (h2 : sCUM ∈ L) (k : DataKeeper) : ResIn L (tryMergeNextStateAsFold k) := by
  unfold tryMergeNextStateAsFold
  dsimp only
  have hl : ∀ lore s, ResIn L ((resolveFoldLore lore s).mapErr TraceErr.merge) := fun lore s => resIn_mapErr _ (resolveFoldLore_in h2 lore s)
  split
  · apply resIn_bind' (hl _ _); intro a
    apply resIn_bind' (hl _ _); intro b
    exact resIn_pure _
  · apply resIn_bind' (hl _ _); intro a; exact resIn_pure _
  · apply resIn_bind' (hl _ _); intro a; exact resIn_pure _
  · exact resIn_ok _
  · exact resIn_error _

theorem foldComputeNewState_in (f : ResolvedFold) (s : TraceSlider) : ResIn L (foldComputeNewState f s) := by
  unfold foldComputeNewState; th_leafs

theorem fromFoldStart_in (pf cf : ResolvedFold) (k : DataKeeper) : ResIn L (FoldFSM.fromFoldStart pf cf k) := by
  unfold FoldFSM.fromFoldStart
  dsimp only
  apply resIn_bind' (liftFsm_in (foldComputeNewState_in _ _)); intro a
  apply resIn_bind' (liftFsm_in (foldComputeNewState_in _ _)); intro b
  exact resIn_pure _

theorem applyFoldLoreOne_in (s : TraceSlider) (l : Option ResolvedSubTraceDescs) (w : ByNextPosition) :
    ResIn L (applyFoldLoreOne s l w) := by
  unfold applyFoldLoreOne
  split
  · split
    · exact setPositionAndLen_in _ _ _
    · exact setPositionAndLen_in _ _ _
  · exact setSubtraceLen_in _ _

theorem applyFoldLore_in (k : DataKeeper) (pl cl : Option ResolvedSubTraceDescs) (w : ByNextPosition) :
    ResIn L (applyFoldLore k pl cl w) := by
  unfold applyFoldLore
  apply resIn_bind' (liftKeeperF_in (applyFoldLoreOne_in _ _ _)); intro ps
  dsimp only
  apply resIn_bind' (liftKeeperF_in (applyFoldLoreOne_in _ _ _)); intro cs
  exact resIn_pure _

theorem fsm_meetIterationStart_in (f : FoldFSM) (vp : Nat) (k : DataKeeper) :
    ResIn L (f.meetIterationStart vp k) := by
  unfold FoldFSM.meetIterationStart
  dsimp only
  apply resIn_bind' (applyFoldLore_in _ _ _ _); intro k'
  exact resIn_pure _

theorem fsm_current_in (h1 : sCUR0 ∈ L) (h2 : sCURI ∈ L) (f : FoldFSM) : ResIn L f.current := by
  unfold FoldFSM.current
  split
  · exact resIn_panic h1
  · split
    · exact resIn_ok _
    · exact resIn_panic h2

theorem fsm_meetIterationEnd_in (h1 : sCUR0 ∈ L) (h2 : sCURI ∈ L) (f : FoldFSM) (k : DataKeeper) : ResIn L (f.meetIterationEnd k) := by
  unfold FoldFSM.meetIterationEnd
  apply resIn_bind' (fsm_current_in h1 h2 _); intro r
  exact resIn_pure _

theorem fsm_meetBackIterator_in (h1 : sCUR0 ∈ L) (h2 : sCURI ∈ L) (h3 : sTB ∈ L)
    (f : FoldFSM) (k : DataKeeper) : ResIn L (f.meetBackIterator k) := by
  unfold FoldFSM.meetBackIterator
  apply resIn_bind' (fsm_current_in h1 h2 _); intro r
  dsimp only
  split
  · apply resIn_bind' (applyFoldLore_in _ _ _ _); intro k'
    exact resIn_pure _
  · apply resIn_bind' (resIn_subU32 h3 _ _); intro pos
    apply resIn_bind' (fsm_current_in h1 h2 _); intro r2
    try dsimp only
    apply resIn_bind' (applyFoldLore_in _ _ _ _); intro k'
    exact resIn_pure _

theorem intoSubtraceLore_in (h1 : sLB ∈ L) (h2 : sLA ∈ L) (c : SubTraceLoreCtor) : ResIn L c.intoSubtraceLore := by
  unfold SubTraceLoreCtor.intoSubtraceLore
  apply resIn_bind' (resIn_subU32 h1 _ _); intro bl
  apply resIn_bind' (resIn_subU32 h2 _ _); intro al
  exact resIn_pure _

theorem resIn_mapM_loop {β : Type} {f : α → Res ε β} (hf : ∀ a, ResIn L (f a)) :
    ∀ (l : List α) (acc : List β), ResIn L (List.mapM.loop f l acc)
  | [], acc => by unfold List.mapM.loop; exact resIn_pure _
  | a :: rest, acc => by
    unfold List.mapM.loop
    apply resIn_bind' (hf a); intro b
    exact resIn_mapM_loop hf rest _

theorem resIn_mapM {β : Type} {f : α → Res ε β} (hf : ∀ a, ResIn L (f a)) (l : List α) : ResIn L (l.mapM f) := by
  unfold List.mapM; exact resIn_mapM_loop hf l []

theorem fsm_meetGenerationEnd_in (h1 : sLB ∈ L) (h2 : sLA ∈ L) (f : FoldFSM) (k : DataKeeper) : ResIn L (f.meetGenerationEnd k) := by
  unfold FoldFSM.meetGenerationEnd
  dsimp only
  apply resIn_bind' (resIn_mapM (intoSubtraceLore_in h1 h2) _); intro lore
  exact resIn_pure _

theorem fsm_meetFoldEnd_in (f : FoldFSM) (k : DataKeeper) : ResIn L (f.meetFoldEnd k) := by
  unfold FoldFSM.meetFoldEnd
  dsimp only
  exact updateCtxStates_in _ _

/-! ### remaining `TraceHandler` entry points -/

theorem meetApStart_in (h : TraceHandler) : ResIn L h.meetApStart := by
  unfold TraceHandler.meetApStart
  apply resIn_bind' (tryMergeNextStateAsAp_never _); intro r; exact resIn_pure _

theorem meetCanonStart_in (h : TraceHandler) : ResIn L h.meetCanonStart := by
  unfold TraceHandler.meetCanonStart
  apply resIn_bind' (tryMergeNextStateAsCanon_in _); intro r; exact resIn_pure _

theorem meetFoldStart_in (h2 : sCUM ∈ L) (h : TraceHandler) (id : Nat) : ResIn L (h.meetFoldStart id) := by
  unfold TraceHandler.meetFoldStart
  apply resIn_bind' (tryMergeNextStateAsFold_in h2 _); intro r
  apply resIn_bind' (fromFoldStart_in _ _ _); intro r2
  exact resIn_pure _

theorem foldMut_in (h : TraceHandler) (id : Nat) : ResIn L (h.foldMut id) := by unfold TraceHandler.foldMut; th_leafs

theorem meetIterationStart_in (h : TraceHandler) (id vp : Nat) : ResIn L (h.meetIterationStart id vp) := by
  unfold TraceHandler.meetIterationStart
  apply resIn_bind' (foldMut_in _ _); intro f
  apply resIn_bind' (fsm_meetIterationStart_in _ _ _); intro r
  exact resIn_pure _

theorem meetIterationEnd_in (h1 : sCUR0 ∈ L) (h2 : sCURI ∈ L) (h : TraceHandler) (id : Nat) : ResIn L (h.meetIterationEnd id) := by
  unfold TraceHandler.meetIterationEnd
  apply resIn_bind' (foldMut_in _ _); intro f
  apply resIn_bind' (fsm_meetIterationEnd_in h1 h2 _ _); intro r
  exact resIn_pure _

theorem meetBackIterator_in (h1 : sCUR0 ∈ L) (h2 : sCURI ∈ L) (h3 : sTB ∈ L)
    (h : TraceHandler) (id : Nat) : ResIn L (h.meetBackIterator id) := by
  unfold TraceHandler.meetBackIterator
  apply resIn_bind' (foldMut_in _ _); intro f
  apply resIn_bind' (fsm_meetBackIterator_in h1 h2 h3 _ _); intro r
  exact resIn_pure _

theorem meetGenerationEnd_in (h1 : sLB ∈ L) (h2 : sLA ∈ L) (h : TraceHandler) (id : Nat) : ResIn L (h.meetGenerationEnd id) := by
  unfold TraceHandler.meetGenerationEnd
  apply resIn_bind' (foldMut_in _ _); intro f
  apply resIn_bind' (fsm_meetGenerationEnd_in h1 h2 _ _); intro r
  exact resIn_pure _

theorem meetFoldEnd_in (h : TraceHandler) (id : Nat) : ResIn L (h.meetFoldEnd id) := by
  unfold TraceHandler.meetFoldEnd
  apply resIn_bind' (foldMut_in _ _); intro f
  apply resIn_bind' (fsm_meetFoldEnd_in _ _); intro r
  exact resIn_pure _

end AquaProps.Panic
