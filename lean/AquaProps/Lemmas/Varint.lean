import Aqua.Crypto.CidVerify
/-!
# `unsigned-varint`: reading back what `encode::u64` wrote

For every `n < 2^64` and every continuation of the input, `io::read_u64` on `encode::u64(n)` followed by
`rest` returns `n` and leaves `rest` unread.
-/
namespace AquaProps.Varint
open Aqua Aqua.Crypto.CidVerify

theorem small_byte : ∀ n, n < 128 → (UInt8.ofNat n &&& 0x80 == 0) = true ∧ (UInt8.ofNat n).toNat % 128 = n ∧
    ((UInt8.ofNat n == 0) = decide (n = 0)) := by decide

theorem cont_byte : ∀ m, m < 128 → (UInt8.ofNat (m + 128) &&& 0x80 == 0) = false ∧
    (UInt8.ofNat (m + 128)).toNat % 128 = m := by decide

theorem or_shift (acc k s : Nat) (h : acc < 2 ^ s) : acc ||| (k <<< s) = acc + k * 2 ^ s := by
  rw [Nat.or_comm, ← Nat.shiftLeft_add_eq_or_of_lt h, Nat.shiftLeft_eq, Nat.add_comm]

theorem or_mul (acc k s : Nat) (h : acc < 2 ^ s) : acc ||| k * 2 ^ s = acc + k * 2 ^ s := by
  have := or_shift acc k s h
  rwa [Nat.shiftLeft_eq] at this

/-- the scanning loop of `io::read_u64` hands the bytes of one encoded number to `decode::u64` -/
theorem readU64Loop_encode (fe : Nat) : ∀ (fl n : Nat) (buf rest : Bytes), 0 < fe → n < 128 ^ fe → n < 128 ^ fl → 0 < fl →
    readU64Loop fl buf (encodeVarintFuel fe n ++ rest) =
      (match decodeU64 (buf ++ encodeVarintFuel fe n) with
       | .ok (v, _) => .ok (v, rest)
       | .error e => .error (.Decode e)) := by
  induction fe with
  | zero =>
    intro fl n buf rest h0
    omega
  | succ fe ih =>
    intro fl n buf rest _ h1 h2 h3
    cases fl with
    | zero => omega
    | succ fl =>
      unfold encodeVarintFuel
      by_cases hn : n < 128
      · simp only [hn, if_true, List.singleton_append]
        obtain ⟨hb, _, _⟩ := small_byte n hn
        simp only [readU64Loop, hb, if_true]
        rfl
      · simp only [hn, if_false, List.cons_append]
        have hm : n % 128 < 128 := Nat.mod_lt _ (by decide)
        obtain ⟨hb, _⟩ := cont_byte (n % 128) hm
        simp only [readU64Loop, hb, Bool.false_eq_true, if_false]
        have h1' : n / 128 < 128 ^ fe := by
          rw [Nat.pow_succ] at h1
          exact Nat.div_lt_of_lt_mul (by rw [Nat.mul_comm]; exact h1)
        have h2' : n / 128 < 128 ^ fl := by
          rw [Nat.pow_succ] at h2
          exact Nat.div_lt_of_lt_mul (by rw [Nat.mul_comm]; exact h2)
        have h3' : 0 < fl := by
          cases fl with
          | zero => simp at h2; omega
          | succ _ => omega
        have h0' : 0 < fe := by
          cases fe with
          | zero => simp at h1'; omega
          | succ _ => omega
        rw [ih fl (n / 128) _ rest h0' h1' h2' h3']
        simp only [List.append_assoc, List.singleton_append]

/-- `decode::u64` on an encoded number: the groups are put back at their positions.  `acc` holds the `i`
groups already read (`acc < 2^(7i)`), nothing is shifted out of the 64-bit word (`n * 2^(7i) < 2^64`), and a
number continued at position `i > 0` is not zero (so the last byte is not a redundant `0x00`). -/
theorem decodeU64Aux_encode (fe : Nat) : ∀ (n i acc : Nat), 0 < fe → n < 128 ^ fe → acc < 2 ^ (i * 7) →
    acc + n * 2 ^ (i * 7) < 2 ^ 64 → (0 < i → 0 < n) →
    decodeU64Aux (encodeVarintFuel fe n) i acc = .ok (acc + n * 2 ^ (i * 7), []) := by
  induction fe with
  | zero => intro n i acc h0; omega
  | succ fe ih =>
    intro n i acc _ h1 hacc hfit hpos
    unfold encodeVarintFuel
    by_cases hn : n < 128
    · simp only [hn, if_true]
      obtain ⟨hb, hk, hz⟩ := small_byte n hn
      simp only [decodeU64Aux, hb, if_true, hk, hz]
      have hlt : n * 2 ^ (i * 7) < 2 ^ 64 := by omega
      have hnm : ¬ (decide (n = 0) && decide (i > 0)) = true := by
        simp only [Bool.and_eq_true, decide_eq_true_eq, not_and]
        intro hn0 hi
        have := hpos hi
        omega
      have hshift : (n <<< (i * 7)) % 2 ^ 64 = n * 2 ^ (i * 7) := by
        rw [Nat.shiftLeft_eq, Nat.mod_eq_of_lt hlt]
      simp only [hnm]
      rw [hshift, or_mul acc n (i * 7) hacc]
      simp
    · simp only [hn, if_false]
      have hm : n % 128 < 128 := Nat.mod_lt _ (by decide)
      obtain ⟨hb, hk⟩ := cont_byte (n % 128) hm
      have hpow : (2 : Nat) ^ ((i + 1) * 7) = 2 ^ (i * 7) * 128 := by
        rw [Nat.add_mul, Nat.pow_add]
      have hsplit : n = n / 128 * 128 + n % 128 := by omega
      have hlow : n % 128 * 2 ^ (i * 7) < 2 ^ 64 := by
        have : n % 128 * 2 ^ (i * 7) ≤ n * 2 ^ (i * 7) := Nat.mul_le_mul_right _ (Nat.mod_le _ _)
        omega
      have hshift : ((n % 128) <<< (i * 7)) % 2 ^ 64 = n % 128 * 2 ^ (i * 7) := by
        rw [Nat.shiftLeft_eq, Nat.mod_eq_of_lt hlow]
      have hi9 : ¬ i = 9 := by
        intro h9
        subst h9
        have : 128 * 2 ^ (9 * 7) ≤ n * 2 ^ (9 * 7) := Nat.mul_le_mul_right _ (by omega)
        have h2 : (128 : Nat) * 2 ^ (9 * 7) = 2 ^ 70 := by decide
        have h3 : (2 : Nat) ^ 64 < 2 ^ 70 := by decide
        omega
      simp only [decodeU64Aux, hb, Bool.false_eq_true, if_false, hk, hshift, beq_iff_eq, hi9]
      rw [or_mul acc (n % 128) (i * 7) hacc]
      have h1' : n / 128 < 128 ^ fe := by
        rw [Nat.pow_succ] at h1
        exact Nat.div_lt_of_lt_mul (by rw [Nat.mul_comm]; exact h1)
      have h0' : 0 < fe := by
        cases fe with
        | zero => simp at h1'; omega
        | succ _ => omega
      have hacc' : acc + n % 128 * 2 ^ (i * 7) < 2 ^ ((i + 1) * 7) := by
        rw [hpow]
        have : n % 128 * 2 ^ (i * 7) ≤ 127 * 2 ^ (i * 7) := Nat.mul_le_mul_right _ (by omega)
        omega
      have hval : acc + n % 128 * 2 ^ (i * 7) + n / 128 * 2 ^ ((i + 1) * 7) = acc + n * 2 ^ (i * 7) := by
        rw [hpow]
        have e : n * 2 ^ (i * 7) = (n / 128 * 128 + n % 128) * 2 ^ (i * 7) := by rw [← hsplit]
        rw [e, Nat.add_mul, Nat.mul_assoc, Nat.mul_comm 128 (2 ^ (i * 7))]
        omega
      rw [ih (n / 128) (i + 1) _ h0' h1' hacc' (by rw [hval]; exact hfit) (fun _ => by omega), hval]

theorem lt_pow_succ (n : Nat) : n < 128 ^ (n + 1) := by
  have h1 : n < 2 ^ n := Nat.lt_two_pow_self
  have h2 : 2 ^ n ≤ 128 ^ n := Nat.pow_le_pow_left (by decide) n
  have h3 : 128 ^ n ≤ 128 ^ (n + 1) := Nat.pow_le_pow_right (by decide) (by omega)
  omega

/-- **varint round trip** -/
theorem readU64_encodeVarint (n : Nat) (h : n < 2 ^ 64) (rest : Bytes) :
    readU64 (encodeVarint n ++ rest) = .ok (n, rest) := by
  unfold readU64 encodeVarint
  have h10 : n < 128 ^ 10 := by
    have : (2 : Nat) ^ 64 < 128 ^ 10 := by decide
    omega
  rw [readU64Loop_encode (n + 1) 10 n [] rest (by omega) (lt_pow_succ n) h10 (by decide)]
  simp only [List.nil_append, decodeU64]
  rw [decodeU64Aux_encode (n + 1) n 0 0 (by omega) (lt_pow_succ n) (by decide) (by simpa using h) (by omega)]
  simp

end AquaProps.Varint
