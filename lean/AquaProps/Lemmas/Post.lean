import AquaProps.Lemmas.Rel
/-!
Value postconditions for the execution monad: `Post Q m` says every value `m` returns satisfies `Q`
(whatever the context).  Together with `Rel` this gives Hoare-style reasoning where the continuation
may depend on what the first computation returned (`rel_bind_post`).
-/
namespace AquaProps
open Aqua Aqua.Exec Aqua.Air Aqua.Trace

def Post {α : Type} (Q : α → Prop) (m : M α) : Prop := ∀ c a, (m c).1 = .ok a → Q a

variable {R : Ctx → Ctx → Prop} {α β : Type}

theorem post_pure {Q : α → Prop} {a : α} (h : Q a) : Post Q (pure a : M α) := by
  intro c b hb
  have : (Res.ok a : Res ExecErr α) = .ok b := hb
  cases this; exact h

theorem post_throwE {Q : α → Prop} (e : ExecErr) : Post Q (throwE e : M α) := by
  intro c b hb; cases hb

theorem post_panicM {Q : α → Prop} (s : String) : Post Q (panicM s : M α) := by
  intro c b hb; cases hb

theorem post_bind {Q : β → Prop} {m : M α} {f : α → M β} (hf : ∀ a, Post Q (f a)) : Post Q (m >>= f) := by
  intro c b hb
  change ((M.bind m f) c).1 = .ok b at hb
  unfold M.bind at hb
  cases hmc : m c with
  | mk r c' =>
    rw [hmc] at hb
    cases r with
    | ok a => exact hf a c' b hb
    | error e => cases hb
    | panic s => cases hb

/-- the continuation only has to be handled for values satisfying the first computation's postcondition -/
theorem post_bind' {P : α → Prop} {Q : β → Prop} {m : M α} {f : α → M β} (hm : Post P m) (hf : ∀ a, P a → Post Q (f a)) :
    Post Q (m >>= f) := by
  intro c b hb
  change ((M.bind m f) c).1 = .ok b at hb
  unfold M.bind at hb
  cases hmc : m c with
  | mk r c' =>
    rw [hmc] at hb
    cases r with
    | ok a => exact hf a (hm c a (by rw [hmc])) c' b hb
    | error e => cases hb
    | panic s => cases hb

theorem post_true (m : M α) : Post (fun _ => True) m := fun _ _ _ => trivial

theorem post_readCtx {Q : α → Prop} (f : Ctx → α) (h : ∀ c, Q (f c)) : Post Q (readCtx f) := by
  intro c a ha
  have : (Res.ok (f c) : Res ExecErr α) = .ok a := ha
  cases this; exact h c

theorem rel_bind_post (hR : Preorder' R) {Q : α → Prop} {m : M α} {f : α → M β} (hm : Rel R m) (hq : Post Q m)
    (hf : ∀ a, Q a → Rel R (f a)) : Rel R (m >>= f) := by
  intro c
  show R c ((M.bind m f) c).2
  unfold M.bind
  have h1 := hm c
  have h2 := hq c
  cases hmc : m c with
  | mk r c' =>
    rw [hmc] at h1 h2
    cases r with
    | ok a => exact hR.trans h1 (hf a (h2 a rfl) c')
    | error e => exact h1
    | panic s => exact h1

end AquaProps
