import Aqua.Json.Parse
/-! String escaping (`escapeChar`, serde_json's `format_escaped_str`) is undone by `parseStrChars`
(`parse_str_bytes` + `parse_escape`), for every character. -/
namespace AquaProps.JsonLemmas
open Aqua.Json

theorem hexVal_hexDigit (k : Nat) (hk : k < 16) : hexVal (hexDigit k) = some k := by
  have : k = 0 ∨ k = 1 ∨ k = 2 ∨ k = 3 ∨ k = 4 ∨ k = 5 ∨ k = 6 ∨ k = 7 ∨ k = 8 ∨ k = 9 ∨ k = 10 ∨ k = 11 ∨ k = 12 ∨
      k = 13 ∨ k = 14 ∨ k = 15 := by omega
  rcases this with h | h | h | h | h | h | h | h | h | h | h | h | h | h | h | h <;> subst h <;> decide

theorem char_eq_of_toNat (c : Char) (n : Nat) (h : c.toNat = n) : c = Char.ofNat n := by
  rw [← h, Char.ofNat_toNat]

theorem parseStrChars_quote (cs : List Char) : parseStrChars ('"' :: cs) = .ok ([], cs) := by
  rw [parseStrChars]; simp

theorem parseStrChars_backslash (cs : List Char) (ch : Char) (rest : List Char) (h : parseEscape cs = some (ch, rest)) :
    parseStrChars ('\\' :: cs) = consChar ch (parseStrChars rest) := by
  rw [parseStrChars]
  simp only [show ('\\' : Char) ≠ '"' by decide, if_false, if_true]
  split
  · rename_i h'; rw [h] at h'; exact absurd h' (by simp)
  · rename_i ch' rest' h'; rw [h] at h'; simp only [Option.some.injEq, Prod.mk.injEq] at h'; obtain ⟨rfl, rfl⟩ := h'; rfl

theorem parseStrChars_plain (c : Char) (cs : List Char) (h1 : c ≠ '"') (h2 : c ≠ '\\') (h3 : ¬ c.toNat < 32) :
    parseStrChars (c :: cs) = consChar c (parseStrChars cs) := by
  rw [parseStrChars]; simp [h1, h2, h3]

theorem parseEscape_simple (e ch : Char) (cs : List Char) (hu : e ≠ 'u') (h : simpleEscape e = some ch) :
    parseEscape (e :: cs) = some (ch, cs) := by
  simp [parseEscape, hu, h]

/-- one escaped character is read back as that character -/
theorem parseStrChars_escapeChar (c : Char) (tail : List Char) :
    parseStrChars (escapeChar c ++ tail) = consChar c (parseStrChars tail) := by
  unfold escapeChar
  by_cases h1 : c = '"'
  · subst h1
    exact parseStrChars_backslash _ _ _ (parseEscape_simple '"' '"' tail (by decide) (by decide))
  by_cases h2 : c = '\\'
  · subst h2
    exact parseStrChars_backslash _ _ _ (parseEscape_simple '\\' '\\' tail (by decide) (by decide))
  by_cases h3 : c.toNat = 8
  · have := char_eq_of_toNat c 8 h3; subst this
    exact parseStrChars_backslash _ _ _ (parseEscape_simple 'b' _ tail (by decide) (by decide))
  by_cases h4 : c.toNat = 12
  · have := char_eq_of_toNat c 12 h4; subst this
    exact parseStrChars_backslash _ _ _ (parseEscape_simple 'f' _ tail (by decide) (by decide))
  by_cases h5 : c = '\n'
  · subst h5
    exact parseStrChars_backslash _ _ _ (parseEscape_simple 'n' _ tail (by decide) (by decide))
  by_cases h6 : c = '\r'
  · subst h6
    exact parseStrChars_backslash _ _ _ (parseEscape_simple 'r' _ tail (by decide) (by decide))
  by_cases h7 : c = '\t'
  · subst h7
    exact parseStrChars_backslash _ _ _ (parseEscape_simple 't' _ tail (by decide) (by decide))
  by_cases h8 : c.toNat < 32
  · simp only [h1, h2, h3, h4, h5, h6, h7, h8, if_false, if_true]
    have hq : c.toNat / 16 < 16 := by omega
    have hr : c.toNat % 16 < 16 := by omega
    have h0 : hexVal '0' = some 0 := by decide
    have hx : hex4 '0' '0' (hexDigit (c.toNat / 16)) (hexDigit (c.toNat % 16)) = some c.toNat := by
      simp only [hex4, h0, hexVal_hexDigit _ hq, hexVal_hexDigit _ hr]
      congr 1; omega
    have hc : charFromU32 c.toNat = some c := by
      unfold charFromU32
      have : c.toNat < 0xD800 := by omega
      simp [this, Char.ofNat_toNat]
    have hns1 : ¬ (0xDC00 ≤ c.toNat ∧ c.toNat ≤ 0xDFFF) := by omega
    have hns2 : ¬ (0xD800 ≤ c.toNat ∧ c.toNat ≤ 0xDBFF) := by omega
    refine parseStrChars_backslash _ _ _ ?_
    show parseEscape ('u' :: '0' :: '0' :: hexDigit (c.toNat / 16) :: hexDigit (c.toNat % 16) :: tail) = some (c, tail)
    simp only [parseEscape, if_true, hx, hns1, hns2, if_false, hc]
  · simp only [h1, h2, h3, h4, h5, h6, h7, h8, if_false]
    exact parseStrChars_plain c tail h1 h2 h8

/-- **escape round trip** -/
theorem parseStrChars_escape (s : List Char) (rest : List Char) :
    parseStrChars (s.flatMap escapeChar ++ '"' :: rest) = .ok (s, rest) := by
  induction s with
  | nil => simp [parseStrChars_quote]
  | cons c cs ih =>
    simp only [List.flatMap_cons, List.append_assoc]
    rw [parseStrChars_escapeChar, ih]; rfl

theorem renderStr_toList (s : String) : (renderStr s).toList = '"' :: (s.toList.flatMap escapeChar ++ ['"']) := by
  unfold renderStr; simp

/-- a printed string literal (after its opening quote) parses back to the string -/
theorem parseStr_renderStr (s : String) (rest : List Char) :
    parseStr (s.toList.flatMap escapeChar ++ '"' :: rest) = .ok (s, rest) := by
  unfold parseStr; rw [parseStrChars_escape]; simp

end AquaProps.JsonLemmas
