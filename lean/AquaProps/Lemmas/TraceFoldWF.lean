import AquaProps.Lemmas.TraceFoldTile
/-!
# Fold lore tiling for a whole fold driven with the executor's call discipline (C10)
-/
set_option linter.unusedSimpArgs false
set_option linter.unnecessarySimpa false

namespace Aqua.Trace
open Aqua Aqua.Data

/-- the operation is a fold operation of fold `id` -/
def HOp.mentions (id : Nat) : HOp → Bool
  | .foldStart i => i == id
  | .iterStart i _ => i == id
  | .iterEnd i => i == id
  | .backIter i => i == id
  | .genEnd i => i == id
  | .foldEnd i => i == id
  | _ => false

/-- operations that do not mention fold `id` leave its FSM alone -/
theorem fsm_neutral {h h' : TraceHandler} {op : HOp} {id : Nat} (hm : op.mentions id = false)
    (e : op.apply h = some h') : h'.fsm id = h.fsm id := by
  have fm : ∀ {h' : TraceHandler}, h'.foldMap = h.foldMap → h'.fsm id = h.fsm id := by
    intro h' hf; simp [TraceHandler.fsm, hf]
  have other : ∀ {i : Nat} {v : Option FoldFSM}, (i == id) = false →
      (∀ id', h'.fsm id' = if id' = i then v else h.fsm id') → h'.fsm id = h.fsm id := by
    intro i v hi hf
    have : ¬ id = i := by simp at hi; omega
    rw [hf id]; simp [this]
  cases op with
  | callStart =>
    simp only [HOp.apply, Option.map_eq_some_iff, resOk_eq_some] at e
    obtain ⟨⟨r, h1⟩, e, rfl⟩ := e
    exact fm (meetCallStart_eff e).2.2
  | apStart =>
    simp only [HOp.apply, Option.map_eq_some_iff, resOk_eq_some] at e
    obtain ⟨⟨r, h1⟩, e, rfl⟩ := e
    exact fm (meetApStart_eff e).2.2
  | canonStart =>
    simp only [HOp.apply, Option.map_eq_some_iff, resOk_eq_some] at e
    obtain ⟨⟨r, h1⟩, e, rfl⟩ := e
    exact fm (meetCanonStart_eff e).2.2
  | callEnd c => simp only [HOp.apply, Option.some.injEq] at e; subst e; rfl
  | apEnd gs => simp only [HOp.apply, Option.some.injEq] at e; subst e; rfl
  | canonEnd c => simp only [HOp.apply, Option.some.injEq] at e; subst e; rfl
  | parStart =>
    simp only [HOp.apply, resOk_eq_some] at e
    obtain ⟨f, _, _, _, _, hf⟩ := meetParStart_eff e
    exact fm hf
  | parEnd t =>
    simp only [HOp.apply, resOk_eq_some] at e
    cases t with
    | left => obtain ⟨_, _, _, _, _, hf⟩ := meetParSubgraphEnd_left_eff e; exact fm hf
    | right => obtain ⟨_, _, _, _, _, hf⟩ := meetParSubgraphEnd_right_eff e; exact fm hf
  | foldStart i =>
    simp only [HOp.apply, resOk_eq_some] at e
    obtain ⟨f, _, _, hf, _⟩ := meetFoldStart_eff e
    exact other (v := some f) hm hf
  | iterStart i vp =>
    simp only [HOp.apply, resOk_eq_some] at e
    obtain ⟨f, f', _, _, _, hf⟩ := meetIterationStart_eff e
    exact other (v := some f') hm hf
  | iterEnd i =>
    simp only [HOp.apply, resOk_eq_some] at e
    obtain ⟨f, f', _, _, _, _, hf⟩ := meetIterationEnd_eff e
    exact other (v := some f') hm hf
  | backIter i =>
    simp only [HOp.apply, resOk_eq_some] at e
    obtain ⟨f, f', _, _, _, hf⟩ := meetBackIterator_eff e
    exact other (v := some f') hm hf
  | genEnd i =>
    simp only [HOp.apply, resOk_eq_some] at e
    obtain ⟨f, f', _, _, _, _, hf⟩ := meetGenerationEnd_eff e
    exact other (v := some f') hm hf
  | foldEnd i =>
    simp only [HOp.apply, resOk_eq_some] at e
    obtain ⟨f, _, _, _, hf⟩ := meetFoldEnd_eff e
    exact other (v := none) hm hf
  | updateGeneration p g =>
    simp only [HOp.apply, resOk_eq_some] at e
    exact fm (updateGeneration_eff e).2.1

theorem length_le_of_apply {h h' : TraceHandler} {op : HOp} (e : op.apply h = some h') :
    h.tr.length ≤ h'.tr.length := by
  obtain ⟨t0, suffix, ht, hl, _, _⟩ := trace_eff op e
  rw [ht, List.length_append, hl]; omega

/-- an operation of another fold / a par / a push: allowed while an iteration runs -/
def foldStepOther : Phase → Option Phase
  | .fwd => some .fwd
  | .back => some .back
  | _ => none

/-- an operation of this fold -/
def foldStepOwn (ph : Phase) : HOp → Option Phase
  | .iterStart _ _ => (match ph with | .idle => some .fwd | .closed => some .fwd | _ => none)
  | .iterEnd _ => (match ph with | .fwd => some .closed | _ => none)
  | .backIter _ => (match ph with | .idle => none | _ => some .back)
  | .genEnd _ => (match ph with | .idle => none | _ => some .idle)
  | _ => none

/-- **The call discipline of one stream fold** (`fold_stream/stream_execute_helpers.rs`, `next.rs`): between
batches nothing happens; a batch is `meet_iteration_start`, then per iteration arbitrary other operations,
`meet_iteration_end` directly followed by the next `meet_iteration_start` or the first
`meet_back_iterator`; back traversal steps with `meet_back_iterator`; `meet_generation_end` may come at any
point of a batch (early exit).  `none` = the sequence leaves the discipline. -/
def foldStep (id : Nat) (ph : Phase) (op : HOp) : Option Phase :=
  if op.mentions id then foldStepOwn ph op else foldStepOther ph

/-- the log of one fold: the closed batches and the running one, each a list of
`(value_pos, result-trace length at meet_iteration_start)` -/
abbrev FoldLog := List (List (Nat × Nat)) × List (Nat × Nat)

def logStep (id : Nat) (op : HOp) (h : TraceHandler) (lg : FoldLog) : FoldLog :=
  match op with
  | .iterStart i vp => if i = id then (lg.1, lg.2 ++ [(vp, h.tr.length)]) else lg
  | .genEnd i => if i = id then (lg.1 ++ [lg.2], []) else lg
  | _ => lg

/-- run the body of fold `id` under the discipline, logging the iteration starts batch by batch -/
def runFold (id : Nat) : Phase → List HOp → TraceHandler → FoldLog → Option (Phase × TraceHandler × FoldLog)
  | ph, [], h, lg => some (ph, h, lg)
  | ph, op :: rest, h, lg =>
    match foldStep id ph op, op.apply h with
    | some ph', some h' => runFold id ph' rest h' (logStep id op h lg)
    | _, _ => none

theorem runFold_cons {id : Nat} {ph ph' : Phase} {op : HOp} {rest : List HOp} {h h' : TraceHandler} {lg lg'}
    (e : runFold id ph (op :: rest) h lg = some (ph', h', lg')) :
    ∃ ph1 h1, foldStep id ph op = some ph1 ∧ op.apply h = some h1 ∧
      runFold id ph1 rest h1 (logStep id op h lg) = some (ph', h', lg') := by
  simp only [runFold] at e
  split at e
  · rename_i ph1 h1 hs ha
    exact ⟨ph1, h1, hs, ha, e⟩
  · simp at e

theorem runFold_runOps {id : Nat} {ph ph' : Phase} {ops : List HOp} {h h' : TraceHandler} {lg lg'}
    (e : runFold id ph ops h lg = some (ph', h', lg')) : runOps ops h = some h' := by
  induction ops generalizing ph h lg with
  | nil => simp only [runFold, Option.some.injEq, Prod.mk.injEq] at e; simp [runOps, e.2.1]
  | cons op rest ih =>
    obtain ⟨ph1, h1, _, ha, e1⟩ := runFold_cons e
    simp [runOps, ha, ih e1]

theorem runFold_length_le {id : Nat} {ph ph' : Phase} {ops : List HOp} {h h' : TraceHandler} {lg lg'}
    (e : runFold id ph ops h lg = some (ph', h', lg')) : h.tr.length ≤ h'.tr.length := by
  induction ops generalizing ph h lg with
  | nil => simp only [runFold, Option.some.injEq, Prod.mk.injEq] at e; rw [e.2.1]; exact Nat.le_refl _
  | cons op rest ih =>
    obtain ⟨ph1, h1, _, ha, e1⟩ := runFold_cons e
    exact Nat.le_trans (length_le_of_apply ha) (ih e1)

/-- `(value_pos, begin of the before-part)` of a lore entry / of a constructor -/
def loreKey (l : FoldSubTraceLore) : Nat × Nat := (l.valuePos, (l.subtracesDesc.head?.map (·.beginPos)).getD 0)
def ctorKey (c : Ctor) : Nat × Nat := (c.valuePos, c.beforeStart)

/-- the lore is a sequence of non-empty batches, each laid out `B₁ … B_k A_k … A₁`, contiguous from `c` to `e` -/
inductive BatchesTile : Nat → List (List FoldSubTraceLore) → Nat → Prop
  | nil (c : Nat) : BatchesTile c [] c
  | batch (c m e : Nat) (lore : List FoldSubTraceLore) (its : List Iter) (rest : List (List FoldSubTraceLore)) :
      lore.mapM loreIter = some its → its ≠ [] → batchEnd c its = some m → BatchesTile m rest e →
      BatchesTile c (lore :: rest) e

theorem BatchesTile.snoc {c m e : Nat} {l : List (List FoldSubTraceLore)} {lore : List FoldSubTraceLore}
    {its : List Iter} (h : BatchesTile c l m)
    (h1 : lore.mapM loreIter = some its) (h2 : its ≠ []) (h3 : batchEnd m its = some e) :
    BatchesTile c (l ++ [lore]) e := by
  induction h with
  | nil c => exact .batch c e e lore its [] h1 h2 h3 (.nil e)
  | batch c m' e' lore' its' rest a b d _ ih => exact .batch c m' e lore' its' (rest ++ [lore]) a b d (ih h3)

/-- the invariant of fold `id` (reserved position `F`) between two operations -/
def FInv (id F : Nat) (ph : Phase) (h : TraceHandler) (lg : FoldLog) : Prop :=
  ∃ f c0 lbs, h.fsm id = some f ∧ f.inserterPos = F ∧ ShapeOf ph c0 h.tr.length f ∧
    f.resultLore = lbs.flatten ∧ BatchesTile (F + 1) lbs c0 ∧
    lbs.map (List.map loreKey) = lg.1 ∧ f.ctors.map ctorKey = lg.2

theorem set_self_of_getElem? {α : Type} (l : List α) (i : Nat) (x : α) (h : l[i]? = some x) : l.set i x = l := by
  apply List.ext_getElem?
  intro j
  by_cases hij : i = j
  · subst hij
    rw [List.getElem?_set_self (by rcases List.getElem?_eq_some_iff.mp h with ⟨h, _⟩; exact h), h]
  · rw [List.getElem?_set_ne hij]

theorem keys_set {cs : List Ctor} {i : Nat} {c c' : Ctor} (hi : cs[i]? = some c) (hk : ctorKey c' = ctorKey c) :
    (cs.set i c').map ctorKey = cs.map ctorKey := by
  rw [List.map_set, hk]
  exact set_self_of_getElem? _ _ _ (by simp [List.getElem?_map, hi])

theorem loreKey_of_iter {lore : List FoldSubTraceLore} {its : List Iter} (h : lore.mapM loreIter = some its) :
    lore.map loreKey = (lore.map (·.valuePos)).zip (its.map (·.b)) := by
  induction lore generalizing its with
  | nil => simp
  | cons l rest ih =>
    simp only [List.mapM_cons, Option.bind_eq_bind, Option.bind_eq_some_iff, Option.pure_def, Option.some.injEq] at h
    obtain ⟨it, hit, its', hits, rfl⟩ := h
    have : loreKey l = (l.valuePos, it.b) := by
      unfold loreIter at hit
      split at hit
      · rename_i d0 d1 hd
        simp only [Option.some.injEq] at hit; subst hit
        simp [loreKey, hd]
      · simp at hit
    simp [this, ih hits]

theorem zip_map_map {α β γ : Type} (l : List α) (g : α → β) (k : α → γ) :
    (l.map g).zip (l.map k) = l.map fun x => (g x, k x) := by
  induction l with
  | nil => rfl
  | cons a rest ih => simp [ih]

theorem ctorKey_maybeBeforeEnd (c : Ctor) (k : DataKeeper) : ctorKey ((c.maybeBeforeEnd k).afterStart' k) = ctorKey c := by
  unfold SubTraceLoreCtor.maybeBeforeEnd
  split <;> rfl

/-- one operation keeps the fold invariant -/
theorem finv_step {id F : Nat} {ph ph' : Phase} {op : HOp} {h h' : TraceHandler} {lg : FoldLog}
    (hstep : foldStep id ph op = some ph') (ha : op.apply h = some h') (hb : h'.tr.length ≤ u32Max)
    (inv : FInv id F ph h lg) : FInv id F ph' h' (logStep id op h lg) := by
  obtain ⟨f, c0, lbs, hf, hip, sh, hL, hT, hK1, hK2⟩ := inv
  by_cases hm : op.mentions id = false
  · -- an operation that does not belong to this fold: the FSM is untouched, the trace may have grown
    simp only [foldStep, hm, Bool.false_eq_true, if_false, foldStepOther] at hstep
    have hfs := fsm_neutral hm ha
    have hlen := length_le_of_apply ha
    have hkey : logStep id op h lg = lg := by
      cases op <;> simp_all [logStep, HOp.mentions]
      all_goals (intro hh; omega)
    rw [hkey]
    cases ph <;> simp only [Option.some.injEq, reduceCtorEq] at hstep
    · subst hstep; exact ⟨f, c0, lbs, by rw [hfs]; exact hf, hip, sh.mono_fwd hlen, hL, hT, hK1, hK2⟩
    · subst hstep; exact ⟨f, c0, lbs, by rw [hfs]; exact hf, hip, sh.mono_back hlen, hL, hT, hK1, hK2⟩
  · have hm' : op.mentions id = true := by simpa using hm
    cases op with
    | iterStart i vp =>
      have hi : i = id := by simpa [HOp.mentions] using hm'
      subst hi
      simp only [HOp.apply, resOk_eq_some] at ha
      obtain ⟨f0, f', hf0, hk, _, hfs⟩ := meetIterationStart_eff ha
      rw [hf] at hf0; have hff : f = f0 := Option.some.inj hf0; subst hff
      obtain ⟨ht, hip', hrl, hc', _, _⟩ := FoldFSM.meetIterationStart_eff hk
      have hlen : h'.tr.length = h.tr.length := by simp [TraceHandler.tr, ht]
      have hf' : h'.fsm i = some f' := by rw [hfs i]; simp
      have hK' : f'.ctors.map ctorKey = (logStep i (.iterStart i vp) h lg).2 := by
        rw [hc', List.map_append, hK2]
        simp [logStep, ctorKey, TraceHandler.tr]
      have hK1' : lbs.map (List.map loreKey) = (logStep i (.iterStart i vp) h lg).1 := by simp [logStep, hK1]
      cases ph <;> simp [foldStep, foldStepOwn, HOp.mentions] at hstep <;> subst hstep
      · refine ⟨f', c0, lbs, hf', by rw [hip', hip], ?_, by rw [hrl]; exact hL, hT, hK1', hK'⟩
        rw [hlen]; exact shape_iterStart_idle rfl sh hk
      · refine ⟨f', c0, lbs, hf', by rw [hip', hip], ?_, by rw [hrl]; exact hL, hT, hK1', hK'⟩
        rw [hlen]; exact shape_iterStart_closed rfl sh hk
    | iterEnd i =>
      have hi : i = id := by simpa [HOp.mentions] using hm'
      subst hi
      simp only [HOp.apply, resOk_eq_some] at ha
      obtain ⟨f0, f', hf0, hk, hkeep, _, hfs⟩ := meetIterationEnd_eff ha
      rw [hf] at hf0; have hff : f = f0 := Option.some.inj hf0; subst hff
      obtain ⟨j, c, _, hcj, hc', hip', hrl, _, _⟩ := FoldFSM.meetIterationEnd_eff hk
      have hlen : h'.tr.length = h.tr.length := by simp [TraceHandler.tr, hkeep]
      have hf' : h'.fsm i = some f' := by rw [hfs i]; simp
      have hK' : f'.ctors.map ctorKey = lg.2 := by
        rw [hc', keys_set (c' := c.beforeEnd' h.keeper) hcj rfl, hK2]
      cases ph <;> simp [foldStep, foldStepOwn, HOp.mentions] at hstep <;> subst hstep
      refine ⟨f', c0, lbs, hf', by rw [hip', hip], ?_, by rw [hrl]; exact hL, hT, hK1, hK'⟩
      rw [hlen]; exact shape_iterEnd rfl sh hk
    | backIter i =>
      have hi : i = id := by simpa [HOp.mentions] using hm'
      subst hi
      simp only [HOp.apply, resOk_eq_some] at ha
      obtain ⟨f0, f', hf0, hk, _, hfs⟩ := meetBackIterator_eff ha
      rw [hf] at hf0; have hff : f = f0 := Option.some.inj hf0; subst hff
      have hf' : h'.fsm i = some f' := by rw [hfs i]; simp
      have facts : h'.keeper.resultTrace = h.keeper.resultTrace ∧ f'.inserterPos = f.inserterPos ∧
          f'.resultLore = f.resultLore ∧ f'.ctors.map ctorKey = f.ctors.map ctorKey := by
        cases hst : f.backTraversalStarted with
        | false =>
          obtain ⟨j, c, _, hcj, hc', ht, hip', hrl, _, _⟩ := FoldFSM.meetBackIterator_first_eff hst hk
          exact ⟨ht, hip', hrl, by rw [hc', keys_set (c' := (c.maybeBeforeEnd h.keeper).afterStart' h.keeper) hcj (ctorKey_maybeBeforeEnd c _)]⟩
        | true =>
          obtain ⟨j, c, c2, _, hcj1, hcj, hc', ht, hip', hrl, _, _⟩ := FoldFSM.meetBackIterator_next_eff hst hk
          refine ⟨ht, hip', hrl, ?_⟩
          rw [hc']
          have h1 : (f.ctors.set (j + 1) (c.afterEnd' h.keeper))[j]? = some c2 := by
            rw [List.getElem?_set_ne (by omega)]; exact hcj
          rw [keys_set (c' := c2.afterStart' h.keeper) h1 rfl, keys_set (c' := c.afterEnd' h.keeper) hcj1 rfl]
      obtain ⟨ht, hip', hrl, hkeys⟩ := facts
      have hlen : h'.tr.length = h.tr.length := by simp [TraceHandler.tr, ht]
      have hK' : f'.ctors.map ctorKey = lg.2 := by rw [hkeys, hK2]
      cases ph <;> simp [foldStep, foldStepOwn, HOp.mentions] at hstep <;> subst hstep
      · refine ⟨f', c0, lbs, hf', by rw [hip', hip], ?_, by rw [hrl]; exact hL, hT, hK1, hK'⟩
        rw [hlen]; exact shape_backIter_fwd rfl sh hk
      · refine ⟨f', c0, lbs, hf', by rw [hip', hip], ?_, by rw [hrl]; exact hL, hT, hK1, hK'⟩
        rw [hlen]; exact shape_backIter_closed rfl sh hk
      · refine ⟨f', c0, lbs, hf', by rw [hip', hip], ?_, by rw [hrl]; exact hL, hT, hK1, hK'⟩
        rw [hlen]; exact shape_backIter_back rfl sh hk
    | genEnd i =>
      have hi : i = id := by simpa [HOp.mentions] using hm'
      subst hi
      simp only [HOp.apply, resOk_eq_some] at ha
      obtain ⟨f0, f', hf0, hk, hkeep, _, hfs⟩ := meetGenerationEnd_eff ha
      rw [hf] at hf0; have hff : f = f0 := Option.some.inj hf0; subst hff
      have hlen : h'.tr.length = h.tr.length := by simp [TraceHandler.tr, hkeep]
      have hf' : h'.fsm i = some f' := by rw [hfs i]; simp
      have hph : ph ≠ .idle := by intro hh; subst hh; simp [foldStep, foldStepOwn, HOp.mentions] at hstep
      have hph' : ph' = .idle := by cases ph <;> simp_all [foldStep, foldStepOwn, HOp.mentions]
      subst hph'
      obtain ⟨lore, its, hrl, hits, hne, hbe, hvp, hbs, shI, hip'⟩ :=
        shape_genEnd hph rfl (by rw [← hlen]; exact hb) sh hk
      refine ⟨f', h.tr.length, lbs ++ [lore], hf', by rw [hip', hip], ?_, ?_, hT.snoc hits hne hbe, ?_, ?_⟩
      · rw [hlen]; exact shI
      · rw [hrl, hL]; simp
      · simp only [logStep, if_true, List.map_append, List.map_cons, List.map_nil, hK1]
        congr 2
        rw [loreKey_of_iter hits, hvp, hbs, zip_map_map, ← hK2]
        rfl
      · obtain ⟨hc', _⟩ := shI
        simp [logStep, hc']
    | foldStart i => simp [foldStep, foldStepOwn, hm'] at hstep
    | foldEnd i => simp [foldStep, foldStepOwn, hm'] at hstep
    | callStart => simp [HOp.mentions] at hm'
    | callEnd c => simp [HOp.mentions] at hm'
    | apStart => simp [HOp.mentions] at hm'
    | apEnd g => simp [HOp.mentions] at hm'
    | canonStart => simp [HOp.mentions] at hm'
    | canonEnd c => simp [HOp.mentions] at hm'
    | parStart => simp [HOp.mentions] at hm'
    | parEnd t => simp [HOp.mentions] at hm'
    | updateGeneration p g => simp [HOp.mentions] at hm'

theorem finv_run {id F : Nat} {ph ph' : Phase} {ops : List HOp} {h h' : TraceHandler} {lg lg' : FoldLog}
    (e : runFold id ph ops h lg = some (ph', h', lg')) (hb : h'.tr.length ≤ u32Max) (inv : FInv id F ph h lg) :
    FInv id F ph' h' lg' := by
  induction ops generalizing ph h lg with
  | nil =>
    simp only [runFold, Option.some.injEq, Prod.mk.injEq] at e
    obtain ⟨rfl, rfl, rfl⟩ := e
    exact inv
  | cons op rest ih =>
    obtain ⟨ph1, h1, hs, ha, e1⟩ := runFold_cons e
    have hb1 : h1.tr.length ≤ u32Max := Nat.le_trans (runFold_length_le e1) hb
    exact ih e1 (finv_step hs ha hb1 inv)

/-- **One stream fold.**  `meet_fold_start id`, then a body that follows the call discipline (`runFold … idle`
ends `idle`), then `meet_fold_end id`: the reserved position holds `Fold(lore)`, the lore is a sequence of
non-empty batches (one per `meet_generation_end`) laid out contiguously from the position after the fold entry
to the end of the trace (no gap, no overlap), and entry `i` of a batch carries the value position passed to the
`i`-th `meet_iteration_start` of that batch with its before-part beginning at the result-trace length at that
call. -/
theorem fold_block {id : Nat} {h0 h1 h2 h3 : TraceHandler} {body : List HOp} {lg : FoldLog}
    (e1 : h0.meetFoldStart id = .ok h1) (e2 : runFold id .idle body h1 ([], []) = some (.idle, h2, lg))
    (e3 : h2.meetFoldEnd id = .ok h3) (hb : h3.tr.length ≤ u32Max) :
    ∃ lbs, h3.tr[h0.tr.length]? = some (.fold lbs.flatten) ∧ BatchesTile (h0.tr.length + 1) lbs h3.tr.length ∧
      lbs.map (List.map loreKey) = lg.1 ∧ lg.2 = [] ∧ h3.tr.length = h2.tr.length ∧
      h1.tr = h0.tr ++ [.par 0 0] := by
  obtain ⟨f, ht1, _, hfs1, hip, hq, hbt, hst, hrl⟩ := meetFoldStart_eff e1
  have inv1 : FInv id h0.tr.length .idle h1 ([], []) := by
    refine ⟨f, h0.tr.length + 1, [], by rw [hfs1 id]; simp, hip, ?_, by simp [hrl], .nil _, rfl, ?_⟩
    · exact ⟨by simp [FoldFSM.ctors, hq], hbt, hst, by rw [ht1]; simp⟩
    · simp [FoldFSM.ctors, hq]
  obtain ⟨f3, hf3, ht3, _, _⟩ := meetFoldEnd_eff e3
  have hlen3 : h3.tr.length = h2.tr.length := by rw [ht3]; simp [setAt]
  obtain ⟨f2, c0, lbs, hf2, hip2, sh2, hL, hT, hK1, hK2⟩ := finv_run e2 (by rw [← hlen3]; exact hb) inv1
  rw [hf2] at hf3
  have hff : f2 = f3 := Option.some.inj hf3
  subst hff
  obtain ⟨hc, _, _, hc0⟩ := sh2
  have hlt : h0.tr.length < h2.tr.length := by
    have := runFold_length_le e2
    rw [ht1] at this; simp at this; omega
  refine ⟨lbs, ?_, ?_, hK1, ?_, hlen3, ht1⟩
  · rw [ht3, hip2, hL]; unfold setAt; rw [List.getElem?_set_self hlt]
  · rw [hlen3, ← hc0]; exact hT
  · rw [← hK2, hc]; rfl

end Aqua.Trace
