import Aqua.Air.Unbeautify
/-! Text-level lemmas for C28: words, tokens, the `call` line reader, line classification. -/
namespace AquaProps.Lemmas.BeautifierText
open Aqua.Air Aqua.Air.Beautifier Aqua.Air.Unbeautify

theorem takeWhile_append_all {α} (p : α → Bool) (l₁ l₂ : List α) (h : ∀ x ∈ l₁, p x = true) :
    (l₁ ++ l₂).takeWhile p = l₁ ++ l₂.takeWhile p := by
  induction l₁ with
  | nil => rfl
  | cons a l ih =>
    have ha : p a = true := h a (by simp)
    simp [ha, ih (fun x hx => h x (by simp [hx]))]

theorem dropWhile_append_all {α} (p : α → Bool) (l₁ l₂ : List α) (h : ∀ x ∈ l₁, p x = true) :
    (l₁ ++ l₂).dropWhile p = l₂.dropWhile p := by
  induction l₁ with
  | nil => rfl
  | cons a l ih =>
    have ha : p a = true := h a (by simp)
    simp [ha, ih (fun x hx => h x (by simp [hx]))]

theorem firstWord_append_space (kw rest : Text) (h : ∀ c ∈ kw, c ≠ ' ') :
    firstWord (kw ++ ' ' :: rest) = kw := by
  unfold firstWord
  rw [takeWhile_append_all _ _ _ (by intro x hx; simpa using h x hx)]
  simp

theorem afterFirstWord_append_space (kw rest : Text) (h : ∀ c ∈ kw, c ≠ ' ') :
    afterFirstWord (kw ++ ' ' :: rest) = rest := by
  unfold afterFirstWord
  rw [dropWhile_append_all _ _ _ (by intro x hx; simpa using h x hx)]
  simp

/-- the first character after a token is a delimiter (or the text ends) -/
def delimited (rest : Text) : Prop := rest = [] ∨ ∃ c r, rest = c :: r ∧ isTokChar c = false

theorem tokWF_cases (t : Text) (h : tokWF t = true) :
    (∃ body, t = '"' :: body ++ ['"'] ∧ ∀ c ∈ body, c ≠ '"') ∨
    (t ≠ [] ∧ (∀ c ∈ t, isTokChar c = true)) := by
  unfold tokWF at h
  split at h
  · rename_i rest
    left
    split at h
    · rename_i hl
      obtain ⟨ys, rfl⟩ := List.getLast?_eq_some_iff.mp hl
      refine ⟨ys, by simp, ?_⟩
      intro c hc hcq
      subst hcq
      simp at h
      exact h hc
    · simp at h
  · right
    simp at h
    refine ⟨?_, ?_⟩
    · intro h0; simp [h0] at h
    · intro c hc; exact h.2 c hc

theorem readTok_append (t rest : Text) (h : tokWF t = true) (hd : delimited rest) :
    readTok (t ++ rest) = some (t, rest) := by
  rcases tokWF_cases t h with ⟨body, rfl, hb⟩ | ⟨hne, hall⟩
  · have h1 : ∀ x ∈ body, (x != '"') = true := by intro x hx; simpa using hb x hx
    simp only [List.cons_append, List.append_assoc, readTok]
    rw [dropWhile_append_all _ _ _ h1, takeWhile_append_all _ _ _ h1]
    simp
  · cases t with
    | nil => exact absurd rfl hne
    | cons a t' =>
      have ha : isTokChar a = true := hall a (by simp)
      have haq : a ≠ '"' := by intro h0; subst h0; simp [isTokChar] at ha
      have : readTok ((a :: t') ++ rest) =
          (let tok := ((a :: t') ++ rest).takeWhile isTokChar
           if tok.isEmpty then none else some (tok, ((a :: t') ++ rest).dropWhile isTokChar)) := by
        simp only [List.cons_append]
        unfold readTok
        split
        · rename_i heq; simp at heq; exact absurd heq.1 haq
        · rfl
      rw [this]
      rw [takeWhile_append_all _ _ _ hall, dropWhile_append_all _ _ _ hall]
      rcases hd with rfl | ⟨c, r, rfl, hc⟩
      · simp
      · simp [hc]

theorem tokWF_ne_nil (t : Text) (h : tokWF t = true) : t ≠ [] := by
  rcases tokWF_cases t h with ⟨body, rfl, _⟩ | ⟨hne, _⟩
  · simp
  · exact hne

theorem joinText_ne_nil (sep : Text) (a : Text) (as : List Text) (h : a ≠ []) : joinText sep (a :: as) ≠ [] := by
  cases as with
  | nil => simpa [joinText] using h
  | cons b bs => simp [joinText, h]

theorem expect_append (pre t : Text) : expect pre (pre ++ t) = some t := by
  simp [expect]

theorem readArgs_join (args : List Text) (h : ∀ a ∈ args, tokWF a = true) :
    ∀ f, args.length + 1 ≤ f → readArgs f (joinText ", ".toList args) = some args := by
  induction args with
  | nil => intro f hf; cases f with
    | zero => omega
    | succ f => simp [joinText, readArgs]
  | cons a as ih =>
    intro f hf
    cases f with
    | zero => omega
    | succ f =>
      have ha := h a (by simp)
      have hane := tokWF_ne_nil a ha
      cases as with
      | nil =>
        have : joinText ", ".toList [a] = a := rfl
        rw [this]
        cases a with
        | nil => exact absurd rfl hane
        | cons c cs =>
          have hr := readTok_append (c :: cs) [] ha (Or.inl rfl)
          simp only [List.append_nil] at hr
          simp [readArgs, hr]
      | cons b bs =>
        have hb := h b (by simp)
        have hbne := tokWF_ne_nil b hb
        have hj : joinText ", ".toList (a :: b :: bs) = a ++ (", ".toList ++ joinText ", ".toList (b :: bs)) := by
          simp [joinText]
        rw [hj]
        have hr := readTok_append a (", ".toList ++ joinText ", ".toList (b :: bs)) ha
          (Or.inr ⟨',', ' ' :: joinText ", ".toList (b :: bs), by simp, by decide⟩)
        have ih' := ih (fun x hx => h x (by simp [hx])) f (by simp at hf ⊢; omega)
        have hne2 := joinText_ne_nil ", ".toList b bs hbne
        cases a with
        | nil => exact absurd rfl hane
        | cons c cs =>
          cases hj2 : joinText ", ".toList (b :: bs) with
          | nil => exact absurd hj2 hne2
          | cons x xs =>
            rw [hj2] at hr ih'
            simp only [List.cons_append] at hr ⊢
            simp only [readArgs, hr]
            have he : expect [',', ' '] (',' :: ' ' :: x :: xs) = some (x :: xs) := expect_append [',', ' '] _
            have hc : ", ".toList ++ x :: xs = ',' :: ' ' :: x :: xs := rfl
            have hc2 : ", ".toList = [',', ' '] := rfl
            simp only [Option.bind_some, hc2, List.cons_append, List.nil_append, he, ih', Option.map_some]

theorem length_le_joinText (sep : Text) (args : List Text) (h : ∀ a ∈ args, a ≠ []) :
    args.length ≤ (joinText sep args).length := by
  induction args with
  | nil => simp [joinText]
  | cons a as ih =>
    have ha : 1 ≤ a.length := by
      have := h a (by simp)
      cases a with
      | nil => exact absurd rfl this
      | cons _ _ => simp
    cases as with
    | nil => simpa [joinText] using ha
    | cons b bs =>
      have := ih (fun x hx => h x (by simp [hx]))
      simp only [joinText, List.length_append, List.length_cons] at this ⊢
      omega

/-- the `call` part of a line, as the output language has it -/
def callCore (p s f : Text) (args : List Text) : Text :=
  "call ".toList ++ (p ++ (" (".toList ++ (s ++ (", ".toList ++ (f ++ (") [".toList ++ (joinText ", ".toList args ++ [']'])))))))

theorem readCallRest_callCore (p s f : Text) (args : List Text)
    (hp : tokWF p = true) (hs : tokWF s = true) (hf : tokWF f = true) (ha : ∀ a ∈ args, tokWF a = true) :
    readCallRest (callCore p s f args) = some (p, s, f, args) := by
  unfold readCallRest callCore
  rw [expect_append]
  simp only [Option.bind_some]
  rw [readTok_append p _ hp (by exact Or.inr ⟨' ', _, rfl, by decide⟩)]
  simp only [Option.bind_some]
  rw [expect_append]
  simp only [Option.bind_some]
  rw [readTok_append s _ hs (by exact Or.inr ⟨',', _, rfl, by decide⟩)]
  simp only [Option.bind_some]
  rw [expect_append]
  simp only [Option.bind_some]
  rw [readTok_append f _ hf (by exact Or.inr ⟨')', _, rfl, by decide⟩)]
  simp only [Option.bind_some]
  rw [expect_append]
  simp only [Option.bind_some, List.getLast?_concat, List.dropLast_concat]
  rw [readArgs_join args ha]
  · simp
  · have := length_le_joinText ", ".toList args (fun a h => tokWF_ne_nil a (ha a h))
    simp only [List.length_append, List.length_cons, List.length_nil]
    omega

theorem classify_of_space (t : Text) (h : ' ' ∈ t) :
    classify t =
      if firstWord t ∈ kwSimple then .simple
      else if firstWord t ∈ kwBlock then .block
      else if firstWord t = "call".toList then .call
      else if secondWord t = "<-".toList then .callOut
      else .unknown := by
  have h1 : t ≠ "par:".toList := by intro e; subst e; simp at h
  have h2 : t ≠ "try:".toList := by intro e; subst e; simp at h
  have h3 : t ≠ "|".toList := by intro e; subst e; simp at h
  have h4 : t ≠ "catch:".toList := by intro e; subst e; simp at h
  have h5 : t ≠ "last:".toList := by intro e; subst e; simp at h
  unfold classify
  simp only [h1, h2, h3, h4, h5, if_false, or_self]

theorem kwSimple_no_space : ∀ kw ∈ kwSimple, ∀ c ∈ kw, c ≠ ' ' := by decide
theorem kwBlock_no_space : ∀ kw ∈ kwBlock, ∀ c ∈ kw, c ≠ ' ' := by decide
theorem kwBlock_not_simple : ∀ kw ∈ kwBlock, kw ∉ kwSimple := by decide

theorem classify_kwSimple (kw rest : Text) (h : kw ∈ kwSimple) : classify (kw ++ ' ' :: rest) = .simple := by
  rw [classify_of_space _ (by simp), firstWord_append_space _ _ (kwSimple_no_space kw h)]
  simp [h]

theorem classify_kwBlock (kw rest : Text) (h : kw ∈ kwBlock) : classify (kw ++ ' ' :: rest) = .block := by
  rw [classify_of_space _ (by simp), firstWord_append_space _ _ (kwBlock_no_space kw h)]
  simp [h, kwBlock_not_simple kw h]

theorem classify_call (rest : Text) : classify ("call".toList ++ ' ' :: rest) = .call := by
  rw [classify_of_space _ (by simp), firstWord_append_space _ _ (by decide)]
  have h1 : "call".toList ∉ kwSimple := by decide
  have h2 : "call".toList ∉ kwBlock := by decide
  simp only [h1, h2, if_false, if_true]

theorem outWF_cases (n : Text) (h : outWF n = true) :
    n ≠ [] ∧ (∀ c ∈ n, c ≠ ' ') ∧ n ∉ reserved := by
  unfold outWF at h
  simp at h
  refine ⟨?_, ?_, ?_⟩
  · intro e; simp [e] at h
  · intro c hc; exact h.1.2 c hc
  · exact h.2

theorem classify_callOut (n rest : Text) (h : outWF n = true) :
    classify (n ++ ' ' :: '<' :: '-' :: ' ' :: rest) = .callOut := by
  obtain ⟨_, hsp, hres⟩ := outWF_cases n h
  have hs : n ∉ kwSimple := by intro hm; exact hres (by simp [reserved, hm])
  have hb : n ∉ kwBlock := by intro hm; exact hres (by simp [reserved, hm])
  have hc : n ≠ "call".toList := by intro hm; exact hres (by simp [reserved, hm])
  rw [classify_of_space _ (by simp), firstWord_append_space _ _ hsp]
  have h2 : secondWord (n ++ ' ' :: '<' :: '-' :: ' ' :: rest) = "<-".toList := by
    unfold secondWord
    rw [afterFirstWord_append_space _ _ hsp]
    exact firstWord_append_space ['<', '-'] rest (by decide)
  simp only [hs, hb, hc, h2, if_false, if_true]

theorem stripColon_concat (h : Text) : stripColon (h ++ [':']) = some h := by
  simp [stripColon]

end AquaProps.Lemmas.BeautifierText
