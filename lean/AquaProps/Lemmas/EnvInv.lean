import AquaProps.Lemmas.Pres
/-!
The C17 invariant on execution contexts.

`PairOK env cid t p` — a (tetraplet, provenance) pair is *justified by the data*: when the provenance
is a service result, the tetraplet is a lens-extension of a tetraplet whose CID is a key of the
tetraplet store — or it is the erased one a functor leaves behind.  (CIDs are content addresses;
`Keyed` says the tetraplet store's keys are the CIDs of its values, which the preparation stage
verifies for incoming data.)

`EnvInv env c` (in `EnvInvExec.lean`) — every aggregate in the scalar store (all cells, all fold
iterables), in the stream store, in the canon streams and both error descriptors are justified by
`c.cid`, and `c.cid.tetraplets` is keyed by content.
-/
namespace AquaProps
open Aqua Aqua.Exec Aqua.Air Aqua.Trace Aqua.Json Aqua.Data

def Keyed (env : Env) (cid : CidState) : Prop := ∀ e ∈ cid.tetraplets, e.1 = env.hash e.2.json

def IsErased (t : Tetraplet) : Prop := t.peerPk = "" ∧ t.serviceId = "" ∧ t.functionName = ""

/-- `t` extends (by a lens) a tetraplet whose content id is a key of the tetraplet store -/
def Recorded (env : Env) (cid : CidState) (t : Tetraplet) : Prop :=
  ∃ (t0 : Tetraplet) (l : String), env.hash t0.json ∈ keys cid.tetraplets ∧ t = t0.addLens l

def PairOK (env : Env) (cid : CidState) (t : Tetraplet) : Provenance → Prop
  | .serviceResult _ => IsErased t ∨ Recorded env cid t
  | _ => True

abbrev TP := Tetraplet → Provenance → Prop

/-- closure properties every instance of the pair predicate used below has -/
structure LensClosed (P : TP) : Prop where
  addLens : ∀ t p l, P t p → P (t.addLens l) p
  erased : ∀ t p, IsErased t → P t p
  nonService : ∀ t p, (∀ k, p ≠ .serviceResult k) → P t p

theorem addLens_addLens (t : Tetraplet) (a b : String) : (t.addLens a).addLens b = t.addLens (a ++ b) := by
  simp [Tetraplet.addLens, String.append_assoc]

theorem addLens_empty (t : Tetraplet) : t.addLens "" = t := by
  cases t; simp [Tetraplet.addLens]

theorem erased_addLens {t : Tetraplet} (l : String) (h : IsErased t) : IsErased (t.addLens l) := h

theorem pairOK_closed (env : Env) (cid : CidState) : LensClosed (PairOK env cid) where
  addLens := by
    intro t p l h
    cases p with
    | serviceResult k =>
      rcases h with h | ⟨t0, l0, h1, h2⟩
      · exact Or.inl (erased_addLens l h)
      · exact Or.inr ⟨t0, l0 ++ l, h1, by rw [h2, addLens_addLens]⟩
    | literal => trivial
    | canon _ => trivial
  erased := by
    intro t p h
    cases p with
    | serviceResult k => exact Or.inl h
    | literal => trivial
    | canon _ => trivial
  nonService := by
    intro t p h
    cases p with
    | serviceResult k => exact absurd rfl (h k)
    | literal => trivial
    | canon _ => trivial

theorem populate_ok {P : TP} (hP : LensClosed P) {t : Tetraplet} {p : Provenance} (l : Lambda) (h : P t p) :
    P (populateTetrapletWithLambda t l) p := by
  cases l with
  | path as => exact hP.addLens _ _ _ h
  | functorLength => exact hP.erased _ _ ⟨rfl, rfl, rfl⟩

theorem new_ok {P : TP} (hP : LensClosed P) (v : JVal) {t : Tetraplet} (pos : Nat) {p : Provenance} (h : P t p) :
    P (ValueAggregate.new v t pos p).tetraplet (ValueAggregate.new v t pos p).provenance := by
  cases p with
  | serviceResult k => exact h
  | literal => exact hP.nonService _ _ (by intro k hk; cases hk)
  | canon c => exact hP.nonService _ _ (by intro k hk; cases hk)

/-! ## growth of the CID stores -/

/-- the keys of the tetraplet store only grow -/
def KeysGrow (a b : CidState) : Prop := ∀ k, k ∈ keys a.tetraplets → k ∈ keys b.tetraplets

theorem KeysGrow.refl (a : CidState) : KeysGrow a a := fun _ h => h
theorem KeysGrow.trans {a b c : CidState} (h1 : KeysGrow a b) (h2 : KeysGrow b c) : KeysGrow a c := fun k h => h2 k (h1 k h)

theorem pairOK_mono {env : Env} {a b : CidState} (g : KeysGrow a b) {t : Tetraplet} {p : Provenance}
    (h : PairOK env a t p) : PairOK env b t p := by
  cases p with
  | serviceResult k =>
    rcases h with h | ⟨t0, l, h1, h2⟩
    · exact Or.inl h
    · exact Or.inr ⟨t0, l, g _ h1, h2⟩
  | literal => trivial
  | canon _ => trivial

theorem keyed_trackTetraplet {env : Env} {s : CidState} (t : Tetraplet) (h : Keyed env s) :
    Keyed env (trackTetraplet env s t).2 := by
  intro e he
  simp only [trackTetraplet] at he
  rcases mem_upsert he with h1 | h1
  · exact h e h1
  · subst h1; rfl

theorem keysGrow_trackTetraplet (env : Env) (s : CidState) (t : Tetraplet) : KeysGrow s (trackTetraplet env s t).2 := by
  intro k hk
  simp only [trackTetraplet]
  exact keys_upsert_mono _ _ _ hk

theorem key_trackTetraplet (env : Env) (s : CidState) (t : Tetraplet) : env.hash t.json ∈ keys (trackTetraplet env s t).2.tetraplets := by
  simp only [trackTetraplet]
  exact key_mem_upsert _ _ _

theorem trackValue_tetraplets (env : Env) (s : CidState) (v : JVal) : (trackValue env s v).2.tetraplets = s.tetraplets := rfl

theorem keysGrow_trackServiceResult (env : Env) (s : CidState) (v : JVal) (t : Tetraplet) (ah : String) :
    KeysGrow s (trackServiceResult env s v t ah).2 := by
  intro k hk
  simp only [trackServiceResult, trackValue, trackTetraplet]
  exact keys_upsert_mono _ _ _ hk

theorem keyed_trackServiceResult {env : Env} {s : CidState} (v : JVal) (t : Tetraplet) (ah : String) (h : Keyed env s) :
    Keyed env (trackServiceResult env s v t ah).2 := by
  intro e he
  simp only [trackServiceResult, trackValue, trackTetraplet] at he
  rcases mem_upsert he with h1 | h1
  · exact h e h1
  · subst h1; rfl

/-- the freshly tracked result is recorded with the call's tetraplet -/
theorem recorded_trackServiceResult (env : Env) (s : CidState) (v : JVal) (t : Tetraplet) (ah : String) :
    Recorded env (trackServiceResult env s v t ah).2 t := by
  refine ⟨t, "", ?_, (addLens_empty t).symm⟩
  simp only [trackServiceResult, trackValue, trackTetraplet]
  exact key_mem_upsert _ _ _

theorem keyed_trackCanonValue {env : Env} {s : CidState} (v : ValueAggregate) (h : Keyed env s) : Keyed env (trackCanonValue env s v).2 := by
  intro e he
  simp only [trackCanonValue, trackValue, trackTetraplet] at he
  rcases mem_upsert he with h1 | h1
  · exact h e h1
  · subst h1; rfl

theorem keysGrow_trackCanonValue (env : Env) (s : CidState) (v : ValueAggregate) : KeysGrow s (trackCanonValue env s v).2 := by
  intro k hk
  simp only [trackCanonValue, trackValue, trackTetraplet]
  exact keys_upsert_mono _ _ _ hk

theorem trackCanonValues_ok (env : Env) : ∀ (vals : List ValueAggregate) (acc : List Cid × CidState),
    KeysGrow acc.2 (vals.foldl (fun (acc : List Cid × CidState) v => let (cid, s') := trackCanonValue env acc.2 v; (acc.1 ++ [cid], s')) acc).2 ∧
    (Keyed env acc.2 → Keyed env (vals.foldl (fun (acc : List Cid × CidState) v => let (cid, s') := trackCanonValue env acc.2 v; (acc.1 ++ [cid], s')) acc).2)
  | [], acc => ⟨KeysGrow.refl _, id⟩
  | v :: rest, acc => by
    simp only [List.foldl_cons]
    have ih := trackCanonValues_ok env rest (acc.1 ++ [(trackCanonValue env acc.2 v).1], (trackCanonValue env acc.2 v).2)
    exact ⟨KeysGrow.trans (keysGrow_trackCanonValue env acc.2 v) ih.1, fun hk => ih.2 (keyed_trackCanonValue v hk)⟩

theorem trackCanonResult_ok (env : Env) (s : CidState) (cs : CanonStream) :
    KeysGrow s (trackCanonResult env s cs).2 ∧ (Keyed env s → Keyed env (trackCanonResult env s cs).2) := by
  have h := trackCanonValues_ok env cs.values ([], s)
  simp only [trackCanonResult]
  constructor
  · intro k hk
    simp only [trackTetraplet]
    exact keys_upsert_mono _ _ _ (h.1 k hk)
  · intro hk e he
    simp only [trackTetraplet] at he
    rcases mem_upsert he with h1 | h1
    · exact h.2 hk e h1
    · subst h1; rfl

/-! ## sparse matrices (`ValuesSparseMatrix<T>`), for any element type -/

section sparse
variable {α : Type} {Q : α → Prop}

def StackOK (Q : α → Prop) (stack : List (SparseCell α)) : Prop :=
  ∀ cell ∈ stack, ∀ v, cell.value = some v → Q v

def CellsOK (Q : α → Prop) (cells : List (String × List (SparseCell α))) : Prop :=
  ∀ e ∈ cells, StackOK Q e.2

theorem stackOK_mono {Q Q' : α → Prop} (h : ∀ v, Q v → Q' v) {s : List (SparseCell α)} (hs : StackOK Q s) : StackOK Q' s :=
  fun cell hc v hv => h _ (hs cell hc v hv)

theorem cellsOK_mono {Q Q' : α → Prop} (h : ∀ v, Q v → Q' v) {cells : List (String × List (SparseCell α))} (hs : CellsOK Q cells) :
    CellsOK Q' cells := fun e he => stackOK_mono h (hs e he)

theorem stackOK_single (d : Nat) {v : α} (h : Q v) : StackOK Q [⟨d, some v⟩] := by
  intro cell hc w hw
  simp at hc; subst hc
  simp at hw; subst hw; exact h

theorem stackOK_append {a b : List (SparseCell α)} (ha : StackOK Q a) (hb : StackOK Q b) : StackOK Q (a ++ b) := by
  intro cell hc
  rcases List.mem_append.mp hc with h | h
  · exact ha cell h
  · exact hb cell h

theorem stackOK_dropLast {a : List (SparseCell α)} (ha : StackOK Q a) : StackOK Q a.dropLast :=
  fun cell hc => ha cell (List.dropLast_subset a hc)

theorem stackOK_none (d : Nat) : StackOK Q [(⟨d, none⟩ : SparseCell α)] := by
  intro cell hc w hw
  simp at hc; subst hc
  simp at hw

theorem cellsOK_upsert {cells : List (String × List (SparseCell α))} (name : String)
    {stack : List (SparseCell α)} (hc : CellsOK Q cells) (hs : StackOK Q stack) : CellsOK Q (upsert cells name stack) := by
  intro e he
  rcases mem_upsert he with h | h
  · exact hc e h
  · subst h; exact hs

theorem getCells_ok {m : SparseMatrix α} {name : String} {stack : List (SparseCell α)}
    (hc : CellsOK Q m.cells) (h : m.getCells name = some stack) : StackOK Q stack :=
  hc _ (lookup_mem h)

theorem getLast?_mem {β : Type} {l : List β} {a : β} (h : l.getLast? = some a) : a ∈ l :=
  List.mem_of_getLast? h

theorem setValue_ok {m m' : SparseMatrix α} {name : String} {v : α} {b : Bool}
    (hc : CellsOK Q m.cells) (hv : Q v) (h : m.setValue name v = .ok (b, m')) : CellsOK Q m'.cells := by
  unfold SparseMatrix.setValue at h
  cases hg : m.getCells name with
  | none =>
    simp only [hg] at h
    injection h with h; injection h with _ h; subst h
    exact cellsOK_upsert name hc (stackOK_single _ hv)
  | some cells =>
    simp only [hg] at h
    have hcs := getCells_ok hc hg
    split at h
    · simp [uncatchable] at h
    · cases hl : cells.getLast? with
      | none =>
        simp only [hl] at h
        injection h with h; injection h with _ h; subst h
        exact cellsOK_upsert name hc (stackOK_single _ hv)
      | some last =>
        simp only [hl] at h
        split at h
        · injection h with h; injection h with _ h; subst h
          exact cellsOK_upsert name hc (stackOK_append (stackOK_dropLast hcs) (stackOK_single _ hv))
        · injection h with h; injection h with _ h; subst h
          exact cellsOK_upsert name hc (stackOK_append hcs (stackOK_single _ hv))

theorem getValue_ok {m : SparseMatrix α} {name : String} {v : α}
    (hc : CellsOK Q m.cells) (h : m.getValue name = .ok (some v)) : Q v := by
  unfold SparseMatrix.getValue at h
  cases hg : m.getCells name with
  | none => simp [hg, catchable] at h
  | some cells =>
    simp only [hg] at h
    cases hl : cells.getLast? with
    | none => simp [hl, catchable] at h
    | some last =>
      simp only [hl] at h
      split at h
      · injection h with h
        exact getCells_ok hc hg last (getLast?_mem hl) v h
      · simp [catchable] at h

theorem cleanup_ok {m : SparseMatrix α} (hc : CellsOK Q m.cells) : CellsOK Q m.cleanupObsoleteValues.cells := by
  intro e he
  simp only [SparseMatrix.cleanupObsoleteValues] at he
  obtain ⟨e0, he0, hf⟩ := List.mem_filterMap.mp he
  obtain ⟨n0, st0⟩ := e0
  simp only at hf
  split at hf
  · cases hf
  · split at hf
    · split at hf
      · cases hf
      · injection hf with hf; subst hf
        exact stackOK_dropLast (hc _ he0)
    · injection hf with hf; subst hf
      exact hc _ he0

theorem meetNextAfter_ok {m m' : SparseMatrix α} (hc : CellsOK Q m.cells) (h : m.meetNextAfter = .ok m') :
    CellsOK Q m'.cells := by
  unfold SparseMatrix.meetNextAfter at h
  split at h
  · cases h
  · injection h with h; subst h
    exact cleanup_ok (m := { m with currentDepth := _, allowedDepths := _ }) hc

theorem meetFoldEnd_ok {m m' : SparseMatrix α} (hc : CellsOK Q m.cells) (h : m.meetFoldEnd = .ok m') :
    CellsOK Q m'.cells := by
  unfold SparseMatrix.meetFoldEnd at h
  split at h
  · cases h
  · injection h with h; subst h
    exact cleanup_ok (m := { m with currentDepth := _, allowedDepths := _ }) hc

theorem meetNewStart_ok {m : SparseMatrix α} (name : String) (hc : CellsOK Q m.cells) :
    CellsOK Q (m.meetNewStart name).cells := by
  unfold SparseMatrix.meetNewStart
  cases hg : m.getCells name with
  | none => exact cellsOK_upsert name hc (stackOK_none _)
  | some cells => exact cellsOK_upsert name hc (stackOK_append (getCells_ok hc hg) (stackOK_none _))

theorem removeName_ok {m : SparseMatrix α} (name : String) (hc : CellsOK Q m.cells) :
    CellsOK Q (m.removeName name).cells := by
  intro e he
  simp only [SparseMatrix.removeName] at he
  exact hc e (List.mem_filter.mp he).1

theorem meetNewEnd_ok {m : SparseMatrix α} (name : String) (hc : CellsOK Q m.cells) :
    CellsOK Q (m.meetNewEnd name).1.cells := by
  unfold SparseMatrix.meetNewEnd
  cases hg : m.getCells name with
  | none => exact hc
  | some cells =>
    simp only
    split
    · cases hl : cells.getLast? with
      | none => exact hc
      | some top => exact cellsOK_upsert name hc (stackOK_dropLast (getCells_ok hc hg))
    · cases hl : cells.getLast? with
      | none => exact hc
      | some last =>
        simp only
        split
        · exact removeName_ok name hc
        · exact hc

end sparse

/-! ## aggregates, iterables, canon streams -/

def AggP (P : TP) (v : ValueAggregate) : Prop := P v.tetraplet v.provenance

def AllAgg (P : TP) (l : List ValueAggregate) : Prop := ∀ v ∈ l, AggP P v

def CanonOK (P : TP) (w : CanonStreamWP) : Prop := AllAgg P w.canonStream.values

/-- the key-value pairs of a canon map (everything a canon map hands out with a non-canon provenance is one of them) -/
def CanonMapOK (P : TP) (w : CanonStreamMapWP) : Prop := AllAgg P w.canonStreamMap.values

def IterOK (P : TP) : IterableValue → Prop
  | .resolvedCall v _ _ => AggP P v
  | .lambdaResult _ t p _ => P t p
  | .vec vals _ => AllAgg P vals

structure ScalarsOK (P : TP) (s : Scalars) : Prop where
  cells : CellsOK (AggP P) s.nonIterable.cells
  iters : ∀ e ∈ s.iterable, IterOK P e.2.iterable
  canons : CellsOK (CanonOK P) s.canonStreams.cells
  canonMaps : CellsOK (CanonMapOK P) s.canonMaps.cells

theorem iterOK_mono {P Q : TP} (h : ∀ t p, P t p → Q t p) {it : IterableValue} (hs : IterOK P it) : IterOK Q it := by
  cases it with
  | resolvedCall v c l => exact h _ _ hs
  | lambdaResult vs t p c => exact h _ _ hs
  | vec vs c => exact fun x hx => h _ _ (hs x hx)

theorem allAgg_mono {P Q : TP} (h : ∀ t p, P t p → Q t p) {l : List ValueAggregate} (hs : AllAgg P l) : AllAgg Q l :=
  fun v hv => h _ _ (hs v hv)

theorem scalarsOK_mono {P Q : TP} (h : ∀ t p, P t p → Q t p) {s : Scalars} (hs : ScalarsOK P s) : ScalarsOK Q s :=
  ⟨cellsOK_mono (fun _ hv => h _ _ hv) hs.cells, fun e he => iterOK_mono h (hs.iters e he),
   cellsOK_mono (fun _ hv => allAgg_mono h hv) hs.canons, cellsOK_mono (fun _ hv => allAgg_mono h hv) hs.canonMaps⟩

/-! ### iterables -/

theorem iterOK_setCursor {P : TP} {it : IterableValue} (k : Nat) (h : IterOK P it) : IterOK P (it.setCursor k) := by
  cases it <;> exact h

theorem iterOK_next {P : TP} {it : IterableValue} (h : IterOK P it) : IterOK P it.next.2 := by
  unfold IterableValue.next
  split
  · exact iterOK_setCursor _ h
  · exact h

theorem iterOK_prev {P : TP} {it : IterableValue} (h : IterOK P it) : IterOK P it.prev.2 := by
  unfold IterableValue.prev
  split
  · exact iterOK_setCursor _ h
  · exact h

theorem peek_ok {P : TP} (hP : LensClosed P) {it : IterableValue} {x : JVal} {t : Tetraplet} {pos : Nat} {p : Provenance}
    (h : IterOK P it) (hp : it.peek = .ok (some (x, t, pos, p))) : P t p := by
  cases it with
  | resolvedCall v c l =>
    simp only [IterableValue.peek] at hp
    split at hp
    · cases hp
    · split at hp
      · split at hp
        · injection hp with hp; injection hp with hp
          injection hp with _ hp; injection hp with h1 hp; injection hp with _ h2
          subst h1 h2
          exact hP.addLens _ _ _ h
        · cases hp
      · cases hp
  | lambdaResult vals t0 p0 c =>
    simp only [IterableValue.peek] at hp
    split at hp
    · cases hp
    · split at hp
      · injection hp with hp; injection hp with hp
        injection hp with _ hp; injection hp with h1 hp; injection hp with _ h2
        subst h1 h2
        exact hP.addLens _ _ _ h
      · cases hp
  | vec vals c =>
    simp only [IterableValue.peek] at hp
    split at hp
    · cases hp
    · split at hp
      · rename_i y hy
        injection hp with hp; injection hp with hp
        injection hp with _ hp; injection hp with h1 hp; injection hp with _ h2
        subst h1 h2
        exact h y (List.mem_of_getElem? hy)
      · cases hp

theorem peekExpect_ok {P : TP} (hP : LensClosed P) {it : IterableValue} {x : JVal} {t : Tetraplet} {pos : Nat} {p : Provenance}
    (h : IterOK P it) (hp : it.peekExpect = .ok (x, t, pos, p)) : P t p := by
  unfold IterableValue.peekExpect at hp
  cases hk : it.peek with
  | ok o =>
    cases o with
    | none => simp [hk, bind, Res.bind] at hp
    | some y =>
      obtain ⟨x', t', pos', p'⟩ := y
      simp [hk, bind, Res.bind, pure] at hp
      obtain ⟨rfl, rfl, rfl, rfl⟩ := hp
      exact peek_ok hP h hk
  | error e => simp [hk, bind, Res.bind] at hp
  | panic s => simp [hk, bind, Res.bind] at hp

theorem item_ok {P : TP} (hP : LensClosed P) {x : JVal × Tetraplet × Nat × Provenance} (h : P x.2.1 x.2.2.2) :
    AggP P (itemIntoResolvedResult x) := new_ok hP _ _ h

/-! ### `Scalars` -/

def RefOK (P : TP) : ScalarRef → Prop
  | .value v => AggP P v
  | .iterableValue f => IterOK P f.iterable

theorem find?_iter_mem {l : List (String × FoldState)} {name : String} {e : String × FoldState}
    (h : l.find? (fun (x : String × FoldState) => x.1 == name) = some e) : e ∈ l := List.mem_of_find?_eq_some h

theorem scalars_getValue_ok {P : TP} {s : Scalars} {name : String} {r : ScalarRef} (hs : ScalarsOK P s)
    (h : s.getValue name = .ok r) : RefOK P r := by
  unfold Scalars.getValue at h
  simp only at h
  split at h
  · cases h
  · simp [catchable] at h
  · simp [catchable] at h
  · rename_i x hx _
    injection h with h; subst h
    exact getValue_ok (Q := AggP P) hs.cells hx
  · rename_i e f hf
    injection h with h; subst h
    exact hs.iters _ (find?_iter_mem hf)
  · cases h

theorem parts_ok {P : TP} (hP : LensClosed P) {r : ScalarRef} {v : JVal} {t : Tetraplet} {p : Provenance}
    (hr : RefOK P r) (h : r.parts = .ok (v, t, p)) : P t p := by
  cases r with
  | value va =>
    simp only [ScalarRef.parts] at h
    injection h with h; injection h with _ h; injection h with h1 h2
    subst h1 h2; exact hr
  | iterableValue f =>
    simp only [ScalarRef.parts] at h
    cases hk : f.iterable.peekExpect with
    | ok y =>
      obtain ⟨x', t', pos', p'⟩ := y
      simp [hk, bind, Res.bind, pure] at h
      obtain ⟨_, rfl, rfl⟩ := h
      exact peekExpect_ok hP hr hk
    | error e => simp [hk, bind, Res.bind] at h
    | panic s => simp [hk, bind, Res.bind] at h

theorem setScalarValue_ok {P : TP} {s s' : Scalars} {name : String} {v : ValueAggregate} (hs : ScalarsOK P s) (hv : AggP P v)
    (h : s.setScalarValue name v = .ok s') : ScalarsOK P s' := by
  unfold Scalars.setScalarValue at h
  cases hm : s.nonIterable.setValue name v with
  | ok r =>
    obtain ⟨b, m⟩ := r
    simp [hm, bind, Res.bind, pure] at h
    subst h
    exact ⟨setValue_ok hs.cells hv hm, hs.iters, hs.canons, hs.canonMaps⟩
  | error e => simp [hm, bind, Res.bind] at h
  | panic e => simp [hm, bind, Res.bind] at h

theorem setCanonValue_ok {P : TP} {s s' : Scalars} {name : String} {w : CanonStreamWP} (hs : ScalarsOK P s) (hv : CanonOK P w)
    (h : s.setCanonValue name w = .ok s') : ScalarsOK P s' := by
  unfold Scalars.setCanonValue at h
  cases hm : s.canonStreams.setValue name w with
  | ok r =>
    obtain ⟨b, m⟩ := r
    simp [hm, bind, Res.bind, pure] at h
    subst h
    exact ⟨hs.cells, hs.iters, setValue_ok hs.canons hv hm, hs.canonMaps⟩
  | error e => simp [hm, bind, Res.bind] at h
  | panic e => simp [hm, bind, Res.bind] at h

theorem getCanonStream_ok {P : TP} {s : Scalars} {name : String} {w : CanonStreamWP} (hs : ScalarsOK P s)
    (h : s.getCanonStream name = .ok w) : CanonOK P w := by
  unfold Scalars.getCanonStream at h
  split at h
  · rename_i v hv
    injection h with h; subst h
    exact getValue_ok hs.canons hv
  · simp [catchable] at h
  · cases h
  · cases h

theorem getIterable_ok {P : TP} {s : Scalars} {name : String} {f : FoldState} (hs : ScalarsOK P s)
    (h : s.getIterable name = .ok f) : IterOK P f.iterable := by
  unfold Scalars.getIterable at h
  split at h
  · rename_i k f' hf
    injection h with h; subst h
    exact hs.iters _ (find?_iter_mem hf)
  · simp [uncatchable] at h

theorem setIterableState_ok {P : TP} {s : Scalars} (name : String) {f : FoldState} (hs : ScalarsOK P s) (hf : IterOK P f.iterable) :
    ScalarsOK P (s.setIterableState name f) := by
  refine ⟨hs.cells, ?_, hs.canons, hs.canonMaps⟩
  intro e he
  simp only [Scalars.setIterableState] at he
  obtain ⟨⟨k0, g0⟩, he0, rfl⟩ := List.mem_map.mp he
  by_cases hk : (k0 == name) = true
  · simp only [hk]; exact hf
  · simp only [hk]; exact hs.iters _ he0

theorem setIterableValue_ok {P : TP} {s s' : Scalars} {name : String} {f : FoldState} (hs : ScalarsOK P s) (hf : IterOK P f.iterable)
    (h : s.setIterableValue name f = .ok s') : ScalarsOK P s' := by
  unfold Scalars.setIterableValue at h
  split at h
  · simp [uncatchable] at h
  · injection h with h; subst h
    refine ⟨hs.cells, ?_, hs.canons, hs.canonMaps⟩
    intro e he
    rcases List.mem_append.mp he with h1 | h1
    · exact hs.iters e h1
    · simp at h1; subst h1; exact hf

theorem removeIterableValue_ok {P : TP} {s : Scalars} (name : String) (hs : ScalarsOK P s) :
    ScalarsOK P (s.removeIterableValue name) :=
  ⟨hs.cells, fun e he => hs.iters e (List.mem_filter.mp he).1, hs.canons, hs.canonMaps⟩

theorem s_meetFoldStart_ok {P : TP} {s : Scalars} (hs : ScalarsOK P s) : ScalarsOK P s.meetFoldStart := ⟨hs.cells, hs.iters, hs.canons, hs.canonMaps⟩
theorem s_meetNextBefore_ok {P : TP} {s : Scalars} (hs : ScalarsOK P s) : ScalarsOK P s.meetNextBefore := ⟨hs.cells, hs.iters, hs.canons, hs.canonMaps⟩

theorem s_meetNextAfter_ok {P : TP} {s s' : Scalars} (hs : ScalarsOK P s) (h : s.meetNextAfter = .ok s') : ScalarsOK P s' := by
  unfold Scalars.meetNextAfter at h
  cases hm : s.nonIterable.meetNextAfter with
  | ok m =>
    cases hm2 : s.canonStreams.meetNextAfter with
    | ok m2 =>
      cases hm3 : s.canonMaps.meetNextAfter with
      | ok m3 =>
        simp [hm, hm2, hm3, bind, Res.bind, pure] at h; subst h
        exact ⟨meetNextAfter_ok hs.cells hm, hs.iters, meetNextAfter_ok hs.canons hm2, meetNextAfter_ok hs.canonMaps hm3⟩
      | error e => simp [hm, hm2, hm3, bind, Res.bind] at h
      | panic e => simp [hm, hm2, hm3, bind, Res.bind] at h
    | error e => simp [hm, hm2, bind, Res.bind] at h
    | panic e => simp [hm, hm2, bind, Res.bind] at h
  | error e => simp [hm, bind, Res.bind] at h
  | panic e => simp [hm, bind, Res.bind] at h

theorem s_meetFoldEnd_ok {P : TP} {s s' : Scalars} (hs : ScalarsOK P s) (h : s.meetFoldEnd = .ok s') : ScalarsOK P s' := by
  unfold Scalars.meetFoldEnd at h
  cases hm : s.nonIterable.meetFoldEnd with
  | ok m =>
    cases hm2 : s.canonStreams.meetFoldEnd with
    | ok m2 =>
      cases hm3 : s.canonMaps.meetFoldEnd with
      | ok m3 =>
        simp [hm, hm2, hm3, bind, Res.bind, pure] at h; subst h
        exact ⟨meetFoldEnd_ok hs.cells hm, hs.iters, meetFoldEnd_ok hs.canons hm2, meetFoldEnd_ok hs.canonMaps hm3⟩
      | error e => simp [hm, hm2, hm3, bind, Res.bind] at h
      | panic e => simp [hm, hm2, hm3, bind, Res.bind] at h
    | error e => simp [hm, hm2, bind, Res.bind] at h
    | panic e => simp [hm, hm2, bind, Res.bind] at h
  | error e => simp [hm, bind, Res.bind] at h
  | panic e => simp [hm, bind, Res.bind] at h

theorem s_meetNewStart_ok {P : TP} {s : Scalars} (n : String) (hs : ScalarsOK P s) : ScalarsOK P (s.meetNewStartScalar n) :=
  ⟨meetNewStart_ok n hs.cells, hs.iters, hs.canons, hs.canonMaps⟩

theorem s_meetNewEnd_ok {P : TP} {s : Scalars} (n : String) (hs : ScalarsOK P s) : ScalarsOK P (s.meetNewEndScalar n).1 :=
  ⟨meetNewEnd_ok n hs.cells, hs.iters, hs.canons, hs.canonMaps⟩

theorem s_meetNewStartCanon_ok {P : TP} {s : Scalars} (n : String) (hs : ScalarsOK P s) : ScalarsOK P (s.meetNewStartCanon n) :=
  ⟨hs.cells, hs.iters, meetNewStart_ok n hs.canons, hs.canonMaps⟩

theorem s_meetNewEndCanon_ok {P : TP} {s : Scalars} (n : String) (hs : ScalarsOK P s) : ScalarsOK P (s.meetNewEndCanon n).1 :=
  ⟨hs.cells, hs.iters, meetNewEnd_ok n hs.canons, hs.canonMaps⟩

theorem s_meetNewStartCanonMap_ok {P : TP} {s : Scalars} (n : String) (hs : ScalarsOK P s) : ScalarsOK P (s.meetNewStartCanonMap n) :=
  ⟨hs.cells, hs.iters, hs.canons, meetNewStart_ok n hs.canonMaps⟩

theorem s_meetNewEndCanonMap_ok {P : TP} {s : Scalars} (n : String) (hs : ScalarsOK P s) : ScalarsOK P (s.meetNewEndCanonMap n).1 :=
  ⟨hs.cells, hs.iters, hs.canons, meetNewEnd_ok n hs.canonMaps⟩

theorem setCanonMapValue_ok {P : TP} {s s' : Scalars} {name : String} {w : CanonStreamMapWP} (hs : ScalarsOK P s) (hv : CanonMapOK P w)
    (h : s.setCanonMapValue name w = .ok s') : ScalarsOK P s' := by
  unfold Scalars.setCanonMapValue at h
  cases hm : s.canonMaps.setValue name w with
  | ok r =>
    obtain ⟨b, m⟩ := r
    simp [hm, bind, Res.bind, pure] at h
    subst h
    exact ⟨hs.cells, hs.iters, hs.canons, setValue_ok hs.canonMaps hv hm⟩
  | error e => simp [hm, bind, Res.bind] at h
  | panic e => simp [hm, bind, Res.bind] at h

theorem getCanonMap_ok {P : TP} {s : Scalars} {name : String} {w : CanonStreamMapWP} (hs : ScalarsOK P s)
    (h : s.getCanonMap name = .ok w) : CanonMapOK P w := by
  unfold Scalars.getCanonMap at h
  split at h
  · rename_i v hv
    injection h with h; subst h
    exact getValue_ok hs.canonMaps hv
  · simp [catchable] at h
  · cases h
  · cases h

end AquaProps
