import Aqua.Crypto.Multibase
/-!
# Positional notation and the base32 round trip

`ofDigits`/`toDigits` are inverse to each other on digit strings of a fixed length, hence the unpadded
base32 decoder of `data-encoding` (as modelled by `Encoding.decodeBase`) inverts its encoder.
-/
namespace AquaProps.Digits
open Aqua Aqua.Crypto.Multibase

theorem snoc_induction {α : Type} {P : List α → Prop} (nil : P [])
    (snoc : ∀ xs x, P xs → P (xs ++ [x])) : ∀ l, P l := by
  have : ∀ l : List α, P l.reverse := by
    intro l
    induction l with
    | nil => exact nil
    | cons x l ih => rw [List.reverse_cons]; exact snoc _ _ ih
  intro l
  have := this l.reverse
  rwa [List.reverse_reverse] at this

theorem toDigitsAux_eq (b k n : Nat) (acc : List Nat) : toDigitsAux b k n acc = toDigits b k n ++ acc := by
  induction k generalizing n acc with
  | zero => simp [toDigitsAux, toDigits]
  | succ k ih =>
    unfold toDigits
    simp only [toDigitsAux]
    rw [ih, ih (n / b) [n % b]]
    simp

theorem toDigits_zero (b n : Nat) : toDigits b 0 n = [] := rfl

theorem toDigits_succ (b k n : Nat) : toDigits b (k + 1) n = toDigits b k (n / b) ++ [n % b] := by
  conv => lhs; unfold toDigits; simp only [toDigitsAux]
  rw [toDigitsAux_eq]

theorem toDigits_length (b k n : Nat) : (toDigits b k n).length = k := by
  induction k generalizing n with
  | zero => rfl
  | succ k ih => rw [toDigits_succ, List.length_append, ih]; rfl

theorem toDigits_lt (b k n : Nat) (hb : 0 < b) : ∀ d ∈ toDigits b k n, d < b := by
  induction k generalizing n with
  | zero => intro d hd; simp [toDigits_zero] at hd
  | succ k ih =>
    intro d hd
    rw [toDigits_succ] at hd
    rcases List.mem_append.mp hd with hd | hd
    · exact ih _ d hd
    · simp only [List.mem_singleton] at hd
      subst hd
      exact Nat.mod_lt _ hb

theorem ofDigits_nil (b : Nat) : ofDigits b [] = 0 := rfl

theorem ofDigits_snoc (b : Nat) (xs : List Nat) (d : Nat) : ofDigits b (xs ++ [d]) = ofDigits b xs * b + d := by
  simp [ofDigits, List.foldl_append]

theorem ofDigits_lt (b : Nat) (ds : List Nat) (h : ∀ d ∈ ds, d < b) : ofDigits b ds < b ^ ds.length := by
  induction ds using snoc_induction with
  | nil => simp [ofDigits_nil]
  | snoc xs x ih =>
    have hx : x < b := h x (by simp)
    have hxs := ih fun d hd => h d (by simp [hd])
    rw [ofDigits_snoc, List.length_append, List.length_singleton, Nat.pow_succ]
    calc ofDigits b xs * b + x < ofDigits b xs * b + b := by omega
      _ = (ofDigits b xs + 1) * b := by rw [Nat.add_mul, Nat.one_mul]
      _ ≤ b ^ xs.length * b := Nat.mul_le_mul_right b hxs

theorem ofDigits_toDigits (b k n : Nat) : ofDigits b (toDigits b k n) = n % b ^ k := by
  induction k generalizing n with
  | zero => simp [toDigits_zero, ofDigits_nil, Nat.mod_one]
  | succ k ih =>
    rw [toDigits_succ, ofDigits_snoc, ih, Nat.pow_succ, Nat.mul_comm (b ^ k) b, Nat.mod_mul]
    rw [Nat.mul_comm (n / b % b ^ k) b]
    omega

theorem toDigits_ofDigits (b : Nat) (ds : List Nat) (h : ∀ d ∈ ds, d < b) :
    toDigits b ds.length (ofDigits b ds) = ds := by
  induction ds using snoc_induction with
  | nil => rfl
  | snoc xs x ih =>
    have hx : x < b := h x (by simp)
    have hxs := ih fun d hd => h d (by simp [hd])
    have hb : 0 < b := by omega
    rw [List.length_append, List.length_singleton, toDigits_succ, ofDigits_snoc]
    have h1 : (ofDigits b xs * b + x) / b = ofDigits b xs := by
      rw [Nat.mul_comm, Nat.mul_add_div hb, Nat.div_eq_of_lt hx, Nat.add_zero]
    have h2 : (ofDigits b xs * b + x) % b = x := by
      rw [Nat.mul_comm, Nat.mul_add_mod, Nat.mod_eq_of_lt hx]
    rw [h1, h2, hxs]

/-! ## base32 (lower case, no padding) -/

theorem b32_bit : BASE32_NOPAD_LOWER.bit = 5 := rfl
theorem b32_padding : BASE32_NOPAD_LOWER.padding = none := rfl
theorem b32_value_symbol : ∀ v, v < 32 → BASE32_NOPAD_LOWER.value (BASE32_NOPAD_LOWER.symbol v) = some v := by decide
/-- no base32 symbol is `/` -/
theorem b32_symbol_ne_slash : ∀ v, v < 32 → BASE32_NOPAD_LOWER.symbol v ≠ 47 := by decide

theorem mapM_value_symbol (ds : List Nat) (h : ∀ d ∈ ds, d < 32) :
    (ds.map BASE32_NOPAD_LOWER.symbol).mapM BASE32_NOPAD_LOWER.value = some ds := by
  induction ds with
  | nil => rfl
  | cons d ds ih =>
    have hd := b32_value_symbol d (h d (by simp))
    have := ih fun x hx => h x (by simp [hx])
    simp only [List.map_cons, List.mapM_cons, hd, this]
    rfl

theorem map_ofNat_toNat (bs : Bytes) : (bs.map UInt8.toNat).map UInt8.ofNat = bs := by
  induction bs with
  | nil => rfl
  | cons b bs ih => simp [ih]

theorem encodeBase_length (bs : Bytes) :
    (BASE32_NOPAD_LOWER.encodeBase bs).length = (8 * bs.length + 4) / 5 := by
  simp [Encoding.encodeBase, toDigits_length, b32_bit]

theorem encodeBase_symbols (bs : Bytes) : ∀ c ∈ BASE32_NOPAD_LOWER.encodeBase bs, c ≠ 47 := by
  intro c hc
  simp only [Encoding.encodeBase, List.mem_map] at hc
  obtain ⟨d, hd, rfl⟩ := hc
  exact b32_symbol_ne_slash d (by
    have := toDigits_lt (2 ^ BASE32_NOPAD_LOWER.bit) _ _ (by rw [b32_bit]; decide) d hd
    rw [b32_bit] at this; exact this)

/-- **base32 round trip**: decoding what the encoder wrote gives the bytes back -/
theorem decode_encode_base32 (bs : Bytes) :
    BASE32_NOPAD_LOWER.decode (BASE32_NOPAD_LOWER.encodeBase bs) = some bs := by
  unfold Encoding.decode
  rw [b32_padding]
  simp only
  -- arithmetic of the lengths
  let L := bs.length
  let m := (8 * L + 4) / 5
  have hm : m = (8 * L + 4) / 5 := rfl
  let p := m * 5 - 8 * L
  have hp : p < 5 := by omega
  have hmp : 5 * m = 8 * L + p := by omega
  let N := ofDigits 256 (bs.map UInt8.toNat)
  have hN : N < 256 ^ L := by
    have := ofDigits_lt 256 (bs.map UInt8.toNat) (by
      intro d hd
      obtain ⟨b, _, rfl⟩ := List.mem_map.mp hd
      exact b.toNat_lt)
    simpa using this
  have hds : toDigits (2 ^ 5) m (N * 2 ^ p) = toDigits (2 ^ BASE32_NOPAD_LOWER.bit)
      ((8 * bs.length + BASE32_NOPAD_LOWER.bit - 1) / BASE32_NOPAD_LOWER.bit)
      (ofDigits 256 (bs.map UInt8.toNat) * 2 ^ ((8 * bs.length + BASE32_NOPAD_LOWER.bit - 1) / BASE32_NOPAD_LOWER.bit * BASE32_NOPAD_LOWER.bit - 8 * bs.length)) := by
    rw [b32_bit]
    rfl
  have henc : BASE32_NOPAD_LOWER.encodeBase bs = (toDigits (2 ^ 5) m (N * 2 ^ p)).map BASE32_NOPAD_LOWER.symbol := by
    unfold Encoding.encodeBase
    simp only
    rw [← hds]
  rw [henc]
  unfold Encoding.decodeBase
  simp only [List.length_map, toDigits_length, b32_bit]
  have htrail : 5 * m % 8 = p := by omega
  have hdiv : 5 * m / 8 = L := by omega
  rw [htrail, hdiv]
  have hp5 : p / 5 = 0 := by omega
  simp only [hp5, bne_self_eq_false, Bool.false_eq_true, if_false]
  rw [mapM_value_symbol _ (toDigits_lt (2 ^ 5) m _ (by decide))]
  simp only
  -- the value of the symbols is the number that was written
  have hM : N * 2 ^ p < (2 ^ 5) ^ m := by
    rw [← Nat.pow_mul, hmp, Nat.pow_add]
    have : (256 : Nat) ^ L = 2 ^ (8 * L) := by
      rw [show (256 : Nat) = 2 ^ 8 by rfl, ← Nat.pow_mul]
    rw [this] at hN
    exact Nat.mul_lt_mul_of_lt_of_le hN (Nat.le_refl _) (Nat.two_pow_pos p)
  rw [ofDigits_toDigits, Nat.mod_eq_of_lt hM]
  have hz : N * 2 ^ p % 2 ^ p = 0 := Nat.mul_mod_left _ _
  have hq : N * 2 ^ p / 2 ^ p = N := Nat.mul_div_cancel _ (Nat.two_pow_pos p)
  rw [hz, hq]
  simp only [bne_self_eq_false, Bool.and_false, Bool.false_eq_true, if_false]
  have := toDigits_ofDigits 256 (bs.map UInt8.toNat) (by
    intro d hd
    obtain ⟨b, _, rfl⟩ := List.mem_map.mp hd
    exact b.toNat_lt)
  rw [List.length_map] at this
  show some ((toDigits 256 bs.length (ofDigits 256 (bs.map UInt8.toNat))).map UInt8.ofNat) = some bs
  rw [this, map_ofNat_toNat]

end AquaProps.Digits
