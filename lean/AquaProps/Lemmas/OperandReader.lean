import Aqua.Air.OperandReader
import AquaProps.Lemmas.BeautifierText
/-! Lemmas for C28_operands: the operand reader reads back what `valueText` prints. -/
namespace AquaProps.Lemmas.OperandReader
open Aqua.Air Aqua.Air.Beautifier Aqua.Air.OperandReader AquaProps.Lemmas.BeautifierText

theorem natText_digits (n : Nat) : ∀ c ∈ natText n, c.isDigit = true :=
  fun _ hc => Nat.isDigit_of_mem_toDigits (by decide) (by decide) hc

theorem natText_ne_nil (n : Nat) : natText n ≠ [] := Nat.toDigits_ne_nil

theorem parseNat_natText (n : Nat) : parseNat? (natText n) = some n := by
  unfold parseNat?
  have h1 : (natText n).isEmpty = false := by
    cases h : natText n with
    | nil => exact absurd h (natText_ne_nil n)
    | cons _ _ => rfl
  have h2 : (natText n).all Char.isDigit = true := List.all_eq_true.mpr (natText_digits n)
  rw [h1, h2]
  simp only [Bool.not_false, Bool.and_self, if_true, natText, Nat.ofDigitChars_ten_toDigits]

theorem parseInt_intText (z : Int) : parseInt? (intText z) = some z := by
  cases z with
  | ofNat n =>
    simp only [intText]
    cases h : natText n with
    | nil => exact absurd h (natText_ne_nil n)
    | cons c cs =>
      have hc : c.isDigit = true := natText_digits n c (by simp [h])
      have hne : c ≠ '-' := by intro e; subst e; simp [Char.isDigit] at hc
      have : parseInt? (c :: cs) = (parseNat? (c :: cs)).map Int.ofNat := by
        unfold parseInt?
        split
        · rename_i heq; simp at heq; exact absurd heq.1 hne
        · rfl
      rw [this, ← h, parseNat_natText]
      rfl
  | negSucc n =>
    simp only [intText, parseInt?, parseNat_natText, Option.map_some]
    congr 1

theorem nameChar_ne (c : Char) (h : nameChar c = true) (x : Char) (hx : nameChar x = false) : c ≠ x := by
  intro e; subst e; simp [h] at hx

theorem bare_cases (t : Text) (h : bare t = true) : t ≠ [] ∧ ∀ c ∈ t, nameChar c = true := by
  unfold bare at h
  simp at h
  exact ⟨by intro e; simp [e] at h, h.2⟩

theorem digit_nameChar (c : Char) (h : c.isDigit = true) : nameChar c = true := by
  simp [nameChar, Char.isAlphanum, h]

theorem digit_ne_dot (c : Char) (h : c.isDigit = true) : c ≠ '.' := by
  intro e; subst e; simp [Char.isDigit] at h

/-- texts of accessors contain no dot -/
theorem accessorText_no_dot (a : Accessor) (h : accessorWF a = true) : ∀ c ∈ accessorText a, c ≠ '.' := by
  cases a with
  | arrayAccess i =>
    intro c hc
    simp only [accessorText, List.mem_cons, List.mem_append, List.mem_singleton, List.not_mem_nil, or_false] at hc
    rcases hc with (rfl | hc) | rfl
    · decide
    · exact digit_ne_dot c (natText_digits i c hc)
    · decide
  | fieldByName n =>
    intro c hc
    exact nameChar_ne c ((bare_cases _ h).2 c hc) '.' (by decide)
  | fieldByScalar s =>
    intro c hc
    simp only [accessorWF, Bool.and_eq_true] at h
    simp only [accessorText, List.mem_cons, List.mem_append, List.mem_singleton, List.not_mem_nil, or_false] at hc
    rcases hc with (rfl | hc) | rfl
    · decide
    · exact nameChar_ne c ((bare_cases _ h.1).2 c hc) '.' (by decide)
    · decide

theorem parseAccessor_bracket (rest : Text) :
    parseAccessor ('[' :: rest) =
      (match rest.getLast? with
       | some ']' =>
         if rest.dropLast.isEmpty then none
         else if rest.dropLast.all Char.isDigit then some (.arrayAccess (Nat.ofDigitChars 10 rest.dropLast 0))
         else some (.fieldByScalar (String.ofList rest.dropLast))
       | _ => none) := rfl

theorem parseAccessor_text (a : Accessor) (h : accessorWF a = true) : parseAccessor (accessorText a) = some a := by
  cases a with
  | arrayAccess i =>
    have h1 : (natText i).isEmpty = false := by
      cases hh : natText i with
      | nil => exact absurd hh (natText_ne_nil i)
      | cons _ _ => rfl
    have h2 : (natText i).all Char.isDigit = true := List.all_eq_true.mpr (natText_digits i)
    have h3 : Nat.ofDigitChars 10 (natText i) 0 = i := Nat.ofDigitChars_ten_toDigits
    simp only [accessorText, List.cons_append, parseAccessor_bracket, List.getLast?_concat, List.dropLast_concat, h1, h2, h3,
      Bool.false_eq_true, if_false, if_true]
  | fieldByName n =>
    obtain ⟨hne, hall⟩ := bare_cases _ h
    simp only [accessorText]
    cases hn : n.toList with
    | nil => exact absurd hn hne
    | cons c cs =>
      have hc : c ≠ '[' := nameChar_ne c (hall c (by simp [hn])) '[' (by decide)
      unfold parseAccessor
      split
      · rename_i heq; simp at heq
      · rename_i heq; simp at heq; exact absurd heq.1 hc
      · rw [← hn]; simp
  | fieldByScalar s =>
    simp only [accessorWF, Bool.and_eq_true, Bool.not_eq_true'] at h
    obtain ⟨hne, _⟩ := bare_cases _ h.1
    have h1 : s.toList.isEmpty = false := by
      cases hh : s.toList with
      | nil => exact absurd hh hne
      | cons _ _ => rfl
    simp only [accessorText, List.cons_append, parseAccessor_bracket, List.getLast?_concat, List.dropLast_concat, h1, h.2,
      Bool.false_eq_true, if_false, String.ofList_toList]

theorem splitDots_cons_ne (acc : Text) (c : Char) (cs : Text) (h : c ≠ '.') :
    splitDots acc (c :: cs) = splitDots (c :: acc) cs := by
  rw [splitDots.eq_def]
  split
  · rename_i heq; simp at heq
  · rename_i heq; simp at heq; exact absurd heq.1 h
  · rename_i heq; simp at heq; obtain ⟨rfl, rfl⟩ := heq; rfl

theorem splitDots_append (acc p rest : Text) (h : ∀ c ∈ p, c ≠ '.') :
    splitDots acc (p ++ rest) = splitDots (p.reverse ++ acc) rest := by
  induction p generalizing acc with
  | nil => rfl
  | cons c cs ih =>
    have hc : c ≠ '.' := h c (by simp)
    have : splitDots acc (c :: (cs ++ rest)) = splitDots (c :: acc) (cs ++ rest) := splitDots_cons_ne acc c _ hc
    simp only [List.cons_append, this, ih (c :: acc) (fun x hx => h x (by simp [hx]))]
    simp

theorem splitDots_join (p : Text) (ps : List Text) (h : ∀ q ∈ p :: ps, ∀ c ∈ q, c ≠ '.') :
    ∀ acc, splitDots acc (joinText ['.'] (p :: ps)) = (acc.reverse ++ p) :: ps := by
  induction ps generalizing p with
  | nil =>
    intro acc
    have := splitDots_append acc p [] (h p (by simp))
    simp only [List.append_nil] at this
    simp [joinText, this, splitDots]
  | cons q qs ih =>
    intro acc
    have hj : joinText ['.'] (p :: q :: qs) = p ++ ('.' :: joinText ['.'] (q :: qs)) := by simp [joinText]
    rw [hj, splitDots_append acc p _ (h p (by simp))]
    have ih' := ih q (fun x hx => h x (by simp [hx])) []
    simp only [List.reverse_nil, List.nil_append] at ih'
    simp [splitDots, ih']

theorem expectPre_append (pre t : Text) : expectPre pre (pre ++ t) = some t := by
  simp [expectPre]

theorem mapM_parseAccessor (as : List Accessor) (h : ∀ a ∈ as, accessorWF a = true) :
    (as.map accessorText).mapM parseAccessor = some as := by
  induction as with
  | nil => rfl
  | cons a as ih =>
    simp [List.mapM_cons, parseAccessor_text a (h a (by simp)), ih (fun x hx => h x (by simp [hx]))]

theorem parseLambda_text (l : Lambda) (h : lambdaWF l = true) : parseLambda (lambdaText l) = some l := by
  cases l with
  | functorLength => decide
  | path as =>
    simp only [lambdaWF, Bool.and_eq_true, List.all_eq_true] at h
    obtain ⟨hne, hall⟩ := h
    cases as with
    | nil => simp at hne
    | cons a as =>
      have hsplit := splitDots_join (accessorText a) (as.map accessorText)
        (by
          intro p hp
          rw [← List.map_cons] at hp
          obtain ⟨x, hx, rfl⟩ := List.mem_map.mp hp
          exact accessorText_no_dot x (hall x hx)) []
      simp only [List.reverse_nil, List.nil_append] at hsplit
      have hm := mapM_parseAccessor (a :: as) hall
      simp only [List.map_cons] at hm
      have hne' : lambdaText (.path (a :: as)) ≠ ".length".toList := by
        simp only [lambdaText]
        intro e
        have : (".$.".toList ++ joinText ['.'] (List.map accessorText (a :: as)))[1]? = (".length".toList)[1]? := by rw [e]
        simp at this
      unfold parseLambda
      rw [if_neg hne']
      simp only [lambdaText, expectPre_append, Option.bind_some, List.map_cons, hsplit, hm]
      rfl

theorem lambdaText_head (l : Lambda) : ∃ t, lambdaText l = '.' :: t := by
  cases l with
  | functorLength => exact ⟨_, rfl⟩
  | path as => exact ⟨_, rfl⟩

/-- a character that can occur neither in an integer nor in a float text -/
def badNum (c : Char) : Prop := c.isDigit = false ∧ c ≠ '.' ∧ c ≠ '-'

theorem parseNat_none_of_nondigit (cs : Text) (c : Char) (hc : c ∈ cs) (hd : c.isDigit = false) : parseNat? cs = none := by
  unfold parseNat?
  have : cs.all Char.isDigit = false := by
    rw [Bool.eq_false_iff]; intro h
    have := List.all_eq_true.mp h c hc
    simp [hd] at this
  simp [this]

theorem parseInt_none_of_bad (cs : Text) (c : Char) (hc : c ∈ cs) (hd : c.isDigit = false) (hm : c ≠ '-') :
    parseInt? cs = none := by
  unfold parseInt?
  split
  · rename_i r
    have : c ∈ r := by simpa [hm] using hc
    simp [parseNat_none_of_nondigit r c this hd]
  · simp [parseNat_none_of_nondigit cs c hc hd]

theorem mem_unsigned (cs : Text) (c : Char) (hc : c ∈ cs) (hm : c ≠ '-') : c ∈ unsigned cs := by
  unfold unsigned
  split
  · simpa [hm] using hc
  · exact hc

theorem unsigned_subset (cs : Text) : ∀ c ∈ unsigned cs, c ∈ cs := by
  intro c hc
  unfold unsigned at hc
  split at hc
  · simp [hc]
  · exact hc

theorem isFloatText_false_of_bad (cs : Text) (c : Char) (hc : c ∈ cs) (hb : badNum c) : isFloatText cs = false := by
  obtain ⟨hd, hdot, hm⟩ := hb
  unfold isFloatText
  have : (unsigned cs).all (fun c => c.isDigit || c == '.') = false := by
    rw [Bool.eq_false_iff]; intro h
    have := List.all_eq_true.mp h c (mem_unsigned cs c hc hm)
    simp [hd, hdot] at this
  rw [this, Bool.false_and]

theorem floatShape_dot (body : Text) (h : floatShape body = true) : '.' ∈ body := by
  unfold floatShape at h
  split at h
  · rename_i fp heq
    have : '.' ∈ body.dropWhile Char.isDigit := by rw [heq]; simp
    exact (List.dropWhile_sublist _).subset this
  · simp at h

theorem isFloatText_false_of_no_dot (cs : Text) (h : '.' ∉ cs) : isFloatText cs = false := by
  unfold isFloatText
  have : floatShape (unsigned cs) = false := by
    rw [Bool.eq_false_iff]; intro hf
    exact h (unsigned_subset cs _ (floatShape_dot _ hf))
  rw [this, Bool.and_false]

theorem ne_of_mem_not_mem (cs lit : Text) (c : Char) (hc : c ∈ cs) (hl : c ∉ lit) : cs ≠ lit := by
  intro e; subst e; exact hl hc

theorem lambdaText_bad (l : Lambda) : ∃ c ∈ lambdaText l, badNum c ∧ c ∉ "true".toList ∧ c ∉ "false".toList := by
  cases l with
  | functorLength => exact ⟨'n', by decide, ⟨by decide, by decide, by decide⟩, by decide, by decide⟩
  | path as => exact ⟨'$', by simp [lambdaText], ⟨by decide, by decide, by decide⟩, by decide, by decide⟩

theorem lambdaText_dot_mem (l : Lambda) : '.' ∈ lambdaText l := by
  obtain ⟨t, ht⟩ := lambdaText_head l
  simp [ht]

def plainOf (k : VarKind) (n : String) : Value :=
  match k with | .scalar => .scalar n | .canon => .canon n | .canonMap => .canonMap n
def lensOf (k : VarKind) (n : String) (l : Lambda) : Value :=
  match k with | .scalar => .scalarWL n l | .canon => .canonWL n l | .canonMap => .canonMapWL n l

theorem parseVariable_plain (n : String) (k : VarKind) (hd : ∀ c ∈ n.toList, c ≠ '.') (hk : varKind n.toList = some k) :
    parseVariable n.toList = some (plainOf k n) := by
  have h1 : ∀ x ∈ n.toList, (x != '.') = true := by intro x hx; simpa using hd x hx
  have ht := takeWhile_append_all (fun c : Char => c != '.') n.toList [] h1
  have hdw := dropWhile_append_all (fun c : Char => c != '.') n.toList [] h1
  simp only [List.append_nil, List.takeWhile_nil, List.dropWhile_nil] at ht hdw
  unfold parseVariable
  simp only [ht, hdw, hk, Option.bind_some, List.isEmpty_nil, if_true, String.ofList_toList]
  cases k <;> rfl

theorem parseVariable_lens (n : String) (k : VarKind) (l : Lambda) (hd : ∀ c ∈ n.toList, c ≠ '.')
    (hk : varKind n.toList = some k) (hl : lambdaWF l = true) :
    parseVariable (n.toList ++ lambdaText l) = some (lensOf k n l) := by
  have h1 : ∀ x ∈ n.toList, (x != '.') = true := by intro x hx; simpa using hd x hx
  obtain ⟨t, ht⟩ := lambdaText_head l
  have htw := takeWhile_append_all (fun c : Char => c != '.') n.toList (lambdaText l) h1
  have hdw := dropWhile_append_all (fun c : Char => c != '.') n.toList (lambdaText l) h1
  have e1 : (lambdaText l).takeWhile (fun c : Char => c != '.') = [] := by rw [ht]; simp
  have e2 : (lambdaText l).dropWhile (fun c : Char => c != '.') = lambdaText l := by rw [ht]; simp
  rw [e1] at htw; rw [e2] at hdw
  simp only [List.append_nil] at htw
  have hne : (lambdaText l).isEmpty = false := by rw [ht]; rfl
  unfold parseVariable
  simp only [htw, hdw, hk, Option.bind_some, hne, Bool.false_eq_true, if_false, parseLambda_text l hl, Option.map_some,
    String.ofList_toList]
  cases k <;> rfl

theorem scalarName_cases (n : Text) (h : scalarNameWF n = true) :
    bare n = true ∧ parseInt? n = none ∧ n ≠ "true".toList ∧ n ≠ "false".toList := by
  unfold scalarNameWF at h
  simp only [Bool.and_eq_true, Option.isNone_iff_eq_none, bne_iff_ne, ne_eq] at h
  exact ⟨h.1.1.1, h.1.1.2, h.1.2, h.2⟩

theorem bare_no (n : Text) (h : bare n = true) (x : Char) (hx : nameChar x = false) : x ∉ n := by
  intro hm
  have := (bare_cases n h).2 x hm
  simp [hx] at this

theorem varKind_scalar (n : Text) (h : bare n = true) : varKind n = some .scalar := by
  obtain ⟨hne, hall⟩ := bare_cases n h
  cases n with
  | nil => exact absurd rfl hne
  | cons c cs =>
    have hc := hall c (by simp)
    have c1 : c ≠ '#' := nameChar_ne c hc '#' (by decide)
    have c2 : c ≠ '$' := nameChar_ne c hc '$' (by decide)
    have c3 : c ≠ '%' := nameChar_ne c hc '%' (by decide)
    cases cs with
    | nil =>
      unfold varKind
      split <;> simp_all
    | cons d ds =>
      have hd := hall d (by simp)
      have d1 : d ≠ '%' := nameChar_ne d hd '%' (by decide)
      unfold varKind
      split <;> simp_all

/-- shape of a well-formed canon stream name -/
theorem canonName_cases (n : Text) (h : canonNameWF n = true) :
    ∃ m, n = '#' :: m ∧ (∀ c ∈ m, c ≠ '.') ∧ varKind n = some .canon := by
  unfold canonNameWF at h
  split at h
  · rename_i m
    refine ⟨'$' :: m, rfl, ?_, ?_⟩
    · intro c hc
      rcases List.mem_cons.mp hc with rfl | hc
      · decide
      · exact nameChar_ne c ((bare_cases m h).2 c hc) '.' (by decide)
    · rfl
  · rename_i m hnot
    refine ⟨m, rfl, ?_, ?_⟩
    · intro c hc; exact nameChar_ne c ((bare_cases m h).2 c hc) '.' (by decide)
    · obtain ⟨hne, hall⟩ := bare_cases m h
      cases m with
      | nil => exact absurd rfl hne
      | cons d ds =>
        have d1 : d ≠ '%' := nameChar_ne d (hall d (by simp)) '%' (by decide)
        unfold varKind
        split <;> simp_all
  · simp at h

theorem canonMapName_cases (n : Text) (h : canonMapNameWF n = true) :
    ∃ c m, n = c :: '%' :: m ∧ (c = '#' ∨ c = '$' ∨ c = '%' ∨ nameChar c = true) ∧ bare m = true := by
  unfold canonMapNameWF at h
  split at h
  · rename_i c m
    simp only [Bool.and_eq_true, Bool.or_eq_true, beq_iff_eq] at h
    refine ⟨c, m, rfl, ?_, h.1⟩
    rcases h.2 with ((h1 | h1) | h1) | h1
    · exact Or.inl h1
    · exact Or.inr (Or.inl h1)
    · exact Or.inr (Or.inr (Or.inl h1))
    · exact Or.inr (Or.inr (Or.inr h1))
  · simp at h

theorem canonMap_no_dot (c : Char) (m : Text) (hc : c = '#' ∨ c = '$' ∨ c = '%' ∨ nameChar c = true) (hm : bare m = true) :
    ∀ x ∈ c :: '%' :: m, x ≠ '.' := by
  intro x hx
  rcases List.mem_cons.mp hx with rfl | hx
  · rcases hc with rfl | rfl | rfl | h
    · decide
    · decide
    · decide
    · exact nameChar_ne x h '.' (by decide)
  · rcases List.mem_cons.mp hx with rfl | hx
    · decide
    · exact nameChar_ne x ((bare_cases m hm).2 x hx) '.' (by decide)

theorem varKind_canonMap (c : Char) (m : Text) : varKind (c :: '%' :: m) = some .canonMap := by
  unfold varKind
  split
  · rename_i heq; simp at heq
  · rfl
  all_goals (first | (rename_i hx heq; simp at heq; exact absurd heq.2.symm (hx m)) | (rename_i h2 _ _ _; exact absurd rfl (h2 c m)))

/-- `parsePlain` on a text that cannot be a number or a boolean is `parseVariable` -/
theorem parsePlain_variable (cs : Text) (c : Char) (hc : c ∈ cs) (hb : badNum c)
    (ht : c ∉ "true".toList) (hf : c ∉ "false".toList) : parsePlain cs = parseVariable cs := by
  unfold parsePlain
  rw [if_neg (ne_of_mem_not_mem cs _ c hc ht), if_neg (ne_of_mem_not_mem cs _ c hc hf),
    parseInt_none_of_bad cs c hc hb.1 hb.2.2]
  simp only [isFloatText_false_of_bad cs c hc hb, Bool.false_eq_true, if_false]

theorem parseValue_plain (c : Char) (t : Text) (h1 : c ≠ '"') (h2 : c ≠ '%') (h3 : c ≠ ':') (h4 : c ≠ '[') :
    parseValue (c :: t) = parsePlain (c :: t) := by
  simp [parseValue, h1, h2, h3, h4]

theorem parseErrorLike_opt (mk : Option Lambda → Value) (l : Option Lambda) (h : optLambdaWF l = true) :
    parseErrorLike mk (optLambdaText l) = some (mk l) := by
  cases l with
  | none => rfl
  | some l =>
    obtain ⟨t, ht⟩ := lambdaText_head l
    have hne : (lambdaText l).isEmpty = false := by rw [ht]; rfl
    simp only [optLambdaText, parseErrorLike, hne, Bool.false_eq_true, if_false, parseLambda_text l h, Option.map_some]

theorem scalar_first (n : Text) (h : bare n = true) :
    ∃ c t, n = c :: t ∧ c ≠ '"' ∧ c ≠ '%' ∧ c ≠ ':' ∧ c ≠ '[' := by
  obtain ⟨hne, hall⟩ := bare_cases n h
  cases n with
  | nil => exact absurd rfl hne
  | cons c t =>
    have hc := hall c (by simp)
    exact ⟨c, t, rfl, nameChar_ne c hc _ (by decide), nameChar_ne c hc _ (by decide), nameChar_ne c hc _ (by decide),
      nameChar_ne c hc _ (by decide)⟩

theorem parseValue_scalar (n : String) (h : scalarNameWF n.toList = true) : parseValue n.toList = some (.scalar n) := by
  obtain ⟨hb, hint, ht, hf⟩ := scalarName_cases _ h
  obtain ⟨c, t, hn, h1, h2, h3, h4⟩ := scalar_first _ hb
  have hd : ∀ x ∈ n.toList, x ≠ '.' := fun x hx => nameChar_ne x ((bare_cases _ hb).2 x hx) '.' (by decide)
  rw [hn, parseValue_plain c t h1 h2 h3 h4, ← hn]
  unfold parsePlain
  rw [if_neg ht, if_neg hf, hint]
  simp only [isFloatText_false_of_no_dot _ (fun hm => hd '.' hm rfl), Bool.false_eq_true, if_false]
  exact parseVariable_plain n .scalar hd (varKind_scalar _ hb)

theorem parseValue_scalarWL (n : String) (l : Lambda) (h : scalarNameWF n.toList = true) (hl : lambdaWF l = true) :
    parseValue (n.toList ++ lambdaText l) = some (.scalarWL n l) := by
  obtain ⟨hb, _, _, _⟩ := scalarName_cases _ h
  obtain ⟨c, t, hn, h1, h2, h3, h4⟩ := scalar_first _ hb
  have hd : ∀ x ∈ n.toList, x ≠ '.' := fun x hx => nameChar_ne x ((bare_cases _ hb).2 x hx) '.' (by decide)
  obtain ⟨b, hbm, hbad, hbt, hbf⟩ := lambdaText_bad l
  have e : n.toList ++ lambdaText l = c :: (t ++ lambdaText l) := by rw [hn]; rfl
  rw [e, parseValue_plain c _ h1 h2 h3 h4, ← e,
    parsePlain_variable _ b (List.mem_append_right _ hbm) hbad hbt hbf]
  exact parseVariable_lens n .scalar l hd (varKind_scalar _ hb) hl

theorem parseValue_canon (n : String) (h : canonNameWF n.toList = true) : parseValue n.toList = some (.canon n) := by
  obtain ⟨m, hn, hd, hk⟩ := canonName_cases _ h
  have hd' : ∀ x ∈ n.toList, x ≠ '.' := by
    intro x hx; rw [hn] at hx
    rcases List.mem_cons.mp hx with rfl | hx
    · decide
    · exact hd x hx
  rw [hn, parseValue_plain '#' m (by decide) (by decide) (by decide) (by decide),
    parsePlain_variable _ '#' (by simp) ⟨by decide, by decide, by decide⟩ (by decide) (by decide), ← hn]
  exact parseVariable_plain n .canon hd' hk

theorem parseValue_canonWL (n : String) (l : Lambda) (h : canonNameWF n.toList = true) (hl : lambdaWF l = true) :
    parseValue (n.toList ++ lambdaText l) = some (.canonWL n l) := by
  obtain ⟨m, hn, hd, hk⟩ := canonName_cases _ h
  have hd' : ∀ x ∈ n.toList, x ≠ '.' := by
    intro x hx; rw [hn] at hx
    rcases List.mem_cons.mp hx with rfl | hx
    · decide
    · exact hd x hx
  have e : n.toList ++ lambdaText l = '#' :: (m ++ lambdaText l) := by rw [hn]; rfl
  rw [e, parseValue_plain '#' _ (by decide) (by decide) (by decide) (by decide),
    parsePlain_variable _ '#' (by simp) ⟨by decide, by decide, by decide⟩ (by decide) (by decide), ← e]
  exact parseVariable_lens n .canon l hd' hk hl

/-- a text `c%…` (canon stream map name, possibly with a lens) is read by `parseVariable` -/
theorem parseValue_canonMapLike (c : Char) (m rest : Text)
    (hc : c = '#' ∨ c = '$' ∨ c = '%' ∨ nameChar c = true) :
    parseValue (c :: '%' :: (m ++ rest)) = parseVariable (c :: '%' :: (m ++ rest)) := by
  have hbad : badNum '%' := ⟨by decide, by decide, by decide⟩
  have plain : ∀ (h1 : c ≠ '"') (h2 : c ≠ '%') (h3 : c ≠ ':') (h4 : c ≠ '['),
      parseValue (c :: '%' :: (m ++ rest)) = parseVariable (c :: '%' :: (m ++ rest)) := by
    intro h1 h2 h3 h4
    rw [parseValue_plain c _ h1 h2 h3 h4, parsePlain_variable _ '%' (by simp) hbad (by decide) (by decide)]
  rcases hc with rfl | rfl | rfl | h
  · exact plain (by decide) (by decide) (by decide) (by decide)
  · exact plain (by decide) (by decide) (by decide) (by decide)
  · have e1 : '%' :: '%' :: (m ++ rest) ≠ "%init_peer_id%".toList := by
      intro e; have : ('%' :: '%' :: (m ++ rest))[1]? = ("%init_peer_id%".toList)[1]? := by rw [e]
      simp at this
    have e2 : '%' :: '%' :: (m ++ rest) ≠ "%timestamp%".toList := by
      intro e; have : ('%' :: '%' :: (m ++ rest))[1]? = ("%timestamp%".toList)[1]? := by rw [e]
      simp at this
    have e3 : '%' :: '%' :: (m ++ rest) ≠ "%ttl%".toList := by
      intro e; have : ('%' :: '%' :: (m ++ rest))[1]? = ("%ttl%".toList)[1]? := by rw [e]
      simp at this
    have e4 : expectPre "%last_error%".toList ('%' :: '%' :: (m ++ rest)) = none := by
      simp [expectPre]
    have hp : parseValue ('%' :: '%' :: (m ++ rest)) = parsePercent ('%' :: '%' :: (m ++ rest)) := by
      simp [parseValue]
    rw [hp]
    unfold parsePercent
    rw [if_neg e1, if_neg e2, if_neg e3, e4]
  · exact plain (nameChar_ne c h _ (by decide)) (nameChar_ne c h _ (by decide)) (nameChar_ne c h _ (by decide))
      (nameChar_ne c h _ (by decide))

theorem parseValue_canonMap (n : String) (h : canonMapNameWF n.toList = true) : parseValue n.toList = some (.canonMap n) := by
  obtain ⟨c, m, hn, hc, hm⟩ := canonMapName_cases _ h
  have hd : ∀ x ∈ n.toList, x ≠ '.' := by rw [hn]; exact canonMap_no_dot c m hc hm
  have := parseValue_canonMapLike c m [] hc
  simp only [List.append_nil] at this
  rw [hn, this, ← hn]
  exact parseVariable_plain n .canonMap hd (by rw [hn]; exact varKind_canonMap c m)

theorem parseValue_canonMapWL (n : String) (l : Lambda) (h : canonMapNameWF n.toList = true) (hl : lambdaWF l = true) :
    parseValue (n.toList ++ lambdaText l) = some (.canonMapWL n l) := by
  obtain ⟨c, m, hn, hc, hm⟩ := canonMapName_cases _ h
  have hd : ∀ x ∈ n.toList, x ≠ '.' := by rw [hn]; exact canonMap_no_dot c m hc hm
  have e : n.toList ++ lambdaText l = c :: '%' :: (m ++ lambdaText l) := by rw [hn]; rfl
  rw [e, parseValue_canonMapLike c m _ hc, ← e]
  exact parseVariable_lens n .canonMap l hd (by rw [hn]; exact varKind_canonMap c m) hl

theorem parseValue_literal (s : String) (h : s.toList.contains '"' = false) :
    parseValue (quoted s.toList) = some (.literal s) := by
  simp only [quoted, parseValue, List.cons_append, List.head?_cons, if_true, parseLiteral, List.getLast?_concat,
    List.dropLast_concat, h, Bool.false_eq_true, if_false, String.ofList_toList]

/-- first character of a numeric text: a digit, a dot or a minus sign -/
def numHead (c : Char) : Prop := c.isDigit = true ∨ c = '.' ∨ c = '-'

theorem numHead_dispatch (c : Char) (h : numHead c) : c ≠ '"' ∧ c ≠ '%' ∧ c ≠ ':' ∧ c ≠ '[' ∧ c ≠ 't' ∧ c ≠ 'f' := by
  rcases h with h | rfl | rfl
  · refine ⟨?_, ?_, ?_, ?_, ?_, ?_⟩ <;> (intro e; subst e; simp [Char.isDigit] at h)
  · decide
  · decide

theorem parseValue_number (z : Int) : parseValue (intText z) = some (.number z) := by
  have hh : ∃ c t, intText z = c :: t ∧ numHead c := by
    cases z with
    | ofNat n =>
      simp only [intText]
      cases h : natText n with
      | nil => exact absurd h (natText_ne_nil n)
      | cons c cs => exact ⟨c, cs, rfl, Or.inl (natText_digits n c (by simp [h]))⟩
    | negSucc n => exact ⟨'-', _, rfl, Or.inr (Or.inr rfl)⟩
  obtain ⟨c, t, he, hc⟩ := hh
  obtain ⟨h1, h2, h3, h4, h5, h6⟩ := numHead_dispatch c hc
  rw [he, parseValue_plain c t h1 h2 h3 h4]
  unfold parsePlain
  have n1 : c :: t ≠ "true".toList := by intro e; simp at e; exact h5 e.1
  have n2 : c :: t ≠ "false".toList := by intro e; simp at e; exact h6 e.1
  rw [if_neg n1, if_neg n2, ← he, parseInt_intText]

theorem isFloatText_cases (cs : Text) (h : isFloatText cs = true) :
    (∃ c t, cs = c :: t ∧ numHead c) ∧ parseInt? cs = none := by
  unfold isFloatText at h
  simp only [Bool.and_eq_true, List.all_eq_true, Bool.or_eq_true, beq_iff_eq] at h
  obtain ⟨hall, hshape⟩ := h
  have hdot := floatShape_dot _ hshape
  have hdot' : '.' ∈ cs := unsigned_subset cs _ hdot
  refine ⟨?_, parseInt_none_of_bad cs '.' hdot' (by decide) (by decide)⟩
  cases cs with
  | nil => simp at hdot'
  | cons c t =>
    refine ⟨c, t, rfl, ?_⟩
    by_cases hm : c = '-'
    · exact Or.inr (Or.inr hm)
    · have : c ∈ unsigned (c :: t) := mem_unsigned _ c (by simp) hm
      rcases hall c this with h | h
      · exact Or.inl h
      · exact Or.inr (Or.inl h)

theorem parseValue_float (r : String) (h : isFloatText r.toList = true) : parseValue r.toList = some (.float r) := by
  obtain ⟨⟨c, t, he, hc⟩, hint⟩ := isFloatText_cases _ h
  obtain ⟨h1, h2, h3, h4, h5, h6⟩ := numHead_dispatch c hc
  rw [he, parseValue_plain c t h1 h2 h3 h4]
  unfold parsePlain
  have n1 : c :: t ≠ "true".toList := by intro e; simp at e; exact h5 e.1
  have n2 : c :: t ≠ "false".toList := by intro e; simp at e; exact h6 e.1
  rw [if_neg n1, if_neg n2, ← he, hint]
  simp only [h, if_true, String.ofList_toList]

theorem parseValue_lastError (l : Option Lambda) (h : optLambdaWF l = true) :
    parseValue ("%last_error%".toList ++ optLambdaText l) = some (.lastError l) := by
  have hp : parseValue ("%last_error%".toList ++ optLambdaText l) = parsePercent ("%last_error%".toList ++ optLambdaText l) := by
    simp [parseValue]
  have e1 : "%last_error%".toList ++ optLambdaText l ≠ "%init_peer_id%".toList := by
    intro e; have : ("%last_error%".toList ++ optLambdaText l)[1]? = ("%init_peer_id%".toList)[1]? := by rw [e]
    simp at this
  have e2 : "%last_error%".toList ++ optLambdaText l ≠ "%timestamp%".toList := by
    intro e; have : ("%last_error%".toList ++ optLambdaText l)[1]? = ("%timestamp%".toList)[1]? := by rw [e]
    simp at this
  have e3 : "%last_error%".toList ++ optLambdaText l ≠ "%ttl%".toList := by
    intro e; have : ("%last_error%".toList ++ optLambdaText l)[1]? = ("%ttl%".toList)[1]? := by rw [e]
    simp at this
  rw [hp]
  unfold parsePercent
  rw [if_neg e1, if_neg e2, if_neg e3, expectPre_append]
  exact parseErrorLike_opt _ l h

theorem parseValue_error (l : Option Lambda) (h : optLambdaWF l = true) :
    parseValue (":error:".toList ++ optLambdaText l) = some (.error l) := by
  have hp : parseValue (":error:".toList ++ optLambdaText l) =
      (expectPre ":error:".toList (":error:".toList ++ optLambdaText l)).bind (parseErrorLike .error) := by
    simp [parseValue]
  rw [hp, expectPre_append]
  exact parseErrorLike_opt _ l h

/-- **the operand reader reads back what `Display` prints** -/
theorem parseValue_valueText (v : Value) (h : valueWF v = true) : parseValue (valueText v) = some v := by
  cases v with
  | initPeerId => decide
  | lastError l => exact parseValue_lastError l h
  | error l => exact parseValue_error l h
  | literal s =>
    simp only [valueWF, Bool.not_eq_true'] at h
    exact parseValue_literal s h
  | timestamp => decide
  | ttl => decide
  | number n => exact parseValue_number n
  | float r => exact parseValue_float r h
  | boolean b => cases b <;> decide
  | emptyArray => decide
  | scalar n => exact parseValue_scalar n h
  | scalarWL n l =>
    simp only [valueWF, Bool.and_eq_true] at h
    exact parseValue_scalarWL n l h.1 h.2
  | canon n => exact parseValue_canon n h
  | canonWL n l =>
    simp only [valueWF, Bool.and_eq_true] at h
    exact parseValue_canonWL n l h.1 h.2
  | canonMap n => exact parseValue_canonMap n h
  | canonMapWL n l =>
    simp only [valueWF, Bool.and_eq_true] at h
    exact parseValue_canonMapWL n l h.1 h.2

end AquaProps.Lemmas.OperandReader
