import AquaProps.Lemmas.JsonValue
/-! Parse → print: whatever the parser accepts is a well-formed value (integers in range, floats canonical
if the oracle is, keys strictly sorted, depth below the recursion limit). -/
namespace AquaProps.JsonLemmas
open Aqua.Json

/-- every float text the oracle produces is read back as itself (print ∘ parse is idempotent on `f64`) -/
def OracleCanonical (fo : FloatOracle) : Prop := ∀ p s e r, fo p s e = some r → FloatRT fo r

/-- a successful number-lexer result is a well-formed number -/
def NumOK (fo : FloatOracle) (r : PRes JVal) : Prop := ∀ v rest, r = .ok (v, rest) → WF fo v ∧ vdepth v = 0

theorem numOK_error (fo : FloatOracle) (e : PErr) : NumOK fo (.error e) := by
  intro v rest h; exact absurd h (by simp)

theorem numOK_f64 (fo : FloatOracle) (hfo : OracleCanonical fo) (p : Bool) (s : Nat) (e : Int) (rest : List Char) :
    NumOK fo (f64FromParts fo p s e rest) := by
  intro v rest' h
  unfold f64FromParts at h
  split at h
  · rename_i r hr
    simp only [Except.ok.injEq, Prod.mk.injEq] at h
    rw [← h.1]; exact ⟨hfo p s e r hr, rfl⟩
  · exact absurd h (by simp)

theorem numOK_expOverflow (fo : FloatOracle) (hfo : OracleCanonical fo) (p z pe : Bool) (cs : List Char) :
    NumOK fo (parseExponentOverflow fo p z pe cs) := by
  unfold parseExponentOverflow
  split
  · exact numOK_error fo _
  · exact numOK_f64 fo hfo _ _ _ _

theorem numOK_exponent (fo : FloatOracle) (hfo : OracleCanonical fo) (p : Bool) (s : Nat) (e : Int) (cs : List Char) :
    NumOK fo (parseExponent fo p s e cs) := by
  unfold parseExponent
  simp only
  split
  · exact numOK_error fo _
  · split
    · split
      · exact numOK_expOverflow fo hfo _ _ _ _
      · exact numOK_f64 fo hfo _ _ _ _
    · exact numOK_error fo _

theorem numOK_tail (fo : FloatOracle) (hfo : OracleCanonical fo) (p : Bool) (s : Nat) (e : Int) (cs : List Char) :
    NumOK fo (numberTail fo p s e cs) := by
  unfold numberTail
  split
  · exact numOK_f64 fo hfo _ _ _ _
  · split
    · exact numOK_exponent fo hfo _ _ _ _
    · exact numOK_f64 fo hfo _ _ _ _

theorem numOK_decimal (fo : FloatOracle) (hfo : OracleCanonical fo) (p : Bool) (s : Nat) (e : Int) (cs : List Char) :
    NumOK fo (parseDecimal fo p s e cs) := by
  unfold parseDecimal
  split
  · exact numOK_tail fo hfo _ _ _ _
  · split
    · exact numOK_error fo _
    · exact numOK_tail fo hfo _ _ _ _

theorem wrappingNeg_range (s : Nat) (hs : s ≤ u64Max) (hneg : ¬ wrappingNegAsI64 s ≥ 0) :
    -9223372036854775808 ≤ wrappingNegAsI64 s ∧ wrappingNegAsI64 s ≤ 18446744073709551615 := by
  unfold wrappingNegAsI64 i64MinAbs at *
  unfold u64Max at hs
  simp only at *
  split at hneg <;> split at hneg <;> (try split) <;> (try split) <;> omega

theorem numOK_number (fo : FloatOracle) (hfo : OracleCanonical fo) (p : Bool) (s : Nat) (hs : s ≤ u64Max) (cs : List Char) :
    NumOK fo (parseNumber fo p s cs) := by
  have hint : NumOK fo (if p = true then Except.ok (JVal.num ↑s, cs)
      else if wrappingNegAsI64 s ≥ 0 then f64FromParts fo false s 0 cs else Except.ok (JVal.num (wrappingNegAsI64 s), cs)) := by
    split
    · intro v rest h
      simp only [Except.ok.injEq, Prod.mk.injEq] at h
      rw [← h.1]; refine ⟨?_, rfl⟩; simp only [WF]; unfold u64Max at hs; omega
    · split
      · exact numOK_f64 fo hfo _ _ _ _
      · rename_i hneg
        intro v rest h
        simp only [Except.ok.injEq, Prod.mk.injEq] at h
        rw [← h.1]; refine ⟨?_, rfl⟩; simp only [WF]; exact wrappingNeg_range s hs hneg
  unfold parseNumber
  simp only
  split
  · exact hint
  · split
    · exact numOK_decimal fo hfo _ _ _ _
    · split
      · exact numOK_exponent fo hfo _ _ _ _
      · exact hint

theorem numOK_longInteger (fo : FloatOracle) (hfo : OracleCanonical fo) (p : Bool) (s : Nat) (cs : List Char) :
    ∀ e : Nat, NumOK fo (parseLongInteger fo p s e cs) := by
  induction cs with
  | nil => intro e; unfold parseLongInteger; exact numOK_f64 fo hfo _ _ _ _
  | cons c cs ih =>
    intro e
    unfold parseLongInteger
    split
    · exact ih (e + 1)
    · split
      · exact numOK_decimal fo hfo _ _ _ _
      · split
        · exact numOK_exponent fo hfo _ _ _ _
        · exact numOK_f64 fo hfo _ _ _ _

theorem numOK_intLoop (fo : FloatOracle) (hfo : OracleCanonical fo) (p : Bool) (cs : List Char) :
    ∀ s : Nat, s ≤ u64Max → NumOK fo (intLoop fo p s cs) := by
  induction cs with
  | nil => intro s hs; unfold intLoop; exact numOK_number fo hfo p s hs []
  | cons c cs ih =>
    intro s hs
    unfold intLoop
    split
    · rename_i hd
      split
      · exact numOK_longInteger fo hfo _ _ _ _
      · rename_i hno
        apply ih
        have := digitVal_lt c hd
        have h2 : ¬ (s * 10 + digitVal c > u64Max) := by
          intro hgt; exact hno ((overflowMul_iff s (digitVal c) u64Max this).mpr hgt)
        omega
    · exact numOK_number fo hfo p s hs _

theorem numOK_integer (fo : FloatOracle) (hfo : OracleCanonical fo) (p : Bool) (cs : List Char) :
    NumOK fo (parseInteger fo p cs) := by
  unfold parseInteger
  split
  · exact numOK_error fo _
  · split
    · split
      · exact numOK_number fo hfo p 0 (by unfold u64Max; omega) _
      · split
        · exact numOK_error fo _
        · exact numOK_number fo hfo p 0 (by unfold u64Max; omega) _
    · split
      · rename_i c cs' _ hd
        exact numOK_intLoop fo hfo p _ (digitVal c) (by have := digitVal_lt c hd; unfold u64Max; omega)
      · exact numOK_error fo _

theorem numOK_numTok (fo : FloatOracle) (hfo : OracleCanonical fo) (cs : List Char) : NumOK fo (parseNumTok fo cs) := by
  unfold parseNumTok
  split
  · exact numOK_error fo _
  · split
    · exact numOK_integer fo hfo _ _
    · split
      · exact numOK_integer fo hfo _ _
      · exact numOK_error fo _
theorem wfPairs_insert (fo : FloatOracle) (k : String) (v : JVal) (acc : List (String × JVal))
    (hv : WF fo v) (ha : WFPairs fo acc) : WFPairs fo (insertSorted k v acc) := by
  induction acc with
  | nil => exact ⟨hv, trivial⟩
  | cons p rest ih =>
    obtain ⟨k', v'⟩ := p
    simp only [insertSorted]
    split
    · exact ⟨hv, ha.2⟩
    · split
      · exact ⟨hv, ha⟩
      · exact ⟨ha.1, ih ha.2⟩

theorem vdepthPairs_insert (k : String) (v : JVal) (acc : List (String × JVal)) :
    vdepthPairs (insertSorted k v acc) ≤ max (vdepth v) (vdepthPairs acc) := by
  induction acc with
  | nil => simp [insertSorted, vdepthPairs]
  | cons p rest ih =>
    obtain ⟨k', v'⟩ := p
    simp only [insertSorted]
    split
    · simp only [vdepthPairs]; omega
    · split
      · simp only [vdepthPairs]; omega
      · simp only [vdepthPairs]; omega

theorem keys_insert_subset (k : String) (v : JVal) (acc : List (String × JVal)) :
    ∀ x ∈ (insertSorted k v acc).map Prod.fst, x = k ∨ x ∈ acc.map Prod.fst := by
  induction acc with
  | nil => intro x hx; simp [insertSorted] at hx; exact Or.inl hx
  | cons p rest ih =>
    obtain ⟨k', v'⟩ := p
    intro x hx
    simp only [insertSorted] at hx
    split at hx
    · simp only [List.map_cons, List.mem_cons] at hx ⊢
      rcases hx with hx | hx
      · exact Or.inl hx
      · exact Or.inr (Or.inr hx)
    · split at hx
      · simp only [List.map_cons, List.mem_cons] at hx ⊢
        rcases hx with hx | hx | hx
        · exact Or.inl hx
        · exact Or.inr (Or.inl hx)
        · exact Or.inr (Or.inr hx)
      · simp only [List.map_cons, List.mem_cons] at hx ⊢
        rcases hx with hx | hx
        · exact Or.inr (Or.inl hx)
        · rcases ih x hx with h | h
          · exact Or.inl h
          · exact Or.inr (Or.inr h)

theorem keysSorted_insert (k : String) (v : JVal) (acc : List (String × JVal)) (h : KeysSorted acc) :
    KeysSorted (insertSorted k v acc) := by
  unfold KeysSorted at *
  induction acc with
  | nil => simp [insertSorted]
  | cons p rest ih =>
    obtain ⟨k', v'⟩ := p
    simp only [List.map_cons, List.pairwise_cons] at h
    simp only [insertSorted]
    split
    · rename_i heq
      rw [beq_iff_eq] at heq
      subst heq
      simp only [List.map_cons, List.pairwise_cons]; exact h
    · rename_i hne
      split
      · rename_i hlt
        have hlt' : k < k' := by unfold strLt at hlt; exact of_decide_eq_true hlt
        simp only [List.map_cons, List.pairwise_cons, List.mem_cons]
        refine ⟨?_, h⟩
        intro x hx
        rcases hx with hx | hx
        · subst hx; exact hlt'
        · exact String.lt_trans hlt' (h.1 x hx)
      · rename_i hnlt
        have hgt : k' < k := by
          have h1 : ¬ k < k' := by unfold strLt at hnlt; simpa using hnlt
          have h2 : k ≠ k' := by intro he; apply hne; rw [beq_iff_eq]; exact he
          apply Classical.byContradiction
          intro h3
          exact h2 (String.le_antisymm (String.not_lt.mp h3) (String.not_lt.mp h1))
        simp only [List.map_cons, List.pairwise_cons]
        refine ⟨?_, ih h.2⟩
        intro x hx
        rcases keys_insert_subset k v rest x hx with hx | hx
        · subst hx; exact hgt
        · exact h.1 x hx

theorem mkObj_invariants (fo : FloatOracle) (kvs acc : List (String × JVal)) (hk : WFPairs fo kvs) (ha : WFPairs fo acc)
    (hs : KeysSorted acc) :
    let r := kvs.foldl (fun acc (p : String × JVal) => insertSorted p.1 p.2 acc) acc
    WFPairs fo r ∧ KeysSorted r ∧ vdepthPairs r ≤ max (vdepthPairs kvs) (vdepthPairs acc) := by
  induction kvs generalizing acc with
  | nil => simp only [List.foldl_nil]; exact ⟨ha, hs, by omega⟩
  | cons p rest ih =>
    obtain ⟨k, v⟩ := p
    simp only [List.foldl_cons]
    obtain ⟨h1, h2, h3⟩ := ih (insertSorted k v acc) hk.2 (wfPairs_insert fo k v acc hk.1 ha) (keysSorted_insert k v acc hs)
    refine ⟨h1, h2, ?_⟩
    have := vdepthPairs_insert k v acc
    simp only [vdepthPairs]
    omega

def ParsedOK (fo : FloatOracle) (fuel : Nat) : Prop :=
  (∀ depth cs v rest, parseValue fo fuel depth cs = .ok (v, rest) → WF fo v ∧ vdepth v < max depth 1) ∧
  (∀ depth first cs vs rest, parseElems fo fuel depth first cs = .ok (vs, rest) → WFList fo vs ∧ vdepthList vs < max depth 1) ∧
  (∀ depth first cs kvs rest, parseMembers fo fuel depth first cs = .ok (kvs, rest) → WFPairs fo kvs ∧ vdepthPairs kvs < max depth 1)

theorem parsedOK_value_step (fo : FloatOracle) (hfo : OracleCanonical fo) (f : Nat) (ih : ParsedOK fo f)
    (depth : Nat) (cs : List Char) (v : JVal) (rest : List Char)
    (h : parseValue fo (f + 1) depth cs = .ok (v, rest)) : WF fo v ∧ vdepth v < max depth 1 := by
  rw [parseValue] at h
  split at h
  · exact absurd h (by simp)
  · rename_i c r _
    split at h
    · split at h
      · simp only [Except.ok.injEq, Prod.mk.injEq] at h; rw [← h.1]; exact ⟨trivial, by simp [vdepth]; omega⟩
      · exact absurd h (by simp)
    split at h
    · split at h
      · simp only [Except.ok.injEq, Prod.mk.injEq] at h; rw [← h.1]; exact ⟨trivial, by simp [vdepth]; omega⟩
      · exact absurd h (by simp)
    split at h
    · split at h
      · simp only [Except.ok.injEq, Prod.mk.injEq] at h; rw [← h.1]; exact ⟨trivial, by simp [vdepth]; omega⟩
      · exact absurd h (by simp)
    split at h
    · obtain ⟨hw, hz⟩ := numOK_numTok fo hfo (c :: r) v rest h
      exact ⟨hw, by omega⟩
    split at h
    · split at h
      · simp only [Except.ok.injEq, Prod.mk.injEq] at h; rw [← h.1]; exact ⟨trivial, by simp [vdepth]; omega⟩
      · exact absurd h (by simp)
    split at h
    · split at h
      · exact absurd h (by simp)
      · rename_i hd
        split at h
        · exact absurd h (by simp)
        · rename_i vs r' he
          obtain ⟨hw, hdp⟩ := ih.2.1 _ _ _ _ _ he
          split at h
          · exact absurd h (by simp)
          · split at h
            · simp only [Except.ok.injEq, Prod.mk.injEq] at h; rw [← h.1]
              refine ⟨hw, ?_⟩
              simp only [vdepth]; omega
            · exact absurd h (by simp)
    split at h
    · split at h
      · exact absurd h (by simp)
      · rename_i hd
        split at h
        · exact absurd h (by simp)
        · rename_i kvs r' he
          obtain ⟨hw, hdp⟩ := ih.2.2 _ _ _ _ _ he
          split at h
          · exact absurd h (by simp)
          · split at h
            · simp only [Except.ok.injEq, Prod.mk.injEq] at h; rw [← h.1]
              obtain ⟨h1, h2, h3⟩ := mkObj_invariants fo kvs [] hw trivial (by simp [KeysSorted])
              simp only [JVal.mkObj, WF, vdepth]
              refine ⟨⟨h1, h2⟩, ?_⟩
              simp only [vdepthPairs] at h3
              omega
            · exact absurd h (by simp)
    · exact absurd h (by simp)

theorem parsedOK_elems_step (fo : FloatOracle) (f : Nat) (ih : ParsedOK fo f)
    (depth : Nat) (first : Bool) (cs : List Char) (vs : List JVal) (rest : List Char)
    (h : parseElems fo (f + 1) depth first cs = .ok (vs, rest)) : WFList fo vs ∧ vdepthList vs < max depth 1 := by
  rw [parseElems] at h
  split at h
  · exact absurd h (by simp)
  · split at h
    · simp only [Except.ok.injEq, Prod.mk.injEq] at h; rw [← h.1]; exact ⟨trivial, by simp [vdepthList]; omega⟩
    · simp only at h
      split at h
      · exact absurd h (by simp)
      · exact absurd h (by simp)
      · split at h
        · exact absurd h (by simp)
        · split at h
          · exact absurd h (by simp)
          · rename_i v r hv
            split at h
            · exact absurd h (by simp)
            · rename_i vs' r' hvs
              simp only [Except.ok.injEq, Prod.mk.injEq] at h; rw [← h.1]
              obtain ⟨h1, h2⟩ := ih.1 _ _ _ _ hv
              obtain ⟨h3, h4⟩ := ih.2.1 _ _ _ _ _ hvs
              exact ⟨⟨h1, h3⟩, by simp only [vdepthList]; omega⟩

theorem parsedOK_members_step (fo : FloatOracle) (f : Nat) (ih : ParsedOK fo f)
    (depth : Nat) (first : Bool) (cs : List Char) (kvs : List (String × JVal)) (rest : List Char)
    (h : parseMembers fo (f + 1) depth first cs = .ok (kvs, rest)) : WFPairs fo kvs ∧ vdepthPairs kvs < max depth 1 := by
  rw [parseMembers] at h
  split at h
  · exact absurd h (by simp)
  · split at h
    · simp only [Except.ok.injEq, Prod.mk.injEq] at h; rw [← h.1]; exact ⟨trivial, by simp [vdepthPairs]; omega⟩
    · simp only at h
      split at h
      · exact absurd h (by simp)
      · exact absurd h (by simp)
      · split at h
        · split at h
          · exact absurd h (by simp)
          · split at h
            · exact absurd h (by simp)
            · split at h
              · split at h
                · exact absurd h (by simp)
                · rename_i v r hv
                  split at h
                  · exact absurd h (by simp)
                  · rename_i kvs' r' hkvs
                    simp only [Except.ok.injEq, Prod.mk.injEq] at h; rw [← h.1]
                    obtain ⟨h1, h2⟩ := ih.1 _ _ _ _ hv
                    obtain ⟨h3, h4⟩ := ih.2.2 _ _ _ _ _ hkvs
                    exact ⟨⟨h1, h3⟩, by simp only [vdepthPairs]; omega⟩
              · exact absurd h (by simp)
        · exact absurd h (by simp)

theorem parsedOK (fo : FloatOracle) (hfo : OracleCanonical fo) : ∀ fuel, ParsedOK fo fuel
  | 0 => ⟨fun _ _ _ _ h => absurd h (by simp [parseValue]), fun _ _ _ _ _ h => absurd h (by simp [parseElems]),
          fun _ _ _ _ _ h => absurd h (by simp [parseMembers])⟩
  | f + 1 =>
    have ih := parsedOK fo hfo f
    ⟨parsedOK_value_step fo hfo f ih, parsedOK_elems_step fo f ih, parsedOK_members_step fo f ih⟩

/-- whatever the parser accepts is a well-formed value below the recursion limit -/
theorem parseList_wf (fo : FloatOracle) (hfo : OracleCanonical fo) (limit : Nat) (cs : List Char) (v : JVal)
    (h : JVal.parseList fo limit cs = .ok v) : WF fo v ∧ vdepth v < max limit 1 := by
  unfold JVal.parseList at h
  split at h
  · exact absurd h (by simp)
  · rename_i v' rest hv
    split at h
    · simp only [Except.ok.injEq] at h; subst h
      exact (parsedOK fo hfo _).1 _ _ _ _ hv
    · exact absurd h (by simp)
end AquaProps.JsonLemmas
