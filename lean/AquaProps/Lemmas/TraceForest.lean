import Aqua.Trace.WF
/-!
# The par forest: inductive specification of `wfPar` (C10)
-/
namespace Aqua.Trace
open Aqua Aqua.Data

/-- a list of `(left, right)` sizes that is the pre-order listing of a forest: every node is followed by exactly
`left` entries forming a forest and then `right` entries forming a forest -/
inductive ForestS : List (Nat × Nat) → Prop
  | nil : ForestS []
  | node (L R rest : List (Nat × Nat)) : ForestS L → ForestS R → ForestS rest →
      ForestS ((L.length, R.length) :: (L ++ R ++ rest))

theorem ForestS.leaf {rest : List (Nat × Nat)} (h : ForestS rest) : ForestS ((0, 0) :: rest) := by
  have := ForestS.node [] [] rest .nil .nil h
  simpa using this

theorem ForestS.append {a b : List (Nat × Nat)} (ha : ForestS a) (hb : ForestS b) : ForestS (a ++ b) := by
  induction ha with
  | nil => simpa using hb
  | node L R rest hL hR _ _ _ ih =>
    have := ForestS.node L R (rest ++ b) hL hR ih
    simpa [List.append_assoc] using this

theorem readForest_zero (fuel : Nat) (t : List (Nat × Nat)) : readForest fuel t 0 = some t := by
  cases fuel <;> cases t <;> simp [readForest]

/-- the executable reader accepts every forest (with enough fuel) and stops exactly after it -/
theorem readForest_of_forest {seg : List (Nat × Nat)} (h : ForestS seg) :
    ∀ (fuel : Nat) (rest : List (Nat × Nat)), seg.length < fuel →
      readForest fuel (seg ++ rest) seg.length = some rest := by
  induction h with
  | nil => intro fuel rest _; simp [readForest_zero]
  | node L R tl _ _ _ ihL ihR ihT =>
    intro fuel rest hf
    cases fuel with
    | zero => omega
    | succ fuel =>
      simp only [List.length_cons, List.length_append] at hf
      have e1 : ((L.length, R.length) :: (L ++ R ++ tl)) ++ rest =
          (L.length, R.length) :: (L ++ (R ++ (tl ++ rest))) := by simp [List.append_assoc]
      have e2 : ((L.length, R.length) :: (L ++ R ++ tl)).length = (L.length + R.length + tl.length) + 1 := by
        simp only [List.length_cons, List.length_append]
      rw [e1, e2]
      simp only [readForest]
      have hle : L.length + R.length ≤ L.length + R.length + tl.length := by omega
      simp only [hle, if_true]
      rw [ihL fuel (R ++ (tl ++ rest)) (by omega)]
      simp only [Option.bind_some]
      rw [ihR fuel (tl ++ rest) (by omega)]
      simp only [Option.bind_some]
      have : L.length + R.length + tl.length - (L.length + R.length) = tl.length := by omega
      rw [this]
      exact ihT fuel rest (by omega)

theorem wfPar_of_forest (t : Trace) (h : ForestS (t.map parSizes)) : wfPar t = true := by
  unfold wfPar
  have := readForest_of_forest h (t.length + 1) [] (by simp)
  simp only [List.append_nil, List.length_map] at this
  simp [this]

/-- conversely, whatever the reader accepts is a forest -/
theorem forest_of_readForest : ∀ (fuel : Nat) (t : List (Nat × Nat)) (n : Nat) (rest : List (Nat × Nat)),
    readForest fuel t n = some rest → ∃ seg, t = seg ++ rest ∧ seg.length = n ∧ ForestS seg := by
  intro fuel
  induction fuel with
  | zero =>
    intro t n rest h
    cases n with
    | zero => simp only [readForest_zero, Option.some.injEq] at h; subst h; exact ⟨[], rfl, rfl, .nil⟩
    | succ n => simp [readForest] at h
  | succ fuel ih =>
    intro t n rest h
    cases n with
    | zero => simp only [readForest_zero, Option.some.injEq] at h; subst h; exact ⟨[], rfl, rfl, .nil⟩
    | succ n =>
      cases t with
      | nil => simp [readForest] at h
      | cons p tl =>
        obtain ⟨l, r⟩ := p
        simp only [readForest] at h
        split at h
        · rename_i hle
          cases h1 : readForest fuel tl l with
          | none => simp [h1] at h
          | some r1 =>
            simp only [h1, Option.bind_some] at h
            cases h2 : readForest fuel r1 r with
            | none => simp [h2] at h
            | some r2 =>
              simp only [h2, Option.bind_some] at h
              obtain ⟨L, eL, lL, fL⟩ := ih tl l r1 h1
              obtain ⟨R, eR, lR, fR⟩ := ih r1 r r2 h2
              obtain ⟨T, eT, lT, fT⟩ := ih r2 (n - (l + r)) rest h
              refine ⟨(l, r) :: (L ++ R ++ T), ?_, ?_, ?_⟩
              · rw [eL, eR, eT]; simp [List.append_assoc]
              · simp only [List.length_cons, List.length_append, lL, lR, lT]; omega
              · subst lL lR; exact .node L R T fL fR fT
        · simp at h

theorem wfPar_iff_forest (t : Trace) : wfPar t = true ↔ ForestS (t.map parSizes) := by
  constructor
  · intro h
    unfold wfPar at h
    simp only [beq_iff_eq] at h
    obtain ⟨seg, e, _, f⟩ := forest_of_readForest _ _ _ _ h
    simp only [List.append_nil] at e
    rw [e]; exact f
  · exact wfPar_of_forest t

end Aqua.Trace
