import Aqua.Ref.Eval
/-!
# C16 lemmas, part 1: the reference evaluator on the flat sub-fragment

`FragA`: call / seq / par / xor / match / mismatch / scalar ap / fail / null / never with operands that
are literals, `%init_peer_id%`, `%timestamp%`, `%ttl%`, scalars or scalars with lenses (no fold, next,
new; no streams; no error objects).  On it the evaluator's state stays *flat* (one global frame, no
loops), bindings are only added, calls are only appended.
-/
namespace AquaProps.C16
open Aqua Aqua.Json Aqua.Air Aqua.Ref

/-- operand kinds of the fragment -/
def FragV : Value → Bool
  | .initPeerId | .literal _ | .timestamp | .ttl | .number _ | .float _ | .boolean _ | .emptyArray
  | .scalar _ | .scalarWL _ _ => true
  | _ => false

/-- triplet parts the grammar allows in the fragment -/
def FragT : Value → Bool
  | .initPeerId | .literal _ | .scalar _ | .scalarWL _ _ => true
  | _ => false

theorem fragT_fragV {v : Value} (h : FragT v = true) : FragV v = true := by
  cases v <;> simp [FragT, FragV] at h ⊢

/-- the flat sub-fragment (no fold / next / new) -/
def FragA : Instr → Bool
  | .call p s f args out => FragT p && FragT s && FragT f && args.all FragV &&
      (match out with | .stream .. => false | _ => true)
  | .seq l r | .par l r | .xor l r => FragA l && FragA r
  | .match_ a b i | .mismatch a b i => FragV a && FragV b && FragA i
  | .ap arg out => FragV arg && (match out with | .scalar _ => true | _ => false)
  | .fail arg => (match arg with | .canonWL .. => false | _ => true)
  | .null | .never => true
  | _ => false

/-- one visible global frame, no active fold -/
structure FlatS (s : State) : Prop where
  frames : ∃ g, s.frames = [g] ∧ g.hidden = false
  loops : s.loops = []

/-- bindings are kept, calls are appended -/
structure Ext (s s' : State) : Prop where
  env : ∀ n v, s.lookup n = .val v → s'.lookup n = .val v
  calls : ∃ more, s'.calls = s.calls ++ more

theorem Ext.refl (s : State) : Ext s s := ⟨fun _ _ h => h, ⟨[], by simp⟩⟩

theorem Ext.trans {a b c : State} (h1 : Ext a b) (h2 : Ext b c) : Ext a c := by
  obtain ⟨m1, e1⟩ := h1.calls
  obtain ⟨m2, e2⟩ := h2.calls
  exact ⟨fun n v h => h2.env n v (h1.env n v h), ⟨m1 ++ m2, by rw [e2, e1, List.append_assoc]⟩⟩

theorem Ext.mem_calls {s s' : State} (h : Ext s s') {x : Call} (hx : x ∈ s.calls) : x ∈ s'.calls := by
  obtain ⟨m, e⟩ := h.calls
  rw [e]; exact List.mem_append_left _ hx

/-! ### environment algebra on flat states -/

theorem findVar_setVar_same (vars : List (String × Option JVal)) (n : String) (v : Option JVal) :
    findVar (setVar vars n v) n = some v := by
  induction vars with
  | nil => simp [setVar, findVar]
  | cons kv rest ih =>
    obtain ⟨k, w⟩ := kv
    simp only [setVar]
    by_cases h : (k == n) = true
    · simp [h, findVar]
    · simp [h, findVar, ih]

theorem findVar_setVar_other (vars : List (String × Option JVal)) (n m : String) (v : Option JVal) (hne : m ≠ n) :
    findVar (setVar vars n v) m = findVar vars m := by
  induction vars with
  | nil =>
    have : (n == m) = false := by simpa using fun h => hne h.symm
    simp [setVar, findVar, this]
  | cons kv rest ih =>
    obtain ⟨k, w⟩ := kv
    simp only [setVar]
    by_cases h : (k == n) = true
    · have hk : k = n := by simpa using h
      have : (k == m) = false := by subst hk; simpa using fun h => hne h.symm
      simp [h, findVar, this]
    · simp [h, findVar, ih]

theorem lookup_flat {s : State} (h : FlatS s) (n : String) :
    ∃ g, s.frames = [g] ∧ s.lookup n = (match findVar g.vars n with
      | some (some v) => Got.val v
      | some none => Got.error
      | none => Got.undefined) := by
  obtain ⟨g, hg, hh⟩ := h.frames
  refine ⟨g, hg, ?_⟩
  unfold State.lookup
  rw [hg, h.loops]
  simp only [lookupFrames, hh]
  cases hf : findVar g.vars n with
  | none => simp [findLoop]
  | some o => cases o <;> simp

theorem flat_bind {s : State} (h : FlatS s) (n : String) (v : JVal) : FlatS (s.bind n v) := by
  obtain ⟨g, hg, hh⟩ := h.frames
  refine ⟨⟨{ g with vars := setVar g.vars n (some v) }, ?_, hh⟩, ?_⟩
  · simp [State.bind, hg]
  · simp only [State.bind, hg]; exact h.loops

theorem lookup_bind_same {s : State} (h : FlatS s) (n : String) (v : JVal) : (s.bind n v).lookup n = .val v := by
  obtain ⟨g, hg, hh⟩ := h.frames
  obtain ⟨g', hg', hl⟩ := lookup_flat (flat_bind h n v) n
  rw [hl]
  have : g' = { g with vars := setVar g.vars n (some v) } := by
    have : (s.bind n v).frames = [{ g with vars := setVar g.vars n (some v) }] := by simp [State.bind, hg]
    rw [this] at hg'; injection hg' with h1 _; exact h1.symm
  subst this
  simp [findVar_setVar_same]

theorem lookup_bind_other {s : State} (h : FlatS s) (n m : String) (v : JVal) (hne : m ≠ n) :
    (s.bind n v).lookup m = s.lookup m := by
  obtain ⟨g, hg, hh⟩ := h.frames
  obtain ⟨g', hg', hl⟩ := lookup_flat (flat_bind h n v) m
  obtain ⟨g0, hg0, hl0⟩ := lookup_flat h m
  rw [hl, hl0]
  have e1 : g' = { g with vars := setVar g.vars n (some v) } := by
    have : (s.bind n v).frames = [{ g with vars := setVar g.vars n (some v) }] := by simp [State.bind, hg]
    rw [this] at hg'; injection hg' with h1 _; exact h1.symm
  have e0 : g0 = g := by rw [hg] at hg0; injection hg0 with h1 _; exact h1.symm
  subst e1; subst e0
  simp [findVar_setVar_other _ _ _ _ hne]

/-- binding a name that may be bound keeps every earlier binding -/
theorem ext_bind {s : State} (h : FlatS s) (n : String) (v : JVal) (hc : s.canBind n = true) : Ext s (s.bind n v) := by
  refine ⟨?_, ⟨[], by simp [State.bind]; cases s.frames <;> simp⟩⟩
  intro m w hm
  by_cases hmn : m = n
  · subst hmn
    -- the name was not bound: `canBind` says so
    exfalso
    obtain ⟨g, hg, hl⟩ := lookup_flat h m
    unfold State.canBind at hc
    rw [h.loops, hg] at hc
    simp only [findLoop, Option.isSome_none, Bool.false_eq_true, if_false] at hc
    rw [hl] at hm
    cases hf : findVar g.vars m with
    | none => simp [hf] at hm
    | some o =>
      cases o with
      | none => simp [hf] at hm
      | some x => simp [hf] at hc
  · rw [lookup_bind_other h n m v hmn]; exact hm

theorem flat_pushCall {s : State} (h : FlatS s) (c : Call) : FlatS (pushCall s c) := ⟨h.frames, h.loops⟩

theorem ext_pushCall (s : State) (c : Call) : Ext s (pushCall s c) :=
  ⟨fun _ _ h => h, ⟨[c], rfl⟩⟩

end AquaProps.C16

namespace AquaProps.C16
open Aqua Aqua.Json Aqua.Air Aqua.Ref

/-- the successful call with a scalar output -/
theorem call_bind_case {s : State} (hs : FlatS s) (c : Call) (name : String) (v : JVal) (hc : s.canBind name = true) :
    FlatS ((pushCall s c).bind name v) ∧ Ext s ((pushCall s c).bind name v) := by
  have hc' : (pushCall s c).canBind name = true := hc
  exact ⟨flat_bind (flat_pushCall hs _) _ _, (ext_pushCall s _).trans (ext_bind (flat_pushCall hs _) _ _ hc')⟩

/-- **the evaluator only extends a flat state** (whatever the outcome) -/
theorem eval_ext (O : Oracle) (p : Params) : ∀ (fuel : Nat) (up : Bool) (i : Instr) (s : State),
    FragA i = true → FlatS s → FlatS (eval O p fuel up i s).2 ∧ Ext s (eval O p fuel up i s).2
  | 0, _, _, s, _, hs => by simp only [eval]; exact ⟨hs, Ext.refl s⟩
  | fuel + 1, up, i, s, hi, hs => by
    have ih := eval_ext O p fuel
    cases i with
    | null => simp only [eval]; exact ⟨hs, Ext.refl s⟩
    | never => simp only [eval]; exact ⟨hs, Ext.refl s⟩
    | fail arg => simp only [eval]; split <;> exact ⟨hs, Ext.refl s⟩
    | seq l r =>
      simp only [FragA, Bool.and_eq_true] at hi
      simp only [eval]
      have h1 := ih false l s hi.1 hs
      split
      · rename_i s1 he
        rw [he] at h1
        have h2 := ih false r s1 hi.2 h1.1
        exact ⟨h2.1, h1.2.trans h2.2⟩
      · exact h1
    | xor l r =>
      simp only [FragA, Bool.and_eq_true] at hi
      simp only [eval]
      have h1 := ih false l s hi.1 hs
      split
      · rename_i s1 he
        rw [he] at h1
        have h2 := ih false r s1 hi.2 h1.1
        exact ⟨h2.1, h1.2.trans h2.2⟩
      · exact h1
    | par l r =>
      simp only [FragA, Bool.and_eq_true] at hi
      simp only [eval]
      have h1 := ih true l s hi.1 hs
      split
      · rename_i w s1 he; rw [he] at h1; exact h1
      · rename_i o1 s1 _ he
        rw [he] at h1
        have h2 := ih true r s1 hi.2 h1.1
        split
        · rename_i w s2 he2; rw [he2] at h2; exact ⟨h2.1, h1.2.trans h2.2⟩
        · rename_i o2 s2 _ he2
          rw [he2] at h2
          have : FlatS s2 ∧ Ext s s2 := ⟨h2.1, h1.2.trans h2.2⟩
          split <;> exact this
    | match_ a b body =>
      simp only [FragA, Bool.and_eq_true] at hi
      simp only [eval]
      split
      · split
        · exact ⟨hs, Ext.refl s⟩
        · exact ⟨hs, Ext.refl s⟩
        · split
          · exact ⟨hs, Ext.refl s⟩
          · exact ⟨hs, Ext.refl s⟩
          · split
            · exact ih false body s hi.2 hs
            · exact ⟨hs, Ext.refl s⟩
      · exact ⟨hs, Ext.refl s⟩
    | mismatch a b body =>
      simp only [FragA, Bool.and_eq_true] at hi
      simp only [eval]
      split
      · split
        · exact ⟨hs, Ext.refl s⟩
        · exact ⟨hs, Ext.refl s⟩
        · split
          · exact ⟨hs, Ext.refl s⟩
          · exact ⟨hs, Ext.refl s⟩
          · split
            · exact ⟨hs, Ext.refl s⟩
            · exact ih false body s hi.2 hs
      · exact ⟨hs, Ext.refl s⟩
    | ap arg out =>
      simp only [eval]
      split
      · split
        · exact ⟨hs, Ext.refl s⟩
        · exact ⟨hs, Ext.refl s⟩
        · exact ⟨hs, Ext.refl s⟩
        · split
          · rename_i hc; exact ⟨flat_bind hs _ _, ext_bind hs _ _ hc⟩
          · exact ⟨hs, Ext.refl s⟩
      · exact ⟨hs, Ext.refl s⟩
    | call peer svc func args out =>
      simp only [eval]
      repeat' split
      all_goals first
        | exact ⟨hs, Ext.refl s⟩
        | exact ⟨flat_pushCall hs _, ext_pushCall s _⟩
        | exact call_bind_case hs _ _ _ (by simp_all)
    | _ => simp [FragA] at hi

end AquaProps.C16
