import Aqua.Codec.Varint
/-! Lemmas about the `unsigned-varint` replica: the decoder loop undoes the encoder loop. -/
namespace AquaProps.Lemmas.Varint
open Aqua Aqua.Varint

theorem lor_shift (acc k s : Nat) (h : acc < 2 ^ s) : acc ||| (k <<< s) = acc + k * 2 ^ s := by
  rw [Nat.or_comm, ← Nat.shiftLeft_add_eq_or_of_lt h, Nat.shiftLeft_eq, Nat.add_comm]

theorem pow_succ7 (i : Nat) : 2 ^ (7 * (i + 1)) = 128 * 2 ^ (7 * i) := by
  rw [show 7 * (i + 1) = 7 * i + 7 by omega, Nat.pow_add]; omega

theorem split_mul (n P : Nat) : n * P = (n % 128) * P + (n / 128) * (128 * P) := by
  have h := Nat.div_add_mod n 128
  calc n * P = (128 * (n / 128) + n % 128) * P := by rw [h]
    _ = (n % 128) * P + (n / 128) * (128 * P) := by
      rw [Nat.add_mul, Nat.add_comm, Nat.mul_comm 128 (n / 128), Nat.mul_assoc]

/-- the decoder loop started at byte `i` with accumulator `acc` reads back what `fuel` cells of the encoder wrote -/
theorem decodeGo_encodeGo (fuel : Nat) : ∀ (i acc n : Nat) (rest : Bytes),
    i + fuel = 5 → n < 2 ^ (7 * fuel) → acc < 2 ^ (7 * i) → acc + n * 2 ^ (7 * i) < 2 ^ 32 → (i > 0 → n ≠ 0) →
    decodeGo 4 i acc (encodeGo fuel n ++ rest) = .ok (acc + n * 2 ^ (7 * i), rest) := by
  induction fuel with
  | zero => intro i acc n rest hi; omega
  | succ fuel ih =>
    intro i acc n rest hi hn hacc hsum hmin
    unfold encodeGo
    by_cases hlast : n / 128 = 0
    · have hn128 : n < 128 := by omega
      simp only [hlast, if_true, List.singleton_append, decodeGo]
      have hb : (UInt8.ofNat (n % 128)).toNat = n := by
        rw [UInt8.toNat_ofNat']; omega
      rw [hb, Nat.mul_comm i 7, lor_shift acc (n % 128) (7 * i) hacc, Nat.mod_eq_of_lt hn128, Nat.mod_eq_of_lt hsum]
      simp only [hn128, if_true]
      have : ¬ (n = 0 ∧ i > 0) := fun ⟨h0, hi0⟩ => hmin hi0 h0
      simp [this]
    · have hfuel : fuel ≠ 0 := by
        intro h0; subst h0; simp at hn; omega
      simp only [hlast, if_false, List.cons_append, decodeGo]
      have hb : (UInt8.ofNat (n % 128 + 128)).toNat = n % 128 + 128 := by
        rw [UInt8.toNat_ofNat']; omega
      have hk : (n % 128 + 128) % 128 = n % 128 := by omega
      rw [hb, hk, Nat.mul_comm i 7, lor_shift acc (n % 128) (7 * i) hacc]
      have hsplit := split_mul n (2 ^ (7 * i))
      have hle : acc + n % 128 * 2 ^ (7 * i) < 2 ^ 32 := by omega
      rw [Nat.mod_eq_of_lt hle]
      have h1 : ¬ (n % 128 + 128 < 128) := by omega
      have h2 : ¬ (i = 4) := by omega
      simp only [h1, h2, if_false]
      have hpow := pow_succ7 i
      have hacc' : acc + n % 128 * 2 ^ (7 * i) < 2 ^ (7 * (i + 1)) := by
        rw [hpow]
        have : n % 128 * 2 ^ (7 * i) ≤ 127 * 2 ^ (7 * i) := Nat.mul_le_mul_right _ (by omega)
        omega
      have hn' : n / 128 < 2 ^ (7 * fuel) := by
        rw [pow_succ7 fuel] at hn; omega
      rw [ih (i + 1) _ (n / 128) rest (by omega) hn' hacc' (by rw [hpow]; omega) (fun _ => hlast)]
      rw [hpow]; congr 2; omega

theorem encodeU32_roundtrip (n : Nat) (hn : n < 2 ^ 32) (rest : Bytes) :
    decodeU32 (encodeU32 n ++ rest) = .ok (n, rest) := by
  have := decodeGo_encodeGo 5 0 0 n rest (by omega) (by omega) (by omega) (by omega) (by omega)
  simpa [decodeU32, encodeU32] using this

end AquaProps.Lemmas.Varint
