import AquaProps.Lemmas.Rel
import Aqua.Exec.Prov
/-!
Invariant-style reasoning for the execution monad, on top of the relational logic of `Rel.lean`:
an invariant `I` is the relation `Keeps I c c' := I c → I c'` (a preorder), so every `rel_*`
combinator applies.  `Pres I m := ∀ c, I c → I (m c).2`.

Then the C17 invariant `EnvInv` ("every stored aggregate names a producer that the particle's CID
stores record") with its closure lemmas for the scalar store, the CID store and the tetraplet
operations.
-/
namespace AquaProps
open Aqua Aqua.Exec Aqua.Air Aqua.Trace Aqua.Json

/-! ## invariants as relations -/

def Keeps (I : Ctx → Prop) : Ctx → Ctx → Prop := fun c c' => I c → I c'

theorem keeps_preorder (I : Ctx → Prop) : Preorder' (Keeps I) where
  refl _ := id
  trans h1 h2 := fun h => h2 (h1 h)

def Pres (I : Ctx → Prop) {α : Type} (m : M α) : Prop := ∀ c, I c → I (m c).2

theorem pres_iff_rel {I : Ctx → Prop} {α : Type} (m : M α) : Pres I m ↔ Rel (Keeps I) m := Iff.rfl

/-! ## association lists (`upsert` / `lookup`) -/

def keys {β : Type} (l : List (String × β)) : List String := l.map (·.1)

theorem mem_keys_of_mem {β : Type} {l : List (String × β)} {e : String × β} (h : e ∈ l) : e.1 ∈ keys l :=
  List.mem_map.mpr ⟨e, h, rfl⟩

theorem keys_upsert_mono {β : Type} (l : List (String × β)) (k : String) (v : β) {k' : String} (h : k' ∈ keys l) :
    k' ∈ keys (upsert l k v) := by
  unfold upsert
  split
  · unfold keys at *
    rw [List.map_map]
    obtain ⟨e, he, rfl⟩ := List.mem_map.mp h
    refine List.mem_map.mpr ⟨e, he, ?_⟩
    simp only [Function.comp]
    split <;> rfl
  · unfold keys at *
    simp [h]

theorem key_mem_upsert {β : Type} (l : List (String × β)) (k : String) (v : β) : k ∈ keys (upsert l k v) := by
  unfold upsert
  split
  · rename_i h
    obtain ⟨e, he, hk⟩ := List.any_eq_true.mp h
    have hk' : e.1 = k := by simpa using hk
    unfold keys
    rw [List.map_map]
    refine List.mem_map.mpr ⟨e, he, ?_⟩
    simp only [Function.comp]
    split
    · exact hk'
    · exact hk'
  · unfold keys; simp

theorem mem_upsert {β : Type} {l : List (String × β)} {k : String} {v : β} {e : String × β} (h : e ∈ upsert l k v) :
    e ∈ l ∨ e = (k, v) := by
  unfold upsert at h
  split at h
  · obtain ⟨⟨k0, v0⟩, he0, rfl⟩ := List.mem_map.mp h
    by_cases hk : (k0 == k) = true
    · have : k0 = k := by simpa using hk
      right
      simp [this]
    · left
      simp only [hk]
      exact he0
  · rcases List.mem_append.mp h with h | h
    · left; exact h
    · right; simpa using h

theorem lookup_mem {β : Type} {l : List (String × β)} {k : String} {v : β} (h : lookup l k = some v) : (k, v) ∈ l := by
  unfold lookup at h
  cases hf : l.find? (fun (x : String × β) => x.1 == k) with
  | none => simp [hf] at h
  | some e =>
    simp [hf] at h
    have hm := List.mem_of_find?_eq_some hf
    have hp := List.find?_some hf
    have : e.1 = k := by simpa using hp
    rw [← this, ← h]
    exact hm

end AquaProps
