import AquaProps.Lemmas.TraceKeeper
/-!
# The operation language the executor drives the trace handler with, and the effect of every operation on the
result trace, the par stack and the fold FSM map (C10)
-/
set_option linter.unusedSimpArgs false

namespace Aqua.Trace
open Aqua Aqua.Data

/-- one call of the `TraceHandler` API (answers of the `*_start` mergers are dropped: they do not matter for the
shape of the result trace) -/
inductive HOp
  | callStart | callEnd (c : CallResult)
  | apStart | apEnd (gens : List Nat)
  | canonStart | canonEnd (c : CanonResult)
  | parStart | parEnd (t : SubgraphType)
  | foldStart (id : Nat) | iterStart (id pos : Nat) | iterEnd (id : Nat) | backIter (id : Nat)
  | genEnd (id : Nat) | foldEnd (id : Nat)
  | updateGeneration (pos gen : Nat)
deriving Repr, DecidableEq

def resOk {ε α} : Res ε α → Option α
  | .ok a => some a
  | _ => none

theorem resOk_eq_some {ε α} {r : Res ε α} {a : α} : resOk r = some a ↔ r = .ok a := by
  cases r <;> simp [resOk]

/-- apply one operation; `none` = the real call returned an error (or panicked): the run is abandoned -/
def HOp.apply (h : TraceHandler) : HOp → Option TraceHandler
  | .callStart => (resOk h.meetCallStart).map (·.2)
  | .callEnd c => some (h.meetCallEnd c)
  | .apStart => (resOk h.meetApStart).map (·.2)
  | .apEnd g => some (h.meetApEnd g)
  | .canonStart => (resOk h.meetCanonStart).map (·.2)
  | .canonEnd c => some (h.meetCanonEnd c)
  | .parStart => resOk h.meetParStart
  | .parEnd t => resOk (h.meetParSubgraphEnd t)
  | .foldStart id => resOk (h.meetFoldStart id)
  | .iterStart id p => resOk (h.meetIterationStart id p)
  | .iterEnd id => resOk (h.meetIterationEnd id)
  | .backIter id => resOk (h.meetBackIterator id)
  | .genEnd id => resOk (h.meetGenerationEnd id)
  | .foldEnd id => resOk (h.meetFoldEnd id)
  | .updateGeneration p g => resOk (h.updateGeneration p g)

def runOps : List HOp → TraceHandler → Option TraceHandler
  | [], h => some h
  | op :: rest, h => (op.apply h).bind (runOps rest)

theorem runOps_append (a b : List HOp) (h : TraceHandler) :
    runOps (a ++ b) h = (runOps a h).bind (runOps b) := by
  induction a generalizing h with
  | nil => simp [runOps]
  | cons op rest ih =>
    simp only [List.cons_append, runOps]
    cases op.apply h with
    | none => simp
    | some h1 => simp [ih]

/-- the result trace -/
abbrev TraceHandler.tr (h : TraceHandler) : Trace := h.keeper.resultTrace

/-! ## effects -/

theorem meetCallStart_eff {h h' : TraceHandler} {r} (e : h.meetCallStart = .ok (r, h')) :
    h'.tr = h.tr ∧ h'.parStack = h.parStack ∧ h'.foldMap = h.foldMap := by
  unfold TraceHandler.meetCallStart at e
  simp only [Res.bind_eq_ok, Res.pure_eq_ok, Prod.mk.injEq] at e
  obtain ⟨⟨r1, k⟩, hk, _, rfl⟩ := e
  exact ⟨tryMergeNextStateAsCall_trace hk, rfl, rfl⟩

theorem meetApStart_eff {h h' : TraceHandler} {r} (e : h.meetApStart = .ok (r, h')) :
    h'.tr = h.tr ∧ h'.parStack = h.parStack ∧ h'.foldMap = h.foldMap := by
  unfold TraceHandler.meetApStart at e
  simp only [Res.bind_eq_ok, Res.pure_eq_ok, Prod.mk.injEq] at e
  obtain ⟨⟨r1, k⟩, hk, _, rfl⟩ := e
  exact ⟨tryMergeNextStateAsAp_trace hk, rfl, rfl⟩

theorem meetCanonStart_eff {h h' : TraceHandler} {r} (e : h.meetCanonStart = .ok (r, h')) :
    h'.tr = h.tr ∧ h'.parStack = h.parStack ∧ h'.foldMap = h.foldMap := by
  unfold TraceHandler.meetCanonStart at e
  simp only [Res.bind_eq_ok, Res.pure_eq_ok, Prod.mk.injEq] at e
  obtain ⟨⟨r1, k⟩, hk, _, rfl⟩ := e
  exact ⟨tryMergeNextStateAsCanon_trace hk, rfl, rfl⟩

theorem pushState_eff (h : TraceHandler) (s : ExecutedState) :
    (h.pushState s).tr = h.tr ++ [s] ∧ (h.pushState s).parStack = h.parStack ∧ (h.pushState s).foldMap = h.foldMap :=
  ⟨rfl, rfl, rfl⟩

/-- `ParFSM::from_left_started`: the placeholder is appended at the reserved position, `ParBuilder` starts counting
after it -/
theorem fromLeftStarted_eff {pp cp : ParResult} {k k' : DataKeeper} {f : ParFSM}
    (e : ParFSM.fromLeftStarted pp cp k = .ok (f, k')) :
    k'.resultTrace = k.resultTrace ++ [.par 0 0] ∧ f.inserterPos = k.resultTrace.length ∧
      f.savedStatesCount = k.resultTrace.length + 1 := by
  unfold ParFSM.fromLeftStarted at e
  simp only [Res.bind_eq_ok, Res.pure_eq_ok, Prod.mk.injEq] at e
  obtain ⟨_, _, _, _, _, _, _, _, k2, hk2, rfl, rfl⟩ := e
  refine ⟨?_, rfl, ?_⟩
  · rw [parPrepareSliders_trace hk2]
  · simp [DataKeeper.resultTraceNextPos]

theorem meetParStart_eff {h h' : TraceHandler} (e : h.meetParStart = .ok h') :
    ∃ f, h'.parStack = f :: h.parStack ∧ f.inserterPos = h.tr.length ∧ f.savedStatesCount = h.tr.length + 1 ∧
      h'.tr = h.tr ++ [.par 0 0] ∧ h'.foldMap = h.foldMap := by
  unfold TraceHandler.meetParStart at e
  simp only [Res.bind_eq_ok, Res.pure_eq_ok] at e
  obtain ⟨⟨pp, cp, k1⟩, hk1, ⟨f, k2⟩, hk2, rfl⟩ := e
  obtain ⟨ht, hi, hs⟩ := fromLeftStarted_eff hk2
  have h1 := tryMergeNextStateAsPar_trace hk1
  refine ⟨f, rfl, ?_, ?_, ?_, rfl⟩
  · rw [hi, h1]
  · rw [hs, h1]
  · show k2.resultTrace = _
    rw [ht, h1]

theorem leftCompleted_eff {f f' : ParFSM} {k k' : DataKeeper} (e : f.leftCompleted k = .ok (f', k')) :
    f' = f.track k .left ∧ k'.resultTrace = k.resultTrace := by
  unfold ParFSM.leftCompleted at e
  simp only [Res.bind_eq_ok, Res.pure_eq_ok] at e
  obtain ⟨k1, hk1, e⟩ := e
  have h1 := updateCtxStates_trace hk1
  split at e
  · rename_i k2 hk2
    simp only [Res.pure_eq_ok, Prod.mk.injEq] at e
    obtain ⟨rfl, rfl⟩ := e
    exact ⟨rfl, by rw [parPrepareSliders_trace hk2, h1]⟩
  · split at e
    · simp only [Res.pure_eq_ok, Prod.mk.injEq] at e
      obtain ⟨rfl, rfl⟩ := e
      exact ⟨rfl, h1⟩
    · simp only [Res.pure_eq_ok, Prod.mk.injEq] at e
      obtain ⟨rfl, rfl⟩ := e
      exact ⟨rfl, h1⟩
    · simp [Res.panic] at e
  · simp [Res.panic] at e

theorem rightCompleted_eff {f : ParFSM} {k k' : DataKeeper} (e : f.rightCompleted k = .ok k') :
    k'.resultTrace = setAt k.resultTrace f.inserterPos
      (.par (truncU32 f.leftSize) (truncU32 (k.resultTrace.length - f.savedStatesCount))) := by
  unfold ParFSM.rightCompleted at e
  simp only [Res.bind_eq_ok, Res.pure_eq_ok] at e
  rw [updateCtxStates_trace e]
  simp [ParFSM.track]

theorem meetParSubgraphEnd_left_eff {h h' : TraceHandler} (e : h.meetParSubgraphEnd .left = .ok h') :
    ∃ f rest, h.parStack = f :: rest ∧ h'.parStack = f.track h.keeper .left :: rest ∧ h'.tr = h.tr ∧
      h'.foldMap = h.foldMap := by
  unfold TraceHandler.meetParSubgraphEnd at e
  split at e
  · simp at e
  · rename_i f rest hst
    simp only [Res.bind_eq_ok, Res.pure_eq_ok] at e
    obtain ⟨⟨f', k'⟩, hk, rfl⟩ := e
    obtain ⟨rfl, ht⟩ := leftCompleted_eff hk
    exact ⟨f, rest, hst, rfl, ht, rfl⟩

theorem meetParSubgraphEnd_right_eff {h h' : TraceHandler} (e : h.meetParSubgraphEnd .right = .ok h') :
    ∃ f rest, h.parStack = f :: rest ∧ h'.parStack = rest ∧
      h'.tr = setAt h.tr f.inserterPos (.par (truncU32 f.leftSize) (truncU32 (h.tr.length - f.savedStatesCount))) ∧
      h'.foldMap = h.foldMap := by
  unfold TraceHandler.meetParSubgraphEnd at e
  split at e
  · simp at e
  · rename_i f rest hst
    simp only [Res.bind_eq_ok, Res.pure_eq_ok] at e
    obtain ⟨k', hk, rfl⟩ := e
    exact ⟨f, rest, hst, rfl, rightCompleted_eff hk, rfl⟩

end Aqua.Trace
