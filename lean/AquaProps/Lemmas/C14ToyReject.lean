import AquaProps.Lemmas.C14Toy
namespace AquaProps.C14
open Aqua Aqua.Data Aqua.Exec Aqua.Run Aqua.Crypto

theorem toy_swapped_rejected : (verifyData toyEnv curSwapped "p1").isOk = false := by decide +kernel
theorem toy_replayed_rejected : (verifyData toyEnv curReplayed "p1").isOk = false := by decide +kernel

end AquaProps.C14
