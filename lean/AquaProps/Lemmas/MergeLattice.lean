import Aqua.Trace.Handler
/-!
Algebra of the per-state merges (`merge_call_results`, `merge_executed`, `merge_canon_results`):
idempotence, upper bound ("never forgets"), commutativity up to the sender of a pending request,
associativity, and failure only on conflicting results.  Used by C04, C07, C08, C09, C11.
-/
namespace AquaProps.Merge
open Aqua Aqua.Data Aqua.Trace

/-- the content of a state: what a result *is*, ignoring who sent a pending request and stream generations -/
inductive Content
  | pending
  | scalar (cid : Cid) | stream (cid : Cid) | unused (cid : Cid)
  | failed (cid : Cid)
deriving DecidableEq, Repr

def contentOf : CallResult → Content
  | .requestSentBy _ => .pending
  | .executed (.scalar c) => .scalar c
  | .executed (.stream c _) => .stream c
  | .executed (.unused c) => .unused c
  | .failed c => .failed c

/-- information order: a pending request knows nothing, a result knows itself -/
def Content.le (a b : Content) : Prop := a = .pending ∨ a = b

def isResult (c : CallResult) : Prop := contentOf c ≠ .pending

instance (c : CallResult) : Decidable (isResult c) := by unfold isResult; exact inferInstance

def vcontent : ValueRef → Content
  | .scalar c => .scalar c
  | .stream c _ => .stream c
  | .unused c => .unused c

theorem mergeExecuted_eq (pv cv : ValueRef) :
    mergeExecuted pv cv = if vcontent pv = vcontent cv then .ok (.executed pv) else .error .notEqualValues := by
  cases pv <;> cases cv <;> simp [mergeExecuted, vcontent]

/-- **Specification of the call merge** by cases on what each side knows. -/
theorem mergeCall_spec (p c : CallResult) :
    (¬ isResult p → ¬ isResult c → mergeCallResults p c = .ok (p, .previous)) ∧
    (¬ isResult p → isResult c → mergeCallResults p c = .ok (c, .current)) ∧
    (isResult p → ¬ isResult c → mergeCallResults p c = .ok (p, .previous)) ∧
    (isResult p → isResult c → contentOf p = contentOf c → ∃ s, mergeCallResults p c = .ok (p, s)) ∧
    (isResult p → isResult c → contentOf p ≠ contentOf c → ∃ e, mergeCallResults p c = .error e) := by
  cases p with
  | requestSentBy sp =>
    cases c with
    | requestSentBy sc => simp [mergeCallResults, isResult, contentOf]
    | executed v => cases v <;> simp [mergeCallResults, isResult, contentOf]
    | failed f => simp [mergeCallResults, isResult, contentOf]
  | executed pv =>
    cases c with
    | requestSentBy sc => cases pv <;> simp [mergeCallResults, isResult, contentOf]
    | executed cv =>
      have hc : contentOf (.executed pv) = vcontent pv := by cases pv <;> rfl
      have hc' : contentOf (.executed cv) = vcontent cv := by cases cv <;> rfl
      have hr : isResult (.executed pv) := by cases pv <;> simp [isResult, contentOf]
      have hr' : isResult (.executed cv) := by cases cv <;> simp [isResult, contentOf]
      simp only [mergeCallResults, mergeExecuted_eq, hc, hc', hr, hr', not_true_eq_false, false_implies, true_implies, true_and]
      by_cases h : vcontent pv = vcontent cv <;> simp [h, Res.bind]
    | failed f => cases pv <;> simp [mergeCallResults, isResult, contentOf]
  | failed pf =>
    cases c with
    | requestSentBy sc => simp [mergeCallResults, isResult, contentOf]
    | executed v => cases v <;> simp [mergeCallResults, isResult, contentOf]
    | failed cf =>
      simp only [mergeCallResults, isResult, contentOf]
      by_cases h : pf = cf <;> simp [h]

/-- **Idempotence** of the call merge: merging a state with itself gives it back. -/
theorem mergeCall_idem (x : CallResult) : ∃ s, mergeCallResults x x = .ok (x, s) := by
  obtain ⟨h1, _, _, h4, _⟩ := mergeCall_spec x x
  by_cases hx : isResult x
  · exact h4 hx hx rfl
  · exact ⟨_, h1 hx hx⟩

/-- **Upper bound**: a successful merge knows everything both inputs knew, and returns one of them. -/
theorem mergeCall_upper (p c m : CallResult) (s : PreparationScheme) (h : mergeCallResults p c = .ok (m, s)) :
    (contentOf p).le (contentOf m) ∧ (contentOf c).le (contentOf m) ∧ (m = p ∨ m = c) := by
  obtain ⟨h1, h2, h3, h4, h5⟩ := mergeCall_spec p c
  by_cases hp : isResult p <;> by_cases hc : isResult c
  · by_cases he : contentOf p = contentOf c
    · obtain ⟨s', hs⟩ := h4 hp hc he
      rw [hs] at h; injection h with h; injection h with hm _; subst hm
      exact ⟨.inr rfl, .inr he.symm, .inl rfl⟩
    · obtain ⟨e, hs⟩ := h5 hp hc he; rw [hs] at h; cases h
  · rw [h3 hp hc] at h; injection h with h; injection h with hm _; subst hm
    exact ⟨.inr rfl, .inl (by simpa [isResult] using hc), .inl rfl⟩
  · rw [h2 hp hc] at h; injection h with h; injection h with hm _; subst hm
    exact ⟨.inl (by simpa [isResult] using hp), .inr rfl, .inr rfl⟩
  · rw [h1 hp hc] at h; injection h with h; injection h with hm _; subst hm
    exact ⟨.inr rfl, .inl (by simpa [isResult] using hc), .inl rfl⟩

/-- **Never forgets** (state level): a result held by either side survives the merge with the same content. -/
theorem mergeCall_keeps_results (p c m : CallResult) (s : PreparationScheme) (h : mergeCallResults p c = .ok (m, s)) :
    (isResult p → contentOf m = contentOf p) ∧ (isResult c → contentOf m = contentOf c) := by
  obtain ⟨hp, hc, _⟩ := mergeCall_upper p c m s h
  constructor
  · intro hr; rcases hp with h0 | h0
    · exact absurd h0 hr
    · exact h0.symm
  · intro hr; rcases hc with h0 | h0
    · exact absurd h0 hr
    · exact h0.symm

/-- **Failure only on a conflict**: the merge fails only when both sides hold results with different content. -/
theorem mergeCall_error_only_on_conflict (p c : CallResult) (e : MergeErr) (h : mergeCallResults p c = .error e) :
    isResult p ∧ isResult c ∧ contentOf p ≠ contentOf c := by
  obtain ⟨h1, h2, h3, h4, _⟩ := mergeCall_spec p c
  by_cases hp : isResult p <;> by_cases hc : isResult c
  · refine ⟨hp, hc, fun he => ?_⟩
    obtain ⟨s, hs⟩ := h4 hp hc he; rw [hs] at h; cases h
  · rw [h3 hp hc] at h; cases h
  · rw [h2 hp hc] at h; cases h
  · rw [h1 hp hc] at h; cases h

/-- the merge never panics -/
theorem mergeCall_no_panic (p c : CallResult) (site : String) : mergeCallResults p c ≠ .panic site := by
  obtain ⟨h1, h2, h3, h4, h5⟩ := mergeCall_spec p c
  intro h
  by_cases hp : isResult p <;> by_cases hc : isResult c
  · by_cases he : contentOf p = contentOf c
    · obtain ⟨s, hs⟩ := h4 hp hc he; rw [hs] at h; cases h
    · obtain ⟨e, hs⟩ := h5 hp hc he; rw [hs] at h; cases h
  · rw [h3 hp hc] at h; cases h
  · rw [h2 hp hc] at h; cases h
  · rw [h1 hp hc] at h; cases h

/-- compatible contents always merge -/
theorem mergeCall_ok_of_compatible (p c : CallResult)
    (h : ¬ (isResult p ∧ isResult c ∧ contentOf p ≠ contentOf c)) : ∃ m s, mergeCallResults p c = .ok (m, s) := by
  cases hm : mergeCallResults p c with
  | ok r => exact ⟨r.1, r.2, rfl⟩
  | error e => exact absurd (mergeCall_error_only_on_conflict p c e hm) h
  | panic s => exact absurd hm (mergeCall_no_panic p c s)

/-- **Commutativity up to the sender**: swapping the arguments gives the same success/failure and the
same content. -/
theorem mergeCall_comm (p c : CallResult) :
    (∀ m s, mergeCallResults p c = .ok (m, s) → ∃ m' s', mergeCallResults c p = .ok (m', s') ∧ contentOf m' = contentOf m) ∧
    (∀ e, mergeCallResults p c = .error e → ∃ e', mergeCallResults c p = .error e') := by
  constructor
  · intro m s h
    have hk := mergeCall_keeps_results p c m s h
    have hcompat : ¬ (isResult c ∧ isResult p ∧ contentOf c ≠ contentOf p) := by
      rintro ⟨hc, hp, hne⟩
      exact hne ((hk.2 hc).symm.trans (hk.1 hp))
    obtain ⟨m', s', h'⟩ := mergeCall_ok_of_compatible c p hcompat
    refine ⟨m', s', h', ?_⟩
    have hk' := mergeCall_keeps_results c p m' s' h'
    by_cases hp : isResult p
    · rw [hk.1 hp, hk'.2 hp]
    · by_cases hc : isResult c
      · rw [hk.2 hc, hk'.1 hc]
      · have up := mergeCall_upper p c m s h
        have up' := mergeCall_upper c p m' s' h'
        have hp0 : contentOf p = .pending := by simpa [isResult] using hp
        have hc0 : contentOf c = .pending := by simpa [isResult] using hc
        rcases up.2.2 with rfl | rfl <;> rcases up'.2.2 with rfl | rfl <;> simp [hp0, hc0]
  · intro e h
    obtain ⟨hp, hc, hne⟩ := mergeCall_error_only_on_conflict p c e h
    cases h' : mergeCallResults c p with
    | error e' => exact ⟨e', rfl⟩
    | ok r =>
      exfalso
      have hk := mergeCall_keeps_results c p r.1 r.2 (by rw [h'])
      exact hne ((hk.2 hp).symm.trans (hk.1 hc))
    | panic s => exact absurd h' (mergeCall_no_panic c p s)

/-- **Associativity of knowledge**: merging three compatible states in either grouping yields the same content. -/
theorem mergeCall_assoc (a b c ab abc bc abc' : CallResult) (s1 s2 s3 s4 : PreparationScheme)
    (h1 : mergeCallResults a b = .ok (ab, s1)) (h2 : mergeCallResults ab c = .ok (abc, s2))
    (h3 : mergeCallResults b c = .ok (bc, s3)) (h4 : mergeCallResults a bc = .ok (abc', s4)) :
    contentOf abc = contentOf abc' := by
  have k1 := mergeCall_keeps_results a b ab s1 h1
  have k2 := mergeCall_keeps_results ab c abc s2 h2
  have k3 := mergeCall_keeps_results b c bc s3 h3
  have k4 := mergeCall_keeps_results a bc abc' s4 h4
  have u1 := mergeCall_upper a b ab s1 h1
  have u2 := mergeCall_upper ab c abc s2 h2
  have u3 := mergeCall_upper b c bc s3 h3
  have u4 := mergeCall_upper a bc abc' s4 h4
  by_cases ha : isResult a
  · -- everything equals a's content
    have hab : contentOf ab = contentOf a := k1.1 ha
    have rab : isResult ab := by unfold isResult; rw [hab]; exact ha
    rw [k2.1 rab, hab, k4.1 ha]
  · by_cases hb : isResult b
    · have hab : contentOf ab = contentOf b := k1.2 hb
      have rab : isResult ab := by unfold isResult; rw [hab]; exact hb
      have hbc : contentOf bc = contentOf b := k3.1 hb
      have rbc : isResult bc := by unfold isResult; rw [hbc]; exact hb
      rw [k2.1 rab, hab, k4.2 rbc, hbc]
    · by_cases hc : isResult c
      · have hbc : contentOf bc = contentOf c := k3.2 hc
        have rbc : isResult bc := by unfold isResult; rw [hbc]; exact hc
        rw [k2.2 hc, k4.2 rbc, hbc]
      · -- nobody knows anything
        have pa : contentOf a = .pending := by simpa [isResult] using ha
        have pb : contentOf b = .pending := by simpa [isResult] using hb
        have pc : contentOf c = .pending := by simpa [isResult] using hc
        have pab : contentOf ab = .pending := by rcases u1.2.2 with rfl | rfl <;> assumption
        have pbc : contentOf bc = .pending := by rcases u3.2.2 with rfl | rfl <;> assumption
        have : contentOf abc = .pending := by rcases u2.2.2 with rfl | rfl <;> assumption
        have : contentOf abc' = .pending := by rcases u4.2.2 with rfl | rfl <;> assumption
        simp_all

/-! ### canon results -/

def canonContent : CanonResult → Option Cid
  | .requestSentBy _ => none
  | .executed c => some c

theorem mergeCanon_idem (x : CanonResult) : mergeCanonResults x x = .ok x := by
  cases x <;> simp [mergeCanonResults]

theorem mergeCanon_keeps (p c m : CanonResult) (h : mergeCanonResults p c = .ok m) :
    (m = p ∨ m = c) ∧ (∀ x, canonContent p = some x → canonContent m = some x) ∧ (∀ x, canonContent c = some x → canonContent m = some x) := by
  cases p with
  | requestSentBy pp =>
    cases c with
    | requestSentBy cp => simp [mergeCanonResults] at h; subst h; simp [canonContent]
    | executed cc => simp [mergeCanonResults] at h; subst h; simp [canonContent]
  | executed pc =>
    cases c with
    | requestSentBy cp => simp [mergeCanonResults] at h; subst h; simp [canonContent]
    | executed cc =>
      simp only [mergeCanonResults] at h
      split at h
      · rename_i heq
        injection h with h; subst h; subst heq
        simp [canonContent]
      · cases h

/-- two different canonicalisation results for one canon are rejected -/
theorem mergeCanon_rejects_two_results (a b : Cid) (h : a ≠ b) :
    mergeCanonResults (.executed a) (.executed b) = .error .incorrectCanonResult := by
  simp [mergeCanonResults, h]

theorem mergeCanon_error_only_on_conflict (p c : CanonResult) (e : MergeErr) (h : mergeCanonResults p c = .error e) :
    ∃ a b, p = .executed a ∧ c = .executed b ∧ a ≠ b := by
  cases p with
  | requestSentBy pp => cases c <;> simp [mergeCanonResults] at h
  | executed a =>
    cases c with
    | requestSentBy cp => simp [mergeCanonResults] at h
    | executed b =>
      refine ⟨a, b, rfl, rfl, ?_⟩
      intro heq
      simp [mergeCanonResults, heq] at h

end AquaProps.Merge
