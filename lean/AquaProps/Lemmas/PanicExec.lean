import AquaProps.Lemmas.Panic
import AquaProps.Lemmas.PanicTrace
/-!
C01: which panic sites each function of the executor model can reach.  One lemma per model function,
proved by walking its definition with the combinator lemmas of `Panic.lean`; `exec` itself is handled in
`PanicExecTop.lean` arm by arm.
-/
set_option linter.unusedSectionVars false
set_option linter.unusedVariables false

namespace AquaProps.Panic
open Aqua Aqua.Exec Aqua.Air Aqua.Trace Aqua.Json Aqua.Data

/-- sites of the executor model for which a concrete input reaches the panic in the model (the `example`s in
`AquaProps/C01.lean`) and in the real interpreter (the harness catalog replays them) -/
def execWitnessedSites : List String :=
  ["raw_value.rs:get_value:expect(TODO handle error)",
   "prev_result_handler.rs:handle_prev_state:argument_hash.unwrap()(Failed)",
   "prev_result_handler.rs:handle_prev_state:argument_hash.expect(Result for joinable error)",
   "prev_result_handler.rs:handle_prev_state:argument_hash.unwrap()(Executed)",
   "context.rs:next_call_request_id:last_call_request_id+=1",
   "values_matrix.rs:add_value_to_generation:generation_idx.checked_add(1).unwrap()"]

/-- sites that are syntactically reachable in the model but guarded by internal invariants of the executor
(cursor < length, fold depth > 0, a state was read before its position is mapped, scopes are closed after they
are opened, the fold queue is non-empty when it is read, …) that are not proved here; no input reaching them is known -/
def execResidualSites : List String :=
  ["values_sparse_matrix.rs:meet_next_after:current_depth-=1",
   "values_sparse_matrix.rs:meet_fold_end:current_depth-=1",
   "iterable/resolved_call.rs:peek:array[cursor]",
   "iterable/resolved_call.rs:peek:unimplemented(non-array)",
   "iterable/lambda_result.rs:peek:jvalues[cursor]",
   "iterable/vec_resolved_call.rs:peek:call_results[cursor]",
   "peek().expect(PEEK_ALLOWED_ON_NON_EMPTY)",
   "fold_lore_resolver.rs:cum_after_len+=after_len",
   "lore_ctor.rs:PositionsTracker::len(before)",
   "lore_ctor.rs:PositionsTracker::len(after)",
   "lore_ctor_queue.rs:current:back_traversal_pos-1",
   "lore_ctor_queue.rs:current:index",
   "lore_ctor_queue.rs:traverse_back",
   "streams_variables.rs:meet_scope_end:get_mut(&name).unwrap()",
   "streams_variables.rs:meet_scope_end:pop().unwrap()",
   "fold_stream.rs:get_mut_stream:streams.get_mut(..).unwrap()"]

def execPanicSites : List String := execWitnessedSites ++ execResidualSites

abbrev EL := execPanicSites

def rawSite : String := "raw_value.rs:get_value:expect(TODO handle error)"

/-- every modelled site except the raw-value one -/
def execSitesBase : List String := execPanicSites.erase rawSite

/-- the lemmas below are generic in the list `L` of allowed sites: `L` holds every site of `execSitesBase` … -/
class Sites (L : List String) : Prop where
  mem : ∀ s ∈ execSitesBase, s ∈ L

/-- … and either holds the raw-value site too, or the environment's JSON parser accepts every text (then
`RawValue::get_value` cannot fail) -/
class RawOk (env : Env) (L : List String) : Prop where
  h : (∀ t, (env.parseJson t).isSome = true) ∨ rawSite ∈ L

instance : Sites EL := ⟨fun s h => List.mem_of_mem_erase h⟩
instance (env : Env) : RawOk env EL := ⟨.inr (by simp [rawSite, execPanicSites, execWitnessedSites])⟩
instance : Sites execSitesBase := ⟨fun _ h => h⟩

/-- membership of a literal site in the list of allowed sites -/
macro "site" : tactic => `(tactic| exact Sites.mem _ (by simp [execSitesBase, rawSite, execPanicSites, execWitnessedSites, execResidualSites, sCUM, sLB, sLA, sCUR0, sCURI, sTB]))

variable {L : List String} [Sites L]

/-! ## scalars and iterables -/

theorem sm_getValue {α} (m : SparseMatrix α) (n : String) : ResIn L (m.getValue n) := by
  unfold SparseMatrix.getValue
  split
  · exact resIn_error _
  · split
    · exact resIn_error _
    · split
      · exact resIn_ok _
      · exact resIn_error _

theorem sm_setValue {α} (m : SparseMatrix α) (n : String) (v : α) : ResIn L (m.setValue n v) := by
  unfold SparseMatrix.setValue
  simp only
  split
  · exact resIn_ok _
  · split
    · exact resIn_error _
    · split
      · exact resIn_ok _
      · split
        · exact resIn_ok _
        · exact resIn_ok _

theorem sm_meetNextAfter {α} (m : SparseMatrix α) : ResIn L (m.meetNextAfter) := by
  unfold SparseMatrix.meetNextAfter
  split
  · exact resIn_panic (by site)
  · exact resIn_ok _

theorem sm_meetFoldEnd {α} (m : SparseMatrix α) : ResIn L (m.meetFoldEnd) := by
  unfold SparseMatrix.meetFoldEnd
  split
  · exact resIn_panic (by site)
  · exact resIn_ok _

theorem it_peek (it : IterableValue) : ResIn L it.peek := by
  unfold IterableValue.peek
  split
  · split
    · exact resIn_ok _
    · split
      · split
        · exact resIn_ok _
        · exact resIn_panic (by site)
      · exact resIn_panic (by site)
  · split
    · exact resIn_ok _
    · split
      · exact resIn_ok _
      · exact resIn_panic (by site)
  · split
    · exact resIn_ok _
    · split
      · exact resIn_ok _
      · exact resIn_panic (by site)

theorem it_peekExpect (it : IterableValue) : ResIn L it.peekExpect := by
  unfold IterableValue.peekExpect
  apply resIn_bind' (it_peek it)
  intro a
  split
  · exact resIn_pure _
  · exact resIn_panic (by site)

theorem sc_getIterable (s : Scalars) (n : String) : ResIn L (s.getIterable n) := by
  unfold Scalars.getIterable; split
  · exact resIn_ok _
  · exact resIn_error _

theorem sc_setIterableValue (s : Scalars) (n : String) (f : FoldState) : ResIn L (s.setIterableValue n f) := by
  unfold Scalars.setIterableValue; split
  · exact resIn_error _
  · exact resIn_ok _

theorem resIn_uncatchable' {α} (e : UncatchableErr) : ResIn L (uncatchable e : ER α) := resIn_error _

theorem sc_getValue (s : Scalars) (n : String) : ResIn L (s.getValue n) := by
  unfold Scalars.getValue
  simp only
  split
  · rename_i site h
    exact fun s' hs => by cases hs; exact sm_getValue _ _ _ h
  · exact resIn_error _
  · exact resIn_error _
  · exact resIn_ok _
  · exact resIn_ok _
  · exact resIn_uncatchable' _   -- the clash: `IterableShadowing` since /repo 66d8bd2

theorem sc_setScalarValue (s : Scalars) (n : String) (v : ValueAggregate) : ResIn L (s.setScalarValue n v) := by
  unfold Scalars.setScalarValue
  apply resIn_bind' (sm_setValue _ _ _)
  intro a; exact resIn_pure _

theorem sc_meetNextAfter (s : Scalars) : ResIn L s.meetNextAfter := by
  unfold Scalars.meetNextAfter
  apply resIn_bind' (sm_meetNextAfter _); intro a
  apply resIn_bind' (sm_meetNextAfter _); intro b
  apply resIn_bind' (sm_meetNextAfter _); intro b'
  exact resIn_pure _

theorem sc_meetFoldEnd (s : Scalars) : ResIn L s.meetFoldEnd := by
  unfold Scalars.meetFoldEnd
  apply resIn_bind' (sm_meetFoldEnd _); intro a
  apply resIn_bind' (sm_meetFoldEnd _); intro b
  apply resIn_bind' (sm_meetFoldEnd _); intro b'
  exact resIn_pure _

theorem sc_getCanonStream (s : Scalars) (n : String) : ResIn L (s.getCanonStream n) := by
  unfold Scalars.getCanonStream
  split
  · exact resIn_ok _
  · exact resIn_error _
  · exact resIn_error _
  · rename_i p h
    exact fun s' hs => by cases hs; exact sm_getValue _ _ _ h

theorem sc_setCanonValue (s : Scalars) (n : String) (v : CanonStreamWP) : ResIn L (s.setCanonValue n v) := by
  unfold Scalars.setCanonValue
  apply resIn_bind' (sm_setValue _ _ _)
  intro a; exact resIn_pure _

theorem sc_getCanonMap (s : Scalars) (n : String) : ResIn L (s.getCanonMap n) := by
  unfold Scalars.getCanonMap
  split
  · exact resIn_ok _
  · exact resIn_error _
  · exact resIn_error _
  · rename_i p h
    exact fun s' hs => by cases hs; exact sm_getValue _ _ _ h

theorem sc_setCanonMapValue (s : Scalars) (n : String) (v : CanonStreamMapWP) : ResIn L (s.setCanonMapValue n v) := by
  unfold Scalars.setCanonMapValue
  apply resIn_bind' (sm_setValue _ _ _)
  intro a; exact resIn_pure _

theorem scalarRef_parts (r : ScalarRef) : ResIn L r.parts := by
  unfold ScalarRef.parts; split
  · exact resIn_ok _
  · apply resIn_bind' (it_peekExpect _); intro a; exact resIn_pure _


theorem resIn_catchable {α} (e : CatchableErr) : ResIn L (catchable e : ER α) := resIn_error _
theorem resIn_uncatchable {α} (e : UncatchableErr) : ResIn L (uncatchable e : ER α) := resIn_error _
theorem resIn_unmodelled {α} (w : String) : ResIn L (unmodelled w : ER α) := resIn_error _
theorem resIn_lambdaErr {α} (e : LambdaErr) : ResIn L (lambdaErr e : ER α) := resIn_error _

/-- constant leaves -/
macro "res_leaf" : tactic => `(tactic| first
  | exact resIn_ok _ | exact resIn_error _ | exact resIn_pure _ | exact resIn_catchable _ | exact resIn_uncatchable _
  | exact resIn_unmodelled _ | exact resIn_lambdaErr _ | exact resIn_panic (by site))

/-- closes goals whose definition is a tree of `match`/`if` with constant leaves -/
macro "res_leafs" : tactic => `(tactic| repeat' (first | res_leaf | split))

theorem resIn_rawSite (env : Env) [RawOk env L] {α} (raw : String) (h : env.parseJson raw = none) :
    ResIn L (.panic "raw_value.rs:get_value:expect(TODO handle error)" : ER α) := by
  rcases RawOk.h (env := env) (L := L) with hall | hmem
  · have := hall raw; rw [h] at this; cases this
  · exact resIn_panic hmem

/-! ## lens applier and resolver -/

theorem lam_tryNumberToU32 (n : JVal) : ResIn L (tryNumberToU32 n) := by unfold tryNumberToU32; res_leafs
theorem lam_tryJvalueWithIdx (v : JVal) (i : Nat) : ResIn L (tryJvalueWithIdx v i) := by unfold tryJvalueWithIdx; res_leafs
theorem lam_tryJvalueWithFieldName (v : JVal) (f : String) : ResIn L (tryJvalueWithFieldName v f) := by
  unfold tryJvalueWithFieldName; res_leafs
theorem lam_selectByJvalue (v a : JVal) : ResIn L (selectByJvalue v a) := by
  unfold selectByJvalue
  split
  · exact lam_tryJvalueWithFieldName _ _
  · exact resIn_rbind (lam_tryNumberToU32 _) fun _ => lam_tryJvalueWithIdx _ _
  · exact resIn_error _
  · exact resIn_error _

theorem lam_lift {α} {r : Res LambdaErr α} (h : ResIn L r) : ResIn L (liftLambda r) := by
  unfold liftLambda; exact resIn_mapErr _ h

theorem scalarRefValue_in (r : ScalarRef) : ResIn L (scalarRefValue r) := by
  unfold scalarRefValue; split
  · exact resIn_ok _
  · apply resIn_bind' (it_peekExpect _); intro a; exact resIn_pure _

theorem selectByPathFromScalar_in (sc : Scalars) : ∀ (as : List Accessor) (v : JVal), ResIn L (selectByPathFromScalar sc v as)
  | [], v => by unfold selectByPathFromScalar; exact resIn_ok _
  | .arrayAccess i :: rest, v => by
    unfold selectByPathFromScalar
    exact resIn_bind' (lam_lift (lam_tryJvalueWithIdx _ _)) fun v' => selectByPathFromScalar_in sc rest v'
  | .fieldByName n :: rest, v => by
    unfold selectByPathFromScalar
    exact resIn_bind' (lam_lift (lam_tryJvalueWithFieldName _ _)) fun v' => selectByPathFromScalar_in sc rest v'
  | .fieldByScalar s :: rest, v => by
    unfold selectByPathFromScalar
    apply resIn_bind' (sc_getValue _ _); intro r
    apply resIn_bind' (scalarRefValue_in _); intro a
    exact resIn_bind' (lam_lift (lam_selectByJvalue _ _)) fun v' => selectByPathFromScalar_in sc rest v'

theorem selectByLambdaFromScalar_in (sc : Scalars) (v : JVal) (l : Lambda) : ResIn L (selectByLambdaFromScalar sc v l) := by
  unfold selectByLambdaFromScalar; split
  · exact selectByPathFromScalar_in _ _ _
  · split
    · exact resIn_ok _
    · exact resIn_error _

/-! ### the full lens applier (`Aqua/Exec/Lens.lean`) on accessors that come from the executor's AST
(`ValueAccessor.ofAccessor` never yields the `Error` accessor, so `unreachable!()` is not reached) -/

theorem resIn_of_panic_eq {α β} {r : ER α} {s : String} (hr : ResIn L r) (h : r = .panic s) : ResIn L (.panic s : ER β) :=
  fun s' hs => by cases hs; exact hr _ h

theorem lens_selectByScalar_in (v : JVal) (r : ScalarRef) : ResIn L (Lens.selectByScalar v r) := by
  unfold Lens.selectByScalar
  split
  · exact lam_lift (lam_selectByJvalue _ _)
  · split
    · exact lam_lift (lam_selectByJvalue _ _)
    · exact resIn_error _
    · rename_i s h; exact resIn_of_panic_eq (it_peekExpect _) h

theorem lens_selectByPathFromScalar_in (sc : Scalars) : ∀ (as : List Accessor) (v : JVal),
    ResIn L (Lens.selectByPathFromScalar sc v (as.map Lens.ValueAccessor.ofAccessor))
  | [], v => by simp only [List.map_nil]; unfold Lens.selectByPathFromScalar; exact resIn_ok _
  | .arrayAccess i :: rest, v => by
    simp only [List.map_cons, Lens.ValueAccessor.ofAccessor]; unfold Lens.selectByPathFromScalar
    split
    · exact lens_selectByPathFromScalar_in sc rest _
    · exact resIn_error _
    · rename_i s h; exact resIn_of_panic_eq (lam_lift (lam_tryJvalueWithIdx _ _)) h
  | .fieldByName n :: rest, v => by
    simp only [List.map_cons, Lens.ValueAccessor.ofAccessor]; unfold Lens.selectByPathFromScalar
    split
    · exact lens_selectByPathFromScalar_in sc rest _
    · exact resIn_error _
    · rename_i s h; exact resIn_of_panic_eq (lam_lift (lam_tryJvalueWithFieldName _ _)) h
  | .fieldByScalar s :: rest, v => by
    simp only [List.map_cons, Lens.ValueAccessor.ofAccessor]; unfold Lens.selectByPathFromScalar
    split
    · split
      · exact lens_selectByPathFromScalar_in sc rest _
      · exact resIn_error _
      · rename_i s h; exact resIn_of_panic_eq (lens_selectByScalar_in _ _) h
    · exact resIn_error _
    · rename_i s h; exact resIn_of_panic_eq (sc_getValue _ _) h

theorem lam_tryJvalueAsIdx (v : JVal) : ResIn L (Lens.tryJvalueAsIdx v) := by
  unfold Lens.tryJvalueAsIdx
  split
  · exact lam_tryNumberToU32 _
  · exact lam_tryNumberToU32 _
  · exact resIn_error _

theorem lens_tryScalarRefAsIdx_in (r : ScalarRef) : ResIn L (Lens.tryScalarRefAsIdx r) := by
  unfold Lens.tryScalarRefAsIdx
  split
  · exact lam_lift (lam_tryJvalueAsIdx _)
  · split
    · exact lam_lift (lam_tryJvalueAsIdx _)
    · exact resIn_error _
    · rename_i s h; exact resIn_of_panic_eq (it_peekExpect _) h

theorem lens_splitToIdx_in (sc : Scalars) (a : Accessor) : ResIn L (Lens.splitToIdx sc (.ofAccessor a)) := by
  cases a <;> simp only [Lens.ValueAccessor.ofAccessor, Lens.splitToIdx]
  · exact resIn_ok _
  · exact resIn_lambdaErr _
  · split
    · exact lens_tryScalarRefAsIdx_in _
    · exact resIn_error _
    · rename_i s h; exact resIn_of_panic_eq (sc_getValue _ _) h

theorem lens_selectByPathFromStream_in (sc : Scalars) (stream : List JVal) (a : Accessor) (body : List Accessor) :
    ResIn L (Lens.selectByPathFromStream sc stream (.ofAccessor a) (body.map .ofAccessor)) := by
  unfold Lens.selectByPathFromStream
  split
  · split
    · exact resIn_lambdaErr _
    · split
      · exact resIn_ok _
      · exact resIn_error _
      · rename_i s h; exact resIn_of_panic_eq (lens_selectByPathFromScalar_in _ _ _) h
  · exact resIn_error _
  · rename_i s h; exact resIn_of_panic_eq (lens_splitToIdx_in _ _) h

theorem lens_selectByPathFromCanonMapStream_in (sc : Scalars) (stream : List JVal) (a : Accessor) (body : List Accessor) :
    ResIn L (Lens.selectByPathFromCanonMapStream sc stream (.ofAccessor a) (body.map .ofAccessor)) := by
  unfold Lens.selectByPathFromCanonMapStream
  split
  · split
    · exact resIn_lambdaErr _
    · split
      · exact resIn_ok _
      · exact lens_selectByPathFromScalar_in _ _ _
  · exact resIn_error _
  · rename_i s h; exact resIn_of_panic_eq (lens_splitToIdx_in _ _) h

theorem lens_tryScalarRefAsStreamMapKey_in (r : ScalarRef) : ResIn L (Lens.tryScalarRefAsStreamMapKey r) := by
  unfold Lens.tryScalarRefAsStreamMapKey; res_leafs

theorem lens_canonMapKeyOfPrefix_in (sc : Scalars) (a : Accessor) : ResIn L (Lens.canonMapKeyOfPrefix sc (.ofAccessor a)) := by
  cases a <;> simp only [Lens.ValueAccessor.ofAccessor, Lens.canonMapKeyOfPrefix]
  · exact resIn_ok _
  · exact resIn_ok _
  · split
    · exact lam_lift (lens_tryScalarRefAsStreamMapKey_in _)
    · exact resIn_error _
    · rename_i s h; exact resIn_of_panic_eq (sc_getValue _ _) h

theorem lens_selectByPathFromCanonMap_in (sc : Scalars) (m : Lens.CanonStreamMap) (a : Accessor) (body : List Accessor) :
    ResIn L (Lens.selectByPathFromCanonMap sc m (.ofAccessor a) (body.map .ofAccessor)) := by
  unfold Lens.selectByPathFromCanonMap
  split
  · cases body with
    | nil => simp only [List.map_nil]; split <;> first | exact resIn_ok _ | (rename_i h _; cases h) | (rename_i h; cases h)
    | cons b bs =>
      simp only [List.map_cons]
      split
      · rename_i h _; injection h with h1 h2; subst h1 h2; exact lens_selectByPathFromCanonMapStream_in _ _ _ _
      · rename_i h _; cases h
      · rename_i h _; injection h with h1 h2; subst h1 h2; exact lens_selectByPathFromCanonMapStream_in _ _ _ _
      · rename_i h _; cases h
  · exact resIn_error _
  · rename_i s h; exact resIn_of_panic_eq (lens_canonMapKeyOfPrefix_in _ _) h

/-- the lambdas the AST can hold, seen through `LambdaAST.ofLambda` -/
theorem ofLambda_cases (l : Lambda) (lam : Lens.LambdaAST) (h : Lens.LambdaAST.ofLambda l = some lam) :
    lam = .functor .length ∨ ∃ a as, l = .path (a :: as) ∧ lam = .valuePath (.ofAccessor a) (as.map .ofAccessor) := by
  cases l with
  | functorLength => simp [Lens.LambdaAST.ofLambda] at h; exact .inl h.symm
  | path as =>
    cases as with
    | nil => simp [Lens.LambdaAST.ofLambda] at h
    | cons a as => simp [Lens.LambdaAST.ofLambda] at h; exact .inr ⟨a, as, rfl, h.symm⟩

theorem lensOfLambda_in {α} (l : Lambda) (k : Lens.LambdaAST → ER α)
    (hk : ∀ lam, Lens.LambdaAST.ofLambda l = some lam → ResIn L (k lam)) : ResIn L (lensOfLambda l k) := by
  unfold lensOfLambda
  split
  · rename_i lam h; exact hk lam h
  · exact resIn_unmodelled _

theorem lens_selectByLambdaFromStream_in (sc : Scalars) (stream : List JVal) (l : Lambda) (lam : Lens.LambdaAST)
    (h : Lens.LambdaAST.ofLambda l = some lam) : ResIn L (Lens.selectByLambdaFromStream sc stream lam) := by
  rcases ofLambda_cases l lam h with rfl | ⟨a, as, _, rfl⟩
  · unfold Lens.selectByLambdaFromStream; exact resIn_ok _
  · unfold Lens.selectByLambdaFromStream; exact lens_selectByPathFromStream_in _ _ _ _

theorem lens_selectByLambdaFromCanonMap_in (sc : Scalars) (m : Lens.CanonStreamMap) (l : Lambda) (lam : Lens.LambdaAST)
    (h : Lens.LambdaAST.ofLambda l = some lam) : ResIn L (Lens.selectByLambdaFromCanonMap sc m lam) := by
  rcases ofLambda_cases l lam h with rfl | ⟨a, as, _, rfl⟩
  · unfold Lens.selectByLambdaFromCanonMap; exact resIn_ok _
  · unfold Lens.selectByLambdaFromCanonMap; exact lens_selectByPathFromCanonMap_in _ _ _ _

/-- `TETRAPLET_IDX_CORRECT`: the index a stream lens reports is inside the stream -/
theorem selectByLambdaFromStream_idx (sc : Scalars) (stream : List JVal) (lam : Lens.LambdaAST) (r : Lens.LambdaResult) (idx : Nat)
    (h : Lens.selectByLambdaFromStream sc stream lam = .ok r) (hi : r.tetrapletIdx = some idx) : idx < stream.length := by
  unfold Lens.selectByLambdaFromStream at h
  split at h
  · unfold Lens.selectByPathFromStream at h
    split at h
    · rename_i i _
      split at h
      · cases h
      · rename_i value hv
        split at h
        · injection h with h; subst h
          simp only at hi; injection hi with hi; subst hi
          exact (List.getElem?_eq_some_iff.mp hv).1
        · cases h
        · cases h
    · cases h
    · cases h
  · injection h with h; subst h
    simp [Lens.selectByFunctorFromStream] at hi

theorem canonStreamApplyLambda_in (c : Ctx) (cs : CanonStream) (l : Lambda) (p : Provenance) : ResIn L (canonStreamApplyLambda c cs l p) := by
  unfold canonStreamApplyLambda
  apply lensOfLambda_in; intro lam hlam
  split
  · rename_i r hr
    split
    · rename_i idx hidx
      split
      · exact resIn_ok _
      · rename_i hnone
        have := selectByLambdaFromStream_idx _ _ _ _ _ hr hidx
        simp only [List.length_map] at this
        have h2 := List.getElem?_eq_none_iff.mp hnone
        omega
    · exact resIn_ok _
  · exact resIn_error _
  · rename_i s h; exact resIn_of_panic_eq (lens_selectByLambdaFromStream_in _ _ l lam hlam) h

theorem canonMapStreamTetraplet_in (sc : Scalars) (stream : List ValueAggregate) (a : Accessor) (body : List Accessor) :
    ResIn L (canonMapStreamTetraplet sc stream (.ofAccessor a) body) := by
  unfold canonMapStreamTetraplet
  split
  · split
    · exact resIn_lambdaErr _
    · split <;> exact resIn_ok _
  · exact resIn_error _
  · rename_i s h; exact resIn_of_panic_eq (lens_splitToIdx_in _ _) h

theorem canonMapLensTetraplet_in (c : Ctx) (m : CanonStreamMapAgg) (l : Lambda) : ResIn L (canonMapLensTetraplet c m l) := by
  unfold canonMapLensTetraplet
  split
  · exact resIn_ok _
  · exact resIn_unmodelled _
  · split
    · split
      · exact canonMapStreamTetraplet_in _ _ _ _
      · exact resIn_ok _
      · exact canonMapStreamTetraplet_in _ _ _ _
    · exact resIn_error _
    · rename_i s h; exact resIn_of_panic_eq (lens_canonMapKeyOfPrefix_in _ _) h

theorem canonMapApplyLambda_in (c : Ctx) (m : CanonStreamMapAgg) (l : Lambda) (p : Provenance) : ResIn L (canonMapApplyLambda c m l p) := by
  unfold canonMapApplyLambda
  apply lensOfLambda_in; intro lam hlam
  split
  · exact resIn_rbind (canonMapLensTetraplet_in _ _ _) fun _ => resIn_ok _
  · exact resIn_error _
  · rename_i s h; exact resIn_of_panic_eq (lens_selectByLambdaFromCanonMap_in _ _ l lam hlam) h

theorem resolveErrors_in (c : Ctx) (ie : InstructionError) (lens : Option Lambda) : ResIn L (resolveErrors c ie lens) := by
  unfold resolveErrors
  dsimp only
  split
  · apply resIn_bind' (selectByLambdaFromScalar_in _ _ _); intro v; res_leaf
  · apply resIn_bind' (resIn_pure _); intro v; res_leaf

theorem resolveValue_in (c : Ctx) (v : Value) : ResIn L (resolveValue c v) := by
  unfold resolveValue
  split <;> first
    | res_leaf
    | exact resolveErrors_in _ _ _
    | (apply resIn_bind' (sc_getValue _ _); intro r
       apply resIn_bind' (scalarRef_parts _); intro p
       first
         | exact resIn_pure _
         | (apply resIn_bind' (selectByLambdaFromScalar_in _ _ _); intro sel; exact resIn_pure _))
    | (apply resIn_bind' (sc_getCanonStream _ _); intro cs; exact resIn_pure _)
    | (apply resIn_bind' (sc_getCanonStream _ _); intro cs
       apply resIn_bind' (canonStreamApplyLambda_in _ _ _ _); intro r; exact resIn_pure _)
    | (apply resIn_bind' (sc_getCanonMap _ _); intro cm; exact resIn_pure _)
    | (apply resIn_bind' (sc_getCanonMap _ _); intro cm
       apply resIn_bind' (canonMapApplyLambda_in _ _ _ _); intro r; exact resIn_pure _)

/-! the `tetraplets.remove(0)` of `apply_to_arguments.rs` cannot hit an empty list -/

theorem res_bind_ok_inv {ε α β : Type} {x : Res ε α} {f : α → Res ε β} {b : β} (h : (x >>= f) = .ok b) : ∃ a, x = .ok a ∧ f a = .ok b := by
  cases x with
  | ok a => exact ⟨a, rfl, h⟩
  | error e => cases h
  | panic s => cases h

theorem resolveErrors_tetraplets (c : Ctx) (ie : InstructionError) (lens : Option Lambda) (v : JVal) (ts : List Tetraplet) (p : Provenance)
    (h : resolveErrors c ie lens = .ok (v, ts, p)) : ts ≠ [] := by
  unfold resolveErrors at h
  dsimp only at h
  split at h
  all_goals
    obtain ⟨a, _, h2⟩ := res_bind_ok_inv h
    cases h2
    split <;> simp

theorem resolveValue_tetraplets (c : Ctx) (arg : Value) (v : JVal) (ts : List Tetraplet) (p : Provenance)
    (harg : (∃ l, arg = .error l) ∨ (∃ l, arg = .lastError l) ∨ (∃ n l, arg = .scalarWL n l) ∨ (∃ n l, arg = .canonWL n l) ∨ (∃ n l, arg = .canonMapWL n l))
    (h : resolveValue c arg = .ok (v, ts, p)) : ts ≠ [] := by
  rcases harg with ⟨l, rfl⟩ | ⟨l, rfl⟩ | ⟨n, l, rfl⟩ | ⟨n, l, rfl⟩ | ⟨n, l, rfl⟩
  · unfold resolveValue at h; exact resolveErrors_tetraplets _ _ _ _ _ _ h
  · unfold resolveValue at h; exact resolveErrors_tetraplets _ _ _ _ _ _ h
  · unfold resolveValue at h
    obtain ⟨r, _, h⟩ := res_bind_ok_inv h
    obtain ⟨q, _, h⟩ := res_bind_ok_inv h
    obtain ⟨sel, _, h⟩ := res_bind_ok_inv h
    cases h; simp
  · unfold resolveValue at h
    obtain ⟨r, _, h⟩ := res_bind_ok_inv h
    obtain ⟨q, _, h⟩ := res_bind_ok_inv h
    cases h; simp
  · unfold resolveValue at h
    obtain ⟨r, _, h⟩ := res_bind_ok_inv h
    obtain ⟨q, _, h⟩ := res_bind_ok_inv h
    cases h; simp

theorem resolveToString_in (c : Ctx) (v : Value) : ResIn L (resolveToString c v) := by
  unfold resolveToString
  split <;> first
    | res_leaf
    | (apply resIn_bind' (resolveValue_in _ _); intro r; res_leafs)

/-! ## CID state and call helpers -/

theorem resolveServiceInfo_in (env : Env) [RawOk env L] (s : CidState) (cid : Cid) : ResIn L (resolveServiceInfo env s cid) := by
  unfold resolveServiceInfo
  split
  · res_leaf
  · split
    · res_leaf
    · split
      · rename_i hp; exact resIn_rawSite env _ hp
      · res_leafs

theorem getValueByCid_in (env : Env) [RawOk env L] (s : CidState) (cid : Cid) : ResIn L (getValueByCid env s cid) := by
  unfold getValueByCid
  split
  · res_leaf
  · split
    · rename_i hp; exact resIn_rawSite env _ hp
    · exact resIn_ok _

theorem getTetrapletByCid_in (s : CidState) (cid : Cid) : ResIn L (getTetrapletByCid s cid) := by
  unfold getTetrapletByCid; res_leafs

theorem getCanonValueByCid_in (env : Env) [RawOk env L] (s : CidState) (cid : Cid) : ResIn L (getCanonValueByCid env s cid) := by
  unfold getCanonValueByCid
  split
  · res_leaf
  · apply resIn_bind' (getValueByCid_in _ _ _); intro v
    apply resIn_bind' (getTetrapletByCid_in _ _); intro t
    exact resIn_pure _

theorem verifyCanon_in (a b : Tetraplet) : ResIn L (verifyCanon a b) := by unfold verifyCanon; res_leafs

/-! ## streams (`Aqua/Exec/Streams.lean`) -/

theorem vm_addValueToGeneration (m : ValuesMatrix) (v : ValueAggregate) (g : Nat) : ResIn L (m.addValueToGeneration v g) := by
  unfold ValuesMatrix.addValueToGeneration; res_leafs

theorem vm_addToLastGeneration (m : ValuesMatrix) (v : ValueAggregate) : ResIn L (m.addToLastGeneration v) := by
  unfold ValuesMatrix.addToLastGeneration; exact vm_addValueToGeneration _ _ _

theorem stream_addToSource (s : Stream) (v : ValueAggregate) (g : Generation) : ResIn L (s.addToSource v g) := by
  unfold Stream.addToSource
  split
  · exact resIn_rbind (vm_addValueToGeneration _ _ _) fun _ => resIn_ok _
  · exact resIn_rbind (vm_addValueToGeneration _ _ _) fun _ => resIn_ok _
  · exact resIn_rbind (vm_addToLastGeneration _ _) fun _ => resIn_ok _

theorem stream_addValue (s : Stream) (v : ValueAggregate) (g : Generation) : ResIn L (s.addValue v g) := by
  unfold Stream.addValue
  apply resIn_rbind (stream_addToSource _ _ _); intro s'
  res_leafs

theorem updateGeneration_in (th : TraceHandler) (p g : Nat) : ResIn L (th.updateGeneration p g) := by
  unfold TraceHandler.updateGeneration; res_leafs

theorem updateGenerations_inner_in (g : Nat) : ∀ (vs : List ValueAggregate) (th : TraceHandler), ResIn L (Stream.updateGenerations.go.inner g vs th)
  | [], th => by unfold Stream.updateGenerations.go.inner; exact resIn_ok _
  | v :: more, th => by
    unfold Stream.updateGenerations.go.inner
    split
    · exact updateGenerations_inner_in g more _
    · res_leaf
    · rename_i s h
      exact fun s' hs => by cases hs; exact updateGeneration_in _ _ _ _ h

theorem updateGenerations_go_in : ∀ (sl : List (List ValueAggregate)) (g : Nat) (th : TraceHandler), ResIn L (Stream.updateGenerations.go sl g th)
  | [], g, th => by unfold Stream.updateGenerations.go; exact resIn_ok _
  | vs :: rest, g, th => by
    unfold Stream.updateGenerations.go
    split
    · exact updateGenerations_go_in rest _ _
    · exact resIn_error _
    · rename_i s h
      exact fun s' hs => by cases hs; exact updateGenerations_inner_in _ _ _ _ h

theorem updateGenerations_in (sl : List (List ValueAggregate)) (start : Nat) (th : TraceHandler) : ResIn L (Stream.updateGenerations sl start th) := by
  unfold Stream.updateGenerations; exact updateGenerations_go_in _ _ _

theorem stream_compactify (s : Stream) (th : TraceHandler) : ResIn L (s.compactify th) := by
  unfold Stream.compactify
  dsimp only
  apply resIn_bind' (updateGenerations_in _ _ _); intro th1
  apply resIn_bind' (updateGenerations_in _ _ _); intro th2
  apply resIn_bind' (updateGenerations_in _ _ _); intro th3
  exact resIn_pure _

theorem addStreamValue_in (c : Ctx) (v : ValueAggregate) (n : String) (g : Generation) (pos : Nat) : ResIn L (c.addStreamValue v n g pos) := by
  unfold Ctx.addStreamValue
  split
  · apply resIn_bind' (stream_addValue _ _ _); intro s'; exact resIn_pure _
  · apply resIn_bind' (stream_addValue _ _ _); intro s'; exact resIn_pure _

theorem streamScopeEnd_in (c : Ctx) (n : String) : ResIn L (c.streamScopeEnd n) := by
  unfold Ctx.streamScopeEnd
  split
  · exact resIn_panic (by site)
  · split
    · exact resIn_panic (by site)
    · dsimp only
      split
      · exact resIn_ok _
      · exact resIn_error _
      · rename_i s h
        exact fun s' hs => by cases hs; exact stream_compactify _ _ _ h

theorem compactifyStreams_descs_in : ∀ (ds : List StreamDesc) (th : TraceHandler), ResIn L (Ctx.compactifyStreams.descs ds th)
  | [], th => by unfold Ctx.compactifyStreams.descs; exact resIn_ok _
  | d :: rest, th => by
    unfold Ctx.compactifyStreams.descs
    split
    · split
      · exact resIn_ok _
      · exact resIn_error _
      · rename_i p h
        exact fun s' hs => by cases hs; exact compactifyStreams_descs_in rest _ _ h
    · exact resIn_error _
    · rename_i p h
      exact fun s' hs => by cases hs; exact stream_compactify _ _ _ h

theorem compactifyStreams_all_in : ∀ (l : List (String × List StreamDesc)) (th : TraceHandler), ResIn L (Ctx.compactifyStreams.all l th)
  | [], th => by unfold Ctx.compactifyStreams.all; exact resIn_ok _
  | (n, ds) :: rest, th => by
    unfold Ctx.compactifyStreams.all
    split
    · split
      · exact resIn_ok _
      · exact resIn_error _
      · rename_i p h
        exact fun s' hs => by cases hs; exact compactifyStreams_all_in rest _ _ h
    · exact resIn_error _
    · rename_i p h
      exact fun s' hs => by cases hs; exact compactifyStreams_descs_in _ _ _ h

theorem compactifyStreams_in (c : Ctx) : ResIn L c.compactifyStreams := by
  unfold Ctx.compactifyStreams
  split
  · exact resIn_ok _
  · exact resIn_error _
  · rename_i p h
    exact fun s' hs => by cases hs; exact compactifyStreams_all_in _ _ _ h

theorem verifyCall_in (a : String) (b : Tetraplet) (c : String) (d : Tetraplet) : ResIn L (verifyCall a b c d) := by
  unfold verifyCall; res_leafs

theorem collectArgs_in (c : Ctx) : ∀ args : List Value, ResIn L (collectArgs c args)
  | [] => by unfold collectArgs; exact resIn_ok _
  | a :: rest => by
    unfold collectArgs
    apply resIn_bind' (resolveValue_in _ _); intro r
    apply resIn_bind' (collectArgs_in c rest); intro r2
    exact resIn_pure _

theorem checkOutputName_in (c : Ctx) (out : CallOutput) : ResIn L (checkOutputName c out) := by
  unfold checkOutputName
  split
  · split
    · split
      · exact resIn_ok _
      · exact resIn_error _
    · exact resIn_error _
    · exact resIn_ok _
    · rename_i s h
      exact fun s' hs => by cases hs; exact sc_getValue _ _ _ h
  · exact resIn_ok _

theorem populateFromPeerServiceResult_in (env : Env) [RawOk env L] (c : Ctx) (r : JVal) (t : Tetraplet) (ah : String) (pos : Nat) (out : CallOutput) :
    ResIn L (populateFromPeerServiceResult env c r t ah pos out) := by
  unfold populateFromPeerServiceResult
  split
  · simp only
    apply resIn_bind' (sc_setScalarValue _ _ _); intro sc
    exact resIn_pure _
  · simp only
    apply resIn_bind' (addStreamValue_in _ _ _ _ _); intro c'
    exact resIn_pure _
  · exact resIn_ok _

theorem populateFromData_in (env : Env) [RawOk env L] (c : Ctx) (v : ValueRef) (ah : String) (t : Tetraplet) (pos : Nat) (out : CallOutput) (src : ValueSource) :
    ResIn L (populateFromData env c v ah t pos out src) := by
  unfold populateFromData
  split
  · apply resIn_bind' (resolveServiceInfo_in _ _ _); intro r
    apply resIn_bind' (verifyCall_in _ _ _ _); intro _
    apply resIn_bind' (sc_setScalarValue _ _ _); intro sc
    exact resIn_pure _
  · apply resIn_bind' (resolveServiceInfo_in _ _ _); intro r
    apply resIn_bind' (verifyCall_in _ _ _ _); intro _
    exact addStreamValue_in _ _ _ _ _
  · exact resIn_ok _
  · res_leaf

/-! ## call (`Aqua/Exec/Call.lean`) -/

theorem pin_updateStateWithServiceResult (env : Env) [RawOk env L] (t : Tetraplet) (ah : String) (out : CallOutput) (sr : CallServiceResult) :
    PIn' L (updateStateWithServiceResult env t ah out sr) := by
  unfold updateStateWithServiceResult
  split
  · exact pin_bind' (pin_modifyCtx _) fun _ => pin_throwE _
  · split
    · dsimp only
      exact pin_bind' (pin_modifyCtx _) fun _ => pin_throwE _
    · apply pin_modifyER
      intro c
      apply resIn_bind' (populateFromPeerServiceResult_in _ _ _ _ _ _ _); intro r
      exact resIn_pure _

theorem pin_maybeSetPrevState (s : StateDescriptor) : PIn' L s.maybeSetPrevState := by
  unfold StateDescriptor.maybeSetPrevState; split
  · exact pin_meetCallEnd _
  · exact pin_pure _ trivial

theorem pin_sentByOther (met : MetCallResult) (t : Tetraplet) : PIn' L (sentByOther met t) := by
  unfold sentByOther
  apply pin_bind' (pin_readCtx _); intro me
  split
  · exact pin_pure _ trivial
  · exact pin_bind' pin_makeSubgraphIncomplete fun _ => pin_pure _ trivial

theorem pin_unwrapHash {site : String} (h : site ∈ L) (o : Option String) : PIn' L (unwrapHash site o) := by
  unfold unwrapHash; split
  · exact pin_pure _ trivial
  · exact pin_panicM h

theorem pin_handlePrevState (env : Env) [RawOk env L] (met : MetCallResult) (t : Tetraplet) (ah : Option String) (out : CallOutput) :
    PIn' L (handlePrevState env met t ah out) := by
  unfold handlePrevState
  split
  · -- failed
    apply pin_bind' (pin_readER fun c => resolveServiceInfo_in _ _ _); intro r
    apply pin_bind' (pin_unwrapHash (by site) _); intro h
    apply pin_bind' (pin_readER fun _ => verifyCall_in _ _ _ _); intro _
    split
    · split
      · exact pin_throwE _
      · exact pin_bind' (pin_modifyCtx _) fun _ => pin_throwE _
    · exact pin_throwE _
  · -- own request
    apply pin_bind' (pin_readCtx _); intro me
    split
    · apply pin_bind' (pin_readCtx _); intro found
      split
      · apply pin_bind' (pin_modifyCtx _); intro _
        apply pin_bind' (pin_unwrapHash (by site) _); intro h
        apply pin_bind' (pin_updateStateWithServiceResult _ _ _ _ _); intro _
        exact pin_pure _ trivial
      · exact pin_bind' pin_makeSubgraphIncomplete fun _ => pin_pure _ trivial
    · exact pin_sentByOther _ _
  · exact pin_sentByOther _ _
  · -- executed
    apply pin_bind' (pin_unwrapHash (by site) _); intro h
    apply pin_bind' (pin_modifyER fun c => populateFromData_in _ _ _ _ _ _ _ _); intro _
    apply pin_bind' (pin_modifyCtx _); intro _
    exact pin_pure _ trivial

theorem resolveCall_in (c : Ctx) (p s f : Value) (out : CallOutput) : ResIn L (resolveCall c p s f out) := by
  unfold resolveCall
  apply resIn_bind' (resolveToString_in _ _); intro a
  apply resIn_bind' (resolveToString_in _ _); intro b
  apply resIn_bind' (resolveToString_in _ _); intro d
  apply resIn_bind' (checkOutputName_in _ _); intro _
  exact resIn_pure _

theorem checkArgs_in (c : Ctx) (args : List Value) : ResIn L (checkArgs c args) := by
  unfold checkArgs
  split
  · exact resIn_ok _
  · split
    · exact resIn_ok _
    · exact resIn_error _
  · rename_i s h
    exact fun s' hs => by cases hs; exact collectArgs_in _ _ _ h

theorem issueRequest_in (t : Tetraplet) (args : List Value) (c : Ctx) : ResIn L (issueRequest t args c) := by
  unfold issueRequest
  split
  · split
    · exact resIn_panic (by site)
    · exact resIn_ok _
  · exact resIn_error _
  · rename_i s h
    exact fun s' hs => by cases hs; exact collectArgs_in _ _ _ h

theorem pin_dispatch (t : Tetraplet) (args : List Value) (state : StateDescriptor) : PIn' L (dispatch t args state) := by
  unfold dispatch
  apply pin_bind' (pin_readCtx _); intro me
  split
  · exact pin_modifyCtx _
  · apply pin_bind (pin_tryM (pin_modifyER fun c => issueRequest_in t args c)); intro r hr
    split
    · exact pin_pure _ trivial
    · split
      · exact pin_bind' (pin_maybeSetPrevState _) fun _ => pin_throwE _
      · exact pin_throwE _
    · rename_i s
      exact pin_panicM (hr s rfl)

theorem pin_prepareState (env : Env) [RawOk env L] (met : MergerCallResult) (t : Tetraplet) (ah : Option String) (out : CallOutput) :
    PIn' L (prepareState env met t ah out) := by
  unfold prepareState; split
  · exact pin_handlePrevState _ _ _ _ _
  · exact pin_pure _ trivial

theorem pin_afterState (t : Tetraplet) (args : List Value) (state : StateDescriptor) : PIn' L (afterState t args state) := by
  unfold afterState
  split
  split
  · exact pin_maybeSetPrevState _
  · exact pin_dispatch _ _ _

theorem pin_resolvedExecute (env : Env) [RawOk env L] (i : Instr) (t : Tetraplet) (args : List Value) (out : CallOutput) :
    PIn' L (resolvedExecute env i t args out) := by
  unfold resolvedExecute
  apply pin_bind' (pin_readER fun c => checkArgs_in c args); intro checked
  apply pin_bind' (pin_liftTH i fun th => meetCallStart_in th); intro met
  apply pin_bind' (pin_prepareState _ _ _ _ _); intro state
  exact pin_afterState _ _ _

theorem pin_execCall (env : Env) [RawOk env L] (i : Instr) (p s f : Value) (args : List Value) (out : CallOutput) :
    PIn' L (execCall env i p s f args out) := by
  unfold execCall
  apply pin_bind' (pin_joinable (pin_onError _ (pin_readER fun c => resolveCall_in c p s f out))); intro r
  split
  · exact pin_pure _ trivial
  · apply pin_bind' (pin_joinable (pin_onError _ (pin_resolvedExecute _ _ _ _ _))); intro _
    exact pin_pure _ trivial

end AquaProps.Panic
