import AquaProps.Lemmas.C16Operand
import AquaProps.Lemmas.C16Trace
/-!
# C16 lemmas, part 4: one run of the executor against the reference evaluator (flat sub-fragment)
-/
set_option linter.unusedSimpArgs false
set_option linter.unusedVariables false
namespace AquaProps.C16
open Aqua Aqua.Json Aqua.Air Aqua.Exec Aqua.Ref

/-- the triplet of a call on the reference side -/
def refTriplet (gp gs gf : Got JVal) : Got (String × String × String) :=
  (asString gp).bind fun a => (asString gs).bind fun b => (asString gf).bind fun c => .val (a, b, c)

def NoAbort (o : Outcome) : Prop := ∀ w, o ≠ .abort w

/-- what the reference evaluator does at a call, by cases on the resolved triplet and arguments -/
theorem eval_call_facts (O : Oracle) (p : Params) (fuel : Nat) (up : Bool) (peer svc func : Value) (args : List Value)
    (out : CallOutput) (s : State) (gp gs gf : Got JVal) (ga : Got (List JVal))
    (hp : operand p s peer = some gp) (hs : operand p s svc = some gs) (hf : operand p s func = some gf)
    (ha : operands p s args = some ga) (hout : ∀ n pos, out ≠ .stream n pos)
    (hna : NoAbort (eval O p (fuel + 1) up (.call peer svc func args out) s).1) :
    match refTriplet gp gs gf with
    | .undefined => eval O p (fuel + 1) up (.call peer svc func args out) s = (.blocked, s)
    | .error => eval O p (fuel + 1) up (.call peer svc func args out) s = (.failed, s)
    | .val (a, b, c) =>
      match ga with
      | .undefined => eval O p (fuel + 1) up (.call peer svc func args out) s = (.blocked, s)
      | .error => eval O p (fuel + 1) up (.call peer svc func args out) s = (.failed, s)
      | .val vs =>
        (∀ name, out = .scalar name → s.canBind name = true) ∧
        (match O a b c vs with
         | .fail _ _ => eval O p (fuel + 1) up (.call peer svc func args out) s = (.failed, pushCall s ⟨a, b, c, vs⟩)
         | .ok v => eval O p (fuel + 1) up (.call peer svc func args out) s =
            (.done, match out with
              | .scalar name => (pushCall s ⟨a, b, c, vs⟩).bind name v
              | _ => pushCall s ⟨a, b, c, vs⟩)) := by
  unfold NoAbort at hna
  cases out with
  | stream n pos => exact absurd rfl (hout n pos)
  | none =>
    simp only [eval, hp, hs, hf, ha] at hna ⊢
    unfold refTriplet
    cases h1 : asString gp <;> simp only [Got.bind, h1] at hna ⊢
    cases h2 : asString gs <;> simp only [h2] at hna ⊢
    cases h3 : asString gf <;> simp only [h3] at hna ⊢
    cases ga <;> simp at hna ⊢
    rename_i a b c vs
    cases O a b c vs <;> simp
  | scalar name =>
    simp only [eval, hp, hs, hf, ha] at hna ⊢
    unfold refTriplet
    cases h1 : asString gp <;> simp only [Got.bind, h1] at hna ⊢
    cases h2 : asString gs <;> simp only [h2] at hna ⊢
    cases h3 : asString gf <;> simp only [h3] at hna ⊢
    cases hc : s.canBind name
    · simp [hc] at hna
    · simp only [hc] at hna ⊢
      cases ga <;> simp at hna ⊢
      rename_i a b c vs
      cases O a b c vs <;> simp [hc]

/-! ### honest data: stores and call states -/

/-- the service-result entry under `cid`, whenever it resolves, is an OK answer of the oracle for every
argument list with the stored argument hash -/
def OkEntry (O : Oracle) (env : Env) (cs : CidState) (cid : Data.Cid) : Prop :=
  ∀ v t agg, resolveServiceInfo env cs cid = .ok (v, t, agg) →
    ∀ args, env.hash (argsJson args) = agg.argumentHash → O t.peerPk t.serviceId t.functionName args = .ok v

/-- the entry under `cid` belongs to a call the oracle fails -/
def FailEntry (O : Oracle) (env : Env) (cs : CidState) (cid : Data.Cid) : Prop :=
  ∀ v t agg, resolveServiceInfo env cs cid = .ok (v, t, agg) →
    ∀ args, env.hash (argsJson args) = agg.argumentHash → ∃ rc msg, O t.peerPk t.serviceId t.functionName args = .fail rc msg

/-- a trace state that agrees with the oracle (through the CID stores).  `Executed(Unused)` carries
nothing that ties it to a call, so it is not accepted here (gap of the `_partial` theorems). -/
def GoodState (O : Oracle) (env : Env) (cs : CidState) : Data.ExecutedState → Prop
  | .call (.executed (.scalar cid)) => OkEntry O env cs cid
  | .call (.executed (.unused _)) => False
  | .call (.failed cid) => FailEntry O env cs cid
  | _ => True

def toCall (r : CallRequest) : Call := ⟨r.forPeer, r.serviceId, r.functionName, r.arguments⟩

/-- the invariant between an executor context and a reference state; `cs`, `T1`, `T2` are the CID
stores and the two input traces of the run (they never change in a run without call results) -/
structure Inv (p : Params) (cs : CidState) (T1 T2 : Data.Trace) (c : Ctx) (s : State) : Prop where
  flatC : FlatC c
  flatS : FlatS s
  sub : Sub c s
  params : SameParams c p
  noResults : c.callResults = []
  cid : c.cid = cs
  ptrace : c.th.keeper.prev.trace = T1
  ctrace : c.th.keeper.cur.trace = T2
  reqs : ∀ x ∈ c.callRequests, toCall x.2 ∈ s.calls

/-- the parts of the context the invariant reads are the same -/
structure SameCore (c c' : Ctx) : Prop where
  scalars : c'.scalars = c.scalars
  init : c'.initPeerId = c.initPeerId
  ts : c'.timestamp = c.timestamp
  ttl : c'.ttl = c.ttl
  results : c'.callResults = c.callResults
  cid : c'.cid = c.cid
  th : HandlerSame c.th c'.th
  reqs : c'.callRequests = c.callRequests

theorem SameCore.refl (c : Ctx) : SameCore c c := ⟨rfl, rfl, rfl, rfl, rfl, rfl, HandlerSame.refl _, rfl⟩

theorem SameCore.trans {a b c : Ctx} (h1 : SameCore a b) (h2 : SameCore b c) : SameCore a c :=
  ⟨h2.scalars.trans h1.scalars, h2.init.trans h1.init, h2.ts.trans h1.ts, h2.ttl.trans h1.ttl,
   h2.results.trans h1.results, h2.cid.trans h1.cid, h1.th.trans h2.th, h2.reqs.trans h1.reqs⟩

theorem scalarOf_congr {c c' : Ctx} (h : c'.scalars = c.scalars) (n : String) : scalarOf c' n = scalarOf c n := by
  unfold scalarOf; rw [h]

theorem Inv.congr {p : Params} {cs : CidState} {T1 T2 : Data.Trace} {c c' : Ctx} {s : State}
    (h : Inv p cs T1 T2 c s) (hc : SameCore c c') : Inv p cs T1 T2 c' s where
  flatC := ⟨by rw [hc.scalars]; exact h.flatC.iter, by rw [hc.scalars]; exact h.flatC.m⟩
  flatS := h.flatS
  sub := fun n va hn => h.sub n va (by rw [← scalarOf_congr hc.scalars]; exact hn)
  params := ⟨hc.init.trans h.params.init, hc.ts.trans h.params.ts, hc.ttl.trans h.params.ttl⟩
  noResults := hc.results.trans h.noResults
  cid := hc.cid.trans h.cid
  ptrace := hc.th.1.trans h.ptrace
  ctrace := hc.th.2.trans h.ctrace
  reqs := by rw [hc.reqs]; exact h.reqs

/-- the reference side may run ahead -/
theorem Inv.mono {p : Params} {cs : CidState} {T1 T2 : Data.Trace} {c : Ctx} {s s' : State}
    (h : Inv p cs T1 T2 c s) (he : Ext s s') (hf : FlatS s') : Inv p cs T1 T2 c s' where
  flatC := h.flatC
  flatS := hf
  sub := fun n va hn => he.env n _ (h.sub n va hn)
  params := h.params
  noResults := h.noResults
  cid := h.cid
  ptrace := h.ptrace
  ctrace := h.ctrace
  reqs := fun x hx => he.mem_calls (h.reqs x hx)

theorem collectArgs_agrees {c : Ctx} {s : State} {p : Params} (hc : FlatC c) (hsub : Sub c s) (hp : SameParams c p) :
    ∀ (args : List Value), args.all FragV = true →
      ∃ ga, operands p s args = some ga ∧ Agrees (fun r : List JVal × List (List Tetraplet) => r.1) (collectArgs c args) ga
  | [], _ => ⟨_, rfl, rfl⟩
  | a :: rest, h => by
    simp only [List.all_cons, Bool.and_eq_true] at h
    obtain ⟨g, hg, hag⟩ := resolveValue_agrees hc hsub hp a h.1
    obtain ⟨gr, hgr, hagr⟩ := collectArgs_agrees hc hsub hp rest h.2
    simp only [operands, hg, hgr, collectArgs]
    cases hr : resolveValue c a with
    | ok r =>
      obtain ⟨v, ts, pr⟩ := r
      rw [hr] at hag
      simp only [Agrees] at hag
      subst hag
      refine ⟨_, rfl, ?_⟩
      show Agrees _ (collectArgs c rest >>= fun x => Res.ok (v :: x.1, ts :: x.2)) (gr.bind fun vs => Got.val (v :: vs))
      exact agrees_bind (g := fun r : List JVal × List (List Tetraplet) => r.1) hagr (fun x => rfl)
    | error e =>
      rw [hr] at hag
      cases e with
      | catchable ce =>
        simp only [Agrees] at hag
        rcases hag with hj | hj
        · cases g <;> exact ⟨_, rfl, Or.inl hj⟩
        · subst hj; exact ⟨_, rfl, Or.inr rfl⟩
      | uncatchable _ => exact hag.elim
      | unmodelled _ => exact hag.elim
    | panic site => rw [hr] at hag; exact hag.elim

theorem resolveToString_agrees {c : Ctx} {s : State} {p : Params} (hc : FlatC c) (hsub : Sub c s) (hp : SameParams c p)
    (v : Value) (hv : FragT v = true) :
    ∃ g, operand p s v = some g ∧ Agrees id (resolveToString c v) (asString g) := by
  obtain ⟨g, hg, hag⟩ := resolveValue_agrees hc hsub hp v (fragT_fragV hv)
  refine ⟨g, hg, ?_⟩
  cases v with
  | initPeerId =>
    simp only [operand] at hg; injection hg with hg; subst hg
    simp [resolveToString, asString, Got.bind, Agrees, hp.init]
  | literal x =>
    simp only [operand] at hg; injection hg with hg; subst hg
    simp [resolveToString, asString, Got.bind, Agrees]
  | scalar name =>
    simp only [resolveToString]
    cases hr : resolveValue c (.scalar name) with
    | ok r =>
      obtain ⟨jv, ts, pr⟩ := r
      rw [hr] at hag; simp only [Agrees] at hag; subst hag
      cases jv <;> first | rfl | exact Or.inr rfl
    | error e =>
      rw [hr] at hag
      cases e with
      | catchable ce =>
        simp only [Agrees] at hag
        rcases hag with hj | hj
        · exact Or.inl hj
        · subst hj; exact Or.inr rfl
      | uncatchable _ => exact hag.elim
      | unmodelled _ => exact hag.elim
    | panic site => rw [hr] at hag; exact hag.elim
  | scalarWL name l =>
    simp only [resolveToString]
    cases hr : resolveValue c (.scalarWL name l) with
    | ok r =>
      obtain ⟨jv, ts, pr⟩ := r
      rw [hr] at hag; simp only [Agrees] at hag; subst hag
      cases jv <;> first | rfl | exact Or.inr rfl
    | error e =>
      rw [hr] at hag
      cases e with
      | catchable ce =>
        simp only [Agrees] at hag
        rcases hag with hj | hj
        · exact Or.inl hj
        · subst hj; exact Or.inr rfl
      | uncatchable _ => exact hag.elim
      | unmodelled _ => exact hag.elim
    | panic site => rw [hr] at hag; exact hag.elim
  | _ => simp [FragT] at hv

/-! ### the execution monad, run on a context -/

theorem bind_run {α β : Type} (m : M α) (f : α → M β) (c : Ctx) :
    (m >>= f) c = (match m c with
      | (.ok a, c') => f a c'
      | (.error e, c') => (.error e, c')
      | (.panic s, c') => (.panic s, c')) := rfl

theorem joinable_onError_run {α : Type} (m : M α) (g : ExecErr → Ctx → Ctx) (c : Ctx) :
    joinable (onError m g) c = (match m c with
      | (.ok a, c1) => (.ok (some a), c1)
      | (.error e, c1) => if e.isJoinable then (.ok none, { g e c1 with subgraphComplete := false }) else (.error e, g e c1)
      | (.panic s, c1) => (.panic s, c1)) := by
  unfold joinable onError
  cases hm : m c with
  | mk r c1 => cases r <;> simp

/-! ### updates that do not touch what the invariant reads -/

theorem sameCore_flag (c : Ctx) (b : Bool) : SameCore c { c with subgraphComplete := b } :=
  ⟨rfl, rfl, rfl, rfl, rfl, rfl, HandlerSame.refl _, rfl⟩

theorem sameCore_setErrors (c : Ctx) (e : CatchableErr) (i : String) (t : Option Tetraplet) (b : Bool) :
    SameCore c (c.setErrors e i t b) := by
  unfold Ctx.setErrors
  exact ⟨rfl, rfl, rfl, rfl, rfl, rfl, HandlerSame.refl _, rfl⟩

theorem sameCore_callSetErrors (i : Instr) (t : Option Tetraplet) (e : ExecErr) (c : Ctx) : SameCore c (callSetErrors i t e c) := by
  unfold callSetErrors
  split
  · split
    · exact SameCore.refl c
    · exact sameCore_setErrors _ _ _ _ _
  · exact SameCore.refl c

theorem sameCore_setErrorsOf (e : ExecErr) (i : Instr) (c : Ctx) : SameCore c (c.setErrorsOf e i) := by
  unfold Ctx.setErrorsOf
  split
  · exact sameCore_setErrors _ _ _ _ _
  · exact SameCore.refl c

theorem sameCore_recordCallCid (c : Ctx) (peer : String) (cid : Data.Cid) : SameCore c (c.recordCallCid peer cid) := by
  unfold Ctx.recordCallCid
  split
  · exact ⟨rfl, rfl, rfl, rfl, rfl, rfl, HandlerSame.refl _, rfl⟩
  · exact SameCore.refl c

theorem sameCore_meetCallEnd (c : Ctx) (cr : Data.CallResult) : SameCore c { c with th := c.th.meetCallEnd cr } :=
  ⟨rfl, rfl, rfl, rfl, rfl, rfl, meetCallEnd_same _ _, rfl⟩

theorem sameCore_th (c : Ctx) (th : Trace.TraceHandler) (h : HandlerSame c.th th) : SameCore c { c with th := th } :=
  ⟨rfl, rfl, rfl, rfl, rfl, rfl, h, rfl⟩

theorem recordCallCid_flag (c : Ctx) (peer : String) (cid : Data.Cid) :
    (c.recordCallCid peer cid).subgraphComplete = c.subgraphComplete := by
  unfold Ctx.recordCallCid; split <;> rfl

/-- the premises needed to resolve operands in `c` as the reference evaluator does in `s` -/
structure Pre (p : Params) (c : Ctx) (s : State) : Prop where
  flatC : FlatC c
  sub : Sub c s
  params : SameParams c p

theorem Pre.congr {p : Params} {c c' : Ctx} {s : State} (h : Pre p c s) (hc : SameCore c c') : Pre p c' s :=
  ⟨⟨by rw [hc.scalars]; exact h.flatC.iter, by rw [hc.scalars]; exact h.flatC.m⟩,
   fun n va hn => h.sub n va (by rw [← scalarOf_congr hc.scalars]; exact hn),
   ⟨hc.init.trans h.params.init, hc.ts.trans h.params.ts, hc.ttl.trans h.params.ttl⟩⟩

theorem Inv.pre {p : Params} {cs : CidState} {T1 T2 : Data.Trace} {c : Ctx} {s : State} (h : Inv p cs T1 T2 c s) : Pre p c s :=
  ⟨h.flatC, h.sub, h.params⟩

/-- what the reference evaluator has done at a call whose triplet resolves to `t` -/
structure CallFacts (O : Oracle) (p : Params) (s s' : State) (o : Outcome) (t : Tetraplet) (args : List Value)
    (out : CallOutput) : Prop where
  called : ∀ vs, operands p s args = some (.val vs) →
    (⟨t.peerPk, t.serviceId, t.functionName, vs⟩ : Call) ∈ s'.calls ∧
    (match O t.peerPk t.serviceId t.functionName vs with
     | .ok v => o = .done ∧ ∀ name, out = .scalar name → s'.lookup name = .val v
     | .fail _ _ => o = .failed)
  argsErr : operands p s args = some .error → o = .failed

/-- like `Inv.congr`, the requests given separately -/
theorem Inv.congrReqs {p : Params} {cs : CidState} {T1 T2 : Data.Trace} {c c' : Ctx} {s : State}
    (h : Inv p cs T1 T2 c s) (hsc : c'.scalars = c.scalars) (hi : c'.initPeerId = c.initPeerId) (hts : c'.timestamp = c.timestamp)
    (httl : c'.ttl = c.ttl) (hres : c'.callResults = c.callResults) (hcid : c'.cid = c.cid) (hth : HandlerSame c.th c'.th)
    (hr : ∀ x ∈ c'.callRequests, toCall x.2 ∈ s.calls) : Inv p cs T1 T2 c' s where
  flatC := ⟨by rw [hsc]; exact h.flatC.iter, by rw [hsc]; exact h.flatC.m⟩
  flatS := h.flatS
  sub := fun n va hn => h.sub n va (by rw [← scalarOf_congr hsc]; exact hn)
  params := ⟨hi.trans h.params.init, hts.trans h.params.ts, httl.trans h.params.ttl⟩
  noResults := hres.trans h.noResults
  cid := hcid.trans h.cid
  ptrace := hth.1.trans h.ptrace
  ctrace := hth.2.trans h.ctrace
  reqs := hr

/-- `issueRequest` on a context that satisfies the premises -/
theorem issueRequest_sim {O : Oracle} {p : Params} {cs : CidState} {T1 T2 : Data.Trace} {c : Ctx} {s s' : State} {o : Outcome}
    {t : Tetraplet} {args : List Value} {out : CallOutput} (hargs : args.all FragV = true)
    (hpre : Pre p c s) (hinv : Inv p cs T1 T2 c s') (hf : CallFacts O p s s' o t args out) :
    (∀ c', issueRequest t args c = .ok c' → Inv p cs T1 T2 c' s' ∧ c'.subgraphComplete = false) ∧
    (∀ ce, issueRequest t args c = .error (.catchable ce) → ce.isJoinable = false → o = .failed) := by
  obtain ⟨ga, hga, hag⟩ := collectArgs_agrees hpre.flatC hpre.sub hpre.params args hargs
  unfold issueRequest
  cases hca : collectArgs c args with
  | ok r =>
    obtain ⟨vs, tss⟩ := r
    rw [hca] at hag; simp only [Agrees] at hag; subst hag
    refine ⟨?_, fun ce h => ?_⟩
    · intro c' h
      simp only at h
      split at h
      · cases h
      · injection h with h; subst h
        refine ⟨?_, rfl⟩
        have hcall := (hf.called vs hga).1
        refine hinv.congrReqs rfl rfl rfl rfl rfl rfl (meetCallEnd_same _ _) ?_
        intro x hx
        simp only [List.mem_append, List.mem_singleton] at hx
        rcases hx with hx | hx
        · exact hinv.reqs x hx
        · subst hx; exact hcall
    · simp only at h
      split at h <;> cases h
  | error e =>
    rw [hca] at hag
    refine ⟨fun c' h => (by simp at h), fun ce h hj => ?_⟩
    simp only at h
    injection h with h; subst h
    simp only [Agrees] at hag
    rcases hag with h | h
    · rw [hj] at h; cases h
    · subst h; exact hf.argsErr hga
  | panic site => exact ⟨fun c' h => (by simp at h), fun ce h => (by simp at h)⟩

theorem maybeSetPrevState_run (st : StateDescriptor) (c : Ctx) :
    ∃ c', st.maybeSetPrevState c = (.ok (), c') ∧ SameCore c c' ∧ c'.subgraphComplete = c.subgraphComplete := by
  cases st with
  | mk b prev =>
    cases prev with
    | none => exact ⟨c, rfl, SameCore.refl c, rfl⟩
    | some cr => exact ⟨_, rfl, sameCore_meetCallEnd c cr, rfl⟩

theorem dispatch_sim {O : Oracle} {p : Params} {cs : CidState} {T1 T2 : Data.Trace} {c : Ctx} {s s' : State} {o : Outcome}
    {t : Tetraplet} {args : List Value} {out : CallOutput} (hargs : args.all FragV = true)
    (hpre : Pre p c s) (hinv : Inv p cs T1 T2 c s') (hf : CallFacts O p s s' o t args out) (st : StateDescriptor)
    (r : Res ExecErr Unit) (c' : Ctx) (h : dispatch t args st c = (r, c')) :
    Inv p cs T1 T2 c' s' ∧ (r = .ok () → c'.subgraphComplete = false) ∧
    (∀ ce, r = .error (.catchable ce) → ce.isJoinable = false → o = .failed) := by
  unfold dispatch at h
  simp only [bind, M.bind, readCtx] at h
  split at h
  · -- remote
    unfold handleRemoteCall modifyCtx at h
    injection h with h1 h2; subst h1; subst h2
    refine ⟨hinv.congrReqs rfl rfl rfl rfl rfl rfl (meetCallEnd_same _ _) hinv.reqs, fun _ => rfl, (fun ce h => nomatch h)⟩
  · -- local
    have hi := issueRequest_sim hargs hpre hinv hf
    simp only [M.bind, tryM, modifyER] at h
    cases hir : issueRequest t args c with
    | ok c1 =>
      simp only [hir, pure, M.pure] at h
      injection h with h1 h2; subst h1; subst h2
      obtain ⟨h1, h2⟩ := hi.1 c1 hir
      exact ⟨h1, fun _ => h2, (fun ce h => nomatch h)⟩
    | error e =>
      simp only [hir] at h
      split at h
      · -- joinable: the previous state is put back, the error goes up
        rename_i hj
        obtain ⟨c2, hc2, hsame, _⟩ := maybeSetPrevState_run st c
        simp only [M.bind, hc2, throwE] at h
        injection h with h1 h2; subst h1; subst h2
        refine ⟨hinv.congr hsame, (fun h => nomatch h), fun ce h hnj => ?_⟩
        injection h with h; subst h
        simp only [ExecErr.isJoinable] at hj
        rw [hnj] at hj; cases hj
      · simp only [throwE] at h
        injection h with h1 h2; subst h1; subst h2
        refine ⟨hinv, (fun h => nomatch h), fun ce h hnj => ?_⟩
        injection h with h; subst h
        exact hi.2 ce hir hnj
    | panic site =>
      simp only [hir, panicM] at h
      injection h with h1 h2; subst h1; subst h2
      exact ⟨hinv, (fun h => nomatch h), (fun ce h => nomatch h)⟩

/-! ### association lists (`upsert`, `lookup`) -/

theorem lookup_nil {β : Type} (k : String) : Exec.lookup ([] : List (String × β)) k = none := rfl

theorem lookup_cons {β : Type} (a : String) (b : β) (l : List (String × β)) (k : String) :
    Exec.lookup ((a, b) :: l) k = if a = k then some b else Exec.lookup l k := by
  unfold Exec.lookup
  by_cases h : a = k
  · subst h; simp
  · have : (a == k) = false := by simpa using h
    simp [List.find?_cons, this, h]

theorem lookup_append_single {β : Type} (l : List (String × β)) (k k' : String) (v : β) :
    Exec.lookup (l ++ [(k, v)]) k' = (match Exec.lookup l k' with
      | some x => some x
      | none => if k = k' then some v else none) := by
  induction l with
  | nil => simp [lookup_cons, lookup_nil]
  | cons ab rest ih =>
    obtain ⟨a, b⟩ := ab
    simp only [List.cons_append, lookup_cons]
    by_cases h : a = k'
    · simp [h]
    · simp [h, ih]

theorem lookup_none_of_not_any {β : Type} (l : List (String × β)) (k : String)
    (h : (l.any fun x => x.1 == k) = false) : Exec.lookup l k = none := by
  induction l with
  | nil => rfl
  | cons ab rest ih =>
    obtain ⟨a, b⟩ := ab
    simp only [List.any_cons, Bool.or_eq_false_iff] at h
    have hak : ¬ a = k := by simpa using h.1
    simp [lookup_cons, hak, ih h.2]

theorem lookup_repl_other {β : Type} (l : List (String × β)) (k k' : String) (v : β) (hne : k' ≠ k) :
    Exec.lookup (l.map fun x => if x.1 == k then (x.1, v) else (x.1, x.2)) k' = Exec.lookup l k' := by
  induction l with
  | nil => rfl
  | cons ab rest ih =>
    obtain ⟨a, b⟩ := ab
    simp only [List.map_cons]
    by_cases hak : a = k
    · subst hak
      have : ¬ a = k' := fun e => hne e.symm
      simp only [beq_self_eq_true, if_true, lookup_cons, this, if_false]
      exact ih
    · have hak' : (a == k) = false := by simpa using hak
      simp only [hak', Bool.false_eq_true, if_false, lookup_cons, ih]

theorem lookup_repl_same {β : Type} (l : List (String × β)) (k : String) (v : β)
    (h : (l.any fun x => x.1 == k) = true) :
    Exec.lookup (l.map fun x => if x.1 == k then (x.1, v) else (x.1, x.2)) k = some v := by
  induction l with
  | nil => simp at h
  | cons ab rest ih =>
    obtain ⟨a, b⟩ := ab
    simp only [List.map_cons]
    by_cases hak : a = k
    · subst hak; simp [lookup_cons]
    · have hak' : (a == k) = false := by simpa using hak
      simp only [List.any_cons, hak', Bool.false_or] at h
      simp only [hak', Bool.false_eq_true, if_false, lookup_cons, hak, ih h]

theorem lookup_upsert {β : Type} (l : List (String × β)) (k k' : String) (v : β) :
    Exec.lookup (upsert l k v) k' = if k' = k then some v else Exec.lookup l k' := by
  unfold upsert
  have hfun : (fun (x : String × β) => match x with | (k'', _) => k'' == k) = (fun x => x.1 == k) := by
    funext x; obtain ⟨a, b⟩ := x; rfl
  have hmap : (fun (x : String × β) => match x with | (k'', v') => if (k'' == k) = true then (k'', v) else (k'', v')) =
      (fun x => if x.1 == k then (x.1, v) else (x.1, x.2)) := by
    funext x; obtain ⟨a, b⟩ := x; rfl
  rw [hfun, hmap]
  by_cases hany : (l.any fun x => x.1 == k) = true
  · simp only [hany, if_true]
    by_cases h : k' = k
    · subst h; rw [if_pos rfl]; exact lookup_repl_same l k' v hany
    · rw [if_neg h]; exact lookup_repl_other l k k' v h
  · have hany' : (l.any fun x => x.1 == k) = false := (Bool.not_eq_true _).mp hany
    simp only [hany', Bool.false_eq_true, if_false, lookup_append_single]
    by_cases h : k' = k
    · subst h; simp [lookup_none_of_not_any l k' hany']
    · have : ¬ k = k' := fun e => h e.symm
      simp only [h, this, if_false]
      cases Exec.lookup l k' <;> rfl

/-- setting a scalar in a flat context: it succeeds only for a name that is not set yet; afterwards the
context is flat again, the name denotes the new value, every other name is unchanged -/
theorem setScalarValue_flat {c : Ctx} (hc : FlatC c) (name : String) (va : ValueAggregate) (sc : Scalars)
    (h : c.scalars.setScalarValue name va = .ok sc) (c' : Ctx) (hc' : c'.scalars = sc) :
    FlatC c' ∧ scalarOf c name = none ∧ (∀ n, scalarOf c' n = if n = name then some va else scalarOf c n) := by
  unfold Scalars.setScalarValue at h
  simp only [bind, Res.bind] at h
  cases hsv : c.scalars.nonIterable.setValue name va with
  | ok r =>
    obtain ⟨b, m⟩ := r
    simp only [hsv] at h
    injection h with h; subst h
    unfold SparseMatrix.setValue at hsv
    simp only [SparseMatrix.getCells] at hsv
    cases hl : Exec.lookup c.scalars.nonIterable.cells name with
    | none =>
      simp only [hl] at hsv
      injection hsv with hsv; injection hsv with _ hm; subst hm
      refine ⟨⟨by rw [hc']; exact hc.iter, ?_⟩, by simp [scalarOf, hl], ?_⟩
      · rw [hc']
        refine ⟨hc.m.depth, hc.m.allowed, ?_⟩
        intro n cells hn
        simp only [SparseMatrix.setCells, lookup_upsert] at hn
        by_cases hnn : n = name
        · simp only [hnn, if_true] at hn
          injection hn with hn; subst hn
          exact ⟨va, by rw [hc.m.depth]⟩
        · simp only [hnn, if_false] at hn
          exact hc.m.cells n cells hn
      · intro n
        unfold scalarOf
        rw [hc']
        simp only [SparseMatrix.setCells, lookup_upsert]
        by_cases hnn : n = name
        · simp [hnn]
        · simp [hnn]
    | some cells =>
      exfalso
      obtain ⟨v0, rfl⟩ := hc.m.cells name cells hl
      simp [hl, SparseMatrix.variableCouldBeSet, SparseMatrix.shadowingAllowed, hc.m.depth, SparseMatrix.getCells, uncatchable] at hsv
  | error e => simp [hsv] at h
  | panic s => simp [hsv] at h

theorem resolveServiceInfo_error {env : Env} {cs : CidState} {cid : Data.Cid} {e : ExecErr}
    (h : resolveServiceInfo env cs cid = .error e) : ∀ ce, e ≠ .catchable ce := by
  intro ce hce
  subst hce
  unfold resolveServiceInfo at h
  split at h
  · simp [uncatchable] at h
  · split at h
    · simp [uncatchable] at h
    · split at h
      · cases h
      · split at h
        · simp [uncatchable] at h
        · cases h

theorem verifyCall_error {eh sh : String} {et st : Tetraplet} {e : ExecErr} (h : verifyCall eh et sh st = .error e) :
    ∀ ce, e ≠ .catchable ce := by
  intro ce hce
  subst hce
  unfold verifyCall at h
  split at h
  · simp [uncatchable] at h
  · split at h
    · simp [uncatchable] at h
    · cases h

/-- the tail of the `Failed` arm of `handlePrevState`: it always raises, and touches nothing the invariant reads -/
theorem failedTail_run (f1 f2 : Option JVal) (t : Tetraplet) (failedCid : Data.Cid) (res : Data.CallResult) (c : Ctx)
    (r : Res ExecErr StateDescriptor) (c' : Ctx)
    (h : (match f1, f2 with
      | some (.num rc), some (.str msg) =>
        if rc < -2147483648 ∨ rc > 2147483647 then throwE (.uncatchable .malformedCallServiceFailed) else do
        modifyCtx fun c =>
          let c := c.recordCallCid t.peerPk failedCid
          { c with th := c.th.meetCallEnd res }
        throwE (.catchable (.localServiceError rc msg))
      | _, _ => throwE (.uncatchable .malformedCallServiceFailed) : M StateDescriptor) c = (r, c')) :
    SameCore c c' ∧ ∀ sd, r ≠ .ok sd := by
  split at h
  · split at h
    · simp only [throwE] at h
      injection h with h1 h2; subst h1; subst h2
      exact ⟨SameCore.refl c, fun sd h => nomatch h⟩
    · simp only [bind, M.bind, modifyCtx, throwE] at h
      injection h with h1 h2; subst h1; subst h2
      exact ⟨(sameCore_recordCallCid _ _ _).trans (sameCore_meetCallEnd _ _), fun sd h => nomatch h⟩
  · simp only [throwE] at h
    injection h with h1 h2; subst h1; subst h2
    exact ⟨SameCore.refl c, fun sd h => nomatch h⟩

theorem verifyCall_ok {eh sh : String} {et st : Tetraplet} (h : verifyCall eh et sh st = .ok ()) : eh = sh ∧ et = st := by
  unfold verifyCall at h
  split at h
  · cases h
  · split at h
    · cases h
    · rename_i h1 h2
      exact ⟨by simpa using h1, by simpa using h2⟩

theorem unwrapHash_run (site : String) (o : Option String) (c : Ctx) :
    unwrapHash site o c = (match o with | some h => (.ok h, c) | none => (.panic site, c)) := by
  cases o <;> rfl

theorem sentByOther_run (met : Trace.MetCallResult) (t : Tetraplet) (c : Ctx) :
    sentByOther met t c = (if (t.peerPk == c.currentPeerId) = true then (.ok (.mk true (some met.result)), c)
      else (.ok (.mk false (some met.result)), { c with subgraphComplete := false })) := by
  unfold sentByOther
  simp only [bind, M.bind, readCtx, makeSubgraphIncomplete, modifyCtx, pure, M.pure]
  split <;> rfl

theorem setScalarValue_error {s : Scalars} {name : String} {va : ValueAggregate} {e : ExecErr}
    (h : s.setScalarValue name va = .error e) : ∀ ce, e ≠ .catchable ce := by
  intro ce hce
  subst hce
  unfold Scalars.setScalarValue at h
  simp only [bind, Res.bind] at h
  split at h
  · cases h
  · rename_i e' he
    injection h with h; subst h
    unfold SparseMatrix.setValue at he
    simp only [] at he
    repeat' split at he
    all_goals first
      | (cases he; done)
      | (simp [uncatchable] at he)
  · cases h

/-- the outcome of `handlePrevState` in a run without call results -/
theorem handlePrevState_sim {O : Oracle} {env : Env} {p : Params} {cs : CidState} {T1 T2 : Data.Trace} {c : Ctx} {s s' : State}
    {o : Outcome} {t : Tetraplet} {args : List Value} {out : CallOutput}
    (hpre : Pre p c s) (hinv : Inv p cs T1 T2 c s') (hf : CallFacts O p s s' o t args out)
    (hout : ∀ n pos, out ≠ .stream n pos)
    (met : Trace.MetCallResult) (hgood : GoodState O env cs (.call met.result))
    (argHash : Option String)
    (hah : ∀ ah, argHash = some ah → ∃ vs, operands p s args = some (.val vs) ∧ ah = env.hash (argsJson vs))
    (r : Res ExecErr StateDescriptor) (c' : Ctx) (h : handlePrevState env met t argHash out c = (r, c')) :
    Inv p cs T1 T2 c' s' ∧
    (∀ ce, r = .error (.catchable ce) → o = .failed) ∧
    (∀ prev, r = .ok (.mk true prev) → c' = c) ∧
    (∀ prev, r = .ok (.mk false prev) → c'.subgraphComplete = true → o = .done) := by
  unfold handlePrevState at h
  cases hres : met.result with
  | failed failedCid =>
    rw [hres] at hgood
    simp only [hres, bind, M.bind, readER] at h
    cases hrs : resolveServiceInfo env c.cid failedCid with
    | ok x =>
      obtain ⟨errValue, curT, agg⟩ := x
      simp only [hrs, unwrapHash_run] at h
      cases argHash with
      | none =>
        simp only at h
        injection h with h1 h2; subst h1; subst h2
        exact ⟨hinv, (fun ce h => nomatch h), (fun _ h => nomatch h), (fun _ h => nomatch h)⟩
      | some ah =>
        simp only at h
        cases hv : verifyCall ah t agg.argumentHash curT with
        | ok u =>
          simp only [hv] at h
          obtain ⟨hah1, ht⟩ := verifyCall_ok hv
          obtain ⟨vs, hvs, hahv⟩ := hah ah rfl
          -- the oracle fails this call
          have hfail : o = .failed := by
            have := hgood errValue curT agg (by rw [← hinv.cid]; exact hrs) vs (by rw [← hahv]; exact hah1)
            obtain ⟨rc, msg, hO⟩ := this
            have h2 := (hf.called vs hvs).2
            rw [ht, hO] at h2
            exact h2
          obtain ⟨hsame, hnok⟩ := failedTail_run _ _ t failedCid met.result c r c' (by rw [hres]; exact h)
          exact ⟨hinv.congr hsame, (fun ce _ => hfail), (fun prev h => absurd h (hnok _)), (fun prev h => absurd h (hnok _))⟩
        | error e =>
          simp only [hv] at h
          injection h with h1 h2; subst h1; subst h2
          refine ⟨hinv, (fun ce h => ?_), (fun _ h => nomatch h), (fun _ h => nomatch h)⟩
          exact absurd h (by intro h'; injection h' with h'; exact verifyCall_error hv ce h')
        | panic site =>
          simp only [hv] at h
          injection h with h1 h2; subst h1; subst h2
          exact ⟨hinv, (fun ce h => nomatch h), (fun _ h => nomatch h), (fun _ h => nomatch h)⟩
    | error e =>
      simp only [hrs] at h
      injection h with h1 h2; subst h1; subst h2
      refine ⟨hinv, (fun ce h => ?_), (fun _ h => nomatch h), (fun _ h => nomatch h)⟩
      exact absurd h (by intro h'; injection h' with h'; exact resolveServiceInfo_error hrs ce h')
    | panic site =>
      simp only [hrs] at h
      injection h with h1 h2; subst h1; subst h2
      exact ⟨hinv, (fun ce h => nomatch h), (fun _ h => nomatch h), (fun _ h => nomatch h)⟩
  | requestSentBy sender =>
    have hsbo : ∀ r c', sentByOther met t c = (r, c') →
        Inv p cs T1 T2 c' s' ∧ (∀ ce, r = .error (.catchable ce) → o = .failed) ∧
        (∀ prev, r = .ok (.mk true prev) → c' = c) ∧
        (∀ prev, r = .ok (.mk false prev) → c'.subgraphComplete = true → o = .done) := by
      intro r c' h
      rw [sentByOther_run] at h
      split at h
      · injection h with h1 h2; subst h1; subst h2
        exact ⟨hinv, (fun ce h => nomatch h), (fun _ _ => rfl), (fun _ h => nomatch h)⟩
      · injection h with h1 h2; subst h1; subst h2
        exact ⟨hinv.congr (sameCore_flag c false), (fun ce h => nomatch h), (fun _ h => nomatch h),
          (fun _ _ hc => nomatch hc)⟩
    cases sender with
    | peerId peer =>
      simp only [hres] at h
      exact hsbo r c' h
    | peerIdWithCallId peer callId =>
      simp only [hres, bind, M.bind, readCtx] at h
      split at h
      · have hl : Exec.lookup c.callResults (toString callId) = none := by rw [hinv.noResults]; rfl
        simp only [M.bind, readCtx, hl, makeSubgraphIncomplete, modifyCtx, pure, M.pure] at h
        injection h with h1 h2; subst h1; subst h2
        exact ⟨hinv.congr (sameCore_flag c false), (fun ce h => nomatch h), (fun _ h => nomatch h),
          (fun _ _ hc => nomatch hc)⟩
      · exact hsbo r c' h
  | executed value =>
    rw [hres] at hgood
    simp only [hres, bind, M.bind, unwrapHash_run] at h
    cases argHash with
    | none =>
      simp only at h
      injection h with h1 h2; subst h1; subst h2
      exact ⟨hinv, (fun ce h => nomatch h), (fun _ h => nomatch h), (fun _ h => nomatch h)⟩
    | some ah =>
      simp only [modifyER] at h
      cases hpd : populateFromData env c value ah t met.tracePos out met.source with
      | ok c1 =>
        simp only [hpd, modifyCtx, pure, M.pure] at h
        injection h with h1 h2; subst h1; subst h2
        cases value with
        | unused cid => exact hgood.elim
        | stream cid g =>
          exfalso
          cases out with
          | stream n pos => exact hout n pos rfl
          | none => simp [populateFromData, uncatchable] at hpd
          | scalar name => simp [populateFromData, uncatchable] at hpd
        | scalar cid =>
          cases out with
          | none => simp [populateFromData, uncatchable] at hpd
          | stream n pos => exact absurd rfl (hout n pos)
          | scalar name =>
            simp only [populateFromData, bind, Res.bind] at hpd
            cases hrs : resolveServiceInfo env c.cid cid with
            | ok x =>
              obtain ⟨v, curT, agg⟩ := x
              simp only [hrs] at hpd
              cases hv : verifyCall ah t agg.argumentHash curT with
              | ok u =>
                simp only [hv] at hpd
                cases hss : c.scalars.setScalarValue name ⟨v, t, met.tracePos, .serviceResult cid⟩ with
                | ok sc =>
                  simp only [hss] at hpd
                  injection hpd with hpd; subst hpd
                  obtain ⟨hah1, ht⟩ := verifyCall_ok hv
                  obtain ⟨vs, hvs, hahv⟩ := hah ah rfl
                  have hO := hgood v curT agg (by rw [← hinv.cid]; exact hrs) vs (by rw [← hahv]; exact hah1)
                  have h2 := (hf.called vs hvs).2
                  rw [ht, hO] at h2
                  obtain ⟨hdone, hbind⟩ := h2
                  obtain ⟨hflat, _, hsc⟩ := setScalarValue_flat hinv.flatC name _ sc hss { c with scalars := sc } rfl
                  have hinv1 : Inv p cs T1 T2 { c with scalars := sc } s' := {
                    flatC := hflat, flatS := hinv.flatS,
                    sub := by
                      intro n va' hn
                      rw [hsc n] at hn
                      by_cases hnn : n = name
                      · simp only [hnn, if_true] at hn
                        injection hn with hn; subst hn
                        rw [hnn]; exact hbind name rfl
                      · simp only [hnn, if_false] at hn
                        exact hinv.sub n va' hn
                    params := ⟨hinv.params.init, hinv.params.ts, hinv.params.ttl⟩, noResults := hinv.noResults, cid := hinv.cid,
                    ptrace := hinv.ptrace, ctrace := hinv.ctrace, reqs := hinv.reqs }
                  refine ⟨hinv1.congr ((sameCore_recordCallCid _ _ _).trans (sameCore_meetCallEnd _ _)),
                    (fun ce h => nomatch h), (fun _ h => nomatch h), (fun _ _ _ => hdone)⟩
                | error e => simp [hss] at hpd
                | panic site => simp [hss] at hpd
              | error e => simp [hv] at hpd
              | panic site => simp [hv] at hpd
            | error e => simp [hrs] at hpd
            | panic site => simp [hrs] at hpd
      | error e =>
        simp only [hpd] at h
        injection h with h1 h2; subst h1; subst h2
        refine ⟨hinv, (fun ce h => ?_), (fun _ h => nomatch h), (fun _ h => nomatch h)⟩
        exfalso
        injection h with h; subst h
        -- `populateFromData` only raises uncatchable errors
        cases out with
        | stream n pos => exact hout n pos rfl
        | none => cases value <;> simp [populateFromData, uncatchable] at hpd
        | scalar name =>
          cases value with
          | unused cid => simp [populateFromData, uncatchable] at hpd
          | stream cid g => simp [populateFromData, uncatchable] at hpd
          | scalar cid =>
            simp only [populateFromData, bind, Res.bind] at hpd
            split at hpd
            · split at hpd
              · split at hpd
                · cases hpd
                · rename_i e' he; injection hpd with hpd; exact setScalarValue_error he ce hpd
                · cases hpd
              · rename_i e' he; injection hpd with hpd; exact verifyCall_error he ce hpd
              · cases hpd
            · rename_i e' he; injection hpd with hpd; exact resolveServiceInfo_error he ce hpd
            · cases hpd
      | panic site =>
        simp only [hpd] at h
        injection h with h1 h2; subst h1; subst h2
        exact ⟨hinv, (fun ce h => nomatch h), (fun _ h => nomatch h), (fun _ h => nomatch h)⟩

theorem liftTH_run {α : Type} (i : Instr) (f : Trace.TraceHandler → Trace.TR (α × Trace.TraceHandler)) (c : Ctx) :
    liftTH i f c = (match f c.th with
      | .ok (a, th) => (.ok a, { c with th := th })
      | .error e => (.error (.uncatchable (.traceError e i.render)), c)
      | .panic s => (.panic s, c)) := by
  unfold liftTH stateER traceToExec
  cases h : f c.th with
  | ok x => obtain ⟨a, th⟩ := x; simp [h, Res.mapErr, Res.bind]
  | error e => simp [h, Res.mapErr, Res.bind]
  | panic s => simp [h, Res.mapErr, Res.bind]

theorem afterState_sim {O : Oracle} {p : Params} {cs : CidState} {T1 T2 : Data.Trace} {c : Ctx} {s s' : State} {o : Outcome}
    {t : Tetraplet} {args : List Value} {out : CallOutput} (hargs : args.all FragV = true)
    (hinv : Inv p cs T1 T2 c s') (hf : CallFacts O p s s' o t args out) (se : Bool) (prev : Option Data.CallResult)
    (hpre : se = true → Pre p c s) (hdone : se = false → c.subgraphComplete = true → o = .done)
    (r : Res ExecErr Unit) (c' : Ctx) (h : afterState t args (.mk se prev) c = (r, c')) :
    Inv p cs T1 T2 c' s' ∧ (∀ ce, r = .error (.catchable ce) → ce.isJoinable = false → o = .failed) ∧
    (r = .ok () → c'.subgraphComplete = true → o = .done) := by
  unfold afterState at h
  cases se with
  | false =>
    simp only [Bool.not_false, if_true] at h
    obtain ⟨c2, hc2, hsame, hflag⟩ := maybeSetPrevState_run (.mk false prev) c
    rw [hc2] at h
    injection h with h1 h2; subst h1; subst h2
    exact ⟨hinv.congr hsame, (fun ce h => nomatch h), fun _ hc => hdone rfl (by rw [← hflag]; exact hc)⟩
  | true =>
    simp only [Bool.not_true, Bool.false_eq_true, if_false] at h
    obtain ⟨h1, h2, h3⟩ := dispatch_sim hargs (hpre rfl) hinv hf _ r c' h
    exact ⟨h1, h3, fun hr hc => by rw [h2 hr] at hc; cases hc⟩

theorem resolvedExecute_sim {O : Oracle} {env : Env} {p : Params} {cs : CidState} {T1 T2 : Data.Trace} {c : Ctx} {s s' : State}
    {o : Outcome} {t : Tetraplet} {args : List Value} {out : CallOutput} (i : Instr) (hargs : args.all FragV = true)
    (hpre : Pre p c s) (hinv : Inv p cs T1 T2 c s') (hf : CallFacts O p s s' o t args out)
    (hout : ∀ n pos, out ≠ .stream n pos)
    (hgood : ∀ st, st ∈ T1 ∨ st ∈ T2 → GoodState O env cs st)
    (r : Res ExecErr Unit) (c' : Ctx) (h : resolvedExecute env i t args out c = (r, c')) :
    Inv p cs T1 T2 c' s' ∧ (∀ ce, r = .error (.catchable ce) → ce.isJoinable = false → o = .failed) ∧
    (r = .ok () → c'.subgraphComplete = true → o = .done) := by
  obtain ⟨ga, hga, hag⟩ := collectArgs_agrees hpre.flatC hpre.sub hpre.params args hargs
  unfold resolvedExecute at h
  simp only [bind_run, readER] at h
  -- the arguments
  have hchecked : ∀ vs, checkArgs c args = .ok (some vs) → operands p s args = some (.val vs) := by
    intro vs hck
    unfold checkArgs at hck
    cases hca : collectArgs c args with
    | ok x =>
      obtain ⟨vs', tss⟩ := x
      simp only [hca] at hck
      injection hck with hck; injection hck with hck; subst hck
      rw [hca] at hag; simp only [Agrees] at hag; subst hag; exact hga
    | error e => simp only [hca] at hck; split at hck <;> cases hck
    | panic s => simp [hca] at hck
  cases hck : checkArgs c args with
  | ok checked =>
    simp only [hck, liftTH_run] at h
    cases hms : c.th.meetCallStart with
    | ok x =>
      obtain ⟨m, th'⟩ := x
      simp only [hms] at h
      obtain ⟨hsameth, hmet⟩ := meetCallStart_spec _ _ _ hms
      have hsame : SameCore c { c with th := th' } := sameCore_th c th' hsameth
      have hinv1 := hinv.congr hsame
      have hpre1 := hpre.congr hsame
      have hah : ∀ ah, checked.map (fun vs => env.hash (argsJson vs)) = some ah →
          ∃ vs, operands p s args = some (.val vs) ∧ ah = env.hash (argsJson vs) := by
        intro ah hah
        cases checked with
        | none => cases hah
        | some vs => simp only [Option.map_some] at hah; injection hah with hah; exact ⟨vs, hchecked vs hck, hah.symm⟩
      unfold prepareState at h
      cases m with
      | notMet =>
        simp only [pure, M.pure] at h
        exact afterState_sim hargs hinv1 hf true none (fun _ => hpre1) (fun h => nomatch h) r c' h
      | met mr =>
        simp only at h
        cases hps : handlePrevState env mr t (checked.map fun vs => env.hash (argsJson vs)) out { c with th := th' } with
        | mk r2 c2 =>
          have hgoodm : GoodState O env cs (.call mr.result) := by
            rcases hmet with hm | ⟨res, ⟨pos, src, hm⟩, hmem⟩
            · cases hm
            · injection hm with hm; subst hm
              apply hgood
              rcases hmem with hmem | hmem
              · left; rw [← hinv.ptrace]; exact hmem
              · right; rw [← hinv.ctrace]; exact hmem
          obtain ⟨hi2, hfail2, htrue2, hfalse2⟩ := handlePrevState_sim hpre1 hinv1 hf hout mr hgoodm _ hah r2 c2 hps
          simp only [hps] at h
          cases r2 with
          | ok sd =>
            simp only at h
            cases sd with
            | mk se prev =>
              refine afterState_sim hargs hi2 hf se prev ?_ ?_ r c' h
              · intro hse; subst hse; rw [htrue2 prev rfl]; exact hpre1
              · intro hse; subst hse; exact hfalse2 prev rfl
          | error e =>
            simp only at h
            injection h with h1 h2; subst h1; subst h2
            exact ⟨hi2, (fun ce h _ => hfail2 ce (by injection h with h; rw [h])), (fun h => nomatch h)⟩
          | panic site =>
            simp only at h
            injection h with h1 h2; subst h1; subst h2
            exact ⟨hi2, (fun ce h => nomatch h), (fun h => nomatch h)⟩
    | error e =>
      simp only [hms] at h
      injection h with h1 h2; subst h1; subst h2
      exact ⟨hinv, (fun ce h => nomatch h), (fun h => nomatch h)⟩
    | panic site =>
      simp only [hms] at h
      injection h with h1 h2; subst h1; subst h2
      exact ⟨hinv, (fun ce h => nomatch h), (fun h => nomatch h)⟩
  | error e =>
    simp only [hck] at h
    injection h with h1 h2; subst h1; subst h2
    refine ⟨hinv, (fun ce h hnj => ?_), (fun h => nomatch h)⟩
    injection h with h; subst h
    unfold checkArgs at hck
    cases hca : collectArgs c args with
    | ok x => simp [hca] at hck
    | error e' =>
      simp only [hca] at hck
      split at hck
      · cases hck
      · injection hck with hck; subst hck
        rw [hca] at hag
        simp only [Agrees] at hag
        rcases hag with hj | hj
        · rw [hnj] at hj; cases hj
        · subst hj; exact hf.argsErr hga
    | panic s => simp [hca] at hck
  | panic site =>
    simp only [hck] at h
    injection h with h1 h2; subst h1; subst h2
    exact ⟨hinv, (fun ce h => nomatch h), (fun h => nomatch h)⟩

/-- the three triplet parts on the executor side -/
def tripletER (c : Ctx) (peer svc func : Value) : ER (String × String × String) :=
  resolveToString c peer >>= fun a => resolveToString c svc >>= fun b => resolveToString c func >>= fun d => .ok (a, b, d)

theorem resolveCall_eq (c : Ctx) (peer svc func : Value) (out : CallOutput) :
    resolveCall c peer svc func out = (tripletER c peer svc func >>= fun x =>
      checkOutputName c out >>= fun _ => .ok { peerPk := x.1, serviceId := x.2.1, functionName := x.2.2 }) := by
  unfold resolveCall tripletER
  cases resolveToString c peer <;> try rfl
  cases resolveToString c svc <;> try rfl
  cases resolveToString c func <;> try rfl

theorem tripletER_agrees {c : Ctx} {s : State} {p : Params} (hc : FlatC c) (hsub : Sub c s) (hp : SameParams c p)
    (peer svc func : Value) (h1 : FragT peer = true) (h2 : FragT svc = true) (h3 : FragT func = true) :
    ∃ gp gs gf, operand p s peer = some gp ∧ operand p s svc = some gs ∧ operand p s func = some gf ∧
      Agrees id (tripletER c peer svc func) (refTriplet gp gs gf) := by
  obtain ⟨gp, hgp, hap⟩ := resolveToString_agrees hc hsub hp peer h1
  obtain ⟨gs, hgs, has⟩ := resolveToString_agrees hc hsub hp svc h2
  obtain ⟨gf, hgf, haf⟩ := resolveToString_agrees hc hsub hp func h3
  refine ⟨gp, gs, gf, hgp, hgs, hgf, ?_⟩
  unfold tripletER refTriplet
  exact agrees_bind hap fun a => agrees_bind has fun b => agrees_bind haf fun d => rfl

/-- `checkOutputName` either passes or stops the run with an uncatchable error -/
theorem checkOutputName_cases (c : Ctx) (out : CallOutput) :
    checkOutputName c out = .ok () ∨ (∃ e, checkOutputName c out = .error e ∧ ∀ ce, e ≠ .catchable ce) ∨
      ∃ site, checkOutputName c out = .panic site := by
  unfold checkOutputName
  cases out with
  | none => exact Or.inl rfl
  | stream n pos => exact Or.inl rfl
  | scalar name =>
    simp only
    split
    · split
      · exact Or.inl rfl
      · exact Or.inr (Or.inl ⟨_, rfl, fun ce h => nomatch h⟩)
    · exact Or.inr (Or.inl ⟨_, rfl, fun ce h => nomatch h⟩)
    · exact Or.inl rfl
    · exact Or.inr (Or.inr ⟨_, rfl⟩)

/-- the statement of the simulation for one instruction: executor result `r`, final context `c'`
against the reference outcome `e.1` and final state `e.2` -/
structure SimPost (p : Params) (cs : CidState) (T1 T2 : Data.Trace) (r : Res ExecErr Unit) (c' : Ctx) (e : Outcome × State) : Prop where
  inv : Inv p cs T1 T2 c' e.2
  done : r = .ok () → c'.subgraphComplete = true → e.1 = .done
  failed : ∀ ce, r = .error (.catchable ce) → e.1 = .failed

theorem execCall_sim {O : Oracle} {env : Env} {p : Params} {cs : CidState} {T1 T2 : Data.Trace}
    (hgood : ∀ st, st ∈ T1 ∨ st ∈ T2 → GoodState O env cs st)
    (fuel : Nat) (up : Bool) (peer svc func : Value) (args : List Value) (out : CallOutput) (i : Instr) (c : Ctx) (s : State)
    (hfrag : FragA (.call peer svc func args out) = true) (hinv : Inv p cs T1 T2 c s)
    (hna : NoAbort (eval O p (fuel + 1) up (.call peer svc func args out) s).1)
    (r : Res ExecErr Unit) (c' : Ctx) (h : execCall env i peer svc func args out c = (r, c')) :
    SimPost p cs T1 T2 r c' (eval O p (fuel + 1) up (.call peer svc func args out) s) := by
  simp only [FragA, Bool.and_eq_true] at hfrag
  obtain ⟨⟨⟨⟨hfp, hfs⟩, hff⟩, hargs⟩, hout⟩ := hfrag
  have hout' : ∀ n pos, out ≠ .stream n pos := by
    intro n pos hh; subst hh; simp at hout
  obtain ⟨gp, gs, gf, hgp, hgs, hgf, hagt⟩ := tripletER_agrees hinv.flatC hinv.sub hinv.params peer svc func hfp hfs hff
  obtain ⟨ga, hga, haga⟩ := collectArgs_agrees hinv.flatC hinv.sub hinv.params args hargs
  have hfacts := eval_call_facts O p fuel up peer svc func args out s gp gs gf ga hgp hgs hgf hga hout' hna
  obtain ⟨hflat', hext⟩ := eval_ext O p (fuel + 1) up (.call peer svc func args out) s
    (by simp [FragA, hfp, hfs, hff, hargs, hout]) hinv.flatS
  generalize he : eval O p (fuel + 1) up (.call peer svc func args out) s = e at hfacts hflat' hext hna ⊢
  have hinv' : Inv p cs T1 T2 c e.2 := hinv.mono hext hflat'
  unfold execCall at h
  simp only [bind_run, joinable_onError_run, readER, resolveCall_eq] at h
  cases htr : tripletER c peer svc func with
  | ok x =>
    obtain ⟨a, b, d⟩ := x
    rw [htr] at hagt
    simp only [Agrees, id] at hagt
    rw [hagt] at hfacts
    simp only at hfacts
    simp only [htr] at h
    rcases checkOutputName_cases c out with hco | ⟨e', hco, hnc⟩ | ⟨site, hco⟩
    · -- the call is resolved: t = (a, b, d)
      simp only [hco, bind, Res.bind] at h
      -- facts about the reference side
      have hf : CallFacts O p s e.2 e.1 { peerPk := a, serviceId := b, functionName := d } args out := by
        constructor
        · intro vs hvs
          rw [hga] at hvs; injection hvs with hvs; subst hvs
          obtain ⟨hcan, hO⟩ := hfacts
          cases hOa : O a b d vs with
          | fail code msg =>
            rw [hOa] at hO; simp only at hO
            simp only [hOa]
            rw [hO]
            exact ⟨by simp [pushCall], rfl⟩
          | ok v =>
            rw [hOa] at hO; simp only at hO
            simp only [hOa]
            rw [hO]
            cases out with
            | none => exact ⟨by simp [pushCall], by simp⟩
            | stream n pos => exact absurd rfl (hout' n pos)
            | scalar name =>
              refine ⟨?_, rfl, ?_⟩
              · have : ((pushCall s ⟨a, b, d, vs⟩).bind name v).calls = (pushCall s ⟨a, b, d, vs⟩).calls := by
                  unfold State.bind; cases (pushCall s ⟨a, b, d, vs⟩).frames <;> rfl
                rw [this]; simp [pushCall]
              · intro name' hn; injection hn with hn; subst hn
                exact lookup_bind_same (flat_pushCall hinv.flatS _) _ _
        · intro herr
          rw [hga] at herr; injection herr with herr; subst herr
          rw [hfacts]
      cases hre : resolvedExecute env i { peerPk := a, serviceId := b, functionName := d } args out c with
      | mk r2 c2 =>
        obtain ⟨hi2, hfail2, hdone2⟩ := resolvedExecute_sim i hargs hinv.pre hinv' hf hout' hgood r2 c2 hre
        simp only [M.bind, joinable_onError_run, hre] at h
        cases r2 with
        | ok u =>
          simp only [pure, M.pure] at h
          injection h with h1 h2; subst h1; subst h2
          exact ⟨hi2, fun _ hc => hdone2 rfl hc, (fun ce h => nomatch h)⟩
        | error e2 =>
          cases hj2 : e2.isJoinable with
          | true =>
            simp only [hj2, if_true, pure, M.pure] at h
            injection h with h1 h2; subst h1; subst h2
            exact ⟨hi2.congr ((sameCore_callSetErrors _ _ _ _).trans (sameCore_flag _ false)), (fun _ hc => nomatch hc), (fun ce h => nomatch h)⟩
          | false =>
            simp only [hj2, Bool.false_eq_true, if_false] at h
            injection h with h1 h2; subst h1; subst h2
            refine ⟨hi2.congr (sameCore_callSetErrors _ _ _ _), (fun h => nomatch h), fun ce h => ?_⟩
            injection h with h; subst h
            exact hfail2 ce rfl (by simpa [ExecErr.isJoinable] using hj2)
        | panic site =>
          simp only at h
          injection h with h1 h2; subst h1; subst h2
          exact ⟨hi2, (fun h => nomatch h), (fun ce h => nomatch h)⟩
    · -- the output name is taken: the run stops
      have hnj : e'.isJoinable = false := by
        cases e' with
        | catchable ce => exact absurd rfl (hnc ce)
        | uncatchable _ => rfl
        | unmodelled _ => rfl
      simp only [hco, bind, Res.bind, hnj, Bool.false_eq_true, if_false] at h
      injection h with h1 h2; subst h1; subst h2
      refine ⟨hinv'.congr (sameCore_callSetErrors _ _ _ _), (fun h => nomatch h), fun ce h => ?_⟩
      injection h with h
      exact absurd h (hnc ce)
    · simp only [hco, bind, Res.bind] at h
      injection h with h1 h2; subst h1; subst h2
      exact ⟨hinv', (fun h => nomatch h), (fun ce h => nomatch h)⟩
  | error e' =>
    rw [htr] at hagt
    simp only [htr, bind, Res.bind] at h
    cases e' with
    | catchable ce' =>
      simp only [Agrees] at hagt
      cases hj' : ce'.isJoinable with
      | true =>
        simp only [ExecErr.isJoinable, hj', if_true, pure, M.pure] at h
        injection h with h1 h2; subst h1; subst h2
        exact ⟨hinv'.congr ((sameCore_callSetErrors _ _ _ _).trans (sameCore_flag _ false)), (fun _ hc => nomatch hc), (fun ce h => nomatch h)⟩
      | false =>
        simp only [ExecErr.isJoinable, hj', Bool.false_eq_true, if_false] at h
        injection h with h1 h2; subst h1; subst h2
        refine ⟨hinv'.congr (sameCore_callSetErrors _ _ _ _), (fun h => nomatch h), fun ce h => ?_⟩
        rcases hagt with hj | hj
        · rw [hj'] at hj; cases hj
        · rw [hj] at hfacts
          simp only at hfacts
          rw [hfacts]
    | uncatchable _ => exact hagt.elim
    | unmodelled _ => exact hagt.elim
  | panic site => rw [htr] at hagt; exact hagt.elim

/-! ### fail, xor bookkeeping -/

theorem failWithErrorObject_run (v : JVal) (t : Option Tetraplet) (pr : Provenance) (c : Ctx) :
    ∃ c', failWithErrorObject v t pr c = (.error (.catchable (.userError v)), c') ∧ SameCore c c' := by
  refine ⟨_, rfl, ?_⟩
  exact ⟨rfl, rfl, rfl, rfl, rfl, rfl, HandlerSame.refl _, rfl⟩

/-- `fail` never returns normally and touches nothing the invariant reads -/
theorem execFail_run (arg : FailArg) (c : Ctx) (r : Res ExecErr Unit) (c' : Ctx) (h : execFail arg c = (r, c')) :
    SameCore c c' ∧ r ≠ .ok () := by
  unfold execFail at h
  simp only [bind_run, readER] at h
  cases hfo : failOperand c arg with
  | ok x =>
    obtain ⟨v, t, pr⟩ := x
    simp only [hfo] at h
    obtain ⟨c1, hc1, hs1⟩ := failWithErrorObject_run v t pr c
    cases arg with
    | error =>
      simp only at h
      unfold execFailError at h
      simp only [bind_run, readCtx, tryM, hc1, modifyCtx] at h
      cases ho : c.error.error.origCatchable with
      | some oc =>
        simp only [ho, throwE] at h
        injection h with h1 h2; subst h1; subst h2
        exact ⟨hs1.trans ⟨rfl, rfl, rfl, rfl, rfl, rfl, HandlerSame.refl _, rfl⟩, fun h => nomatch h⟩
      | none =>
        simp only [ho, reraise] at h
        injection h with h1 h2; subst h1; subst h2
        exact ⟨hs1.trans ⟨rfl, rfl, rfl, rfl, rfl, rfl, HandlerSame.refl _, rfl⟩, fun h => nomatch h⟩
    | scalar _ => simp only [hc1] at h; injection h with h1 h2; subst h1; subst h2; exact ⟨hs1, fun h => nomatch h⟩
    | scalarWL _ _ => simp only [hc1] at h; injection h with h1 h2; subst h1; subst h2; exact ⟨hs1, fun h => nomatch h⟩
    | literal _ _ => simp only [hc1] at h; injection h with h1 h2; subst h1; subst h2; exact ⟨hs1, fun h => nomatch h⟩
    | canonWL _ _ => simp only [hc1] at h; injection h with h1 h2; subst h1; subst h2; exact ⟨hs1, fun h => nomatch h⟩
    | lastError => simp only [hc1] at h; injection h with h1 h2; subst h1; subst h2; exact ⟨hs1, fun h => nomatch h⟩
  | error e =>
    simp only [hfo] at h
    injection h with h1 h2; subst h1; subst h2
    exact ⟨SameCore.refl c, fun h => nomatch h⟩
  | panic s =>
    simp only [hfo] at h
    injection h with h1 h2; subst h1; subst h2
    exact ⟨SameCore.refl c, fun h => nomatch h⟩

theorem sameCore_xorEnterRight (e : CatchableErr) (c : Ctx) : SameCore c (xorEnterRight e c) :=
  ⟨rfl, rfl, rfl, rfl, rfl, rfl, HandlerSame.refl _, rfl⟩

theorem sameCore_xorLeaveRight (b : Bool) (c : Ctx) : SameCore c (xorLeaveRight b c) ∧
    (xorLeaveRight b c).subgraphComplete = c.subgraphComplete := by
  unfold xorLeaveRight
  simp only
  split <;> split <;> exact ⟨⟨rfl, rfl, rfl, rfl, rfl, rfl, HandlerSame.refl _, rfl⟩, rfl⟩

/-! ### match / ap operands -/

theorem areMatchableEq_agrees {c : Ctx} {s : State} {p : Params} (hc : FlatC c) (hsub : Sub c s) (hp : SameParams c p)
    (a b : Value) (ha : FragV a = true) (hb : FragV b = true) :
    ∃ ga gb, operand p s a = some ga ∧ operand p s b = some gb ∧
      Agrees id (areMatchableEq c a b) (ga.bind fun x => gb.bind fun y => .val (x == y)) := by
  obtain ⟨ga, hga, haa⟩ := resolveValue_agrees hc hsub hp a ha
  obtain ⟨gb, hgb, hab⟩ := resolveValue_agrees hc hsub hp b hb
  refine ⟨ga, gb, hga, hgb, ?_⟩
  have : areMatchableEq c a b = (resolveValue c a >>= fun l => resolveValue c b >>= fun r => .ok (l.1 == r.1)) := by
    unfold areMatchableEq
    cases resolveValue c a with
    | ok l => obtain ⟨l1, l2, l3⟩ := l; cases resolveValue c b with
      | ok r => obtain ⟨r1, r2, r3⟩ := r; rfl
      | error e => rfl
      | panic s => rfl
    | error e => rfl
    | panic s => rfl
  rw [this]
  exact agrees_bind haa fun l => agrees_bind hab fun r => rfl

theorem applyToArg_agrees {c : Ctx} {s : State} {p : Params} (hc : FlatC c) (hsub : Sub c s) (hp : SameParams c p)
    (arg : Value) (ha : FragV arg = true) :
    ∃ g, operand p s arg = some g ∧ Agrees (fun va : ValueAggregate => va.result) (applyToArg c arg) g := by
  obtain ⟨g, hg, hag⟩ := resolveValue_agrees hc hsub hp arg ha
  refine ⟨g, hg, ?_⟩
  cases arg with
  | initPeerId => simp only [operand, Option.some.injEq] at hg; subst hg; simp [applyToArg, Agrees, hp.init]
  | literal x => simp only [operand, Option.some.injEq] at hg; subst hg; simp [applyToArg, Agrees]
  | timestamp => simp only [operand, Option.some.injEq] at hg; subst hg; simp [applyToArg, Agrees, hp.ts]
  | ttl => simp only [operand, Option.some.injEq] at hg; subst hg; simp [applyToArg, Agrees, hp.ttl]
  | number n => simp only [operand, Option.some.injEq] at hg; subst hg; simp [applyToArg, Agrees]
  | float r => simp only [operand, Option.some.injEq] at hg; subst hg; simp [applyToArg, Agrees]
  | boolean b => simp only [operand, Option.some.injEq] at hg; subst hg; simp [applyToArg, Agrees]
  | emptyArray => simp only [operand, Option.some.injEq] at hg; subst hg; simp [applyToArg, Agrees]
  | scalar name =>
    simp only [operand, Option.some.injEq] at hg; subst hg
    simp only [applyToArg]
    rw [getValue_flat hc]
    cases h : scalarOf c name with
    | none => exact Or.inl rfl
    | some va =>
      show Agrees (fun va : ValueAggregate => va.result) (Res.ok va) (s.lookup name)
      simp only [Agrees]
      exact hsub name va h
  | scalarWL name l =>
    simp only [applyToArg]
    cases hr : resolveValue c (.scalarWL name l) with
    | ok r =>
      obtain ⟨v, ts, pr⟩ := r
      rw [hr] at hag; simp only [Agrees] at hag; subst hag
      cases ts with
      | nil =>
        -- the resolver always returns one tetraplet for a scalar with a lens
        exfalso
        simp only [resolveValue, bind, Res.bind] at hr
        repeat' split at hr
        all_goals first | cases hr | (injection hr with hr; injection hr with _ hr; injection hr with hr _; cases hr)
      | cons t rest =>
        show Agrees (fun va : ValueAggregate => va.result) (Res.ok (ValueAggregate.new v t c.th.tracePos pr)) (Got.val v)
        simp only [Agrees]
        cases pr <;> rfl
    | error e =>
      rw [hr] at hag
      cases e with
      | catchable ce =>
        simp only [Agrees] at hag ⊢
        exact hag
      | uncatchable _ => exact hag.elim
      | unmodelled _ => exact hag.elim
    | panic site => rw [hr] at hag; exact hag.elim
  | _ => simp [FragV] at ha

end AquaProps.C16
