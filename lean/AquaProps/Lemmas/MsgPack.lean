import Aqua.Codec.MsgPack
set_option linter.unusedSimpArgs false
/-!
MessagePack value algebra: the decoder undoes the encoder on every well-formed value (`WF`: lengths below
2^32, integers in `[-2^63, 2^64)`, float bit patterns and ext types in range), leaving the rest of the buffer
untouched (so encodings are prefix-free and can be sequenced).
-/
namespace AquaProps.Lemmas.MsgPack
open Aqua Aqua.MsgPack

/-! ## well-formed values and the fuel a value needs -/

mutual
def WF : Val → Prop
  | .nil => True
  | .bool _ => True
  | .int i => -(2 ^ 63) ≤ i ∧ i < 2 ^ 64
  | .f32 b => b < 2 ^ 32
  | .f64 b => b < 2 ^ 64
  | .str s => s.length < 2 ^ 32
  | .bin b => b.length < 2 ^ 32
  | .arr l => l.length < 2 ^ 32 ∧ WFList l
  | .map l => l.length < 2 ^ 32 ∧ WFPairs l
  | .ext ty d => ty < 256 ∧ d.length < 2 ^ 32
def WFList : List Val → Prop
  | [] => True
  | v :: vs => WF v ∧ WFList vs
def WFPairs : List (Val × Val) → Prop
  | [] => True
  | (k, v) :: kvs => WF k ∧ WF v ∧ WFPairs kvs
end

mutual
/-- fuel that `decode` needs for a value -/
def sz : Val → Nat
  | .arr l => 1 + szList l
  | .map l => 1 + szPairs l
  | _ => 1
def szList : List Val → Nat
  | [] => 1
  | v :: vs => 1 + max (sz v) (szList vs)
def szPairs : List (Val × Val) → Nat
  | [] => 1
  | (k, v) :: kvs => 1 + max (max (sz k) (sz v)) (szPairs kvs)
end

/-! ## big-endian numbers -/

theorem length_beBytes (k n : Nat) : (beBytes k n).length = k := by
  induction k with
  | zero => rfl
  | succ k ih => simp [beBytes, ih]

theorem beNat_beBytes (k n : Nat) : beNat (beBytes k n) = n % 256 ^ k := by
  induction k with
  | zero => simp [beBytes, beNat, Nat.mod_one]
  | succ k ih =>
    simp only [beBytes, beNat, length_beBytes, ih, UInt8.toNat_ofNat']
    have h8 : n / 256 ^ k % 256 % 2 ^ 8 = n / 256 ^ k % 256 := by omega
    rw [h8, Nat.mod_pow_succ (x := n) (b := 256) (k := k), Nat.mul_comm, Nat.add_comm]

theorem take?_append (l rest : Bytes) (k : Nat) (h : l.length = k) : take? k (l ++ rest) = some (l, rest) := by
  subst h
  simp [take?]

theorem take?_be (k n : Nat) (rest : Bytes) : take? k (beBytes k n ++ rest) = some (beBytes k n, rest) :=
  take?_append _ _ _ (length_beBytes k n)

theorem take?_be' (k n : Nat) (l rest : Bytes) : take? k (beBytes k n ++ (l ++ rest)) = some (beBytes k n, l ++ rest) :=
  take?_be k n (l ++ rest)

/-! ## scalars -/

theorem decode_int (i : Int) (h : -(2 ^ 63) ≤ i ∧ i < 2 ^ 64) (rest : Bytes) (fuel : Nat) :
    decode (fuel + 1) (encInt i ++ rest) = some (.int i, rest) := by
  obtain ⟨hlo, hhi⟩ := h
  unfold encInt
  by_cases hpos : i ≥ 0
  · obtain ⟨n, rfl⟩ := Int.eq_ofNat_of_zero_le hpos
    rw [if_pos hpos]
    simp only [Int.toNat_natCast]
    by_cases h1 : n < 128
    · rw [if_pos h1]
      simp only [List.singleton_append, decode, UInt8.toNat_ofNat']
      have : n % 2 ^ 8 = n := by omega
      simp [this, h1]
    · rw [if_neg h1]
      by_cases h2 : n < 2 ^ 8
      · rw [if_pos h2]; simp [decode, take?_be, beNat_beBytes]; omega
      · rw [if_neg h2]
        by_cases h3 : n < 2 ^ 16
        · rw [if_pos h3]; simp [decode, take?_be, beNat_beBytes]; omega
        · rw [if_neg h3]
          by_cases h4 : n < 2 ^ 32
          · rw [if_pos h4]; simp [decode, take?_be, beNat_beBytes]; omega
          · rw [if_neg h4]; simp [decode, take?_be, beNat_beBytes]; omega
  · have hneg : i < 0 := by omega
    rw [if_neg hpos]
    by_cases h1 : i ≥ -32
    · rw [if_pos h1]
      simp only [List.singleton_append, decode, UInt8.toNat_ofNat']
      have hm : (256 + i).toNat % 2 ^ 8 = (256 + i).toNat := by omega
      have ha : ¬ ((256 + i).toNat < 128) := by omega
      have hb : ¬ ((256 + i).toNat < 144) := by omega
      have hc : ¬ ((256 + i).toNat < 160) := by omega
      have hd : ¬ ((256 + i).toNat < 192) := by omega
      have he : (256 + i).toNat ≥ 224 := by omega
      simp only [hm, ha, hb, hc, hd, he, if_true, if_false]
      have : ((256 + i).toNat : Int) - 256 = i := by omega
      rw [this]
    · rw [if_neg h1]
      by_cases h2 : i ≥ -(2 ^ 7)
      · rw [if_pos h2]
        simp [decode, take?_be, beNat_beBytes, toSigned]
        split <;> omega
      · rw [if_neg h2]
        by_cases h3 : i ≥ -(2 ^ 15)
        · rw [if_pos h3]
          simp [decode, take?_be, beNat_beBytes, toSigned]
          split <;> omega
        · rw [if_neg h3]
          by_cases h4 : i ≥ -(2 ^ 31)
          · rw [if_pos h4]
            simp [decode, take?_be, beNat_beBytes, toSigned]
            split <;> omega
          · rw [if_neg h4]
            simp [decode, take?_be, beNat_beBytes, toSigned]
            split <;> omega

theorem decode_str (s : Bytes) (h : s.length < 2 ^ 32) (rest : Bytes) (fuel : Nat) :
    decode (fuel + 1) (strHeader s.length ++ s ++ rest) = some (.str s, rest) := by
  unfold strHeader
  by_cases h1 : s.length < 32
  · simp only [h1, if_true, List.singleton_append, List.cons_append, decode, UInt8.toNat_ofNat']
    have hm : (0xa0 + s.length) % 2 ^ 8 = 160 + s.length := by omega
    have ha : ¬ (160 + s.length < 128) := by omega
    have hb : ¬ (160 + s.length < 144) := by omega
    have hc : ¬ (160 + s.length < 160) := by omega
    have hd : 160 + s.length < 192 := by omega
    simp only [hm, ha, hb, hc, hd, if_true, if_false, Nat.add_sub_cancel_left]
    simp [take?_append s rest s.length rfl]
  · by_cases h2 : s.length < 2 ^ 8
    · simp [h1, h2, decode, take?_be', beNat_beBytes, Nat.mod_eq_of_lt h2, take?_append s rest s.length rfl]
    · by_cases h3 : s.length < 2 ^ 16
      · simp [h1, h2, h3, decode, take?_be', beNat_beBytes, Nat.mod_eq_of_lt h3, take?_append s rest s.length rfl]
      · have h4 : s.length < 256 ^ 4 := by omega
        simp [h1, h2, h3, decode, take?_be', beNat_beBytes, Nat.mod_eq_of_lt h4, take?_append s rest s.length rfl]

theorem decode_bin (s : Bytes) (h : s.length < 2 ^ 32) (rest : Bytes) (fuel : Nat) :
    decode (fuel + 1) (binHeader s.length ++ s ++ rest) = some (.bin s, rest) := by
  unfold binHeader
  by_cases h2 : s.length < 2 ^ 8
  · simp [h2, decode, take?_be', beNat_beBytes, Nat.mod_eq_of_lt h2, take?_append s rest s.length rfl]
  · by_cases h3 : s.length < 2 ^ 16
    · simp [h2, h3, decode, take?_be', beNat_beBytes, Nat.mod_eq_of_lt h3, take?_append s rest s.length rfl]
    · have h4 : s.length < 256 ^ 4 := by omega
      simp [h2, h3, decode, take?_be', beNat_beBytes, Nat.mod_eq_of_lt h4, take?_append s rest s.length rfl]

theorem decode_f32 (b : Nat) (h : b < 2 ^ 32) (rest : Bytes) (fuel : Nat) :
    decode (fuel + 1) ((0xca : UInt8) :: beBytes 4 b ++ rest) = some (.f32 b, rest) := by
  have h4 : b < 256 ^ 4 := by omega
  simp [decode, take?_be, beNat_beBytes, Nat.mod_eq_of_lt h4]

theorem decode_f64 (b : Nat) (h : b < 2 ^ 64) (rest : Bytes) (fuel : Nat) :
    decode (fuel + 1) ((0xcb : UInt8) :: beBytes 8 b ++ rest) = some (.f64 b, rest) := by
  have h8 : b < 256 ^ 8 := by omega
  simp [decode, take?_be, beNat_beBytes, Nat.mod_eq_of_lt h8]

theorem take?_ext (ty : Nat) (d rest : Bytes) (k : Nat) (hk : k = d.length + 1) :
    take? k (UInt8.ofNat ty :: (d ++ rest)) = some (UInt8.ofNat ty :: d, rest) := by
  subst hk
  have := take?_append (UInt8.ofNat ty :: d) rest (d.length + 1) (by simp)
  simpa using this

theorem decode_ext (ty : Nat) (d : Bytes) (hty : ty < 256) (h : d.length < 2 ^ 32) (rest : Bytes) (fuel : Nat) :
    decode (fuel + 1) (extHeader d.length ty ++ d ++ rest) = some (.ext ty d, rest) := by
  have hty' : ty % 2 ^ 8 = ty := by omega
  unfold extHeader
  by_cases e1 : d.length = 1
  · rw [if_pos e1]; simp [decode, take?_ext ty d rest 2 (by omega), UInt8.toNat_ofNat', hty']
  · rw [if_neg e1]
    by_cases e2 : d.length = 2
    · rw [if_pos e2]; simp [decode, take?_ext ty d rest 3 (by omega), UInt8.toNat_ofNat', hty']
    · rw [if_neg e2]
      by_cases e4 : d.length = 4
      · rw [if_pos e4]; simp [decode, take?_ext ty d rest 5 (by omega), UInt8.toNat_ofNat', hty']
      · rw [if_neg e4]
        by_cases e8 : d.length = 8
        · rw [if_pos e8]; simp [decode, take?_ext ty d rest 9 (by omega), UInt8.toNat_ofNat', hty']
        · rw [if_neg e8]
          by_cases e16 : d.length = 16
          · rw [if_pos e16]; simp [decode, take?_ext ty d rest 17 (by omega), UInt8.toNat_ofNat', hty']
          · rw [if_neg e16]
            by_cases h2 : d.length < 2 ^ 8
            · rw [if_pos h2]
              have h2' : d.length < 256 ^ 1 := by omega
              simp [decode, take?_be, beNat_beBytes, Nat.mod_eq_of_lt h2',
                take?_ext ty d rest (d.length + 1) rfl, UInt8.toNat_ofNat', hty']
            · rw [if_neg h2]
              by_cases h3 : d.length < 2 ^ 16
              · rw [if_pos h3]
                have h3' : d.length < 256 ^ 2 := by omega
                simp [decode, take?_be, beNat_beBytes, Nat.mod_eq_of_lt h3',
                  take?_ext ty d rest (d.length + 1) rfl, UInt8.toNat_ofNat', hty']
              · rw [if_neg h3]
                have h4 : d.length < 256 ^ 4 := by omega
                simp [decode, take?_be, beNat_beBytes, Nat.mod_eq_of_lt h4,
                  take?_ext ty d rest (d.length + 1) rfl, UInt8.toNat_ofNat', hty']

/-! ## container headers -/

theorem decode_arrHeader (n : Nat) (h : n < 2 ^ 32) (b : Bytes) (fuel : Nat) :
    decode (fuel + 1) (arrHeader n ++ b) = (decodeList fuel n b).map fun (l, r) => (.arr l, r) := by
  unfold arrHeader
  by_cases h1 : n < 16
  · simp only [h1, if_true, List.singleton_append, decode, UInt8.toNat_ofNat']
    have hm : (0x90 + n) % 2 ^ 8 = 144 + n := by omega
    have ha : ¬ (144 + n < 128) := by omega
    have hb : ¬ (144 + n < 144) := by omega
    have hc : 144 + n < 160 := by omega
    simp only [hm, ha, hb, hc, if_true, if_false, Nat.add_sub_cancel_left]
  · by_cases h3 : n < 2 ^ 16
    · simp [h1, h3, decode, take?_be, beNat_beBytes, Nat.mod_eq_of_lt h3]
    · have h4 : n < 256 ^ 4 := by omega
      simp [h1, h3, decode, take?_be, beNat_beBytes, Nat.mod_eq_of_lt h4]

theorem decode_mapHeader (n : Nat) (h : n < 2 ^ 32) (b : Bytes) (fuel : Nat) :
    decode (fuel + 1) (mapHeader n ++ b) = (decodePairs fuel n b).map fun (l, r) => (.map l, r) := by
  unfold mapHeader
  by_cases h1 : n < 16
  · simp only [h1, if_true, List.singleton_append, decode, UInt8.toNat_ofNat']
    have hm : (0x80 + n) % 2 ^ 8 = 128 + n := by omega
    have ha : ¬ (128 + n < 128) := by omega
    have hb : 128 + n < 144 := by omega
    simp only [hm, ha, hb, if_true, if_false, Nat.add_sub_cancel_left]
  · by_cases h3 : n < 2 ^ 16
    · simp [h1, h3, decode, take?_be, beNat_beBytes, Nat.mod_eq_of_lt h3]
    · have h4 : n < 256 ^ 4 := by omega
      simp [h1, h3, decode, take?_be, beNat_beBytes, Nat.mod_eq_of_lt h4]

/-! ## the round trip -/

mutual
theorem decode_encode (v : Val) (hv : WF v) (rest : Bytes) (fuel : Nat) (hf : sz v ≤ fuel) :
    decode fuel (encode v ++ rest) = some (v, rest) := by
  obtain ⟨fuel, rfl⟩ : ∃ f, fuel = f + 1 := by
    cases fuel with
    | zero => cases v <;> simp [sz] at hf
    | succ f => exact ⟨f, rfl⟩
  match v, hv, hf with
  | .nil, _, _ => simp [encode, decode]
  | .bool true, _, _ => simp [encode, decode]
  | .bool false, _, _ => simp [encode, decode]
  | .int i, hv, _ => simpa [encode] using decode_int i hv rest fuel
  | .f32 b, hv, _ => simpa [encode] using decode_f32 b hv rest fuel
  | .f64 b, hv, _ => simpa [encode] using decode_f64 b hv rest fuel
  | .str s, hv, _ => simpa [encode] using decode_str s hv rest fuel
  | .bin s, hv, _ => simpa [encode] using decode_bin s hv rest fuel
  | .ext ty d, hv, _ => simpa [encode] using decode_ext ty d hv.1 hv.2 rest fuel
  | .arr l, hv, hf =>
    have hl := decodeList_encodeList l hv.2 rest fuel (by simp [sz] at hf; omega)
    simp only [encode, List.append_assoc]
    rw [decode_arrHeader l.length hv.1, hl]; rfl
  | .map l, hv, hf =>
    have hl := decodePairs_encodePairs l hv.2 rest fuel (by simp [sz] at hf; omega)
    simp only [encode, List.append_assoc]
    rw [decode_mapHeader l.length hv.1, hl]; rfl
theorem decodeList_encodeList (l : List Val) (hl : WFList l) (rest : Bytes) (fuel : Nat) (hf : szList l ≤ fuel) :
    decodeList fuel l.length (encodeList l ++ rest) = some (l, rest) := by
  obtain ⟨fuel, rfl⟩ : ∃ f, fuel = f + 1 := by
    cases fuel with
    | zero => cases l <;> simp [szList] at hf
    | succ f => exact ⟨f, rfl⟩
  match l, hl, hf with
  | [], _, _ => simp [encodeList, decodeList]
  | v :: vs, hl, hf =>
    have h1 := decode_encode v hl.1 (encodeList vs ++ rest) fuel (by simp [szList] at hf; omega)
    have h2 := decodeList_encodeList vs hl.2 rest fuel (by simp [szList] at hf; omega)
    simp only [encodeList, List.length_cons, decodeList, List.append_assoc, h1, h2]; rfl
theorem decodePairs_encodePairs (l : List (Val × Val)) (hl : WFPairs l) (rest : Bytes) (fuel : Nat)
    (hf : szPairs l ≤ fuel) :
    decodePairs fuel l.length (encodePairs l ++ rest) = some (l, rest) := by
  obtain ⟨fuel, rfl⟩ : ∃ f, fuel = f + 1 := by
    cases fuel with
    | zero => cases l <;> simp [szPairs] at hf
    | succ f => exact ⟨f, rfl⟩
  match l, hl, hf with
  | [], _, _ => simp [encodePairs, decodePairs]
  | (k, v) :: kvs, hl, hf =>
    have h1 := decode_encode k hl.1 (encode v ++ (encodePairs kvs ++ rest)) fuel (by simp [szPairs] at hf; omega)
    have h2 := decode_encode v hl.2.1 (encodePairs kvs ++ rest) fuel (by simp [szPairs] at hf; omega)
    have h3 := decodePairs_encodePairs kvs hl.2.2 rest fuel (by simp [szPairs] at hf; omega)
    simp only [encodePairs, List.length_cons, decodePairs, List.append_assoc, h1, h2, h3]; rfl
end

/-! ## `decodeAll` has enough fuel -/

theorem encode_length_pos (v : Val) : 0 < (encode v).length := by
  cases v with
  | nil => simp [encode]
  | bool b => cases b <;> simp [encode]
  | int i => simp only [encode, encInt]; (repeat' split) <;> simp
  | f32 b => simp [encode]
  | f64 b => simp [encode]
  | str s => simp only [encode, strHeader]; (repeat' split) <;> simp <;> omega
  | bin s => simp only [encode, binHeader]; (repeat' split) <;> simp <;> omega
  | arr l => simp only [encode, arrHeader]; (repeat' split) <;> simp <;> omega
  | map l => simp only [encode, mapHeader]; (repeat' split) <;> simp <;> omega
  | ext ty d => simp only [encode, extHeader]; (repeat' split) <;> simp <;> omega

mutual
theorem sz_le (v : Val) : sz v ≤ 2 * (encode v).length := by
  match v with
  | .nil => simp [sz, encode]
  | .bool b => have := encode_length_pos (.bool b); simp [sz]; omega
  | .int i => have := encode_length_pos (.int i); simp [sz]; omega
  | .f32 b => simp [sz, encode, length_beBytes]
  | .f64 b => simp [sz, encode, length_beBytes]
  | .str s => have := encode_length_pos (.str s); simp [sz]; omega
  | .bin s => have := encode_length_pos (.bin s); simp [sz]; omega
  | .ext ty d => have := encode_length_pos (.ext ty d); simp [sz]; omega
  | .arr l =>
    have h := szList_le l
    have hp : 0 < (arrHeader l.length).length := by unfold arrHeader; (repeat' split) <;> simp
    simp only [sz, encode, List.length_append]; omega
  | .map l =>
    have h := szPairs_le l
    have hp : 0 < (mapHeader l.length).length := by unfold mapHeader; (repeat' split) <;> simp
    simp only [sz, encode, List.length_append]; omega
theorem szList_le (l : List Val) : szList l ≤ 1 + 2 * (encodeList l).length := by
  match l with
  | [] => simp [szList, encodeList]
  | v :: vs =>
    have h1 := sz_le v
    have h2 := szList_le vs
    have hp := encode_length_pos v
    simp only [szList, encodeList, List.length_append]; omega
theorem szPairs_le (l : List (Val × Val)) : szPairs l ≤ 1 + 2 * (encodePairs l).length := by
  match l with
  | [] => simp [szPairs, encodePairs]
  | (k, v) :: kvs =>
    have h1 := sz_le k
    have h2 := sz_le v
    have h3 := szPairs_le kvs
    have hp := encode_length_pos k
    have hq := encode_length_pos v
    simp only [szPairs, encodePairs, List.length_append]; omega
end

/-- the complete-buffer decoder reads back any well-formed value and returns the trailing bytes -/
theorem decodeAll_encode (v : Val) (hv : WF v) (rest : Bytes) :
    decodeAll (encode v ++ rest) = some (v, rest) := by
  unfold decodeAll
  apply decode_encode v hv rest
  have := sz_le v
  simp only [List.length_append]; omega

end AquaProps.Lemmas.MsgPack
