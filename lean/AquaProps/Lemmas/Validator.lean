import Aqua.Air.Validator
/-!
Specification-side vocabulary for C23 (which names an action "uses", "defines") and the lemmas
about the validator model the C23 theorems rest on.
-/
namespace Aqua.Air
open VariableValidator

-- ------------------------------------------------------------------------------------------------
-- what an instruction head mentions

/-- variable names of an operand that the validator looks at: the variable and the scalars its lens
indexes with; nothing for `%last_error%` / `:error:` -/
def Value.visitedNames : Value → List String
  | .scalar n | .canon n | .canonMap n => [n]
  | .scalarWL n l | .canonWL n l | .canonMapWL n l => n :: l.scalarNames
  | _ => []

/-- every variable name an operand mentions, the lens of `%last_error%` / `:error:` included -/
def Value.allNames : Value → List String
  | .lastError (some l) | .error (some l) => l.scalarNames
  | v => v.visitedNames

def FailArg.allNames : FailArg → List String
  | .scalar n => [n]
  | .scalarWL n l | .canonWL n l => n :: l.scalarNames
  | _ => []

def Event.span : Event → Span
  | .call sp .. | .seq sp | .par sp | .xor sp | .match_ sp .. | .mismatch sp .. | .ap sp .. | .apMap sp ..
  | .canon sp .. | .canonMap sp .. | .canonMapScalar sp .. | .fold sp .. | .next sp .. | .new sp ..
  | .fail sp .. | .null sp | .never sp => sp
  | .error => ⟨0, 0⟩

/-- the operand positions the validator visits: call triplet and arguments, match/mismatch operands,
`ap` argument, key of `ap` into a map, fold iterable (scalar, canon, stream, map) -/
def Event.visitedUses : Event → List String
  | .call _ p s f a _ => p.visitedNames ++ s.visitedNames ++ f.visitedNames ++ a.flatMap Value.visitedNames
  | .match_ _ a b | .mismatch _ a b => a.visitedNames ++ b.visitedNames
  | .ap _ a _ => a.visitedNames
  | .apMap _ k _ _ => k.visitedNames
  | .fold _ (.scalar v) _ _ => v.visitedNames
  | .fold _ (.stream n _) _ _ | .fold _ (.streamMap n _) _ _ => [n]
  | _ => []

/-- every operand position: additionally the operand of `fail`, the peer and the source stream/map of
`canon`, the value of `ap` into a map, and the lenses of `%last_error%` / `:error:` everywhere -/
def Event.allUses : Event → List String
  | .call _ p s f a _ => p.allNames ++ s.allNames ++ f.allNames ++ a.flatMap Value.allNames
  | .match_ _ a b | .mismatch _ a b => a.allNames ++ b.allNames
  | .ap _ a _ => a.allNames
  | .apMap _ k v _ => k.allNames ++ v.allNames
  | .canon _ p s _ | .canonMap _ p s _ | .canonMapScalar _ p s _ => p.allNames ++ [s]
  | .fold _ (.scalar v) _ _ => v.allNames
  | .fold _ (.stream n _) _ _ | .fold _ (.streamMap n _) _ _ => [n]
  | .fail _ a => a.allNames
  | _ => []

/-- names an instruction defines: call output, `ap` result, the map of `ap` into a map, `canon`
result, the variable of `new` -/
def Event.varDefs : Event → List String
  | .call _ _ _ _ _ (.scalar n) | .call _ _ _ _ _ (.stream n _) => [n]
  | .ap _ _ r => [r.name]
  | .apMap _ _ _ m => [m]
  | .canon _ _ _ c | .canonMap _ _ _ c | .canonMapScalar _ _ _ c => [c]
  | .new _ a => [a.name]
  | _ => []

theorem Value.visitedNames_subset_allNames (v : Value) : ∀ n ∈ v.visitedNames, n ∈ v.allNames := by
  cases v <;> simp [Value.visitedNames, Value.allNames]

/-- the visited operand positions are among all operand positions -/
theorem Event.visitedUses_subset_allUses (e : Event) : ∀ n ∈ e.visitedUses, n ∈ e.allUses := by
  have hv := Value.visitedNames_subset_allNames
  cases e with
  | call sp p s f a o =>
    intro n hn
    simp only [Event.visitedUses, Event.allUses, List.mem_append, List.mem_flatMap] at hn ⊢
    rcases hn with ((hn | hn) | hn) | ⟨x, hx, hn⟩
    · exact Or.inl (Or.inl (Or.inl (hv _ n hn)))
    · exact Or.inl (Or.inl (Or.inr (hv _ n hn)))
    · exact Or.inl (Or.inr (hv _ n hn))
    · exact Or.inr ⟨x, hx, hv _ n hn⟩
  | match_ sp a b | mismatch sp a b =>
    intro n hn
    simp only [Event.visitedUses, Event.allUses, List.mem_append] at hn ⊢
    exact hn.imp (hv _ n) (hv _ n)
  | ap sp a r => exact fun n hn => hv _ n hn
  | apMap sp k v m =>
    intro n hn
    simp only [Event.visitedUses, Event.allUses, List.mem_append] at hn ⊢
    exact Or.inl (hv _ n hn)
  | fold sp it i l =>
    cases it with
    | scalar v => exact fun n hn => hv _ n hn
    | stream n p | streamMap n p => exact fun n hn => hn
  | _ => simp [Event.visitedUses]

/-- `(name, span of the defining instruction)` of all variable definitions -/
def varDefsOf (es : List Event) : List (String × Span) := es.flatMap fun e => e.varDefs.map fun n => (n, e.span)

/-- `(iterator, span of the fold)` of all folds -/
def iterDefsOf (es : List Event) : List (String × Span) :=
  es.filterMap fun | .fold sp _ i _ => some (i, sp) | _ => none

/-- `(iterator, span)` of all `next` instructions, in reduction order -/
def nextsOf (es : List Event) : List (String × Span) :=
  es.filterMap fun | .next sp i => some (i, sp) | _ => none

-- ------------------------------------------------------------------------------------------------
-- containers

namespace SpanMap

theorem mem_of_get? {m : SpanMap} {k : String} {v : Span} (h : m.get? k = some v) : (k, v) ∈ m := by
  induction m with
  | nil => simp [get?] at h
  | cons p rest ih =>
    obtain ⟨k', v'⟩ := p
    simp only [get?] at h
    split at h
    · rename_i hk
      have : k' = k := by simpa using hk
      cases h; subst this; simp
    · exact List.mem_cons_of_mem _ (ih h)

theorem mem_getVec {m : SpanMap} {k : String} {v : Span} : v ∈ m.getVec k ↔ (k, v) ∈ m := by
  induction m with
  | nil => simp [getVec]
  | cons p rest ih =>
    obtain ⟨k', v'⟩ := p
    simp only [getVec]
    split
    · rename_i hk
      have hk' : k' = k := by simpa using hk
      subst hk'
      simp [ih]
    · rename_i hk
      have hk' : k' ≠ k := by simpa using hk
      simp only [ih, List.mem_cons, Prod.mk.injEq]
      constructor
      · exact fun h => Or.inr h
      · rintro (⟨h1, _⟩ | h)
        · exact absurd h1.symm hk'
        · exact h

theorem mem_set {m : SpanMap} {k : String} {v : Span} {p : String × Span} (h : p ∈ m.set k v) :
    p ∈ m ∨ p = (k, v) := by
  induction m with
  | nil => simp [set] at h; exact Or.inr h
  | cons q rest ih =>
    obtain ⟨k', v'⟩ := q
    simp only [set] at h
    split at h
    · rename_i hk
      have hk' : k' = k := by simpa using hk
      rcases List.mem_cons.mp h with h | h
      · right; rw [h, hk']
      · left; exact List.mem_cons_of_mem _ h
    · rcases List.mem_cons.mp h with h | h
      · left; rw [h]; simp
      · rcases ih h with h | h
        · left; exact List.mem_cons_of_mem _ h
        · right; exact h

theorem mem_firstPerKeyAux (seen : List String) (a b : SpanMap) (k : String) (v : Span)
    (ha : ∀ p ∈ a, p.1 ≠ k) (hs : k ∉ seen) : (k, v) ∈ firstPerKeyAux seen (a ++ (k, v) :: b) := by
  induction a generalizing seen with
  | nil =>
    simp [firstPerKeyAux, hs]
  | cons p rest ih =>
    obtain ⟨k', v'⟩ := p
    have hk : k' ≠ k := ha (k', v') (by simp)
    have hrest : ∀ p ∈ rest, p.1 ≠ k := fun p hp => ha p (List.mem_cons_of_mem _ hp)
    simp only [List.cons_append, firstPerKeyAux]
    split
    · exact ih seen hrest hs
    · apply List.mem_cons_of_mem
      apply ih (k' :: seen) hrest
      simp only [List.mem_cons, not_or]
      exact ⟨fun h => hk h.symm, hs⟩

/-- the first pair inserted under a key is among the pairs `MultiMap::iter()` yields -/
theorem mem_firstPerKey (a b : SpanMap) (k : String) (v : Span) (ha : ∀ p ∈ a, p.1 ≠ k) :
    (k, v) ∈ firstPerKey (a ++ (k, v) :: b) := mem_firstPerKeyAux [] a b k v ha (by simp)

end SpanMap

/-- first element of a list satisfying a predicate -/
theorem exists_first {α} (p : α → Prop) [DecidablePred p] (l : List α) (h : ∃ x ∈ l, p x) :
    ∃ a x b, l = a ++ x :: b ∧ p x ∧ ∀ y ∈ a, ¬ p y := by
  induction l with
  | nil => obtain ⟨x, hx, _⟩ := h; simp at hx
  | cons y ys ih =>
    by_cases hy : p y
    · exact ⟨[], y, ys, rfl, hy, by simp⟩
    · have : ∃ x ∈ ys, p x := by
        obtain ⟨x, hx, hpx⟩ := h
        rcases List.mem_cons.mp hx with rfl | hx
        · exact absurd hpx hy
        · exact ⟨x, hx, hpx⟩
      obtain ⟨a, x, b, hl, hpx, ha⟩ := ih this
      refine ⟨y :: a, x, b, by simp [hl], hpx, ?_⟩
      intro z hz
      rcases List.mem_cons.mp hz with rfl | hz
      · exact hy
      · exact ha z hz

-- ------------------------------------------------------------------------------------------------
-- sorting

theorem mem_insertSpan {x y : Span} {l : List Span} : y ∈ insertSpan x l ↔ y = x ∨ y ∈ l := by
  induction l with
  | nil => simp [insertSpan]
  | cons z zs ih =>
    simp only [insertSpan]
    split
    · simp only [List.mem_cons, ih]; constructor
      · rintro (h | h | h)
        · exact Or.inr (Or.inl h)
        · exact Or.inl h
        · exact Or.inr (Or.inr h)
      · rintro (h | h | h)
        · exact Or.inr (Or.inl h)
        · exact Or.inl h
        · exact Or.inr (Or.inr h)
    · simp

theorem mem_sortSpans {y : Span} {l : List Span} : y ∈ sortSpans l ↔ y ∈ l := by
  induction l with
  | nil => simp [sortSpans]
  | cons z zs ih =>
    have : sortSpans (z :: zs) = insertSpan z (sortSpans zs) := rfl
    rw [this, mem_insertSpan, ih]; simp

-- ------------------------------------------------------------------------------------------------
-- the four containers of the validator the scoping checks read, and how each handler changes them

structure Core where
  defs : SpanMap
  iters : SpanMap
  unres : SpanMap
  unresIt : SpanMap

namespace VariableValidator

def core (v : VariableValidator) : Core :=
  ⟨v.metVariableDefinitions, v.metIteratorDefinitions, v.unresolvedVariables, v.unresolvedIterables⟩

theorem containsVariable_core (v w : VariableValidator) (h1 : v.core.defs = w.core.defs)
    (h2 : v.core.iters = w.core.iters) (n : String) (sp : Span) :
    v.containsVariable n sp = w.containsVariable n sp := by
  simp only [core] at h1 h2
  simp [containsVariable, h1, h2]

/-- `HashMap` update of `met_variable_name_definition` -/
def defUpdate (d : SpanMap) (n : String) (sp : Span) : SpanMap :=
  match d.get? n with
  | some occupied => if occupied.gt sp then d.set n sp else d
  | none => d ++ [(n, sp)]

theorem mem_defUpdate {d : SpanMap} {n : String} {sp : Span} {p : String × Span}
    (h : p ∈ defUpdate d n sp) : p ∈ d ∨ p = (n, sp) := by
  unfold defUpdate at h
  split at h
  · split at h
    · exact SpanMap.mem_set h
    · exact Or.inl h
  · simpa using h

theorem core_metVariableName (v : VariableValidator) (n : String) (sp : Span) :
    (v.metVariableName n sp).core =
      { v.core with unres := v.core.unres ++ (if v.containsVariable n sp then [] else [(n, sp)]) } := by
  unfold metVariableName
  by_cases h : v.containsVariable n sp <;> simp [h, core, SpanMap.push]

theorem core_metVariableNameDefinition (v : VariableValidator) (n : String) (sp : Span) :
    (v.metVariableNameDefinition n sp).core = { v.core with defs := defUpdate v.core.defs n sp } := by
  unfold metVariableNameDefinition defUpdate
  simp only [core]
  cases hg : v.metVariableDefinitions.get? n with
  | none => simp
  | some occ => by_cases h : occ.gt sp <;> simp [h]

theorem core_metIteratorDefinition (v : VariableValidator) (i : String) (sp : Span) :
    (v.metIteratorDefinition i sp).core = { v.core with iters := v.core.iters ++ [(i, sp)] } := rfl

@[simp] theorem core_machine (v : VariableValidator) (k : CheckInstructionKind) (sp : Span) :
    (v.machine k sp).core = v.core := rfl

/-- a run of `met_variable_name` calls with one span -/
def pushUses (v : VariableValidator) (names : List String) (sp : Span) : VariableValidator :=
  names.foldl (fun v n => v.metVariableName n sp) v

theorem pushUses_append (v : VariableValidator) (a b : List String) (sp : Span) :
    v.pushUses (a ++ b) sp = (v.pushUses a sp).pushUses b sp := by simp [pushUses, List.foldl_append]

theorem core_pushUses (v : VariableValidator) (names : List String) (sp : Span) :
    (v.pushUses names sp).core =
      { v.core with unres := v.core.unres ++ (names.filter fun n => !v.containsVariable n sp).map fun n => (n, sp) } := by
  induction names generalizing v with
  | nil => simp [pushUses]
  | cons n ns ih =>
    have hstep : v.pushUses (n :: ns) sp = (v.metVariableName n sp).pushUses ns sp := rfl
    rw [hstep, ih, core_metVariableName]
    have hc : ∀ m, (v.metVariableName n sp).containsVariable m sp = v.containsVariable m sp := fun m =>
      containsVariable_core _ _ (by rw [core_metVariableName]) (by rw [core_metVariableName]) m sp
    simp only [hc, List.filter_cons]
    by_cases h : v.containsVariable n sp <;> simp [h]

theorem metLambda_eq (v : VariableValidator) (l : Lambda) (sp : Span) : v.metLambda l sp = v.pushUses l.scalarNames sp := rfl

theorem metValue_eq (v : VariableValidator) (val : Value) (sp : Span) :
    v.metValue val sp = v.pushUses val.visitedNames sp := by
  cases val <;> simp [metValue, Value.visitedNames, pushUses, metLambda]

theorem metArgs_eq (v : VariableValidator) (args : List Value) (sp : Span) :
    v.metArgs args sp = v.pushUses (args.flatMap Value.visitedNames) sp := by
  induction args generalizing v with
  | nil => rfl
  | cons a as ih =>
    have : v.metArgs (a :: as) sp = (v.metValue a sp).metArgs as sp := rfl
    rw [this, ih, metValue_eq, List.flatMap_cons, pushUses_append]

/-- definitions an action adds, as map updates -/
def defsAfter (d : SpanMap) (e : Event) : SpanMap := e.varDefs.foldl (fun d n => defUpdate d n e.span) d

/-- **normal form of one validator call**: the visited operand names go through
`met_variable_name` against the definitions known so far, then the action's definitions, its fold
iterator and its `next` are recorded -/
theorem core_step (v : VariableValidator) (e : Event) :
    (v.step e).core =
      { defs := defsAfter v.core.defs e,
        iters := v.core.iters ++ iterDefsOf [e],
        unres := v.core.unres ++ (e.visitedUses.filter fun n => !v.containsVariable n e.span).map fun n => (n, e.span),
        unresIt := v.core.unresIt ++ nextsOf [e] } := by
  cases e with
  | call sp p s f a o =>
    simp only [step, metCall, metValue_eq, metArgs_eq, ← pushUses_append, metSimpleInstr]
    cases o <;>
      simp [core_metVariableNameDefinition, core_pushUses, defsAfter, Event.varDefs, Event.visitedUses, Event.span,
        iterDefsOf, nextsOf]
  | seq sp | par sp | xor sp | null sp | never sp =>
    simp [step, metMergingInstr, metXoringInstr, metSimpleInstr, defsAfter, Event.varDefs, Event.visitedUses, iterDefsOf, nextsOf]
  | match_ sp a b | mismatch sp a b =>
    simp [step, metMatch, metValue_eq, ← pushUses_append, metReplacingInstr, core_pushUses, defsAfter, Event.varDefs,
      Event.visitedUses, Event.span, iterDefsOf, nextsOf]
  | ap sp a r =>
    simp [step, metAp, metValue_eq, metSimpleInstr, core_metVariableNameDefinition, core_pushUses, defsAfter, Event.varDefs,
      Event.visitedUses, Event.span, iterDefsOf, nextsOf]
  | apMap sp k val m =>
    simp [step, metApMap, metValue_eq, metSimpleInstr, core_metVariableNameDefinition, core_pushUses, defsAfter, Event.varDefs,
      Event.visitedUses, Event.span, iterDefsOf, nextsOf]
  | canon sp p s c | canonMap sp p s c | canonMapScalar sp p s c =>
    simp [step, metCanon, metSimpleInstr, core_metVariableNameDefinition, defsAfter, Event.varDefs,
      Event.visitedUses, Event.span, iterDefsOf, nextsOf]
  | fold sp it i hasLast =>
    cases it with
    | scalar val =>
      simp [step, metFold, metValue_eq, core_metIteratorDefinition, core_pushUses, defsAfter, Event.varDefs,
        Event.visitedUses, Event.span, iterDefsOf, nextsOf]
    | stream n pos | streamMap n pos =>
      simp [step, metFold, core_metIteratorDefinition, core_metVariableName, defsAfter, Event.varDefs,
        Event.visitedUses, Event.span, iterDefsOf, nextsOf]
      by_cases h : v.containsVariable n sp <;> simp [h]
  | next sp i =>
    simp [step, metNext, metPivotalnextInstr, machine, core, SpanMap.push, defsAfter, Event.varDefs, Event.visitedUses, iterDefsOf, nextsOf]
  | new sp a =>
    simp only [step, metNew, metReplacingInstr, core_machine, core_metVariableNameDefinition]
    simp [core, defsAfter, Event.varDefs, Event.visitedUses, Event.span, iterDefsOf, nextsOf]
  | fail sp a =>
    simp only [step, metFailLiteral, metSimpleInstr, core_machine]
    cases a <;> simp [core, defsAfter, Event.varDefs, Event.visitedUses, iterDefsOf, nextsOf]
    split <;> exact ⟨rfl, rfl, rfl, rfl⟩
  | error => simp [step, defsAfter, Event.varDefs, Event.visitedUses, iterDefsOf, nextsOf]

-- ------------------------------------------------------------------------------------------------
-- runs

/-- the validator after the calls of `es`, started in state `v` -/
def runFrom (v : VariableValidator) (es : List Event) : VariableValidator := es.foldl step v

theorem run_eq (es : List Event) : run es = runFrom {} es := rfl

theorem runFrom_append (v : VariableValidator) (a b : List Event) : runFrom v (a ++ b) = runFrom (runFrom v a) b := by
  simp [runFrom, List.foldl_append]

theorem iterDefsOf_append (a b : List Event) : iterDefsOf (a ++ b) = iterDefsOf a ++ iterDefsOf b := by
  simp [iterDefsOf, List.filterMap_append]
theorem nextsOf_append (a b : List Event) : nextsOf (a ++ b) = nextsOf a ++ nextsOf b := by
  simp [nextsOf, List.filterMap_append]
theorem varDefsOf_append (a b : List Event) : varDefsOf (a ++ b) = varDefsOf a ++ varDefsOf b := by
  simp [varDefsOf, List.flatMap_append]

theorem iters_runFrom (v : VariableValidator) (es : List Event) :
    (runFrom v es).core.iters = v.core.iters ++ iterDefsOf es := by
  induction es generalizing v with
  | nil => simp [runFrom, iterDefsOf]
  | cons e es ih =>
    have : runFrom v (e :: es) = runFrom (v.step e) es := rfl
    rw [this, ih, core_step]
    have : iterDefsOf (e :: es) = iterDefsOf [e] ++ iterDefsOf es := iterDefsOf_append [e] es
    simp [this]

theorem unresIt_runFrom (v : VariableValidator) (es : List Event) :
    (runFrom v es).core.unresIt = v.core.unresIt ++ nextsOf es := by
  induction es generalizing v with
  | nil => simp [runFrom, nextsOf]
  | cons e es ih =>
    have : runFrom v (e :: es) = runFrom (v.step e) es := rfl
    rw [this, ih, core_step]
    have : nextsOf (e :: es) = nextsOf [e] ++ nextsOf es := nextsOf_append [e] es
    simp [this]

theorem mem_defsAfter {d : SpanMap} {e : Event} {p : String × Span} (h : p ∈ defsAfter d e) :
    p ∈ d ∨ p ∈ varDefsOf [e] := by
  have gen : ∀ (names : List String) (d : SpanMap), p ∈ names.foldl (fun d n => defUpdate d n e.span) d →
      p ∈ d ∨ ∃ n ∈ names, p = (n, e.span) := by
    intro names
    induction names with
    | nil => intro d h; exact Or.inl h
    | cons n ns ih =>
      intro d h
      rcases ih _ h with h | ⟨m, hm, hp⟩
      · rcases mem_defUpdate h with h | h
        · exact Or.inl h
        · exact Or.inr ⟨n, by simp, h⟩
      · exact Or.inr ⟨m, List.mem_cons_of_mem _ hm, hp⟩
  rcases gen _ _ h with h | ⟨n, hn, hp⟩
  · exact Or.inl h
  · right; simp only [varDefsOf, List.flatMap_cons, List.flatMap_nil, List.append_nil, List.mem_map]
    exact ⟨n, hn, hp.symm⟩

theorem defs_runFrom (v : VariableValidator) (es : List Event) (p : String × Span)
    (h : p ∈ (runFrom v es).core.defs) : p ∈ v.core.defs ∨ p ∈ varDefsOf es := by
  induction es generalizing v with
  | nil => exact Or.inl h
  | cons e es ih =>
    have hr : runFrom v (e :: es) = runFrom (v.step e) es := rfl
    rw [hr] at h
    have happ : varDefsOf (e :: es) = varDefsOf [e] ++ varDefsOf es := varDefsOf_append [e] es
    rcases ih _ h with h | h
    · rw [core_step] at h
      rcases mem_defsAfter h with h | h
      · exact Or.inl h
      · right; rw [happ]; exact List.mem_append_left _ h
    · right; rw [happ]; exact List.mem_append_right _ h

/-- the unresolved list only grows at the end, by visited uses of the processed actions -/
theorem unres_runFrom (v : VariableValidator) (es : List Event) :
    ∃ suf, (runFrom v es).core.unres = v.core.unres ++ suf ∧
      ∀ p ∈ suf, ∃ e ∈ es, p.1 ∈ e.visitedUses ∧ p.2 = e.span := by
  induction es generalizing v with
  | nil => exact ⟨[], by simp [runFrom], by simp⟩
  | cons e es ih =>
    have hr : runFrom v (e :: es) = runFrom (v.step e) es := rfl
    obtain ⟨suf, hs, hp⟩ := ih (v.step e)
    rw [core_step] at hs
    refine ⟨(e.visitedUses.filter fun n => !v.containsVariable n e.span).map (fun n => (n, e.span)) ++ suf, ?_, ?_⟩
    · rw [hr, hs]; simp
    · intro p hp'
      rcases List.mem_append.mp hp' with h | h
      · obtain ⟨n, hn, rfl⟩ := List.mem_map.mp h
        exact ⟨e, by simp, (List.mem_filter.mp hn).1, rfl⟩
      · obtain ⟨e', he', h1, h2⟩ := hp p h
        exact ⟨e', List.mem_cons_of_mem _ he', h1, h2⟩

/-- what `contains_variable` establishes -/
theorem containsVariable_sound {v : VariableValidator} {n : String} {sp : Span} (h : v.containsVariable n sp = true) :
    (∃ d, (n, d) ∈ v.core.defs ∧ d.lt sp = true) ∨ (∃ f, (n, f) ∈ v.core.iters ∧ f.lt sp = true) := by
  unfold containsVariable at h
  rcases Bool.or_eq_true_iff.mp h with h | h
  · left
    cases hg : v.metVariableDefinitions.get? n with
    | none => simp [hg] at h
    | some d => simp only [hg] at h; exact ⟨d, SpanMap.mem_of_get? hg, h⟩
  · right
    obtain ⟨f, hf, hlt⟩ := List.any_eq_true.mp h
    exact ⟨f, SpanMap.mem_getVec.mp hf, hlt⟩

theorem findClosestFoldSpan_sound {v : VariableValidator} {k : String} {sp : Span}
    (h : (v.findClosestFoldSpan k sp).isSome = true) : ∃ f, (k, f) ∈ v.core.iters ∧ f.containsSpan sp = true := by
  unfold findClosestFoldSpan at h
  obtain ⟨f, hf⟩ := Option.isSome_iff_exists.mp h
  have hmem := List.mem_of_getLast? hf
  obtain ⟨h1, h2⟩ := List.mem_filter.mp hmem
  exact ⟨f, SpanMap.mem_getVec.mp (mem_sortSpans.mp h1), h2⟩

end VariableValidator

end Aqua.Air
