import Aqua.Json.Value
/-! `JVal.beq` (the model's `==`: structural, floats by their printed text) decides equality. -/
namespace AquaProps.JsonEq
open Aqua.Json

mutual
theorem beq_eq : ∀ a b : JVal, JVal.beq a b = true → a = b
  | .null, .null, _ => rfl
  | .bool x, .bool y, h => by simp [JVal.beq] at h; rw [h]
  | .num x, .num y, h => by simp [JVal.beq] at h; rw [h]
  | .float x, .float y, h => by simp [JVal.beq] at h; rw [h]
  | .str x, .str y, h => by simp [JVal.beq] at h; rw [h]
  | .arr x, .arr y, h => by simp only [JVal.beq] at h; rw [beqList_eq x y h]
  | .obj x, .obj y, h => by simp only [JVal.beq] at h; rw [beqPairs_eq x y h]
  | .null, .bool _, h | .null, .num _, h | .null, .float _, h | .null, .str _, h | .null, .arr _, h | .null, .obj _, h => by simp [JVal.beq] at h
  | .bool _, .null, h | .bool _, .num _, h | .bool _, .float _, h | .bool _, .str _, h | .bool _, .arr _, h | .bool _, .obj _, h => by simp [JVal.beq] at h
  | .num _, .null, h | .num _, .bool _, h | .num _, .float _, h | .num _, .str _, h | .num _, .arr _, h | .num _, .obj _, h => by simp [JVal.beq] at h
  | .float _, .null, h | .float _, .bool _, h | .float _, .num _, h | .float _, .str _, h | .float _, .arr _, h | .float _, .obj _, h => by simp [JVal.beq] at h
  | .str _, .null, h | .str _, .bool _, h | .str _, .num _, h | .str _, .float _, h | .str _, .arr _, h | .str _, .obj _, h => by simp [JVal.beq] at h
  | .arr _, .null, h | .arr _, .bool _, h | .arr _, .num _, h | .arr _, .float _, h | .arr _, .str _, h | .arr _, .obj _, h => by simp [JVal.beq] at h
  | .obj _, .null, h | .obj _, .bool _, h | .obj _, .num _, h | .obj _, .float _, h | .obj _, .str _, h | .obj _, .arr _, h => by simp [JVal.beq] at h
theorem beqList_eq : ∀ a b : List JVal, JVal.beqList a b = true → a = b
  | [], [], _ => rfl
  | x :: xs, y :: ys, h => by
    simp only [JVal.beqList, Bool.and_eq_true] at h
    rw [beq_eq x y h.1, beqList_eq xs ys h.2]
  | [], _ :: _, h | _ :: _, [], h => by simp [JVal.beqList] at h
theorem beqPairs_eq : ∀ a b : List (String × JVal), JVal.beqPairs a b = true → a = b
  | [], [], _ => rfl
  | (ka, x) :: xs, (kb, y) :: ys, h => by
    simp only [JVal.beqPairs, Bool.and_eq_true, beq_iff_eq] at h
    rw [h.1.1, beq_eq x y h.1.2, beqPairs_eq xs ys h.2]
  | [], _ :: _, h | _ :: _, [], h => by simp [JVal.beqPairs] at h
end

theorem beq_iff (a b : JVal) : (a == b) = true → a = b := beq_eq a b

end AquaProps.JsonEq
