import Aqua.Run.VerifyData
/-!
Lemmas about the model of the verification step (`Aqua.Run.VerifyData`) used by C14 (and reusable by
C01/C03): what a successful `CidInfo.verify`, `collectPeersCidsFromTrace`, `DataVerifier.new`,
`DataVerifier.verify` imply; injectivity of the signed message encoding.
-/
deriving instance DecidableEq for Aqua.Res
deriving instance DecidableEq for Except

namespace AquaProps.VerifyLemmas
open Aqua Aqua.Data Aqua.Exec Aqua.Run Aqua.Crypto

/-! ## generic -/

theorem allOk_ok {α ε : Type} {f : α → Except ε Unit} : ∀ {l : List α}, allOk f l = .ok () → ∀ x ∈ l, f x = .ok ()
  | [], _, x, hx => by cases hx
  | y :: ys, h, x, hx => by
    unfold allOk at h
    cases hfy : f y with
    | error e => rw [hfy] at h; cases h
    | ok u =>
      cases u
      rw [hfy] at h
      rcases List.mem_cons.mp hx with rfl | hx'
      · exact hfy
      · exact allOk_ok h x hx'

theorem andThen_ok {ε : Type} {a b : Except ε Unit} (h : andThen a b = .ok ()) : a = .ok () ∧ b = .ok () := by
  unfold andThen at h
  cases a with
  | error e => cases h
  | ok u => cases u; exact ⟨rfl, h⟩

theorem lookup_mem {β : Type} {l : List (String × β)} {k : String} {v : β} (h : lookup l k = some v) : (k, v) ∈ l := by
  unfold lookup at h
  cases hf : l.find? (fun x => match x with | (k', _) => k' == k) with
  | none => rw [hf] at h; cases h
  | some p =>
    rw [hf] at h
    simp only [Option.map_some, Option.some.injEq] at h
    have hm := List.mem_of_find?_eq_some hf
    have hp := List.find?_some hf
    obtain ⟨k', v'⟩ := p
    simp only [beq_iff_eq] at hp
    subst hp
    simp only at h
    subst h
    exact hm

theorem checkReference_ok {α : Type} {store : List (Cid × α)} {s t : String} {c : Cid}
    (h : checkReference store s t c = .ok ()) : ∃ v, lookup store c = some v := by
  unfold checkReference at h
  cases hl : lookup store c with
  | none => rw [hl] at h; cases h
  | some v => exact ⟨v, rfl⟩

/-! ## `CidInfo.verify` -/

theorem verifyStore_ok {α : Type} {E : VerifyEnv} {name : String} {ser : α → String} {store : List (Cid × α)}
    (h : verifyStore E name ser store = .ok ()) : ∀ cid v, (cid, v) ∈ store → E.cidCheck cid (strBytes (ser v)) = .ok () := by
  intro cid v hp
  have := allOk_ok h (cid, v) hp
  cases hc : E.cidCheck cid (strBytes (ser v)) with
  | error e => simp only [hc] at this; cases this
  | ok u => cases u; rfl

theorem verifyValueStore_ok {E : VerifyEnv} {store : List (Cid × String)}
    (h : verifyValueStore E store = .ok ()) : ∀ cid v, (cid, v) ∈ store → E.cidCheck cid (strBytes v) = .ok () ∧ E.isJson v = true := by
  intro cid v hp
  have := allOk_ok h (cid, v) hp
  cases hc : E.cidCheck cid (strBytes v) with
  | error e => simp only [hc] at this; cases this
  | ok u =>
    cases u
    simp only [hc] at this
    cases hj : E.isJson v with
    | true => exact ⟨rfl, rfl⟩
    | false => simp [hj] at this

/-- what a successful `CidInfo.verify` establishes -/
structure StoresOk (E : VerifyEnv) (ci : CidInfo) : Prop where
  value : ∀ cid v, (cid, v) ∈ ci.values → E.cidCheck cid (strBytes v) = .ok ()
  /-- every stored value text is JSON (so the lazy `RawValue::get_value` cannot fail later) -/
  valueJson : ∀ cid v, (cid, v) ∈ ci.values → E.isJson v = true
  tetraplet : ∀ cid (t : Tetraplet), (cid, t) ∈ ci.tetraplets → E.cidCheck cid (strBytes t.json) = .ok ()
  canonElement : ∀ cid (a : CanonCidAggregate), (cid, a) ∈ ci.canonElements → E.cidCheck cid (strBytes a.json) = .ok ()
  canonResult : ∀ cid (a : CanonResultCidAggregate), (cid, a) ∈ ci.canonResults → E.cidCheck cid (strBytes a.json) = .ok ()
  serviceResult : ∀ cid (a : ServiceResultAgg), (cid, a) ∈ ci.serviceResults → E.cidCheck cid (strBytes a.json) = .ok ()
  srRefs : ∀ cid (a : ServiceResultAgg), (cid, a) ∈ ci.serviceResults →
    (∃ t, lookup ci.tetraplets a.tetrapletCid = some t) ∧ (∃ v, lookup ci.values a.valueCid = some v)
  crRefs : ∀ cid (a : CanonResultCidAggregate), (cid, a) ∈ ci.canonResults →
    (∃ t, lookup ci.tetraplets a.tetraplet = some t) ∧ ∀ v ∈ a.values, ∃ e, lookup ci.canonElements v = some e
  ceRefs : ∀ cid (a : CanonCidAggregate), (cid, a) ∈ ci.canonElements →
    (∃ t, lookup ci.tetraplets a.tetraplet = some t) ∧ (∃ v, lookup ci.values a.value = some v) ∧
    (match a.provenance with
     | .literal => True
     | .serviceResult c => ∃ x, lookup ci.serviceResults c = some x
     | .canon c => ∃ x, lookup ci.canonResults c = some x)

theorem verify_ok {E : VerifyEnv} {ci : CidInfo} (h : ci.verify E = .ok ()) : StoresOk E ci := by
  unfold CidInfo.verify at h
  obtain ⟨hv, h⟩ := andThen_ok h
  obtain ⟨ht, h⟩ := andThen_ok h
  obtain ⟨hc, hs⟩ := andThen_ok h
  unfold CidInfo.verifyCanonResultStore at hc
  obtain ⟨hce, hc⟩ := andThen_ok hc
  obtain ⟨hcr, hc⟩ := andThen_ok hc
  obtain ⟨hcrr, hcer⟩ := andThen_ok hc
  unfold CidInfo.verifyServiceResultStore at hs
  obtain ⟨hsr, hsrr⟩ := andThen_ok hs
  refine ⟨fun cid v hp => (verifyValueStore_ok hv cid v hp).1, fun cid v hp => (verifyValueStore_ok hv cid v hp).2, verifyStore_ok ht, verifyStore_ok hce, verifyStore_ok hcr, verifyStore_ok hsr, ?_, ?_, ?_⟩
  · intro cid a hp
    obtain ⟨h1, h2⟩ := andThen_ok (allOk_ok hsrr (cid, a) hp)
    exact ⟨checkReference_ok h1, checkReference_ok h2⟩
  · intro cid a hp
    obtain ⟨h1, h2⟩ := andThen_ok (allOk_ok hcrr (cid, a) hp)
    exact ⟨checkReference_ok h2, fun v hv => checkReference_ok (allOk_ok h1 v hv)⟩
  · intro cid a hp
    obtain ⟨h1, h2⟩ := andThen_ok (allOk_ok hcer (cid, a) hp)
    obtain ⟨h2, h3⟩ := andThen_ok h2
    refine ⟨checkReference_ok h1, checkReference_ok h2, ?_⟩
    simp only at h3
    cases hpr : a.provenance with
    | literal => trivial
    | serviceResult c => rw [hpr] at h3; exact checkReference_ok h3
    | canon c => rw [hpr] at h3; exact checkReference_ok h3

/-! ## `collect_peers_cids_from_trace` -/

/-- append `extra q` to the CID list of every entry with key `q` -/
def appendCids {E : VerifyEnv} (extra : String → List Cid) (g : Grouped E) : Grouped E :=
  g.map fun p => (p.1, { p.2 with cids := p.2.cids ++ extra p.1 })

def hasKey {E : VerifyEnv} (g : Grouped E) (q : String) : Prop := ∃ p ∈ g, p.1 = q

theorem hasKey_appendCids {E : VerifyEnv} (extra : String → List Cid) (g : Grouped E) (q : String) :
    hasKey (appendCids extra g) q ↔ hasKey g q := by
  unfold hasKey appendCids
  constructor
  · rintro ⟨p, hp, rfl⟩
    obtain ⟨p0, hp0, rfl⟩ := List.mem_map.mp hp
    exact ⟨p0, hp0, rfl⟩
  · rintro ⟨p, hp, rfl⟩
    exact ⟨_, List.mem_map.mpr ⟨p, hp, rfl⟩, rfl⟩

theorem tryPushCid_ok {E : VerifyEnv} {g g' : Grouped E} {peer : String} {cid : Cid}
    (h : tryPushCid g peer cid = .ok g') :
    g' = appendCids (fun q => if q = peer then [cid] else []) g ∧ hasKey g peer := by
  unfold tryPushCid at h
  split at h
  · rename_i hany
    cases h
    refine ⟨?_, ?_⟩
    · unfold appendCids
      apply List.map_congr_left
      intro p _
      by_cases hp : p.1 = peer
      · simp [hp]
      · simp [hp]
    · obtain ⟨p, hp, hk⟩ := List.any_eq_true.mp hany
      exact ⟨p, hp, by simpa using hk⟩
  · cases h

theorem peerCids_nil (ci : CidInfo) (q : String) : peerCids ci [] q = [] := rfl

theorem peerCids_cons_none {ci : CidInfo} {st : ExecutedState} (rest : Trace) (q : String)
    (h : stateContribution ci st = .ok none) : peerCids ci (st :: rest) q = peerCids ci rest q := by
  simp [peerCids, h]

theorem peerCids_cons_some {ci : CidInfo} {st : ExecutedState} {peer : String} {cid : Cid} (rest : Trace) (q : String)
    (h : stateContribution ci st = .ok (some (peer, cid))) :
    peerCids ci (st :: rest) q = (if q = peer then [cid] else []) ++ peerCids ci rest q := by
  by_cases hq : q = peer
  · subst hq; simp [peerCids, h]
  · have : ¬ peer = q := fun h' => hq h'.symm
    simp [peerCids, h, hq, this]

theorem appendCids_appendCids {E : VerifyEnv} (e1 e2 : String → List Cid) (g : Grouped E) :
    appendCids e2 (appendCids e1 g) = appendCids (fun q => e1 q ++ e2 q) g := by
  unfold appendCids
  rw [List.map_map]
  apply List.map_congr_left
  intro p _
  simp [List.append_assoc]

/-- a successful collection appends to every entry the CIDs attributed to its peer (in trace order),
and every attributed state names a peer that has an entry -/
theorem collect_ok {E : VerifyEnv} (ci : CidInfo) : ∀ (trace : Trace) (g g' : Grouped E),
    collectPeersCidsFromTrace ci trace g = .ok g' →
    g' = appendCids (peerCids ci trace) g ∧
    ∀ st ∈ trace, ∀ q cid, stateContribution ci st = .ok (some (q, cid)) → hasKey g q
  | [], g, g', h => by
    unfold collectPeersCidsFromTrace at h
    cases h
    refine ⟨?_, fun st hst => by cases hst⟩
    unfold appendCids
    simp [peerCids_nil]
  | st :: rest, g, g', h => by
    unfold collectPeersCidsFromTrace at h
    cases hc : stateContribution ci st with
    | error e => rw [hc] at h; cases h
    | panic s => rw [hc] at h; cases h
    | ok o =>
      rw [hc] at h
      cases o with
      | none =>
        obtain ⟨h1, h2⟩ := collect_ok ci rest g g' h
        refine ⟨?_, ?_⟩
        · rw [h1]; unfold appendCids; apply List.map_congr_left; intro p _; rw [peerCids_cons_none rest p.1 hc]
        · intro st' hst' q cid hq
          rcases List.mem_cons.mp hst' with rfl | hm
          · rw [hc] at hq; cases hq
          · exact h2 st' hm q cid hq
      | some pc =>
        obtain ⟨peer, cid⟩ := pc
        simp only at h
        cases hp : tryPushCid g peer cid with
        | error e => rw [hp] at h; cases h
        | panic s => rw [hp] at h; cases h
        | ok g1 =>
          rw [hp] at h
          obtain ⟨hg1, hk⟩ := tryPushCid_ok hp
          obtain ⟨h1, h2⟩ := collect_ok ci rest g1 g' h
          refine ⟨?_, ?_⟩
          · rw [h1, hg1, appendCids_appendCids]
            unfold appendCids; apply List.map_congr_left; intro p _
            rw [peerCids_cons_some rest p.1 hc]
          · intro st' hst' q cid' hq
            rcases List.mem_cons.mp hst' with rfl | hm
            · rw [hc] at hq; cases hq; exact hk
            · have := h2 st' hm q cid' hq
              rw [hg1] at this
              exact (hasKey_appendCids _ g q).mp this

/-! ## `DataVerifier::new` / `verify` -/

theorem upsert_forall {β : Type} {P : String × β → Prop} (l : List (String × β)) (k : String) (v : β)
    (hl : ∀ p ∈ l, P p) (hv : P (k, v)) : ∀ p ∈ upsert l k v, P p := by
  intro p hp
  unfold upsert at hp
  split at hp
  · obtain ⟨p0, hp0, rfl⟩ := List.mem_map.mp hp
    obtain ⟨k', v'⟩ := p0
    by_cases hk : k' = k
    · subst hk; simpa using hv
    · simpa [hk] using hl _ hp0
  · rcases List.mem_append.mp hp with h | h
    · exact hl p h
    · simp only [List.mem_singleton] at h; subst h; exact hv

theorem upsert_key {β : Type} (l : List (String × β)) (k : String) (v : β) : ∃ p ∈ upsert l k v, p.1 = k := by
  unfold upsert
  split
  · rename_i hany
    obtain ⟨p, hp, hk⟩ := List.any_eq_true.mp hany
    obtain ⟨k', v'⟩ := p
    simp only [beq_iff_eq] at hk
    subst hk
    exact ⟨(k', v), List.mem_map.mpr ⟨(k', v'), hp, by simp⟩, rfl⟩
  · exact ⟨(k, v), by simp, rfl⟩

theorem upsert_keeps_keys {β : Type} (l : List (String × β)) (k : String) (v : β) (q : String)
    (h : ∃ p ∈ l, p.1 = q) : ∃ p ∈ upsert l k v, p.1 = q := by
  obtain ⟨p, hp, rfl⟩ := h
  unfold upsert
  split
  · obtain ⟨k', v'⟩ := p
    by_cases hk : k' = k
    · exact ⟨(k', v), List.mem_map.mpr ⟨(k', v'), hp, by simp [hk]⟩, rfl⟩
    · exact ⟨(k', v'), List.mem_map.mpr ⟨(k', v'), hp, by simp [hk]⟩, rfl⟩
  · exact ⟨p, List.mem_append_left _ hp, rfl⟩

/-- an entry of the grouped map as built from the signature store -/
def EntryFrom {E : VerifyEnv} (sigs : List (E.PK × E.Sig)) (p : String × PeerInfoV E) : Prop :=
  (p.2.publicKey, p.2.signature) ∈ sigs ∧ E.toPeerId p.2.publicKey = p.1 ∧ p.2.cids = []

theorem foldl_groups {E : VerifyEnv} (all : List (E.PK × E.Sig)) : ∀ (sigs : List (E.PK × E.Sig)) (acc : Grouped E),
    (∀ s ∈ sigs, s ∈ all) → (∀ p ∈ acc, EntryFrom all p) →
    (∀ p ∈ sigs.foldl (fun acc p => upsert acc (E.toPeerId p.1) (⟨p.1, p.2, []⟩ : PeerInfoV E)) acc, EntryFrom all p) ∧
    (∀ q, hasKey acc q → hasKey (sigs.foldl (fun acc p => upsert acc (E.toPeerId p.1) (⟨p.1, p.2, []⟩ : PeerInfoV E)) acc) q) ∧
    (∀ s ∈ sigs, hasKey (sigs.foldl (fun acc p => upsert acc (E.toPeerId p.1) (⟨p.1, p.2, []⟩ : PeerInfoV E)) acc) (E.toPeerId s.1))
  | [], acc, _, hacc => ⟨by simpa using hacc, fun q h => by simpa using h, fun s hs => by cases hs⟩
  | s :: rest, acc, hsub, hacc => by
    have hs : s ∈ all := hsub s (List.mem_cons_self ..)
    have hacc' : ∀ p ∈ upsert acc (E.toPeerId s.1) (⟨s.1, s.2, []⟩ : PeerInfoV E), EntryFrom all p :=
      upsert_forall acc _ _ hacc ⟨hs, rfl, rfl⟩
    obtain ⟨h1, h2, h3⟩ := foldl_groups all rest _ (fun x hx => hsub x (List.mem_cons_of_mem _ hx)) hacc'
    simp only [List.foldl_cons]
    refine ⟨h1, fun q hq => h2 q (upsert_keeps_keys acc _ _ q hq), fun x hx => ?_⟩
    rcases List.mem_cons.mp hx with rfl | hx'
    · exact h2 _ (upsert_key acc _ _)
    · exact h3 x hx'

theorem initialGroups_spec {E : VerifyEnv} (sigs : List (E.PK × E.Sig)) :
    (∀ p ∈ (initialGroups sigs : Grouped E), EntryFrom sigs p) ∧
    (∀ s ∈ sigs, hasKey (initialGroups sigs : Grouped E) (E.toPeerId s.1)) := by
  obtain ⟨h1, _, h3⟩ := foldl_groups sigs sigs ([] : Grouped E) (fun _ h => h) (fun _ h => by cases h)
  exact ⟨h1, h3⟩

/-- what `DataVerifier::new` returns when it succeeds -/
theorem new_ok {E : VerifyEnv} {d : VData E} {g : Grouped E} (h : DataVerifier.new E d = .ok g) :
    (∀ s ∈ d.signatures, E.validate s.1 = true) ∧
    g = (initialGroups d.signatures).map (fun p => (p.1, { p.2 with cids := sortCids (p.2.cids ++ peerCids d.cidInfo d.trace p.1) })) ∧
    ∀ st ∈ d.trace, ∀ q cid, stateContribution d.cidInfo st = .ok (some (q, cid)) → hasKey (initialGroups d.signatures : Grouped E) q := by
  unfold DataVerifier.new at h
  cases hf : d.signatures.find? (fun p => !E.validate p.1) with
  | some p => rw [hf] at h; cases h
  | none =>
    rw [hf] at h
    simp only at h
    cases hc : collectPeersCidsFromTrace d.cidInfo d.trace (initialGroups d.signatures : Grouped E) with
    | error e => rw [hc] at h; cases h
    | panic s => rw [hc] at h; cases h
    | ok g1 =>
      rw [hc] at h
      cases h
      obtain ⟨hg1, hkeys⟩ := collect_ok d.cidInfo d.trace _ _ hc
      refine ⟨?_, ?_, hkeys⟩
      · intro s hs
        have := List.find?_eq_none.mp hf s hs
        simpa using this
      · rw [hg1]; unfold appendCids; rw [List.map_map]; rfl

theorem verify_ok_all {E : VerifyEnv} (salt : String) : ∀ (g : Grouped E), DataVerifier.verify E salt g = .ok () →
    ∀ p ∈ g, ∃ m, saltedData p.2.cids salt = some m ∧ E.verifySig p.2.publicKey m p.2.signature = true
  | [], _, p, hp => by cases hp
  | x :: rest, h, p, hp => by
    unfold DataVerifier.verify at h
    cases hm : saltedData x.2.cids salt with
    | none => rw [hm] at h; cases h
    | some m =>
      rw [hm] at h
      simp only at h
      by_cases hv : E.verifySig x.2.publicKey m x.2.signature = true
      · rw [if_pos hv] at h
        rcases List.mem_cons.mp hp with rfl | hp'
        · exact ⟨m, hm, hv⟩
        · exact verify_ok_all salt rest h p hp'
      · rw [if_neg hv] at h; cases h

/-- **the heart of the verification step**: after a successful `verifyData`, every peer to which some
state of the trace is attributed has an entry in the signature store whose signature verifies over
the sorted list of *all* CIDs attributed to that peer, salted with the particle id -/
theorem verifyData_ok {E : VerifyEnv} {cur : VData E} {salt : String} (h : verifyData E cur salt = .ok ()) :
    StoresOk E cur.cidInfo ∧
    (∀ s ∈ cur.signatures, E.validate s.1 = true) ∧
    (∀ s ∈ cur.signatures, ∃ pk sig m, (pk, sig) ∈ cur.signatures ∧ E.toPeerId pk = E.toPeerId s.1 ∧
        saltedData (sortCids (peerCids cur.cidInfo cur.trace (E.toPeerId s.1))) salt = some m ∧ E.verifySig pk m sig = true) ∧
    ∀ st ∈ cur.trace, ∀ q cid, stateContribution cur.cidInfo st = .ok (some (q, cid)) →
      ∃ pk sig m, (pk, sig) ∈ cur.signatures ∧ E.toPeerId pk = q ∧
        saltedData (sortCids (peerCids cur.cidInfo cur.trace q)) salt = some m ∧ E.verifySig pk m sig = true := by
  unfold verifyData at h
  cases hci : cur.cidInfo.verify E with
  | error e => rw [hci] at h; cases h
  | ok u =>
    cases u
    rw [hci] at h
    simp only at h
    cases hn : DataVerifier.new E cur with
    | error e => rw [hn] at h; cases h
    | panic s => rw [hn] at h; cases h
    | ok g =>
      rw [hn] at h
      simp only at h
      have hv : DataVerifier.verify E salt g = .ok () := by
        cases hvv : DataVerifier.verify E salt g with
        | ok u => rfl
        | error e => rw [hvv] at h; cases h
        | panic s => rw [hvv] at h; cases h
      obtain ⟨hval, hg, hkeys⟩ := new_ok hn
      obtain ⟨hentries, hsigkeys⟩ := initialGroups_spec (E := E) cur.signatures
      have key : ∀ q, hasKey (initialGroups cur.signatures : Grouped E) q →
          ∃ pk sig m, (pk, sig) ∈ cur.signatures ∧ E.toPeerId pk = q ∧
            saltedData (sortCids (peerCids cur.cidInfo cur.trace q)) salt = some m ∧ E.verifySig pk m sig = true := by
        rintro q ⟨p0, hp0, rfl⟩
        obtain ⟨hmem, hpid, hnil⟩ := hentries p0 hp0
        have hin : (p0.1, ({ p0.2 with cids := sortCids (p0.2.cids ++ peerCids cur.cidInfo cur.trace p0.1) } : PeerInfoV E)) ∈ g := by
          rw [hg]; exact List.mem_map.mpr ⟨p0, hp0, rfl⟩
        obtain ⟨m, hm, hsig⟩ := verify_ok_all salt g hv _ hin
        simp only [hnil, List.nil_append] at hm hsig
        exact ⟨p0.2.publicKey, p0.2.signature, m, hmem, hpid, hm, hsig⟩
      exact ⟨verify_ok hci, hval, fun s hs => key _ (hsigkeys s hs), fun st hst q cid hq => key q (hkeys st hst q cid hq)⟩

end AquaProps.VerifyLemmas
