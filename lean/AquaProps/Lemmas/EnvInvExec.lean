import AquaProps.Lemmas.EnvInvStreams
/-!
`EnvInv` through the interpreter: the relation `Step env c c'` ("if the invariant holds before, it
holds after, and every call request added in between was issued in a context satisfying the
invariant with exactly the tetraplets the specification `expectedTetraplets` prescribes") is a
preorder, holds for every primitive of the execution monad and hence — by induction on the fuel, like
`exec_grow` — for `exec`.
-/
namespace AquaProps
open Aqua Aqua.Exec Aqua.Air Aqua.Trace Aqua.Json Aqua.Data

def ErrOK (P : TP) (ie : InstructionError) : Prop :=
  match ie.tetraplet with
  | some t => P t ie.provenance
  | none => ∀ k, ie.provenance ≠ .serviceResult k

/-- optional tetraplet + provenance, as `fail` hands them to `%last_error%` -/
def OptOK (P : TP) (t : Option Tetraplet) (p : Provenance) : Prop :=
  match t with
  | some t => P t p
  | none => ∀ k, p ≠ .serviceResult k

structure EnvInv (env : Env) (c : Ctx) : Prop where
  keyed : Keyed env c.cid
  scalars : ScalarsOK (PairOK env c.cid) c.scalars
  streams : StreamsOK (PairOK env c.cid) c.streams
  error : ErrOK (PairOK env c.cid) c.error.error
  lastError : ErrOK (PairOK env c.cid) c.lastError.error

/-- per argument: where the property speaks unambiguously, the tetraplets are the specified ones -/
inductive AllArgs (R : Value → List Tetraplet → Prop) : List Value → List (List Tetraplet) → Prop
  | nil : AllArgs R [] []
  | cons {a : Value} {ts : List Tetraplet} {as : List Value} {tss : List (List Tetraplet)} :
      R a ts → AllArgs R as tss → AllArgs R (a :: as) (ts :: tss)

theorem AllArgs.length_eq {R : Value → List Tetraplet → Prop} {as : List Value} {tss : List (List Tetraplet)} (h : AllArgs R as tss) :
    tss.length = as.length := by
  induction h with
  | nil => rfl
  | cons _ _ ih => simp [ih]

theorem AllArgs.get {R : Value → List Tetraplet → Prop} {as : List Value} {tss : List (List Tetraplet)} (h : AllArgs R as tss) :
    ∀ (i : Nat) (a : Value) (ts : List Tetraplet), as[i]? = some a → tss[i]? = some ts → R a ts := by
  induction h with
  | nil => intro i a ts ha; simp at ha
  | cons h0 _ ih =>
    intro i a ts ha hts
    cases i with
    | zero => simp at ha hts; subst ha hts; exact h0
    | succ j => simp at ha hts; exact ih j a ts ha hts

def ArgsSpec (c0 : Ctx) (args : List Value) (tss : List (List Tetraplet)) : Prop :=
  AllArgs (fun a ts => Covered a = true → expectedTetraplets a (prov c0) = some ts) args tss

/-- a call request whose tetraplets were computed, argument by argument, in a context `c0` satisfying
the invariant -/
def ReqOK (env : Env) (r : CallRequest) : Prop :=
  ∃ (c0 : Ctx) (args : List Value), EnvInv env c0 ∧ r.arguments.length = args.length ∧ ArgsSpec c0 args r.tetraplets

/-- the keys of the tetraplet store only grow; if the invariant holds before, it holds after, and every
request added in between was issued in a context satisfying it, with the specified tetraplets -/
def Step (env : Env) (c c' : Ctx) : Prop :=
  KeysGrow c.cid c'.cid ∧
  (EnvInv env c → EnvInv env c' ∧ ∃ rs, c'.callRequests = c.callRequests ++ rs ∧ ∀ r ∈ rs, ReqOK env r.2)

theorem step_preorder (env : Env) : Preorder' (Step env) where
  refl c := ⟨KeysGrow.refl _, fun h => ⟨h, [], by simp, by simp⟩⟩
  trans := by
    intro a b c hab hbc
    refine ⟨KeysGrow.trans hab.1 hbc.1, fun ha => ?_⟩
    obtain ⟨hb, rs1, e1, o1⟩ := hab.2 ha
    obtain ⟨hc, rs2, e2, o2⟩ := hbc.2 hb
    refine ⟨hc, rs1 ++ rs2, by rw [e2, e1, List.append_assoc], ?_⟩
    intro r hr
    rcases List.mem_append.mp hr with h | h
    · exact o1 r h
    · exact o2 r h

/-- a state change that keeps the invariant and touches neither the CID stores nor the requests -/
theorem step_keep {env : Env} {c c' : Ctx} (hr : c'.callRequests = c.callRequests) (hcid : c'.cid = c.cid)
    (h : EnvInv env c → EnvInv env c') : Step env c c' :=
  ⟨by rw [hcid]; exact KeysGrow.refl _, fun hc => ⟨h hc, [], by simp [hr], by simp⟩⟩

/-- a state change that grows the CID stores -/
theorem step_keep_grow {env : Env} {c c' : Ctx} (hr : c'.callRequests = c.callRequests) (hg : KeysGrow c.cid c'.cid)
    (h : EnvInv env c → EnvInv env c') : Step env c c' :=
  ⟨hg, fun hc => ⟨h hc, [], by simp [hr], by simp⟩⟩

/-- a state change outside the scalar store, the stream store, the CID store, the error descriptors and the requests -/
theorem step_same {env : Env} {c c' : Ctx} (h1 : c'.cid = c.cid) (h2 : c'.scalars = c.scalars) (h3 : c'.error.error = c.error.error)
    (h4 : c'.lastError.error = c.lastError.error) (h5 : c'.callRequests = c.callRequests) (h6 : c'.streams = c.streams) : Step env c c' :=
  step_keep h5 h1 fun h => ⟨by rw [h1]; exact h.keyed, by rw [h1, h2]; exact h.scalars, by rw [h1, h6]; exact h.streams,
    by rw [h1, h3]; exact h.error, by rw [h1, h4]; exact h.lastError⟩

macro "samestate" : tactic => `(tactic| (refine step_same ?_ ?_ ?_ ?_ ?_ ?_ <;> rfl))

@[simp] theorem rcc_cid (c : Ctx) (p cid : String) : (c.recordCallCid p cid).cid = c.cid := by
  unfold Ctx.recordCallCid; split <;> rfl
@[simp] theorem rcc_scalars (c : Ctx) (p cid : String) : (c.recordCallCid p cid).scalars = c.scalars := by
  unfold Ctx.recordCallCid; split <;> rfl
@[simp] theorem rcc_error (c : Ctx) (p cid : String) : (c.recordCallCid p cid).error = c.error := by
  unfold Ctx.recordCallCid; split <;> rfl
@[simp] theorem rcc_lastError (c : Ctx) (p cid : String) : (c.recordCallCid p cid).lastError = c.lastError := by
  unfold Ctx.recordCallCid; split <;> rfl
@[simp] theorem rcc_reqs' (c : Ctx) (p cid : String) : (c.recordCallCid p cid).callRequests = c.callRequests := by
  unfold Ctx.recordCallCid; split <;> rfl
@[simp] theorem rcc_streams (c : Ctx) (p cid : String) : (c.recordCallCid p cid).streams = c.streams := by
  unfold Ctx.recordCallCid; split <;> rfl
@[simp] theorem rccn_cid (c : Ctx) (p cid : String) : (c.recordCanonCid p cid).cid = c.cid := by
  unfold Ctx.recordCanonCid; split <;> rfl
@[simp] theorem rccn_scalars (c : Ctx) (p cid : String) : (c.recordCanonCid p cid).scalars = c.scalars := by
  unfold Ctx.recordCanonCid; split <;> rfl
@[simp] theorem rccn_error (c : Ctx) (p cid : String) : (c.recordCanonCid p cid).error = c.error := by
  unfold Ctx.recordCanonCid; split <;> rfl
@[simp] theorem rccn_lastError (c : Ctx) (p cid : String) : (c.recordCanonCid p cid).lastError = c.lastError := by
  unfold Ctx.recordCanonCid; split <;> rfl
@[simp] theorem rccn_reqs (c : Ctx) (p cid : String) : (c.recordCanonCid p cid).callRequests = c.callRequests := by
  unfold Ctx.recordCanonCid; split <;> rfl
@[simp] theorem rccn_streams (c : Ctx) (p cid : String) : (c.recordCanonCid p cid).streams = c.streams := by
  unfold Ctx.recordCanonCid; split <;> rfl
@[simp] theorem rccn_th (c : Ctx) (p cid : String) : (c.recordCanonCid p cid).th = c.th := by
  unfold Ctx.recordCanonCid; split <;> rfl

theorem step_th (env : Env) (c : Ctx) (th : TraceHandler) : Step env c { c with th := th } := by samestate
theorem step_inc (env : Env) (c : Ctx) : Step env c { c with subgraphComplete := false } := by samestate

theorem errOK_mono {P Q : TP} (h : ∀ t p, P t p → Q t p) {ie : InstructionError} (hs : ErrOK P ie) : ErrOK Q ie := by
  unfold ErrOK at *
  split
  · rename_i t ht; rw [ht] at hs; exact h _ _ hs
  · rename_i ht; rw [ht] at hs; exact hs

/-- growing the CID stores keeps everything justified -/
theorem envInv_grow {env : Env} {c : Ctx} {cid' : CidState} (g : KeysGrow c.cid cid') (hk : Keyed env cid') (h : EnvInv env c) :
    EnvInv env { c with cid := cid' } :=
  ⟨hk, scalarsOK_mono (fun _ _ => pairOK_mono g) h.scalars, streamsOK_mono (fun _ _ => pairOK_mono g) h.streams,
    errOK_mono (fun _ _ => pairOK_mono g) h.error, errOK_mono (fun _ _ => pairOK_mono g) h.lastError⟩

/-! ## the resolver: shape and specification -/

theorem literal_eq (c : Ctx) : Tetraplet.literal c.initPeerId = (prov c).literal := rfl

/-- **specification of the resolver** for the arguments the property covers -/
theorem resolve_spec (c : Ctx) (arg : Value) (v : JVal) (ts : List Tetraplet) (p : Provenance)
    (hcov : Covered arg = true) (h : resolveValue c arg = .ok (v, ts, p)) : expectedTetraplets arg (prov c) = some ts := by
  cases arg with
  | initPeerId | literal _ | timestamp | ttl | number _ | float _ | boolean _ | emptyArray =>
    simp only [resolveValue, resolveConst] at h
    injection h with h; injection h with _ h; injection h with h _
    subst h; rfl
  | scalar n =>
    simp only [resolveValue] at h
    cases hg : c.scalars.getValue n with
    | ok r =>
      simp only [hg, bind, Res.bind] at h
      cases hp : r.parts with
      | ok x =>
        obtain ⟨v', t', p'⟩ := x
        simp only [hp, pure] at h
        injection h with h; injection h with _ h; injection h with h _
        subst h
        simp [expectedTetraplets, prov, scalarTetraplet, hg, hp]
      | error e => simp [hp] at h
      | panic s => simp [hp] at h
    | error e => simp [hg, bind, Res.bind] at h
    | panic s => simp [hg, bind, Res.bind] at h
  | scalarWL n l =>
    cases l with
    | functorLength => simp [Covered, isFunctor] at hcov
    | path as =>
      simp only [resolveValue] at h
      cases hg : c.scalars.getValue n with
      | ok r =>
        simp only [hg, bind, Res.bind] at h
        cases hp : r.parts with
        | ok x =>
          obtain ⟨v', t', p'⟩ := x
          simp only [hp] at h
          cases hs : selectByLambdaFromScalar c.scalars v' (Lambda.path as) with
          | ok sel =>
            simp only [hs, pure] at h
            injection h with h; injection h with _ h; injection h with h _
            subst h
            simp [expectedTetraplets, prov, scalarTetraplet, hg, hp, isFunctor, populateTetrapletWithLambda, withLens, Tetraplet.addLens]
          | error e => simp [hs] at h
          | panic s => simp [hs] at h
        | error e => simp [hp] at h
        | panic s => simp [hp] at h
      | error e => simp [hg, bind, Res.bind] at h
      | panic s => simp [hg, bind, Res.bind] at h
  | error l =>
    cases l with
    | some l => simp [Covered] at hcov
    | none =>
      simp only [resolveValue, resolveErrors, bind, Res.bind, pure] at h
      injection h with h; injection h with _ h; injection h with h _
      subst h
      simp only [expectedTetraplets, prov]
      cases c.error.error.tetraplet <;> rfl
  | lastError l =>
    cases l with
    | some l => simp [Covered] at hcov
    | none =>
      simp only [resolveValue, resolveErrors, bind, Res.bind, pure] at h
      injection h with h; injection h with _ h; injection h with h _
      subst h
      simp only [expectedTetraplets, prov]
      cases c.lastError.error.tetraplet <;> rfl
  | canon n =>
    simp only [resolveValue, bind, Res.bind] at h
    cases hg : c.scalars.getCanonStream n with
    | ok cs =>
      simp only [hg, pure] at h
      injection h with h; injection h with _ h; injection h with h _
      subst h
      simp [expectedTetraplets, prov, canonTetraplets, hg]
    | error e => simp [hg] at h
    | panic s => simp [hg] at h
  | canonWL n l => simp [Covered] at hcov
  | canonMap n =>
    simp only [resolveValue, bind, Res.bind] at h
    cases hg : c.scalars.getCanonMap n with
    | ok cm =>
      simp only [hg, pure] at h
      injection h with h; injection h with _ h; injection h with h _
      subst h
      simp [expectedTetraplets, prov, canonMapTetraplets, hg]
    | error e => simp [hg] at h
    | panic s => simp [hg] at h
  | canonMapWL n l => simp [Covered] at hcov

/-- what the code does for a lens on `:error:` / `%last_error%`: the lens is NOT recorded -/
theorem resolveErrors_tetraplets (c : Ctx) (ie : InstructionError) (lens : Option Lambda) (v : JVal) (ts : List Tetraplet) (p : Provenance)
    (h : resolveErrors c ie lens = .ok (v, ts, p)) : ts = [ie.tetraplet.getD (Tetraplet.literal c.initPeerId)] ∧ p = ie.provenance := by
  unfold resolveErrors at h
  cases lens with
  | none =>
    simp only [bind, Res.bind, pure] at h
    injection h with h; injection h with _ h; injection h with h1 h2
    subst h1 h2
    cases ie.tetraplet <;> exact ⟨rfl, rfl⟩
  | some l =>
    simp only [bind, Res.bind] at h
    cases hs : selectByLambdaFromScalar c.scalars ie.error l with
    | ok sel =>
      simp only [hs, pure] at h
      injection h with h; injection h with _ h; injection h with h1 h2
      subst h1 h2
      cases ie.tetraplet <;> exact ⟨rfl, rfl⟩
    | error e => simp [hs] at h
    | panic s => simp [hs] at h

theorem errOK_resolved {P : TP} (hP : LensClosed P) (c : Ctx) {ie : InstructionError} (h : ErrOK P ie) :
    P (ie.tetraplet.getD (Tetraplet.literal c.initPeerId)) ie.provenance := by
  unfold ErrOK at h
  cases ht : ie.tetraplet with
  | some t => rw [ht] at h; exact h
  | none => rw [ht] at h; exact hP.nonService _ _ h

/-- shape of what the resolver returns for names and error values: one tetraplet, justified by the data -/
theorem resolve_scalar_shape {env : Env} {c : Ctx} (hi : EnvInv env c) {n : String} {v : JVal} {ts : List Tetraplet} {p : Provenance}
    (h : resolveValue c (.scalar n) = .ok (v, ts, p)) : ∃ t, ts = [t] ∧ PairOK env c.cid t p := by
  simp only [resolveValue] at h
  cases hg : c.scalars.getValue n with
  | ok r =>
    simp only [hg, bind, Res.bind] at h
    cases hp : r.parts with
    | ok x =>
      obtain ⟨v', t', p'⟩ := x
      simp only [hp, pure] at h
      injection h with h; injection h with _ h; injection h with h1 h2
      subst h1 h2
      exact ⟨t', rfl, parts_ok (pairOK_closed env c.cid) (scalars_getValue_ok hi.scalars hg) hp⟩
    | error e => simp [hp] at h
    | panic s => simp [hp] at h
  | error e => simp [hg, bind, Res.bind] at h
  | panic s => simp [hg, bind, Res.bind] at h

theorem resolve_scalarWL_shape {env : Env} {c : Ctx} (hi : EnvInv env c) {n : String} {l : Lambda} {v : JVal} {ts : List Tetraplet} {p : Provenance}
    (h : resolveValue c (.scalarWL n l) = .ok (v, ts, p)) : ∃ t, ts = [t] ∧ PairOK env c.cid t p := by
  simp only [resolveValue] at h
  cases hg : c.scalars.getValue n with
  | ok r =>
    simp only [hg, bind, Res.bind] at h
    cases hp : r.parts with
    | ok x =>
      obtain ⟨v', t', p'⟩ := x
      simp only [hp] at h
      cases hs : selectByLambdaFromScalar c.scalars v' l with
      | ok sel =>
        simp only [hs, pure] at h
        injection h with h; injection h with _ h; injection h with h1 h2
        subst h1 h2
        exact ⟨_, rfl, populate_ok (pairOK_closed env c.cid) l (parts_ok (pairOK_closed env c.cid) (scalars_getValue_ok hi.scalars hg) hp)⟩
      | error e => simp [hs] at h
      | panic s => simp [hs] at h
    | error e => simp [hp] at h
    | panic s => simp [hp] at h
  | error e => simp [hg, bind, Res.bind] at h
  | panic s => simp [hg, bind, Res.bind] at h

theorem resolve_error_shape {env : Env} {c : Ctx} (hi : EnvInv env c) {l : Option Lambda} {v : JVal} {ts : List Tetraplet} {p : Provenance}
    (h : resolveValue c (.error l) = .ok (v, ts, p)) : ∃ t, ts = [t] ∧ PairOK env c.cid t p := by
  simp only [resolveValue] at h
  obtain ⟨h1, h2⟩ := resolveErrors_tetraplets c _ _ _ _ _ h
  subst h1 h2
  exact ⟨_, rfl, errOK_resolved (pairOK_closed env c.cid) c hi.error⟩

theorem resolve_lastError_shape {env : Env} {c : Ctx} (hi : EnvInv env c) {l : Option Lambda} {v : JVal} {ts : List Tetraplet} {p : Provenance}
    (h : resolveValue c (.lastError l) = .ok (v, ts, p)) : ∃ t, ts = [t] ∧ PairOK env c.cid t p := by
  simp only [resolveValue] at h
  obtain ⟨h1, h2⟩ := resolveErrors_tetraplets c _ _ _ _ _ h
  subst h1 h2
  exact ⟨_, rfl, errOK_resolved (pairOK_closed env c.cid) c hi.lastError⟩

theorem res_bind_ok3 {ε α β : Type} {x : Res ε α} {f : α → Res ε β} {b : β} (h : (x >>= f) = .ok b) : ∃ a, x = .ok a ∧ f a = .ok b := by
  cases x with
  | ok a => exact ⟨a, rfl, h⟩
  | error e => cases h
  | panic s => cases h

theorem lensOfLambda_ok {α} {l : Lambda} {k : Lens.LambdaAST → ER α} {a : α} (h : lensOfLambda l k = .ok a) :
    ∃ lam, Lens.LambdaAST.ofLambda l = some lam ∧ k lam = .ok a := by
  unfold lensOfLambda at h
  split at h
  · rename_i lam hl; exact ⟨lam, hl, h⟩
  · simp [unmodelled] at h

/-- a canon stream under a lens: the tetraplet / provenance pair of the indexed element, or a pair with the canon's
provenance -/
theorem canonStreamApplyLambda_ok {P : TP} (hP : LensClosed P) {c : Ctx} {cs : CanonStream} {l : Lambda} {cid : Cid}
    {v : JVal} {t : Tetraplet} {p : Provenance} (hcs : AllAgg P cs.values)
    (h : canonStreamApplyLambda c cs l (.canon cid) = .ok (v, t, p)) : P t p := by
  unfold canonStreamApplyLambda at h
  obtain ⟨lam, _, h⟩ := lensOfLambda_ok h
  split at h
  · split at h
    · split at h
      · rename_i va hva
        injection h with h; injection h with _ h; injection h with h1 h2
        subst h1 h2
        exact hcs va (List.mem_of_getElem? hva)
      · cases h
    · injection h with h; injection h with _ h; injection h with h1 h2
      subst h1 h2
      exact hP.nonService _ _ (by intro k hk; cases hk)
  · cases h
  · cases h

theorem canonMapApplyLambda_prov {c : Ctx} {m : CanonStreamMapAgg} {l : Lambda} {p0 : Provenance}
    {v : JVal} {t : Tetraplet} {p : Provenance} (h : canonMapApplyLambda c m l p0 = .ok (v, t, p)) : p = p0 := by
  unfold canonMapApplyLambda at h
  obtain ⟨lam, _, h⟩ := lensOfLambda_ok h
  split at h
  · cases ht : canonMapLensTetraplet c m l with
    | ok t' =>
      simp only [ht, Res.bind] at h
      injection h with h; injection h with _ h; injection h with _ h2
      exact h2.symm
    | error e => simp [ht, Res.bind] at h
    | panic s => simp [ht, Res.bind] at h
  · cases h
  · cases h

theorem resolve_canonWL_shape {env : Env} {c : Ctx} (hi : EnvInv env c) {n : String} {l : Lambda} {v : JVal} {ts : List Tetraplet} {p : Provenance}
    (h : resolveValue c (.canonWL n l) = .ok (v, ts, p)) : ∃ t, ts = [t] ∧ PairOK env c.cid t p := by
  simp only [resolveValue] at h
  obtain ⟨cs, hg, h⟩ := res_bind_ok3 h
  obtain ⟨x, hx, h⟩ := res_bind_ok3 h
  obtain ⟨v', t', p'⟩ := x
  simp only [pure] at h
  injection h with h; injection h with _ h; injection h with h1 h2
  subst h1 h2
  exact ⟨t', rfl, canonStreamApplyLambda_ok (pairOK_closed env c.cid) (getCanonStream_ok hi.scalars hg) hx⟩

theorem resolve_canonMapWL_shape {env : Env} {c : Ctx} (hi : EnvInv env c) {n : String} {l : Lambda} {v : JVal} {ts : List Tetraplet} {p : Provenance}
    (h : resolveValue c (.canonMapWL n l) = .ok (v, ts, p)) : ∃ t, ts = [t] ∧ PairOK env c.cid t p := by
  simp only [resolveValue] at h
  obtain ⟨cm, hg, h⟩ := res_bind_ok3 h
  obtain ⟨x, hx, h⟩ := res_bind_ok3 h
  obtain ⟨v', t', p'⟩ := x
  simp only [pure] at h
  injection h with h; injection h with _ h; injection h with h1 h2
  subst h1 h2
  have := canonMapApplyLambda_prov hx
  subst this
  exact ⟨t', rfl, trivial⟩

theorem mem_firstPairPerKey : ∀ (l : List ValueAggregate) (met : List Lens.StreamMapKey) (x : ValueAggregate),
    x ∈ firstPairPerKey l met → x ∈ l
  | [], met, x, h => by simp [firstPairPerKey] at h
  | va :: rest, met, x, h => by
    unfold firstPairPerKey at h
    split at h
    · split at h
      · exact List.mem_cons_of_mem _ (mem_firstPairPerKey rest _ x h)
      · rcases List.mem_cons.mp h with h1 | h1
        · subst h1; exact List.mem_cons_self
        · exact List.mem_cons_of_mem _ (mem_firstPairPerKey rest _ x h1)
    · exact List.mem_cons_of_mem _ (mem_firstPairPerKey rest _ x h)

theorem mem_lastPairPerKey {l : List ValueAggregate} {x : ValueAggregate} (h : x ∈ lastPairPerKey l) : x ∈ l := by
  unfold lastPairPerKey at h
  have := mem_firstPairPerKey _ _ x (List.mem_reverse.mp h)
  exact List.mem_reverse.mp this

/-- `collect_args`: as many values and tetraplet lists as arguments, each list as specified -/
theorem collectArgs_spec (c : Ctx) : ∀ (args : List Value) (vs : List JVal) (tss : List (List Tetraplet)),
    collectArgs c args = .ok (vs, tss) → vs.length = args.length ∧ ArgsSpec c args tss
  | [], vs, tss, h => by
    simp only [collectArgs] at h
    injection h with h; injection h with h1 h2
    subst h1 h2
    exact ⟨rfl, AllArgs.nil⟩
  | a :: rest, vs, tss, h => by
    simp only [collectArgs, bind, Res.bind] at h
    cases hr : resolveValue c a with
    | ok x =>
      obtain ⟨v, ts, p⟩ := x
      simp only [hr] at h
      cases hc : collectArgs c rest with
      | ok y =>
        obtain ⟨vs', tss'⟩ := y
        simp only [hc, pure] at h
        injection h with h; injection h with h1 h2
        subst h1 h2
        obtain ⟨hl, hs⟩ := collectArgs_spec c rest vs' tss' hc
        refine ⟨by simp [hl], AllArgs.cons ?_ hs⟩
        intro hcov
        exact resolve_spec c a v ts p hcov hr
      | error e => simp [hc] at h
      | panic s => simp [hc] at h
    | error e => simp [hr] at h
    | panic s => simp [hr] at h

end AquaProps
