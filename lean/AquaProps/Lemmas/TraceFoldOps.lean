import AquaProps.Lemmas.TraceOpsLang
/-!
# Effects of the fold operations of the trace-handler model on the fold FSM (C10)
-/
set_option linter.unusedSimpArgs false

namespace Aqua.Trace
open Aqua Aqua.Data

def lookupFsm {β : Type} : List (Nat × β) → Nat → Option β
  | [], _ => none
  | (i, g) :: rest, id => if i = id then some g else lookupFsm rest id

theorem find_eq_lookup {β : Type} (m : List (Nat × β)) (id : Nat) :
    (m.find? (fun (i, _) => i == id)).map (·.2) = lookupFsm m id := by
  induction m with
  | nil => rfl
  | cons p rest ih =>
    obtain ⟨i, g⟩ := p
    by_cases h : i = id
    · rw [List.find?_cons_of_pos (by simp [h])]; simp [lookupFsm, h]
    · rw [List.find?_cons_of_neg (by simp [h]), ih]; simp [lookupFsm, h]

theorem lookup_map_set {β : Type} (m : List (Nat × β)) (id id' : Nat) (f : β) :
    lookupFsm (m.map fun x => if x.fst = id then (x.fst, f) else (x.fst, x.snd)) id' =
      if id' = id then (lookupFsm m id).map (fun _ => f) else lookupFsm m id' := by
  induction m with
  | nil => simp [lookupFsm]
  | cons p rest ih =>
    obtain ⟨i, g⟩ := p
    by_cases hi : i = id
    · by_cases h3 : i = id'
      · simp [lookupFsm, hi, ← h3]
      · have : ¬ id' = id := by omega
        simp [lookupFsm, hi, ih, this]
        have : ¬ id = id' := by omega
        simp [this]
    · by_cases h3 : i = id'
      · have : ¬ id' = id := by omega
        simp [lookupFsm, hi, h3, this]
      · simp [lookupFsm, hi, h3, ih]

theorem lookup_filter {β : Type} (m : List (Nat × β)) (id id' : Nat) :
    lookupFsm (m.filter (fun (i, _) => i != id)) id' = if id' = id then none else lookupFsm m id' := by
  induction m with
  | nil => simp [lookupFsm]
  | cons p rest ih =>
    obtain ⟨i, g⟩ := p
    by_cases hi : i = id
    · rw [List.filter_cons_of_neg (by simp [hi]), ih]
      by_cases h2 : id' = id
      · simp [h2]
      · have : ¬ i = id' := by omega
        simp [lookupFsm, h2, this]
    · rw [List.filter_cons_of_pos (by simp [hi])]
      by_cases h3 : i = id'
      · have : ¬ id' = id := by omega
        simp [lookupFsm, h3, this]
      · simp [lookupFsm, h3, ih]

/-- the fold FSM registered under `id` (`FSMKeeper::fold_mut`) -/
def TraceHandler.fsm (h : TraceHandler) (id : Nat) : Option FoldFSM := lookupFsm h.foldMap id

theorem foldMut_eq_ok {h : TraceHandler} {id : Nat} {f : FoldFSM} : h.foldMut id = .ok f ↔ h.fsm id = some f := by
  unfold TraceHandler.foldMut TraceHandler.fsm
  rw [← find_eq_lookup]
  cases h.foldMap.find? (fun (i, _) => i == id) with
  | none => simp
  | some p => obtain ⟨i, g⟩ := p; simp

theorem fsm_setFold (h : TraceHandler) (id id' : Nat) (f : FoldFSM) :
    (h.setFold id f).fsm id' = if id' = id then (h.fsm id).map (fun _ => f) else h.fsm id' := by
  have := lookup_map_set h.foldMap id id' f
  unfold TraceHandler.setFold TraceHandler.fsm
  simpa using this

/-! ## `FoldFSM` operations: what they do to the constructor queue -/

/-- the lore constructors of the running batch -/
def FoldFSM.ctors (f : FoldFSM) : List SubTraceLoreCtor := f.queue.map (·.ctor)

theorem fromFoldStart_eff {pf cf : ResolvedFold} {k k' : DataKeeper} {f : FoldFSM}
    (e : FoldFSM.fromFoldStart pf cf k = .ok (f, k')) :
    k'.resultTrace = k.resultTrace ++ [.par 0 0] ∧ f.inserterPos = k.resultTrace.length ∧ f.queue = [] ∧
      f.backTraversalPos = 0 ∧ f.backTraversalStarted = false ∧ f.resultLore = [] := by
  unfold FoldFSM.fromFoldStart at e
  simp only [Res.bind_eq_ok, Res.pure_eq_ok, Prod.mk.injEq] at e
  obtain ⟨_, _, _, _, rfl, rfl⟩ := e
  exact ⟨rfl, rfl, rfl, rfl, rfl, rfl⟩

theorem meetFoldStart_eff {h h' : TraceHandler} {id : Nat} (e : h.meetFoldStart id = .ok h') :
    ∃ f, h'.tr = h.tr ++ [.par 0 0] ∧ h'.parStack = h.parStack ∧
      (∀ id', h'.fsm id' = if id' = id then some f else h.fsm id') ∧
      f.inserterPos = h.tr.length ∧ f.queue = [] ∧ f.backTraversalPos = 0 ∧ f.backTraversalStarted = false ∧
      f.resultLore = [] := by
  unfold TraceHandler.meetFoldStart at e
  simp only [Res.bind_eq_ok, Res.pure_eq_ok] at e
  obtain ⟨⟨pf, cf, k1⟩, hk1, ⟨f, k2⟩, hk2, rfl⟩ := e
  obtain ⟨ht, hi, hq, hb, hs, hl⟩ := fromFoldStart_eff hk2
  have h1 := tryMergeNextStateAsFold_trace hk1
  refine ⟨f, ?_, rfl, ?_, ?_, hq, hb, hs, hl⟩
  · show k2.resultTrace = _
    rw [ht, h1]
  · intro id'
    unfold TraceHandler.fsm
    by_cases h2 : id' = id
    · subst h2; simp [lookupFsm]
    · have h3 : ¬ id = id' := by omega
      simp only [lookupFsm, h3, h2, if_false]
      have := lookup_filter h.foldMap id id'
      simp only [h2, if_false] at this
      exact this
  · rw [hi, h1]

theorem FoldFSM.meetIterationStart_eff {f f' : FoldFSM} {vp : Nat} {k k' : DataKeeper}
    (e : f.meetIterationStart vp k = .ok (f', k')) :
    k'.resultTrace = k.resultTrace ∧ f'.inserterPos = f.inserterPos ∧ f'.resultLore = f.resultLore ∧
      f'.ctors = f.ctors ++ [{ valuePos := vp, beforeStart := k.resultTrace.length }] ∧
      f'.backTraversalPos = f.backTraversalPos + 1 ∧ f'.backTraversalStarted = f.backTraversalStarted := by
  unfold FoldFSM.meetIterationStart at e
  simp only [Res.bind_eq_ok, Res.pure_eq_ok, Prod.mk.injEq] at e
  obtain ⟨k1, hk1, rfl, rfl⟩ := e
  have ht := applyFoldLore_trace hk1
  refine ⟨ht, ?_, ?_, ?_, ?_, ?_⟩
  case refine_3 =>
    simp only [FoldFSM.ctors, List.map_append, List.map_cons, List.map_nil, DataKeeper.resultTraceNextPos, ht]
  all_goals (first | rfl | (split <;> split <;> rfl))

theorem FoldFSM.current_eff {f : FoldFSM} {i : Nat} {d : LoreCtorDesc} (e : f.current = .ok (i, d)) :
    f.backTraversalPos = i + 1 ∧ f.queue[i]? = some d := by
  unfold FoldFSM.current at e
  split at e
  · simp at e
  · split at e
    · rename_i d' hd
      simp only [Res.ok.injEq, Prod.mk.injEq] at e
      obtain ⟨rfl, rfl⟩ := e
      exact ⟨by omega, hd⟩
    · simp at e

theorem FoldFSM.ctors_setCtor (f : FoldFSM) (i : Nat) (c : SubTraceLoreCtor) (hi : i < f.queue.length) :
    (f.setCtor i c).ctors = f.ctors.set i c := by
  unfold FoldFSM.setCtor FoldFSM.ctors
  simp only
  apply List.ext_getElem?
  intro j
  simp only [List.getElem?_map, List.getElem?_set, List.length_map]
  by_cases hj : i = j
  · subst hj
    simp [hi]
  · simp [hj]

theorem FoldFSM.meetIterationEnd_eff {f f' : FoldFSM} {k : DataKeeper} (e : f.meetIterationEnd k = .ok f') :
    ∃ i c, f.backTraversalPos = i + 1 ∧ f.ctors[i]? = some c ∧ f'.ctors = f.ctors.set i (c.beforeEnd' k) ∧
      f'.inserterPos = f.inserterPos ∧ f'.resultLore = f.resultLore ∧
      f'.backTraversalPos = f.backTraversalPos ∧ f'.backTraversalStarted = f.backTraversalStarted := by
  unfold FoldFSM.meetIterationEnd at e
  simp only [Res.bind_eq_ok, Res.pure_eq_ok] at e
  obtain ⟨⟨i, d⟩, hc, rfl⟩ := e
  obtain ⟨hb, hq⟩ := FoldFSM.current_eff hc
  have hi : i < f.queue.length := by
    rcases List.getElem?_eq_some_iff.mp hq with ⟨h, _⟩; exact h
  refine ⟨i, d.ctor, hb, ?_, FoldFSM.ctors_setCtor f i _ hi, rfl, rfl, rfl, rfl⟩
  simp [FoldFSM.ctors, hq]

theorem FoldFSM.setCtor_fields (f : FoldFSM) (i : Nat) (c : SubTraceLoreCtor) :
    (f.setCtor i c).inserterPos = f.inserterPos ∧ (f.setCtor i c).resultLore = f.resultLore ∧
      (f.setCtor i c).backTraversalPos = f.backTraversalPos ∧
      (f.setCtor i c).backTraversalStarted = f.backTraversalStarted ∧
      (f.setCtor i c).queue.length = f.queue.length := by
  simp [FoldFSM.setCtor]

/-- `meet_back_iterator`, first call of a batch: closes the before-part if `next` did not, opens the after-part -/
theorem FoldFSM.meetBackIterator_first_eff {f f' : FoldFSM} {k k' : DataKeeper}
    (hs : f.backTraversalStarted = false) (e : f.meetBackIterator k = .ok (f', k')) :
    ∃ i c, f.backTraversalPos = i + 1 ∧ f.ctors[i]? = some c ∧
      f'.ctors = f.ctors.set i ((c.maybeBeforeEnd k).afterStart' k) ∧
      k'.resultTrace = k.resultTrace ∧ f'.inserterPos = f.inserterPos ∧ f'.resultLore = f.resultLore ∧
      f'.backTraversalPos = f.backTraversalPos ∧ f'.backTraversalStarted = true := by
  unfold FoldFSM.meetBackIterator at e
  simp only [Res.bind_eq_ok, Res.pure_eq_ok] at e
  obtain ⟨⟨i, d⟩, hc, e⟩ := e
  obtain ⟨hb, hq⟩ := FoldFSM.current_eff hc
  have hi : i < f.queue.length := by
    rcases List.getElem?_eq_some_iff.mp hq with ⟨h, _⟩; exact h
  simp only [hs, Bool.not_false, if_true, Res.bind_eq_ok, Res.pure_eq_ok, Prod.mk.injEq] at e
  obtain ⟨k1, hk1, rfl, rfl⟩ := e
  refine ⟨i, d.ctor, hb, by simp [FoldFSM.ctors, hq], ?_, applyFoldLore_trace hk1, rfl, rfl, rfl, rfl⟩
  exact FoldFSM.ctors_setCtor f i _ hi

/-- `meet_back_iterator`, later calls: closes the after-part of the current iteration, steps back, opens the
after-part of the enclosing one -/
theorem FoldFSM.meetBackIterator_next_eff {f f' : FoldFSM} {k k' : DataKeeper}
    (hs : f.backTraversalStarted = true) (e : f.meetBackIterator k = .ok (f', k')) :
    ∃ j c c2, f.backTraversalPos = j + 2 ∧ f.ctors[j + 1]? = some c ∧ f.ctors[j]? = some c2 ∧
      f'.ctors = (f.ctors.set (j + 1) (c.afterEnd' k)).set j (c2.afterStart' k) ∧
      k'.resultTrace = k.resultTrace ∧ f'.inserterPos = f.inserterPos ∧ f'.resultLore = f.resultLore ∧
      f'.backTraversalPos = j + 1 ∧ f'.backTraversalStarted = true := by
  unfold FoldFSM.meetBackIterator at e
  simp only [Res.bind_eq_ok, Res.pure_eq_ok] at e
  obtain ⟨⟨i, d⟩, hc, e⟩ := e
  obtain ⟨hb, hq⟩ := FoldFSM.current_eff hc
  have hi : i < f.queue.length := by
    rcases List.getElem?_eq_some_iff.mp hq with ⟨h, _⟩; exact h
  simp only [hs, Bool.not_true, Bool.false_eq_true, if_false, Res.bind_eq_ok, Res.pure_eq_ok, Prod.mk.injEq] at e
  obtain ⟨pos, hpos, ⟨j, d2⟩, hc2, k1, hk1, rfl, rfl⟩ := e
  obtain ⟨hb2, hq2⟩ := FoldFSM.current_eff hc2
  simp only [subU32] at hpos
  split at hpos
  · simp at hpos
  · simp only [Res.ok.injEq] at hpos
    simp only [(FoldFSM.setCtor_fields f i _).2.2.1] at hpos
    simp only at hb2
    have hij : i = j + 1 := by omega
    subst hij
    have hq2' : f.queue[j]? = some d2 := by
      have : (f.setCtor (j + 1) (d.ctor.afterEnd' k)).queue[j]? = f.queue[j]? := by
        simp [FoldFSM.setCtor]
      rw [← this]; exact hq2
    have hj : j < f.queue.length := by omega
    have hlen := (FoldFSM.setCtor_fields f (j + 1) (d.ctor.afterEnd' k)).2.2.2.2
    refine ⟨j, d.ctor, d2.ctor, by omega, by simp [FoldFSM.ctors, hq], by simp [FoldFSM.ctors, hq2'], ?_,
      applyFoldLore_trace hk1, rfl, rfl, ?_, ?_⟩
    · have h1 := FoldFSM.ctors_setCtor ({ f.setCtor (j + 1) (d.ctor.afterEnd' k) with backTraversalPos := pos }) j
        (d2.ctor.afterStart' k) (by simpa [FoldFSM.setCtor] using hj)
      have h2 := FoldFSM.ctors_setCtor f (j + 1) (d.ctor.afterEnd' k) hi
      show FoldFSM.ctors (FoldFSM.setCtor { f.setCtor (j + 1) (d.ctor.afterEnd' k) with backTraversalPos := pos } j
        (d2.ctor.afterStart' k)) = _
      rw [h1]
      show List.set (FoldFSM.ctors (f.setCtor (j + 1) (d.ctor.afterEnd' k))) j _ = _
      rw [h2]
    · show (FoldFSM.setCtor { f.setCtor (j + 1) (d.ctor.afterEnd' k) with backTraversalPos := pos } j
        (d2.ctor.afterStart' k)).backTraversalPos = j + 1
      simp only [FoldFSM.setCtor]; omega
    · show (FoldFSM.setCtor { f.setCtor (j + 1) (d.ctor.afterEnd' k) with backTraversalPos := pos } j
        (d2.ctor.afterStart' k)).backTraversalStarted = true
      simp [FoldFSM.setCtor, hs]

theorem FoldFSM.meetGenerationEnd_eff {f f' : FoldFSM} {k : DataKeeper} (e : f.meetGenerationEnd k = .ok f') :
    ∃ lore, (f.ctors.map fun c => c.finish k).mapM SubTraceLoreCtor.intoSubtraceLore = .ok lore ∧
      f'.resultLore = f.resultLore ++ lore ∧ f'.ctors = [] ∧ f'.backTraversalPos = 0 ∧
      f'.backTraversalStarted = false ∧ f'.inserterPos = f.inserterPos := by
  unfold FoldFSM.meetGenerationEnd at e
  simp only [Res.bind_eq_ok, Res.pure_eq_ok] at e
  obtain ⟨lore, hl, rfl⟩ := e
  refine ⟨lore, ?_, rfl, rfl, rfl, rfl, rfl⟩
  have : (f.ctors.map fun c => c.finish k) = f.queue.map fun d => d.ctor.finish k := by
    simp [FoldFSM.ctors, List.map_map]
  rw [this]; exact hl

theorem FoldFSM.meetFoldEnd_eff {f : FoldFSM} {k k' : DataKeeper} (e : f.meetFoldEnd k = .ok k') :
    k'.resultTrace = setAt k.resultTrace f.inserterPos (.fold f.resultLore) := by
  unfold FoldFSM.meetFoldEnd at e
  rw [updateCtxStates_trace e]

/-! ## handler level -/

theorem fsm_setFold_of_some {h : TraceHandler} {id : Nat} {f0 : FoldFSM} (hf : h.fsm id = some f0) (f : FoldFSM)
    (id' : Nat) : (h.setFold id f).fsm id' = if id' = id then some f else h.fsm id' := by
  rw [fsm_setFold]; by_cases h2 : id' = id <;> simp [h2, hf]

theorem meetIterationStart_eff {h h' : TraceHandler} {id vp : Nat} (e : h.meetIterationStart id vp = .ok h') :
    ∃ f f', h.fsm id = some f ∧ f.meetIterationStart vp h.keeper = .ok (f', h'.keeper) ∧
      h'.parStack = h.parStack ∧ ∀ id', h'.fsm id' = if id' = id then some f' else h.fsm id' := by
  unfold TraceHandler.meetIterationStart at e
  simp only [Res.bind_eq_ok, Res.pure_eq_ok] at e
  obtain ⟨f, hf, ⟨f', k'⟩, hk, rfl⟩ := e
  have hf' := foldMut_eq_ok.mp hf
  refine ⟨f, f', hf', hk, rfl, ?_⟩
  intro id'
  exact fsm_setFold_of_some (h := { h with keeper := k' }) hf' f' id'

theorem meetIterationEnd_eff {h h' : TraceHandler} {id : Nat} (e : h.meetIterationEnd id = .ok h') :
    ∃ f f', h.fsm id = some f ∧ f.meetIterationEnd h.keeper = .ok f' ∧ h'.keeper = h.keeper ∧
      h'.parStack = h.parStack ∧ ∀ id', h'.fsm id' = if id' = id then some f' else h.fsm id' := by
  unfold TraceHandler.meetIterationEnd at e
  simp only [Res.bind_eq_ok, Res.pure_eq_ok] at e
  obtain ⟨f, hf, f', hk, rfl⟩ := e
  have hf' := foldMut_eq_ok.mp hf
  exact ⟨f, f', hf', hk, rfl, rfl, fsm_setFold_of_some hf' f'⟩

theorem meetBackIterator_eff {h h' : TraceHandler} {id : Nat} (e : h.meetBackIterator id = .ok h') :
    ∃ f f', h.fsm id = some f ∧ f.meetBackIterator h.keeper = .ok (f', h'.keeper) ∧
      h'.parStack = h.parStack ∧ ∀ id', h'.fsm id' = if id' = id then some f' else h.fsm id' := by
  unfold TraceHandler.meetBackIterator at e
  simp only [Res.bind_eq_ok, Res.pure_eq_ok] at e
  obtain ⟨f, hf, ⟨f', k'⟩, hk, rfl⟩ := e
  have hf' := foldMut_eq_ok.mp hf
  refine ⟨f, f', hf', hk, rfl, ?_⟩
  intro id'
  exact fsm_setFold_of_some (h := { h with keeper := k' }) hf' f' id'

theorem meetGenerationEnd_eff {h h' : TraceHandler} {id : Nat} (e : h.meetGenerationEnd id = .ok h') :
    ∃ f f', h.fsm id = some f ∧ f.meetGenerationEnd h.keeper = .ok f' ∧ h'.keeper = h.keeper ∧
      h'.parStack = h.parStack ∧ ∀ id', h'.fsm id' = if id' = id then some f' else h.fsm id' := by
  unfold TraceHandler.meetGenerationEnd at e
  simp only [Res.bind_eq_ok, Res.pure_eq_ok] at e
  obtain ⟨f, hf, f', hk, rfl⟩ := e
  have hf' := foldMut_eq_ok.mp hf
  exact ⟨f, f', hf', hk, rfl, rfl, fsm_setFold_of_some hf' f'⟩

theorem meetFoldEnd_eff {h h' : TraceHandler} {id : Nat} (e : h.meetFoldEnd id = .ok h') :
    ∃ f, h.fsm id = some f ∧ h'.tr = setAt h.tr f.inserterPos (.fold f.resultLore) ∧
      h'.parStack = h.parStack ∧ ∀ id', h'.fsm id' = if id' = id then none else h.fsm id' := by
  unfold TraceHandler.meetFoldEnd at e
  simp only [Res.bind_eq_ok, Res.pure_eq_ok] at e
  obtain ⟨f, hf, k', hk, rfl⟩ := e
  refine ⟨f, foldMut_eq_ok.mp hf, FoldFSM.meetFoldEnd_eff hk, rfl, ?_⟩
  intro id'
  exact lookup_filter h.foldMap id id'

theorem updateGeneration_eff {h h' : TraceHandler} {p g : Nat} (e : h.updateGeneration p g = .ok h') :
    h'.parStack = h.parStack ∧ h'.foldMap = h.foldMap ∧
      ((∃ gens, h.tr[p]? = some (.ap gens) ∧ h'.tr = setAt h.tr p (.ap [g])) ∨
       (∃ cid g0, h.tr[p]? = some (.call (.executed (.stream cid g0))) ∧
          h'.tr = setAt h.tr p (.call (.executed (.stream cid g))))) := by
  unfold TraceHandler.updateGeneration at e
  split at e
  · simp at e
  · rename_i gens hp
    simp only [Res.ok.injEq] at e; subst e
    exact ⟨rfl, rfl, .inl ⟨gens, hp, rfl⟩⟩
  · rename_i cid g0 hp
    simp only [Res.ok.injEq] at e; subst e
    exact ⟨rfl, rfl, .inr ⟨cid, g0, hp, rfl⟩⟩
  · simp at e

end Aqua.Trace
