import Aqua.Exec.Exec
/-!
Relational Hoare logic for the execution monad `M` (DESIGN.md §5.1): `Rel R m` says that whatever
`m` returns (value, error or panic) the final context is `R`-related to the initial one.
-/
namespace AquaProps
open Aqua Aqua.Exec Aqua.Air Aqua.Trace

/-- a preorder on contexts -/
structure Preorder' (R : Ctx → Ctx → Prop) : Prop where
  refl : ∀ c, R c c
  trans : ∀ {a b c}, R a b → R b c → R a c

def Rel (R : Ctx → Ctx → Prop) {α : Type} (m : M α) : Prop := ∀ c, R c (m c).2

variable {R : Ctx → Ctx → Prop} {α β : Type}

theorem rel_pure (hR : Preorder' R) (a : α) : Rel R (pure a : M α) := fun c => hR.refl c

theorem rel_bind (hR : Preorder' R) {m : M α} {f : α → M β} (hm : Rel R m) (hf : ∀ a, Rel R (f a)) :
    Rel R (m >>= f) := by
  intro c
  show R c ((M.bind m f) c).2
  unfold M.bind
  have h1 := hm c
  cases hmc : m c with
  | mk r c' =>
    rw [hmc] at h1
    cases r with
    | ok a => exact hR.trans h1 (hf a c')
    | error e => exact h1
    | panic s => exact h1

theorem rel_readER (hR : Preorder' R) (f : Ctx → ER α) : Rel R (readER f) := fun c => hR.refl c
theorem rel_readCtx (hR : Preorder' R) (f : Ctx → α) : Rel R (readCtx f) := fun c => hR.refl c
theorem rel_throwE (hR : Preorder' R) (e : ExecErr) : Rel R (throwE e : M α) := fun c => hR.refl c
theorem rel_panicM (hR : Preorder' R) (s : String) : Rel R (panicM s : M α) := fun c => hR.refl c
theorem rel_reraise (hR : Preorder' R) (r : Res ExecErr α) : Rel R (reraise r) := fun c => hR.refl c

theorem rel_modifyCtx {f : Ctx → Ctx} (h : ∀ c, R c (f c)) : Rel R (modifyCtx f) := fun c => h c

theorem rel_modifyER (hR : Preorder' R) {f : Ctx → ER Ctx} (h : ∀ c c', f c = .ok c' → R c c') : Rel R (modifyER f) := by
  intro c
  unfold modifyER
  cases hf : f c with
  | ok c' => exact h c c' hf
  | error e => exact hR.refl c
  | panic s => exact hR.refl c

theorem rel_stateER (hR : Preorder' R) {f : Ctx → ER (α × Ctx)} (h : ∀ c a c', f c = .ok (a, c') → R c c') : Rel R (stateER f) := by
  intro c
  unfold stateER
  cases hf : f c with
  | ok p => obtain ⟨a, c'⟩ := p; exact h c a c' hf
  | error e => exact hR.refl c
  | panic s => exact hR.refl c

theorem rel_tryM {m : M α} (hm : Rel R m) : Rel R (tryM m) := fun c => hm c

theorem rel_joinable (hR : Preorder' R) {m : M α} (hm : Rel R m)
    (hinc : ∀ c, R c { c with subgraphComplete := false }) : Rel R (joinable m) := by
  intro c
  unfold joinable
  have h1 := hm c
  cases hmc : m c with
  | mk r c' =>
    rw [hmc] at h1
    cases r with
    | ok a => exact h1
    | error e =>
      simp only
      split
      · exact hR.trans h1 (hinc c')
      · exact h1
    | panic s => exact h1

theorem rel_onError (hR : Preorder' R) {m : M α} {f : ExecErr → Ctx → Ctx} (hm : Rel R m) (hf : ∀ e c, R c (f e c)) :
    Rel R (onError m f) := by
  intro c
  unfold onError
  have h1 := hm c
  cases hmc : m c with
  | mk r c' =>
    rw [hmc] at h1
    cases r with
    | ok a => exact h1
    | error e => exact hR.trans h1 (hf e c')
    | panic s => exact h1

/-- trace-handler operations only replace the `th` field -/
theorem rel_liftTH (hR : Preorder' R) (i : Instr) (f : TraceHandler → TR (α × TraceHandler))
    (hth : ∀ c th, R c { c with th := th }) : Rel R (liftTH i f) := by
  unfold liftTH
  apply rel_stateER hR
  intro c a c' h
  cases hf : traceToExec (f c.th) i with
  | ok p =>
    obtain ⟨a', th⟩ := p
    simp [hf, Res.bind] at h
    obtain ⟨_, rfl⟩ := h
    exact hth c th
  | error e => simp [hf, Res.bind] at h
  | panic s => simp [hf, Res.bind] at h

theorem rel_liftTH' (hR : Preorder' R) (i : Instr) (f : TraceHandler → TR TraceHandler)
    (hth : ∀ c th, R c { c with th := th }) : Rel R (liftTH' i f) := by
  unfold liftTH'
  exact rel_liftTH hR i _ hth

end AquaProps
