import AquaProps.Lemmas.EnvInv
/-!
The stream store under the C17 invariant: every value of every generation of every stream instance is
justified; appending, cursor moves, `new` scopes and compaction keep it so; the slices handed to
stream folds and the snapshot taken by `canon` consist of stored values.
-/
namespace AquaProps
open Aqua Aqua.Exec Aqua.Air Aqua.Trace Aqua.Json Aqua.Data

def MatrixOK (P : TP) (m : ValuesMatrix) : Prop := ∀ g ∈ m.values, AllAgg P g

structure StreamOK (P : TP) (s : Stream) : Prop where
  prev : MatrixOK P s.prev
  cur : MatrixOK P s.cur
  new : MatrixOK P s.new

def DescsOK (P : TP) (ds : List StreamDesc) : Prop := ∀ d ∈ ds, StreamOK P d.stream

def StreamsOK (P : TP) (l : List (String × List StreamDesc)) : Prop := ∀ e ∈ l, DescsOK P e.2

theorem matrixOK_mono {P Q : TP} (h : ∀ t p, P t p → Q t p) {m : ValuesMatrix} (hm : MatrixOK P m) : MatrixOK Q m :=
  fun g hg => allAgg_mono h (hm g hg)

theorem streamOK_mono {P Q : TP} (h : ∀ t p, P t p → Q t p) {s : Stream} (hs : StreamOK P s) : StreamOK Q s :=
  ⟨matrixOK_mono h hs.prev, matrixOK_mono h hs.cur, matrixOK_mono h hs.new⟩

theorem streamsOK_mono {P Q : TP} (h : ∀ t p, P t p → Q t p) {l : List (String × List StreamDesc)} (hs : StreamsOK P l) : StreamsOK Q l :=
  fun e he d hd => streamOK_mono h (hs e he d hd)

theorem streamOK_empty (P : TP) : StreamOK P {} :=
  ⟨fun g hg => by simp at hg, fun g hg => by simp at hg, fun g hg => by simp at hg⟩

theorem mem_modify {β : Type} (f : β → β) : ∀ (l : List β) (i : Nat) (x : β), x ∈ l.modify i f → x ∈ l ∨ ∃ y ∈ l, x = f y
  | [], i, x, h => by simp at h
  | a :: l, 0, x, h => by
    simp only [List.modify_zero_cons, List.mem_cons] at h
    rcases h with h | h
    · exact Or.inr ⟨a, by simp, h⟩
    · exact Or.inl (by simp [h])
  | a :: l, i + 1, x, h => by
    simp only [List.modify_succ_cons, List.mem_cons] at h
    rcases h with h | h
    · exact Or.inl (by simp [h])
    · rcases mem_modify f l i x h with h1 | ⟨y, hy, h2⟩
      · exact Or.inl (by simp [h1])
      · exact Or.inr ⟨y, by simp [hy], h2⟩

theorem allAgg_append {P : TP} {a b : List ValueAggregate} (ha : AllAgg P a) (hb : AllAgg P b) : AllAgg P (a ++ b) := by
  intro v hv
  rcases List.mem_append.mp hv with h | h
  · exact ha v h
  · exact hb v h

theorem allAgg_single {P : TP} {v : ValueAggregate} (h : AggP P v) : AllAgg P [v] := by
  intro x hx; simp at hx; subst hx; exact h

theorem allAgg_nil (P : TP) : AllAgg P [] := by intro x hx; simp at hx

theorem matrixOK_addValueToGeneration {P : TP} {m m' : ValuesMatrix} {v : ValueAggregate} {g : Nat} (hm : MatrixOK P m) (hv : AggP P v)
    (h : m.addValueToGeneration v g = .ok m') : MatrixOK P m' := by
  unfold ValuesMatrix.addValueToGeneration at h
  split at h
  · cases h
  · injection h with h; subst h
    intro x hx
    simp only at hx
    have hbase : ∀ y, y ∈ (if g ≥ m.values.length then ValuesMatrix.padTo m.values (g + 1) else m.values) → AllAgg P y := by
      intro y hy
      split at hy
      · unfold ValuesMatrix.padTo at hy
        rcases List.mem_append.mp hy with h1 | h1
        · exact hm y h1
        · have := List.eq_of_mem_replicate h1
          subst this; exact allAgg_nil P
      · exact hm y hy
    rcases mem_modify _ _ _ _ hx with h1 | ⟨y, hy, h2⟩
    · exact hbase x h1
    · subst h2; exact allAgg_append (hbase y hy) (allAgg_single hv)

theorem streamOK_addToSource {P : TP} {s s' : Stream} {v : ValueAggregate} {g : Generation} (hs : StreamOK P s) (hv : AggP P v)
    (h : s.addToSource v g = .ok s') : StreamOK P s' := by
  cases g with
  | previous i =>
    simp only [Stream.addToSource, Res.bind] at h
    cases hm : s.prev.addValueToGeneration v i with
    | ok m => simp only [hm] at h; injection h with h; subst h; exact ⟨matrixOK_addValueToGeneration hs.prev hv hm, hs.cur, hs.new⟩
    | error e => simp [hm] at h
    | panic e => simp [hm] at h
  | current i =>
    simp only [Stream.addToSource, Res.bind] at h
    cases hm : s.cur.addValueToGeneration v i with
    | ok m => simp only [hm] at h; injection h with h; subst h; exact ⟨hs.prev, matrixOK_addValueToGeneration hs.cur hv hm, hs.new⟩
    | error e => simp [hm] at h
    | panic e => simp [hm] at h
  | new =>
    simp only [Stream.addToSource, Res.bind] at h
    cases hm : s.new.addToLastGeneration v with
    | ok m =>
      simp only [hm] at h; injection h with h; subst h
      exact ⟨hs.prev, hs.cur, matrixOK_addValueToGeneration hs.new hv (by unfold ValuesMatrix.addToLastGeneration at hm; exact hm)⟩
    | error e => simp [hm] at h
    | panic e => simp [hm] at h

theorem streamOK_addValue {P : TP} {s s' : Stream} {v : ValueAggregate} {g : Generation} (hs : StreamOK P s) (hv : AggP P v)
    (h : s.addValue v g = .ok s') : StreamOK P s' := by
  unfold Stream.addValue at h
  cases hm : s.addToSource v g with
  | ok s1 =>
    simp only [hm, Res.bind] at h
    split at h
    · simp [uncatchable] at h
    · injection h with h; subst h; exact streamOK_addToSource hs hv hm
  | error e => simp [hm, Res.bind] at h
  | panic e => simp [hm, Res.bind] at h

theorem matrix_all_ok {P : TP} {m : ValuesMatrix} (hm : MatrixOK P m) : AllAgg P m.all := by
  intro v hv
  unfold ValuesMatrix.all at hv
  obtain ⟨g, hg, hvg⟩ := List.mem_flatten.mp hv
  exact hm g hg v hvg

theorem stream_all_ok {P : TP} {s : Stream} (hs : StreamOK P s) : AllAgg P s.all := by
  unfold Stream.all
  exact allAgg_append (allAgg_append (matrix_all_ok hs.prev) (matrix_all_ok hs.cur)) (matrix_all_ok hs.new)

def SlicesOK (P : TP) (l : List (List ValueAggregate)) : Prop := ∀ g ∈ l, AllAgg P g

theorem slicesOK_mono {P Q : TP} (h : ∀ t p, P t p → Q t p) {l : List (List ValueAggregate)} (hs : SlicesOK P l) : SlicesOK Q l :=
  fun g hg => allAgg_mono h (hs g hg)

theorem matrix_slice_ok {P : TP} {m : ValuesMatrix} (k : Nat) (hm : MatrixOK P m) : SlicesOK P (m.sliceIter k) := by
  intro g hg
  unfold ValuesMatrix.sliceIter at hg
  exact hm g (List.mem_filter.mp (List.mem_of_mem_drop hg)).1

theorem stream_slice_ok {P : TP} {s : Stream} (c : StreamCursor) (hs : StreamOK P s) : SlicesOK P (s.sliceIter c) := by
  intro g hg
  unfold Stream.sliceIter at hg
  rcases List.mem_append.mp hg with h | h
  · rcases List.mem_append.mp h with h | h
    · exact matrix_slice_ok _ hs.prev g h
    · exact matrix_slice_ok _ hs.cur g h
  · exact matrix_slice_ok _ hs.new g h

theorem matrixOK_addNewEmpty {P : TP} {m : ValuesMatrix} (hm : MatrixOK P m) : MatrixOK P m.addNewEmptyGeneration := by
  intro g hg
  simp only [ValuesMatrix.addNewEmptyGeneration] at hg
  rcases List.mem_append.mp hg with h | h
  · exact hm g h
  · simp at h; subst h; exact allAgg_nil P

theorem matrixOK_removeLast {P : TP} {m : ValuesMatrix} (hm : MatrixOK P m) : MatrixOK P m.removeLastGeneration :=
  fun g hg => hm g (List.dropLast_subset _ hg)

theorem matrixOK_removeEmpty {P : TP} {m : ValuesMatrix} (hm : MatrixOK P m) : MatrixOK P m.removeEmptyGenerations :=
  fun g hg => hm g (List.mem_filter.mp hg).1

theorem cursorState_ok {P : TP} {s : Stream} (c : StreamCursor) (hs : StreamOK P s) {l : List (List ValueAggregate)}
    (h : cursorState c s = some l) : SlicesOK P l := by
  unfold cursorState at h
  simp only at h
  split at h
  · cases h
  · injection h with h; subst h; exact stream_slice_ok c hs

theorem metFoldStart_ok {P : TP} {s : Stream} (hs : StreamOK P s) :
    StreamOK P (metFoldStart s).2.2 ∧ ∀ l, (metFoldStart s).1 = some l → SlicesOK P l := by
  unfold metFoldStart
  simp only
  cases hc : cursorState {} s with
  | none => exact ⟨hs, fun l hl => by simp at hl⟩
  | some l0 =>
    refine ⟨⟨hs.prev, hs.cur, matrixOK_addNewEmpty hs.new⟩, fun l hl => ?_⟩
    simp at hl; subst hl
    exact cursorState_ok _ hs hc

theorem metIterationEnd_ok {P : TP} {s : Stream} (c : StreamCursor) (hs : StreamOK P s) :
    StreamOK P (metIterationEnd c s).2.2 ∧ ∀ l, (metIterationEnd c s).1 = some l → SlicesOK P l := by
  unfold metIterationEnd
  simp only
  constructor
  · split
    · exact ⟨hs.prev, hs.cur, matrixOK_addNewEmpty (matrixOK_removeLast hs.new)⟩
    · exact ⟨hs.prev, hs.cur, matrixOK_addNewEmpty hs.new⟩
  · intro l hl
    exact cursorState_ok c hs hl

/-! ### the stream store of a context -/

theorem getStream_ok {P : TP} {c : Ctx} {name : String} {pos : Nat} {s : Stream} (hs : StreamsOK P c.streams)
    (h : c.getStream name pos = some s) : StreamOK P s := by
  unfold Ctx.getStream at h
  cases hl : lookup c.streams name with
  | none => simp [hl] at h
  | some ds =>
    simp only [hl, Option.bind_eq_bind, Option.bind] at h
    cases hf : findClosest ds pos with
    | none => simp [hf] at h
    | some i =>
      simp only [hf] at h
      cases hd : ds[i]? with
      | none => simp [hd] at h
      | some d =>
        simp [hd] at h
        subst h
        exact hs _ (lookup_mem hl) d (List.mem_of_getElem? hd)

theorem descsOK_modify {P : TP} {ds : List StreamDesc} (i : Nat) {s : Stream} (hd : DescsOK P ds) (hs : StreamOK P s) :
    DescsOK P (ds.modify i fun d => { d with stream := s }) := by
  intro d hdm
  rcases mem_modify _ _ _ _ hdm with h | ⟨y, _, h⟩
  · exact hd d h
  · subst h; exact hs

theorem streamsOK_upsert {P : TP} {l : List (String × List StreamDesc)} (name : String) {ds : List StreamDesc}
    (hl : StreamsOK P l) (hd : DescsOK P ds) : StreamsOK P (upsert l name ds) := by
  intro e he
  rcases mem_upsert he with h | h
  · exact hl e h
  · subst h; exact hd

theorem setStream_ok {P : TP} {c : Ctx} (name : String) (pos : Nat) {s : Stream} (hs : StreamsOK P c.streams) (h : StreamOK P s) :
    StreamsOK P (c.setStream name pos s).streams := by
  unfold Ctx.setStream
  cases hl : lookup c.streams name with
  | none => exact hs
  | some ds =>
    simp only
    cases hf : findClosest ds pos with
    | none => exact hs
    | some i => exact streamsOK_upsert name hs (descsOK_modify i (hs _ (lookup_mem hl)) h)

theorem addStreamValue_ok {P : TP} {c c' : Ctx} {v : ValueAggregate} {name : String} {g : Generation} {pos : Nat}
    (hs : StreamsOK P c.streams) (hv : AggP P v) (h : c.addStreamValue v name g pos = .ok c') : StreamsOK P c'.streams := by
  unfold Ctx.addStreamValue at h
  cases hg : c.getStream name pos with
  | some s =>
    simp only [hg, bind, Res.bind] at h
    cases ha : s.addValue v g with
    | ok s' =>
      simp only [ha, pure] at h
      injection h with h; subst h
      exact setStream_ok name pos hs (streamOK_addValue (getStream_ok hs hg) hv ha)
    | error e => simp [ha] at h
    | panic e => simp [ha] at h
  | none =>
    simp only [hg, bind, Res.bind] at h
    cases ha : ({} : Stream).addValue v g with
    | ok s' =>
      simp only [ha, pure] at h
      injection h with h; subst h
      refine streamsOK_upsert name hs ?_
      intro d hd
      rcases List.mem_cons.mp hd with hd | hd
      · subst hd
        exact streamOK_addValue (streamOK_empty P) hv ha
      · cases hl : lookup c.streams name with
        | none => simp [hl] at hd
        | some ds => simp only [hl, Option.getD_some] at hd; exact hs _ (lookup_mem hl) d hd
    | error e => simp [ha] at h
    | panic e => simp [ha] at h

theorem scopeStart_ok {P : TP} {c : Ctx} (name : String) (l r : Nat) (hs : StreamsOK P c.streams) :
    StreamsOK P (c.streamScopeStart name l r).streams := by
  unfold Ctx.streamScopeStart
  cases hl : lookup c.streams name with
  | some ds =>
    simp only
    refine streamsOK_upsert name hs ?_
    intro d hd
    rcases List.mem_append.mp hd with h | h
    · exact hs _ (lookup_mem hl) d h
    · simp at h; subst h; exact streamOK_empty P
  | none =>
    simp only
    intro e he
    rcases List.mem_append.mp he with h | h
    · exact hs e h
    · simp at h; subst h
      intro d hd
      simp at hd; subst hd; exact streamOK_empty P

theorem scopeEnd_ok {P : TP} {c c' : Ctx} {name : String} (hs : StreamsOK P c.streams) (h : c.streamScopeEnd name = .ok c') :
    StreamsOK P c'.streams := by
  unfold Ctx.streamScopeEnd at h
  cases hl : lookup c.streams name with
  | none => simp [hl] at h
  | some ds =>
    simp only [hl] at h
    cases hg : ds.getLast? with
    | none => simp [hg] at h
    | some last =>
      simp only [hg] at h
      cases hc : last.stream.compactify c.th with
      | ok r =>
        obtain ⟨s1, th1⟩ := r
        simp only [hc] at h
        injection h with h; subst h
        simp only
        split
        · intro e he
          exact hs e (List.mem_filter.mp he).1
        · refine streamsOK_upsert name hs ?_
          intro d hd
          exact hs _ (lookup_mem hl) d (List.dropLast_subset _ hd)
      | error e => simp [hc] at h
      | panic e => simp [hc] at h

end AquaProps
