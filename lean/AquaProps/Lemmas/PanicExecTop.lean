import AquaProps.Lemmas.PanicExec
/-!
C01: the instruction interpreter.  First the helpers of `Aqua/Exec/Exec.lean`, then ONE LEMMA PER
INSTRUCTION ARM of `execInner` (each takes the induction hypothesis for the smaller fuel), then the short
case split `pin_execInner` and the induction `exec_panic_sites`.  Adding an instruction arm to the model =
adding its lemma and one line to the case split.
-/
set_option linter.unusedSectionVars false
set_option linter.unusedVariables false

namespace AquaProps.Panic
open Aqua Aqua.Exec Aqua.Air Aqua.Trace Aqua.Json Aqua.Data

variable {L : List String} [Sites L]

theorem checkErrorObject_in (v : JVal) : ResIn L (checkErrorObject v) := by
  unfold checkErrorObject; res_leafs

theorem errObjER_in {α} {r : Res ErrorObjectErr α} (h : ResIn L r) : ResIn L (errObjER r) := by
  unfold errObjER; exact resIn_mapErr _ h

theorem pin_failWithErrorObject (v : JVal) (t : Option Tetraplet) (p : Provenance) : PIn' L (failWithErrorObject v t p) := by
  unfold failWithErrorObject
  exact pin_bind' (pin_modifyCtx _) fun _ => pin_throwE _

theorem failOperand_in (c : Ctx) (arg : FailArg) : ResIn L (failOperand c arg) := by
  unfold failOperand
  split
  · apply resIn_bind' (resolveValue_in _ _); intro r
    apply resIn_bind' (errObjER_in (checkErrorObject_in _)); intro _
    exact resIn_pure _
  · apply resIn_bind' (resolveValue_in _ _); intro r
    apply resIn_bind' (errObjER_in (checkErrorObject_in _)); intro _
    exact resIn_pure _
  · exact resIn_ok _
  · apply resIn_bind' (resolveValue_in _ _); intro r
    apply resIn_bind' (errObjER_in (checkErrorObject_in _)); intro _
    exact resIn_pure _
  · dsimp only
    apply resIn_bind' (errObjER_in (checkErrorObject_in _)); intro _
    exact resIn_pure _
  · dsimp only
    apply resIn_bind' (errObjER_in (checkErrorObject_in _)); intro _
    exact resIn_pure _

theorem pin_execFailError (v : JVal) (t : Option Tetraplet) (p : Provenance) : PIn' L (execFailError v t p) := by
  unfold execFailError
  apply pin_bind' (pin_readCtx _); intro orig
  apply pin_bind (pin_tryM (pin_failWithErrorObject _ _ _)); intro r hr
  apply pin_bind' (pin_modifyCtx _); intro _
  split
  · exact pin_throwE _
  · exact pin_reraise hr

theorem pin_execFail (arg : FailArg) : PIn' L (execFail arg) := by
  unfold execFail
  apply pin_bind' (pin_readER fun c => failOperand_in c arg); intro r
  split
  · exact pin_execFailError _ _ _
  · exact pin_failWithErrorObject _ _ _

theorem applyToArg_in (c : Ctx) (arg : Value) : ResIn L (applyToArg c arg) := by
  unfold applyToArg
  dsimp only
  split <;> first
    | res_leaf
    | (apply resIn_bind (resolveValue_in _ _); intro r hr
       obtain ⟨v, ts, p⟩ := r
       dsimp only
       split
       · exact resIn_pure _
       · -- `tetraplets.remove(0)`: the resolver returns a tetraplet for these arguments
         exact absurd rfl (resolveValue_tetraplets _ _ _ _ _
           (by first | exact .inl ⟨_, rfl⟩ | exact .inr (.inl ⟨_, rfl⟩) | exact .inr (.inr (.inl ⟨_, _, rfl⟩))
                     | exact .inr (.inr (.inr (.inl ⟨_, _, rfl⟩))) | exact .inr (.inr (.inr (.inr ⟨_, _, rfl⟩)))) hr))
    | (apply resIn_bind' (sc_getValue _ _); intro r
       split
       · exact resIn_pure _
       · apply resIn_bind' (it_peekExpect _); intro x; exact resIn_pure _)
    | (apply resIn_bind' (sc_getCanonStream _ _); intro cs; exact resIn_pure _)
    | (apply resIn_bind' (sc_getCanonMap _ _); intro cm; exact resIn_pure _)

theorem applyToArgStream_in (c : Ctx) (arg : Value) : ResIn L (applyToArgStream c arg) := by
  unfold applyToArgStream
  split
  · exact resIn_rbind (applyToArg_in _ _) fun _ => resIn_ok _
  · exact applyToArg_in _ _

theorem withScalars_in {c : Ctx} {g : Scalars → ER Scalars} (h : ResIn L (g c.scalars)) : ResIn L (withScalars c g) := by
  unfold withScalars; exact resIn_rbind h fun _ => resIn_ok _

theorem withScalarsRet_in {α} {c : Ctx} {g : Scalars → ER (α × Scalars)} (h : ResIn L (g c.scalars)) : ResIn L (withScalarsRet c g) := by
  unfold withScalarsRet; exact resIn_rbind h fun _ => resIn_ok _

theorem pin_setScalar (n : String) (v : ValueAggregate) : PIn' L (setScalar n v) := by
  unfold setScalar
  exact pin_modifyER fun c => withScalars_in (sc_setScalarValue _ _ _)

theorem pin_execAp (arg : Value) (out : CallOutput) : PIn' L (execAp arg out) := by
  unfold execAp
  split
  · apply pin_bind' (pin_joinable (pin_readER fun c => applyToArg_in c arg)); intro r
    split
    · exact pin_pure _ trivial
    · exact pin_setScalar _ _
  · exact pin_throwE _

theorem pin_execApStream (i : Instr) (arg : Value) (name : String) (pos : Nat) : PIn' L (execApStream i arg name pos) := by
  unfold execApStream
  apply pin_bind' (pin_joinable (pin_readER fun c => applyToArgStream_in c arg)); intro r
  split
  · exact pin_pure _ trivial
  · apply pin_bind' (pin_liftTH i fun th => meetApStart_in th); intro met
    apply pin_bind' (pin_modifyER fun c => addStreamValue_in _ _ _ _ _); intro _
    exact pin_modifyCtx _

theorem resolveKeyIfNeeded_in (c : Ctx) (key : Value) (m : String) : ResIn L (resolveKeyIfNeeded c key m) := by
  unfold resolveKeyIfNeeded
  split <;> first
    | res_leaf
    | (apply resIn_bind' (resolveValue_in _ _); intro r; res_leafs)

theorem addStreamMapValue_in (c : Ctx) (k : Lens.StreamMapKey) (v : ValueAggregate) (n : String) (g : Generation) (pos : Nat) :
    ResIn L (c.addStreamMapValue k v n g pos) := by
  unfold Ctx.addStreamMapValue; exact addStreamValue_in _ _ _ _ _

theorem pin_execApMap (i : Instr) (key val : Value) (name : String) (pos : Nat) : PIn' L (execApMap i key val name pos) := by
  unfold execApMap
  apply pin_bind' (pin_joinable (pin_readER fun c => applyToArgStream_in c val)); intro r
  split
  · exact pin_pure _ trivial
  · apply pin_bind' (pin_joinable (pin_readER fun c => resolveKeyIfNeeded_in c key name)); intro k
    split
    · exact pin_pure _ trivial
    · apply pin_bind' (pin_liftTH i fun th => meetApStart_in th); intro met
      apply pin_bind' (pin_modifyER fun c => addStreamMapValue_in _ _ _ _ _ _); intro _
      exact pin_modifyCtx _

theorem getValueFromObjAgg_in (kv : ValueAggregate) : ResIn L (getValueFromObjAgg kv) := by
  unfold getValueFromObjAgg
  apply resIn_rbind _ fun _ => resIn_ok _
  unfold Lens.getValueFromObj; res_leafs

theorem fromCanonStreamLoopAgg_in (t : Tetraplet) : ∀ (vals : List ValueAggregate) (m : List (Lens.StreamMapKey × CanonStream)),
    ResIn L (fromCanonStreamLoopAgg t m vals)
  | [], m => by unfold fromCanonStreamLoopAgg; exact resIn_ok _
  | kv :: rest, m => by
    unfold fromCanonStreamLoopAgg
    split
    · res_leaf
    · split
      · exact fromCanonStreamLoopAgg_in t rest _
      · exact resIn_error _
      · rename_i s h; exact resIn_of_panic_eq (getValueFromObjAgg_in _) h

theorem fromCanonStreamAgg_in (cs : CanonStream) : ResIn L (CanonStreamMapAgg.fromCanonStream cs) := by
  unfold CanonStreamMapAgg.fromCanonStream
  split
  · exact resIn_ok _
  · exact resIn_error _
  · rename_i s h; exact resIn_of_panic_eq (fromCanonStreamLoopAgg_in _ _ _) h

theorem canonBind_in (target : CanonTarget) (cs : CanonStream) (cid : Cid) (c : Ctx) : ResIn L (canonBind target cs cid c) := by
  unfold canonBind
  split
  · exact sc_setCanonValue _ _ _
  · apply resIn_bind' (fromCanonStreamAgg_in _); intro m
    exact sc_setCanonMapValue _ _ _
  · split
    · res_leaf
    · exact sc_setScalarValue _ _ _

theorem pin_canonFinish (n : CanonTarget) (cs : CanonStream) (cid : Cid) (reg : String) : PIn' L (canonFinish n cs cid reg) := by
  unfold canonFinish
  apply pin_modifyER; intro c
  apply resIn_bind' (canonBind_in _ _ _ _); intro sc
  exact resIn_pure _

theorem pin_createCanonFirstTime (env : Env) [RawOk env L] (n : CanonTarget) (st : String) (pos : Nat) (peer : String) : PIn' L (createCanonFirstTime env n st pos peer) := by
  unfold createCanonFirstTime
  apply pin_bind' (pin_stateER fun c => by dsimp only; exact resIn_ok _); intro r
  exact pin_canonFinish _ _ _ _

theorem resIn_mapM_L {α β : Type} {f : α → ER β} (hf : ∀ a, ResIn L (f a)) (l : List α) : ResIn L (l.mapM f) := resIn_mapM hf l

theorem canonRead_in (env : Env) [RawOk env L] (peer : Value) (cid : Cid) (c : Ctx) : ResIn L (canonRead env peer cid c) := by
  unfold canonRead
  apply resIn_bind' (resolveToString_in _ _); intro peerId
  dsimp only
  split
  · res_leaf
  · apply resIn_bind' (getTetrapletByCid_in _ _); intro t
    apply resIn_bind' (verifyCanon_in _ _); intro _
    apply resIn_bind' (resIn_mapM_L (getCanonValueByCid_in env c.cid) _); intro values
    exact resIn_pure _

theorem pin_canonExecuted (env : Env) [RawOk env L] (n : CanonTarget) (peer : Value) (cid : Cid) : PIn' L (canonExecuted env n peer cid) := by
  unfold canonExecuted
  apply pin_bind' (pin_readER fun c => canonRead_in env peer cid c)
  intro cs; exact pin_canonFinish _ _ _ _

theorem pin_execCanon (env : Env) [RawOk env L] (i : Instr) (peer : Value) (st : String) (pos : Nat) (n : CanonTarget) : PIn' L (execCanon env i peer st pos n) := by
  unfold execCanon
  apply pin_bind' (pin_liftTH i fun th => meetCanonStart_in th); intro met
  split
  · exact pin_canonExecuted _ _ _ _
  · apply pin_bind' (pin_readER fun c => resolveToString_in c peer); intro peerId
    apply pin_bind' (pin_readCtx _); intro me
    split
    · exact pin_modifyCtx _
    · exact pin_createCanonFirstTime _ _ _ _ _
  · apply pin_bind' (pin_joinable (pin_readER fun c => resolveToString_in c peer)); intro r
    split
    · exact pin_pure _ trivial
    · apply pin_bind' (pin_readCtx _); intro me
      split
      · exact pin_modifyCtx _
      · exact pin_createCanonFirstTime _ _ _ _ _

theorem areMatchableEq_in (c : Ctx) (a b : Value) : ResIn L (areMatchableEq c a b) := by
  unfold areMatchableEq
  apply resIn_bind' (resolveValue_in _ _); intro l
  apply resIn_bind' (resolveValue_in _ _); intro r
  exact resIn_pure _

theorem createScalarIterable_in (c : Ctx) (it : Value) : ResIn L (createScalarIterable c it) := by
  unfold createScalarIterable
  have fromValue : ∀ (v : ValueAggregate) (name : String), ResIn L
      (match v.result with
        | .arr a => if a.isEmpty then (.ok none : ER (Option IterableValue)) else .ok (some (.resolvedCall v 0 a.length))
        | other => catchable (.foldIteratesOverNonArray other name)) := by
    intro v name; res_leafs
  dsimp only
  split
  · apply resIn_bind' (sc_getValue _ _); intro r
    split
    · exact fromValue _ _
    · apply resIn_bind' (it_peekExpect _); intro x
      exact fromValue _ _
  · apply resIn_bind' (sc_getValue _ _); intro r
    apply resIn_bind' (scalarRef_parts _); intro p
    apply resIn_bind' (selectByLambdaFromScalar_in _ _ _); intro sel
    res_leafs
  · exact resIn_ok _
  · apply resIn_bind' (sc_getCanonStream _ _); intro cs
    res_leafs
  · apply resIn_bind' (sc_getCanonMap _ _); intro cm
    res_leafs
  · apply resIn_bind' (sc_getCanonMap _ _); intro cm
    split
    · exact resIn_pure _
    · apply resIn_bind'
      · apply lensOfLambda_in; intro lam hlam
        exact lens_selectByLambdaFromCanonMap_in _ _ _ lam hlam
      · intro sel; res_leafs
  · res_leaf

theorem foldEnter_in (it : String) (fs : FoldState) (c : Ctx) : ResIn L (foldEnter it fs c) := by
  unfold foldEnter; exact withScalars_in (sc_setIterableValue _ _ _)

theorem foldLeave_in (it : String) (c : Ctx) : ResIn L (foldLeave it c) := by
  unfold foldLeave; exact withScalars_in (sc_meetFoldEnd _)

theorem nextAdvance_in (it : String) (c : Ctx) : ResIn L (nextAdvance it c) := by
  unfold nextAdvance
  apply withScalarsRet_in
  apply resIn_bind' (sc_getIterable _ _); intro fs
  dsimp only
  res_leafs

theorem nextAfter_in (c : Ctx) : ResIn L (nextAfter c) := by
  unfold nextAfter; exact withScalars_in (sc_meetNextAfter _)

theorem nextBack_in (it : String) (c : Ctx) : ResIn L (nextBack it c) := by
  unfold nextBack
  apply withScalars_in
  apply resIn_bind' (sc_getIterable _ _); intro fs
  exact resIn_pure _

theorem newLeave_in (n : String) (c : Ctx) : ResIn L (newLeave n c) := by
  unfold newLeave
  apply withScalarsRet_in
  exact resIn_ok _

theorem newLeaveCanon_in (n : String) (c : Ctx) : ResIn L (newLeaveCanon n c) := by
  unfold newLeaveCanon
  apply withScalarsRet_in
  exact resIn_ok _

theorem newLeaveCanonMap_in (n : String) (c : Ctx) : ResIn L (newLeaveCanonMap n c) := by
  unfold newLeaveCanonMap
  apply withScalarsRet_in
  exact resIn_ok _

theorem pin_throwIfNotCatchable {r : Res ExecErr Unit} (h : ResIn L r) : PIn' L (throwIfNotCatchable r) := by
  unfold throwIfNotCatchable
  split
  · exact pin_pure _ trivial
  · exact pin_pure _ trivial
  · exact pin_reraise h

theorem pin_maybeTH (i : Instr) (fs : FoldState) (f : Nat → TraceHandler → TR TraceHandler) (h : ∀ id th, ResIn L (f id th)) :
    PIn' L (maybeTH i fs f) := by
  unfold maybeTH
  split
  · exact pin_liftTH' i fun th => h _ th
  · exact pin_pure _ trivial

theorem pin_nextMarkBackIteration (it : String) : PIn' L (nextMarkBackIteration it) := by
  unfold nextMarkBackIteration
  apply pin_modifyER; intro c
  apply resIn_rbind (sc_getIterable _ _); intro fs
  res_leafs

theorem pin_foldStreamGet (n : String) (pos : Nat) : PIn' L (foldStreamGet n pos) := by
  unfold foldStreamGet
  apply pin_readER; intro c
  split
  · exact resIn_ok _
  · exact resIn_panic (by site)

/-! ## the arms of `execInner`; `ih` is the statement for `exec` at the smaller fuel -/

section arms
variable (env : Env) [RawOk env L] (fuel : Nat) (ih : ∀ i, PIn' L (exec env fuel i))
include ih

theorem pin_execSubgraph (par sub : Instr) (t : SubgraphType) : PIn' L (execSubgraph env fuel par sub t) := by
  unfold execSubgraph
  apply pin_bind' (pin_modifyCtx _); intro _
  apply pin_bind (pin_tryM (ih sub)); intro res hres
  split
  · apply pin_bind' (pin_liftTH' par fun th => meetParSubgraphEnd_in th t); intro _
    apply pin_bind' (pin_readCtx _); intro _
    exact pin_pure _ trivial
  · apply pin_bind' pin_makeSubgraphIncomplete; intro _
    apply pin_bind' (pin_liftTH' par fun th => meetParSubgraphEnd_in th t); intro _
    apply pin_bind' (pin_readCtx _); intro _
    exact pin_pure _ trivial
  · exact pin_bind' pin_makeSubgraphIncomplete fun _ => pin_throwE _
  · rename_i s
    exact pin_panicM (hres s rfl)

theorem arm_seq (l r : Instr) : PIn' L (execInner env fuel (.seq l r)) := by
  unfold execInner
  apply pin_bind' (pin_modifyCtx _); intro _
  apply pin_bind' (ih l); intro _
  apply pin_bind' (pin_readCtx _); intro complete
  split
  · exact ih r
  · exact pin_pure _ trivial

theorem arm_xor (l r : Instr) : PIn' L (execInner env fuel (.xor l r)) := by
  unfold execInner
  apply pin_bind' (pin_modifyCtx _); intro _
  apply pin_bind (pin_tryM (ih l)); intro res hres
  split
  · apply pin_bind' (pin_modifyCtx _); intro _
    apply pin_bind (pin_tryM (ih r)); intro right hright
    apply pin_bind' (pin_modifyCtx _); intro _
    exact pin_reraise hright
  · exact pin_reraise hres

theorem arm_par (l r : Instr) : PIn' L (execInner env fuel (.par l r)) := by
  unfold execInner
  apply pin_bind' (pin_liftTH' _ fun th => meetParStart_in th); intro _
  apply pin_bind' (pin_execSubgraph env fuel ih _ _ _); intro left
  apply pin_bind' (pin_execSubgraph env fuel ih _ _ _); intro right
  apply pin_bind' (pin_modifyCtx _); intro _
  split
  · exact pin_modifyCtx _
  · exact pin_modifyCtx _
  · exact pin_throwE _

theorem arm_match (a b : Value) (body : Instr) : PIn' L (execInner env fuel (.match_ a b body)) := by
  unfold execInner
  apply pin_bind' (pin_joinable (pin_readER fun c => areMatchableEq_in c a b)); intro r
  split
  · exact pin_pure _ trivial
  · exact ih _
  · exact pin_throwE _

theorem arm_mismatch (a b : Value) (body : Instr) : PIn' L (execInner env fuel (.mismatch a b body)) := by
  unfold execInner
  apply pin_bind' (pin_joinable (pin_readER fun c => areMatchableEq_in c a b)); intro r
  split
  · exact pin_pure _ trivial
  · exact ih _
  · exact pin_throwE _

theorem arm_foldScalar (iterable : Value) (iterator : String) (body : Instr) (last : Option Instr) :
    PIn' L (execInner env fuel (.foldScalar iterable iterator body last)) := by
  unfold execInner
  apply pin_bind' (pin_joinable (pin_readER fun c => createScalarIterable_in c iterable)); intro r
  split
  · exact pin_pure _ trivial
  · exact pin_pure _ trivial
  · apply pin_bind' (pin_modifyER fun c => foldEnter_in _ _ c); intro _
    apply pin_bind (pin_tryM (ih body)); intro res hres
    apply pin_bind' (pin_modifyER fun c => foldLeave_in _ c); intro _
    exact pin_reraise hres

theorem arm_next (iterator : String) : PIn' L (execInner env fuel (.next iterator)) := by
  unfold execInner
  apply pin_bind' (pin_readER fun c => sc_getIterable _ _); intro fs0
  apply pin_bind' (pin_maybeTH _ _ _ fun id th => meetIterationEnd_in (by site) (by site) th id); intro _
  apply pin_bind' (pin_stateER fun c => nextAdvance_in iterator c); intro r
  split
  · apply pin_bind' (pin_maybeTH _ _ _ fun id th => meetBackIterator_in (by site) (by site) (by site) th id); intro _
    apply pin_bind' (pin_readER fun c => sc_getIterable _ _); intro fs
    split
    · exact pin_bind' (pin_modifyCtx _) fun _ => ih _
    · exact pin_nextMarkBackIteration _
  · rename_i fs
    apply pin_bind' (pin_readER fun _ => it_peekExpect _); intro item
    apply pin_bind' (pin_maybeTH _ _ _ fun id th => meetIterationStart_in th id _); intro _
    apply pin_bind (pin_tryM (ih _)); intro res hres
    apply pin_bind' (pin_modifyER fun c => nextAfter_in c); intro _
    split
    · apply pin_bind' (pin_modifyER fun c => nextBack_in _ c); intro _
      exact pin_maybeTH _ _ _ fun id th => meetBackIterator_in (by site) (by site) (by site) th id
    · exact pin_reraise hres

theorem arm_new (arg : NewArg) (body : Instr) (a b : Nat) : PIn' L (execInner env fuel (.new arg body a b)) := by
  unfold execInner
  split
  · -- scalar
    apply pin_bind' (pin_modifyCtx _); intro _
    apply pin_bind (pin_tryM (ih body)); intro res hres
    apply pin_bind' (pin_stateER fun c => newLeave_in _ c); intro ok
    split
    · split
      · exact pin_pure _ trivial
      · exact pin_bind' (pin_readCtx _) fun _ => pin_throwE _
    · exact pin_reraise hres
  · -- stream
    apply pin_bind' (pin_modifyCtx _); intro _
    apply pin_bind (pin_tryM (ih body)); intro res hres
    apply pin_bind (pin_tryM (pin_modifyER fun c => streamScopeEnd_in c _)); intro ep hep
    split
    · exact pin_pure _ trivial
    · exact pin_reraise hep
    · exact pin_reraise hres
  · -- stream map (same store)
    apply pin_bind' (pin_modifyCtx _); intro _
    apply pin_bind (pin_tryM (ih body)); intro res hres
    apply pin_bind (pin_tryM (pin_modifyER fun c => streamScopeEnd_in c _)); intro ep hep
    split
    · exact pin_pure _ trivial
    · exact pin_reraise hep
    · exact pin_reraise hres
  · -- canon
    apply pin_bind' (pin_modifyCtx _); intro _
    apply pin_bind (pin_tryM (ih body)); intro res hres
    apply pin_bind' (pin_stateER fun c => newLeaveCanon_in _ c); intro ok
    split
    · split
      · exact pin_pure _ trivial
      · exact pin_bind' (pin_readCtx _) fun _ => pin_throwE _
    · exact pin_reraise hres
  · -- canon map
    apply pin_bind' (pin_modifyCtx _); intro _
    apply pin_bind (pin_tryM (ih body)); intro res hres
    apply pin_bind' (pin_stateER fun c => newLeaveCanonMap_in _ c); intro ok
    split
    · split
      · exact pin_pure _ trivial
      · exact pin_bind' (pin_readCtx _) fun _ => pin_throwE _
    · exact pin_reraise hres

theorem pin_execFoldIterations (i : Instr) (iterator : String) (body : Instr) (last : Option Instr) (foldId : Nat) :
    ∀ (its : List (List ValueAggregate)) (acc : Bool), PIn' L (execFoldIterations env fuel i iterator body last foldId its acc)
  | [], acc => by unfold execFoldIterations; exact pin_pure _ trivial
  | vals :: rest, acc => by
    unfold execFoldIterations
    split
    · exact pin_execFoldIterations i iterator body last foldId rest acc
    · apply pin_bind' (pin_liftTH' i fun th => meetIterationStart_in th _ _); intro _
      apply pin_bind' (pin_modifyER fun c => foldEnter_in _ _ c); intro _
      apply pin_bind (pin_tryM (ih body)); intro res hres
      apply pin_bind' (pin_modifyER fun c => foldLeave_in _ c); intro _
      apply pin_bind' (pin_throwIfNotCatchable hres); intro _
      apply pin_bind' (pin_liftTH' i fun th => meetGenerationEnd_in (by site) (by site) th _); intro _
      apply pin_bind' (pin_readCtx _); intro complete
      exact pin_execFoldIterations i iterator body last foldId rest _

theorem pin_execFoldStreamLoop (i : Instr) (stream : String) (streamPos : Nat) (iterator : String) (body : Instr) (last : Option Instr) (foldId : Nat) :
    ∀ (n : Nat) (st : Option (List (List ValueAggregate))) (cur : StreamCursor) (acc : Bool),
      PIn' L (execFoldStreamLoop env fuel n i stream streamPos iterator body last foldId st cur acc)
  | n, none, cur, acc => by unfold execFoldStreamLoop; exact pin_pure _ trivial
  | 0, some l, cur, acc => by unfold execFoldStreamLoop; exact pin_throwE _
  | n + 1, some l, cur, acc => by
    unfold execFoldStreamLoop
    apply pin_bind' (pin_execFoldIterations env fuel ih i iterator body last foldId l acc); intro acc'
    apply pin_bind' (pin_foldStreamGet _ _); intro s
    dsimp only
    apply pin_bind' (pin_modifyCtx _); intro _
    exact pin_execFoldStreamLoop i stream streamPos iterator body last foldId n _ _ _

theorem arm_foldStream (stream : String) (streamPos : Nat) (iterator : String) (body : Instr) (last : Option Instr) (sl : Nat) :
    PIn' L (execInner env fuel (.foldStream stream streamPos iterator body last sl)) := by
  unfold execInner
  apply pin_bind' (pin_readCtx _); intro ex
  split
  · exact pin_makeSubgraphIncomplete
  · apply pin_bind' (pin_stateER fun c => resIn_ok _); intro foldId
    apply pin_bind' (pin_liftTH' _ fun th => meetFoldStart_in (by site) th _); intro _
    apply pin_bind' (pin_foldStreamGet _ _); intro s
    dsimp only
    apply pin_bind' (pin_modifyCtx _); intro _
    apply pin_bind' (pin_execFoldStreamLoop env fuel ih _ _ _ _ _ _ _ _ _ _ _); intro complete
    apply pin_bind' (pin_modifyCtx _); intro _
    exact pin_liftTH' _ fun th => meetFoldEnd_in th _

theorem arm_foldMap (stream : String) (streamPos : Nat) (iterator : String) (body : Instr) (last : Option Instr) (sl : Nat) :
    PIn' L (execInner env fuel (.foldMap stream streamPos iterator body last sl)) := by
  unfold execInner
  apply pin_bind' (pin_readCtx _); intro ex
  split
  · exact pin_makeSubgraphIncomplete
  · apply pin_bind' (pin_stateER fun c => resIn_ok _); intro foldId
    apply pin_bind' (pin_liftTH' _ fun th => meetFoldStart_in (by site) th _); intro _
    apply pin_bind' (pin_foldStreamGet _ _); intro s
    dsimp only
    apply pin_bind' (pin_modifyCtx _); intro _
    apply pin_bind' (pin_execFoldStreamLoop env fuel ih _ _ _ _ _ _ _ _ _ _ _); intro complete
    apply pin_bind' (pin_modifyCtx _); intro _
    exact pin_liftTH' _ fun th => meetFoldEnd_in th _

omit ih in
theorem arm_canon (peer : Value) (st : String) (pos : Nat) (n : String) : PIn' L (execInner env fuel (.canon peer st pos n)) := by
  unfold execInner; exact pin_execCanon _ _ _ _ _ _

omit ih in
theorem arm_canonMap (peer : Value) (st : String) (pos : Nat) (n : String) : PIn' L (execInner env fuel (.canonMap peer st pos n)) := by
  unfold execInner; exact pin_execCanon _ _ _ _ _ _

omit ih in
theorem arm_canonMapScalar (peer : Value) (st : String) (pos : Nat) (n : String) : PIn' L (execInner env fuel (.canonMapScalar peer st pos n)) := by
  unfold execInner; exact pin_execCanon _ _ _ _ _ _

omit ih in
theorem arm_apMap (key val : Value) (name : String) (pos : Nat) : PIn' L (execInner env fuel (.apMap key val name pos)) := by
  unfold execInner; exact pin_execApMap _ _ _ _ _

omit ih in
theorem arm_ap (arg : Value) (out : CallOutput) : PIn' L (execInner env fuel (.ap arg out)) := by
  unfold execInner
  split
  · exact pin_execApStream _ _ _ _
  · exact pin_execAp _ _

omit ih in
theorem arm_fail (arg : FailArg) : PIn' L (execInner env fuel (.fail arg)) := by
  unfold execInner; exact pin_execFail _

/-- the case split over the instruction arms (every instruction of the AST has an arm) -/
theorem pin_execInner (i : Instr) : PIn' L (execInner env fuel i) := by
  cases i with
  | call p s f args out => unfold execInner; exact pin_pure _ trivial
  | null => unfold execInner; exact pin_pure _ trivial
  | never => unfold execInner; exact pin_makeSubgraphIncomplete
  | seq l r => exact arm_seq env fuel ih l r
  | xor l r => exact arm_xor env fuel ih l r
  | par l r => exact arm_par env fuel ih l r
  | match_ a b body => exact arm_match env fuel ih a b body
  | mismatch a b body => exact arm_mismatch env fuel ih a b body
  | ap arg out => exact arm_ap env fuel arg out
  | fail arg => exact arm_fail env fuel arg
  | foldScalar it n body last => exact arm_foldScalar env fuel ih it n body last
  | next n => exact arm_next env fuel ih n
  | new arg body a b => exact arm_new env fuel ih arg body a b
  | canon peer st pos n => exact arm_canon env fuel peer st pos n
  | foldStream st pos it body last sl => exact arm_foldStream env fuel ih st pos it body last sl
  | apMap key val name pos => exact arm_apMap env fuel key val name pos
  | canonMap peer st pos n => exact arm_canonMap env fuel peer st pos n
  | canonMapScalar peer st pos n => exact arm_canonMapScalar env fuel peer st pos n
  | foldMap st pos it body last sl => exact arm_foldMap env fuel ih st pos it body last sl

end arms

/-- **every panic of the executor model is at one of the listed sites** — for every fuel, instruction and context -/
theorem exec_panic_sites (env : Env) [RawOk env L] : ∀ (fuel : Nat) (i : Instr), PIn' L (exec env fuel i)
  | 0, i => by unfold exec; exact pin_throwE _
  | fuel + 1, i => by
    unfold exec
    split
    · exact pin_execCall _ _ _ _ _ _ _
    · exact pin_onError _ (pin_execInner env fuel (exec_panic_sites env fuel) i)

end AquaProps.Panic
