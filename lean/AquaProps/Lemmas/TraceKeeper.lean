import Aqua.Trace.Handler
import Aqua.Trace.WF
/-!
# Frame lemmas for the trace-handler model (C10)

Every merger / slider operation of `Aqua.Trace.Handler` leaves `DataKeeper.resultTrace` alone; the result trace is
touched only by `pushState` (append), by the two `StateInserter` users (`ParFSM`, `FoldFSM`: append a placeholder,
later `setAt` the reserved position) and by `updateGeneration`.
-/
set_option linter.unusedSimpArgs false

namespace Aqua.Res
variable {ε ε' α β : Type}
theorem bind_eq_ok {x : Res ε α} {f : α → Res ε β} {b : β} :
    (x >>= f) = .ok b ↔ ∃ a, x = .ok a ∧ f a = .ok b := by
  cases x <;> simp [bind, Res.bind]
theorem bind_eq_ok' {x : Res ε α} {f : α → Res ε β} {b : β} :
    (x.bind f) = .ok b ↔ ∃ a, x = .ok a ∧ f a = .ok b := by
  cases x <;> simp [Res.bind]
theorem pure_eq_ok {a b : α} : (pure a : Res ε α) = .ok b ↔ a = b := by
  simp [pure]
theorem mapErr_eq_ok {x : Res ε α} {f : ε → ε'} {a : α} : x.mapErr f = .ok a ↔ x = .ok a := by
  cases x <;> simp [Res.mapErr]
end Aqua.Res

namespace Aqua.Trace
open Aqua Aqua.Data

theorem nextStates_trace (k : DataKeeper) : (nextStates k).2.2.resultTrace = k.resultTrace := by
  simp [nextStates]

theorem preparePositionsMapping_trace {s : PreparationScheme} {k k' : DataKeeper}
    (h : preparePositionsMapping s k = .ok k') : k'.resultTrace = k.resultTrace := by
  unfold preparePositionsMapping at h
  cases s <;> simp only [Res.bind_eq_ok, Res.pure_eq_ok] at h
  · obtain ⟨_, _, rfl⟩ := h; rfl
  · obtain ⟨_, _, rfl⟩ := h; rfl
  · obtain ⟨_, _, _, _, rfl⟩ := h; rfl

theorem tryMergeNextStateAsCall_trace {k k' : DataKeeper} {r} (h : tryMergeNextStateAsCall k = .ok (r, k')) :
    k'.resultTrace = k.resultTrace := by
  unfold tryMergeNextStateAsCall at h
  have := nextStates_trace k
  revert h this
  generalize nextStates k = ns
  obtain ⟨p, c, k1⟩ := ns
  intro h ht
  simp only at h ht
  unfold prepareCallResult at h
  split at h
  all_goals (try split at h)
  all_goals simp only [Res.bind_eq_ok, Res.pure_eq_ok, reduceCtorEq, Res.ok.injEq, Prod.mk.injEq] at h
  · obtain ⟨a, ha, _, rfl⟩ := h; rw [preparePositionsMapping_trace ha, ht]
  · obtain ⟨a, ha, _, rfl⟩ := h; rw [preparePositionsMapping_trace ha, ht]
  · obtain ⟨a, ha, _, rfl⟩ := h; rw [preparePositionsMapping_trace ha, ht]
  · obtain ⟨_, rfl⟩ := h; exact ht

theorem tryMergeNextStateAsAp_trace {k k' : DataKeeper} {r} (h : tryMergeNextStateAsAp k = .ok (r, k')) :
    k'.resultTrace = k.resultTrace := by
  unfold tryMergeNextStateAsAp at h
  have := nextStates_trace k
  revert h this
  generalize nextStates k = ns
  obtain ⟨p, c, k1⟩ := ns
  intro h ht
  simp only at h ht
  unfold prepareApMergeResult at h
  split at h
  all_goals simp only [Res.bind_eq_ok, Res.pure_eq_ok, reduceCtorEq, Res.ok.injEq, Prod.mk.injEq] at h
  · obtain ⟨a, ha, h⟩ := h
    split at h <;> simp only [Res.pure_eq_ok, Res.ok.injEq, Prod.mk.injEq, reduceCtorEq] at h
    obtain ⟨_, rfl⟩ := h; rw [preparePositionsMapping_trace ha, ht]
  · obtain ⟨a, ha, h⟩ := h
    split at h <;> simp only [Res.pure_eq_ok, Res.ok.injEq, Prod.mk.injEq, reduceCtorEq] at h
    obtain ⟨_, rfl⟩ := h; rw [preparePositionsMapping_trace ha, ht]
  · obtain ⟨a, ha, h⟩ := h
    split at h <;> simp only [Res.pure_eq_ok, Res.ok.injEq, Prod.mk.injEq, reduceCtorEq] at h
    obtain ⟨_, rfl⟩ := h; rw [preparePositionsMapping_trace ha, ht]
  · obtain ⟨_, rfl⟩ := h; exact ht

theorem tryMergeNextStateAsCanon_trace {k k' : DataKeeper} {r} (h : tryMergeNextStateAsCanon k = .ok (r, k')) :
    k'.resultTrace = k.resultTrace := by
  unfold tryMergeNextStateAsCanon at h
  have := nextStates_trace k
  revert h this
  generalize nextStates k = ns
  obtain ⟨p, c, k1⟩ := ns
  intro h ht
  simp only at h ht
  split at h
  all_goals (try split at h)
  all_goals simp only [reduceCtorEq, Res.ok.injEq, Prod.mk.injEq] at h
  all_goals (obtain ⟨_, rfl⟩ := h; exact ht)

theorem tryMergeNextStateAsPar_trace {k k' : DataKeeper} {p c} (h : tryMergeNextStateAsPar k = .ok (p, c, k')) :
    k'.resultTrace = k.resultTrace := by
  unfold tryMergeNextStateAsPar at h
  have := nextStates_trace k
  revert h this
  generalize nextStates k = ns
  obtain ⟨p, c, k1⟩ := ns
  intro h ht
  simp only at h ht
  split at h
  all_goals simp only [reduceCtorEq, Res.ok.injEq, Prod.mk.injEq] at h
  all_goals (obtain ⟨_, _, rfl⟩ := h; exact ht)

theorem tryMergeNextStateAsFold_trace {k k' : DataKeeper} {p c} (h : tryMergeNextStateAsFold k = .ok (p, c, k')) :
    k'.resultTrace = k.resultTrace := by
  unfold tryMergeNextStateAsFold at h
  have := nextStates_trace k
  revert h this
  generalize nextStates k = ns
  obtain ⟨p, c, k1⟩ := ns
  intro h ht
  simp only at h ht
  split at h
  all_goals simp only [Res.bind_eq_ok, Res.pure_eq_ok, reduceCtorEq, Res.ok.injEq, Prod.mk.injEq] at h
  · obtain ⟨_, _, _, _, _, _, rfl⟩ := h; exact ht
  · obtain ⟨_, _, _, _, rfl⟩ := h; exact ht
  · obtain ⟨_, _, _, _, rfl⟩ := h; exact ht
  · obtain ⟨_, _, rfl⟩ := h; exact ht

theorem updateCtxStates_trace {p : CtxStatesPair} {k k' : DataKeeper} (h : updateCtxStates p k = .ok k') :
    k'.resultTrace = k.resultTrace := by
  unfold updateCtxStates at h
  simp only [Res.bind_eq_ok, Res.pure_eq_ok] at h
  obtain ⟨_, _, _, _, rfl⟩ := h; rfl

theorem parPrepareSliders_trace {f : ParFSM} {t : SubgraphType} {k k' : DataKeeper}
    (h : parPrepareSliders f t k = .ok k') : k'.resultTrace = k.resultTrace := by
  unfold parPrepareSliders at h
  cases t <;> simp only [Res.bind_eq_ok, Res.pure_eq_ok] at h
  all_goals (obtain ⟨_, _, _, _, rfl⟩ := h; rfl)

theorem applyFoldLore_trace {k k' : DataKeeper} {pl cl w} (h : applyFoldLore k pl cl w = .ok k') :
    k'.resultTrace = k.resultTrace := by
  unfold applyFoldLore at h
  simp only [Res.bind_eq_ok, Res.pure_eq_ok] at h
  obtain ⟨_, _, _, _, rfl⟩ := h; rfl

end Aqua.Trace
