import AquaProps.Lemmas.BeautifierText
/-! Tree-level lemmas for C28: the block reader on the beautifier's layout. -/
namespace AquaProps.Lemmas.BeautifierTree
open Aqua.Air Aqua.Air.Beautifier Aqua.Air.Unbeautify AquaProps.Lemmas.BeautifierText

abbrev Rec := Nat → List Line → Option (List Sk × List Line)

def Ext (r1 r2 : Rec) : Prop := ∀ d ls v, r1 d ls = some v → r2 d ls = some v

theorem childrenOf_mono (r1 r2 : Rec) (h : Ext r1 r2) (d : Nat) (xs : List Line) (w) :
    childrenOf r1 d xs = some w → childrenOf r2 d xs = some w := by
  intro hw
  cases xs with
  | nil => simp [childrenOf] at hw
  | cons c cs =>
    simp only [childrenOf] at hw ⊢
    split
    · rename_i hc; simp only [hc, if_true] at hw; exact h _ _ _ hw
    · rename_i hc; simp [hc] at hw

theorem readStep_mono (r1 r2 : Rec) (h : Ext r1 r2) : Ext (readStep r1) (readStep r2) := by
  intro d ls v hv
  cases ls with
  | nil => simpa [readStep] using hv
  | cons l ls =>
    simp only [readStep] at hv ⊢
    split
    · simpa [*] using hv
    · rename_i h1
      simp only [h1, if_false] at hv
      split
      · rename_i h2; simp [h2] at hv
      · rename_i h2
        simp only [h2, if_false] at hv
        have hch := childrenOf_mono r1 r2 h d
        revert hv
        cases classify l.text <;> simp only [Option.map_eq_some_iff, Option.bind_eq_some_iff, Prod.exists] <;>
          intro hv
        · obtain ⟨a, b, h1, c, h2, a2, b2, h3, a3, b3, h4, h5⟩ := hv
          exact ⟨a, b, hch _ _ h1, c, h2, a2, b2, hch _ _ h3, a3, b3, h _ _ _ h4, h5⟩
        · obtain ⟨a, b, h1, c, h2, a2, b2, h3, a3, b3, h4, h5⟩ := hv
          exact ⟨a, b, hch _ _ h1, c, h2, a2, b2, hch _ _ h3, a3, b3, h _ _ _ h4, h5⟩
        · simp at hv
        · obtain ⟨a, b, h1, h2⟩ := hv
          exact ⟨a, b, h _ _ _ h1, h2⟩
        · obtain ⟨hd, h0, a, b, h1, h2⟩ := hv
          refine ⟨hd, h0, a, b, hch _ _ h1, ?_⟩
          revert h2
          split
          · simp only [Option.map_eq_some_iff, Option.bind_eq_some_iff, Prod.exists]
            rintro ⟨a2, b2, h3, a3, b3, h4, h5⟩
            exact ⟨a2, b2, hch _ _ h3, a3, b3, h _ _ _ h4, h5⟩
          · simp only [Option.map_eq_some_iff, Prod.exists]
            rintro ⟨a3, b3, h4, h5⟩
            exact ⟨a3, b3, h _ _ _ h4, h5⟩
        · obtain ⟨p, s, fn, args, h0, a, b, h1, h2⟩ := hv
          exact ⟨p, s, fn, args, h0, a, b, h _ _ _ h1, h2⟩
        · obtain ⟨p, s, fn, args, h0, a, b, h1, h2⟩ := hv
          exact ⟨p, s, fn, args, h0, a, b, h _ _ _ h1, h2⟩
        · simp at hv

theorem readItems_mono : ∀ f F, f ≤ F → Ext (readItems f) (readItems F) := by
  intro f
  induction f with
  | zero => intro F _ d ls v hv; simp [readItems] at hv
  | succ f ih =>
    intro F hF
    cases F with
    | zero => omega
    | succ F =>
      exact readStep_mono _ _ (ih F (by omega))

/-- the unread lines start at an indentation ≤ `d` (or there are none) -/
def Stops (d : Nat) (rest : List Line) : Prop := rest = [] ∨ ∃ l tl, rest = l :: tl ∧ l.indent ≤ d

theorem read_some_stops (f d rest v) (h : readItems f d rest = some v) : Stops d rest := by
  cases f with
  | zero => simp [readItems] at h
  | succ f =>
    cases rest with
    | nil => exact Or.inl rfl
    | cons l tl =>
      refine Or.inr ⟨l, tl, rfl, ?_⟩
      simp only [readItems, readStep] at h
      by_cases h1 : l.indent < d
      · omega
      · by_cases h2 : d < l.indent
        · simp [h1, h2] at h
        · omega

theorem read_stop (d' : Nat) (rest : List Line) (h : rest = [] ∨ ∃ l tl, rest = l :: tl ∧ l.indent < d') (f : Nat) :
    readItems (f + 1) d' rest = some ([], rest) := by
  rcases h with rfl | ⟨l, tl, rfl, hl⟩
  · simp [readItems, readStep]
  · simp [readItems, readStep, hl]

theorem separator_none_of_read (f d rest v) (sep : Text) (hsep : classify sep = .sep)
    (h : readItems f d rest = some v) : separatorAt d sep rest = none := by
  cases rest with
  | nil => rfl
  | cons l tl =>
    simp only [separatorAt]
    split
    · rename_i hc
      exfalso
      cases f with
      | zero => simp [readItems] at h
      | succ f =>
        simp only [readItems, readStep] at h
        have h1 : ¬ l.indent < d := by omega
        have h2 : ¬ d < l.indent := by omega
        simp [h1, h2, hc.2, hsep] at h
    · rfl

/-- `body` (lines of a nested block at indentation `d'`) reads as `sk` in front of anything -/
def ReadsAs (d' : Nat) (body : List Line) (sk : List Sk) : Prop :=
  (∃ t tl, body = ⟨d', t⟩ :: tl) ∧
  ∀ rest f items r, readItems f d' rest = some (items, r) →
    ∀ F, f + body.length ≤ F → readItems F d' (body ++ rest) = some (sk ++ items, r)

theorem children_read (d s : Nat) (hs : 0 < s) (body : List Line) (sk : List Sk) (hb : ReadsAs (d + s) body sk)
    (rest : List Line) (hstop : Stops d rest) (F : Nat) (hF : 1 + body.length ≤ F) :
    childrenOf (readItems F) d (body ++ rest) = some (sk, rest) := by
  obtain ⟨⟨t, tl, rfl⟩, hread⟩ := hb
  have h0 : readItems (0 + 1) (d + s) rest = some ([], rest) := by
    apply read_stop
    rcases hstop with rfl | ⟨l, tl', rfl, hl⟩
    · exact Or.inl rfl
    · exact Or.inr ⟨l, tl', rfl, by omega⟩
  have := hread rest 1 [] rest h0 F hF
  simp only [List.cons_append, childrenOf]
  simp only [List.cons_append, List.append_nil] at this
  simp [this]
  omega

theorem read_line_unfold (F d : Nat) (t : Text) (rest : List Line) :
    readItems (F + 1) d (⟨d, t⟩ :: rest) =
      (match classify t with
      | .simple => (readItems F d rest).map fun (items, rest) => (.instr t :: items, rest)
      | .call =>
        (readCallRest t).bind fun (p, s, fn, args) =>
        (readItems F d rest).map fun (items, rest) => (.call none p s fn args :: items, rest)
      | .callOut =>
        (readCallRest (afterFirstWord (afterFirstWord t))).bind fun (p, s, fn, args) =>
        (readItems F d rest).map fun (items, rest) => (.call (some (firstWord t)) p s fn args :: items, rest)
      | .par =>
        (childrenOf (readItems F) d rest).bind fun (a, rest) =>
        (separatorAt d "|".toList rest).bind fun rest =>
        (childrenOf (readItems F) d rest).bind fun (b, rest) =>
        (readItems F d rest).map fun (items, rest) => (.par a b :: items, rest)
      | .xor =>
        (childrenOf (readItems F) d rest).bind fun (a, rest) =>
        (separatorAt d "catch:".toList rest).bind fun rest =>
        (childrenOf (readItems F) d rest).bind fun (b, rest) =>
        (readItems F d rest).map fun (items, rest) => (.xor a b :: items, rest)
      | .block =>
        (stripColon t).bind fun head =>
        (childrenOf (readItems F) d rest).bind fun (body, rest) =>
          match separatorAt d "last:".toList rest with
          | some rest' =>
            (childrenOf (readItems F) d rest').bind fun (last, rest'') =>
            (readItems F d rest'').map fun (items, r) => (.block head body true last :: items, r)
          | none => (readItems F d rest).map fun (items, r) => (.block head body false [] :: items, r)
      | .sep | .unknown => none) := by
  simp only [readItems, readStep, Nat.lt_irrefl, if_false]
  rfl

theorem fuel_pos (f d rest v) (h : readItems f d rest = some v) : 1 ≤ f := by
  cases f with
  | zero => simp [readItems] at h
  | succ f => omega

theorem read_simple_line (t : Text) (hc : classify t = .simple) (d : Nat) (rest : List Line) (f items r)
    (h : readItems f d rest = some (items, r)) (F : Nat) (hF : f + 1 ≤ F) :
    readItems F d (⟨d, t⟩ :: rest) = some (.instr t :: items, r) := by
  obtain ⟨F', rfl⟩ : ∃ F', F = F' + 1 := ⟨F - 1, by omega⟩
  rw [read_line_unfold, hc]
  simp only [readItems_mono f F' (by omega) _ _ _ h, Option.map_some]

theorem read_call_line (p s fn : Text) (args : List Text)
    (hp : tokWF p = true) (hs : tokWF s = true) (hf : tokWF fn = true) (ha : ∀ a ∈ args, tokWF a = true)
    (d : Nat) (rest : List Line) (f items r)
    (h : readItems f d rest = some (items, r)) (F : Nat) (hF : f + 1 ≤ F) :
    readItems F d (⟨d, callCore p s fn args⟩ :: rest) = some (.call none p s fn args :: items, r) := by
  obtain ⟨F', rfl⟩ : ∃ F', F = F' + 1 := ⟨F - 1, by omega⟩
  have hc : classify (callCore p s fn args) = .call := classify_call _
  rw [read_line_unfold, hc]
  simp only [readCallRest_callCore p s fn args hp hs hf ha, Option.bind_some,
    readItems_mono f F' (by omega) _ _ _ h, Option.map_some]

theorem read_callOut_line (n p s fn : Text) (args : List Text) (hn : outWF n = true)
    (hp : tokWF p = true) (hs : tokWF s = true) (hf : tokWF fn = true) (ha : ∀ a ∈ args, tokWF a = true)
    (d : Nat) (rest : List Line) (f items r)
    (h : readItems f d rest = some (items, r)) (F : Nat) (hF : f + 1 ≤ F) :
    readItems F d (⟨d, n ++ ' ' :: '<' :: '-' :: ' ' :: callCore p s fn args⟩ :: rest) =
      some (.call (some n) p s fn args :: items, r) := by
  obtain ⟨F', rfl⟩ : ∃ F', F = F' + 1 := ⟨F - 1, by omega⟩
  obtain ⟨_, hsp, _⟩ := outWF_cases n hn
  rw [read_line_unfold, classify_callOut n _ hn]
  have h1 : afterFirstWord (afterFirstWord (n ++ ' ' :: '<' :: '-' :: ' ' :: callCore p s fn args)) = callCore p s fn args := by
    rw [afterFirstWord_append_space _ _ hsp]
    exact afterFirstWord_append_space ['<', '-'] _ (by decide)
  simp only [h1, firstWord_append_space _ _ hsp, readCallRest_callCore p s fn args hp hs hf ha, Option.bind_some,
    readItems_mono f F' (by omega) _ _ _ h, Option.map_some]

theorem read_block (head : Text) (hc : classify (head ++ [':']) = .block) (d s : Nat) (hs : 0 < s)
    (body : List Line) (sk : List Sk) (hb : ReadsAs (d + s) body sk)
    (rest : List Line) (f items r) (h : readItems f d rest = some (items, r)) (F : Nat) (hF : f + 1 + body.length ≤ F) :
    readItems F d (⟨d, head ++ [':']⟩ :: (body ++ rest)) = some (.block head sk false [] :: items, r) := by
  obtain ⟨F', rfl⟩ : ∃ F', F = F' + 1 := ⟨F - 1, by omega⟩
  have hf1 := fuel_pos _ _ _ _ h
  rw [read_line_unfold, hc]
  simp only [stripColon_concat, Option.bind_some,
    children_read d s hs body sk hb rest (read_some_stops _ _ _ _ h) F' (by omega),
    separator_none_of_read f d rest _ "last:".toList (by decide) h,
    readItems_mono f F' (by omega) _ _ _ h, Option.map_some]

theorem read_block_last (head : Text) (hc : classify (head ++ [':']) = .block) (d s : Nat) (hs : 0 < s)
    (body : List Line) (sk : List Sk) (hb : ReadsAs (d + s) body sk)
    (last : List Line) (skl : List Sk) (hl : ReadsAs (d + s) last skl)
    (rest : List Line) (f items r) (h : readItems f d rest = some (items, r)) (F : Nat)
    (hF : f + 2 + body.length + last.length ≤ F) :
    readItems F d (⟨d, head ++ [':']⟩ :: (body ++ (⟨d, "last:".toList⟩ :: (last ++ rest)))) =
      some (.block head sk true skl :: items, r) := by
  obtain ⟨F', rfl⟩ : ∃ F', F = F' + 1 := ⟨F - 1, by omega⟩
  have hf1 := fuel_pos _ _ _ _ h
  rw [read_line_unfold, hc]
  have hst : Stops d (⟨d, "last:".toList⟩ :: (last ++ rest)) := Or.inr ⟨_, _, rfl, Nat.le_refl _⟩
  simp only [stripColon_concat, Option.bind_some,
    children_read d s hs body sk hb _ hst F' (by omega), separatorAt, and_self, if_true,
    children_read d s hs last skl hl rest (read_some_stops _ _ _ _ h) F' (by omega),
    readItems_mono f F' (by omega) _ _ _ h, Option.map_some]

theorem read_par (d s : Nat) (hs : 0 < s)
    (l : List Line) (skl : List Sk) (hl : ReadsAs (d + s) l skl)
    (r' : List Line) (skr : List Sk) (hr : ReadsAs (d + s) r' skr)
    (rest : List Line) (f items r) (h : readItems f d rest = some (items, r)) (F : Nat)
    (hF : f + 2 + l.length + r'.length ≤ F) :
    readItems F d (⟨d, "par:".toList⟩ :: (l ++ (⟨d, "|".toList⟩ :: (r' ++ rest)))) =
      some (.par skl skr :: items, r) := by
  obtain ⟨F', rfl⟩ : ∃ F', F = F' + 1 := ⟨F - 1, by omega⟩
  have hc : classify "par:".toList = .par := by decide
  have hf1 := fuel_pos _ _ _ _ h
  rw [read_line_unfold, hc]
  have hst : Stops d (⟨d, "|".toList⟩ :: (r' ++ rest)) := Or.inr ⟨_, _, rfl, Nat.le_refl _⟩
  simp only [Option.bind_some,
    children_read d s hs l skl hl _ hst F' (by omega), separatorAt, and_self, if_true,
    children_read d s hs r' skr hr rest (read_some_stops _ _ _ _ h) F' (by omega),
    readItems_mono f F' (by omega) _ _ _ h, Option.map_some]

theorem read_xor (d s : Nat) (hs : 0 < s)
    (l : List Line) (skl : List Sk) (hl : ReadsAs (d + s) l skl)
    (r' : List Line) (skr : List Sk) (hr : ReadsAs (d + s) r' skr)
    (rest : List Line) (f items r) (h : readItems f d rest = some (items, r)) (F : Nat)
    (hF : f + 2 + l.length + r'.length ≤ F) :
    readItems F d (⟨d, "try:".toList⟩ :: (l ++ (⟨d, "catch:".toList⟩ :: (r' ++ rest)))) =
      some (.xor skl skr :: items, r) := by
  obtain ⟨F', rfl⟩ : ∃ F', F = F' + 1 := ⟨F - 1, by omega⟩
  have hc : classify "try:".toList = .xor := by decide
  have hf1 := fuel_pos _ _ _ _ h
  rw [read_line_unfold, hc]
  have hst : Stops d (⟨d, "catch:".toList⟩ :: (r' ++ rest)) := Or.inr ⟨_, _, rfl, Nat.le_refl _⟩
  simp only [Option.bind_some,
    children_read d s hs l skl hl _ hst F' (by omega), separatorAt, and_self, if_true,
    children_read d s hs r' skr hr rest (read_some_stops _ _ _ _ h) F' (by omega),
    readItems_mono f F' (by omega) _ _ _ h, Option.map_some]

theorem walker_head (cfg : Cfg) (i : Instr) (d : Nat) : ∃ t tl, beautifyWalker cfg i d = ⟨d, t⟩ :: tl := by
  fun_induction beautifyWalker cfg i d <;> try (exact ⟨_, _, rfl⟩)
  rename_i ih2 ih1
  obtain ⟨t, tl, h⟩ := ih2
  exact ⟨t, tl ++ _, by rw [h]; rfl⟩

theorem tryHopon_eq (arg : NewArg) (body : Instr) (sl sr : Nat) :
    tryHopon arg body = hopOnPeer (.new arg body sl sr) := by
  cases arg <;> try (simp [tryHopon, hopOnPeer])
  cases body <;> try (simp [tryHopon, hopOnPeer])
  rename_i a b _ _
  cases a <;> try (simp [hopOnPeer])
  cases b <;> try (simp [hopOnPeer])
  rename_i peer _ _ _
  cases peer <;> simp [canonShadowsPeerId, and_comm]

theorem callText_none (p s f : Value) (args : List Value) :
    callText p s f args .none = callCore (valueText p) (valueText s) (valueText f) (args.map valueText) := by
  unfold callText callCore
  simp only [List.append_assoc, List.nil_append]
  rfl

theorem callText_scalar (p s f : Value) (args : List Value) (n : String) :
    callText p s f args (.scalar n) =
      n.toList ++ ' ' :: '<' :: '-' :: ' ' :: callCore (valueText p) (valueText s) (valueText f) (args.map valueText) := by
  unfold callText callCore
  simp only [List.append_assoc]
  rfl

theorem callText_stream (p s f : Value) (args : List Value) (n : String) (pos : Nat) :
    callText p s f args (.stream n pos) =
      n.toList ++ ' ' :: '<' :: '-' :: ' ' :: callCore (valueText p) (valueText s) (valueText f) (args.map valueText) := by
  unfold callText callCore
  simp only [List.append_assoc]
  rfl

/-- a single line that reads as one simple instruction -/
theorem readsAs_simple (d : Nat) (t : Text) (hc : classify t = .simple) : ReadsAs d [⟨d, t⟩] [.instr t] :=
  ⟨⟨t, [], rfl⟩, fun rest f items r h F hF => read_simple_line t hc d rest f items r h F (by simpa using hF)⟩

theorem classify_failText (a : FailArg) : classify (failText a) = .simple := by
  cases a
  · exact classify_kwSimple "fail".toList _ (by decide)
  · exact classify_kwSimple "fail".toList _ (by decide)
  · exact classify_kwSimple "fail".toList _ (by decide)
  · exact classify_kwSimple "fail".toList _ (by decide)
  · decide
  · decide

theorem readsAs_append (d : Nat) (l r : List Line) (skl skr : List Sk) (hl : ReadsAs d l skl) (hr : ReadsAs d r skr) :
    ReadsAs d (l ++ r) (skl ++ skr) := by
  obtain ⟨⟨t, tl, rfl⟩, hl2⟩ := hl
  refine ⟨⟨t, tl ++ r, rfl⟩, ?_⟩
  intro rest f items rr h F hF
  have h1 := hr.2 rest f items rr h (f + r.length) (Nat.le_refl _)
  have h2 := hl2 (r ++ rest) (f + r.length) (skr ++ items) rr h1 F (by simp at hF ⊢; omega)
  simpa [List.append_assoc] using h2

theorem readsAs_block (head : Text) (hc : classify (head ++ [':']) = .block) (d s : Nat) (hs : 0 < s)
    (body : List Line) (sk : List Sk) (hb : ReadsAs (d + s) body sk) :
    ReadsAs d (⟨d, head ++ [':']⟩ :: body) [.block head sk false []] :=
  ⟨⟨_, _, rfl⟩, fun rest f items r h F hF => by
    have := read_block head hc d s hs body sk hb rest f items r h F (by simp at hF; omega)
    simpa using this⟩

theorem readsAs_block_last (head : Text) (hc : classify (head ++ [':']) = .block) (d s : Nat) (hs : 0 < s)
    (body : List Line) (sk : List Sk) (hb : ReadsAs (d + s) body sk)
    (last : List Line) (skl : List Sk) (hl : ReadsAs (d + s) last skl) :
    ReadsAs d (⟨d, head ++ [':']⟩ :: body ++ ⟨d, "last:".toList⟩ :: last) [.block head sk true skl] :=
  ⟨⟨_, _, rfl⟩, fun rest f items r h F hF => by
    have := read_block_last head hc d s hs body sk hb last skl hl rest f items r h F (by simp at hF; omega)
    simpa [List.append_assoc] using this⟩

theorem readsAs_par (d s : Nat) (hs : 0 < s) (l : List Line) (skl : List Sk) (hl : ReadsAs (d + s) l skl)
    (r' : List Line) (skr : List Sk) (hr : ReadsAs (d + s) r' skr) :
    ReadsAs d (⟨d, "par:".toList⟩ :: l ++ ⟨d, "|".toList⟩ :: r') [.par skl skr] :=
  ⟨⟨_, _, rfl⟩, fun rest f items r h F hF => by
    have := read_par d s hs l skl hl r' skr hr rest f items r h F (by simp at hF; omega)
    simpa [List.append_assoc] using this⟩

theorem readsAs_xor (d s : Nat) (hs : 0 < s) (l : List Line) (skl : List Sk) (hl : ReadsAs (d + s) l skl)
    (r' : List Line) (skr : List Sk) (hr : ReadsAs (d + s) r' skr) :
    ReadsAs d (⟨d, "try:".toList⟩ :: l ++ ⟨d, "catch:".toList⟩ :: r') [.xor skl skr] :=
  ⟨⟨_, _, rfl⟩, fun rest f items r h F hF => by
    have := read_xor d s hs l skl hl r' skr hr rest f items r h F (by simp at hF; omega)
    simpa [List.append_assoc] using this⟩

theorem readsAs_call (p s f : Value) (args : List Value) (out : CallOutput) (d : Nat)
    (hwf : WF (.call p s f args out) = true) (hop : Bool) :
    ReadsAs d [⟨d, callText p s f args out⟩] (skeleton hop (.call p s f args out)) := by
  simp only [WF, Bool.and_eq_true, List.all_eq_true] at hwf
  obtain ⟨⟨⟨⟨hp, hs⟩, hf⟩, ha⟩, ho⟩ := hwf
  have ha' : ∀ a ∈ args.map valueText, tokWF a = true := by
    intro a hm
    obtain ⟨v, hv, rfl⟩ := List.mem_map.mp hm
    exact ha v hv
  refine ⟨⟨_, _, rfl⟩, ?_⟩
  intro rest f' items r h F hF
  cases out with
  | none =>
    rw [callText_none]
    exact read_call_line _ _ _ _ hp hs hf ha' d rest f' items r h F (by simpa using hF)
  | scalar n =>
    rw [callText_scalar]
    exact read_callOut_line n.toList _ _ _ _ ho hp hs hf ha' d rest f' items r h F (by simpa using hF)
  | stream n pos =>
    rw [callText_stream]
    exact read_callOut_line n.toList _ _ _ _ ho hp hs hf ha' d rest f' items r h F (by simpa using hF)

theorem reads_walker (cfg : Cfg) (hs : 0 < cfg.indentStep) (i : Instr) (d : Nat) (hwf : WF i = true) :
    ReadsAs d (beautifyWalker cfg i d) (skeleton cfg.tryHopon i) := by
  fun_induction beautifyWalker cfg i d
  case case1 => exact readsAs_call _ _ _ _ _ _ hwf _
  case case2 ih2 ih1 =>
    simp only [WF, Bool.and_eq_true] at hwf
    exact readsAs_append _ _ _ _ _ (ih2 hwf.1) (ih1 hwf.2)
  case case3 ih2 ih1 =>
    simp only [WF, Bool.and_eq_true] at hwf
    exact readsAs_par _ _ hs _ _ (ih2 hwf.1) _ _ (ih1 hwf.2)
  case case4 ih2 ih1 =>
    simp only [WF, Bool.and_eq_true] at hwf
    exact readsAs_xor _ _ hs _ _ (ih2 hwf.1) _ _ (ih1 hwf.2)
  case case5 ih1 =>
    simp only [WF] at hwf
    exact readsAs_block _ (classify_kwBlock "match".toList _ (by decide)) _ _ hs _ _ (ih1 hwf)
  case case6 ih1 =>
    simp only [WF] at hwf
    exact readsAs_block _ (classify_kwBlock "mismatch".toList _ (by decide)) _ _ hs _ _ (ih1 hwf)
  case case7 last _ ih2 ih1 =>
    cases last with
    | none =>
      simp only [WF, Bool.and_true] at hwf
      simpa [skeleton, headLine] using readsAs_block _ (classify_kwBlock "fold".toList _ (by decide)) _ _ hs _ _ (ih2 hwf)
    | some l =>
      simp only [WF, Bool.and_eq_true] at hwf
      simpa [skeleton, headLine] using readsAs_block_last _ (classify_kwBlock "fold".toList _ (by decide)) _ _ hs _ _ (ih2 hwf.1) _ _ (ih1 hwf.2)
  case case8 last _ _ ih2 ih1 =>
    cases last with
    | none =>
      simp only [WF, Bool.and_true] at hwf
      simpa [skeleton, headLine] using readsAs_block _ (classify_kwBlock "fold".toList _ (by decide)) _ _ hs _ _ (ih2 hwf)
    | some l =>
      simp only [WF, Bool.and_eq_true] at hwf
      simpa [skeleton, headLine] using readsAs_block_last _ (classify_kwBlock "fold".toList _ (by decide)) _ _ hs _ _ (ih2 hwf.1) _ _ (ih1 hwf.2)
  case case9 last _ _ ih2 ih1 =>
    cases last with
    | none =>
      simp only [WF, Bool.and_true] at hwf
      simpa [skeleton, headLine] using readsAs_block _ (classify_kwBlock "fold".toList _ (by decide)) _ _ hs _ _ (ih2 hwf)
    | some l =>
      simp only [WF, Bool.and_eq_true] at hwf
      simpa [skeleton, headLine] using readsAs_block_last _ (classify_kwBlock "fold".toList _ (by decide)) _ _ hs _ _ (ih2 hwf.1) _ _ (ih1 hwf.2)
  case case10 arg body sl sr _ peer hx =>
    have hsk : skeleton cfg.tryHopon (Instr.new arg body sl sr) = [.instr (hopOnText peer)] := by
      simp only [skeleton, ← tryHopon_eq, hx]; rfl
    rw [hsk]
    exact readsAs_simple _ _ (classify_kwSimple "hopon".toList _ (by decide))
  case case11 arg body sl sr _ hx ih1 =>
    simp only [WF] at hwf
    have hsk : skeleton cfg.tryHopon (Instr.new arg body sl sr) = [.block (instrText (.new arg body sl sr)) (skeleton cfg.tryHopon body) false []] := by
      simp only [skeleton, ← tryHopon_eq, hx]
    rw [hsk]
    exact readsAs_block _ (classify_kwBlock "new".toList _ (by decide)) _ _ hs _ _ (ih1 hwf)
  case case12 => exact readsAs_simple _ _ (classify_kwSimple "ap".toList _ (by decide))
  case case13 => exact readsAs_simple _ _ (classify_kwSimple "ap".toList _ (by decide))
  case case14 => exact readsAs_simple _ _ (classify_kwSimple "canon".toList _ (by decide))
  case case15 => exact readsAs_simple _ _ (classify_kwSimple "canon".toList _ (by decide))
  case case16 => exact readsAs_simple _ _ (classify_kwSimple "canon".toList _ (by decide))
  case case17 => exact readsAs_simple _ _ (classify_kwSimple "next".toList _ (by decide))
  case case18 => exact readsAs_simple _ _ (classify_failText _)
  case case19 => exact readsAs_simple _ _ (by decide)
  case case20 => exact readsAs_simple _ _ (by decide)

theorem isSep_of_space (t : Text) (h : ' ' ∈ t) : isSep t = false := by
  have h3 : t ≠ "|".toList := by intro e; subst e; simp at h
  have h4 : t ≠ "catch:".toList := by intro e; subst e; simp at h
  have h5 : t ≠ "last:".toList := by intro e; subst e; simp at h
  unfold isSep
  simp only [Bool.or_eq_false_iff, beq_eq_false_iff_ne]
  exact ⟨⟨h3, h4⟩, h5⟩

theorem mem_space (kw rest : Text) : ' ' ∈ kw ++ ' ' :: rest := by simp

theorem isSep_failText (a : FailArg) : isSep (failText a) = false := by
  cases a
  · exact isSep_of_space _ (mem_space "fail".toList _)
  · exact isSep_of_space _ (mem_space "fail".toList _)
  · exact isSep_of_space _ (mem_space "fail".toList _)
  · exact isSep_of_space _ (mem_space "fail".toList _)
  · decide
  · decide

theorem isSep_callText (p s f : Value) (args : List Value) (out : CallOutput) : isSep (callText p s f args out) = false := by
  apply isSep_of_space
  cases out
  · rw [callText_none]; exact mem_space "call".toList _
  · rw [callText_scalar]; exact mem_space _ _
  · rw [callText_stream]; exact mem_space _ _

theorem filter_single (d : Nat) (t : Text) (h : isSep t = false) :
    [(⟨d, t⟩ : Line)].filter (fun l : Line => !isSep l.text) = [⟨d, t⟩] := by simp [h]

def lineOf (cfg : Cfg) (x : Nat × Instr) : Line := ⟨x.1 * cfg.indentStep, ownText cfg.tryHopon x.2⟩

theorem filter_walker (cfg : Cfg) (i : Instr) (k : Nat) :
    (beautifyWalker cfg i (k * cfg.indentStep)).filter (fun l => !isSep l.text) =
      (flat cfg.tryHopon i k).map (lineOf cfg) := by
  generalize hh : cfg.tryHopon = hop
  have hsucc : ∀ d : Nat, d * cfg.indentStep + cfg.indentStep = (d + 1) * cfg.indentStep := by
    intro d; rw [Nat.succ_mul]
  have hb : ∀ (t : Text), ' ' ∈ t → (!isSep (t ++ [':'])) = true := by
    intro t ht; rw [isSep_of_space _ (by simp [ht])]; rfl
  fun_induction flat hop i k
  case case1 ih2 ih1 => simp only [beautifyWalker, List.filter_append, ih2, ih1, List.map_append]
  case case2 ih2 ih1 =>
    simp only [beautifyWalker, hsucc, List.filter_cons, List.filter_append, ih2, ih1, List.map_append, List.map_cons]
    have h1 : (!isSep "par:".toList) = true := by decide
    have h2 : (!isSep "|".toList) = false := by decide
    simp only [h1, h2, if_true, Bool.false_eq_true, if_false, List.cons_append]
    rfl
  case case3 ih2 ih1 =>
    simp only [beautifyWalker, hsucc, List.filter_cons, List.filter_append, ih2, ih1, List.map_append, List.map_cons]
    have h1 : (!isSep "try:".toList) = true := by decide
    have h2 : (!isSep "catch:".toList) = false := by decide
    simp only [h1, h2, if_true, Bool.false_eq_true, if_false, List.cons_append]
    rfl
  case case4 ih1 =>
    simp only [beautifyWalker, headLine, hsucc, List.filter_cons, ih1, List.map_cons, hb _ (mem_space "match".toList _), if_true]
    rfl
  case case5 ih1 =>
    simp only [beautifyWalker, headLine, hsucc, List.filter_cons, ih1, List.map_cons, hb _ (mem_space "mismatch".toList _), if_true]
    rfl
  case case6 last _ ih2 ih1 =>
    have hl : (!isSep "last:".toList) = false := by decide
    cases last with
    | none =>
      simp only [beautifyWalker, headLine, hsucc, List.filter_cons, List.filter_append, ih2, List.map_cons, List.map_append,
        hb _ (mem_space "fold".toList _), if_true, List.filter_nil, List.map_nil]
      rfl
    | some l =>
      simp only [beautifyWalker, headLine, hsucc, List.filter_cons, List.filter_append, ih2, ih1, List.map_cons, List.map_append,
        hb _ (mem_space "fold".toList _), if_true, hl, Bool.false_eq_true, if_false, List.cons_append]
      rfl
  case case7 last _ _ ih2 ih1 =>
    have hl : (!isSep "last:".toList) = false := by decide
    cases last with
    | none =>
      simp only [beautifyWalker, headLine, hsucc, List.filter_cons, List.filter_append, ih2, List.map_cons, List.map_append,
        hb _ (mem_space "fold".toList _), if_true, List.filter_nil, List.map_nil]
      rfl
    | some l =>
      simp only [beautifyWalker, headLine, hsucc, List.filter_cons, List.filter_append, ih2, ih1, List.map_cons, List.map_append,
        hb _ (mem_space "fold".toList _), if_true, hl, Bool.false_eq_true, if_false, List.cons_append]
      rfl
  case case8 last _ _ ih2 ih1 =>
    have hl : (!isSep "last:".toList) = false := by decide
    cases last with
    | none =>
      simp only [beautifyWalker, headLine, hsucc, List.filter_cons, List.filter_append, ih2, List.map_cons, List.map_append,
        hb _ (mem_space "fold".toList _), if_true, List.filter_nil, List.map_nil]
      rfl
    | some l =>
      simp only [beautifyWalker, headLine, hsucc, List.filter_cons, List.filter_append, ih2, ih1, List.map_cons, List.map_append,
        hb _ (mem_space "fold".toList _), if_true, hl, Bool.false_eq_true, if_false, List.cons_append]
      rfl
  case case9 arg body sl sr d peer hx =>
    subst hh
    have hx' : (if cfg.tryHopon = true then tryHopon arg body else none) = some peer := by rw [tryHopon_eq arg body sl sr]; exact hx
    simp only [beautifyWalker, hx', List.filter_cons, List.filter_nil, List.map_cons, List.map_nil, hopOnText,
      isSep_of_space _ (mem_space "hopon".toList _), Bool.not_false, if_true, lineOf, ownText, hx]
    rfl
  case case10 arg body sl sr d hx ih1 =>
    subst hh
    have hx' : (if cfg.tryHopon = true then tryHopon arg body else none) = none := by rw [tryHopon_eq arg body sl sr]; exact hx
    simp only [beautifyWalker, hx', headLine, hsucc, List.filter_cons, ih1, List.map_cons, hb _ (mem_space "new".toList _), if_true,
      lineOf, ownText, hx]
    rfl
  case case11 =>
    simp only [beautifyWalker, List.filter_cons, List.filter_nil, List.map_cons, List.map_nil, isSep_callText, Bool.not_false, if_true]
    rfl
  case case12 =>
    simp only [beautifyWalker, List.filter_cons, List.filter_nil, List.map_cons, List.map_nil, isSep_of_space _ (mem_space "ap".toList _), Bool.not_false, if_true]
    rfl
  case case13 =>
    simp only [beautifyWalker, List.filter_cons, List.filter_nil, List.map_cons, List.map_nil, isSep_of_space _ (mem_space "ap".toList _), Bool.not_false, if_true]
    rfl
  case case14 =>
    simp only [beautifyWalker, List.filter_cons, List.filter_nil, List.map_cons, List.map_nil, isSep_of_space _ (mem_space "canon".toList _), Bool.not_false, if_true]
    rfl
  case case15 =>
    simp only [beautifyWalker, List.filter_cons, List.filter_nil, List.map_cons, List.map_nil, isSep_of_space _ (mem_space "canon".toList _), Bool.not_false, if_true]
    rfl
  case case16 =>
    simp only [beautifyWalker, List.filter_cons, List.filter_nil, List.map_cons, List.map_nil, isSep_of_space _ (mem_space "canon".toList _), Bool.not_false, if_true]
    rfl
  case case17 =>
    simp only [beautifyWalker, List.filter_cons, List.filter_nil, List.map_cons, List.map_nil, isSep_of_space _ (mem_space "next".toList _), Bool.not_false, if_true]
    rfl
  case case18 a d =>
    simp only [beautifyWalker]
    have := filter_single (d * cfg.indentStep) (instrText (.fail a)) (isSep_failText a)
    rw [this]
    rfl
  case case19 =>
    have h : (!isSep (instrText .null)) = true := by decide
    simp only [beautifyWalker, List.filter_cons, List.filter_nil, List.map_cons, List.map_nil, h, if_true]
    rfl
  case case20 =>
    have h : (!isSep (instrText .never)) = true := by decide
    simp only [beautifyWalker, List.filter_cons, List.filter_nil, List.map_cons, List.map_nil, h, if_true]
    rfl

theorem splitLines_cons_ne (acc : Text) (c : Char) (cs : Text) (h : c ≠ '\n') :
    splitLines acc (c :: cs) = splitLines (c :: acc) cs := by
  rw [splitLines.eq_def]
  split
  · rename_i heq; simp at heq
  · rename_i heq; simp at heq
  · rename_i heq; simp at heq; exact absurd heq.1 h
  · rename_i heq; simp at heq; obtain ⟨rfl, rfl⟩ := heq; rfl

theorem splitLines_newline (acc cs : Text) : splitLines acc ('\n' :: cs) = (splitLines [] cs).map (acc.reverse :: ·) := by
  rw [splitLines.eq_def]
  split
  · rename_i heq; simp at heq
  · rename_i heq; simp at heq
  · rename_i heq; simp at heq; obtain ⟨rfl, rfl⟩ := heq; rfl
  · rename_i hne heq; simp at heq; obtain ⟨rfl, rfl, rfl⟩ := heq; exact (hne rfl).elim

theorem splitLines_line (acc t rest : Text) (h : ∀ c ∈ t, c ≠ '\n') :
    splitLines acc (t ++ '\n' :: rest) = (splitLines [] rest).map ((acc.reverse ++ t) :: ·) := by
  induction t generalizing acc with
  | nil => simp [splitLines_newline]
  | cons c cs ih =>
    rw [List.cons_append, splitLines_cons_ne acc c _ (h c (by simp)), ih _ (fun x hx => h x (by simp [hx]))]
    simp

theorem lineOK_cases (l : Line) (h : lineOK l = true) :
    (∀ c ∈ l.text, c ≠ '\n') ∧ ∃ c t, l.text = c :: t ∧ c ≠ ' ' := by
  unfold lineOK at h
  simp only [Bool.and_eq_true, Bool.not_eq_true', List.contains_eq_mem, decide_eq_false_iff_not] at h
  refine ⟨fun c hc e => h.1 (e ▸ hc), ?_⟩
  cases ht : l.text with
  | nil => simp [ht] at h
  | cons c t => simp [ht] at h; exact ⟨c, t, rfl, h.2⟩

theorem parseLine_renderLine (l : Line) (h : lineOK l = true) :
    parseLine (List.replicate l.indent ' ' ++ l.text) = l := by
  obtain ⟨_, c, t, ht, hc⟩ := lineOK_cases l h
  have h1 : ∀ x ∈ List.replicate l.indent ' ', (x == ' ') = true := by
    intro x hx; simp [(List.mem_replicate.mp hx).2]
  unfold parseLine
  rw [takeWhile_append_all _ _ _ h1, dropWhile_append_all _ _ _ h1]
  have hcf : (c == ' ') = false := by simpa using hc
  have e1 : l.text.takeWhile (fun x => x == ' ') = [] := by rw [ht]; simp [List.takeWhile_cons, hcf]
  have e2 : l.text.dropWhile (fun x => x == ' ') = l.text := by rw [ht]; simp [List.dropWhile_cons, hcf]
  rw [e1, e2]
  simp

theorem splitLines_render (ls : List Line) (h : ∀ l ∈ ls, lineOK l = true) :
    splitLines [] (render ls) = some (ls.map fun l => List.replicate l.indent ' ' ++ l.text) := by
  induction ls with
  | nil => rfl
  | cons l ls ih =>
    have hl := lineOK_cases l (h l (by simp))
    have hno : ∀ c ∈ List.replicate l.indent ' ' ++ l.text, c ≠ '\n' := by
      intro c hc
      rcases List.mem_append.mp hc with hc | hc
      · rw [(List.mem_replicate.mp hc).2]; decide
      · exact hl.1 c hc
    have : render (l :: ls) = (List.replicate l.indent ' ' ++ l.text) ++ '\n' :: render ls := by
      simp [render, renderLine]
    rw [this, splitLines_line [] _ _ hno, ih (fun x hx => h x (by simp [hx]))]
    simp

theorem linesOf_render (ls : List Line) (h : ∀ l ∈ ls, lineOK l = true) : linesOf (render ls) = some ls := by
  unfold linesOf
  rw [splitLines_render ls h]
  simp only [Option.map_some, List.map_map]
  congr 1
  have : ∀ (xs : List Line), (∀ l ∈ xs, lineOK l = true) →
      xs.map (parseLine ∘ fun l => List.replicate l.indent ' ' ++ l.text) = xs := by
    intro xs hx
    induction xs with
    | nil => rfl
    | cons a as ih =>
      rw [List.map_cons, ih (fun l hl => hx l (by simp [hl]))]
      simp only [Function.comp, parseLine_renderLine a (hx a (by simp))]
  exact this ls h

end AquaProps.Lemmas.BeautifierTree
