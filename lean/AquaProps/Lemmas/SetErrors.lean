import AquaProps.Lemmas.XorFrames
import Aqua.Run.ExecOutcome
/-!
`ExecutionCtx::set_errors` (`context.rs`) and the error object it builds (`errors_utils.rs`,
`instruction_error_definition.rs`): which fields the object has, when `:error:` / `%last_error%` are
written and when they are left alone.  Used by C18.
-/
namespace AquaProps
open Aqua Aqua.Exec Aqua.Air Aqua.Trace Aqua.Json

theorem errorObj_code (code : Int) (msg instr : String) (p : Option String) :
    (errorFromRawFields code msg instr p).getField "error_code" = some (.num code) := by
  cases p <;> simp [errorFromRawFields, JVal.mkObj, insertSorted, strLt, JVal.getField] <;> decide

theorem errorObj_message (code : Int) (msg instr : String) (p : Option String) :
    (errorFromRawFields code msg instr p).getField "message" = some (.str msg) := by
  cases p <;> simp [errorFromRawFields, JVal.mkObj, insertSorted, strLt, JVal.getField] <;> decide

theorem errorObj_instruction (code : Int) (msg instr : String) (p : Option String) :
    (errorFromRawFields code msg instr p).getField "instruction" = some (.str instr) := by
  cases p <;> simp [errorFromRawFields, JVal.mkObj, insertSorted, strLt, JVal.getField] <;> decide

theorem errorObj_peer (code : Int) (msg instr : String) (p : Option String) :
    (errorFromRawFields code msg instr p).getField "peer_id" = p.map JVal.str := by
  cases p <;> simp [errorFromRawFields, JVal.mkObj, insertSorted, strLt, JVal.getField] <;> decide

/-! ### `set_errors` -/

theorem setErrors_disables (c : Ctx) (e : CatchableErr) (i : String) (t : Option Tetraplet) (b : Bool) :
    (c.setErrors e i t b).error.canBeSet = false := by
  unfold Ctx.setErrors
  simp only []
  split <;> rfl

theorem setErrors_error_keep (c : Ctx) (e : CatchableErr) (i : String) (t : Option Tetraplet) (b : Bool)
    (h : c.error.canBeSet = false) : (c.setErrors e i t b).error = c.error := by
  unfold Ctx.setErrors
  simp only [h]
  cases hc : c.error with
  | mk err cbs => rw [hc] at h; simp at h; subst h; rfl

/-- the peer id `set_errors` writes into `:error:` -/
def errorPeerId (c : Ctx) (t : Option Tetraplet) (b : Bool) : Option String :=
  if b then some (match t with | some t => t.peerPk | none => c.currentPeerId) else none

/-- the peer id `set_errors` writes into `%last_error%` -/
def lastErrorPeerId (c : Ctx) (t : Option Tetraplet) (b : Bool) : String :=
  match t with
  | some t => if b then t.peerPk else c.currentPeerId
  | none => c.currentPeerId

theorem setErrors_error_set (c : Ctx) (e : CatchableErr) (i : String) (t : Option Tetraplet) (b : Bool)
    (h : c.error.canBeSet = true) :
    (c.setErrors e i t b).error =
      { error := ⟨errorFromRawFields e.code e.render i (errorPeerId c t b), t, .literal, none⟩, canBeSet := false } := by
  unfold Ctx.setErrors errorPeerId instructionErrorFromExec
  simp only [h, if_true]
  cases t <;> cases b <;> rfl

theorem setErrors_lastError_keep (c : Ctx) (e : CatchableErr) (i : String) (t : Option Tetraplet) (b : Bool)
    (h : c.lastError.canBeSet = false ∨ e.affectsLastError = false) : (c.setErrors e i t b).lastError = c.lastError := by
  unfold Ctx.setErrors
  rcases h with h | h <;> simp [h]

theorem setErrors_lastError_set (c : Ctx) (e : CatchableErr) (i : String) (t : Option Tetraplet) (b : Bool)
    (h : c.lastError.canBeSet = true) (ha : e.affectsLastError = true) :
    (c.setErrors e i t b).lastError =
      { error := ⟨errorFromRawFields e.code e.render i (some (lastErrorPeerId c t b)), t, .literal, none⟩, canBeSet := false } := by
  unfold Ctx.setErrors lastErrorPeerId instructionErrorFromExec
  simp only [h, ha, Bool.and_self, if_true]
  cases t <;> cases b <;> rfl

theorem setErrors_other (c : Ctx) (e : CatchableErr) (i : String) (t : Option Tetraplet) (b : Bool) :
    (c.setErrors e i t b).scalars = c.scalars ∧ (c.setErrors e i t b).currentPeerId = c.currentPeerId ∧
    (c.setErrors e i t b).initPeerId = c.initPeerId ∧ (c.setErrors e i t b).subgraphComplete = c.subgraphComplete := by
  unfold Ctx.setErrors; exact ⟨rfl, rfl, rfl, rfl⟩

end AquaProps
