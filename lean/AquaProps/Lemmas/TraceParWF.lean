import AquaProps.Lemmas.TraceParInv
/-!
# Par well-formedness of the result trace for well-bracketed operation sequences (C10)
-/
set_option linter.unusedSimpArgs false

namespace Aqua.Trace
open Aqua Aqua.Data

/-- operation sequences in which every `meetParStart` is followed by its left subgraph, `meetParSubgraphEnd left`,
its right subgraph and `meetParSubgraphEnd right` (the executor issues both ends also when a subgraph fails
with a catchable error); everything else — also the fold operations, which interleave with pars through
`next` — is unconstrained -/
inductive WB : List HOp → Prop
  | nil : WB []
  | simple (op : HOp) (rest : List HOp) : op.isPar = false → WB rest → WB (op :: rest)
  | par (l r rest : List HOp) : WB l → WB r → WB rest →
      WB (.parStart :: (l ++ .parEnd .left :: (r ++ .parEnd .right :: rest)))

theorem WB.append {a b : List HOp} (ha : WB a) (hb : WB b) : WB (a ++ b) := by
  induction ha with
  | nil => simpa using hb
  | simple op rest hop _ ih => exact .simple op _ hop ih
  | par l r rest hl hr _ _ _ ih =>
    have := WB.par l r (rest ++ b) hl hr ih
    simpa [List.append_assoc] using this

theorem runOps_cons {op : HOp} {rest : List HOp} {h h' : TraceHandler} (e : runOps (op :: rest) h = some h') :
    ∃ h1, op.apply h = some h1 ∧ runOps rest h1 = some h' := by
  simp only [runOps] at e
  cases h1 : op.apply h with
  | none => simp [h1] at e
  | some x => exact ⟨x, rfl, by simpa [h1] using e⟩

theorem runOps_append_some {a b : List HOp} {h h' : TraceHandler} (e : runOps (a ++ b) h = some h') :
    ∃ h1, runOps a h = some h1 ∧ runOps b h1 = some h' := by
  rw [runOps_append] at e
  cases h1 : runOps a h with
  | none => simp [h1] at e
  | some x => exact ⟨x, rfl, by simpa [h1] using e⟩

/-- **One par block.** `meetParStart; ⟨left⟩; meetParSubgraphEnd left; ⟨right⟩; meetParSubgraphEnd right` where the
two subgraph runs keep the reservation invariant, restore the par stack and only append to the sizes: the
reserved position receives `Par(|left segment|, |right segment|)` (as `u32`), nothing else changes. -/
theorem par_block {h h1 h2 h3 h4 h5 : TraceHandler} (g : ParInv h)
    (e1 : h.meetParStart = .ok h1)
    (L : ParInv h1 → ParInv h2 ∧ h2.parStack = h1.parStack ∧ ∃ segL, h2.sizes = h1.sizes ++ segL)
    (e3 : h2.meetParSubgraphEnd .left = .ok h3)
    (R : ParInv h3 → ParInv h4 ∧ h4.parStack = h3.parStack ∧ ∃ segR, h4.sizes = h3.sizes ++ segR)
    (e5 : h4.meetParSubgraphEnd .right = .ok h5) :
    ParInv h1 ∧ ParInv h3 ∧ ParInv h5 ∧ h5.parStack = h.parStack ∧ h1.tr = h.tr ++ [.par 0 0] ∧ h3.tr = h2.tr ∧
      h5.tr = setAt h4.tr h.tr.length
        (.par (truncU32 (h2.tr.length - h1.tr.length)) (truncU32 (h4.tr.length - h3.tr.length))) ∧
      ∀ segL segR, h2.sizes = h1.sizes ++ segL → h4.sizes = h3.sizes ++ segR →
        h5.sizes = h.sizes ++ (truncU32 segL.length, truncU32 segR.length) :: (segL ++ segR) := by
  obtain ⟨f, hst1, hip, hsaved, ht1, hfm1⟩ := meetParStart_eff e1
  have hsz1 : h1.sizes = h.sizes ++ [(0, 0)] := by simp [TraceHandler.sizes, ht1, parSizes]
  have g1 : ParInv h1 := by
    constructor
    · intro p hp
      rw [hst1] at hp
      rw [ht1]
      simp only [List.length_append, List.length_cons, List.length_nil]
      rcases List.mem_cons.mp hp with rfl | hp
      · omega
      · have := g.parLt p hp; omega
    · intro id f2 hf2
      have hf2' : h.fsm id = some f2 := by simpa [TraceHandler.fsm, hfm1] using hf2
      obtain ⟨hu, hne⟩ := g.foldUnit id f2 hf2'
      have hlt : f2.inserterPos < h.sizes.length := by
        rcases List.getElem?_eq_some_iff.mp hu with ⟨h, _⟩; exact h
      refine ⟨?_, ?_⟩
      · rw [hsz1, List.getElem?_append_left hlt]; exact hu
      · intro p hp
        rw [hst1] at hp
        rcases List.mem_cons.mp hp with rfl | hp
        · rw [hip, ← sizes_length]; omega
        · exact hne p hp
  obtain ⟨g2, hst2, segL, hsz2⟩ := L g1
  obtain ⟨f', rest', hst3a, hst3, ht3, hfm3⟩ := meetParSubgraphEnd_left_eff e3
  have hf' : f' = f ∧ rest' = h.parStack := by
    rw [hst2, hst1] at hst3a
    simp only [List.cons.injEq] at hst3a
    exact ⟨hst3a.1.symm, hst3a.2.symm⟩
  obtain ⟨rfl, rfl⟩ := hf'
  have hsz3 : h3.sizes = h2.sizes := by simp [TraceHandler.sizes, ht3]
  have g3 : ParInv h3 := by
    constructor
    · intro p hp
      rw [hst3] at hp
      rw [ht3]
      rcases List.mem_cons.mp hp with rfl | hp
      · exact g2.parLt f' (by rw [hst2, hst1]; simp)
      · exact g2.parLt p (by rw [hst2, hst1]; simp [hp])
    · intro id f2 hf2
      have hf2' : h2.fsm id = some f2 := by simpa [TraceHandler.fsm, hfm3] using hf2
      obtain ⟨hu, hne⟩ := g2.foldUnit id f2 hf2'
      refine ⟨by rw [hsz3]; exact hu, ?_⟩
      intro p hp
      rw [hst3] at hp
      rcases List.mem_cons.mp hp with rfl | hp
      · exact hne f' (by rw [hst2, hst1]; simp)
      · exact hne p (by rw [hst2, hst1]; simp [hp])
  obtain ⟨g4, hst4, segR, hsz4⟩ := R g3
  obtain ⟨f5, rest5, hst5a, hst5, ht5, hfm5⟩ := meetParSubgraphEnd_right_eff e5
  have hf5 : f5 = f'.track h2.keeper .left ∧ rest5 = h.parStack := by
    rw [hst4, hst3] at hst5a
    simp only [List.cons.injEq] at hst5a
    exact ⟨hst5a.1.symm, hst5a.2.symm⟩
  obtain ⟨rfl, rfl⟩ := hf5
  have hlen1 : h1.tr.length = h.tr.length + 1 := by rw [ht1]; simp
  have hlen2 : h2.tr.length = h.tr.length + 1 + segL.length := by
    rw [← sizes_length, hsz2, hsz1, ← sizes_length]; simp only [List.length_append, List.length_cons, List.length_nil]
  have hlen4 : h4.tr.length = h2.tr.length + segR.length := by
    rw [← sizes_length, hsz4, hsz3, ← sizes_length]; simp only [List.length_append]
  have hleft : (f'.track h2.keeper .left).leftSize = h2.tr.length - h1.tr.length := by
    simp only [ParFSM.track, hsaved, hlen1]
  have hsaved5 : (f'.track h2.keeper .left).savedStatesCount = h3.tr.length := by simp [ParFSM.track, ht3]
  have hip5 : (f'.track h2.keeper .left).inserterPos = h.tr.length := by simp [ParFSM.track, hip]
  have ht5' : h5.tr = setAt h4.tr h.tr.length
      (.par (truncU32 (h2.tr.length - h1.tr.length)) (truncU32 (h4.tr.length - h3.tr.length))) := by
    rw [ht5, hleft, hsaved5, hip5]
  have hszgen : ∀ segL segR, h2.sizes = h1.sizes ++ segL → h4.sizes = h3.sizes ++ segR →
      h5.sizes = h.sizes ++ (truncU32 segL.length, truncU32 segR.length) :: (segL ++ segR) := by
    intro segL segR hsz2 hsz4
    have hlen2 : h2.tr.length = h.tr.length + 1 + segL.length := by
      rw [← sizes_length, hsz2, hsz1, ← sizes_length]
      simp only [List.length_append, List.length_cons, List.length_nil]
    have hlen4 : h4.tr.length = h2.tr.length + segR.length := by
      rw [← sizes_length, hsz4, hsz3, ← sizes_length]; simp only [List.length_append]
    simp only [TraceHandler.sizes, ht5', setAt, List.map_set, parSizes]
    have e1 : h2.tr.length - h1.tr.length = segL.length := by omega
    have e2 : h4.tr.length - h3.tr.length = segR.length := by rw [ht3]; omega
    rw [e1, e2]
    have h4s : List.map parSizes h4.tr = List.map parSizes h.tr ++ (0, 0) :: (segL ++ segR) := by
      have := hsz4
      simp only [TraceHandler.sizes] at this
      rw [this]
      have := hsz3; simp only [TraceHandler.sizes] at this; rw [this]
      have := hsz2; simp only [TraceHandler.sizes] at this; rw [this]
      have := hsz1; simp only [TraceHandler.sizes] at this; rw [this]
      simp [List.append_assoc]
    rw [h4s]
    have hl : h.tr.length = (List.map parSizes h.tr).length := by simp
    rw [hl, List.set_append_right _ _ (Nat.le_refl _)]
    simp
  have hsz5 := hszgen segL segR hsz2 hsz4
  have g5 : ParInv h5 := by
    constructor
    · intro p hp
      rw [hst5] at hp
      have := g.parLt p hp
      rw [← sizes_length, hsz5, List.length_append, sizes_length]
      simp only [List.length_cons]; omega
    · intro id f2 hf2
      have hf2' : h4.fsm id = some f2 := by simpa [TraceHandler.fsm, hfm5] using hf2
      obtain ⟨hu, hne⟩ := g4.foldUnit id f2 hf2'
      have hne5 : h.tr.length ≠ f2.inserterPos := by
        have := hne (f'.track h2.keeper .left) (by rw [hst4, hst3]; simp)
        rw [hip5] at this; exact this
      refine ⟨?_, ?_⟩
      · have h4s : h4.sizes = h.sizes ++ (0, 0) :: (segL ++ segR) := by
          rw [hsz4, hsz3, hsz2, hsz1]; simp [List.append_assoc]
        rw [h4s] at hu
        rw [hsz5]
        by_cases hlt : f2.inserterPos < h.sizes.length
        · rw [List.getElem?_append_left hlt] at hu ⊢; exact hu
        · have hge : h.sizes.length ≤ f2.inserterPos := by omega
          rw [List.getElem?_append_right hge] at hu ⊢
          have : f2.inserterPos - h.sizes.length ≠ 0 := by have := sizes_length h; omega
          cases hd : f2.inserterPos - h.sizes.length with
          | zero => exact absurd hd this
          | succ n => rw [hd] at hu; simpa using hu
      · intro p hp
        rw [hst5] at hp
        exact hne p (by rw [hst4, hst3]; simp [hp])
  exact ⟨g1, g3, g5, hst5, ht1, ht3, ht5', hszgen⟩

/-- **Main invariant.** A well-bracketed sequence that runs to completion restores the par stack, keeps the
reservation invariant and appends a segment to the list of sizes; the segment is a forest unless a subgraph
size was truncated by `as u32` (which needs more than `u32::MAX` states). -/
theorem run_wb {ops : List HOp} (wb : WB ops) :
    ∀ {h h' : TraceHandler}, ParInv h → runOps ops h = some h' →
      ParInv h' ∧ h'.parStack = h.parStack ∧
      ∃ seg, h'.sizes = h.sizes ++ seg ∧ (h'.tr.length ≤ u32Max → ForestS seg) := by
  induction wb with
  | nil =>
    intro h h' g e
    simp only [runOps, Option.some.injEq] at e; subst e
    exact ⟨g, rfl, [], by simp, fun _ => .nil⟩
  | simple op rest hop _ ih =>
    intro h h' g e
    obtain ⟨h1, e1, e2⟩ := runOps_cons e
    have se := shapeEff_of_simple op hop g e1
    have g1 := g.of_shapeEff se
    obtain ⟨g', hst, seg, hseg, hf⟩ := ih g1 e2
    refine ⟨g', by rw [hst, se.stack], ?_⟩
    rcases se.sizes with hs | hs
    · exact ⟨seg, by rw [hseg, hs], hf⟩
    · refine ⟨(0, 0) :: seg, by rw [hseg, hs]; simp, fun hb => (hf hb).leaf⟩
  | par l r rest _ _ _ ihl ihr ihrest =>
    intro h h' g e
    obtain ⟨h1, e1, e⟩ := runOps_cons e
    simp only [HOp.apply, resOk_eq_some] at e1
    obtain ⟨h2, e2, e⟩ := runOps_append_some e
    obtain ⟨h3, e3, e⟩ := runOps_cons e
    simp only [HOp.apply, resOk_eq_some] at e3
    obtain ⟨h4, e4, e⟩ := runOps_append_some e
    obtain ⟨h5, e5, e⟩ := runOps_cons e
    simp only [HOp.apply, resOk_eq_some] at e5
    have L : ParInv h1 → ParInv h2 ∧ h2.parStack = h1.parStack ∧ ∃ segL, h2.sizes = h1.sizes ++ segL := by
      intro g1; obtain ⟨a, b, s, c, _⟩ := ihl g1 e2; exact ⟨a, b, s, c⟩
    have R : ParInv h3 → ParInv h4 ∧ h4.parStack = h3.parStack ∧ ∃ segR, h4.sizes = h3.sizes ++ segR := by
      intro g3; obtain ⟨a, b, s, c, _⟩ := ihr g3 e4; exact ⟨a, b, s, c⟩
    obtain ⟨g1, g3, g5, hst5, ht1, ht3, _, hszgen⟩ := par_block g e1 L e3 R e5
    obtain ⟨_, _, segL, hsz2, hfL⟩ := ihl g1 e2
    obtain ⟨_, _, segR, hsz4, hfR⟩ := ihr g3 e4
    have hsz5 := hszgen segL segR hsz2 hsz4
    obtain ⟨g', hst', seg, hsz', hfT⟩ := ihrest g5 e
    refine ⟨g', by rw [hst', hst5], (truncU32 segL.length, truncU32 segR.length) :: (segL ++ segR) ++ seg, ?_, ?_⟩
    · rw [hsz', hsz5]; simp [List.append_assoc]
    · intro hb
      have hlen' : h5.tr.length ≤ h'.tr.length := by
        rw [← sizes_length, ← sizes_length, hsz']; simp
      have hlen5 : h5.tr.length = h.tr.length + 1 + segL.length + segR.length := by
        rw [← sizes_length, hsz5, List.length_append, sizes_length]; simp; omega
      have a1 : h1.tr.length = h.tr.length + 1 := by rw [ht1]; simp
      have a2 : h2.tr.length = h1.tr.length + segL.length := by
        rw [← sizes_length, hsz2, List.length_append, sizes_length]
      have a3 : h3.tr.length = h2.tr.length := by rw [ht3]
      have a4 : h4.tr.length = h3.tr.length + segR.length := by
        rw [← sizes_length, hsz4, List.length_append, sizes_length]
      have tl : truncU32 segL.length = segL.length := by unfold truncU32; exact Nat.mod_eq_of_lt (by omega)
      have tr' : truncU32 segR.length = segR.length := by unfold truncU32; exact Nat.mod_eq_of_lt (by omega)
      rw [tl, tr']
      have fL := hfL (by omega)
      have fR := hfR (by omega)
      have := ForestS.node segL segR seg fL fR (hfT hb)
      simpa [List.append_assoc] using this

end Aqua.Trace
