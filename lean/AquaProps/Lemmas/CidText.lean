import Aqua.Crypto.CidVerify
import AquaProps.Lemmas.Digits
import AquaProps.Lemmas.Varint
/-!
# The text of a JSON-codec CIDv1 parses back to the CID

For every id the crate can produce or accept — CIDv1, codec `JSON_CODEC`, multihash code SHA2-256 or
BLAKE3-256, a digest of at most 64 bytes — `Cid::try_from(cid.to_string())` is `Ok(cid)`.
-/
namespace AquaProps.CidText
open Aqua Aqua.Crypto.Multibase Aqua.Crypto.CidVerify AquaProps.Digits

theorem ipfs_delim : IPFS_DELIMETER = [47, 105, 112, 102, 115, 47] := by decide

theorem findSub_none (s : Bytes) (i : Nat) (h : ∀ c ∈ s, c ≠ 47) : findSub IPFS_DELIMETER s i = none := by
  induction s generalizing i with
  | nil => simp [findSub, ipfs_delim]
  | cons c cs ih =>
    have hc : c ≠ 47 := h c (by simp)
    have hc' : ((47 : UInt8) == c) = false := by
      simp only [beq_eq_false_iff_ne, ne_eq]; exact fun e => hc e.symm
    unfold findSub
    rw [ipfs_delim]
    simp only [List.isPrefixOf, hc', Bool.false_and, Bool.false_eq_true, if_false]
    rw [← ipfs_delim]
    exact ih _ fun x hx => h x (by simp [hx])

/-! ## reading back the binary form -/

open AquaProps.Varint in
theorem multihash_read (code : Nat) (digest rest : Bytes) (hc : code < 2 ^ 64) (h : digest.length ≤ 64) :
    Multihash.read (Multihash.toBytes ⟨code, digest⟩ ++ rest) = some (⟨code, digest⟩, rest) := by
  unfold Multihash.toBytes Multihash.read
  simp only [List.append_assoc]
  rw [readU64_encodeVarint code hc]
  simp only
  rw [readU64_encodeVarint digest.length (by omega)]
  have h1 : (decide (digest.length > allocSize) || decide (digest.length > 255)) = false := by
    simp only [allocSize, gt_iff_lt, Bool.or_eq_false_iff, decide_eq_false_iff_not, Nat.not_lt]
    omega
  have h2 : ¬ (digest ++ rest).length < digest.length := by simp
  simp only [h1, Bool.false_eq_true, if_false, h2, List.take_left', List.drop_left']

open AquaProps.Varint in
/-- `Cid::read_bytes` on the bytes `Cid::write_bytes` wrote for a CIDv1 (whatever follows stays unread) -/
theorem readBytes_toBytesV1 (c : Cid) (rest : Bytes) (hv : c.version = .V1) (hcodec : c.codec < 2 ^ 64)
    (hcode : c.hash.code < 2 ^ 64) (hlen : c.hash.digest.length ≤ 64) :
    Cid.readBytes (c.toBytesV1 ++ rest) = .ok c := by
  obtain ⟨version, codec, ⟨code, digest⟩⟩ := c
  simp only at hv hcodec hcode hlen
  subst hv
  unfold Cid.toBytesV1
  simp only [List.append_assoc]
  unfold Cid.readBytes varintReadU64
  rw [readU64_encodeVarint 1 (by decide)]
  simp only
  rw [readU64_encodeVarint codec hcodec]
  simp only
  have hv : ((1 : Nat) == 0x12 && codec == 0x20) = false := by simp
  simp only [hv, Bool.false_eq_true, if_false]
  have ht : Version.tryFrom 1 = .ok .V1 := by decide
  rw [ht]
  simp only
  rw [multihash_read code digest rest hcode hlen]
  simp only [Cid.new, Cid.newV1]

theorem jsonCodec_eq : JSON_CODEC = 512 := by decide
theorem code_small (c : Code) : c.toU64 < 2 ^ 64 := by cases c <;> decide

theorem toStringV1_eq (c : Cid) :
    c.toStringV1 = 98 :: BASE32_NOPAD_LOWER.encodeBase c.toBytesV1 := by
  simp [Cid.toStringV1, encodeBase32Lower, Base.code]

theorem toBytesV1_length_pos (c : Cid) : 1 ≤ c.toBytesV1.length := by
  unfold Cid.toBytesV1
  have : encodeVarint 1 = [1] := by decide
  rw [this]
  simp only [List.cons_append, List.length_cons]
  omega

/-- **Text round trip**: `Cid::try_from(cid.to_string())` is `Ok(cid)` for every CIDv1 (`u64` codec and
multihash code, digest of at most 64 bytes) -/
theorem tryFromStr_toStringV1' (c : Cid) (hv : c.version = .V1) (hcodec : c.codec < 2 ^ 64)
    (hcode : c.hash.code < 2 ^ 64) (hlen : c.hash.digest.length ≤ 64) :
    Cid.tryFromStr c.toStringV1 = .ok c := by
  have hrb : Cid.readBytes c.toBytesV1 = .ok c := by
    have := readBytes_toBytesV1 c [] hv hcodec hcode hlen
    rwa [List.append_nil] at this
  rw [toStringV1_eq]
  unfold Cid.tryFromStr
  have hfind : findSub IPFS_DELIMETER (98 :: BASE32_NOPAD_LOWER.encodeBase c.toBytesV1) 0 = none := by
    apply findSub_none
    intro x hx
    rcases List.mem_cons.mp hx with hx | hx
    · subst hx; decide
    · exact encodeBase_symbols _ x hx
  rw [hfind]
  simp only
  have hlen : ¬ (98 :: BASE32_NOPAD_LOWER.encodeBase c.toBytesV1).length < 2 := by
    rw [List.length_cons, encodeBase_length]
    have := toBytesV1_length_pos c
    omega
  simp only [hlen, if_false]
  have hv0 : Version.isV0Str (98 :: BASE32_NOPAD_LOWER.encodeBase c.toBytesV1) = false := by
    have : (ascii "Qm") = [81, 109] := by decide
    simp [Version.isV0Str, this, List.isPrefixOf]
  rw [hv0]
  simp only [Bool.false_eq_true, if_false]
  have hdec : Aqua.Crypto.Multibase.decode (98 :: BASE32_NOPAD_LOWER.encodeBase c.toBytesV1) = some (.Base32Lower, c.toBytesV1) := by
    unfold Aqua.Crypto.Multibase.decode
    have : Base.fromCode 98 = some .Base32Lower := by decide
    simp only [this, Base.decode, decode_encode_base32, Option.map_some]
  rw [hdec]
  simp only [Option.map_some]
  exact hrb

/-- the ids of this crate: JSON codec, SHA2-256 or BLAKE3-256 -/
theorem tryFromStr_toStringV1 (code : Code) (digest : Bytes) (h : digest.length ≤ 64) :
    Cid.tryFromStr (Cid.newV1 JSON_CODEC ⟨code.toU64, digest⟩).toStringV1 =
      .ok (Cid.newV1 JSON_CODEC ⟨code.toU64, digest⟩) :=
  tryFromStr_toStringV1' _ rfl (by rw [show (Cid.newV1 JSON_CODEC ⟨code.toU64, digest⟩).codec = JSON_CODEC from rfl, jsonCodec_eq]; decide)
    (code_small code) h

end AquaProps.CidText
