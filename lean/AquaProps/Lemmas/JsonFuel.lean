import Aqua.Json.Parse
/-! The fuel `JVal.parseList` supplies is never exhausted: `PErr.fuel` is unreachable (every recursive call
of the value parser happens after at least one character has been consumed within two calls). -/
namespace AquaProps.JsonLemmas
open Aqua.Json

/-- the result is not the out-of-fuel artefact, and a success leaves at most `n` characters -/
def Good {α : Type} (n : Nat) (r : PRes α) : Prop :=
  r ≠ .error .fuel ∧ ∀ v rest, r = .ok (v, rest) → rest.length ≤ n

theorem good_err {α : Type} (n : Nat) (e : PErr) (h : e ≠ .fuel) : Good (α := α) n (.error e) :=
  ⟨by intro hc; injection hc with hc; exact h hc, by intro v rest hc; exact absurd hc (by simp)⟩

theorem good_ok {α : Type} (n : Nat) (v : α) (rest : List Char) (h : rest.length ≤ n) : Good n (.ok (v, rest)) :=
  ⟨by simp, by intro v' rest' hc; simp only [Except.ok.injEq, Prod.mk.injEq] at hc; rw [← hc.2]; exact h⟩

theorem Good.mono {α : Type} {n m : Nat} {r : PRes α} (h : Good n r) (hnm : n ≤ m) : Good m r :=
  ⟨h.1, fun v rest hr => Nat.le_trans (h.2 v rest hr) hnm⟩

theorem dropDigits_length (cs : List Char) : (dropDigits cs).length ≤ cs.length := by
  induction cs with
  | nil => simp [dropDigits]
  | cons c cs ih => simp only [dropDigits]; split <;> simp <;> omega

theorem skipWs_length (cs : List Char) : (skipWs cs).length ≤ cs.length := by
  induction cs with
  | nil => simp [skipWs]
  | cons c cs ih => simp only [skipWs]; split <;> simp <;> omega

theorem good_f64 (fo : FloatOracle) (n : Nat) (p : Bool) (s : Nat) (e : Int) (rest : List Char) (h : rest.length ≤ n) :
    Good n (f64FromParts fo p s e rest) := by
  unfold f64FromParts
  split
  · exact good_ok n _ _ h
  · exact good_err n _ (by decide)

theorem good_expOverflow (fo : FloatOracle) (p z pe : Bool) (cs : List Char) :
    Good cs.length (parseExponentOverflow fo p z pe cs) := by
  unfold parseExponentOverflow
  split
  · exact good_err _ _ (by decide)
  · exact good_f64 fo _ _ _ _ _ (dropDigits_length cs)

theorem expLoop_length (cs : List Char) : ∀ exp, (expLoop exp cs).2.length ≤ cs.length := by
  induction cs with
  | nil => intro exp; simp [expLoop]
  | cons c cs ih =>
    intro exp
    simp only [expLoop]
    split
    · split
      · simp
      · have := ih (exp * 10 + digitVal c); simp only [List.length_cons]; omega
    · simp

theorem expSign_length (cs : List Char) : (expSign cs).2.length ≤ cs.length := by
  unfold expSign
  split
  · simp
  · split
    · simp
    · split <;> simp

theorem good_exponent (fo : FloatOracle) (p : Bool) (s : Nat) (e : Int) (cs : List Char) :
    Good cs.length (parseExponent fo p s e cs) := by
  unfold parseExponent
  have hsigned := expSign_length cs
  split
  · exact good_err _ _ (by decide)
  · rename_i c cs2 heq
    rw [heq] at hsigned
    simp only [List.length_cons] at hsigned
    split
    · have hl := expLoop_length cs2 (digitVal c)
      split
      · rename_i rest hq
        rw [hq] at hl
        exact (good_expOverflow fo _ _ _ rest).mono (by simp only at hl; omega)
      · rename_i exp rest hq
        rw [hq] at hl
        exact good_f64 fo _ _ _ _ _ (by simp only at hl; omega)
    · exact good_err _ _ (by decide)

theorem good_tail (fo : FloatOracle) (p : Bool) (s : Nat) (e : Int) (cs : List Char) :
    Good cs.length (numberTail fo p s e cs) := by
  unfold numberTail
  split
  · exact good_f64 fo _ _ _ _ _ (by simp)
  · split
    · exact (good_exponent fo _ _ _ _).mono (by simp)
    · exact good_f64 fo _ _ _ _ _ (by simp)

theorem decLoop_length (cs : List Char) : ∀ s n, (decLoop s n cs).2.2.2.length ≤ cs.length := by
  induction cs with
  | nil => intro s n; simp [decLoop]
  | cons c cs ih =>
    intro s n
    simp only [decLoop]
    split
    · split
      · simp
      · have := ih (s * 10 + digitVal c) (n + 1); simp only [List.length_cons]; omega
    · simp

theorem good_decimal (fo : FloatOracle) (p : Bool) (s : Nat) (e : Int) (cs : List Char) :
    Good cs.length (parseDecimal fo p s e cs) := by
  unfold parseDecimal
  have hl := decLoop_length cs s 0
  split
  · rename_i sig n rest hq
    rw [hq] at hl
    exact (good_tail fo _ _ _ (dropDigits rest)).mono (by have := dropDigits_length rest; simp only at hl; omega)
  · rename_i sig n rest hq
    rw [hq] at hl
    split
    · exact good_err _ _ (by decide)
    · exact (good_tail fo _ _ _ rest).mono (by simp only at hl; omega)

theorem good_number (fo : FloatOracle) (p : Bool) (s : Nat) (cs : List Char) :
    Good cs.length (parseNumber fo p s cs) := by
  have hint : Good cs.length (if p = true then Except.ok (JVal.num ↑s, cs)
      else if wrappingNegAsI64 s ≥ 0 then f64FromParts fo false s 0 cs else Except.ok (JVal.num (wrappingNegAsI64 s), cs)) := by
    split
    · exact good_ok _ _ _ (Nat.le_refl _)
    · split
      · exact good_f64 fo _ _ _ _ _ (Nat.le_refl _)
      · exact good_ok _ _ _ (Nat.le_refl _)
  unfold parseNumber
  simp only
  split
  · exact hint
  · split
    · exact (good_decimal fo _ _ _ _).mono (by simp)
    · split
      · exact (good_exponent fo _ _ _ _).mono (by simp)
      · exact hint

theorem good_longInteger (fo : FloatOracle) (p : Bool) (s : Nat) (cs : List Char) :
    ∀ e : Nat, Good cs.length (parseLongInteger fo p s e cs) := by
  induction cs with
  | nil => intro e; unfold parseLongInteger; exact good_f64 fo _ _ _ _ _ (by simp)
  | cons c cs ih =>
    intro e
    unfold parseLongInteger
    split
    · exact (ih (e + 1)).mono (by simp)
    · split
      · exact (good_decimal fo _ _ _ _).mono (by simp)
      · split
        · exact (good_exponent fo _ _ _ _).mono (by simp)
        · exact good_f64 fo _ _ _ _ _ (by simp)

theorem good_intLoop (fo : FloatOracle) (p : Bool) (cs : List Char) :
    ∀ s : Nat, Good cs.length (intLoop fo p s cs) := by
  induction cs with
  | nil => intro s; unfold intLoop; exact good_number fo p s []
  | cons c cs ih =>
    intro s
    unfold intLoop
    split
    · split
      · exact good_longInteger fo _ _ _ _
      · exact (ih _).mono (by simp)
    · exact good_number fo p s _

/-- `parse_integer` consumes at least one character -/
theorem good_integer (fo : FloatOracle) (p : Bool) (c : Char) (cs : List Char) :
    Good cs.length (parseInteger fo p (c :: cs)) := by
  simp only [parseInteger]
  split
  · split
    · exact good_number fo p 0 _
    · split
      · exact good_err _ _ (by decide)
      · exact good_number fo p 0 _
  · split
    · exact good_intLoop fo p _ _
    · exact good_err _ _ (by decide)

theorem good_integer_any (fo : FloatOracle) (p : Bool) (cs : List Char) :
    Good cs.length (parseInteger fo p cs) := by
  cases cs with
  | nil => unfold parseInteger; exact good_err _ _ (by decide)
  | cons c cs => exact (good_integer fo p c cs).mono (by simp)

theorem good_numTok (fo : FloatOracle) (c : Char) (cs : List Char) : Good cs.length (parseNumTok fo (c :: cs)) := by
  simp only [parseNumTok]
  split
  · exact good_integer_any fo _ _
  · split
    · exact good_integer fo _ _ _
    · exact good_err _ _ (by decide)
def GoodLt {α : Type} (n : Nat) (r : PRes α) : Prop :=
  r ≠ .error .fuel ∧ ∀ v rest, r = .ok (v, rest) → rest.length < n

theorem goodLt_consChar (n : Nat) (c : Char) (r : PRes (List Char)) (h : GoodLt n r) : GoodLt n (consChar c r) := by
  unfold consChar
  split
  · rename_i s rest
    refine ⟨by simp, ?_⟩
    intro v rest' hv
    simp only [Except.ok.injEq, Prod.mk.injEq] at hv
    rw [← hv.2]; exact h.2 s rest rfl
  · rename_i e
    refine ⟨?_, by intro v rest hv; exact absurd hv (by simp)⟩
    intro hc; injection hc with hc; subst hc; exact h.1 rfl

theorem goodLt_mono {α : Type} {n m : Nat} {r : PRes α} (h : GoodLt n r) (hnm : n ≤ m) : GoodLt m r :=
  ⟨h.1, fun v rest hr => Nat.lt_of_lt_of_le (h.2 v rest hr) hnm⟩

theorem goodLt_strChars : ∀ (n : Nat) (cs : List Char), cs.length = n → GoodLt cs.length (parseStrChars cs) := by
  intro n
  induction n using Nat.strongRecOn with
  | _ n ih =>
    intro cs hn
    cases cs with
    | nil => rw [parseStrChars]; exact ⟨by simp, by intro v rest hv; exact absurd hv (by simp)⟩
    | cons c cs =>
      rw [parseStrChars]
      split
      · exact ⟨by simp, by intro v rest hv; simp only [Except.ok.injEq, Prod.mk.injEq] at hv; rw [← hv.2]; simp⟩
      · split
        · split
          · exact ⟨by simp, by intro v rest hv; exact absurd hv (by simp)⟩
          · rename_i ch rest hesc
            have hl := parseEscape_length hesc
            have := ih rest.length (by simp only [List.length_cons] at hn; omega) rest rfl
            exact goodLt_consChar _ _ _ (goodLt_mono this (by simp only [List.length_cons]; omega))
        · split
          · exact ⟨by simp, by intro v rest hv; exact absurd hv (by simp)⟩
          · have := ih cs.length (by simp only [List.length_cons] at hn; omega) cs rfl
            exact goodLt_consChar _ _ _ (goodLt_mono this (by simp))

theorem goodLt_str (cs : List Char) : GoodLt cs.length (parseStr cs) := by
  unfold parseStr
  have h := goodLt_strChars cs.length cs rfl
  split
  · rename_i s rest hs
    refine ⟨by simp, ?_⟩
    intro v rest' hv
    simp only [Except.ok.injEq, Prod.mk.injEq] at hv
    rw [← hv.2]; exact h.2 s rest hs
  · rename_i e he
    refine ⟨?_, by intro v rest hv; exact absurd hv (by simp)⟩
    intro hc; injection hc with hc; subst hc; exact h.1 he

theorem parseIdent_length (es cs r : List Char) (h : parseIdent es cs = some r) : r.length ≤ cs.length := by
  induction es generalizing cs with
  | nil => simp only [parseIdent, Option.some.injEq] at h; subst h; exact Nat.le_refl _
  | cons e es ih =>
    cases cs with
    | nil => simp [parseIdent] at h
    | cons c cs =>
      simp only [parseIdent] at h
      split at h
      · have := ih cs h; simp only [List.length_cons]; omega
      · exact absurd h (by simp)

theorem skipWs_cons_length {cs : List Char} {c : Char} {r : List Char} (h : skipWs cs = c :: r) : r.length + 1 ≤ cs.length := by
  have := skipWs_length cs; rw [h] at this; simpa using this

def Fueled (fo : FloatOracle) (fuel : Nat) : Prop :=
  (∀ depth cs, 2 * cs.length + 2 ≤ fuel → GoodLt cs.length (parseValue fo fuel depth cs)) ∧
  (∀ depth first cs, 2 * cs.length + 3 ≤ fuel → Good cs.length (parseElems fo fuel depth first cs)) ∧
  (∀ depth first cs, 2 * cs.length + 3 ≤ fuel → Good cs.length (parseMembers fo fuel depth first cs))

theorem goodLt_err {α : Type} (n : Nat) (e : PErr) (h : e ≠ .fuel) : GoodLt (α := α) n (.error e) :=
  ⟨by intro hc; injection hc with hc; exact h hc, by intro v rest hc; exact absurd hc (by simp)⟩

theorem goodLt_ok {α : Type} (n : Nat) (v : α) (rest : List Char) (h : rest.length < n) : GoodLt n (.ok (v, rest)) :=
  ⟨by simp, by intro v' rest' hc; simp only [Except.ok.injEq, Prod.mk.injEq] at hc; rw [← hc.2]; exact h⟩

theorem fueled_value_step (fo : FloatOracle) (f : Nat) (ih : Fueled fo f) (depth : Nat) (cs : List Char)
    (hf : 2 * cs.length + 2 ≤ f + 1) : GoodLt cs.length (parseValue fo (f + 1) depth cs) := by
  rw [parseValue]
  split
  · exact goodLt_err _ _ (by decide)
  · rename_i c r hsk
    have hr := skipWs_cons_length hsk
    split
    · split
      · rename_i r' hi; exact goodLt_ok _ _ _ (by have := parseIdent_length _ _ _ hi; omega)
      · exact goodLt_err _ _ (by decide)
    split
    · split
      · rename_i r' hi; exact goodLt_ok _ _ _ (by have := parseIdent_length _ _ _ hi; omega)
      · exact goodLt_err _ _ (by decide)
    split
    · split
      · rename_i r' hi; exact goodLt_ok _ _ _ (by have := parseIdent_length _ _ _ hi; omega)
      · exact goodLt_err _ _ (by decide)
    split
    · have h := good_numTok fo c r
      exact ⟨h.1, fun v rest hv => by have := h.2 v rest hv; omega⟩
    split
    · have h := goodLt_str r
      split
      · rename_i s r' hs; exact goodLt_ok _ _ _ (by have := h.2 s r' hs; omega)
      · rename_i e he; exact goodLt_err _ _ (by intro hc; subst hc; exact h.1 he)
    split
    · split
      · exact goodLt_err _ _ (by decide)
      · have h := ih.2.1 (depth - 1) true r (by omega)
        split
        · rename_i e he; exact goodLt_err _ _ (by intro hc; subst hc; exact h.1 he)
        · rename_i vs r2 he
          have h2 := h.2 vs r2 he
          split
          · exact goodLt_err _ _ (by decide)
          · rename_i c' r' hsk2
            have := skipWs_cons_length hsk2
            split
            · exact goodLt_ok _ _ _ (by omega)
            · exact goodLt_err _ _ (by decide)
    split
    · split
      · exact goodLt_err _ _ (by decide)
      · have h := ih.2.2 (depth - 1) true r (by omega)
        split
        · rename_i e he; exact goodLt_err _ _ (by intro hc; subst hc; exact h.1 he)
        · rename_i kvs r2 he
          have h2 := h.2 kvs r2 he
          split
          · exact goodLt_err _ _ (by decide)
          · rename_i c' r' hsk2
            have := skipWs_cons_length hsk2
            split
            · exact goodLt_ok _ _ _ (by omega)
            · exact goodLt_err _ _ (by decide)
    · exact goodLt_err _ _ (by decide)

theorem start_length {c : Char} {first : Bool} {rest : List Char} {c' : Char} {rest' : List Char}
    (h : (if (decide (c = ',') && !first) = true then some (skipWs rest) else if first = true then some (c :: rest) else none)
      = some (c' :: rest')) : rest'.length + 1 ≤ rest.length + 1 := by
  split at h
  · simp only [Option.some.injEq] at h
    have := skipWs_cons_length h; omega
  · split at h
    · simp only [Option.some.injEq, List.cons.injEq] at h; rw [← h.2]; omega
    · exact absurd h (by simp)

theorem fueled_elems_step (fo : FloatOracle) (f : Nat) (ih : Fueled fo f) (depth : Nat) (first : Bool) (cs : List Char)
    (hf : 2 * cs.length + 3 ≤ f + 1) : Good cs.length (parseElems fo (f + 1) depth first cs) := by
  rw [parseElems]
  split
  · exact good_err _ _ (by decide)
  · rename_i c rest hsk
    have hr := skipWs_cons_length hsk
    split
    · exact good_ok _ _ _ (by simp only [List.length_cons]; omega)
    · simp only
      split
      · exact good_err _ _ (by decide)
      · exact good_err _ _ (by decide)
      · rename_i c' rest' hst
        have hl := start_length hst
        split
        · exact good_err _ _ (by decide)
        · have hv := ih.1 depth (c' :: rest') (by simp only [List.length_cons]; omega)
          split
          · rename_i e he; exact good_err _ _ (by intro hc; subst hc; exact hv.1 he)
          · rename_i v r he
            have h2 := hv.2 v r he
            simp only [List.length_cons] at h2
            have hvs := ih.2.1 depth false r (by omega)
            split
            · rename_i e he2; exact good_err _ _ (by intro hc; subst hc; exact hvs.1 he2)
            · rename_i vs r2 he2
              exact good_ok _ _ _ (by have := hvs.2 vs r2 he2; omega)

theorem fueled_members_step (fo : FloatOracle) (f : Nat) (ih : Fueled fo f) (depth : Nat) (first : Bool) (cs : List Char)
    (hf : 2 * cs.length + 3 ≤ f + 1) : Good cs.length (parseMembers fo (f + 1) depth first cs) := by
  rw [parseMembers]
  split
  · exact good_err _ _ (by decide)
  · rename_i c rest hsk
    have hr := skipWs_cons_length hsk
    split
    · exact good_ok _ _ _ (by simp only [List.length_cons]; omega)
    · simp only
      split
      · exact good_err _ _ (by decide)
      · exact good_err _ _ (by decide)
      · rename_i c' rest' hst
        have hl := start_length hst
        split
        · have hs := goodLt_str rest'
          split
          · rename_i e he; exact good_err _ _ (by intro hc; subst hc; exact hs.1 he)
          · rename_i k r he
            have h1 := hs.2 k r he
            split
            · exact good_err _ _ (by decide)
            · rename_i c2 r1 hsk2
              have h2 := skipWs_cons_length hsk2
              split
              · have hv := ih.1 depth r1 (by omega)
                split
                · rename_i e he2; exact good_err _ _ (by intro hc; subst hc; exact hv.1 he2)
                · rename_i v r2 he2
                  have h3 := hv.2 v r2 he2
                  have hm := ih.2.2 depth false r2 (by omega)
                  split
                  · rename_i e he3; exact good_err _ _ (by intro hc; subst hc; exact hm.1 he3)
                  · rename_i kvs r3 he3
                    exact good_ok _ _ _ (by have := hm.2 kvs r3 he3; omega)
              · exact good_err _ _ (by decide)
        · exact good_err _ _ (by decide)

theorem fueled (fo : FloatOracle) : ∀ fuel, Fueled fo fuel
  | 0 => ⟨fun _ cs h => by omega, fun _ _ cs h => by omega, fun _ _ cs h => by omega⟩
  | f + 1 =>
    have ih := fueled fo f
    ⟨fueled_value_step fo f ih, fueled_elems_step fo f ih, fueled_members_step fo f ih⟩

/-- **the out-of-fuel artefact is unreachable** from `JVal.parseList` (hence from `parseWith`/`parse`):
a rejection by the model is always a rejection for a reason serde_json has -/
theorem parseList_ne_fuel (fo : FloatOracle) (limit : Nat) (cs : List Char) : JVal.parseList fo limit cs ≠ .error .fuel := by
  unfold JVal.parseList
  have h := (fueled fo (2 * cs.length + 8)).1 limit cs (by omega)
  split
  · rename_i e he; intro hc; injection hc with hc; subst hc; exact h.1 he
  · split
    · simp
    · simp
end AquaProps.JsonLemmas
