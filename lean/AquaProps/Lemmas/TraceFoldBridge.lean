import AquaProps.Lemmas.TraceFoldWF
/-!
# From the batch layout built by the fold FSM to the executable clause `wfFoldAt` (C10)

`wfFoldAt` re-reads the lore the way the merger does: batches are the maximal runs of one value generation.  The
trace handler never looks at generations; that the batches it is driven with are exactly the generation runs
(one generation per `meet_generation_end`, adjacent batches of different generations) is a fact about the
executor's stream iteration (`RecursiveStreamCursor`, `Stream::slice_iter`, `compactify`) and enters as the
hypothesis `GroupsGen`.
-/
set_option linter.unusedSimpArgs false
set_option linter.unnecessarySimpa false

namespace Aqua.Trace
open Aqua Aqua.Data

/-- executor-side condition: the values of one batch carry one generation in the trace `t`, adjacent batches
carry different generations (`pg` = generation of the batch before) -/
def GroupsGen (t : Trace) : Option Nat → List (List FoldSubTraceLore) → Prop
  | _, [] => True
  | pg, lb :: rest =>
    ∃ g, (∀ l ∈ lb, valueGeneration t l.valuePos = some g) ∧ pg ≠ some g ∧ GroupsGen t (some g) rest

theorem loreIter_vp {l : FoldSubTraceLore} {it : Iter} (h : loreIter l = some it) : it.vp = l.valuePos := by
  unfold loreIter at h
  split at h
  · simp only [Option.some.injEq] at h; subst h; rfl
  · simp at h

theorem loreIters_batch {t : Trace} {lore : List FoldSubTraceLore} {its : List Iter} {g : Nat}
    (h : lore.mapM loreIter = some its) (hg : ∀ l ∈ lore, valueGeneration t l.valuePos = some g) :
    loreIters t lore = some (its.map fun it => (g, it)) := by
  unfold loreIters
  induction lore generalizing its with
  | nil => simp at h; subst h; simp
  | cons l rest ih =>
    simp only [List.mapM_cons, Option.bind_eq_bind, Option.bind_eq_some_iff, Option.pure_def, Option.some.injEq] at h
    obtain ⟨it, hit, its', hits, rfl⟩ := h
    have hv : valueGeneration t it.vp = some g := by rw [loreIter_vp hit]; exact hg l (by simp)
    simp [List.mapM_cons, hit, hv, ih hits (fun x hx => hg x (by simp [hx]))]

theorem spanGen_batch (g : Nat) (its : List Iter) (rest : List (Nat × Iter))
    (hr : ∀ g' it, rest.head? = some (g', it) → g' ≠ g) :
    spanGen g (its.map (fun it => (g, it)) ++ rest) = (its, rest) := by
  induction its with
  | nil =>
    cases rest with
    | nil => rfl
    | cons p tl =>
      obtain ⟨g', it⟩ := p
      have := hr g' it rfl
      simp [spanGen, this]
  | cons it tl ih => simp [spanGen, ih]

theorem tile_of_batches {t : Trace} {c e : Nat} {lbs : List (List FoldSubTraceLore)} (h : BatchesTile c lbs e) :
    ∀ pg, GroupsGen t pg lbs →
      ∃ gits, loreIters t lbs.flatten = some gits ∧ (∀ fuel, gits.length ≤ fuel → tileLore fuel c gits = some e) ∧
        ∀ g it, gits.head? = some (g, it) → pg ≠ some g := by
  induction h with
  | nil c =>
    intro pg _
    exact ⟨[], by simp [loreIters], fun fuel _ => by cases fuel <;> rfl, fun _ _ h => by simp at h⟩
  | batch c m e lore its rest hits hne hbe _ ih =>
    intro pg hg
    obtain ⟨g, hall, hpg, hrest⟩ := hg
    obtain ⟨gr, hgr, htile, hhead⟩ := ih (some g) hrest
    have hb := loreIters_batch hits hall
    refine ⟨its.map (fun it => (g, it)) ++ gr, ?_, ?_, ?_⟩
    · unfold loreIters at hb hgr ⊢
      rw [List.flatten_cons, List.mapM_append, hb, hgr]; rfl
    · intro fuel hf
      cases its with
      | nil => exact absurd rfl hne
      | cons it1 its' =>
        cases fuel with
        | zero => simp at hf
        | succ fuel =>
          simp only [List.map_cons, List.cons_append, tileLore]
          rw [spanGen_batch g its' gr (fun g' it h => by have := hhead g' it h; intro hh; exact this (by rw [hh]))]
          simp only [hbe, Option.bind_some]
          apply htile
          simp only [List.length_cons, List.length_append, List.length_map] at hf
          omega
    · intro g' it' hh
      cases its with
      | nil => exact absurd rfl hne
      | cons it1 its' =>
        simp only [List.map_cons, List.cons_append, List.head?_cons, Option.some.injEq, Prod.mk.injEq] at hh
        rw [← hh.1]; exact hpg

/-- the fold clause of `wfTrace` for a fold entry whose lore is laid out in batches that coincide with the
generation runs -/
theorem wfFoldAt_of_batches {t : Trace} {F e : Nat} {lbs : List (List FoldSubTraceLore)}
    (h : BatchesTile (F + 1) lbs e) (hg : GroupsGen t none lbs) (he : e ≤ t.length) :
    wfFoldAt t F lbs.flatten = true := by
  obtain ⟨gits, h1, h2, _⟩ := tile_of_batches h none hg
  unfold wfFoldAt
  rw [h1]
  simp only [h2 gits.length (Nat.le_refl _)]
  simpa using he

end Aqua.Trace
