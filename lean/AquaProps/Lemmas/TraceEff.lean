import AquaProps.Lemmas.TraceFoldOps
/-!
# What one operation does to the result trace (C10): appends at most one state, rewrites at most the one
position reserved by the FSM it closes (or the position named by `update_generation`)
-/
set_option linter.unusedSimpArgs false

namespace Aqua.Trace
open Aqua Aqua.Data

/-- the one position an operation may rewrite -/
def HOp.rewrites (op : HOp) (h : TraceHandler) : Option Nat :=
  match op with
  | .parEnd .right => h.parStack.head?.map (·.inserterPos)
  | .foldEnd id => (h.fsm id).map (·.inserterPos)
  | .updateGeneration p _ => some p
  | _ => none

theorem getElem?_setAt_ne {α : Type} (l : List α) (p i : Nat) (x : α) (h : p ≠ i) : (setAt l p x)[i]? = l[i]? := by
  unfold setAt; exact List.getElem?_set_ne h

theorem trace_eff {h h' : TraceHandler} (op : HOp) (e : op.apply h = some h') :
    ∃ t0 suffix, h'.tr = t0 ++ suffix ∧ t0.length = h.tr.length ∧ suffix.length ≤ 1 ∧
      ∀ i, op.rewrites h ≠ some i → t0[i]? = h.tr[i]? := by
  have same : ∀ {h' : TraceHandler}, h'.tr = h.tr → ∃ t0 suffix, h'.tr = t0 ++ suffix ∧ t0.length = h.tr.length ∧
      suffix.length ≤ 1 ∧ ∀ i, op.rewrites h ≠ some i → t0[i]? = h.tr[i]? :=
    fun ht => ⟨h.tr, [], by simp [ht], rfl, by simp, fun _ _ => rfl⟩
  have push : ∀ {h' : TraceHandler} (s : ExecutedState), h'.tr = h.tr ++ [s] → ∃ t0 suffix, h'.tr = t0 ++ suffix ∧
      t0.length = h.tr.length ∧ suffix.length ≤ 1 ∧ ∀ i, op.rewrites h ≠ some i → t0[i]? = h.tr[i]? :=
    fun s ht => ⟨h.tr, [s], ht, rfl, by simp, fun _ _ => rfl⟩
  have rew : ∀ {h' : TraceHandler} (p : Nat) (x : ExecutedState), h'.tr = setAt h.tr p x → op.rewrites h = some p →
      ∃ t0 suffix, h'.tr = t0 ++ suffix ∧ t0.length = h.tr.length ∧ suffix.length ≤ 1 ∧
        ∀ i, op.rewrites h ≠ some i → t0[i]? = h.tr[i]? := by
    intro h' p x ht hr
    refine ⟨setAt h.tr p x, [], by simp [ht], by simp [setAt], by simp, ?_⟩
    intro i hi
    rw [hr] at hi
    exact getElem?_setAt_ne _ _ _ _ (by simpa using hi)
  cases op with
  | callStart =>
    simp only [HOp.apply, Option.map_eq_some_iff, resOk_eq_some] at e
    obtain ⟨⟨r, h1⟩, e, rfl⟩ := e
    exact same (meetCallStart_eff e).1
  | apStart =>
    simp only [HOp.apply, Option.map_eq_some_iff, resOk_eq_some] at e
    obtain ⟨⟨r, h1⟩, e, rfl⟩ := e
    exact same (meetApStart_eff e).1
  | canonStart =>
    simp only [HOp.apply, Option.map_eq_some_iff, resOk_eq_some] at e
    obtain ⟨⟨r, h1⟩, e, rfl⟩ := e
    exact same (meetCanonStart_eff e).1
  | callEnd c => simp only [HOp.apply, Option.some.injEq] at e; subst e; exact push _ rfl
  | apEnd gs => simp only [HOp.apply, Option.some.injEq] at e; subst e; exact push _ rfl
  | canonEnd c => simp only [HOp.apply, Option.some.injEq] at e; subst e; exact push _ rfl
  | parStart =>
    simp only [HOp.apply, resOk_eq_some] at e
    obtain ⟨f, _, _, _, ht, _⟩ := meetParStart_eff e
    exact push _ ht
  | parEnd t =>
    simp only [HOp.apply, resOk_eq_some] at e
    cases t with
    | left =>
      obtain ⟨_, _, _, _, ht, _⟩ := meetParSubgraphEnd_left_eff e
      exact same ht
    | right =>
      obtain ⟨f, rest, hst, _, ht, _⟩ := meetParSubgraphEnd_right_eff e
      exact rew _ _ ht (by simp [HOp.rewrites, hst])
  | foldStart id =>
    simp only [HOp.apply, resOk_eq_some] at e
    obtain ⟨f, ht, _⟩ := meetFoldStart_eff e
    exact push _ ht
  | iterStart id vp =>
    simp only [HOp.apply, resOk_eq_some] at e
    obtain ⟨f, f', _, hk, _⟩ := meetIterationStart_eff e
    exact same (FoldFSM.meetIterationStart_eff hk).1
  | iterEnd id =>
    simp only [HOp.apply, resOk_eq_some] at e
    obtain ⟨f, f', _, _, hkeep, _⟩ := meetIterationEnd_eff e
    exact same (by simp [TraceHandler.tr, hkeep])
  | backIter id =>
    simp only [HOp.apply, resOk_eq_some] at e
    obtain ⟨f, f', _, hk, _⟩ := meetBackIterator_eff e
    cases hst : f.backTraversalStarted with
    | false =>
      obtain ⟨_, _, _, _, _, ht, _⟩ := FoldFSM.meetBackIterator_first_eff hst hk
      exact same ht
    | true =>
      obtain ⟨_, _, _, _, _, _, _, ht, _⟩ := FoldFSM.meetBackIterator_next_eff hst hk
      exact same ht
  | genEnd id =>
    simp only [HOp.apply, resOk_eq_some] at e
    obtain ⟨f, f', _, _, hkeep, _⟩ := meetGenerationEnd_eff e
    exact same (by simp [TraceHandler.tr, hkeep])
  | foldEnd id =>
    simp only [HOp.apply, resOk_eq_some] at e
    obtain ⟨f, hf, ht, _⟩ := meetFoldEnd_eff e
    exact rew _ _ ht (by simp [HOp.rewrites, hf])
  | updateGeneration p gen =>
    simp only [HOp.apply, resOk_eq_some] at e
    obtain ⟨_, _, hcase⟩ := updateGeneration_eff e
    rcases hcase with ⟨gens, hp, ht⟩ | ⟨cid, g0, hp, ht⟩
    all_goals exact rew _ _ ht (by simp [HOp.rewrites])

end Aqua.Trace
