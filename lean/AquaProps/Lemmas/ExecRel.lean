import AquaProps.Lemmas.Rel
import AquaProps.Lemmas.Post
/-!
# One induction for every invariant of the executor (DESIGN.md §5.1)

`exec_rel`: for ANY preorder `R` on contexts, if `R` holds across each *primitive* state update the
executor performs (`ExecPrims R` — a finite list of concrete updates: pushing a state, registering a
content id, issuing a request, forwarding, trace-handler transitions, plus "control" updates that touch
only scalars / error slots / the completeness flag), then `R` relates the context before and after
executing ANY script with ANY fuel from ANY context — whether the execution succeeds, fails or panics.

Property files instantiate `R` and discharge the primitives; the induction over the fuelled mutual
recursion (`exec` / `execInner` / `execSubgraph`) is done once, here.
-/
namespace AquaProps
open Aqua Aqua.Exec Aqua.Air Aqua.Trace Aqua.Json Aqua.Data

/-- everything except the control fields (`scalars`, `lastError`, `error`, `subgraphComplete`) is unchanged -/
structure SameData (c c' : Ctx) : Prop where
  next : c'.nextPeerPks = c.nextPeerPks
  init : c'.initPeerId = c.initPeerId
  me : c'.currentPeerId = c.currentPeerId
  ts : c'.timestamp = c.timestamp
  ttl : c'.ttl = c.ttl
  lcid : c'.lastCallRequestId = c.lastCallRequestId
  results : c'.callResults = c.callResults
  reqs : c'.callRequests = c.callRequests
  cid : c'.cid = c.cid
  peerCids : c'.peerCids = c.peerCids
  th : c'.th = c.th
  streams : c'.streams = c.streams
  foldCount : c'.foldStreamCount = c.foldStreamCount

theorem SameData.rfl' (c : Ctx) : SameData c c := ⟨rfl, rfl, rfl, rfl, rfl, rfl, rfl, rfl, rfl, rfl, rfl, rfl, rfl⟩

/-! ### the primitive updates, named -/

/-- failing service: track the failure value, register the id, push `Failed` -/
def updFailedService (env : Env) (t : Tetraplet) (argHash : String) (sr : CallServiceResult) (c : Ctx) : Ctx :=
  let failed := callServiceFailedValue sr.retCode sr.result
  let (cid, cs) := trackServiceResult env c.cid failed t argHash
  let c := ({ c with cid := cs }).recordCallCid t.peerPk cid
  { c with th := c.th.meetCallEnd (.failed cid) }

/-- successful service result: bind the value, push `Executed` -/
def updServiceResult (env : Env) (result : JVal) (t : Tetraplet) (argHash : String) (out : CallOutput) (c : Ctx) : ER Ctx := do
  let (cr, c') ← populateFromPeerServiceResult env c result t argHash c.th.tracePos out
  pure { c' with th := c'.th.meetCallEnd cr }

/-- a `Failed` state found in the merged data is re-emitted -/
def updPrevFailed (t : Tetraplet) (failedCid : Cid) (st : CallResult) (c : Ctx) : Ctx :=
  let c := c.recordCallCid t.peerPk failedCid
  { c with th := c.th.meetCallEnd st }

def updDropResult (key : String) (c : Ctx) : Ctx :=
  { c with callResults := c.callResults.filter (fun (k, _) => k != key) }

/-- an `Executed` state found in the merged data is re-emitted after its value was bound -/
def updPrevExecuted (t : Tetraplet) (value : ValueRef) (c : Ctx) : Ctx :=
  let c := match value with
    | .scalar cid | .stream cid _ => c.recordCallCid t.peerPk cid
    | .unused _ => c
  { c with th := c.th.meetCallEnd (.executed value) }

def updRemoteCall (t : Tetraplet) (c : Ctx) : Ctx :=
  { c with nextPeerPks := c.nextPeerPks ++ [t.peerPk], subgraphComplete := false,
           th := c.th.meetCallEnd (.requestSentBy (.peerId c.currentPeerId)) }

/-- only the stream store (and control fields) changed -/
structure SameButStreams (c c' : Ctx) : Prop where
  next : c'.nextPeerPks = c.nextPeerPks
  init : c'.initPeerId = c.initPeerId
  me : c'.currentPeerId = c.currentPeerId
  ts : c'.timestamp = c.timestamp
  ttl : c'.ttl = c.ttl
  lcid : c'.lastCallRequestId = c.lastCallRequestId
  results : c'.callResults = c.callResults
  reqs : c'.callRequests = c.callRequests
  cid : c'.cid = c.cid
  peerCids : c'.peerCids = c.peerCids
  th : c'.th = c.th
  foldCount : c'.foldStreamCount = c.foldStreamCount

/-- the fold-related trace-handler transitions (they push or rewrite `fold` entries only) -/
inductive FoldOp (th th' : TraceHandler) : Prop where
  | foldStart (id : Nat) (h : th.meetFoldStart id = .ok th')
  | iterationStart (id pos : Nat) (h : th.meetIterationStart id pos = .ok th')
  | iterationEnd (id : Nat) (h : th.meetIterationEnd id = .ok th')
  | backIterator (id : Nat) (h : th.meetBackIterator id = .ok th')
  | generationEnd (id : Nat) (h : th.meetGenerationEnd id = .ok th')
  | foldEnd (id : Nat) (h : th.meetFoldEnd id = .ok th')

/-- first canonicalisation at the designated peer: snapshot and tracking in the CID stores -/
def updCanonTrack (env : Env) (target : CanonTarget) (stream : String) (streamPos : Nat) (peerId : String) (c : Ctx) : (CanonStream × Cid) × Ctx :=
  let cs : CanonStream := canonProduce target c stream streamPos peerId
  let (cid, st) := trackCanonResult env c.cid cs
  ((cs, cid), { c with cid := st })

/-- registering the canon id, binding the canon stream / canon map / scalar and pushing `Executed(cid)` -/
def updCanonFinish (target : CanonTarget) (cs : CanonStream) (cid : Cid) (registerFor : String) (c : Ctx) : ER Ctx := do
  let sc ← canonBind target cs cid c
  let c := c.recordCanonCid registerFor cid
  pure { c with scalars := sc, th := c.th.meetCanonEnd (.executed cid) }

structure ExecPrims (R : Ctx → Ctx → Prop) : Prop where
  pre : Preorder' R
  /-- control-only updates (scalars, error slots, completeness flag) -/
  ctl : ∀ c c', SameData c c' → R c c'
  /-- trace-handler transitions that push no call/ap/canon state: `meet_call_start`, `meet_par_start`,
  `meet_par_subgraph_end` -/
  thCallStart : ∀ c met th', c.th.meetCallStart = .ok (met, th') → R c { c with th := th' }
  thParStart : ∀ c th', c.th.meetParStart = .ok th' → R c { c with th := th' }
  thParEnd : ∀ c t th', c.th.meetParSubgraphEnd t = .ok th' → R c { c with th := th' }
  /-- re-emitting a request state taken from the merged data -/
  pushRequest : ∀ c s, R c { c with th := c.th.meetCallEnd (.requestSentBy s) }
  failedService : ∀ env t ah sr c, R c (updFailedService env t ah sr c)
  serviceResult : ∀ env result t ah out c c', updServiceResult env result t ah out c = .ok c' → R c c'
  prevFailed : ∀ t cid c, R c (updPrevFailed t cid (.failed cid) c)
  dropResult : ∀ key c, R c (updDropResult key c)
  prevExecutedBind : ∀ env c value ah t pos out src c', populateFromData env c value ah t pos out src = .ok c' → R c c'
  prevExecuted : ∀ t value c, R c (updPrevExecuted t value c)
  /-- a local request is issued (only for `t.peerPk = c.currentPeerId`) -/
  issue : ∀ t args c c', t.peerPk = c.currentPeerId → issueRequest t args c = .ok c' → R c c'
  /-- forwarding to another peer (only for `t.peerPk ≠ c.currentPeerId`) -/
  remote : ∀ t c, t.peerPk ≠ c.currentPeerId → R c (updRemoteCall t c)
  /-- stream-store updates: appending a value, moving a fold cursor, opening a `new` scope -/
  streamUpd : ∀ c c', SameButStreams c c' → R c c'
  thApStart : ∀ c met th', c.th.meetApStart = .ok (met, th') → R c { c with th := th' }
  pushAp : ∀ c, R c { c with th := c.th.meetApEnd [generationStub] }
  thCanonStart : ∀ c met th', c.th.meetCanonStart = .ok (met, th') → R c { c with th := th' }
  canonTrack : ∀ env target stream pos peerId c, R c (updCanonTrack env target stream pos peerId c).2
  canonFinish : ∀ name cs cid reg c c', updCanonFinish name cs cid reg c = .ok c' → R c c'
  /-- a canon request found in the data is re-emitted; a canon addressed elsewhere is marked as sent -/
  canonPushRequest : ∀ c sender, R c { c with subgraphComplete := false, th := c.th.meetCanonEnd (.requestSentBy sender) }
  canonRemote : ∀ c peerId, peerId ≠ c.currentPeerId →
    R c { c with subgraphComplete := false, nextPeerPks := c.nextPeerPks ++ [peerId], th := c.th.meetCanonEnd (.requestSentBy c.currentPeerId) }
  foldCount : ∀ c, R c { c with foldStreamCount := c.foldStreamCount + 1 }
  thFoldOp : ∀ c th', FoldOp c.th th' → R c { c with th := th' }
  /-- closing a `new $stream` scope: the instance is dropped and its generations are written into the trace -/
  scopeEnd : ∀ name c c', c.streamScopeEnd name = .ok c' → R c c'

theorem sameData_withScalars {c c' : Ctx} {g : Scalars → ER Scalars} (h : withScalars c g = .ok c') : SameData c c' := by
  unfold withScalars at h
  cases hg : g c.scalars with
  | ok sc => simp [hg, Res.bind] at h; subst h; exact ⟨rfl, rfl, rfl, rfl, rfl, rfl, rfl, rfl, rfl, rfl, rfl, rfl, rfl⟩
  | error e => simp [hg, Res.bind] at h
  | panic s => simp [hg, Res.bind] at h

theorem sameData_withScalarsRet {α} {c c' : Ctx} {a : α} {g : Scalars → ER (α × Scalars)} (h : withScalarsRet c g = .ok (a, c')) : SameData c c' := by
  unfold withScalarsRet at h
  cases hg : g c.scalars with
  | ok p => obtain ⟨a', sc⟩ := p; simp [hg, Res.bind] at h; obtain ⟨_, rfl⟩ := h; exact ⟨rfl, rfl, rfl, rfl, rfl, rfl, rfl, rfl, rfl, rfl, rfl, rfl, rfl⟩
  | error e => simp [hg, Res.bind] at h
  | panic s => simp [hg, Res.bind] at h

theorem res_bind_ok'' {ε α β : Type} {x : Res ε α} {f : α → Res ε β} {b : β} (h : (x >>= f) = .ok b) :
    ∃ a, x = .ok a ∧ f a = .ok b := by
  cases x with
  | ok a => exact ⟨a, rfl, h⟩
  | error e => cases h
  | panic s => cases h

theorem sameButStreams_setStream (c : Ctx) (name : String) (pos : Nat) (s : Stream) : SameButStreams c (c.setStream name pos s) := by
  unfold Ctx.setStream
  split
  · exact ⟨rfl, rfl, rfl, rfl, rfl, rfl, rfl, rfl, rfl, rfl, rfl, rfl⟩
  · split <;> exact ⟨rfl, rfl, rfl, rfl, rfl, rfl, rfl, rfl, rfl, rfl, rfl, rfl⟩

theorem sameButStreams_scopeStart (c : Ctx) (name : String) (l r : Nat) : SameButStreams c (c.streamScopeStart name l r) := by
  unfold Ctx.streamScopeStart
  split <;> exact ⟨rfl, rfl, rfl, rfl, rfl, rfl, rfl, rfl, rfl, rfl, rfl, rfl⟩

theorem sameButStreams_addStreamValue {c c' : Ctx} {v : ValueAggregate} {name : String} {g : Generation} {pos : Nat}
    (h : c.addStreamValue v name g pos = .ok c') : SameButStreams c c' := by
  unfold Ctx.addStreamValue at h
  split at h
  · rename_i s0 _
    cases hs : Stream.addValue s0 v g with
    | ok s' =>
      rw [show (do let s' ← s0.addValue v g; pure (c.setStream name pos s') : ER Ctx) = (s0.addValue v g).bind fun s' => .ok (c.setStream name pos s') from rfl, hs] at h
      injection h with h; subst h; exact sameButStreams_setStream c name pos s'
    | error e =>
      rw [show (do let s' ← s0.addValue v g; pure (c.setStream name pos s') : ER Ctx) = (s0.addValue v g).bind fun s' => .ok (c.setStream name pos s') from rfl, hs] at h
      cases h
    | panic p =>
      rw [show (do let s' ← s0.addValue v g; pure (c.setStream name pos s') : ER Ctx) = (s0.addValue v g).bind fun s' => .ok (c.setStream name pos s') from rfl, hs] at h
      cases h
  · obtain ⟨s', _, h2⟩ := res_bind_ok'' h
    injection h2 with h2; subst h2
    exact ⟨rfl, rfl, rfl, rfl, rfl, rfl, rfl, rfl, rfl, rfl, rfl, rfl⟩

theorem sameButStreams_addStreamMapValue {c c' : Ctx} {k : Lens.StreamMapKey} {v : ValueAggregate} {name : String} {g : Generation} {pos : Nat}
    (h : c.addStreamMapValue k v name g pos = .ok c') : SameButStreams c c' := sameButStreams_addStreamValue h

theorem rel_liftTH_of {R : Ctx → Ctx → Prop} {α : Type} (hR : Preorder' R) (i : Instr) (f : TraceHandler → TR (α × TraceHandler))
    (h : ∀ c a th', f c.th = .ok (a, th') → R c { c with th := th' }) : Rel R (liftTH i f) := by
  unfold liftTH
  apply rel_stateER hR
  intro c a c' hc
  cases hf : f c.th with
  | ok p =>
    obtain ⟨a', th'⟩ := p
    simp [hf, traceToExec, Res.mapErr, Res.bind] at hc
    obtain ⟨_, rfl⟩ := hc
    exact h c a' th' hf
  | error e => simp [hf, traceToExec, Res.mapErr, Res.bind] at hc
  | panic s => simp [hf, traceToExec, Res.mapErr, Res.bind] at hc

theorem rel_liftTH'_of {R : Ctx → Ctx → Prop} (hR : Preorder' R) (i : Instr) (f : TraceHandler → TR TraceHandler)
    (h : ∀ c th', f c.th = .ok th' → R c { c with th := th' }) : Rel R (liftTH' i f) := by
  unfold liftTH'
  apply rel_liftTH_of hR
  intro c a th' hc
  cases hf : f c.th with
  | ok th'' =>
    simp [hf, Res.bind] at hc
    subst hc
    exact h c th'' hf
  | error e => simp [hf, Res.bind] at hc
  | panic s => simp [hf, Res.bind] at hc

section
variable {R : Ctx → Ctx → Prop} (P : ExecPrims R)
include P

theorem ep_inc (c : Ctx) : R c { c with subgraphComplete := false } := P.ctl _ _ ⟨rfl, rfl, rfl, rfl, rfl, rfl, rfl, rfl, rfl, rfl, rfl, rfl, rfl⟩

theorem ep_setErrors (c : Ctx) (e : CatchableErr) (i : String) (t : Option Tetraplet) (b : Bool) : R c (c.setErrors e i t b) := by
  apply P.ctl; unfold Ctx.setErrors; exact ⟨rfl, rfl, rfl, rfl, rfl, rfl, rfl, rfl, rfl, rfl, rfl, rfl, rfl⟩

theorem ep_setErrorsOf (e : ExecErr) (i : Instr) (c : Ctx) : R c (c.setErrorsOf e i) := by
  unfold Ctx.setErrorsOf
  split
  · exact ep_setErrors P _ _ _ _ _
  · exact P.pre.refl c

theorem ep_callSetErrors (i : Instr) (t : Option Tetraplet) (e : ExecErr) (c : Ctx) : R c (callSetErrors i t e c) := by
  unfold callSetErrors
  split
  · split
    · exact P.pre.refl c
    · exact ep_setErrors P _ _ _ _ _
  · exact P.pre.refl c

theorem ep_makeSubgraphIncomplete : Rel R makeSubgraphIncomplete := rel_modifyCtx (ep_inc P)

theorem ep_unwrapHash (s : String) (h : Option String) : Rel R (unwrapHash s h) := by
  unfold unwrapHash; split
  · exact rel_pure P.pre _
  · exact rel_panicM P.pre _

theorem ep_updateStateWithServiceResult (env : Env) (t : Tetraplet) (ah : String) (out : CallOutput) (sr : CallServiceResult) :
    Rel R (updateStateWithServiceResult env t ah out sr) := by
  unfold updateStateWithServiceResult
  split
  · apply rel_bind P.pre
    · apply rel_modifyCtx; intro c; exact P.failedService env t ah sr c
    · intro _; exact rel_throwE P.pre _
  · split
    · apply rel_bind P.pre
      · apply rel_modifyCtx; intro c; exact P.failedService env t ah ⟨i32Max, _⟩ c
      · intro _; exact rel_throwE P.pre _
    · apply rel_modifyER P.pre
      intro c c' h
      exact P.serviceResult env _ t ah out c c' h

/-- states a descriptor may carry: only request states are ever re-emitted through `maybeSetPrevState` -/
def ReqDesc : StateDescriptor → Prop
  | .mk _ (some cr) => ∃ s, cr = .requestSentBy s
  | .mk _ none => True

theorem ep_maybeSetPrevState (s : StateDescriptor) (h : ReqDesc s) : Rel R s.maybeSetPrevState := by
  unfold StateDescriptor.maybeSetPrevState
  cases s with
  | mk b prev =>
    cases prev with
    | none => exact rel_pure P.pre _
    | some cr =>
      obtain ⟨snd, rfl⟩ := h
      exact rel_modifyCtx fun c => P.pushRequest c snd

theorem ep_sentByOther (met : MetCallResult) (t : Tetraplet) (h : ∃ s, met.result = .requestSentBy s) :
    Rel R (sentByOther met t) ∧ Post ReqDesc (sentByOther met t) := by
  unfold sentByOther
  constructor
  · apply rel_bind P.pre (rel_readCtx P.pre _)
    intro me
    split
    · exact rel_pure P.pre _
    · exact rel_bind P.pre (ep_makeSubgraphIncomplete P) fun _ => rel_pure P.pre _
  · apply post_bind; intro me
    split
    · exact post_pure h
    · apply post_bind; intro _; exact post_pure h

theorem ep_handlePrevState (env : Env) (met : MetCallResult) (t : Tetraplet) (ah : Option String) (out : CallOutput) :
    Rel R (handlePrevState env met t ah out) ∧ Post ReqDesc (handlePrevState env met t ah out) := by
  unfold handlePrevState
  split
  · -- failed
    rename_i failedCid hres
    constructor
    · apply rel_bind P.pre (rel_readER P.pre _); intro r
      apply rel_bind P.pre (ep_unwrapHash P _ _); intro h
      apply rel_bind P.pre (rel_readER P.pre _); intro _
      split
      · split
        · exact rel_throwE P.pre _
        · apply rel_bind P.pre
          · apply rel_modifyCtx; intro c
            have := P.prevFailed t failedCid c
            rw [← hres] at this
            exact this
          · intro _; exact rel_throwE P.pre _
      · exact rel_throwE P.pre _
    · apply post_bind; intro _
      apply post_bind; intro _
      apply post_bind; intro _
      split
      · split
        · exact post_throwE _
        · apply post_bind; intro _; exact post_throwE _
      · exact post_throwE _
  · -- own request
    rename_i peer callId hres
    constructor
    · apply rel_bind P.pre (rel_readCtx P.pre _); intro me
      split
      · apply rel_bind P.pre (rel_readCtx P.pre _); intro found
        split
        · apply rel_bind P.pre
          · apply rel_modifyCtx; intro c; exact P.dropResult _ c
          · intro _
            apply rel_bind P.pre (ep_unwrapHash P _ _); intro h
            apply rel_bind P.pre (ep_updateStateWithServiceResult P _ _ _ _ _); intro _
            exact rel_pure P.pre _
        · exact rel_bind P.pre (ep_makeSubgraphIncomplete P) fun _ => rel_pure P.pre _
      · exact (ep_sentByOther P _ _ ⟨_, hres⟩).1
    · apply post_bind; intro me
      split
      · apply post_bind; intro found
        split
        · apply post_bind; intro _
          apply post_bind; intro _
          apply post_bind; intro _
          exact post_pure trivial
        · apply post_bind; intro _; exact post_pure ⟨_, hres⟩
      · exact (ep_sentByOther P _ _ ⟨_, hres⟩).2
  · rename_i s hres
    exact ep_sentByOther P _ _ ⟨_, hres⟩
  · -- executed
    rename_i value hres
    constructor
    · apply rel_bind P.pre (ep_unwrapHash P _ _); intro h
      apply rel_bind P.pre
      · apply rel_modifyER P.pre; intro c c' hc; exact P.prevExecutedBind _ _ _ _ _ _ _ _ _ hc
      · intro _
        apply rel_bind P.pre
        · apply rel_modifyCtx; intro c; exact P.prevExecuted t value c
        · intro _; exact rel_pure P.pre _
    · apply post_bind; intro _
      apply post_bind; intro _
      apply post_bind; intro _
      exact post_pure trivial

theorem ep_dispatch (t : Tetraplet) (args : List Value) (state : StateDescriptor) (hs : ReqDesc state) :
    Rel R (dispatch t args state) := by
  intro c
  unfold dispatch
  show R c ((M.bind (readCtx (·.currentPeerId)) _) c).2
  simp only [M.bind, readCtx]
  split
  · rename_i hne
    simp only [handleRemoteCall, modifyCtx]
    exact P.remote t c (by simpa using hne)
  · rename_i heq
    have ht : t.peerPk = c.currentPeerId := by simpa using heq
    show R c ((M.bind (tryM (modifyER (issueRequest t args))) _) c).2
    simp only [M.bind, tryM, modifyER]
    cases hi : issueRequest t args c with
    | ok c' => simp only; exact P.issue t args c c' ht hi
    | error e =>
      simp only
      split
      · have : Rel R (do state.maybeSetPrevState; throwE e : M Unit) :=
          rel_bind P.pre (ep_maybeSetPrevState P state hs) fun _ => rel_throwE P.pre _
        exact this c
      · exact P.pre.refl c
    | panic s => exact P.pre.refl c

theorem ep_resolvedExecute (env : Env) (i : Instr) (t : Tetraplet) (args : List Value) (out : CallOutput) :
    Rel R (resolvedExecute env i t args out) := by
  unfold resolvedExecute
  apply rel_bind P.pre (rel_readER P.pre _); intro checked
  apply rel_bind P.pre
  · unfold liftTH
    apply rel_stateER P.pre
    intro c a c' h
    cases hf : c.th.meetCallStart with
    | ok p =>
      obtain ⟨met, th'⟩ := p
      simp [hf, traceToExec, Res.mapErr, Res.bind] at h
      obtain ⟨_, rfl⟩ := h
      exact P.thCallStart c met th' hf
    | error e => simp [hf, traceToExec, Res.mapErr, Res.bind] at h
    | panic s => simp [hf, traceToExec, Res.mapErr, Res.bind] at h
  · intro met
    have hprep : Rel R (prepareState env met t (checked.map fun vs => env.hash (argsJson vs)) out) ∧
        Post ReqDesc (prepareState env met t (checked.map fun vs => env.hash (argsJson vs)) out) := by
      unfold prepareState; split
      · exact ep_handlePrevState P _ _ _ _ _
      · exact ⟨rel_pure P.pre _, post_pure trivial⟩
    apply rel_bind_post P.pre hprep.1 hprep.2
    intro state hstate
    unfold afterState
    split
    split
    · exact ep_maybeSetPrevState P _ hstate
    · exact ep_dispatch P _ _ _ hstate

theorem ep_execCall (env : Env) (i : Instr) (p s f : Value) (args : List Value) (out : CallOutput) :
    Rel R (execCall env i p s f args out) := by
  unfold execCall
  apply rel_bind P.pre
  · exact rel_joinable P.pre (rel_onError P.pre (rel_readER P.pre _) (ep_callSetErrors P i none)) (ep_inc P)
  · intro r
    split
    · exact rel_pure P.pre _
    · apply rel_bind P.pre
      · exact rel_joinable P.pre (rel_onError P.pre (ep_resolvedExecute P _ _ _ _ _) (ep_callSetErrors P i _)) (ep_inc P)
      · intro _; exact rel_pure P.pre _

macro "ctlstep" : tactic => `(tactic| (apply ExecPrims.ctl (by assumption); exact ⟨rfl, rfl, rfl, rfl, rfl, rfl, rfl, rfl, rfl, rfl, rfl, rfl, rfl⟩))

theorem ep_failWithErrorObject (v : JVal) (t : Option Tetraplet) (p : Provenance) : Rel R (failWithErrorObject v t p) := by
  unfold failWithErrorObject
  apply rel_bind P.pre
  · apply rel_modifyCtx; intro c; ctlstep
  · intro _; exact rel_throwE P.pre _

theorem ep_execFail (arg : FailArg) : Rel R (execFail arg) := by
  unfold execFail
  apply rel_bind P.pre (rel_readER P.pre _); intro r
  split
  · unfold execFailError
    apply rel_bind P.pre (rel_readCtx P.pre _); intro orig
    apply rel_bind P.pre (rel_tryM (ep_failWithErrorObject P _ _ _)); intro res
    apply rel_bind P.pre
    · apply rel_modifyCtx; intro c; ctlstep
    · intro _; split
      · exact rel_throwE P.pre _
      · exact rel_reraise P.pre _
  · exact ep_failWithErrorObject P _ _ _

theorem ep_setScalar (name : String) (v : ValueAggregate) : Rel R (setScalar name v) := by
  unfold setScalar
  exact rel_modifyER P.pre fun c c' h => P.ctl _ _ (sameData_withScalars h)

theorem ep_execAp (arg : Value) (out : CallOutput) : Rel R (execAp arg out) := by
  unfold execAp
  split
  · apply rel_bind P.pre (rel_joinable P.pre (rel_readER P.pre _) (ep_inc P)); intro r
    split
    · exact rel_pure P.pre _
    · exact ep_setScalar P _ _
  · exact rel_throwE P.pre _

theorem ep_xorEnterRight (e : CatchableErr) (c : Ctx) : R c (xorEnterRight e c) := by
  unfold xorEnterRight; ctlstep

theorem ep_xorLeaveRight (b : Bool) (c : Ctx) : R c (xorLeaveRight b c) := by
  apply P.ctl
  unfold xorLeaveRight
  refine ⟨?_, ?_, ?_, ?_, ?_, ?_, ?_, ?_, ?_, ?_, ?_, ?_, ?_⟩ <;> (simp only []; split <;> split <;> rfl)

theorem ep_liftTH'_parStart (i : Instr) : Rel R (liftTH' i (fun th => th.meetParStart)) := by
  unfold liftTH' liftTH
  apply rel_stateER P.pre
  intro c a c' h
  cases hf : c.th.meetParStart with
  | ok th' =>
    simp [hf, traceToExec, Res.mapErr, Res.bind] at h
    obtain ⟨_, rfl⟩ := h
    exact P.thParStart c th' hf
  | error e => simp [hf, traceToExec, Res.mapErr, Res.bind] at h
  | panic s => simp [hf, traceToExec, Res.mapErr, Res.bind] at h

theorem ep_liftTH'_parEnd (i : Instr) (t : SubgraphType) : Rel R (liftTH' i (fun th => th.meetParSubgraphEnd t)) := by
  unfold liftTH' liftTH
  apply rel_stateER P.pre
  intro c a c' h
  cases hf : c.th.meetParSubgraphEnd t with
  | ok th' =>
    simp [hf, traceToExec, Res.mapErr, Res.bind] at h
    obtain ⟨_, rfl⟩ := h
    exact P.thParEnd c t th' hf
  | error e => simp [hf, traceToExec, Res.mapErr, Res.bind] at h
  | panic s => simp [hf, traceToExec, Res.mapErr, Res.bind] at h

theorem ep_execSubgraph (env : Env) (fuel : Nat) (ih : ∀ i, Rel R (exec env fuel i)) (par sub : Instr) (t : SubgraphType) :
    Rel R (execSubgraph env fuel par sub t) := by
  unfold execSubgraph
  apply rel_bind P.pre
  · apply rel_modifyCtx; intro c; ctlstep
  · intro _
    apply rel_bind P.pre (rel_tryM (ih sub)); intro res
    split
    · apply rel_bind P.pre (ep_liftTH'_parEnd P _ _); intro _
      apply rel_bind P.pre (rel_readCtx P.pre _); intro _
      exact rel_pure P.pre _
    · apply rel_bind P.pre (ep_makeSubgraphIncomplete P); intro _
      apply rel_bind P.pre (ep_liftTH'_parEnd P _ _); intro _
      apply rel_bind P.pre (rel_readCtx P.pre _); intro _
      exact rel_pure P.pre _
    · exact rel_bind P.pre (ep_makeSubgraphIncomplete P) fun _ => rel_throwE P.pre _
    · exact rel_panicM P.pre _

theorem ep_execApStream (i : Instr) (arg : Value) (name : String) (pos : Nat) : Rel R (execApStream i arg name pos) := by
  unfold execApStream
  apply rel_bind P.pre (rel_joinable P.pre (rel_readER P.pre _) (ep_inc P)); intro r
  split
  · exact rel_pure P.pre _
  · apply rel_bind P.pre (rel_liftTH_of P.pre _ _ (fun c a th' h => P.thApStart c a th' h)); intro met
    apply rel_bind P.pre
    · apply rel_modifyER P.pre
      intro c c' h
      exact P.streamUpd c c' (sameButStreams_addStreamValue h)
    · intro _
      exact rel_modifyCtx fun c => P.pushAp c

theorem ep_execApMap (i : Instr) (key val : Value) (name : String) (pos : Nat) : Rel R (execApMap i key val name pos) := by
  unfold execApMap
  apply rel_bind P.pre (rel_joinable P.pre (rel_readER P.pre _) (ep_inc P)); intro r
  split
  · exact rel_pure P.pre _
  · apply rel_bind P.pre (rel_joinable P.pre (rel_readER P.pre _) (ep_inc P)); intro k
    split
    · exact rel_pure P.pre _
    · apply rel_bind P.pre (rel_liftTH_of P.pre _ _ (fun c a th' h => P.thApStart c a th' h)); intro met
      apply rel_bind P.pre
      · apply rel_modifyER P.pre
        intro c c' h
        exact P.streamUpd c c' (sameButStreams_addStreamMapValue h)
      · intro _
        exact rel_modifyCtx fun c => P.pushAp c

theorem ep_canonFinish (name : CanonTarget) (cs : CanonStream) (cid : Cid) (reg : String) : Rel R (canonFinish name cs cid reg) := by
  unfold canonFinish
  exact rel_modifyER P.pre fun c c' h => P.canonFinish name cs cid reg c c' h

theorem ep_createCanonFirstTime (env : Env) (name : CanonTarget) (stream : String) (pos : Nat) (peerId : String) :
    Rel R (createCanonFirstTime env name stream pos peerId) := by
  intro c
  have h1 : (createCanonFirstTime env name stream pos peerId) c =
      (canonFinish name (updCanonTrack env name stream pos peerId c).1.1 (updCanonTrack env name stream pos peerId c).1.2 peerId)
        (updCanonTrack env name stream pos peerId c).2 := rfl
  rw [h1]
  exact P.pre.trans (P.canonTrack env name stream pos peerId c) (ep_canonFinish P _ _ _ _ _)

theorem ep_execCanon (env : Env) (i : Instr) (peer : Value) (stream : String) (pos : Nat) (name : CanonTarget) :
    Rel R (execCanon env i peer stream pos name) := by
  unfold execCanon
  apply rel_bind P.pre (rel_liftTH_of P.pre _ _ (fun c a th' h => P.thCanonStart c a th' h)); intro met
  split
  · -- executed
    unfold canonExecuted
    apply rel_bind P.pre (rel_readER P.pre _); intro cs
    exact ep_canonFinish P _ _ _ _
  · -- request found in the data
    apply rel_bind P.pre (rel_readER P.pre _); intro peerId
    apply rel_bind P.pre (rel_readCtx P.pre _); intro me
    split
    · exact rel_modifyCtx fun c => P.canonPushRequest c _
    · exact ep_createCanonFirstTime P env name stream pos peerId
  · -- no state yet
    apply rel_bind P.pre (rel_joinable P.pre (rel_readER P.pre _) (ep_inc P)); intro r
    split
    · exact rel_pure P.pre _
    · rename_i peerId
      intro c
      show R c ((M.bind (readCtx (·.currentPeerId)) _) c).2
      simp only [M.bind, readCtx]
      split
      · rename_i hne
        exact P.canonRemote c peerId (by intro h; simp [h] at hne)
      · exact ep_createCanonFirstTime P env name stream pos peerId c

theorem ep_maybeTH (i : Instr) (fs : FoldState) (f : Nat → TraceHandler → TR TraceHandler)
    (hf : ∀ id th th', f id th = .ok th' → FoldOp th th') : Rel R (maybeTH i fs f) := by
  unfold maybeTH
  split
  · rename_i id _
    exact rel_liftTH'_of P.pre _ _ (fun c th' h => P.thFoldOp c th' (hf id _ _ h))
  · exact rel_pure P.pre _

theorem ep_nextMarkBackIteration (iterator : String) : Rel R (nextMarkBackIteration iterator) := by
  unfold nextMarkBackIteration
  apply rel_modifyER P.pre
  intro c c' h
  cases hg : c.scalars.getIterable iterator with
  | ok fs =>
    simp only [hg, Res.bind] at h
    split at h
    · split at h
      · injection h with h; subst h; ctlstep
      · injection h with h; subst h; exact P.pre.refl _
    · injection h with h; subst h; exact P.pre.refl _
  | error e => simp [hg, Res.bind] at h
  | panic p => simp [hg, Res.bind] at h

theorem ep_foldStreamGet (name : String) (pos : Nat) : Rel R (foldStreamGet name pos) := by
  unfold foldStreamGet; exact rel_readER P.pre _

theorem ep_setStream (name : String) (pos : Nat) (s : Stream) (c : Ctx) : R c (c.setStream name pos s) :=
  P.streamUpd _ _ (sameButStreams_setStream c name pos s)

theorem ep_execFoldIterations (env : Env) (fuel : Nat) (ih : ∀ i, Rel R (exec env fuel i)) (i : Instr) (iterator : String)
    (body : Instr) (last : Option Instr) (foldId : Nat) :
    ∀ (l : List (List ValueAggregate)) (acc : Bool), Rel R (execFoldIterations env fuel i iterator body last foldId l acc)
  | [], acc => by unfold execFoldIterations; exact rel_pure P.pre _
  | vals :: rest, acc => by
    unfold execFoldIterations
    split
    · exact ep_execFoldIterations env fuel ih i iterator body last foldId rest acc
    · apply rel_bind P.pre (rel_liftTH'_of P.pre _ _ (fun c th' h => P.thFoldOp c th' (.iterationStart _ _ h))); intro _
      apply rel_bind P.pre
      · exact rel_modifyER P.pre fun c c' h => P.ctl _ _ (sameData_withScalars h)
      · intro _
        apply rel_bind P.pre (rel_tryM (ih _)); intro res
        apply rel_bind P.pre
        · exact rel_modifyER P.pre fun c c' h => P.ctl _ _ (sameData_withScalars h)
        · intro _
          apply rel_bind P.pre
          · unfold throwIfNotCatchable
            split
            · exact rel_pure P.pre _
            · exact rel_pure P.pre _
            · exact rel_reraise P.pre _
          · intro _
            apply rel_bind P.pre (rel_liftTH'_of P.pre _ _ (fun c th' h => P.thFoldOp c th' (.generationEnd _ h))); intro _
            apply rel_bind P.pre (rel_readCtx P.pre _); intro complete
            exact ep_execFoldIterations env fuel ih i iterator body last foldId rest _

theorem ep_execFoldStreamLoop (env : Env) (fuel : Nat) (ih : ∀ i, Rel R (exec env fuel i)) (i : Instr) (stream : String)
    (pos : Nat) (iterator : String) (body : Instr) (last : Option Instr) (foldId : Nat) :
    ∀ (n : Nat) (st : Option (List (List ValueAggregate))) (cur : StreamCursor) (acc : Bool),
      Rel R (execFoldStreamLoop env fuel n i stream pos iterator body last foldId st cur acc)
  | n, none, cur, acc => by unfold execFoldStreamLoop; exact rel_pure P.pre _
  | 0, some l, cur, acc => by unfold execFoldStreamLoop; exact rel_throwE P.pre _
  | n + 1, some l, cur, acc => by
    unfold execFoldStreamLoop
    apply rel_bind P.pre (ep_execFoldIterations P env fuel ih i iterator body last foldId l acc); intro acc'
    apply rel_bind P.pre (ep_foldStreamGet P _ _); intro s
    apply rel_bind P.pre (rel_modifyCtx fun c => ep_setStream P _ _ _ c); intro _
    exact ep_execFoldStreamLoop env fuel ih i stream pos iterator body last foldId n _ _ _

theorem ep_execInner (env : Env) (fuel : Nat) (ih : ∀ i, Rel R (exec env fuel i)) (i : Instr) :
    Rel R (execInner env fuel i) := by
  have hsub := ep_execSubgraph P env fuel ih
  have hsc : ∀ {c c' : Ctx} {g : Scalars → ER Scalars}, withScalars c g = .ok c' → R c c' :=
    fun h => P.ctl _ _ (sameData_withScalars h)
  have hscr : ∀ {α : Type} {c c' : Ctx} {a : α} {g : Scalars → ER (α × Scalars)}, withScalarsRet c g = .ok (a, c') → R c c' :=
    fun h => P.ctl _ _ (sameData_withScalarsRet h)
  unfold execInner
  split
  · exact rel_pure P.pre _
  · exact rel_pure P.pre _
  · exact ep_makeSubgraphIncomplete P
  · -- seq
    apply rel_bind P.pre
    · apply rel_modifyCtx; intro c; ctlstep
    · intro _
      apply rel_bind P.pre (ih _); intro _
      apply rel_bind P.pre (rel_readCtx P.pre _); intro complete
      split
      · exact ih _
      · exact rel_pure P.pre _
  · -- xor
    apply rel_bind P.pre
    · apply rel_modifyCtx; intro c; ctlstep
    · intro _
      apply rel_bind P.pre (rel_tryM (ih _)); intro res
      split
      · apply rel_bind P.pre (rel_modifyCtx (ep_xorEnterRight P _)); intro _
        apply rel_bind P.pre (rel_tryM (ih _)); intro right
        apply rel_bind P.pre (rel_modifyCtx (ep_xorLeaveRight P _)); intro _
        exact rel_reraise P.pre _
      · exact rel_reraise P.pre _
  · -- par
    apply rel_bind P.pre (ep_liftTH'_parStart P _); intro _
    apply rel_bind P.pre (hsub _ _ _); intro left
    apply rel_bind P.pre (hsub _ _ _); intro right
    apply rel_bind P.pre
    · apply rel_modifyCtx; intro c; ctlstep
    · intro _
      split
      · apply rel_modifyCtx; intro c; ctlstep
      · apply rel_modifyCtx; intro c; ctlstep
      · exact rel_throwE P.pre _
  · -- match
    apply rel_bind P.pre (rel_joinable P.pre (rel_readER P.pre _) (ep_inc P)); intro r
    split
    · exact rel_pure P.pre _
    · exact ih _
    · exact rel_throwE P.pre _
  · -- mismatch
    apply rel_bind P.pre (rel_joinable P.pre (rel_readER P.pre _) (ep_inc P)); intro r
    split
    · exact rel_pure P.pre _
    · exact ih _
    · exact rel_throwE P.pre _
  · -- ap
    split
    · exact ep_execApStream P _ _ _ _
    · exact ep_execAp P _ _
  · exact ep_execApMap P _ _ _ _ _
  · exact ep_execCanon P _ _ _ _ _ _
  · exact ep_execCanon P _ _ _ _ _ _
  · exact ep_execCanon P _ _ _ _ _ _
  · exact ep_execFail P _
  · -- fold scalar
    apply rel_bind P.pre (rel_joinable P.pre (rel_readER P.pre _) (ep_inc P)); intro r
    split
    · exact rel_pure P.pre _
    · exact rel_pure P.pre _
    · apply rel_bind P.pre
      · exact rel_modifyER P.pre fun c c' h => hsc h
      · intro _
        apply rel_bind P.pre (rel_tryM (ih _)); intro res
        apply rel_bind P.pre
        · exact rel_modifyER P.pre fun c c' h => hsc h
        · intro _; exact rel_reraise P.pre _
  · -- next
    apply rel_bind P.pre (rel_readER P.pre _); intro fs0
    apply rel_bind P.pre (ep_maybeTH P _ _ _ (fun id th th' h => .iterationEnd id h)); intro _
    apply rel_bind P.pre
    · exact rel_stateER P.pre fun c a c' h => hscr h
    · intro r
      split
      · apply rel_bind P.pre (ep_maybeTH P _ _ _ (fun id th th' h => .backIterator id h)); intro _
        apply rel_bind P.pre (rel_readER P.pre _); intro fs
        split
        · apply rel_bind P.pre
          · apply rel_modifyCtx; intro c; ctlstep
          · intro _; exact ih _
        · exact ep_nextMarkBackIteration P _
      · rename_i fs
        apply rel_bind P.pre (rel_readER P.pre _); intro item
        apply rel_bind P.pre (ep_maybeTH P _ _ _ (fun id th th' h => .iterationStart id _ h)); intro _
        apply rel_bind P.pre (rel_tryM (ih _)); intro res
        apply rel_bind P.pre
        · exact rel_modifyER P.pre fun c c' h => hsc h
        · intro _
          split
          · apply rel_bind P.pre
            · exact rel_modifyER P.pre fun c c' h => hsc h
            · intro _; exact ep_maybeTH P _ _ _ (fun id th th' h => .backIterator id h)
          · exact rel_reraise P.pre _
  · -- new
    split
    · apply rel_bind P.pre
      · apply rel_modifyCtx; intro c; ctlstep
      · intro _
        apply rel_bind P.pre (rel_tryM (ih _)); intro res
        apply rel_bind P.pre
        · exact rel_stateER P.pre fun c a c' h => hscr h
        · intro ok
          split
          · split
            · exact rel_pure P.pre _
            · apply rel_bind P.pre (rel_readCtx P.pre _); intro _; exact rel_throwE P.pre _
          · exact rel_reraise P.pre _
    · -- new $stream
      apply rel_bind P.pre
      · apply rel_modifyCtx; intro c
        exact P.streamUpd _ _ (sameButStreams_scopeStart c _ _ _)
      · intro _
        apply rel_bind P.pre (rel_tryM (ih _)); intro res
        apply rel_bind P.pre
        · apply rel_tryM
          exact rel_modifyER P.pre fun c c' h => P.scopeEnd _ c c' h
        · intro ep
          split
          · exact rel_pure P.pre _
          · exact rel_reraise P.pre _
          · exact rel_reraise P.pre _
    · -- new %map (same store)
      apply rel_bind P.pre
      · apply rel_modifyCtx; intro c
        exact P.streamUpd _ _ (sameButStreams_scopeStart c _ _ _)
      · intro _
        apply rel_bind P.pre (rel_tryM (ih _)); intro res
        apply rel_bind P.pre
        · apply rel_tryM
          exact rel_modifyER P.pre fun c c' h => P.scopeEnd _ c c' h
        · intro ep
          split
          · exact rel_pure P.pre _
          · exact rel_reraise P.pre _
          · exact rel_reraise P.pre _
    · -- new #canon
      apply rel_bind P.pre
      · apply rel_modifyCtx; intro c; ctlstep
      · intro _
        apply rel_bind P.pre (rel_tryM (ih _)); intro res
        apply rel_bind P.pre
        · unfold newLeaveCanon; exact rel_stateER P.pre fun c a c' h => hscr h
        · intro ok
          split
          · split
            · exact rel_pure P.pre _
            · apply rel_bind P.pre (rel_readCtx P.pre _); intro _; exact rel_throwE P.pre _
          · exact rel_reraise P.pre _
    · -- new #%canon-map
      apply rel_bind P.pre
      · apply rel_modifyCtx; intro c; ctlstep
      · intro _
        apply rel_bind P.pre (rel_tryM (ih _)); intro res
        apply rel_bind P.pre
        · unfold newLeaveCanonMap; exact rel_stateER P.pre fun c a c' h => hscr h
        · intro ok
          split
          · split
            · exact rel_pure P.pre _
            · apply rel_bind P.pre (rel_readCtx P.pre _); intro _; exact rel_throwE P.pre _
          · exact rel_reraise P.pre _
  · -- fold over a stream
    apply rel_bind P.pre (rel_readCtx P.pre _); intro ex
    split
    · exact ep_makeSubgraphIncomplete P
    · apply rel_bind P.pre
      · apply rel_stateER P.pre
        intro c a c' h
        injection h with h; injection h with _ h; subst h
        exact P.foldCount c
      · intro foldId
        apply rel_bind P.pre (rel_liftTH'_of P.pre _ _ (fun c th' h => P.thFoldOp c th' (.foldStart _ h))); intro _
        apply rel_bind P.pre (ep_foldStreamGet P _ _); intro s
        apply rel_bind P.pre (rel_modifyCtx fun c => ep_setStream P _ _ _ c); intro _
        apply rel_bind P.pre (ep_execFoldStreamLoop P env fuel ih _ _ _ _ _ _ _ _ _ _ _); intro complete
        apply rel_bind P.pre
        · apply rel_modifyCtx; intro c; ctlstep
        · intro _
          exact rel_liftTH'_of P.pre _ _ (fun c th' h => P.thFoldOp c th' (.foldEnd _ h))
  · -- fold over a stream map (same store)
    apply rel_bind P.pre (rel_readCtx P.pre _); intro ex
    split
    · exact ep_makeSubgraphIncomplete P
    · apply rel_bind P.pre
      · apply rel_stateER P.pre
        intro c a c' h
        injection h with h; injection h with _ h; subst h
        exact P.foldCount c
      · intro foldId
        apply rel_bind P.pre (rel_liftTH'_of P.pre _ _ (fun c th' h => P.thFoldOp c th' (.foldStart _ h))); intro _
        apply rel_bind P.pre (ep_foldStreamGet P _ _); intro s
        apply rel_bind P.pre (rel_modifyCtx fun c => ep_setStream P _ _ _ c); intro _
        apply rel_bind P.pre (ep_execFoldStreamLoop P env fuel ih _ _ _ _ _ _ _ _ _ _ _); intro complete
        apply rel_bind P.pre
        · apply rel_modifyCtx; intro c; ctlstep
        · intro _
          exact rel_liftTH'_of P.pre _ _ (fun c th' h => P.thFoldOp c th' (.foldEnd _ h))

/-- **The generic invariant theorem**: any preorder preserved by the primitive updates relates the
context before and after executing any script with any fuel, on every exit (ok / error / panic). -/
theorem exec_rel (env : Env) : ∀ (fuel : Nat) (i : Instr), Rel R (exec env fuel i)
  | 0, i => by unfold exec; exact rel_throwE P.pre _
  | fuel + 1, i => by
    unfold exec
    split
    · exact ep_execCall P _ _ _ _ _ _ _
    · exact rel_onError P.pre (ep_execInner P env fuel (exec_rel env fuel) i) (fun e c => ep_setErrorsOf P e i c)

end

end AquaProps
