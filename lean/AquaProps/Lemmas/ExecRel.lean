import AquaProps.Lemmas.Rel
import AquaProps.Lemmas.Post
/-!
# One induction for every invariant of the executor (DESIGN.md §5.1)

`exec_rel`: for ANY preorder `R` on contexts, if `R` holds across each *primitive* state update the
executor performs (`ExecPrims R` — a finite list of concrete updates: pushing a state, registering a
content id, issuing a request, forwarding, trace-handler transitions, plus "control" updates that touch
only scalars / error slots / the completeness flag), then `R` relates the context before and after
executing ANY script with ANY fuel from ANY context — whether the execution succeeds, fails or panics.

Property files instantiate `R` and discharge the primitives; the induction over the fuelled mutual
recursion (`exec` / `execInner` / `execSubgraph`) is done once, here.
-/
namespace AquaProps
open Aqua Aqua.Exec Aqua.Air Aqua.Trace Aqua.Json Aqua.Data

/-- everything except the control fields (`scalars`, `lastError`, `error`, `subgraphComplete`) is unchanged -/
structure SameData (c c' : Ctx) : Prop where
  next : c'.nextPeerPks = c.nextPeerPks
  init : c'.initPeerId = c.initPeerId
  me : c'.currentPeerId = c.currentPeerId
  ts : c'.timestamp = c.timestamp
  ttl : c'.ttl = c.ttl
  lcid : c'.lastCallRequestId = c.lastCallRequestId
  results : c'.callResults = c.callResults
  reqs : c'.callRequests = c.callRequests
  cid : c'.cid = c.cid
  peerCids : c'.peerCids = c.peerCids
  th : c'.th = c.th

theorem SameData.rfl' (c : Ctx) : SameData c c := ⟨rfl, rfl, rfl, rfl, rfl, rfl, rfl, rfl, rfl, rfl, rfl⟩

/-! ### the primitive updates, named -/

/-- failing service: track the failure value, register the id, push `Failed` -/
def updFailedService (env : Env) (t : Tetraplet) (argHash : String) (sr : CallServiceResult) (c : Ctx) : Ctx :=
  let failed := callServiceFailedValue sr.retCode sr.result
  let (cid, cs) := trackServiceResult env c.cid failed t argHash
  let c := ({ c with cid := cs }).recordCallCid t.peerPk cid
  { c with th := c.th.meetCallEnd (.failed cid) }

/-- successful service result: bind the value, push `Executed` -/
def updServiceResult (env : Env) (result : JVal) (t : Tetraplet) (argHash : String) (out : CallOutput) (c : Ctx) : ER Ctx := do
  let (cr, c') ← populateFromPeerServiceResult env c result t argHash c.th.tracePos out
  pure { c' with th := c'.th.meetCallEnd cr }

/-- a `Failed` state found in the merged data is re-emitted -/
def updPrevFailed (t : Tetraplet) (failedCid : Cid) (st : CallResult) (c : Ctx) : Ctx :=
  let c := ({ c with subgraphComplete := false }).recordCallCid t.peerPk failedCid
  { c with th := c.th.meetCallEnd st }

def updDropResult (key : String) (c : Ctx) : Ctx :=
  { c with callResults := c.callResults.filter (fun (k, _) => k != key) }

/-- an `Executed` state found in the merged data is re-emitted after its value was bound -/
def updPrevExecuted (t : Tetraplet) (value : ValueRef) (c : Ctx) : Ctx :=
  let c := match value with
    | .scalar cid | .stream cid _ => c.recordCallCid t.peerPk cid
    | .unused _ => c
  { c with th := c.th.meetCallEnd (.executed value) }

def updRemoteCall (t : Tetraplet) (c : Ctx) : Ctx :=
  { c with nextPeerPks := c.nextPeerPks ++ [t.peerPk], subgraphComplete := false,
           th := c.th.meetCallEnd (.requestSentBy (.peerId c.currentPeerId)) }

structure ExecPrims (R : Ctx → Ctx → Prop) : Prop where
  pre : Preorder' R
  /-- control-only updates (scalars, error slots, completeness flag) -/
  ctl : ∀ c c', SameData c c' → R c c'
  /-- trace-handler transitions that push no call/ap/canon state: `meet_call_start`, `meet_par_start`,
  `meet_par_subgraph_end` -/
  thCallStart : ∀ c met th', c.th.meetCallStart = .ok (met, th') → R c { c with th := th' }
  thParStart : ∀ c th', c.th.meetParStart = .ok th' → R c { c with th := th' }
  thParEnd : ∀ c t th', c.th.meetParSubgraphEnd t = .ok th' → R c { c with th := th' }
  /-- re-emitting a request state taken from the merged data -/
  pushRequest : ∀ c s, R c { c with th := c.th.meetCallEnd (.requestSentBy s) }
  failedService : ∀ env t ah sr c, R c (updFailedService env t ah sr c)
  serviceResult : ∀ env result t ah out c c', updServiceResult env result t ah out c = .ok c' → R c c'
  prevFailed : ∀ t cid c, R c (updPrevFailed t cid (.failed cid) c)
  dropResult : ∀ key c, R c (updDropResult key c)
  prevExecutedBind : ∀ env c value ah t pos out c', populateFromData env c value ah t pos out = .ok c' → R c c'
  prevExecuted : ∀ t value c, R c (updPrevExecuted t value c)
  /-- a local request is issued (only for `t.peerPk = c.currentPeerId`) -/
  issue : ∀ t args c c', t.peerPk = c.currentPeerId → issueRequest t args c = .ok c' → R c c'
  /-- forwarding to another peer (only for `t.peerPk ≠ c.currentPeerId`) -/
  remote : ∀ t c, t.peerPk ≠ c.currentPeerId → R c (updRemoteCall t c)

theorem sameData_withScalars {c c' : Ctx} {g : Scalars → ER Scalars} (h : withScalars c g = .ok c') : SameData c c' := by
  unfold withScalars at h
  cases hg : g c.scalars with
  | ok sc => simp [hg, Res.bind] at h; subst h; exact ⟨rfl, rfl, rfl, rfl, rfl, rfl, rfl, rfl, rfl, rfl, rfl⟩
  | error e => simp [hg, Res.bind] at h
  | panic s => simp [hg, Res.bind] at h

theorem sameData_withScalarsRet {α} {c c' : Ctx} {a : α} {g : Scalars → ER (α × Scalars)} (h : withScalarsRet c g = .ok (a, c')) : SameData c c' := by
  unfold withScalarsRet at h
  cases hg : g c.scalars with
  | ok p => obtain ⟨a', sc⟩ := p; simp [hg, Res.bind] at h; obtain ⟨_, rfl⟩ := h; exact ⟨rfl, rfl, rfl, rfl, rfl, rfl, rfl, rfl, rfl, rfl, rfl⟩
  | error e => simp [hg, Res.bind] at h
  | panic s => simp [hg, Res.bind] at h

section
variable {R : Ctx → Ctx → Prop} (P : ExecPrims R)
include P

theorem ep_inc (c : Ctx) : R c { c with subgraphComplete := false } := P.ctl _ _ ⟨rfl, rfl, rfl, rfl, rfl, rfl, rfl, rfl, rfl, rfl, rfl⟩

theorem ep_setErrors (c : Ctx) (e : CatchableErr) (i : String) (t : Option Tetraplet) (b : Bool) : R c (c.setErrors e i t b) := by
  apply P.ctl; unfold Ctx.setErrors; exact ⟨rfl, rfl, rfl, rfl, rfl, rfl, rfl, rfl, rfl, rfl, rfl⟩

theorem ep_setErrorsOf (e : ExecErr) (i : Instr) (c : Ctx) : R c (c.setErrorsOf e i) := by
  unfold Ctx.setErrorsOf
  split
  · exact ep_setErrors P _ _ _ _ _
  · exact P.pre.refl c

theorem ep_callSetErrors (i : Instr) (t : Option Tetraplet) (e : ExecErr) (c : Ctx) : R c (callSetErrors i t e c) := by
  unfold callSetErrors
  split
  · split
    · exact P.pre.refl c
    · exact ep_setErrors P _ _ _ _ _
  · exact P.pre.refl c

theorem ep_makeSubgraphIncomplete : Rel R makeSubgraphIncomplete := rel_modifyCtx (ep_inc P)

theorem ep_unwrapHash (s : String) (h : Option String) : Rel R (unwrapHash s h) := by
  unfold unwrapHash; split
  · exact rel_pure P.pre _
  · exact rel_panicM P.pre _

theorem ep_updateStateWithServiceResult (env : Env) (t : Tetraplet) (ah : String) (out : CallOutput) (sr : CallServiceResult) :
    Rel R (updateStateWithServiceResult env t ah out sr) := by
  unfold updateStateWithServiceResult
  split
  · apply rel_bind P.pre
    · apply rel_modifyCtx; intro c; exact P.failedService env t ah sr c
    · intro _; exact rel_throwE P.pre _
  · split
    · apply rel_bind P.pre
      · apply rel_modifyCtx; intro c; exact P.failedService env t ah ⟨i32Max, _⟩ c
      · intro _; exact rel_throwE P.pre _
    · apply rel_modifyER P.pre
      intro c c' h
      exact P.serviceResult env _ t ah out c c' h

/-- states a descriptor may carry: only request states are ever re-emitted through `maybeSetPrevState` -/
def ReqDesc : StateDescriptor → Prop
  | .mk _ (some cr) => ∃ s, cr = .requestSentBy s
  | .mk _ none => True

theorem ep_maybeSetPrevState (s : StateDescriptor) (h : ReqDesc s) : Rel R s.maybeSetPrevState := by
  unfold StateDescriptor.maybeSetPrevState
  cases s with
  | mk b prev =>
    cases prev with
    | none => exact rel_pure P.pre _
    | some cr =>
      obtain ⟨snd, rfl⟩ := h
      exact rel_modifyCtx fun c => P.pushRequest c snd

theorem ep_sentByOther (met : MetCallResult) (t : Tetraplet) (h : ∃ s, met.result = .requestSentBy s) :
    Rel R (sentByOther met t) ∧ Post ReqDesc (sentByOther met t) := by
  unfold sentByOther
  constructor
  · apply rel_bind P.pre (rel_readCtx P.pre _)
    intro me
    split
    · exact rel_pure P.pre _
    · exact rel_bind P.pre (ep_makeSubgraphIncomplete P) fun _ => rel_pure P.pre _
  · apply post_bind; intro me
    split
    · exact post_pure h
    · apply post_bind; intro _; exact post_pure h

theorem ep_handlePrevState (env : Env) (met : MetCallResult) (t : Tetraplet) (ah : Option String) (out : CallOutput) :
    Rel R (handlePrevState env met t ah out) ∧ Post ReqDesc (handlePrevState env met t ah out) := by
  unfold handlePrevState
  split
  · -- failed
    rename_i failedCid hres
    constructor
    · apply rel_bind P.pre (rel_readER P.pre _); intro r
      apply rel_bind P.pre (ep_unwrapHash P _ _); intro h
      apply rel_bind P.pre (rel_readER P.pre _); intro _
      split
      · split
        · exact rel_throwE P.pre _
        · apply rel_bind P.pre
          · apply rel_modifyCtx; intro c
            have := P.prevFailed t failedCid c
            rw [← hres] at this
            exact this
          · intro _; exact rel_throwE P.pre _
      · exact rel_throwE P.pre _
    · apply post_bind; intro _
      apply post_bind; intro _
      apply post_bind; intro _
      split
      · split
        · exact post_throwE _
        · apply post_bind; intro _; exact post_throwE _
      · exact post_throwE _
  · -- own request
    rename_i peer callId hres
    constructor
    · apply rel_bind P.pre (rel_readCtx P.pre _); intro me
      split
      · apply rel_bind P.pre (rel_readCtx P.pre _); intro found
        split
        · apply rel_bind P.pre
          · apply rel_modifyCtx; intro c; exact P.dropResult _ c
          · intro _
            apply rel_bind P.pre (ep_unwrapHash P _ _); intro h
            apply rel_bind P.pre (ep_updateStateWithServiceResult P _ _ _ _ _); intro _
            exact rel_pure P.pre _
        · exact rel_bind P.pre (ep_makeSubgraphIncomplete P) fun _ => rel_pure P.pre _
      · exact (ep_sentByOther P _ _ ⟨_, hres⟩).1
    · apply post_bind; intro me
      split
      · apply post_bind; intro found
        split
        · apply post_bind; intro _
          apply post_bind; intro _
          apply post_bind; intro _
          exact post_pure trivial
        · apply post_bind; intro _; exact post_pure ⟨_, hres⟩
      · exact (ep_sentByOther P _ _ ⟨_, hres⟩).2
  · rename_i s hres
    exact ep_sentByOther P _ _ ⟨_, hres⟩
  · -- executed
    rename_i value hres
    constructor
    · apply rel_bind P.pre (ep_unwrapHash P _ _); intro h
      apply rel_bind P.pre
      · apply rel_modifyER P.pre; intro c c' hc; exact P.prevExecutedBind _ _ _ _ _ _ _ _ hc
      · intro _
        apply rel_bind P.pre
        · apply rel_modifyCtx; intro c; exact P.prevExecuted t value c
        · intro _; exact rel_pure P.pre _
    · apply post_bind; intro _
      apply post_bind; intro _
      apply post_bind; intro _
      exact post_pure trivial

theorem ep_dispatch (t : Tetraplet) (args : List Value) (state : StateDescriptor) (hs : ReqDesc state) :
    Rel R (dispatch t args state) := by
  intro c
  unfold dispatch
  show R c ((M.bind (readCtx (·.currentPeerId)) _) c).2
  simp only [M.bind, readCtx]
  split
  · rename_i hne
    simp only [handleRemoteCall, modifyCtx]
    exact P.remote t c (by simpa using hne)
  · rename_i heq
    have ht : t.peerPk = c.currentPeerId := by simpa using heq
    show R c ((M.bind (tryM (modifyER (issueRequest t args))) _) c).2
    simp only [M.bind, tryM, modifyER]
    cases hi : issueRequest t args c with
    | ok c' => simp only; exact P.issue t args c c' ht hi
    | error e =>
      simp only
      split
      · have : Rel R (do state.maybeSetPrevState; throwE e : M Unit) :=
          rel_bind P.pre (ep_maybeSetPrevState P state hs) fun _ => rel_throwE P.pre _
        exact this c
      · exact P.pre.refl c
    | panic s => exact P.pre.refl c

theorem ep_resolvedExecute (env : Env) (i : Instr) (t : Tetraplet) (args : List Value) (out : CallOutput) :
    Rel R (resolvedExecute env i t args out) := by
  unfold resolvedExecute
  apply rel_bind P.pre (rel_readER P.pre _); intro checked
  apply rel_bind P.pre
  · unfold liftTH
    apply rel_stateER P.pre
    intro c a c' h
    cases hf : c.th.meetCallStart with
    | ok p =>
      obtain ⟨met, th'⟩ := p
      simp [hf, traceToExec, Res.mapErr, Res.bind] at h
      obtain ⟨_, rfl⟩ := h
      exact P.thCallStart c met th' hf
    | error e => simp [hf, traceToExec, Res.mapErr, Res.bind] at h
    | panic s => simp [hf, traceToExec, Res.mapErr, Res.bind] at h
  · intro met
    have hprep : Rel R (prepareState env met t (checked.map fun vs => env.hash (argsJson vs)) out) ∧
        Post ReqDesc (prepareState env met t (checked.map fun vs => env.hash (argsJson vs)) out) := by
      unfold prepareState; split
      · exact ep_handlePrevState P _ _ _ _ _
      · exact ⟨rel_pure P.pre _, post_pure trivial⟩
    apply rel_bind_post P.pre hprep.1 hprep.2
    intro state hstate
    unfold afterState
    split
    split
    · exact ep_maybeSetPrevState P _ hstate
    · exact ep_dispatch P _ _ _ hstate

theorem ep_execCall (env : Env) (i : Instr) (p s f : Value) (args : List Value) (out : CallOutput) :
    Rel R (execCall env i p s f args out) := by
  unfold execCall
  apply rel_bind P.pre
  · exact rel_joinable P.pre (rel_onError P.pre (rel_readER P.pre _) (ep_callSetErrors P i none)) (ep_inc P)
  · intro r
    split
    · exact rel_pure P.pre _
    · apply rel_bind P.pre
      · exact rel_joinable P.pre (rel_onError P.pre (ep_resolvedExecute P _ _ _ _ _) (ep_callSetErrors P i _)) (ep_inc P)
      · intro _; exact rel_pure P.pre _

macro "ctlstep" : tactic => `(tactic| (apply ExecPrims.ctl (by assumption); exact ⟨rfl, rfl, rfl, rfl, rfl, rfl, rfl, rfl, rfl, rfl, rfl⟩))

theorem ep_failWithErrorObject (v : JVal) (t : Option Tetraplet) (p : Provenance) : Rel R (failWithErrorObject v t p) := by
  unfold failWithErrorObject
  apply rel_bind P.pre
  · apply rel_modifyCtx; intro c; ctlstep
  · intro _; exact rel_throwE P.pre _

theorem ep_execFail (arg : FailArg) : Rel R (execFail arg) := by
  unfold execFail
  apply rel_bind P.pre (rel_readER P.pre _); intro r
  split
  · unfold execFailError
    apply rel_bind P.pre (rel_readCtx P.pre _); intro orig
    apply rel_bind P.pre (rel_tryM (ep_failWithErrorObject P _ _ _)); intro res
    apply rel_bind P.pre
    · apply rel_modifyCtx; intro c; ctlstep
    · intro _; split
      · exact rel_throwE P.pre _
      · exact rel_reraise P.pre _
  · exact ep_failWithErrorObject P _ _ _

theorem ep_setScalar (name : String) (v : ValueAggregate) : Rel R (setScalar name v) := by
  unfold setScalar
  exact rel_modifyER P.pre fun c c' h => P.ctl _ _ (sameData_withScalars h)

theorem ep_execAp (arg : Value) (out : CallOutput) : Rel R (execAp arg out) := by
  unfold execAp
  split
  · apply rel_bind P.pre (rel_joinable P.pre (rel_readER P.pre _) (ep_inc P)); intro r
    split
    · exact rel_pure P.pre _
    · exact ep_setScalar P _ _
  · exact rel_throwE P.pre _

theorem ep_xorEnterRight (e : CatchableErr) (c : Ctx) : R c (xorEnterRight e c) := by
  unfold xorEnterRight; ctlstep

theorem ep_xorLeaveRight (b : Bool) (c : Ctx) : R c (xorLeaveRight b c) := by
  apply P.ctl
  unfold xorLeaveRight
  refine ⟨?_, ?_, ?_, ?_, ?_, ?_, ?_, ?_, ?_, ?_, ?_⟩ <;> (simp only []; split <;> split <;> rfl)

theorem ep_liftTH'_parStart (i : Instr) : Rel R (liftTH' i (fun th => th.meetParStart)) := by
  unfold liftTH' liftTH
  apply rel_stateER P.pre
  intro c a c' h
  cases hf : c.th.meetParStart with
  | ok th' =>
    simp [hf, traceToExec, Res.mapErr, Res.bind] at h
    obtain ⟨_, rfl⟩ := h
    exact P.thParStart c th' hf
  | error e => simp [hf, traceToExec, Res.mapErr, Res.bind] at h
  | panic s => simp [hf, traceToExec, Res.mapErr, Res.bind] at h

theorem ep_liftTH'_parEnd (i : Instr) (t : SubgraphType) : Rel R (liftTH' i (fun th => th.meetParSubgraphEnd t)) := by
  unfold liftTH' liftTH
  apply rel_stateER P.pre
  intro c a c' h
  cases hf : c.th.meetParSubgraphEnd t with
  | ok th' =>
    simp [hf, traceToExec, Res.mapErr, Res.bind] at h
    obtain ⟨_, rfl⟩ := h
    exact P.thParEnd c t th' hf
  | error e => simp [hf, traceToExec, Res.mapErr, Res.bind] at h
  | panic s => simp [hf, traceToExec, Res.mapErr, Res.bind] at h

theorem ep_execSubgraph (env : Env) (fuel : Nat) (ih : ∀ i, Rel R (exec env fuel i)) (par sub : Instr) (t : SubgraphType) :
    Rel R (execSubgraph env fuel par sub t) := by
  unfold execSubgraph
  apply rel_bind P.pre
  · apply rel_modifyCtx; intro c; ctlstep
  · intro _
    apply rel_bind P.pre (rel_tryM (ih sub)); intro res
    split
    · apply rel_bind P.pre (ep_liftTH'_parEnd P _ _); intro _
      apply rel_bind P.pre (rel_readCtx P.pre _); intro _
      exact rel_pure P.pre _
    · apply rel_bind P.pre (ep_makeSubgraphIncomplete P); intro _
      apply rel_bind P.pre (ep_liftTH'_parEnd P _ _); intro _
      apply rel_bind P.pre (rel_readCtx P.pre _); intro _
      exact rel_pure P.pre _
    · exact rel_bind P.pre (ep_makeSubgraphIncomplete P) fun _ => rel_throwE P.pre _
    · exact rel_panicM P.pre _

theorem ep_execInner (env : Env) (fuel : Nat) (ih : ∀ i, Rel R (exec env fuel i)) (i : Instr) :
    Rel R (execInner env fuel i) := by
  have hsub := ep_execSubgraph P env fuel ih
  have hsc : ∀ {c c' : Ctx} {g : Scalars → ER Scalars}, withScalars c g = .ok c' → R c c' :=
    fun h => P.ctl _ _ (sameData_withScalars h)
  have hscr : ∀ {α : Type} {c c' : Ctx} {a : α} {g : Scalars → ER (α × Scalars)}, withScalarsRet c g = .ok (a, c') → R c c' :=
    fun h => P.ctl _ _ (sameData_withScalarsRet h)
  unfold execInner
  split
  · exact rel_pure P.pre _
  · exact rel_pure P.pre _
  · exact ep_makeSubgraphIncomplete P
  · -- seq
    apply rel_bind P.pre
    · apply rel_modifyCtx; intro c; ctlstep
    · intro _
      apply rel_bind P.pre (ih _); intro _
      apply rel_bind P.pre (rel_readCtx P.pre _); intro complete
      split
      · exact ih _
      · exact rel_pure P.pre _
  · -- xor
    apply rel_bind P.pre
    · apply rel_modifyCtx; intro c; ctlstep
    · intro _
      apply rel_bind P.pre (rel_tryM (ih _)); intro res
      split
      · apply rel_bind P.pre (rel_modifyCtx (ep_xorEnterRight P _)); intro _
        apply rel_bind P.pre (rel_tryM (ih _)); intro right
        apply rel_bind P.pre (rel_modifyCtx (ep_xorLeaveRight P _)); intro _
        exact rel_reraise P.pre _
      · exact rel_reraise P.pre _
  · -- par
    apply rel_bind P.pre (ep_liftTH'_parStart P _); intro _
    apply rel_bind P.pre (hsub _ _ _); intro left
    apply rel_bind P.pre (hsub _ _ _); intro right
    apply rel_bind P.pre
    · apply rel_modifyCtx; intro c; ctlstep
    · intro _
      split
      · apply rel_modifyCtx; intro c; ctlstep
      · apply rel_modifyCtx; intro c; ctlstep
      · exact rel_throwE P.pre _
  · -- match
    apply rel_bind P.pre (rel_joinable P.pre (rel_readER P.pre _) (ep_inc P)); intro r
    split
    · exact rel_pure P.pre _
    · exact ih _
    · exact rel_throwE P.pre _
  · -- mismatch
    apply rel_bind P.pre (rel_joinable P.pre (rel_readER P.pre _) (ep_inc P)); intro r
    split
    · exact rel_pure P.pre _
    · exact ih _
    · exact rel_throwE P.pre _
  · exact ep_execAp P _ _
  · exact ep_execFail P _
  · -- fold scalar
    apply rel_bind P.pre (rel_joinable P.pre (rel_readER P.pre _) (ep_inc P)); intro r
    split
    · exact rel_pure P.pre _
    · exact rel_pure P.pre _
    · apply rel_bind P.pre
      · exact rel_modifyER P.pre fun c c' h => hsc h
      · intro _
        apply rel_bind P.pre (rel_tryM (ih _)); intro res
        apply rel_bind P.pre
        · exact rel_modifyER P.pre fun c c' h => hsc h
        · intro _; exact rel_reraise P.pre _
  · -- next
    apply rel_bind P.pre
    · exact rel_stateER P.pre fun c a c' h => hscr h
    · intro r
      split
      · apply rel_bind P.pre (rel_readER P.pre _); intro fs
        split
        · apply rel_bind P.pre
          · apply rel_modifyCtx; intro c; ctlstep
          · intro _; exact ih _
        · exact rel_pure P.pre _
      · apply rel_bind P.pre (rel_tryM (ih _)); intro res
        apply rel_bind P.pre
        · exact rel_modifyER P.pre fun c c' h => hsc h
        · intro _
          split
          · exact rel_modifyER P.pre fun c c' h => hsc h
          · exact rel_reraise P.pre _
  · -- new
    split
    · apply rel_bind P.pre
      · apply rel_modifyCtx; intro c; ctlstep
      · intro _
        apply rel_bind P.pre (rel_tryM (ih _)); intro res
        apply rel_bind P.pre
        · exact rel_stateER P.pre fun c a c' h => hscr h
        · intro ok
          split
          · split
            · exact rel_pure P.pre _
            · apply rel_bind P.pre (rel_readCtx P.pre _); intro _; exact rel_throwE P.pre _
          · exact rel_reraise P.pre _
    · exact rel_throwE P.pre _
  · exact rel_throwE P.pre _

/-- **The generic invariant theorem**: any preorder preserved by the primitive updates relates the
context before and after executing any script with any fuel, on every exit (ok / error / panic). -/
theorem exec_rel (env : Env) : ∀ (fuel : Nat) (i : Instr), Rel R (exec env fuel i)
  | 0, i => by unfold exec; exact rel_throwE P.pre _
  | fuel + 1, i => by
    unfold exec
    split
    · exact ep_execCall P _ _ _ _ _ _ _
    · exact rel_onError P.pre (ep_execInner P env fuel (exec_rel env fuel) i) (fun e c => ep_setErrorsOf P e i c)

end

end AquaProps
