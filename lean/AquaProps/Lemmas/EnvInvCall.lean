import AquaProps.Lemmas.EnvInvStep
import AquaProps.Lemmas.ExecRel
/-!
`Step env` for `call` (results produced locally, results arriving via merged data, requests), streams,
`canon`, stream folds, and the fuel induction over `exec`.
-/
namespace AquaProps
open Aqua Aqua.Exec Aqua.Air Aqua.Trace Aqua.Json Aqua.Data

variable {env : Env}

local notation "SP" => step_preorder env

/-! ## what a successful lookup / verification says -/

theorem resolveServiceInfo_ok {env : Env} {s : CidState} {cid : Cid} {v : JVal} {t : Tetraplet} {agg : ServiceResultAgg}
    (h : resolveServiceInfo env s cid = .ok (v, t, agg)) :
    lookup s.serviceResults cid = some agg ∧ lookup s.tetraplets agg.tetrapletCid = some t ∧
    ∃ raw, lookup s.values agg.valueCid = some raw ∧ env.parseJson raw = some v := by
  unfold resolveServiceInfo at h
  split at h
  · simp [uncatchable] at h
  · rename_i agg' hagg
    split at h
    · simp [uncatchable] at h
    · rename_i raw hraw
      split at h
      · cases h
      · rename_i v' hv
        split at h
        · simp [uncatchable] at h
        · rename_i t' ht
          injection h with h; injection h with h1 h; injection h with h2 h3
          subst h1 h2 h3
          exact ⟨hagg, ht, raw, hraw, hv⟩

theorem verifyCall_ok {eh sh : String} {et st : Tetraplet} (h : verifyCall eh et sh st = .ok ()) : eh = sh ∧ et = st := by
  unfold verifyCall at h
  split at h
  · simp [uncatchable] at h
  · split at h
    · simp [uncatchable] at h
    · rename_i h1 h2
      exact ⟨by simpa using h1, by simpa using h2⟩

/-- a tetraplet looked up in a content-keyed store is recorded -/
theorem recorded_of_lookup {env : Env} {s : CidState} {k : Cid} {t : Tetraplet} (hk : Keyed env s) (h : lookup s.tetraplets k = some t) :
    Recorded env s t := by
  have hm := lookup_mem h
  have : k = env.hash t.json := hk _ hm
  exact ⟨t, "", by rw [← this]; exact mem_keys_of_mem hm, (addLens_empty t).symm⟩

/-! ## the stream store is the only thing `add_stream_value` / `set_stream` touch -/

structure OnlyStreams (c c' : Ctx) : Prop where
  cid : c'.cid = c.cid
  scalars : c'.scalars = c.scalars
  error : c'.error = c.error
  lastError : c'.lastError = c.lastError
  reqs : c'.callRequests = c.callRequests

theorem onlyStreams_setStream (c : Ctx) (name : String) (pos : Nat) (s : Stream) : OnlyStreams c (c.setStream name pos s) := by
  unfold Ctx.setStream
  split
  · exact ⟨rfl, rfl, rfl, rfl, rfl⟩
  · split <;> exact ⟨rfl, rfl, rfl, rfl, rfl⟩

theorem onlyStreams_addStreamValue {c c' : Ctx} {v : ValueAggregate} {name : String} {g : Generation} {pos : Nat}
    (h : c.addStreamValue v name g pos = .ok c') : OnlyStreams c c' := by
  unfold Ctx.addStreamValue at h
  cases hg : c.getStream name pos with
  | some s =>
    simp only [hg, bind, Res.bind] at h
    cases ha : s.addValue v g with
    | ok s' => simp only [ha, pure] at h; injection h with h; subst h; exact onlyStreams_setStream c name pos s'
    | error e => simp [ha] at h
    | panic e => simp [ha] at h
  | none =>
    simp only [hg, bind, Res.bind] at h
    cases ha : ({} : Stream).addValue v g with
    | ok s' => simp only [ha, pure] at h; injection h with h; subst h; exact ⟨rfl, rfl, rfl, rfl, rfl⟩
    | error e => simp [ha] at h
    | panic e => simp [ha] at h

theorem onlyStreams_scopeStart (c : Ctx) (name : String) (l r : Nat) : OnlyStreams c (c.streamScopeStart name l r) := by
  unfold Ctx.streamScopeStart
  split <;> exact ⟨rfl, rfl, rfl, rfl, rfl⟩

theorem onlyStreams_scopeEnd {c c' : Ctx} {name : String} (h : c.streamScopeEnd name = .ok c') : OnlyStreams c c' := by
  unfold Ctx.streamScopeEnd at h
  split at h
  · cases h
  · split at h
    · cases h
    · split at h
      · injection h with h; subst h; exact ⟨rfl, rfl, rfl, rfl, rfl⟩
      · cases h
      · cases h

/-- a state change that touches the stream store (and the trace handler) only -/
theorem step_onlyStreams {c c' : Ctx} (h : OnlyStreams c c') (hs : EnvInv env c → StreamsOK (PairOK env c.cid) c'.streams) : Step env c c' :=
  step_keep h.reqs h.cid fun hi =>
    ⟨by rw [h.cid]; exact hi.keyed, by rw [h.cid, h.scalars]; exact hi.scalars, by rw [h.cid]; exact hs hi,
     by rw [h.cid, h.error]; exact hi.error, by rw [h.cid, h.lastError]; exact hi.lastError⟩

theorem step_addStreamValue_at (c : Ctx) (v : ValueAggregate) (name : String) (g : Generation) (pos : Nat)
    (hv : EnvInv env c → AggP (PairOK env c.cid) v) : Step env c ((modifyER fun c => c.addStreamValue v name g pos) c).2 := by
  apply rel_modifyER_at SP
  intro c' h
  exact step_onlyStreams (onlyStreams_addStreamValue h) fun hi => addStreamValue_ok hi.streams (hv hi) h

theorem step_setStream_at (c : Ctx) (name : String) (pos : Nat) (s : Stream) (hs : EnvInv env c → StreamOK (PairOK env c.cid) s) :
    Step env c (c.setStream name pos s) :=
  step_onlyStreams (onlyStreams_setStream c name pos s) fun hi => setStream_ok name pos hi.streams (hs hi)

/-! ## results produced on this peer -/

theorem envInv_populateFromPeerServiceResult {c c' : Ctx} {result : JVal} {t : Tetraplet} {ah : String} {pos : Nat}
    {out : CallOutput} {cr : CallResult}
    (h : populateFromPeerServiceResult env c result t ah pos out = .ok (cr, c')) :
    c'.callRequests = c.callRequests ∧ KeysGrow c.cid c'.cid ∧ (EnvInv env c → EnvInv env c') := by
  cases out with
  | none =>
    simp only [populateFromPeerServiceResult] at h
    injection h with h; injection h with _ h; subst h
    exact ⟨rfl, KeysGrow.refl _, id⟩
  | stream n p =>
    simp only [populateFromPeerServiceResult, bind, Res.bind] at h
    cases htr : trackServiceResult env c.cid result t ah with
    | mk cid cs =>
      simp only [htr] at h
      have hg : KeysGrow c.cid cs := by have := keysGrow_trackServiceResult env c.cid result t ah; rwa [htr] at this
      have hrec : Recorded env cs t := by have := recorded_trackServiceResult env c.cid result t ah; rwa [htr] at this
      cases hs : ({ c with cid := cs } : Ctx).addStreamValue ⟨result, t, pos, .serviceResult cid⟩ n .new p with
      | ok c2 =>
        simp only [hs, pure] at h
        injection h with h; injection h with _ h; subst h
        have ho := onlyStreams_addStreamValue hs
        refine ⟨by simp [ho.reqs], by simp [ho.cid]; exact hg, fun hi => ?_⟩
        have hk : Keyed env cs := by have := keyed_trackServiceResult result t ah hi.keyed; rwa [htr] at this
        have h1 := envInv_grow hg hk hi
        have hv : AggP (PairOK env cs) ⟨result, t, pos, .serviceResult cid⟩ := Or.inr hrec
        have hst := addStreamValue_ok (P := PairOK env cs) h1.streams hv hs
        exact ⟨by simp [ho.cid]; exact h1.keyed, by simp [ho.cid, ho.scalars]; exact h1.scalars, by simp [ho.cid]; exact hst,
          by simp [ho.cid, ho.error]; exact h1.error, by simp [ho.cid, ho.lastError]; exact h1.lastError⟩
      | error e => simp [hs] at h
      | panic s => simp [hs] at h
  | scalar name =>
    simp only [populateFromPeerServiceResult, bind, Res.bind] at h
    cases htr : trackServiceResult env c.cid result t ah with
    | mk cid cs =>
      simp only [htr] at h
      have hg : KeysGrow c.cid cs := by have := keysGrow_trackServiceResult env c.cid result t ah; rwa [htr] at this
      have hrec : Recorded env cs t := by have := recorded_trackServiceResult env c.cid result t ah; rwa [htr] at this
      cases hs : ({ c with cid := cs } : Ctx).scalars.setScalarValue name ⟨result, t, pos, .serviceResult cid⟩ with
      | ok sc =>
        simp only [hs, pure] at h
        injection h with h; injection h with _ h; subst h
        refine ⟨by simp, by simp; exact hg, fun hi => ?_⟩
        have hk : Keyed env cs := by have := keyed_trackServiceResult result t ah hi.keyed; rwa [htr] at this
        have h1 := envInv_grow hg hk hi
        have hv : AggP (PairOK env cs) ⟨result, t, pos, .serviceResult cid⟩ := Or.inr hrec
        exact ⟨by simpa using h1.keyed, by simpa using setScalarValue_ok h1.scalars hv hs, by simpa using h1.streams,
          by simpa using h1.error, by simpa using h1.lastError⟩
      | error e => simp [hs] at h
      | panic s => simp [hs] at h

/-! ## results arriving via merged data -/

theorem envInv_populateFromData {c c' : Ctx} {value : ValueRef} {ah : String} {t : Tetraplet} {pos : Nat} {out : CallOutput} {src : ValueSource}
    (h : populateFromData env c value ah t pos out src = .ok c') :
    c'.callRequests = c.callRequests ∧ c'.cid = c.cid ∧ (EnvInv env c → EnvInv env c') := by
  unfold populateFromData at h
  split at h
  · rename_i name cid
    simp only [bind, Res.bind] at h
    cases hr : resolveServiceInfo env c.cid cid with
    | ok x =>
      obtain ⟨v, curT, agg⟩ := x
      simp only [hr] at h
      cases hv : verifyCall ah t agg.argumentHash curT with
      | ok u =>
        simp only [hv] at h
        cases hs : c.scalars.setScalarValue name ⟨v, t, pos, .serviceResult cid⟩ with
        | ok sc =>
          simp only [hs, pure] at h
          injection h with h; subst h
          refine ⟨rfl, rfl, fun hi => ?_⟩
          obtain ⟨_, htet, _⟩ := resolveServiceInfo_ok hr
          obtain ⟨_, heq⟩ := verifyCall_ok hv
          subst heq
          have hv' : AggP (PairOK env c.cid) ⟨v, t, pos, .serviceResult cid⟩ := Or.inr (recorded_of_lookup hi.keyed htet)
          exact ⟨hi.keyed, setScalarValue_ok hi.scalars hv' hs, hi.streams, hi.error, hi.lastError⟩
        | error e => simp [hs] at h
        | panic s => simp [hs] at h
      | error e => simp [hv] at h
      | panic s => simp [hv] at h
    | error e => simp [hr] at h
    | panic s => simp [hr] at h
  · rename_i name spos cid generation
    simp only [bind, Res.bind] at h
    cases hr : resolveServiceInfo env c.cid cid with
    | ok x =>
      obtain ⟨v, curT, agg⟩ := x
      simp only [hr] at h
      cases hv : verifyCall ah t agg.argumentHash curT with
      | ok u =>
        simp only [hv] at h
        have ho := onlyStreams_addStreamValue h
        refine ⟨ho.reqs, ho.cid, fun hi => ?_⟩
        obtain ⟨_, htet, _⟩ := resolveServiceInfo_ok hr
        obtain ⟨_, heq⟩ := verifyCall_ok hv
        subst heq
        have hv' : AggP (PairOK env c.cid) ⟨v, t, pos, .serviceResult cid⟩ := Or.inr (recorded_of_lookup hi.keyed htet)
        have hst := addStreamValue_ok (P := PairOK env c.cid) hi.streams hv' h
        exact ⟨by rw [ho.cid]; exact hi.keyed, by rw [ho.cid, ho.scalars]; exact hi.scalars, by rw [ho.cid]; exact hst,
          by rw [ho.cid, ho.error]; exact hi.error, by rw [ho.cid, ho.lastError]; exact hi.lastError⟩
      | error e => simp [hv] at h
      | panic s => simp [hv] at h
    | error e => simp [hr] at h
    | panic s => simp [hr] at h
  · injection h with h; subst h; exact ⟨rfl, rfl, id⟩
  · simp [uncatchable] at h

/-! ## the call instruction -/

theorem step_meetCallEnd (cr : CallResult) : Rel (Step env) (meetCallEnd cr) :=
  rel_modifyCtx fun c => step_th env c _

theorem step_makeSubgraphIncomplete : Rel (Step env) makeSubgraphIncomplete := rel_modifyCtx (step_inc env)

/-- recording a failed call: the failed value is tracked in the CID stores, the CID is registered, the trace gets a `failed` state -/
theorem step_trackFailed (t : Tetraplet) (ah : String) (v : JVal) (c : Ctx) :
    Step env c
      (let (cid, cs) := trackServiceResult env c.cid v t ah
       let c1 := ({ c with cid := cs } : Ctx).recordCallCid t.peerPk cid
       { c1 with th := c1.th.meetCallEnd (.failed cid) }) := by
  refine step_keep_grow (by simp) (by simp; exact keysGrow_trackServiceResult env c.cid v t ah) fun hi => ?_
  have hg := keysGrow_trackServiceResult env c.cid v t ah
  have hk := keyed_trackServiceResult v t ah hi.keyed
  have h1 := envInv_grow hg hk hi
  exact ⟨by simpa using h1.keyed, by simpa using h1.scalars, by simpa using h1.streams, by simpa using h1.error, by simpa using h1.lastError⟩

theorem step_updateStateWithServiceResult (t : Tetraplet) (ah : String) (out : CallOutput) (sr : CallServiceResult) :
    Rel (Step env) (updateStateWithServiceResult env t ah out sr) := by
  unfold updateStateWithServiceResult
  split
  · apply rel_bind SP
    · apply rel_modifyCtx
      intro c
      exact step_trackFailed t ah _ c
    · intro _; exact rel_throwE SP _
  · split
    · -- the result is not JSON
      apply rel_bind SP
      · apply rel_modifyCtx
        intro c
        exact step_trackFailed t ah _ c
      · intro _; exact rel_throwE SP _
    · apply rel_modifyER SP
      intro c c' h
      simp only [bind, Res.bind] at h
      split at h
      · rename_i p hp
        obtain ⟨cr, c1⟩ := p
        injection h with h; subst h
        obtain ⟨hreq, hgrow, hinv⟩ := envInv_populateFromPeerServiceResult hp
        exact step_keep_grow (by simpa using hreq) (by simpa using hgrow) fun hi =>
          let h1 := hinv hi
          ⟨h1.keyed, h1.scalars, h1.streams, h1.error, h1.lastError⟩
      · cases h
      · cases h

theorem step_sentByOther (met : MetCallResult) (t : Tetraplet) : Rel (Step env) (sentByOther met t) := by
  unfold sentByOther
  apply rel_bind SP (rel_readCtx SP _)
  intro me
  split
  · exact rel_pure SP _
  · exact rel_bind SP step_makeSubgraphIncomplete fun _ => rel_pure SP _

theorem step_unwrapHash (s : String) (h : Option String) : Rel (Step env) (unwrapHash s h) := by
  unfold unwrapHash; split
  · exact rel_pure SP _
  · exact rel_panicM SP _

theorem step_handlePrevState (met : MetCallResult) (t : Tetraplet) (ah : Option String) (out : CallOutput) :
    Rel (Step env) (handlePrevState env met t ah out) := by
  unfold handlePrevState
  split
  · -- failed
    apply rel_bind SP (rel_readER SP _); intro r
    apply rel_bind SP (step_unwrapHash _ _); intro h
    apply rel_bind SP (rel_readER SP _); intro _
    split
    · split
      · exact rel_throwE SP _
      · apply rel_bind SP
        · apply rel_modifyCtx; intro c
          refine step_same ?_ ?_ ?_ ?_ ?_ ?_ <;> simp
        · intro _; exact rel_throwE SP _
    · exact rel_throwE SP _
  · -- own request
    apply rel_bind SP (rel_readCtx SP _); intro me
    split
    · apply rel_bind SP (rel_readCtx SP _); intro found
      split
      · apply rel_bind SP
        · apply rel_modifyCtx; intro c; samestate
        · intro _
          apply rel_bind SP (step_unwrapHash _ _); intro h
          apply rel_bind SP (step_updateStateWithServiceResult t _ _ _); intro _
          exact rel_pure SP _
      · exact rel_bind SP step_makeSubgraphIncomplete fun _ => rel_pure SP _
    · exact step_sentByOther _ _
  · exact step_sentByOther _ _
  · -- executed: the value comes from the merged data
    apply rel_bind SP (step_unwrapHash _ _); intro h
    apply rel_bind SP
    · apply rel_modifyER SP; intro c c' hc
      obtain ⟨hreq, hcid, hinv⟩ := envInv_populateFromData hc
      exact step_keep hreq hcid hinv
    · intro _
      apply rel_bind SP
      · apply rel_modifyCtx; intro c
        refine step_same ?_ ?_ ?_ ?_ ?_ ?_ <;> (simp only []; split <;> simp)
      · intro _; exact rel_pure SP _

/-- a request is issued with exactly the specified tetraplets, in the context it was issued in -/
theorem step_issueRequest (t : Tetraplet) (args : List Value) (c c' : Ctx) (h : issueRequest t args c = .ok c') : Step env c c' := by
  unfold issueRequest at h
  split at h
  · rename_i vs tss hca
    split at h
    · cases h
    · injection h with h; subst h
      refine ⟨KeysGrow.refl _, fun hi => ?_⟩
      obtain ⟨hl, hs⟩ := collectArgs_spec c args vs tss hca
      refine ⟨⟨hi.keyed, hi.scalars, hi.streams, hi.error, hi.lastError⟩, [_], rfl, ?_⟩
      intro r hr
      simp at hr; subst hr
      exact ⟨c, args, hi, hl, hs⟩
  · cases h
  · cases h

theorem step_maybeSetPrevState (s : StateDescriptor) : Rel (Step env) s.maybeSetPrevState := by
  unfold StateDescriptor.maybeSetPrevState; split
  · exact step_meetCallEnd _
  · exact rel_pure SP _

theorem step_dispatch (t : Tetraplet) (args : List Value) (state : StateDescriptor) : Rel (Step env) (dispatch t args state) := by
  unfold dispatch
  apply rel_bind SP (rel_readCtx SP _); intro me
  split
  · unfold handleRemoteCall
    apply rel_modifyCtx; intro c; samestate
  · apply rel_bind SP
    · exact rel_tryM (rel_modifyER SP fun c c' h => step_issueRequest t args c c' h)
    · intro r
      split
      · exact rel_pure SP _
      · split
        · exact rel_bind SP (step_maybeSetPrevState _) fun _ => rel_throwE SP _
        · exact rel_throwE SP _
      · exact rel_panicM SP _

theorem step_resolvedExecute (i : Instr) (t : Tetraplet) (args : List Value) (out : CallOutput) :
    Rel (Step env) (resolvedExecute env i t args out) := by
  unfold resolvedExecute
  apply rel_bind SP (rel_readER SP _); intro checked
  apply rel_bind SP (rel_liftTH SP _ _ (step_th env)); intro met
  apply rel_bind SP
  · unfold prepareState; split
    · exact step_handlePrevState _ _ _ _
    · exact rel_pure SP _
  · intro state
    unfold afterState
    split
    split
    · exact step_maybeSetPrevState _
    · exact step_dispatch _ _ _

theorem step_execCall (i : Instr) (p s f : Value) (args : List Value) (out : CallOutput) :
    Rel (Step env) (execCall env i p s f args out) := by
  unfold execCall
  apply rel_bind SP
  · exact rel_joinable SP (rel_onError SP (rel_readER SP _) (step_callSetErrors i none)) (step_inc env)
  · intro r
    split
    · exact rel_pure SP _
    · rename_i t
      apply rel_bind SP
      · exact rel_joinable SP (rel_onError SP (step_resolvedExecute _ t _ _) (step_callSetErrors i _)) (step_inc env)
      · intro _; exact rel_pure SP _

/-! ## `ap` into a stream -/

theorem applyToArgStream_ok {c : Ctx} (hi : EnvInv env c) {arg : Value} {va : ValueAggregate} (h : applyToArgStream c arg = .ok va) :
    AggP (PairOK env c.cid) va := by
  unfold applyToArgStream at h
  split at h
  · rename_i n
    cases ha : applyToArg c (.scalar n) with
    | ok v =>
      rw [ha] at h
      simp only [Res.bind] at h
      injection h with h; subst h
      show PairOK env c.cid v.tetraplet v.provenance
      exact applyToArg_ok hi ha
    | error e => rw [ha] at h; simp [Res.bind] at h
    | panic e => rw [ha] at h; simp [Res.bind] at h
  · exact applyToArg_ok hi h

/-- the trace handler is not part of the invariant -/
theorem envInv_of_th {c : Ctx} {th : TraceHandler} (h : EnvInv env { c with th := th }) : EnvInv env c :=
  ⟨h.keyed, h.scalars, h.streams, h.error, h.lastError⟩

theorem step_execApStream (i : Instr) (arg : Value) (name : String) (pos : Nat) : Rel (Step env) (execApStream i arg name pos) := by
  unfold execApStream
  apply rel_bind_joinable_readER SP (step_inc env)
  · exact rel_pure SP _
  · intro c va h
    -- `meet_ap_start` touches the trace handler only, so the fact about `va` read in `c` is still usable after it
    show Step env c ((M.bind (liftTH i fun th => th.meetApStart) _) c).2
    simp only [M.bind, liftTH, stateER]
    cases hth : (traceToExec (c.th.meetApStart) i).bind fun (x : MergerApResult × TraceHandler) => (Res.ok (x.1, { c with th := x.2 }) : ER (MergerApResult × Ctx)) with
    | ok r =>
      obtain ⟨met, c1⟩ := r
      have hc1 : ∃ th', c1 = { c with th := th' } := by
        cases hm : traceToExec (c.th.meetApStart) i with
        | ok x => simp [hm, Res.bind] at hth; exact ⟨x.2, hth.2.symm⟩
        | error e => simp [hm, Res.bind] at hth
        | panic e => simp [hm, Res.bind] at hth
      obtain ⟨th', rfl⟩ := hc1
      simp only [hth]
      refine (step_preorder env).trans (step_th env c th') ?_
      refine rel_bind_at SP _ ?_ (fun _ => rel_modifyCtx fun c => step_th env c _)
      exact step_addStreamValue_at _ va name _ pos fun hi => applyToArgStream_ok (c := c) (envInv_of_th hi) h
    | error e => simp only [hth]; exact step_refl c
    | panic e => simp only [hth]; exact step_refl c

/-- `ap` into a stream map: the key-value object inherits tetraplet and provenance of the value -/
theorem step_execApMap (i : Instr) (key val : Value) (name : String) (pos : Nat) : Rel (Step env) (execApMap i key val name pos) := by
  unfold execApMap
  apply rel_bind_joinable_readER SP (step_inc env)
  · exact rel_pure SP _
  · intro c va h
    simp only
    refine rel_bind_joinable_readER_at SP (step_inc env) c (rel_pure SP _) ?_
    intro k hk
    show Step env c ((M.bind (liftTH i fun th => th.meetApStart) _) c).2
    simp only [M.bind, liftTH, stateER]
    cases hth : (traceToExec (c.th.meetApStart) i).bind fun (x : MergerApResult × TraceHandler) => (Res.ok (x.1, { c with th := x.2 }) : ER (MergerApResult × Ctx)) with
    | ok r =>
      obtain ⟨met, c1⟩ := r
      have hc1 : ∃ th', c1 = { c with th := th' } := by
        cases hm : traceToExec (c.th.meetApStart) i with
        | ok x => simp [hm, Res.bind] at hth; exact ⟨x.2, hth.2.symm⟩
        | error e => simp [hm, Res.bind] at hth
        | panic e => simp [hm, Res.bind] at hth
      obtain ⟨th', rfl⟩ := hc1
      simp only [hth]
      refine (step_preorder env).trans (step_th env c th') ?_
      refine rel_bind_at SP _ ?_ (fun _ => rel_modifyCtx fun c => step_th env c _)
      exact step_addStreamValue_at _ (ValueAggregate.new (fromKeyValue k va.result) va.tetraplet va.tracePos va.provenance) name _ pos
        fun hi => new_ok (pairOK_closed env _) _ _ (applyToArgStream_ok (c := c) (envInv_of_th hi) h)
    | error e => simp only [hth]; exact step_refl c
    | panic e => simp only [hth]; exact step_refl c

/-! ## the keys of the tetraplet store only grow: an instance of the generic induction `exec_rel` -/

def KG (c c' : Ctx) : Prop := KeysGrow c.cid c'.cid

theorem kg_same {c c' : Ctx} (h : c'.cid = c.cid) : KG c c' := by unfold KG; rw [h]; exact KeysGrow.refl _

theorem kg_preorder : Preorder' KG := ⟨fun c => KeysGrow.refl _, fun h1 h2 => KeysGrow.trans h1 h2⟩

theorem kgPrims : ExecPrims KG where
  pre := kg_preorder
  ctl := fun c c' h => kg_same h.cid
  thCallStart := fun c met th' _ => kg_same rfl
  thParStart := fun c th' _ => kg_same rfl
  thParEnd := fun c t th' _ => kg_same rfl
  pushRequest := fun c s => kg_same rfl
  failedService := by
    intro env t ah sr c
    unfold KG updFailedService
    simp only [rcc_cid]
    exact keysGrow_trackServiceResult env c.cid _ t ah
  serviceResult := by
    intro env result t ah out c c' h
    unfold updServiceResult at h
    obtain ⟨x, h1, h2⟩ := res_bind_ok'' h
    obtain ⟨cr, c1⟩ := x
    simp only [pure] at h2
    injection h2 with h2; subst h2
    exact (envInv_populateFromPeerServiceResult h1).2.1
  prevFailed := by intro t cid c; apply kg_same; unfold updPrevFailed; simp
  dropResult := fun key c => kg_same rfl
  prevExecutedBind := by
    intro env c value ah t pos out src c' h
    exact kg_same (envInv_populateFromData h).2.1
  prevExecuted := by intro t value c; apply kg_same; unfold updPrevExecuted; simp only []; split <;> simp
  issue := by
    intro t args c c' _ h
    apply kg_same
    unfold issueRequest at h
    split at h
    · split at h
      · cases h
      · injection h with h; subst h; rfl
    · cases h
    · cases h
  remote := fun t c _ => kg_same rfl
  streamUpd := fun c c' h => kg_same h.cid
  thApStart := fun c met th' _ => kg_same rfl
  pushAp := fun c => kg_same rfl
  thCanonStart := fun c met th' _ => kg_same rfl
  canonTrack := by
    intro env target stream pos peerId c
    unfold KG updCanonTrack
    exact (trackCanonResult_ok env c.cid _).1
  canonFinish := by
    intro name cs cid reg c c' h
    unfold updCanonFinish at h
    obtain ⟨sc, _, h2⟩ := res_bind_ok'' h
    simp only [pure] at h2
    injection h2 with h2; subst h2
    apply kg_same; simp
  canonPushRequest := fun c sender => kg_same rfl
  canonRemote := fun c peerId _ => kg_same rfl
  foldCount := fun c => kg_same rfl
  thFoldOp := fun c th' _ => kg_same rfl
  scopeEnd := fun name c c' h => kg_same (onlyStreams_scopeEnd h).cid

theorem exec_kg (env : Env) (fuel : Nat) (i : Instr) : Rel KG (exec env fuel i) := exec_rel kgPrims env fuel i

/-- to relate `c` and `c'` by `Step`, the growth of the keys may be shown separately and the rest under the
assumption that the invariant holds in `c` -/
theorem step_of_inv {c c' : Ctx} (hkg : KG c c') (h : EnvInv env c → Step env c c') : Step env c c' :=
  ⟨hkg, fun hi => (h hi).2 hi⟩

/-! ## canon -/

theorem fromCanonStreamAgg_values {cs : CanonStream} {m : CanonStreamMapAgg} (h : CanonStreamMapAgg.fromCanonStream cs = .ok m) :
    m.values = cs.values := by
  unfold CanonStreamMapAgg.fromCanonStream at h
  split at h
  · injection h with h; subst h; rfl
  · cases h
  · cases h

/-- what a `canon` binds (a canon stream, a canon map, or the scalar form) is justified when the canon stream's values are -/
theorem canonBind_ok {c : Ctx} {target : CanonTarget} {cs : CanonStream} {cid : Cid} {sc : Scalars}
    (hs : ScalarsOK (PairOK env c.cid) c.scalars) (hv : AllAgg (PairOK env c.cid) cs.values)
    (h : canonBind target cs cid c = .ok sc) : ScalarsOK (PairOK env c.cid) sc := by
  unfold canonBind at h
  split at h
  · exact setCanonValue_ok hs (show CanonOK (PairOK env c.cid) ⟨cs, cid⟩ from hv) h
  · obtain ⟨m, hm, h2⟩ := res_bind_ok'' h
    refine setCanonMapValue_ok hs (show CanonMapOK (PairOK env c.cid) ⟨m, cid⟩ from ?_) h2
    show AllAgg (PairOK env c.cid) m.values
    rw [fromCanonStreamAgg_values hm]; exact hv
  · split at h
    · simp [uncatchable] at h
    · rename_i first _
      exact setScalarValue_ok hs (show AggP (PairOK env c.cid)
        ⟨first.result, { peerPk := cs.tetraplet.peerPk, lens := cs.tetraplet.lens }, c.th.tracePos, .canon cid⟩ from trivial) h

theorem step_canonFinish_at (c : Ctx) (name : CanonTarget) (cs : CanonStream) (cid : Cid) (reg : String)
    (hv : EnvInv env c → AllAgg (PairOK env c.cid) cs.values) : Step env c ((canonFinish name cs cid reg) c).2 := by
  unfold canonFinish
  apply rel_modifyER_at SP
  intro c' h
  obtain ⟨sc, hs, h2⟩ := res_bind_ok'' h
  simp only [pure] at h2
  injection h2 with h2; subst h2
  refine step_keep (by simp) (by simp) fun hi => ?_
  exact ⟨by simpa using hi.keyed, by simpa using canonBind_ok hi.scalars (hv hi) hs, by simpa using hi.streams,
    by simpa using hi.error, by simpa using hi.lastError⟩

theorem step_createCanonFirstTime (name : CanonTarget) (stream : String) (pos : Nat) (peerId : String) :
    Rel (Step env) (createCanonFirstTime env name stream pos peerId) := by
  intro c
  have h1 : (createCanonFirstTime env name stream pos peerId) c =
      (canonFinish name (updCanonTrack env name stream pos peerId c).1.1 (updCanonTrack env name stream pos peerId c).1.2 peerId)
        (updCanonTrack env name stream pos peerId c).2 := rfl
  rw [h1]
  have hg : KeysGrow c.cid (updCanonTrack env name stream pos peerId c).2.cid := by
    unfold updCanonTrack; exact (trackCanonResult_ok env c.cid _).1
  have hstep1 : Step env c (updCanonTrack env name stream pos peerId c).2 := by
    refine step_keep_grow (by unfold updCanonTrack; rfl) hg fun hi => ?_
    have hk : Keyed env (updCanonTrack env name stream pos peerId c).2.cid := by
      unfold updCanonTrack; exact (trackCanonResult_ok env c.cid _).2 hi.keyed
    have := envInv_grow hg hk hi
    exact ⟨this.keyed, this.scalars, this.streams, this.error, this.lastError⟩
  refine (step_preorder env).trans hstep1 ?_
  apply step_canonFinish_at
  intro hi1
  -- the snapshot consists of values of the stream store, which the tracking step did not touch
  -- (the scalar form of a map canon: ONE literal value)
  have hstr : (updCanonTrack env name stream pos peerId c).2.streams = c.streams := rfl
  have hsnap : AllAgg (PairOK env (updCanonTrack env name stream pos peerId c).2.cid)
      (match c.getStream stream pos with | some s => s.all | none => []) := by
    cases hgs : c.getStream stream pos with
    | none => exact allAgg_nil _
    | some s =>
      have hgs' : (updCanonTrack env name stream pos peerId c).2.getStream stream pos = some s := by
        unfold Ctx.getStream at hgs ⊢; rw [hstr]; exact hgs
      exact stream_all_ok (getStream_ok hi1.streams hgs')
  cases name with
  | stream n => exact hsnap
  | map n => exact hsnap
  | scalar n =>
    intro v hv
    have hp : (updCanonTrack env (.scalar n) stream pos peerId c).1.1.values.map (·.provenance) = [Provenance.literal] := by
      simp [updCanonTrack, canonProduce]
    have : v.provenance = .literal := by
      have hm := List.mem_map_of_mem (f := (·.provenance)) hv
      rw [hp] at hm; simpa using hm
    show PairOK env _ v.tetraplet v.provenance
    rw [this]; trivial

theorem mapM_loop_ok {ε α β : Type} (f : α → Res ε β) : ∀ (as : List α) (bs vs : List β),
    List.mapM.loop f as bs = .ok vs → ∀ v ∈ vs, v ∈ bs ∨ ∃ x ∈ as, f x = .ok v
  | [], bs, vs, h, v, hv => by
    simp only [List.mapM.loop, pure] at h
    injection h with h; subst h
    exact Or.inl (by simpa using hv)
  | a :: as, bs, vs, h, v, hv => by
    simp only [List.mapM.loop, bind, Res.bind] at h
    cases hf : f a with
    | ok b =>
      simp only [hf] at h
      rcases mapM_loop_ok f as (b :: bs) vs h v hv with h1 | ⟨x, hx, h2⟩
      · rcases List.mem_cons.mp h1 with h3 | h3
        · subst h3; exact Or.inr ⟨a, by simp, hf⟩
        · exact Or.inl h3
      · exact Or.inr ⟨x, by simp [hx], h2⟩
    | error e => simp [hf] at h
    | panic s => simp [hf] at h

theorem mapM_ok {ε α β : Type} (f : α → Res ε β) (as : List α) (vs : List β) (h : as.mapM f = .ok vs) :
    ∀ v ∈ vs, ∃ x ∈ as, f x = .ok v := by
  intro v hv
  rcases mapM_loop_ok f as [] vs h v hv with h1 | h1
  · simp at h1
  · exact h1

/-- an element of a canon stream rebuilt from the stores carries a tetraplet of the tetraplet store -/
theorem getCanonValueByCid_ok {s : CidState} {cid : Cid} {va : ValueAggregate} (hk : Keyed env s)
    (h : getCanonValueByCid env s cid = .ok va) : AggP (PairOK env s) va := by
  unfold getCanonValueByCid at h
  split at h
  · simp [uncatchable] at h
  · rename_i agg _
    obtain ⟨v, _, h2⟩ := res_bind_ok'' h
    obtain ⟨t, ht, h3⟩ := res_bind_ok'' h2
    simp only [pure] at h3
    injection h3 with h3; subst h3
    unfold getTetrapletByCid at ht
    split at ht
    · simp [uncatchable] at ht
    · rename_i t' hl
      injection ht with ht; subst ht
      refine new_ok (pairOK_closed env s) _ _ ?_
      cases agg.provenance with
      | serviceResult k => exact Or.inr (recorded_of_lookup hk hl)
      | literal => trivial
      | canon k => trivial

theorem step_canonExecuted (name : CanonTarget) (peer : Value) (cid : Cid) : Rel (Step env) (canonExecuted env name peer cid) := by
  unfold canonExecuted
  apply rel_bind_readER SP
  intro c cs h
  apply step_canonFinish_at
  intro hi
  obtain ⟨peerId, _, h2⟩ := res_bind_ok'' h
  split at h2
  · simp [uncatchable] at h2
  · obtain ⟨t, _, h3⟩ := res_bind_ok'' h2
    obtain ⟨_, _, h4⟩ := res_bind_ok'' h3
    obtain ⟨values, hm, h5⟩ := res_bind_ok'' h4
    simp only [pure] at h5
    injection h5 with h5; subst h5
    intro v hv
    obtain ⟨x, _, hx⟩ := mapM_ok _ _ _ hm v hv
    exact getCanonValueByCid_ok hi.keyed hx

theorem step_execCanon (i : Instr) (peer : Value) (stream : String) (pos : Nat) (name : CanonTarget) :
    Rel (Step env) (execCanon env i peer stream pos name) := by
  unfold execCanon
  apply rel_bind SP (rel_liftTH SP _ _ (step_th env)); intro met
  split
  · exact step_canonExecuted _ _ _
  · apply rel_bind SP (rel_readER SP _); intro peerId
    apply rel_bind SP (rel_readCtx SP _); intro me
    split
    · apply rel_modifyCtx; intro c; samestate
    · exact step_createCanonFirstTime _ _ _ _
  · apply rel_bind SP (rel_joinable SP (rel_readER SP _) (step_inc env)); intro r
    split
    · exact rel_pure SP _
    · apply rel_bind SP (rel_readCtx SP _); intro me
      split
      · apply rel_modifyCtx; intro c; samestate
      · exact step_createCanonFirstTime _ _ _ _

/-! ## stream folds -/

theorem step_maybeTH (i : Instr) (fs : FoldState) (f : Nat → TraceHandler → TR TraceHandler) : Rel (Step env) (maybeTH i fs f) := by
  unfold maybeTH
  split
  · exact rel_liftTH' SP _ _ (step_th env)
  · exact rel_pure SP _

theorem step_nextMarkBackIteration (iterator : String) : Rel (Step env) (nextMarkBackIteration iterator) := by
  unfold nextMarkBackIteration
  apply rel_modifyER SP
  intro c c' h
  cases hg : c.scalars.getIterable iterator with
  | ok fs =>
    simp only [hg, Res.bind] at h
    split at h
    · split at h
      · injection h with h; subst h
        refine step_keep rfl rfl fun hi => ?_
        have hit : IterOK (PairOK env c.cid) fs.iterable := getIterable_ok hi.scalars hg
        exact ⟨hi.keyed, setIterableState_ok (f := { fs with backIterationStarted := true }) iterator hi.scalars hit, hi.streams, hi.error, hi.lastError⟩
      · injection h with h; subst h; exact step_refl _
    · injection h with h; subst h; exact step_refl _
  | error e => simp [hg, Res.bind] at h
  | panic p => simp [hg, Res.bind] at h

theorem step_newLeaveCanon {c c' : Ctx} {name : String} {b : Bool} (h : newLeaveCanon name c = .ok (b, c')) : Step env c c' := by
  unfold newLeaveCanon at h
  refine step_withScalarsRet h ?_
  intro a sc hi hs
  simp only at hs
  injection hs with hs; injection hs with _ hs; subst hs
  exact s_meetNewEndCanon_ok name hi.scalars

theorem step_newLeaveCanonMap {c c' : Ctx} {name : String} {b : Bool} (h : newLeaveCanonMap name c = .ok (b, c')) : Step env c c' := by
  unfold newLeaveCanonMap at h
  refine step_withScalarsRet h ?_
  intro a sc hi hs
  simp only at hs
  injection hs with hs; injection hs with _ hs; subst hs
  exact s_meetNewEndCanonMap_ok name hi.scalars

theorem step_throwIfNotCatchable (res : Res ExecErr Unit) : Rel (Step env) (throwIfNotCatchable res) := by
  unfold throwIfNotCatchable
  split
  · exact rel_pure SP _
  · exact rel_pure SP _
  · exact rel_reraise SP _

/-- the guard of the fold loops: the slices still to be iterated are justified by the current stores -/
theorem slices_guard_stable (l : List (List ValueAggregate)) (c c' : Ctx) (hg : SlicesOK (PairOK env c.cid) l) (hs : Step env c c') :
    SlicesOK (PairOK env c'.cid) l := slicesOK_mono (fun _ _ => pairOK_mono hs.1) hg

section folds
variable (fuel : Nat) (ih : ∀ i, Rel (Step env) (exec env fuel i))
include ih

theorem step_execFoldIterations (i : Instr) (iterator : String) (body : Instr) (last : Option Instr) (foldId : Nat) :
    ∀ (l : List (List ValueAggregate)) (acc : Bool) (c : Ctx), SlicesOK (PairOK env c.cid) l →
      Step env c ((execFoldIterations env fuel i iterator body last foldId l acc) c).2
  | [], acc, c, _ => by unfold execFoldIterations; exact rel_pure SP _ c
  | vals :: rest, acc, c, hg => by
    unfold execFoldIterations
    have hrest : ∀ (c' : Ctx) (vs0 : List ValueAggregate), SlicesOK (PairOK env c'.cid) (vs0 :: rest) → SlicesOK (PairOK env c'.cid) rest :=
      fun c' vs0 h g hgm => h g (List.mem_cons_of_mem _ hgm)
    split
    · exact step_execFoldIterations i iterator body last foldId rest acc c (hrest c _ hg)
    · rename_i v vs
      refine rel_bind_guard SP (G := fun c' => SlicesOK (PairOK env c'.cid) ((v :: vs) :: rest)) (slices_guard_stable _) c hg
        (rel_liftTH' SP _ _ (step_th env) c) ?_
      intro _ c1 hg1
      refine rel_bind_guard SP (G := fun c' => SlicesOK (PairOK env c'.cid) ((v :: vs) :: rest)) (slices_guard_stable _) c1 hg1 ?_ ?_
      · apply rel_modifyER_at SP
        intro c' h
        exact step_foldEnter iterator { iterable := .vec (v :: vs) 0, iterableType := .stream foldId, instrHead := body, lastInstrHead := last }
          (fun _ => (hg1 _ (List.mem_cons_self ..) : AllAgg (PairOK env c1.cid) (v :: vs))) h
      · intro _ c2 hg2
        refine rel_bind_guard SP (G := fun c' => SlicesOK (PairOK env c'.cid) ((v :: vs) :: rest)) (slices_guard_stable _) c2 hg2
          (rel_tryM (ih body) c2) ?_
        intro res c3 hg3
        refine rel_bind_guard SP (G := fun c' => SlicesOK (PairOK env c'.cid) ((v :: vs) :: rest)) (slices_guard_stable _) c3 hg3
          (rel_modifyER SP (fun c c' h => step_foldLeave iterator h) c3) ?_
        intro _ c4 hg4
        refine rel_bind_guard SP (G := fun c' => SlicesOK (PairOK env c'.cid) ((v :: vs) :: rest)) (slices_guard_stable _) c4 hg4
          (step_throwIfNotCatchable res c4) ?_
        intro _ c5 hg5
        refine rel_bind_guard SP (G := fun c' => SlicesOK (PairOK env c'.cid) ((v :: vs) :: rest)) (slices_guard_stable _) c5 hg5
          (rel_liftTH' SP _ _ (step_th env) c5) ?_
        intro _ c6 hg6
        refine rel_bind_guard SP (G := fun c' => SlicesOK (PairOK env c'.cid) ((v :: vs) :: rest)) (slices_guard_stable _) c6 hg6
          (rel_readCtx SP _ c6) ?_
        intro complete c7 hg7
        exact step_execFoldIterations i iterator body last foldId rest _ c7 (hrest c7 _ hg7)

theorem step_execFoldStreamLoop (i : Instr) (stream : String) (pos : Nat) (iterator : String) (body : Instr) (last : Option Instr) (foldId : Nat) :
    ∀ (n : Nat) (st : Option (List (List ValueAggregate))) (cur : StreamCursor) (acc : Bool) (c : Ctx),
      (∀ l, st = some l → SlicesOK (PairOK env c.cid) l) →
      Step env c ((execFoldStreamLoop env fuel n i stream pos iterator body last foldId st cur acc) c).2
  | n, none, cur, acc, c, _ => by unfold execFoldStreamLoop; exact rel_pure SP _ c
  | 0, some l, cur, acc, c, _ => by unfold execFoldStreamLoop; exact rel_throwE SP _ c
  | n + 1, some l, cur, acc, c, hg => by
    unfold execFoldStreamLoop
    refine rel_bind_at SP c (step_execFoldIterations fuel ih i iterator body last foldId l acc c (hg l rfl)) ?_
    intro acc'
    -- the stream is read again; under the invariant its values are justified
    unfold foldStreamGet
    apply rel_bind_readER SP
    intro c1 s hs
    have hsome : c1.getStream stream pos = some s := by
      cases hgs : c1.getStream stream pos with
      | some s' => simp [hgs] at hs; rw [hs]
      | none => simp [hgs] at hs
    have hKG := exec_kg env fuel
    refine step_of_inv ?_ (fun hi1 => ?_)
    · exact (rel_bind kgPrims.pre (rel_modifyCtx fun c => ep_setStream kgPrims _ _ _ c)
        (fun _ => ep_execFoldStreamLoop kgPrims env fuel hKG i stream pos iterator body last foldId n _ _ _)) c1
    · have hso := getStream_ok hi1.streams hsome
      obtain ⟨hs', hsl⟩ := metIterationEnd_ok (P := PairOK env c1.cid) cur hso
      refine rel_bind_guard SP (G := fun c' => ∀ l', (metIterationEnd cur s).1 = some l' → SlicesOK (PairOK env c'.cid) l')
        (fun (ca cb : Ctx) hga (hst : Step env ca cb) l' hl' => slicesOK_mono (fun _ _ => pairOK_mono hst.1) (hga l' hl')) c1 hsl ?_ ?_
      · exact step_setStream_at c1 stream pos _ (fun _ => hs')
      · intro _ c2 hg2
        exact step_execFoldStreamLoop i stream pos iterator body last foldId n _ _ _ c2 hg2

end folds

/-! ## the other instructions, one lemma each -/

section instrs
variable (fuel : Nat) (ih : ∀ i, Rel (Step env) (exec env fuel i))
include ih

theorem step_execSubgraph (par sub : Instr) (t : SubgraphType) : Rel (Step env) (execSubgraph env fuel par sub t) := by
  unfold execSubgraph
  apply rel_bind SP
  · apply rel_modifyCtx; intro c; samestate
  · intro _
    apply rel_bind SP (rel_tryM (ih sub)); intro res
    split
    · apply rel_bind SP (rel_liftTH' SP _ _ (step_th env)); intro _
      apply rel_bind SP (rel_readCtx SP _); intro _
      exact rel_pure SP _
    · apply rel_bind SP step_makeSubgraphIncomplete; intro _
      apply rel_bind SP (rel_liftTH' SP _ _ (step_th env)); intro _
      apply rel_bind SP (rel_readCtx SP _); intro _
      exact rel_pure SP _
    · exact rel_bind SP step_makeSubgraphIncomplete fun _ => rel_throwE SP _
    · exact rel_panicM SP _

theorem step_seq (l r : Instr) : Rel (Step env) (execInner env fuel (.seq l r)) := by
  simp only [execInner]
  apply rel_bind SP
  · apply rel_modifyCtx; intro c; samestate
  · intro _
    apply rel_bind SP (ih _); intro _
    apply rel_bind SP (rel_readCtx SP _); intro complete
    split
    · exact ih _
    · exact rel_pure SP _

theorem step_xor (l r : Instr) : Rel (Step env) (execInner env fuel (.xor l r)) := by
  simp only [execInner]
  apply rel_bind SP
  · apply rel_modifyCtx; intro c; samestate
  · intro _
    apply rel_bind SP (rel_tryM (ih _)); intro res
    split
    · apply rel_bind SP (rel_modifyCtx (step_xorEnterRight _)); intro _
      apply rel_bind SP (rel_tryM (ih _)); intro right
      apply rel_bind SP (rel_modifyCtx (step_xorLeaveRight _)); intro _
      exact rel_reraise SP _
    · exact rel_reraise SP _

theorem step_par (l r : Instr) : Rel (Step env) (execInner env fuel (.par l r)) := by
  have hsub := step_execSubgraph fuel ih
  simp only [execInner]
  apply rel_bind SP (rel_liftTH' SP _ _ (step_th env)); intro _
  apply rel_bind SP (hsub _ _ _); intro left
  apply rel_bind SP (hsub _ _ _); intro right
  apply rel_bind SP
  · apply rel_modifyCtx; intro c; samestate
  · intro _
    split
    · apply rel_modifyCtx; intro c; samestate
    · apply rel_modifyCtx; intro c; samestate
    · exact rel_throwE SP _

theorem step_match (a b : Value) (body : Instr) : Rel (Step env) (execInner env fuel (.match_ a b body)) := by
  simp only [execInner]
  apply rel_bind SP (rel_joinable SP (rel_readER SP _) (step_inc env)); intro r
  split
  · exact rel_pure SP _
  · exact ih _
  · exact rel_throwE SP _

theorem step_mismatch (a b : Value) (body : Instr) : Rel (Step env) (execInner env fuel (.mismatch a b body)) := by
  simp only [execInner]
  apply rel_bind SP (rel_joinable SP (rel_readER SP _) (step_inc env)); intro r
  split
  · exact rel_pure SP _
  · exact ih _
  · exact rel_throwE SP _

theorem step_foldScalar (iterable : Value) (iterator : String) (body : Instr) (last : Option Instr) :
    Rel (Step env) (execInner env fuel (.foldScalar iterable iterator body last)) := by
  simp only [execInner]
  apply rel_bind_joinable_readER SP (step_inc env)
  · exact rel_pure SP _
  · intro c a hc
    cases a with
    | none => exact step_refl c
    | some itv =>
      refine rel_bind_at SP c ?_ ?_
      · apply rel_modifyER_at SP
        intro c' h
        exact step_foldEnter iterator _ (fun hi => createScalarIterable_ok hi hc) h
      · intro _
        apply rel_bind SP (rel_tryM (ih _)); intro res
        apply rel_bind SP
        · exact rel_modifyER SP fun c c' h => step_foldLeave iterator h
        · intro _; exact rel_reraise SP _

theorem step_next (iterator : String) : Rel (Step env) (execInner env fuel (.next iterator)) := by
  simp only [execInner]
  apply rel_bind SP (rel_readER SP _); intro fs0
  apply rel_bind SP (step_maybeTH _ _ _); intro _
  apply rel_bind SP
  · exact rel_stateER SP fun c a c' h => step_nextAdvance h
  · intro r
    split
    · apply rel_bind SP (step_maybeTH _ _ _); intro _
      apply rel_bind SP (rel_readER SP _); intro fs
      split
      · apply rel_bind SP
        · apply rel_modifyCtx; intro c; samestate
        · intro _; exact ih _
      · exact step_nextMarkBackIteration _
    · apply rel_bind SP (rel_readER SP _); intro item
      apply rel_bind SP (step_maybeTH _ _ _); intro _
      apply rel_bind SP (rel_tryM (ih _)); intro res
      apply rel_bind SP
      · exact rel_modifyER SP fun c c' h => step_nextAfter h
      · intro _
        split
        · apply rel_bind SP
          · exact rel_modifyER SP fun c c' h => step_nextBack h
          · intro _; exact step_maybeTH _ _ _
        · exact rel_reraise SP _

theorem step_newScalar (name : String) (body : Instr) (sl sr : Nat) : Rel (Step env) (execInner env fuel (.new (.scalar name) body sl sr)) := by
  simp only [execInner]
  apply rel_bind SP
  · apply rel_modifyCtx; intro c
    exact step_keep rfl rfl fun hi => ⟨hi.keyed, s_meetNewStart_ok name hi.scalars, hi.streams, hi.error, hi.lastError⟩
  · intro _
    apply rel_bind SP (rel_tryM (ih _)); intro res
    apply rel_bind SP
    · exact rel_stateER SP fun c a c' h => step_newLeave h
    · intro ok
      split
      · split
        · exact rel_pure SP _
        · apply rel_bind SP (rel_readCtx SP _); intro _; exact rel_throwE SP _
      · exact rel_reraise SP _

theorem step_newCanon (name : String) (body : Instr) (sl sr : Nat) : Rel (Step env) (execInner env fuel (.new (.canon name) body sl sr)) := by
  simp only [execInner]
  apply rel_bind SP
  · apply rel_modifyCtx; intro c
    exact step_keep rfl rfl fun hi => ⟨hi.keyed, s_meetNewStartCanon_ok name hi.scalars, hi.streams, hi.error, hi.lastError⟩
  · intro _
    apply rel_bind SP (rel_tryM (ih _)); intro res
    apply rel_bind SP
    · exact rel_stateER SP fun c a c' h => step_newLeaveCanon h
    · intro ok
      split
      · split
        · exact rel_pure SP _
        · apply rel_bind SP (rel_readCtx SP _); intro _; exact rel_throwE SP _
      · exact rel_reraise SP _

theorem step_newStream (name : String) (body : Instr) (sl sr : Nat) : Rel (Step env) (execInner env fuel (.new (.stream name) body sl sr)) := by
  simp only [execInner]
  apply rel_bind SP
  · apply rel_modifyCtx; intro c
    exact step_onlyStreams (onlyStreams_scopeStart c name sl sr) fun hi => scopeStart_ok name sl sr hi.streams
  · intro _
    apply rel_bind SP (rel_tryM (ih _)); intro res
    apply rel_bind SP
    · apply rel_tryM
      apply rel_modifyER SP
      intro c c' h
      have ho := onlyStreams_scopeEnd h
      exact step_keep ho.reqs ho.cid fun hi =>
        ⟨by rw [ho.cid]; exact hi.keyed, by rw [ho.cid, ho.scalars]; exact hi.scalars, by rw [ho.cid]; exact scopeEnd_ok hi.streams h,
         by rw [ho.cid, ho.error]; exact hi.error, by rw [ho.cid, ho.lastError]; exact hi.lastError⟩
    · intro ep
      split
      · exact rel_pure SP _
      · exact rel_reraise SP _
      · exact rel_reraise SP _

theorem step_foldStream (stream : String) (pos : Nat) (iterator : String) (body : Instr) (last : Option Instr) (sl : Nat) :
    Rel (Step env) (execInner env fuel (.foldStream stream pos iterator body last sl)) := by
  simp only [execInner]
  apply rel_bind SP (rel_readCtx SP _); intro ex
  split
  · exact step_makeSubgraphIncomplete
  · apply rel_bind SP
    · apply rel_stateER SP
      intro c a c' h
      injection h with h; injection h with _ h; subst h
      samestate
    · intro foldId
      apply rel_bind SP (rel_liftTH' SP _ _ (step_th env)); intro _
      unfold foldStreamGet
      apply rel_bind_readER SP
      intro c1 s hs
      have hsome : c1.getStream stream pos = some s := by
        cases hgs : c1.getStream stream pos with
        | some s' => simp [hgs] at hs; rw [hs]
        | none => simp [hgs] at hs
      have hKG := exec_kg env fuel
      have hmf : metFoldStart s = ((metFoldStart s).1, (metFoldStart s).2.1, (metFoldStart s).2.2) := rfl
      rw [hmf]
      simp only []
      refine step_of_inv ?_ (fun hi1 => ?_)
      · refine (show Rel KG _ from ?_) c1
        apply rel_bind kgPrims.pre (rel_modifyCtx fun c => ep_setStream kgPrims _ _ _ c); intro _
        apply rel_bind kgPrims.pre (ep_execFoldStreamLoop kgPrims env fuel hKG _ _ _ _ _ _ _ _ _ _ _); intro complete
        apply rel_bind kgPrims.pre
        · apply rel_modifyCtx; intro c; exact kg_same rfl
        · intro _; exact rel_liftTH' kgPrims.pre _ _ (fun c th => kg_same rfl)
      · have hso := getStream_ok hi1.streams hsome
        obtain ⟨hs', hsl⟩ := metFoldStart_ok (P := PairOK env c1.cid) hso
        refine rel_bind_guard SP (G := fun c' => ∀ l', (metFoldStart s).1 = some l' → SlicesOK (PairOK env c'.cid) l')
          (fun (ca cb : Ctx) hga (hst : Step env ca cb) l' hl' => slicesOK_mono (fun _ _ => pairOK_mono hst.1) (hga l' hl')) c1 hsl ?_ ?_
        · exact step_setStream_at c1 stream pos _ (fun _ => hs')
        · intro _ c2 hg2
          refine rel_bind_at SP c2 (step_execFoldStreamLoop fuel ih _ stream pos iterator body last foldId fuel _ _ false c2 hg2) ?_
          intro complete
          apply rel_bind SP
          · apply rel_modifyCtx; intro c; samestate
          · intro _; exact rel_liftTH' SP _ _ (step_th env)

theorem step_newCanonMap (name : String) (body : Instr) (sl sr : Nat) : Rel (Step env) (execInner env fuel (.new (.canonMap name) body sl sr)) := by
  simp only [execInner]
  apply rel_bind SP
  · apply rel_modifyCtx; intro c
    exact step_keep rfl rfl fun hi => ⟨hi.keyed, s_meetNewStartCanonMap_ok name hi.scalars, hi.streams, hi.error, hi.lastError⟩
  · intro _
    apply rel_bind SP (rel_tryM (ih _)); intro res
    apply rel_bind SP
    · exact rel_stateER SP fun c a c' h => step_newLeaveCanonMap h
    · intro ok
      split
      · split
        · exact rel_pure SP _
        · apply rel_bind SP (rel_readCtx SP _); intro _; exact rel_throwE SP _
      · exact rel_reraise SP _

theorem step_newStreamMap (name : String) (body : Instr) (sl sr : Nat) : Rel (Step env) (execInner env fuel (.new (.streamMap name) body sl sr)) := by
  simp only [execInner]
  apply rel_bind SP
  · apply rel_modifyCtx; intro c
    exact step_onlyStreams (onlyStreams_scopeStart c name sl sr) fun hi => scopeStart_ok name sl sr hi.streams
  · intro _
    apply rel_bind SP (rel_tryM (ih _)); intro res
    apply rel_bind SP
    · apply rel_tryM
      apply rel_modifyER SP
      intro c c' h
      have ho := onlyStreams_scopeEnd h
      exact step_keep ho.reqs ho.cid fun hi =>
        ⟨by rw [ho.cid]; exact hi.keyed, by rw [ho.cid, ho.scalars]; exact hi.scalars, by rw [ho.cid]; exact scopeEnd_ok hi.streams h,
         by rw [ho.cid, ho.error]; exact hi.error, by rw [ho.cid, ho.lastError]; exact hi.lastError⟩
    · intro ep
      split
      · exact rel_pure SP _
      · exact rel_reraise SP _
      · exact rel_reraise SP _

theorem step_foldMap (stream : String) (pos : Nat) (iterator : String) (body : Instr) (last : Option Instr) (sl : Nat) :
    Rel (Step env) (execInner env fuel (.foldMap stream pos iterator body last sl)) := by
  simp only [execInner]
  apply rel_bind SP (rel_readCtx SP _); intro ex
  split
  · exact step_makeSubgraphIncomplete
  · apply rel_bind SP
    · apply rel_stateER SP
      intro c a c' h
      injection h with h; injection h with _ h; subst h
      samestate
    · intro foldId
      apply rel_bind SP (rel_liftTH' SP _ _ (step_th env)); intro _
      unfold foldStreamGet
      apply rel_bind_readER SP
      intro c1 s hs
      have hsome : c1.getStream stream pos = some s := by
        cases hgs : c1.getStream stream pos with
        | some s' => simp [hgs] at hs; rw [hs]
        | none => simp [hgs] at hs
      have hKG := exec_kg env fuel
      have hmf : metFoldStart s = ((metFoldStart s).1, (metFoldStart s).2.1, (metFoldStart s).2.2) := rfl
      rw [hmf]
      simp only []
      refine step_of_inv ?_ (fun hi1 => ?_)
      · refine (show Rel KG _ from ?_) c1
        apply rel_bind kgPrims.pre (rel_modifyCtx fun c => ep_setStream kgPrims _ _ _ c); intro _
        apply rel_bind kgPrims.pre (ep_execFoldStreamLoop kgPrims env fuel hKG _ _ _ _ _ _ _ _ _ _ _); intro complete
        apply rel_bind kgPrims.pre
        · apply rel_modifyCtx; intro c; exact kg_same rfl
        · intro _; exact rel_liftTH' kgPrims.pre _ _ (fun c th => kg_same rfl)
      · have hso := getStream_ok hi1.streams hsome
        obtain ⟨hs', hsl⟩ := metFoldStart_ok (P := PairOK env c1.cid) hso
        refine rel_bind_guard SP (G := fun c' => ∀ l', (metFoldStart s).1 = some l' → SlicesOK (PairOK env c'.cid) l')
          (fun (ca cb : Ctx) hga (hst : Step env ca cb) l' hl' => slicesOK_mono (fun _ _ => pairOK_mono hst.1) (hga l' hl')) c1 hsl ?_ ?_
        · exact step_setStream_at c1 stream pos _ (fun _ => hs')
        · intro _ c2 hg2
          refine rel_bind_at SP c2 (step_execFoldStreamLoop fuel ih _ stream pos iterator body last foldId fuel _ _ false c2 hg2) ?_
          intro complete
          apply rel_bind SP
          · apply rel_modifyCtx; intro c; samestate
          · intro _; exact rel_liftTH' SP _ _ (step_th env)

/-- one layer of the interpreter -/
theorem step_execInner (i : Instr) : Rel (Step env) (execInner env fuel i) := by
  cases i with
  | call p s f args out => simp only [execInner]; exact rel_pure SP _
  | null => simp only [execInner]; exact rel_pure SP _
  | never => simp only [execInner]; exact step_makeSubgraphIncomplete
  | seq l r => exact step_seq fuel ih l r
  | xor l r => exact step_xor fuel ih l r
  | par l r => exact step_par fuel ih l r
  | match_ a b body => exact step_match fuel ih a b body
  | mismatch a b body => exact step_mismatch fuel ih a b body
  | ap arg out =>
    cases out with
    | stream name pos => simp only [execInner]; exact step_execApStream _ _ _ _
    | scalar name => simp only [execInner]; exact step_execAp arg _
    | none => simp only [execInner]; exact step_execAp arg _
  | canon p s sp c => simp only [execInner]; exact step_execCanon _ _ _ _ _
  | fail arg => simp only [execInner]; exact step_execFail arg
  | foldScalar iterable iterator body last => exact step_foldScalar fuel ih iterable iterator body last
  | foldStream s sp it b l sl => exact step_foldStream fuel ih s sp it b l sl
  | next iterator => exact step_next fuel ih iterator
  | new arg body sl sr =>
    cases arg with
    | scalar name => exact step_newScalar fuel ih name body sl sr
    | stream n => exact step_newStream fuel ih n body sl sr
    | canon n => exact step_newCanon fuel ih n body sl sr
    | streamMap n => exact step_newStreamMap fuel ih n body sl sr
    | canonMap n => exact step_newCanonMap fuel ih n body sl sr
  | apMap k v m p => simp only [execInner]; exact step_execApMap _ _ _ _ _
  | canonMap p m mp c => simp only [execInner]; exact step_execCanon _ _ _ _ _
  | canonMapScalar p m mp s => simp only [execInner]; exact step_execCanon _ _ _ _ _
  | foldMap m mp it b l sl => exact step_foldMap fuel ih m mp it b l sl

end instrs

/-- **The invariant and the request specification hold along every execution**: for every fuel, script and
context, whether the execution succeeds, fails or panics. -/
theorem exec_step (env : Env) : ∀ (fuel : Nat) (i : Instr), Rel (Step env) (exec env fuel i)
  | 0, i => by unfold exec; exact rel_throwE (step_preorder env) _
  | fuel + 1, i => by
    unfold exec
    split
    · exact step_execCall _ _ _ _ _ _
    · exact rel_onError (step_preorder env) (step_execInner fuel (exec_step env fuel) i) (fun e c => step_setErrorsOf e i c)

end AquaProps
