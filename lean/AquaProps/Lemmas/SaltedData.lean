import Aqua.Crypto.SigScheme
/-!
The borsh encoding of `SaltedData(&cids, salt)` is injective: the signed bytes determine the CID list
and the salt (particle id).  No extra hypothesis: the encoder fails (`none`, a panic in the code) on
lengths that do not fit `u32`.
-/
namespace AquaProps.SaltedData
open Aqua Aqua.Crypto

theorem u32le_length (n : Nat) : (u32le n).length = 4 := rfl

theorem ofNat_inj_of_lt {a b : Nat} (ha : a < 256) (hb : b < 256) (h : UInt8.ofNat a = UInt8.ofNat b) : a = b := by
  have := congrArg UInt8.toNat h
  simp only [UInt8.toNat_ofNat'] at this
  omega

theorem u32le_inj {a b : Nat} (ha : a < u32Limit) (hb : b < u32Limit) (h : u32le a = u32le b) : a = b := by
  unfold u32le at h
  unfold u32Limit at ha hb
  simp only [List.cons.injEq, and_true] at h
  obtain ⟨h0, h1, h2, h3⟩ := h
  have e0 := ofNat_inj_of_lt (Nat.mod_lt _ (by omega)) (Nat.mod_lt _ (by omega)) h0
  have e1 := ofNat_inj_of_lt (Nat.mod_lt _ (by omega)) (Nat.mod_lt _ (by omega)) h1
  have e2 := ofNat_inj_of_lt (Nat.mod_lt _ (by omega)) (Nat.mod_lt _ (by omega)) h2
  have e3 := ofNat_inj_of_lt (Nat.mod_lt _ (by omega)) (Nat.mod_lt _ (by omega)) h3
  omega

theorem borshBytes_some {b x : Bytes} (h : borshBytes b = some x) : b.length < u32Limit ∧ x = u32le b.length ++ b := by
  unfold borshBytes at h
  split at h
  · cases h; exact ⟨‹_›, rfl⟩
  · cases h

/-- a length-prefixed string is self-delimiting -/
theorem borshBytes_prefix_free {a b x y r r' : Bytes} (ha : borshBytes a = some x) (hb : borshBytes b = some y)
    (h : x ++ r = y ++ r') : a = b ∧ r = r' := by
  obtain ⟨la, rfl⟩ := borshBytes_some ha
  obtain ⟨lb, rfl⟩ := borshBytes_some hb
  simp only [List.append_assoc] at h
  have h4 := List.append_inj h (by simp [u32le_length])
  have hlen : a.length = b.length := u32le_inj la lb h4.1
  have := List.append_inj h4.2 hlen
  exact this

theorem borshItems_inj : ∀ {l l' : List Bytes} {x y r r' : Bytes}, borshItems l = some x → borshItems l' = some y →
    l.length = l'.length → x ++ r = y ++ r' → l = l' ∧ r = r'
  | [], [], x, y, r, r', hx, hy, _, h => by
    simp only [borshItems, Option.some.injEq] at hx hy
    subst hx; subst hy
    exact ⟨rfl, by simpa using h⟩
  | [], _ :: _, _, _, _, _, _, _, hl, _ => by simp at hl
  | _ :: _, [], _, _, _, _, _, _, hl, _ => by simp at hl
  | a :: as, b :: bs, x, y, r, r', hx, hy, hl, h => by
    unfold borshItems at hx hy
    cases hxa : borshBytes a with
    | none => simp [hxa] at hx
    | some xa =>
      cases hxs : borshItems as with
      | none => simp [hxa, hxs] at hx
      | some xs =>
        cases hyb : borshBytes b with
        | none => simp [hyb] at hy
        | some yb =>
          cases hys : borshItems bs with
          | none => simp [hyb, hys] at hy
          | some ys =>
            simp only [hxa, hxs, hyb, hys, Option.some.injEq] at hx hy
            subst hx; subst hy
            simp only [List.append_assoc] at h
            obtain ⟨hab, hrest⟩ := borshBytes_prefix_free hxa hyb h
            obtain ⟨htl, hr⟩ := borshItems_inj hxs hys (by simpa using hl) hrest
            exact ⟨by rw [hab, htl], hr⟩

theorem borshVec_prefix_free {l l' : List Bytes} {x y r r' : Bytes} (hx : borshVec l = some x) (hy : borshVec l' = some y)
    (h : x ++ r = y ++ r') : l = l' ∧ r = r' := by
  unfold borshVec at hx hy
  split at hx
  · rename_i hl
    split at hy
    · rename_i hl'
      cases hxi : borshItems l with
      | none => simp [hxi] at hx
      | some xi =>
        cases hyi : borshItems l' with
        | none => simp [hyi] at hy
        | some yi =>
          simp only [hxi, hyi, Option.map_some, Option.some.injEq] at hx hy
          subst hx; subst hy
          simp only [List.append_assoc] at h
          have h4 := List.append_inj h (by simp [u32le_length])
          exact borshItems_inj hxi hyi (u32le_inj hl hl' h4.1) h4.2
    · cases hy
  · cases hx

theorem strBytes_inj {s t : String} (h : strBytes s = strBytes t) : s = t := by
  unfold strBytes at h
  have h1 : s.toUTF8.data = t.toUTF8.data := Array.toList_inj.mp h
  have h2 : s.toUTF8 = t.toUTF8 := ByteArray.ext h1
  exact String.toByteArray_inj.mp h2

theorem map_strBytes_inj : ∀ {l l' : List String}, l.map strBytes = l'.map strBytes → l = l'
  | [], [], _ => rfl
  | [], _ :: _, h => by simp at h
  | _ :: _, [], h => by simp at h
  | a :: as, b :: bs, h => by
    simp only [List.map_cons, List.cons.injEq] at h
    rw [strBytes_inj h.1, map_strBytes_inj h.2]

/-- **the signed bytes determine the CID list and the salt** -/
theorem saltedData_inj {cids cids' : List String} {salt salt' : String} {m : Bytes}
    (h : saltedData cids salt = some m) (h' : saltedData cids' salt' = some m) : cids = cids' ∧ salt = salt' := by
  unfold saltedData at h h'
  cases hv : borshVec (cids.map strBytes) with
  | none => simp [hv] at h
  | some v =>
    cases hs : borshBytes (strBytes salt) with
    | none => simp [hv, hs] at h
    | some s =>
      cases hv' : borshVec (cids'.map strBytes) with
      | none => simp [hv'] at h'
      | some v' =>
        cases hs' : borshBytes (strBytes salt') with
        | none => simp [hv', hs'] at h'
        | some s' =>
          simp only [hv, hs, hv', hs', Option.some.injEq] at h h'
          obtain ⟨hl, hr⟩ := borshVec_prefix_free hv hv' (h.trans h'.symm)
          have hsalt : s ++ [] = s' ++ [] := by simpa using hr
          obtain ⟨hb, _⟩ := borshBytes_prefix_free hs hs' hsalt
          exact ⟨map_strBytes_inj hl, strBytes_inj hb⟩

end AquaProps.SaltedData
