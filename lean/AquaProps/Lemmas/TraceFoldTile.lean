import AquaProps.Lemmas.TraceFoldOps
import AquaProps.Lemmas.TraceEff
/-!
# Fold lore tiling (C10): what `SubTraceLoreCtor` / `SubTraceLoreCtorQueue` build for one batch

A batch is driven as the executor drives it (`fold_stream/stream_execute_helpers.rs`, `next.rs`):
`meet_iteration_start v₁; …B₁…; meet_iteration_end; meet_iteration_start v₂; …; [meet_iteration_end];
meet_back_iterator; …A_k…; meet_back_iterator; …; meet_generation_end` — or any prefix of that followed by
`meet_generation_end` (early exit on a catchable error: `SubTraceLoreCtorQueue::finish` closes what is open).
-/
set_option linter.unusedSimpArgs false
set_option linter.unnecessarySimpa false

namespace Aqua.Trace
open Aqua Aqua.Data

abbrev Ctor := SubTraceLoreCtor

/-- before-parts chained from `c0` to `e` -/
def BShape (c0 : Nat) : List Ctor → Nat → Prop
  | [], e => c0 = e
  | c :: rest, e => c.beforeStart = c0 ∧ c0 ≤ c.beforeEnd ∧ BShape c.beforeEnd rest e

/-- completed after-parts chained from `a0` to `e` (innermost first) -/
def AShape (a0 : Nat) : List Ctor → Nat → Prop
  | [], e => a0 = e
  | c :: rest, e => c.afterStart = a0 ∧ a0 ≤ c.afterEnd ∧ AShape c.afterEnd rest e

theorem BShape_append {c0 m e : Nat} {a b : List Ctor} (ha : BShape c0 a m) (hb : BShape m b e) :
    BShape c0 (a ++ b) e := by
  induction a generalizing c0 with
  | nil => simp only [BShape] at ha; subst ha; simpa using hb
  | cons c rest ih => exact ⟨ha.1, ha.2.1, ih ha.2.2⟩

theorem BShape_split {c0 e : Nat} {a b : List Ctor} (h : BShape c0 (a ++ b) e) :
    ∃ m, BShape c0 a m ∧ BShape m b e := by
  induction a generalizing c0 with
  | nil => exact ⟨c0, rfl, by simpa using h⟩
  | cons c rest ih =>
    obtain ⟨m, h1, h2⟩ := ih h.2.2
    exact ⟨m, ⟨h.1, h.2.1, h1⟩, h2⟩

theorem BShape_le {c0 e : Nat} {a : List Ctor} (h : BShape c0 a e) : c0 ≤ e := by
  induction a generalizing c0 with
  | nil => simp only [BShape] at h; omega
  | cons c rest ih => have := ih h.2.2; have := h.2.1; omega

theorem AShape_append {a0 m e : Nat} {a b : List Ctor} (ha : AShape a0 a m) (hb : AShape m b e) :
    AShape a0 (a ++ b) e := by
  induction a generalizing a0 with
  | nil => simp only [AShape] at ha; subst ha; simpa using hb
  | cons c rest ih => exact ⟨ha.1, ha.2.1, ih ha.2.2⟩

theorem AShape_le {a0 e : Nat} {a : List Ctor} (h : AShape a0 a e) : a0 ≤ e := by
  induction a generalizing a0 with
  | nil => simp only [AShape] at h; omega
  | cons c rest ih => have := ih h.2.2; have := h.2.1; omega

/-- `BShape` only reads the before fields -/
theorem BShape_replace {c0 e : Nat} {pre done : List Ctor} {cur cur' : Ctor}
    (hs : cur'.beforeStart = cur.beforeStart) (he : cur'.beforeEnd = cur.beforeEnd)
    (h : BShape c0 (pre ++ cur :: done) e) : BShape c0 (pre ++ cur' :: done) e := by
  obtain ⟨m, h1, h2⟩ := BShape_split h
  exact BShape_append h1 ⟨hs ▸ h2.1, he ▸ h2.2.1, he ▸ h2.2.2⟩

theorem set_mid {α : Type} (pre done : List α) (cur x : α) :
    (pre ++ cur :: done).set pre.length x = pre ++ x :: done := by
  rw [List.set_append_right _ _ (Nat.le_refl _)]; simp

theorem get_mid {α : Type} (pre done : List α) (cur : α) : (pre ++ cur :: done)[pre.length]? = some cur := by
  rw [List.getElem?_append_right (Nat.le_refl _)]; simp

/-- phases of one fold as the executor drives it -/
inductive Phase
  /-- between batches (after `meet_fold_start` / `meet_generation_end`): nothing may be pushed -/
  | idle
  /-- an iteration runs its before-part -/
  | fwd
  /-- `next` has closed the before-part; the next call is `meet_iteration_start`, `meet_back_iterator` or
  `meet_generation_end` -/
  | closed
  /-- back traversal -/
  | back
deriving DecidableEq, Repr

/-- the queue of the running batch (started at `c0`) at result-trace length `n` -/
def ShapeOf (ph : Phase) (c0 n : Nat) (f : FoldFSM) : Prop :=
  match ph with
  | .idle => f.ctors = [] ∧ f.backTraversalPos = 0 ∧ f.backTraversalStarted = false ∧ c0 = n
  | .fwd => ∃ pre cur, f.ctors = pre ++ [cur] ∧ f.backTraversalPos = pre.length + 1 ∧
      f.backTraversalStarted = false ∧ (∀ c ∈ pre, c.state = .beforeCompleted) ∧ cur.state = .beforeStarted ∧
      BShape c0 pre cur.beforeStart ∧ cur.beforeStart ≤ n
  | .closed => f.ctors ≠ [] ∧ f.backTraversalPos = f.ctors.length ∧ f.backTraversalStarted = false ∧
      (∀ c ∈ f.ctors, c.state = .beforeCompleted) ∧ BShape c0 f.ctors n
  | .back => ∃ pre cur done eB aE, f.ctors = pre ++ cur :: done ∧ f.backTraversalPos = pre.length + 1 ∧
      f.backTraversalStarted = true ∧ (∀ c ∈ pre, c.state = .beforeCompleted) ∧ cur.state = .afterStarted ∧
      (∀ c ∈ done, c.state = .afterCompleted) ∧ BShape c0 (pre ++ cur :: done) eB ∧
      AShape eB done.reverse aE ∧ cur.afterStart = aE ∧ aE ≤ n

theorem ShapeOf.mono_fwd {c0 n n' : Nat} {f : FoldFSM} (hn : n ≤ n') (h : ShapeOf .fwd c0 n f) :
    ShapeOf .fwd c0 n' f := by
  obtain ⟨pre, cur, a, b, c, d, e, g, i⟩ := h
  exact ⟨pre, cur, a, b, c, d, e, g, Nat.le_trans i hn⟩

theorem ShapeOf.mono_back {c0 n n' : Nat} {f : FoldFSM} (hn : n ≤ n') (h : ShapeOf .back c0 n f) :
    ShapeOf .back c0 n' f := by
  obtain ⟨pre, cur, done, eB, aE, a, b, c, d, e, g, i, j, k, l⟩ := h
  exact ⟨pre, cur, done, eB, aE, a, b, c, d, e, g, i, j, k, Nat.le_trans l hn⟩

/-! ## transitions -/

theorem shape_iterStart_idle {c0 n : Nat} {f f' : FoldFSM} {vp : Nat} {k k' : DataKeeper}
    (hn : k.resultTrace.length = n) (sh : ShapeOf .idle c0 n f) (e : f.meetIterationStart vp k = .ok (f', k')) :
    ShapeOf .fwd c0 n f' := by
  obtain ⟨hc, hb, hs, rfl⟩ := sh
  obtain ⟨_, _, _, hc', hb', hs'⟩ := FoldFSM.meetIterationStart_eff e
  refine ⟨[], _, by rw [hc', hc], by rw [hb', hb]; rfl, by rw [hs', hs], by simp, rfl, ?_, ?_⟩
  · simp [BShape, hn]
  · simp [hn]

theorem shape_iterStart_closed {c0 n : Nat} {f f' : FoldFSM} {vp : Nat} {k k' : DataKeeper}
    (hn : k.resultTrace.length = n) (sh : ShapeOf .closed c0 n f) (e : f.meetIterationStart vp k = .ok (f', k')) :
    ShapeOf .fwd c0 n f' := by
  obtain ⟨_, hb, hs, hall, hB⟩ := sh
  obtain ⟨_, _, _, hc', hb', hs'⟩ := FoldFSM.meetIterationStart_eff e
  refine ⟨f.ctors, _, hc', by rw [hb', hb], by rw [hs', hs], hall, rfl, ?_, ?_⟩
  · simpa [hn] using hB
  · simp [hn]

theorem shape_iterEnd {c0 n : Nat} {f f' : FoldFSM} {k : DataKeeper}
    (hn : k.resultTrace.length = n) (sh : ShapeOf .fwd c0 n f) (e : f.meetIterationEnd k = .ok f') :
    ShapeOf .closed c0 n f' := by
  obtain ⟨pre, cur, hc, hb, hs, hall, hcur, hB, hle⟩ := sh
  obtain ⟨i, c, hbi, hci, hc', _, _, hb', hs'⟩ := FoldFSM.meetIterationEnd_eff e
  have hi : i = pre.length := by omega
  subst hi
  rw [hc, get_mid] at hci
  simp only [Option.some.injEq] at hci; subst hci
  rw [hc, set_mid] at hc'
  refine ⟨by rw [hc']; simp, by rw [hb', hb, hc']; simp, by rw [hs', hs], ?_, ?_⟩
  · intro x hx
    rw [hc'] at hx
    rcases List.mem_append.mp hx with hx | hx
    · exact hall x hx
    · simp only [List.mem_singleton] at hx; subst hx
      simp [SubTraceLoreCtor.beforeEnd', hcur, CtorState.next]
  · rw [hc']
    refine BShape_append hB ?_
    simp [BShape, SubTraceLoreCtor.beforeEnd', DataKeeper.resultTraceNextPos, hn, hle]

theorem shape_backIter_fwd {c0 n : Nat} {f f' : FoldFSM} {k k' : DataKeeper}
    (hn : k.resultTrace.length = n) (sh : ShapeOf .fwd c0 n f) (e : f.meetBackIterator k = .ok (f', k')) :
    ShapeOf .back c0 n f' := by
  obtain ⟨pre, cur, hc, hb, hs, hall, hcur, hB, hle⟩ := sh
  obtain ⟨i, c, hbi, hci, hc', _, _, _, hb', hs'⟩ := FoldFSM.meetBackIterator_first_eff hs e
  have hi : i = pre.length := by omega
  subst hi
  rw [hc, get_mid] at hci
  simp only [Option.some.injEq] at hci; subst hci
  rw [hc, set_mid] at hc'
  refine ⟨pre, _, [], n, n, hc', by rw [hb', hb], hs', hall, ?_, by simp, ?_, by simp [AShape], ?_, Nat.le_refl _⟩
  · simp [SubTraceLoreCtor.maybeBeforeEnd, SubTraceLoreCtor.beforeEnd', SubTraceLoreCtor.afterStart', hcur, CtorState.next]
  · refine BShape_append hB ?_
    simp [BShape, SubTraceLoreCtor.maybeBeforeEnd, SubTraceLoreCtor.beforeEnd', SubTraceLoreCtor.afterStart', hcur,
      DataKeeper.resultTraceNextPos, hn, hle]
  · simp [SubTraceLoreCtor.afterStart', DataKeeper.resultTraceNextPos, hn]

theorem shape_backIter_closed {c0 n : Nat} {f f' : FoldFSM} {k k' : DataKeeper}
    (hn : k.resultTrace.length = n) (sh : ShapeOf .closed c0 n f) (e : f.meetBackIterator k = .ok (f', k')) :
    ShapeOf .back c0 n f' := by
  obtain ⟨hne, hb, hs, hall, hB⟩ := sh
  obtain ⟨i, c, hbi, hci, hc', _, _, _, hb', hs'⟩ := FoldFSM.meetBackIterator_first_eff hs e
  have hdec : f.ctors = f.ctors.dropLast ++ [f.ctors.getLast hne] := (List.dropLast_concat_getLast hne).symm
  generalize f.ctors.dropLast = pre at hdec
  generalize f.ctors.getLast hne = cur at hdec
  have hlen : f.ctors.length = pre.length + 1 := by rw [hdec]; simp
  have hi : i = pre.length := by omega
  subst hi
  rw [hdec, get_mid] at hci
  simp only [Option.some.injEq] at hci
  obtain rfl : c = cur := hci.symm
  rw [hdec, set_mid] at hc'
  have hcur : c.state = .beforeCompleted := hall c (by rw [hdec]; simp)
  refine ⟨pre, _, [], n, n, hc', by rw [hb', hb, hlen], hs', ?_, ?_, by simp, ?_, by simp [AShape], ?_, Nat.le_refl _⟩
  · intro x hx; exact hall x (by rw [hdec]; simp [hx])
  · simp [SubTraceLoreCtor.maybeBeforeEnd, SubTraceLoreCtor.afterStart', hcur, CtorState.next]
  · rw [hdec] at hB
    refine BShape_replace ?_ ?_ hB
    · simp [SubTraceLoreCtor.maybeBeforeEnd, SubTraceLoreCtor.afterStart', hcur]
    · simp [SubTraceLoreCtor.maybeBeforeEnd, SubTraceLoreCtor.afterStart', hcur]
  · simp [SubTraceLoreCtor.afterStart', DataKeeper.resultTraceNextPos, hn]

theorem shape_backIter_back {c0 n : Nat} {f f' : FoldFSM} {k k' : DataKeeper}
    (hn : k.resultTrace.length = n) (sh : ShapeOf .back c0 n f) (e : f.meetBackIterator k = .ok (f', k')) :
    ShapeOf .back c0 n f' := by
  obtain ⟨pre, cur, done, eB, aE, hc, hb, hs, hall, hcur, hdone, hB, hA, hcs, hle⟩ := sh
  obtain ⟨j, c, c2, hbj, hcj1, hcj, hc', _, _, _, hb', hs'⟩ := FoldFSM.meetBackIterator_next_eff hs e
  have hpl : pre.length = j + 1 := by omega
  have hpne : pre ≠ [] := by intro h; simp [h] at hpl
  have hdec : pre = pre.dropLast ++ [pre.getLast hpne] := (List.dropLast_concat_getLast hpne).symm
  generalize pre.dropLast = pre' at hdec
  generalize pre.getLast hpne = p2 at hdec
  subst hdec
  have hj : pre'.length = j := by simp at hpl; omega
  subst hj
  -- the current constructor and the one before it
  have e1 : (pre' ++ [p2] ++ cur :: done)[pre'.length + 1]? = some cur := by
    have := get_mid (pre' ++ [p2]) done cur
    simpa using this
  have e2 : (pre' ++ [p2] ++ cur :: done)[pre'.length]? = some p2 := by
    have := get_mid pre' (cur :: done) p2
    simpa [List.append_assoc] using this
  rw [hc, e1] at hcj1
  rw [hc, e2] at hcj
  simp only [Option.some.injEq] at hcj1 hcj
  obtain rfl : c = cur := hcj1.symm
  obtain rfl : c2 = p2 := hcj.symm
  have s1 : (pre' ++ [c2] ++ c :: done).set (pre'.length + 1) (c.afterEnd' k) = pre' ++ [c2] ++ c.afterEnd' k :: done := by
    have := set_mid (pre' ++ [c2]) done c (c.afterEnd' k)
    simpa using this
  have s2 : (pre' ++ [c2] ++ c.afterEnd' k :: done).set pre'.length (c2.afterStart' k) =
      pre' ++ c2.afterStart' k :: c.afterEnd' k :: done := by
    have := set_mid pre' (c.afterEnd' k :: done) c2 (c2.afterStart' k)
    simpa [List.append_assoc] using this
  rw [hc, s1, s2] at hc'
  have hc2 : c2.state = .beforeCompleted := hall c2 (by simp)
  refine ⟨pre', _, c.afterEnd' k :: done, eB, n, hc', hb', hs', ?_, ?_, ?_, ?_, ?_, ?_, Nat.le_refl _⟩
  · intro x hx; exact hall x (by simp [hx])
  · simp [SubTraceLoreCtor.afterStart', hc2, CtorState.next]
  · intro x hx
    rcases List.mem_cons.mp hx with rfl | hx
    · simp [SubTraceLoreCtor.afterEnd', hcur, CtorState.next]
    · exact hdone x hx
  · have hB' : BShape c0 (pre' ++ c2 :: c :: done) eB := by simpa [List.append_assoc] using hB
    have h1 : BShape c0 (pre' ++ c2.afterStart' k :: c :: done) eB :=
      BShape_replace (cur := c2) (cur' := c2.afterStart' k) rfl rfl hB'
    have h2 : BShape c0 ((pre' ++ [c2.afterStart' k]) ++ c :: done) eB := by simpa [List.append_assoc] using h1
    have h3 := BShape_replace (cur := c) (cur' := c.afterEnd' k) rfl rfl h2
    simpa [List.append_assoc] using h3
  · rw [List.reverse_cons]
    refine AShape_append hA ?_
    simp [AShape, SubTraceLoreCtor.afterEnd', DataKeeper.resultTraceNextPos, hn, hcs, hle]
  · simp [SubTraceLoreCtor.afterStart', DataKeeper.resultTraceNextPos, hn]

/-! ## `meet_generation_end`: `finish` closes what is open, the batch tiles `[c0, n)` -/

instance {ε : Type} : LawfulMonad (Res ε) := LawfulMonad.mk'
  (id_map := fun x => by cases x <;> rfl)
  (pure_bind := fun _ _ => rfl)
  (bind_assoc := fun x _ _ => by cases x <;> rfl)

/-- the lore entry `into_subtrace_lore` makes of a constructor -/
def ctorIter (c : Ctor) : Iter :=
  ⟨c.valuePos, c.beforeStart, truncU32 (c.beforeEnd - c.beforeStart), c.afterStart, truncU32 (c.afterEnd - c.afterStart)⟩

theorem intoSubtraceLore_ok {c : Ctor} {l : FoldSubTraceLore} (e : c.intoSubtraceLore = .ok l) :
    loreIter l = some (ctorIter c) ∧ l.valuePos = c.valuePos := by
  unfold SubTraceLoreCtor.intoSubtraceLore at e
  simp only [Res.bind_eq_ok, Res.pure_eq_ok, subU32] at e
  obtain ⟨bl, hbl, al, hal, rfl⟩ := e
  split at hbl
  · simp at hbl
  · split at hal
    · simp at hal
    · simp only [Res.ok.injEq] at hbl hal
      subst hbl hal
      exact ⟨rfl, rfl⟩

theorem mapM_intoSubtraceLore {cs : List Ctor} {lore : List FoldSubTraceLore}
    (e : cs.mapM SubTraceLoreCtor.intoSubtraceLore = .ok lore) :
    lore.mapM loreIter = some (cs.map ctorIter) ∧ lore.map (·.valuePos) = cs.map (·.valuePos) := by
  induction cs generalizing lore with
  | nil =>
    simp only [List.mapM_nil, Res.pure_eq_ok] at e
    subst e; simp
  | cons c rest ih =>
    simp only [List.mapM_cons, Res.bind_eq_ok, Res.pure_eq_ok] at e
    obtain ⟨l, hl, ls, hls, rfl⟩ := e
    obtain ⟨h1, h2⟩ := intoSubtraceLore_ok hl
    obtain ⟨h3, h4⟩ := ih hls
    simp [List.mapM_cons, h1, h2, h3, h4]

theorem batchBefore_of_BShape {c0 eB : Nat} {cs : List Ctor} (h : BShape c0 cs eB) (hb : eB ≤ u32Max) :
    batchBefore c0 (cs.map ctorIter) = some eB := by
  induction cs generalizing c0 with
  | nil => simp only [BShape] at h; subst h; rfl
  | cons c rest ih =>
    obtain ⟨h1, h2, h3⟩ := h
    have hle := BShape_le h3
    have : truncU32 (c.beforeEnd - c.beforeStart) = c.beforeEnd - c.beforeStart := by
      unfold truncU32; exact Nat.mod_eq_of_lt (by omega)
    subst h1
    simp only [List.map_cons, batchBefore, ctorIter, this, if_true]
    have : c.beforeStart + (c.beforeEnd - c.beforeStart) = c.beforeEnd := by omega
    rw [this]
    exact ih h3

theorem batchAfter_of_AShape {a0 e : Nat} {cs : List Ctor} (h : AShape a0 cs e) (hb : e ≤ u32Max) :
    batchAfter a0 (cs.map ctorIter) = some e := by
  induction cs generalizing a0 with
  | nil => simp only [AShape] at h; subst h; rfl
  | cons c rest ih =>
    obtain ⟨h1, h2, h3⟩ := h
    have hle := AShape_le h3
    have : truncU32 (c.afterEnd - c.afterStart) = c.afterEnd - c.afterStart := by
      unfold truncU32; exact Nat.mod_eq_of_lt (by omega)
    subst h1
    simp only [List.map_cons, batchAfter, ctorIter, this, if_true]
    have : c.afterStart + (c.afterEnd - c.afterStart) = c.afterEnd := by omega
    rw [this]
    exact ih h3

theorem batchEnd_of_shapes {c0 eB n : Nat} {cs : List Ctor} (hB : BShape c0 cs eB) (hA : AShape eB cs.reverse n)
    (hb : n ≤ u32Max) : batchEnd c0 (cs.map ctorIter) = some n := by
  have := AShape_le hA
  unfold batchEnd
  rw [batchBefore_of_BShape hB (by omega)]
  simp only [Option.bind_some, ← List.map_reverse]
  exact batchAfter_of_AShape hA hb

/-- all constructors `finish`ed at `n`: every after-part that was not complete is `[…, n)` -/
theorem AShape_finished_pre {n : Nat} {k : DataKeeper} (hn : k.resultTrace.length = n) (pre : List Ctor)
    (hall : ∀ c ∈ pre, c.state = .beforeCompleted) : AShape n (pre.map fun c => c.finish k) n := by
  induction pre with
  | nil => rfl
  | cons c rest ih =>
    have hc : c.state = .beforeCompleted := hall c (by simp)
    refine ⟨?_, ?_, ?_⟩
    · simp [SubTraceLoreCtor.finish, hc, SubTraceLoreCtor.afterStart', SubTraceLoreCtor.afterEnd',
        DataKeeper.resultTraceNextPos, hn]
    · simp [SubTraceLoreCtor.finish, hc, SubTraceLoreCtor.afterStart', SubTraceLoreCtor.afterEnd',
        DataKeeper.resultTraceNextPos, hn]
    · have : (c.finish k).afterEnd = n := by
        simp [SubTraceLoreCtor.finish, hc, SubTraceLoreCtor.afterStart', SubTraceLoreCtor.afterEnd',
          DataKeeper.resultTraceNextPos, hn]
      rw [this]
      exact ih (fun x hx => hall x (by simp [hx]))

theorem BShape_finished_completed {c0 e : Nat} {k : DataKeeper} (cs : List Ctor)
    (hall : ∀ c ∈ cs, c.state ≠ .beforeStarted) (h : BShape c0 cs e) : BShape c0 (cs.map fun c => c.finish k) e := by
  induction cs generalizing c0 with
  | nil => exact h
  | cons c rest ih =>
    have hc := hall c (by simp)
    have hs : (c.finish k).beforeStart = c.beforeStart ∧ (c.finish k).beforeEnd = c.beforeEnd := by
      cases hst : c.state <;> simp_all [SubTraceLoreCtor.finish, SubTraceLoreCtor.afterStart', SubTraceLoreCtor.afterEnd']
    exact ⟨hs.1 ▸ h.1, hs.2 ▸ h.2.1, hs.2 ▸ ih (fun x hx => hall x (by simp [hx])) h.2.2⟩

theorem finish_of_afterCompleted {k : DataKeeper} (cs : List Ctor) (hall : ∀ c ∈ cs, c.state = .afterCompleted) :
    (cs.map fun c => c.finish k) = cs := by
  induction cs with
  | nil => rfl
  | cons c rest ih =>
    have hc := hall c (by simp)
    rw [List.map_cons, ih (fun x hx => hall x (by simp [hx]))]
    simp only [SubTraceLoreCtor.finish, hc]

/-- **One batch tiles.**  Whatever phase the batch is in when `meet_generation_end` comes, the lore entries it
appends are laid out as `B₁ … B_j A_j … A₁` exactly from the batch start `c0` to the current length `n`. -/
theorem shape_genEnd {ph : Phase} {c0 n : Nat} {f f' : FoldFSM} {k : DataKeeper} (hph : ph ≠ .idle)
    (hn : k.resultTrace.length = n) (hb : n ≤ u32Max) (sh : ShapeOf ph c0 n f) (e : f.meetGenerationEnd k = .ok f') :
    ∃ lore its, f'.resultLore = f.resultLore ++ lore ∧ lore.mapM loreIter = some its ∧ its ≠ [] ∧
      batchEnd c0 its = some n ∧ lore.map (·.valuePos) = f.ctors.map (·.valuePos) ∧
      its.map (·.b) = f.ctors.map (·.beforeStart) ∧
      ShapeOf .idle n n f' ∧ f'.inserterPos = f.inserterPos := by
  obtain ⟨lore, hl, hrl, hc', hb', hs', hip⟩ := FoldFSM.meetGenerationEnd_eff e
  obtain ⟨hits, hvp⟩ := mapM_intoSubtraceLore hl
  have hvp' : lore.map (·.valuePos) = f.ctors.map (·.valuePos) := by
    rw [hvp, List.map_map]
    apply List.map_congr_left
    intro c _
    cases hst : c.state <;> simp [SubTraceLoreCtor.finish, hst, SubTraceLoreCtor.beforeEnd', SubTraceLoreCtor.afterStart',
      SubTraceLoreCtor.afterEnd']
  have hbs : ((f.ctors.map fun c => c.finish k).map ctorIter).map (·.b) = f.ctors.map (·.beforeStart) := by
    rw [List.map_map, List.map_map]
    apply List.map_congr_left
    intro c _
    cases hst : c.state <;> simp [ctorIter, SubTraceLoreCtor.finish, hst, SubTraceLoreCtor.beforeEnd',
      SubTraceLoreCtor.afterStart', SubTraceLoreCtor.afterEnd']
  have key : ∃ eB, BShape c0 (f.ctors.map fun c => c.finish k) eB ∧
      AShape eB (f.ctors.map fun c => c.finish k).reverse n ∧ f.ctors ≠ [] := by
    cases ph with
    | idle => exact absurd rfl hph
    | fwd =>
      obtain ⟨pre, cur, hc, _, _, hall, hcur, hB, hle⟩ := sh
      refine ⟨n, ?_, ?_, by rw [hc]; simp⟩
      · rw [hc, List.map_append]
        refine BShape_append (BShape_finished_completed pre (fun c hc h => by rw [hall c hc] at h; cases h) hB) ?_
        simp [BShape, SubTraceLoreCtor.finish, hcur, SubTraceLoreCtor.beforeEnd', SubTraceLoreCtor.afterStart',
          SubTraceLoreCtor.afterEnd', DataKeeper.resultTraceNextPos, hn, hle]
      · rw [hc, List.map_append, List.reverse_append]
        simp only [List.map_cons, List.map_nil, List.reverse_cons, List.reverse_nil, List.nil_append,
          List.singleton_append]
        refine ⟨?_, ?_, ?_⟩
        · simp [SubTraceLoreCtor.finish, hcur, SubTraceLoreCtor.beforeEnd', SubTraceLoreCtor.afterStart',
            SubTraceLoreCtor.afterEnd', DataKeeper.resultTraceNextPos, hn]
        · simp [SubTraceLoreCtor.finish, hcur, SubTraceLoreCtor.beforeEnd', SubTraceLoreCtor.afterStart',
            SubTraceLoreCtor.afterEnd', DataKeeper.resultTraceNextPos, hn]
        · have : (cur.finish k).afterEnd = n := by
            simp [SubTraceLoreCtor.finish, hcur, SubTraceLoreCtor.beforeEnd', SubTraceLoreCtor.afterStart',
              SubTraceLoreCtor.afterEnd', DataKeeper.resultTraceNextPos, hn]
          rw [this, ← List.map_reverse]
          exact AShape_finished_pre hn pre.reverse (fun c hc => hall c (by simpa using hc))
    | closed =>
      obtain ⟨hne, _, _, hall, hB⟩ := sh
      refine ⟨n, BShape_finished_completed _ (fun c hc h => by rw [hall c hc] at h; cases h) hB, ?_, hne⟩
      rw [← List.map_reverse]
      exact AShape_finished_pre hn _ (fun c hc => hall c (by simpa using hc))
    | back =>
      obtain ⟨pre, cur, done, eB, aE, hc, _, _, hall, hcur, hdone, hB, hA, hcs, hle⟩ := sh
      refine ⟨eB, ?_, ?_, by rw [hc]; simp⟩
      · refine BShape_finished_completed _ ?_ (hc ▸ hB)
        intro c hcm h
        rw [hc] at hcm
        rcases List.mem_append.mp hcm with hx | hx
        · rw [hall c hx] at h; cases h
        · rcases List.mem_cons.mp hx with rfl | hx
          · rw [hcur] at h; cases h
          · rw [hdone c hx] at h; cases h
      · rw [hc, List.map_append, List.map_cons, List.reverse_append, List.reverse_cons,
          finish_of_afterCompleted done hdone, List.append_assoc]
        refine AShape_append hA ?_
        simp only [List.singleton_append]
        refine ⟨?_, ?_, ?_⟩
        · simp [SubTraceLoreCtor.finish, hcur, SubTraceLoreCtor.afterEnd', hcs]
        · simp [SubTraceLoreCtor.finish, hcur, SubTraceLoreCtor.afterEnd', DataKeeper.resultTraceNextPos, hn, hcs, hle]
        · have : (cur.finish k).afterEnd = n := by
            simp [SubTraceLoreCtor.finish, hcur, SubTraceLoreCtor.afterEnd', DataKeeper.resultTraceNextPos, hn]
          rw [this, ← List.map_reverse]
          exact AShape_finished_pre hn pre.reverse (fun c hc => hall c (by simpa using hc))
  obtain ⟨eB, hB, hA, hne⟩ := key
  refine ⟨lore, _, hrl, hits, ?_, batchEnd_of_shapes hB hA hb, hvp', hbs, ⟨hc', hb', hs', rfl⟩, hip⟩
  intro h
  simp only [List.map_eq_nil_iff] at h
  exact hne h

end Aqua.Trace
