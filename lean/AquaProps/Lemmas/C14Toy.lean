import AquaProps.Lemmas.VerifyData
/-!
Toy instance used by the non-vacuity examples of C14: a symbolic signature scheme, an (injective) toy
hash — the "CID" of a text is `#` followed by the text — and honest / tampered data of one peer `Q`.
The facts are proved here (kernel evaluation, slow) so that they are built in parallel with the theorems.
-/
namespace AquaProps.C14
open Aqua Aqua.Data Aqua.Exec Aqua.Run Aqua.Crypto

def toyCheck (cid : Cid) (b : Bytes) : Except CidVerificationError Unit :=
  if cid.toUTF8.data.toList = (35 : UInt8) :: b then .ok () else .error (.valueMismatch cid)

def toyEnv : VerifyEnv :=
  VerifyEnv.ofScheme symbolic (fun _ => true) (fun (pk : String) => "peer-" ++ pk) (fun (pk : String) => pk) (fun _ => "") toyCheck

def tetQ : Tetraplet := { peerPk := "peer-Q", serviceId := "s", functionName := "f" }
def aggQ : ServiceResultAgg := ⟨"#1", "h", "#" ++ tetQ.json⟩
def cidQ : Cid := "#" ++ aggQ.json
def ciQ : CidInfo :=
  { values := [("#1", "1")], tetraplets := [("#" ++ tetQ.json, tetQ)], serviceResults := [(cidQ, aggQ)] }
def msgQ (particle : String) : Bytes := (saltedData [cidQ] particle).getD []
/-- honest data: one result of `Q`, signed by `Q` for particle `p1` -/
def curQ : VData toyEnv :=
  { trace := [.call (.executed (.scalar cidQ))], cidInfo := ciQ, signatures := [("Q", SymSig.sig "Q" (msgQ "p1"))] }
/-- the same data with the value swapped under the same CID -/
def curSwapped : VData toyEnv := { curQ with cidInfo := { ciQ with values := [("#1", "2")] } }
/-- the same data carrying the signature `Q` made for another particle -/
def curReplayed : VData toyEnv := { curQ with signatures := [("Q", SymSig.sig "Q" (msgQ "p0"))] }
/-- a forged result attributed to `Q`, signed by the attacker `A` -/
def curForged : VData toyEnv := { curQ with signatures := [("A", SymSig.sig "A" (msgQ "p1"))] }

theorem isOk_unit {ε : Type} {r : Res ε Unit} (h : r.isOk = true) : r = .ok () := by
  cases r with
  | ok u => rfl
  | error e => cases h
  | panic s => cases h

theorem toy_honest_verified : verifyData toyEnv curQ "p1" = .ok () := isOk_unit (by decide +kernel)
theorem toy_attributed : stateContribution curQ.cidInfo (.call (.executed (.scalar cidQ))) = .ok (some ("peer-Q", cidQ)) := by decide +kernel
theorem toy_store_verified : ciQ.verify toyEnv = .ok () := by decide +kernel

end AquaProps.C14
