import AquaProps.Lemmas.Rel
/-!
Computation rules of the execution monad `M` (pointwise), the shape of the `execute!` wrapper of `exec`,
and the *invocation* relation of the interpreter: `Invokes env f i c f' i' c'` says that executing `i`
with fuel `f` from context `c` runs `exec env f' i' c'` as a direct sub-execution.  Used by C18.
-/
namespace AquaProps
open Aqua Aqua.Exec Aqua.Air Aqua.Trace Aqua.Json

section rules
variable {α β : Type}
theorem bind_apply (m : M α) (f : α → M β) (c : Ctx) :
    (m >>= f) c = match m c with
      | (.ok a, c') => f a c'
      | (.error e, c') => (.error e, c')
      | (.panic s, c') => (.panic s, c') := rfl
theorem bind_of_ok {m : M α} {f : α → M β} {c c' : Ctx} {a : α} (h : m c = (.ok a, c')) : (m >>= f) c = f a c' := by
  rw [bind_apply, h]
theorem bind_of_error {m : M α} {f : α → M β} {c c' : Ctx} {e : ExecErr} (h : m c = (.error e, c')) :
    (m >>= f) c = (.error e, c') := by
  rw [bind_apply, h]
theorem bind_of_panic {m : M α} {f : α → M β} {c c' : Ctx} {s : String} (h : m c = (.panic s, c')) :
    (m >>= f) c = (.panic s, c') := by
  rw [bind_apply, h]
theorem tryM_apply (m : M α) (c : Ctx) : tryM m c = (.ok (m c).1, (m c).2) := rfl
theorem modifyCtx_apply (f : Ctx → Ctx) (c : Ctx) : modifyCtx f c = (.ok (), f c) := rfl
theorem reraise_apply (r : Res ExecErr α) (c : Ctx) : reraise r c = (r, c) := rfl
theorem throwE_apply (e : ExecErr) (c : Ctx) : (throwE e : M α) c = (.error e, c) := rfl
theorem panicM_apply (s : String) (c : Ctx) : (panicM s : M α) c = (.panic s, c) := rfl
theorem pure_apply (a : α) (c : Ctx) : (pure a : M α) c = (.ok a, c) := rfl
theorem readCtx_apply (f : Ctx → α) (c : Ctx) : readCtx f c = (.ok (f c), c) := rfl
theorem readER_apply (f : Ctx → ER α) (c : Ctx) : readER f c = (f c, c) := rfl
theorem onError_apply (m : M α) (f : ExecErr → Ctx → Ctx) (c : Ctx) :
    onError m f c = match m c with
      | (.error e, c') => (.error e, f e c')
      | r => r := rfl
end rules

/-! ### the `execute!` wrapper -/

def isCall : Instr → Bool
  | .call .. => true
  | _ => false

/-- what `exec` does with the result of the instruction's own `execute` (every instruction but `call`):
a failure updates `%last_error%` / `:error:` through `set_errors` -/
def wrap (i : Instr) (r : Res ExecErr Unit × Ctx) : Res ExecErr Unit × Ctx :=
  match r with
  | (.error e, c) => (.error e, c.setErrorsOf e i)
  | r => r

theorem exec_noncall (env : Env) (fuel : Nat) (i : Instr) (c : Ctx) (hi : isCall i = false) :
    exec env (fuel + 1) i c = wrap i (execInner env fuel i c) := by
  unfold exec
  split
  · simp [isCall] at hi
  · unfold onError wrap
    cases execInner env fuel i c with
    | mk res c1 => cases res <;> rfl

theorem exec_call (env : Env) (fuel : Nat) (p s f : Value) (args : List Value) (out : CallOutput) :
    exec env (fuel + 1) (.call p s f args out) = execCall env (.call p s f args out) p s f args out := by
  unfold exec; rfl

theorem exec_zero (env : Env) (i : Instr) (c : Ctx) : exec env 0 i c = (.error (.unmodelled "out of fuel"), c) := by
  unfold exec; rfl

@[simp] theorem wrap_fst (i : Instr) (r : Res ExecErr Unit × Ctx) : (wrap i r).1 = r.1 := by
  obtain ⟨res, c⟩ := r
  cases res <;> rfl

theorem wrap_of_not_catchable (i : Instr) (r : Res ExecErr Unit × Ctx) (h : ∀ e, r.1 ≠ .error (.catchable e)) :
    wrap i r = r := by
  obtain ⟨res, c⟩ := r
  cases res with
  | ok u => rfl
  | panic s => rfl
  | error e =>
    cases e with
    | catchable ce => exact absurd rfl (h ce)
    | uncatchable u => rfl
    | unmodelled w => rfl

theorem wrap_catchable (i : Instr) (e : CatchableErr) (c : Ctx) :
    wrap i (.error (.catchable e), c) = (.error (.catchable e), c.setErrors e i.render none i.logErrorsWithPeerId) := rfl

/-! ### xor -/

/-- `flush_subgraph_completeness` -/
@[reducible] def flush (c : Ctx) : Ctx := { c with subgraphComplete := true }

/-- the body of `Xor::execute` as a plain function of the results of its two branches -/
def xorBody (env : Env) (fuel : Nat) (l r : Instr) (c : Ctx) : Res ExecErr Unit × Ctx :=
  match exec env fuel l (flush c) with
  | (.error (.catchable e), c1) =>
    let rr := exec env fuel r (xorEnterRight e c1)
    (rr.1, xorLeaveRight rr.1.isOk rr.2)
  | x => x

theorem execInner_xor (env : Env) (fuel : Nat) (l r : Instr) (c : Ctx) :
    execInner env fuel (.xor l r) c = xorBody env fuel l r c := by
  rw [execInner]
  unfold xorBody flush
  simp only [bind_apply, tryM_apply, modifyCtx_apply]
  cases hl : exec env fuel l { c with subgraphComplete := true } with
  | mk res c1 =>
    cases res with
    | ok u => rfl
    | panic s => rfl
    | error e =>
      cases e with
      | catchable ce => simp only [bind_apply, tryM_apply, modifyCtx_apply, reraise_apply]
      | uncatchable u => rfl
      | unmodelled w => rfl

/-! ### fatal results: uncatchable errors and panics -/

/-- the result is the uncatchable error `u`, or a panic -/
def FatalR {α : Type} (u : UncatchableErr) (r : Res ExecErr α) : Prop :=
  r = .error (.uncatchable u) ∨ ∃ s, r = .panic s

theorem fatal_bind_left {α β : Type} {u : UncatchableErr} {m : M α} {f : α → M β} {c : Ctx}
    (h : FatalR u (m c).1) : FatalR u ((m >>= f) c).1 := by
  rw [bind_apply]
  cases hm : m c with
  | mk res c1 =>
    rw [hm] at h
    cases res with
    | ok a => rcases h with h | ⟨s, h⟩ <;> cases h
    | error e =>
      rcases h with h | ⟨s, h⟩
      · injection h with h; subst h; exact Or.inl rfl
      · cases h
    | panic s => exact Or.inr ⟨s, rfl⟩

theorem fatal_not_ok {α : Type} {u : UncatchableErr} {a : α} (h : FatalR u (Res.ok a : Res ExecErr α)) : False := by
  rcases h with h | ⟨s, h⟩ <;> cases h

theorem fatal_not_catchable {α : Type} {u : UncatchableErr} {e : CatchableErr}
    (h : FatalR u (Res.error (.catchable e) : Res ExecErr α)) : False := by
  rcases h with h | ⟨s, h⟩ <;> cases h

/-- a fatal result keeps being fatal when its value type is changed by a `bind` -/
theorem fatal_retype {α β : Type} {u : UncatchableErr} {r : Res ExecErr α} (h : FatalR u r) :
    (r = .error (.uncatchable u) ∧ FatalR u (Res.error (.uncatchable u) : Res ExecErr β)) ∨
    (∃ s, r = .panic s ∧ FatalR u (Res.panic s : Res ExecErr β)) := by
  rcases h with h | ⟨s, h⟩
  · exact Or.inl ⟨h, Or.inl rfl⟩
  · exact Or.inr ⟨s, h, Or.inr ⟨s, rfl⟩⟩

/-! ### propagation of fatal results through every frame of the interpreter -/

theorem fatal_xor_left {env : Env} {f : Nat} {l r : Instr} {c : Ctx} {u : UncatchableErr}
    (h : FatalR u (exec env f l (flush c)).1) : FatalR u (execInner env f (.xor l r) c).1 := by
  rw [execInner_xor]; unfold xorBody
  cases hl : exec env f l (flush c) with
  | mk res c1 =>
    rw [hl] at h
    cases res with
    | ok a => exact absurd h fatal_not_ok
    | panic s => exact h
    | error e =>
      cases e with
      | catchable ce => exact absurd h fatal_not_catchable
      | uncatchable u' => exact h
      | unmodelled w => exact h

theorem fatal_xor_right {env : Env} {f : Nat} {l r : Instr} {c c1 : Ctx} {e : CatchableErr} {u : UncatchableErr}
    (hl : exec env f l (flush c) = (.error (.catchable e), c1))
    (h : FatalR u (exec env f r (xorEnterRight e c1)).1) : FatalR u (execInner env f (.xor l r) c).1 := by
  rw [execInner_xor]; unfold xorBody
  rw [hl]; exact h

theorem fatal_seq_left {env : Env} {f : Nat} {l r : Instr} {c : Ctx} {u : UncatchableErr}
    (h : FatalR u (exec env f l (flush c)).1) : FatalR u (execInner env f (.seq l r) c).1 := by
  rw [execInner]
  rw [bind_of_ok (modifyCtx_apply _ c)]
  exact fatal_bind_left h

theorem fatal_seq_right {env : Env} {f : Nat} {l r : Instr} {c c1 : Ctx} {u : UncatchableErr}
    (hl : exec env f l (flush c) = (.ok (), c1)) (hc : c1.subgraphComplete = true)
    (h : FatalR u (exec env f r c1).1) : FatalR u (execInner env f (.seq l r) c).1 := by
  rw [execInner]
  rw [bind_of_ok (modifyCtx_apply _ c), bind_of_ok hl, bind_of_ok (readCtx_apply _ c1)]
  simp only [hc, if_true]
  exact h

theorem fatal_execSubgraph {env : Env} {f : Nat} {par sub : Instr} {t : SubgraphType} {c : Ctx} {u : UncatchableErr}
    (h : FatalR u (exec env f sub { c with subgraphComplete := !(isNext sub) }).1) :
    FatalR u (execSubgraph env f par sub t c).1 := by
  rw [execSubgraph]
  rw [bind_of_ok (modifyCtx_apply _ c)]
  rw [bind_apply, tryM_apply]
  cases hs : exec env f sub { c with subgraphComplete := !(isNext sub) } with
  | mk res c1 =>
    rw [hs] at h
    cases res with
    | ok a => exact absurd h fatal_not_ok
    | panic s => exact Or.inr ⟨s, rfl⟩
    | error e =>
      cases e with
      | catchable ce => exact absurd h fatal_not_catchable
      | uncatchable u' =>
        rcases h with h | ⟨s, h⟩
        · injection h with h; injection h with h; subst h
          exact Or.inl rfl
        · cases h
      | unmodelled w => rcases h with h | ⟨s, h⟩ <;> cases h

theorem fatal_par_left {env : Env} {f : Nat} {l r : Instr} {c c1 : Ctx} {u : UncatchableErr}
    (hs : liftTH' (.par l r) (fun th => th.meetParStart) c = (.ok (), c1))
    (h : FatalR u (exec env f l { c1 with subgraphComplete := !(isNext l) }).1) :
    FatalR u (execInner env f (.par l r) c).1 := by
  rw [execInner]
  rw [bind_of_ok hs]
  exact fatal_bind_left (fatal_execSubgraph h)

theorem fatal_par_right {env : Env} {f : Nat} {l r : Instr} {c c1 c2 : Ctx} {x : Option ExecErr × Bool} {u : UncatchableErr}
    (hs : liftTH' (.par l r) (fun th => th.meetParStart) c = (.ok (), c1))
    (hl : execSubgraph env f (.par l r) l .left c1 = (.ok x, c2))
    (h : FatalR u (exec env f r { c2 with subgraphComplete := !(isNext r) }).1) :
    FatalR u (execInner env f (.par l r) c).1 := by
  rw [execInner]
  rw [bind_of_ok hs, bind_of_ok hl]
  exact fatal_bind_left (fatal_execSubgraph h)

theorem joinable_of_ok {α : Type} {m : M α} {c c' : Ctx} {a : α} (h : m c = (.ok a, c')) :
    joinable m c = (.ok (some a), c') := by
  unfold joinable; rw [h]

theorem fatal_match {env : Env} {f : Nat} {a b : Value} {body : Instr} {c : Ctx} {u : UncatchableErr}
    (hm : areMatchableEq c a b = .ok true)
    (h : FatalR u (exec env f body c).1) : FatalR u (execInner env f (.match_ a b body) c).1 := by
  rw [execInner]
  have : readER (fun c => areMatchableEq c a b) c = (.ok true, c) := by rw [readER_apply, hm]
  rw [bind_of_ok (joinable_of_ok this)]
  exact h

theorem fatal_mismatch {env : Env} {f : Nat} {a b : Value} {body : Instr} {c : Ctx} {u : UncatchableErr}
    (hm : areMatchableEq c a b = .ok false)
    (h : FatalR u (exec env f body c).1) : FatalR u (execInner env f (.mismatch a b body) c).1 := by
  rw [execInner]
  have : readER (fun c => areMatchableEq c a b) c = (.ok false, c) := by rw [readER_apply, hm]
  rw [bind_of_ok (joinable_of_ok this)]
  exact h

theorem modifyER_apply (g : Ctx → ER Ctx) (c : Ctx) :
    modifyER g c = match g c with
      | .ok c' => (.ok (), c')
      | .error e => (.error e, c)
      | .panic s => (.panic s, c) := rfl

theorem stateER_apply {α : Type} (g : Ctx → ER (α × Ctx)) (c : Ctx) :
    stateER g c = match g c with
      | .ok (a, c') => (.ok a, c')
      | .error e => (.error e, c)
      | .panic s => (.panic s, c) := rfl

theorem sm_meetFoldEnd_ok_or_panic {α : Type} (m : SparseMatrix α) :
    (∃ m', m.meetFoldEnd = .ok m') ∨ ∃ s, m.meetFoldEnd = (.panic s : Res ExecErr (SparseMatrix α)) := by
  unfold SparseMatrix.meetFoldEnd
  by_cases h0 : m.currentDepth = 0 <;> simp [h0]

theorem sm_meetNextAfter_ok_or_panic {α : Type} (m : SparseMatrix α) :
    (∃ m', m.meetNextAfter = .ok m') ∨ ∃ s, m.meetNextAfter = (.panic s : Res ExecErr (SparseMatrix α)) := by
  unfold SparseMatrix.meetNextAfter
  by_cases h0 : m.currentDepth = 0 <;> simp [h0]

theorem foldLeave_ok_or_panic (it : String) (c : Ctx) :
    (∃ c', foldLeave it c = .ok c') ∨ ∃ s, foldLeave it c = .panic s := by
  unfold foldLeave withScalars Scalars.meetFoldEnd
  simp only [bind, Res.bind, pure]
  rcases sm_meetFoldEnd_ok_or_panic (c.scalars.removeIterableValue it).nonIterable with ⟨m1, h1⟩ | ⟨s1, h1⟩
  · rcases sm_meetFoldEnd_ok_or_panic (c.scalars.removeIterableValue it).canonStreams with ⟨m2, h2⟩ | ⟨s2, h2⟩
    · rcases sm_meetFoldEnd_ok_or_panic (c.scalars.removeIterableValue it).canonMaps with ⟨m3, h3⟩ | ⟨s3, h3⟩
      · simp [h1, h2, h3]
      · simp [h1, h2, h3]
    · simp [h1, h2]
  · simp [h1]

theorem nextAfter_ok_or_panic (c : Ctx) :
    (∃ c', nextAfter c = .ok c') ∨ ∃ s, nextAfter c = .panic s := by
  unfold nextAfter withScalars Scalars.meetNextAfter
  simp only [bind, Res.bind, pure]
  rcases sm_meetNextAfter_ok_or_panic c.scalars.nonIterable with ⟨m1, h1⟩ | ⟨s1, h1⟩
  · rcases sm_meetNextAfter_ok_or_panic c.scalars.canonStreams with ⟨m2, h2⟩ | ⟨s2, h2⟩
    · rcases sm_meetNextAfter_ok_or_panic c.scalars.canonMaps with ⟨m3, h3⟩ | ⟨s3, h3⟩
      · simp [h1, h2, h3]
      · simp [h1, h2, h3]
    · simp [h1, h2]
  · simp [h1]

/-- a clean-up step that can only succeed or panic, after a fatal result, keeps the result fatal -/
theorem fatal_cleanup {u : UncatchableErr} {g : Ctx → ER Ctx} {res : Res ExecErr Unit} {c : Ctx}
    (hg : (∃ c', g c = .ok c') ∨ ∃ s, g c = .panic s) (h : FatalR u res) :
    FatalR u ((modifyER g >>= fun _ => reraise res) c).1 := by
  rw [bind_apply, modifyER_apply]
  rcases hg with ⟨c', hg⟩ | ⟨s, hg⟩
  · rw [hg]; exact h
  · rw [hg]; exact Or.inr ⟨s, rfl⟩

theorem fatal_fold {env : Env} {f : Nat} {iterable : Value} {iterator : String} {body : Instr} {last : Option Instr}
    {c c1 : Ctx} {itv : IterableValue} {u : UncatchableErr}
    (hi : createScalarIterable c iterable = .ok (some itv))
    (he : foldEnter iterator { iterable := itv, iterableType := .scalar, instrHead := body, lastInstrHead := last } c = .ok c1)
    (h : FatalR u (exec env f body c1).1) :
    FatalR u (execInner env f (.foldScalar iterable iterator body last) c).1 := by
  rw [execInner]
  have : readER (fun c => createScalarIterable c iterable) c = (.ok (some itv), c) := by rw [readER_apply, hi]
  rw [bind_of_ok (joinable_of_ok this)]
  have h2 : modifyER (foldEnter iterator { iterable := itv, iterableType := .scalar, instrHead := body, lastInstrHead := last }) c = (.ok (), c1) := by
    rw [modifyER_apply, he]
  simp only []
  rw [bind_of_ok h2, bind_of_ok (tryM_apply _ c1)]
  exact fatal_cleanup (foldLeave_ok_or_panic _ _) h

theorem fatal_next_body {env : Env} {f : Nat} {iterator : String} {c c1 c2 c3 : Ctx} {fs0 fs : FoldState}
    {item : JVal × Tetraplet × Nat × Provenance} {u : UncatchableErr}
    (hf0 : c.scalars.getIterable iterator = .ok fs0)
    (h1 : maybeTH (.next iterator) fs0 (fun id th => th.meetIterationEnd id) c = (.ok (), c1))
    (ha : nextAdvance iterator c1 = .ok (some fs, c2))
    (hp : fs.iterable.peekExpect = .ok item)
    (h2 : maybeTH (.next iterator) fs (fun id th => th.meetIterationStart id item.2.2.1) c2 = (.ok (), c3))
    (h : FatalR u (exec env f fs.instrHead c3).1) :
    FatalR u (execInner env f (.next iterator) c).1 := by
  rw [execInner]
  have h0 : readER (fun c => c.scalars.getIterable iterator) c = (.ok fs0, c) := by rw [readER_apply, hf0]
  rw [bind_of_ok h0, bind_of_ok h1]
  have h3 : stateER (nextAdvance iterator) c1 = (.ok (some fs), c2) := by rw [stateER_apply, ha]
  rw [bind_of_ok h3]
  simp only []
  have h4 : readER (fun _ => fs.iterable.peekExpect) c2 = (.ok item, c2) := by rw [readER_apply, hp]
  rw [bind_of_ok h4, bind_of_ok h2]
  rw [bind_of_ok (tryM_apply _ c3)]
  rw [bind_apply, modifyER_apply]
  rcases nextAfter_ok_or_panic (exec env f fs.instrHead c3).2 with ⟨c', hg⟩ | ⟨s, hg⟩
  · rw [hg]
    rcases h with h | ⟨s, h⟩ <;> (simp only [h]; first | exact Or.inl rfl | exact Or.inr ⟨_, rfl⟩)
  · rw [hg]; exact Or.inr ⟨s, rfl⟩

theorem fatal_next_last {env : Env} {f : Nat} {iterator : String} {c c1 c2 c3 : Ctx} {fs0 fs : FoldState} {li : Instr}
    {u : UncatchableErr}
    (hf0 : c.scalars.getIterable iterator = .ok fs0)
    (h1 : maybeTH (.next iterator) fs0 (fun id th => th.meetIterationEnd id) c = (.ok (), c1))
    (ha : nextAdvance iterator c1 = .ok (none, c2))
    (h2 : maybeTH (.next iterator) fs0 (fun id th => th.meetBackIterator id) c2 = (.ok (), c3))
    (hf : c3.scalars.getIterable iterator = .ok fs) (hl : fs.lastInstrHead = some li)
    (h : FatalR u (exec env f li (flush c3)).1) :
    FatalR u (execInner env f (.next iterator) c).1 := by
  rw [execInner]
  have h0 : readER (fun c => c.scalars.getIterable iterator) c = (.ok fs0, c) := by rw [readER_apply, hf0]
  rw [bind_of_ok h0, bind_of_ok h1]
  have h3 : stateER (nextAdvance iterator) c1 = (.ok none, c2) := by rw [stateER_apply, ha]
  rw [bind_of_ok h3]
  simp only []
  rw [bind_of_ok h2]
  have h4 : readER (fun c => c.scalars.getIterable iterator) c3 = (.ok fs, c3) := by rw [readER_apply, hf]
  rw [bind_of_ok h4]
  simp only [hl]
  rw [bind_of_ok (modifyCtx_apply _ c3)]
  exact h

theorem newLeave_ok (name : String) (c : Ctx) : ∃ b c', newLeave name c = .ok (b, c') := by
  unfold newLeave withScalarsRet
  simp only [Res.bind]
  exact ⟨_, _, rfl⟩

theorem fatal_new {env : Env} {f : Nat} {name : String} {body : Instr} {sl sr : Nat} {c : Ctx} {u : UncatchableErr}
    (h : FatalR u (exec env f body { c with scalars := c.scalars.meetNewStartScalar name }).1) :
    FatalR u (execInner env f (.new (.scalar name) body sl sr) c).1 := by
  rw [execInner]
  rw [bind_of_ok (modifyCtx_apply _ c), bind_of_ok (tryM_apply _ _)]
  obtain ⟨b, c', hn⟩ := newLeave_ok name (exec env f body { c with scalars := c.scalars.meetNewStartScalar name }).2
  have h3 : stateER (newLeave name) (exec env f body { c with scalars := c.scalars.meetNewStartScalar name }).2 = (.ok b, c') := by
    rw [stateER_apply, hn]
  rw [bind_of_ok h3]
  rcases h with h | ⟨s, h⟩ <;> (simp only [h]; first | exact Or.inl rfl | exact Or.inr ⟨_, rfl⟩)


theorem newLeaveCanon_ok (name : String) (c : Ctx) : ∃ b c', newLeaveCanon name c = .ok (b, c') := by
  unfold newLeaveCanon withScalarsRet
  simp only [Res.bind]
  exact ⟨_, _, rfl⟩

theorem fatal_new_canon {env : Env} {f : Nat} {name : String} {body : Instr} {sl sr : Nat} {c : Ctx} {u : UncatchableErr}
    (h : FatalR u (exec env f body { c with scalars := c.scalars.meetNewStartCanon name }).1) :
    FatalR u (execInner env f (.new (.canon name) body sl sr) c).1 := by
  rw [execInner]
  rw [bind_of_ok (modifyCtx_apply _ c), bind_of_ok (tryM_apply _ _)]
  obtain ⟨b, c', hn⟩ := newLeaveCanon_ok name (exec env f body { c with scalars := c.scalars.meetNewStartCanon name }).2
  have h3 : stateER (newLeaveCanon name) (exec env f body { c with scalars := c.scalars.meetNewStartCanon name }).2 = (.ok b, c') := by
    rw [stateER_apply, hn]
  rw [bind_of_ok h3]
  rcases h with h | ⟨s, h⟩ <;> (simp only [h]; first | exact Or.inl rfl | exact Or.inr ⟨_, rfl⟩)

theorem fatal_new_stream {env : Env} {f : Nat} {name : String} {body : Instr} {sl sr : Nat} {c : Ctx} {u : UncatchableErr}
    (h : FatalR u (exec env f body (c.streamScopeStart name sl sr)).1) :
    FatalR u (execInner env f (.new (.stream name) body sl sr) c).1 := by
  rw [execInner]
  rw [bind_of_ok (modifyCtx_apply _ c), bind_of_ok (tryM_apply _ _), bind_of_ok (tryM_apply _ _)]
  rcases h with h | ⟨s, h⟩ <;> (simp only [h]; first | exact Or.inl rfl | exact Or.inr ⟨_, rfl⟩)

/-! ### the invocation relation -/

/-- `Invokes env f i c f' i' c'`: executing instruction `i` with fuel `f` from context `c` runs
`exec env f' i' c'` as a direct sub-execution (the premises are the model's own conditions for reaching
that sub-execution).  Frames: both branches of `xor`, `seq`, `par`; bodies of `match`, `mismatch`, scalar
`fold`, `new` (scalar, stream, canon stream); the re-entered body and the last instruction of `next`.
Not covered: the bodies of stream folds (`execFoldIterations`). -/
inductive Invokes (env : Env) : Nat → Instr → Ctx → Nat → Instr → Ctx → Prop
  | xorLeft (f : Nat) (l r : Instr) (c : Ctx) : Invokes env (f + 1) (.xor l r) c f l (flush c)
  | xorRight (f : Nat) (l r : Instr) (c c1 : Ctx) (e : CatchableErr)
      (hl : exec env f l (flush c) = (.error (.catchable e), c1)) :
      Invokes env (f + 1) (.xor l r) c f r (xorEnterRight e c1)
  | seqLeft (f : Nat) (l r : Instr) (c : Ctx) : Invokes env (f + 1) (.seq l r) c f l (flush c)
  | seqRight (f : Nat) (l r : Instr) (c c1 : Ctx)
      (hl : exec env f l (flush c) = (.ok (), c1)) (hc : c1.subgraphComplete = true) :
      Invokes env (f + 1) (.seq l r) c f r c1
  | parLeft (f : Nat) (l r : Instr) (c c1 : Ctx)
      (hs : liftTH' (.par l r) (fun th => th.meetParStart) c = (.ok (), c1)) :
      Invokes env (f + 1) (.par l r) c f l { c1 with subgraphComplete := !(isNext l) }
  | parRight (f : Nat) (l r : Instr) (c c1 c2 : Ctx) (x : Option ExecErr × Bool)
      (hs : liftTH' (.par l r) (fun th => th.meetParStart) c = (.ok (), c1))
      (hl : execSubgraph env f (.par l r) l .left c1 = (.ok x, c2)) :
      Invokes env (f + 1) (.par l r) c f r { c2 with subgraphComplete := !(isNext r) }
  | matchBody (f : Nat) (a b : Value) (body : Instr) (c : Ctx) (hm : areMatchableEq c a b = .ok true) :
      Invokes env (f + 1) (.match_ a b body) c f body c
  | mismatchBody (f : Nat) (a b : Value) (body : Instr) (c : Ctx) (hm : areMatchableEq c a b = .ok false) :
      Invokes env (f + 1) (.mismatch a b body) c f body c
  | foldBody (f : Nat) (iterable : Value) (iterator : String) (body : Instr) (last : Option Instr) (c c1 : Ctx)
      (itv : IterableValue) (hi : createScalarIterable c iterable = .ok (some itv))
      (he : foldEnter iterator { iterable := itv, iterableType := .scalar, instrHead := body, lastInstrHead := last } c = .ok c1) :
      Invokes env (f + 1) (.foldScalar iterable iterator body last) c f body c1
  | nextBody (f : Nat) (iterator : String) (c c1 c2 c3 : Ctx) (fs0 fs : FoldState) (item : JVal × Tetraplet × Nat × Provenance)
      (hf0 : c.scalars.getIterable iterator = .ok fs0)
      (h1 : maybeTH (.next iterator) fs0 (fun id th => th.meetIterationEnd id) c = (.ok (), c1))
      (ha : nextAdvance iterator c1 = .ok (some fs, c2))
      (hp : fs.iterable.peekExpect = .ok item)
      (h2 : maybeTH (.next iterator) fs (fun id th => th.meetIterationStart id item.2.2.1) c2 = (.ok (), c3)) :
      Invokes env (f + 1) (.next iterator) c f fs.instrHead c3
  | nextLast (f : Nat) (iterator : String) (c c1 c2 c3 : Ctx) (fs0 fs : FoldState) (li : Instr)
      (hf0 : c.scalars.getIterable iterator = .ok fs0)
      (h1 : maybeTH (.next iterator) fs0 (fun id th => th.meetIterationEnd id) c = (.ok (), c1))
      (ha : nextAdvance iterator c1 = .ok (none, c2))
      (h2 : maybeTH (.next iterator) fs0 (fun id th => th.meetBackIterator id) c2 = (.ok (), c3))
      (hf : c3.scalars.getIterable iterator = .ok fs) (hl : fs.lastInstrHead = some li) :
      Invokes env (f + 1) (.next iterator) c f li (flush c3)
  | newBody (f : Nat) (name : String) (body : Instr) (sl sr : Nat) (c : Ctx) :
      Invokes env (f + 1) (.new (.scalar name) body sl sr) c f body { c with scalars := c.scalars.meetNewStartScalar name }
  | newCanonBody (f : Nat) (name : String) (body : Instr) (sl sr : Nat) (c : Ctx) :
      Invokes env (f + 1) (.new (.canon name) body sl sr) c f body { c with scalars := c.scalars.meetNewStartCanon name }
  | newStreamBody (f : Nat) (name : String) (body : Instr) (sl sr : Nat) (c : Ctx) :
      Invokes env (f + 1) (.new (.stream name) body sl sr) c f body (c.streamScopeStart name sl sr)

/-- reflexive-transitive closure: `i'` is executed somewhere below `i` -/
inductive InvokesStar (env : Env) : Nat → Instr → Ctx → Nat → Instr → Ctx → Prop
  | refl (f : Nat) (i : Instr) (c : Ctx) : InvokesStar env f i c f i c
  | step {f f1 f2 : Nat} {i i1 i2 : Instr} {c c1 c2 : Ctx} :
      Invokes env f i c f1 i1 c1 → InvokesStar env f1 i1 c1 f2 i2 c2 → InvokesStar env f i c f2 i2 c2

/-- one frame: a fatal result of a sub-execution is the (fatal) result of the enclosing instruction -/
theorem fatal_step {env : Env} {f f' : Nat} {i i' : Instr} {c c' : Ctx} {u : UncatchableErr}
    (hinv : Invokes env f i c f' i' c') (h : FatalR u (exec env f' i' c').1) : FatalR u (exec env f i c).1 := by
  cases hinv with
  | xorLeft => rw [exec_noncall _ _ _ _ rfl, wrap_fst]; exact fatal_xor_left h
  | xorRight _ _ _ _ _ _ hl => rw [exec_noncall _ _ _ _ rfl, wrap_fst]; exact fatal_xor_right hl h
  | seqLeft => rw [exec_noncall _ _ _ _ rfl, wrap_fst]; exact fatal_seq_left h
  | seqRight _ _ _ _ _ hl hc => rw [exec_noncall _ _ _ _ rfl, wrap_fst]; exact fatal_seq_right hl hc h
  | parLeft _ _ _ _ _ hs => rw [exec_noncall _ _ _ _ rfl, wrap_fst]; exact fatal_par_left hs h
  | parRight _ _ _ _ _ _ _ hs hl => rw [exec_noncall _ _ _ _ rfl, wrap_fst]; exact fatal_par_right hs hl h
  | matchBody _ _ _ _ _ hm => rw [exec_noncall _ _ _ _ rfl, wrap_fst]; exact fatal_match hm h
  | mismatchBody _ _ _ _ _ hm => rw [exec_noncall _ _ _ _ rfl, wrap_fst]; exact fatal_mismatch hm h
  | foldBody _ _ _ _ _ _ _ _ hi he => rw [exec_noncall _ _ _ _ rfl, wrap_fst]; exact fatal_fold hi he h
  | nextBody _ _ _ _ _ _ _ _ _ hf0 h1 ha hp h2 => rw [exec_noncall _ _ _ _ rfl, wrap_fst]; exact fatal_next_body hf0 h1 ha hp h2 h
  | nextLast _ _ _ _ _ _ _ _ _ hf0 h1 ha h2 hf hl => rw [exec_noncall _ _ _ _ rfl, wrap_fst]; exact fatal_next_last hf0 h1 ha h2 hf hl h
  | newBody => rw [exec_noncall _ _ _ _ rfl, wrap_fst]; exact fatal_new h
  | newCanonBody => rw [exec_noncall _ _ _ _ rfl, wrap_fst]; exact fatal_new_canon h
  | newStreamBody => rw [exec_noncall _ _ _ _ rfl, wrap_fst]; exact fatal_new_stream h

theorem fatal_star {env : Env} {f f' : Nat} {i i' : Instr} {c c' : Ctx} {u : UncatchableErr}
    (hinv : InvokesStar env f i c f' i' c') (h : FatalR u (exec env f' i' c').1) : FatalR u (exec env f i c).1 := by
  induction hinv with
  | refl => exact h
  | step h1 _ ih => exact fatal_step h1 (ih h)

end AquaProps
