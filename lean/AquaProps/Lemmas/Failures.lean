import AquaProps.Lemmas.SetErrors
/-!
How the individual instructions fail (the state at the moment of failure), how `call` fails, and what
`fail :error:` does.  Used by C18.
-/
namespace AquaProps
open Aqua Aqua.Exec Aqua.Air Aqua.Json

theorem joinable_of_error {α : Type} {m : M α} {c c' : Ctx} {e : ExecErr} (h : m c = (.error e, c')) (hj : e.isJoinable = false) :
    joinable m c = (.error e, c') := by
  unfold joinable; rw [h]; simp [hj]


theorem inner_match_fails (env : Env) (fuel : Nat) (a b : Value) (body : Instr) (c : Ctx)
    (h : areMatchableEq c a b = .ok false) :
    execInner env fuel (.match_ a b body) c = (.error (.catchable .matchValuesNotEqual), c) := by
  rw [execInner]
  have : readER (fun c => areMatchableEq c a b) c = (.ok false, c) := by rw [readER_apply, h]
  rw [bind_of_ok (joinable_of_ok this)]; rfl


theorem inner_mismatch_fails (env : Env) (fuel : Nat) (a b : Value) (body : Instr) (c : Ctx)
    (h : areMatchableEq c a b = .ok true) :
    execInner env fuel (.mismatch a b body) c = (.error (.catchable .mismatchValuesEqual), c) := by
  rw [execInner]
  have : readER (fun c => areMatchableEq c a b) c = (.ok true, c) := by rw [readER_apply, h]
  rw [bind_of_ok (joinable_of_ok this)]; rfl


/-- a failing operand resolution inside match (lens error, type error, …; not the joinable
"variable not found") -/
theorem inner_match_operand_fails (env : Env) (fuel : Nat) (a b : Value) (body : Instr) (c : Ctx) (e : CatchableErr)
    (h : areMatchableEq c a b = .error (.catchable e)) (hj : e.isJoinable = false) :
    execInner env fuel (.match_ a b body) c = (.error (.catchable e), c) := by
  rw [execInner]
  have : readER (fun c => areMatchableEq c a b) c = (.error (.catchable e), c) := by rw [readER_apply, h]
  rw [bind_of_error (joinable_of_error this hj)]


theorem inner_fold_fails (env : Env) (fuel : Nat) (iterable : Value) (iterator : String) (body : Instr) (last : Option Instr)
    (c : Ctx) (e : CatchableErr) (h : createScalarIterable c iterable = .error (.catchable e)) (hj : e.isJoinable = false) :
    execInner env fuel (.foldScalar iterable iterator body last) c = (.error (.catchable e), c) := by
  rw [execInner]
  have : readER (fun c => createScalarIterable c iterable) c = (.error (.catchable e), c) := by rw [readER_apply, h]
  rw [bind_of_error (joinable_of_error this hj)]


theorem inner_ap_fails (env : Env) (fuel : Nat) (arg : Value) (name : String) (c : Ctx) (e : CatchableErr)
    (h : applyToArg c arg = .error (.catchable e)) (hj : e.isJoinable = false) :
    execInner env fuel (.ap arg (.scalar name)) c = (.error (.catchable e), c) := by
  have hap : execInner env fuel (.ap arg (.scalar name)) = execAp arg (.scalar name) := by
    rw [execInner]
    intro n p hn; cases hn
  rw [hap, execAp]
  have : readER (fun c => applyToArg c arg) c = (.error (.catchable e), c) := by rw [readER_apply, h]
  rw [bind_of_error (joinable_of_error this hj)]


/-- `fail` with a literal / scalar / `%last_error%` operand: throws `UserError` and stores the thrown object
in `%last_error%` (disabled for setting) -/
theorem inner_fail_throws (env : Env) (fuel : Nat) (arg : FailArg) (c : Ctx) (v : JVal) (t : Option Tetraplet) (p : Provenance)
    (harg : arg ≠ .error) (h : failOperand c arg = .ok (v, t, p)) :
    execInner env fuel (.fail arg) c =
      (.error (.catchable (.userError v)),
       { c with lastError := { error := ⟨v, t, p, none⟩, canBeSet := false }, subgraphComplete := false }) := by
  rw [execInner, execFail]
  have : readER (fun c => failOperand c arg) c = (.ok (v, t, p), c) := by rw [readER_apply, h]
  rw [bind_of_ok this]
  cases arg <;> first | exact absurd rfl harg | rfl


/-- `fail` whose operand is not a valid error object (or does not resolve) fails with that error instead -/
theorem inner_fail_operand_fails (env : Env) (fuel : Nat) (arg : FailArg) (c : Ctx) (e : CatchableErr)
    (h : failOperand c arg = .error (.catchable e)) :
    execInner env fuel (.fail arg) c = (.error (.catchable e), c) := by
  rw [execInner, execFail]
  have : readER (fun c => failOperand c arg) c = (.error (.catchable e), c) := by rw [readER_apply, h]
  rw [bind_of_error this]


theorem joinable_apply {α : Type} (m : M α) (c : Ctx) :
    joinable m c = match m c with
      | (.ok a, c') => (.ok (some a), c')
      | (.error e, c') => if e.isJoinable then (.ok none, { c' with subgraphComplete := false }) else (.error e, c')
      | (.panic s, c') => (.panic s, c') := rfl


/-- **how a call fails catchably**: either the triplet does not resolve (`ResolvedCall::new`; no tetraplet,
the current peer is logged) or `ResolvedCall::execute` fails (service error, argument error; the resolved
triplet is the tetraplet and its peer is logged); in both cases `set_errors` is applied to the context
in which the failure happened, and the error is not joinable. -/
theorem call_fails_cases (env : Env) (i : Instr) (p s f : Value) (args : List Value) (out : CallOutput) (c c' : Ctx)
    (e : CatchableErr) (h : execCall env i p s f args out c = (.error (.catchable e), c')) :
    e.isJoinable = false ∧
    ((resolveCall c p s f out = .error (.catchable e) ∧ c' = c.setErrors e i.render none true) ∨
     (∃ t c1, resolveCall c p s f out = .ok t ∧ resolvedExecute env i t args out c = (.error (.catchable e), c1) ∧
        c' = c1.setErrors e i.render (some t) true)) := by
  unfold execCall at h
  rw [bind_apply, joinable_apply, onError_apply, readER_apply] at h
  cases hr : resolveCall c p s f out with
  | panic site => rw [hr] at h; cases h
  | error e0 =>
    rw [hr] at h
    simp only [] at h
    by_cases hj : e0.isJoinable = true
    · simp only [hj, if_true] at h
      rw [pure_apply] at h; cases h
    · simp only [hj] at h
      injection h with h1 h2
      injection h1 with h1
      subst h1
      have hj' : e.isJoinable = false := by
        have h3 := hj; simp only [Bool.not_eq_true] at h3; exact h3
      refine ⟨hj', Or.inl ⟨rfl, ?_⟩⟩
      simp [callSetErrors, hj'] at h2
      exact h2.symm
  | ok t =>
    rw [hr] at h
    simp only [] at h
    rw [bind_apply, joinable_apply, onError_apply] at h
    cases hx : resolvedExecute env i t args out c with
    | mk res c1 =>
      rw [hx] at h
      cases res with
      | ok u => cases h
      | panic site => cases h
      | error e0 =>
        simp only [] at h
        by_cases hj : e0.isJoinable = true
        · simp only [hj, if_true] at h
          rw [pure_apply] at h; cases h
        · simp only [hj] at h
          injection h with h1 h2
          injection h1 with h1
          subst h1
          have hj' : e.isJoinable = false := by
            have h3 := hj; simp only [Bool.not_eq_true] at h3; exact h3
          refine ⟨hj', Or.inr ⟨t, c1, rfl, hx, ?_⟩⟩
          simp [callSetErrors, hj'] at h2
          exact h2.symm


theorem failOperand_error (c : Ctx) (h : checkErrorObject c.error.error.error = .ok ()) :
    failOperand c .error = .ok (c.error.error.error, c.error.error.tetraplet, c.error.error.provenance) := by
  simp [failOperand, errObjER, h, Res.mapErr, bind, Res.bind, pure]


theorem failOperand_lastError (c : Ctx) (h : checkErrorObject c.lastError.error.error = .ok ()) :
    failOperand c .lastError = .ok (c.lastError.error.error, c.lastError.error.tetraplet, c.lastError.error.provenance) := by
  simp [failOperand, errObjER, h, Res.mapErr, bind, Res.bind, pure]


/-- the error `fail :error:` raises: the original catchable error when `:error:` remembers one (set by the
xor that caught it), else a `UserError` carrying the object -/
def failErrorRaises (c : Ctx) : CatchableErr :=
  match c.error.error.origCatchable with
  | some o => o
  | none => .userError c.error.error.error


/-- `fail :error:` (`fail_with_error`): `%last_error%` := the `:error:` object, error setting disabled, the
original error re-raised; `:error:` itself is not touched -/
theorem inner_fail_error (env : Env) (fuel : Nat) (c : Ctx) (h : checkErrorObject c.error.error.error = .ok ()) :
    execInner env fuel (.fail .error) c =
      (.error (.catchable (failErrorRaises c)),
       { c with lastError := { error := ⟨c.error.error.error, c.error.error.tetraplet, c.error.error.provenance, none⟩, canBeSet := false },
                subgraphComplete := false,
                error := { c.error with canBeSet := false } }) := by
  rw [execInner, execFail]
  have : readER (fun c => failOperand c .error) c = (.ok (c.error.error.error, c.error.error.tetraplet, c.error.error.provenance), c) := by
    rw [readER_apply, failOperand_error c h]
  rw [bind_of_ok this]
  simp only [execFailError, failErrorRaises]
  rw [bind_of_ok (readCtx_apply _ c)]
  rw [bind_of_ok (tryM_apply _ c)]
  cases ho : c.error.error.origCatchable <;> rfl


end AquaProps
