import AquaProps.Lemmas.C16Ref
import Aqua.Exec.Run
/-!
# C16 lemmas, part 2: operands — the executor's resolver against the reference evaluator's operands

On *flat* executor contexts (no fold in progress, depth 0, every scalar cell is one initialised cell of
depth 0 — the shape every context has while a `FragA` script runs) and under `Sub c s` (every scalar the
executor sees has the same value in the reference state), the executor's `resolveValue` and the
reference `operand` agree: a value on the executor side is the same value on the reference side; a
failure that does not wait (non-joinable) is a failure on the reference side; the executor never panics.
-/
namespace AquaProps.C16
open Aqua Aqua.Json Aqua.Air Aqua.Exec Aqua.Ref

/-! ### flat executor contexts -/

structure FlatM (m : SparseMatrix ValueAggregate) : Prop where
  depth : m.currentDepth = 0
  allowed : m.allowedDepths = [0]
  cells : ∀ name cells, Exec.lookup m.cells name = some cells → ∃ v, cells = [⟨0, some v⟩]

structure FlatC (c : Ctx) : Prop where
  iter : c.scalars.iterable = []
  m : FlatM c.scalars.nonIterable

/-- the scalar a name denotes in a flat context -/
def scalarOf (c : Ctx) (name : String) : Option ValueAggregate :=
  match Exec.lookup c.scalars.nonIterable.cells name with
  | some [⟨_, some v⟩] => some v
  | _ => none

theorem matrix_getValue_flat {m : SparseMatrix ValueAggregate} (h : FlatM m) (name : String) :
    m.getValue name = (match Exec.lookup m.cells name with
      | some [⟨_, some v⟩] => .ok (some v)
      | _ => catchable (.variableNotFound name)) := by
  unfold SparseMatrix.getValue SparseMatrix.getCells
  cases hl : Exec.lookup m.cells name with
  | none => rfl
  | some cells =>
    obtain ⟨v, rfl⟩ := h.cells name cells hl
    simp [h.allowed]

theorem getValue_flat {c : Ctx} (h : FlatC c) (name : String) :
    c.scalars.getValue name = (match scalarOf c name with
      | some v => .ok (.value v)
      | none => catchable (.variableNotFound name)) := by
  unfold Scalars.getValue scalarOf
  rw [matrix_getValue_flat h.m, h.iter]
  cases hl : Exec.lookup c.scalars.nonIterable.cells name with
  | none => rfl
  | some cells =>
    obtain ⟨v, rfl⟩ := h.m.cells name cells hl
    rfl

/-- every scalar of the executor has the same value in the reference state -/
def Sub (c : Ctx) (s : State) : Prop := ∀ name va, scalarOf c name = some va → s.lookup name = .val va.result

/-- the run parameters the two sides read -/
structure SameParams (c : Ctx) (p : Params) : Prop where
  init : c.initPeerId = p.initPeerId
  ts : c.timestamp = p.timestamp
  ttl : c.ttl = p.ttl

/-! ### agreement of results -/

/-- executor result `r` against reference result `g` (values compared through `f`) -/
def Agrees {α β : Type} (f : α → β) (r : ER α) (g : Got β) : Prop :=
  match r with
  | .ok a => g = .val (f a)
  | .error (.catchable e) => e.isJoinable = true ∨ g = .error
  | _ => False

theorem agrees_bind {α β α' β' : Type} {f : α → α'} {g : β → β'} {x : ER α} {gx : Got α'}
    {k : α → ER β} {k' : α' → Got β'}
    (hx : Agrees f x gx) (hk : ∀ a, Agrees g (k a) (k' (f a))) : Agrees g (x >>= k) (gx.bind k') := by
  cases x with
  | ok a =>
    simp only [Agrees] at hx
    subst hx
    exact hk a
  | error e =>
    cases e with
    | catchable ce =>
      simp only [Agrees] at hx
      show Agrees g (Res.error (.catchable ce)) (gx.bind k')
      simp only [Agrees]
      rcases hx with h | h
      · exact Or.inl h
      · right; subst h; rfl
    | uncatchable _ => exact hx.elim
    | unmodelled _ => exact hx.elim
  | panic s => exact hx.elim

theorem agrees_ok {α β : Type} (f : α → β) (a : α) : Agrees f (.ok a : ER α) (.val (f a)) := rfl

theorem agrees_lambda_err {α β : Type} (f : α → β) (e : LambdaErr) : Agrees f (lambdaErr e : ER α) (.error : Got β) :=
  Or.inr rfl

/-! ### lenses -/

theorem idx_agrees (v : JVal) (i : Nat) : Agrees id (liftLambda (tryJvalueWithIdx v i)) (index v i) := by
  unfold tryJvalueWithIdx index liftLambda
  cases v <;> try exact Or.inr rfl
  rename_i a
  cases h : a[i]? with
  | none => simp only [h]; exact Or.inr rfl
  | some x => simp only [h]; rfl

theorem field_agrees (v : JVal) (n : String) : Agrees id (liftLambda (tryJvalueWithFieldName v n)) (field v n) := by
  unfold tryJvalueWithFieldName field liftLambda
  cases v <;> try exact Or.inr rfl
  rename_i kvs
  cases h : (JVal.obj kvs).getField n with
  | none => simp only [h]; exact Or.inr rfl
  | some x => simp only [h]; rfl

theorem selectBy_agrees (v key : JVal) : Agrees id (liftLambda (selectByJvalue v key)) (selectBy v key) := by
  unfold selectByJvalue selectBy
  cases key with
  | str s => exact field_agrees v s
  | num i =>
    simp only [tryNumberToU32]
    by_cases h : 0 ≤ i ∧ i ≤ 4294967295
    · simp only [h, and_self, if_true]
      exact idx_agrees v i.toNat
    · simp only [h, if_false]
      exact Or.inr rfl
  | null => exact Or.inr rfl
  | bool _ => exact Or.inr rfl
  | float _ => exact Or.inr rfl
  | arr _ => exact Or.inr rfl
  | obj _ => exact Or.inr rfl

/-- reading a scalar as a lens accessor -/
theorem accessor_agrees {c : Ctx} {s : State} (hc : FlatC c) (hsub : Sub c s) (x : String) :
    Agrees id (c.scalars.getValue x >>= scalarRefValue) (s.lookup x) := by
  rw [getValue_flat hc]
  cases h : scalarOf c x with
  | none => exact Or.inl rfl
  | some va =>
    show Agrees id (Res.ok va.result) (s.lookup x)
    simp only [Agrees, id]
    exact hsub x va h

theorem path_agrees {c : Ctx} {s : State} (hc : FlatC c) (hsub : Sub c s) :
    ∀ (as : List Accessor) (v : JVal), Agrees id (selectByPathFromScalar c.scalars v as) (applyPath s v as)
  | [], v => rfl
  | .arrayAccess i :: rest, v => by
    simp only [selectByPathFromScalar, applyPath]
    exact agrees_bind (idx_agrees v i) (fun w => path_agrees hc hsub rest w)
  | .fieldByName n :: rest, v => by
    simp only [selectByPathFromScalar, applyPath]
    exact agrees_bind (field_agrees v n) (fun w => path_agrees hc hsub rest w)
  | .fieldByScalar x :: rest, v => by
    simp only [selectByPathFromScalar, applyPath]
    have h1 := accessor_agrees hc hsub x
    -- `do r ← getValue; a ← scalarRefValue r; …` is `(getValue >>= scalarRefValue) >>= …`
    have : (do
        let r ← c.scalars.getValue x
        let a ← scalarRefValue r
        let v' ← liftLambda (selectByJvalue v a)
        selectByPathFromScalar c.scalars v' rest) =
      ((c.scalars.getValue x >>= scalarRefValue) >>= fun a =>
        (liftLambda (selectByJvalue v a) >>= fun v' => selectByPathFromScalar c.scalars v' rest)) := by
      cases c.scalars.getValue x <;> rfl
    rw [this]
    exact agrees_bind h1 (fun a => agrees_bind (selectBy_agrees v a) (fun w => path_agrees hc hsub rest w))

theorem lens_agrees {c : Ctx} {s : State} (hc : FlatC c) (hsub : Sub c s) (v : JVal) (l : Lambda) :
    Agrees id (selectByLambdaFromScalar c.scalars v l) (applyLens s v l) := by
  cases l with
  | path as => exact path_agrees hc hsub as v
  | functorLength =>
    unfold selectByLambdaFromScalar applyLens
    cases v <;> first | rfl | exact Or.inr rfl

/-! ### operands -/

theorem resolveValue_agrees {c : Ctx} {s : State} {p : Params} (hc : FlatC c) (hsub : Sub c s) (hp : SameParams c p)
    (v : Value) (hv : FragV v = true) :
    ∃ g, operand p s v = some g ∧ Agrees (fun r : Resolved => r.1) (resolveValue c v) g := by
  cases v with
  | initPeerId => exact ⟨_, rfl, by simp [resolveValue, resolveConst, Agrees, hp.init]⟩
  | literal x => exact ⟨_, rfl, by simp [resolveValue, resolveConst, Agrees]⟩
  | timestamp => exact ⟨_, rfl, by simp [resolveValue, resolveConst, Agrees, hp.ts]⟩
  | ttl => exact ⟨_, rfl, by simp [resolveValue, resolveConst, Agrees, hp.ttl]⟩
  | number n => exact ⟨_, rfl, by simp [resolveValue, resolveConst, Agrees]⟩
  | float r => exact ⟨_, rfl, by simp [resolveValue, resolveConst, Agrees]⟩
  | boolean b => exact ⟨_, rfl, by simp [resolveValue, resolveConst, Agrees]⟩
  | emptyArray => exact ⟨_, rfl, by simp [resolveValue, resolveConst, Agrees]⟩
  | scalar name =>
    refine ⟨_, rfl, ?_⟩
    simp only [resolveValue]
    rw [getValue_flat hc]
    cases h : scalarOf c name with
    | none => exact Or.inl rfl
    | some va =>
      show Agrees (fun r : Resolved => r.1) (Res.ok (va.result, [va.tetraplet], va.provenance)) (s.lookup name)
      simp only [Agrees]
      exact hsub name va h
  | scalarWL name l =>
    refine ⟨_, rfl, ?_⟩
    simp only [resolveValue]
    rw [getValue_flat hc]
    cases h : scalarOf c name with
    | none => exact Or.inl rfl
    | some va =>
      rw [hsub name va h]
      show Agrees (fun r : Resolved => r.1)
        (selectByLambdaFromScalar c.scalars va.result l >>= fun sel =>
          Res.ok (sel, [populateTetrapletWithLambda va.tetraplet l], va.provenance)) ((Got.val va.result).bind fun x => applyLens s x l)
      have h1 := lens_agrees hc hsub va.result l
      have := agrees_bind (g := fun r : Resolved => r.1) (k' := fun w => Got.val w) h1
        (k := fun sel => Res.ok (sel, [populateTetrapletWithLambda va.tetraplet l], va.provenance)) (fun a => rfl)
      simp only [Got.bind] at this ⊢
      cases hg : applyLens s va.result l <;> simp [hg] at this ⊢ <;> exact this
  | _ => simp [FragV] at hv

end AquaProps.C16
