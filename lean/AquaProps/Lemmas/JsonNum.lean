import Aqua.Json.Parse
/-! Decimal printing (`toString : Int → String`, = `itoa`) and the integer path of the number lexer. -/
namespace AquaProps.JsonLemmas
open Aqua.Json

theorem overflowMul_iff (a b c : Nat) (hb : b < 10) : overflowMul a b c = true ↔ a * 10 + b > c := by
  unfold overflowMul
  simp only [Bool.and_eq_true, Bool.or_eq_true, decide_eq_true_eq]
  omega

theorem isDigit_iff (c : Char) : isDigit c = true ↔ 48 ≤ c.toNat ∧ c.toNat ≤ 57 := by
  unfold isDigit; simp

theorem isDigit_digitChar (k : Nat) (hk : k < 10) : isDigit (Nat.digitChar k) = true := by
  rw [isDigit_iff, Nat.toNat_digitChar_of_lt_ten hk]; omega

theorem digitVal_digitChar (k : Nat) (hk : k < 10) : digitVal (Nat.digitChar k) = k := by
  unfold digitVal; rw [Nat.toNat_digitChar_of_lt_ten hk]; omega

theorem digitVal_lt (c : Char) (h : isDigit c = true) : digitVal c < 10 := by
  rw [isDigit_iff] at h; unfold digitVal; omega

/-- value of a digit string, most significant first, continuing from `acc` -/
def digitsToNat (acc : Nat) (ds : List Char) : Nat := ds.foldl (fun a c => a * 10 + digitVal c) acc

theorem digitsToNat_cons (acc : Nat) (c : Char) (ds : List Char) :
    digitsToNat acc (c :: ds) = digitsToNat (acc * 10 + digitVal c) ds := by
  unfold digitsToNat; rw [List.foldl_cons]

theorem digitsToNat_append (acc : Nat) (a b : List Char) :
    digitsToNat acc (a ++ b) = digitsToNat (digitsToNat acc a) b := by
  unfold digitsToNat; rw [List.foldl_append]

theorem le_digitsToNat (acc : Nat) (ds : List Char) : acc ≤ digitsToNat acc ds := by
  induction ds generalizing acc with
  | nil => exact Nat.le_refl _
  | cons c cs ih => rw [digitsToNat_cons]; have := ih (acc * 10 + digitVal c); omega

/-- the digits `Nat.repr` prints: all decimal digits, they denote `n`, no leading zero unless `n = 0` -/
theorem toDigits_spec (n : Nat) :
    (∀ c ∈ Nat.toDigits 10 n, isDigit c = true) ∧ digitsToNat 0 (Nat.toDigits 10 n) = n ∧
    (0 < n → ∀ d ds, Nat.toDigits 10 n = d :: ds → d ≠ '0') := by
  induction n using Nat.strongRecOn with
  | _ n ih =>
    rw [Nat.toDigits_eq_if (by decide)]
    by_cases h : n < 10
    · simp only [h, if_true]
      refine ⟨?_, ?_, ?_⟩
      · intro c hc; simp at hc; subst hc; exact isDigit_digitChar n h
      · simp [digitsToNat, digitVal_digitChar n h]
      · intro hpos d ds heq; simp at heq; rw [← heq.1]; simp; omega
    · simp only [h, if_false]
      have hlt : n / 10 < n := by omega
      obtain ⟨h1, h2, h3⟩ := ih (n / 10) hlt
      have hm : n % 10 < 10 := Nat.mod_lt _ (by decide)
      refine ⟨?_, ?_, ?_⟩
      · intro c hc
        rw [List.mem_append] at hc
        rcases hc with hc | hc
        · exact h1 c hc
        · simp at hc; subst hc; exact isDigit_digitChar _ hm
      · rw [digitsToNat_append, h2]; simp [digitsToNat, digitVal_digitChar _ hm]; omega
      · intro _ d ds heq
        have hpos : 0 < n / 10 := by omega
        cases hq : Nat.toDigits 10 (n / 10) with
        | nil => exact absurd hq Nat.toDigits_ne_nil
        | cons d' ds' =>
          rw [hq] at heq; simp at heq
          rw [← heq.1]; exact h3 hpos d' ds' hq

/-- a character that cannot continue a number token -/
def numEnd : List Char → Bool
  | [] => true
  | c :: _ => !isDigit c && c != '.' && c != 'e' && c != 'E'

theorem intLoop_digits (fo : FloatOracle) (positive : Bool) (ds : List Char) (acc : Nat) (rest : List Char)
    (hd : ∀ c ∈ ds, isDigit c = true) (hle : digitsToNat acc ds ≤ u64Max) (hr : numEnd rest = true) :
    intLoop fo positive acc (ds ++ rest) = parseNumber fo positive (digitsToNat acc ds) rest := by
  induction ds generalizing acc with
  | nil =>
    simp only [List.nil_append, digitsToNat, List.foldl_nil]
    cases rest with
    | nil => rfl
    | cons c r =>
      simp only [numEnd, Bool.and_eq_true, Bool.not_eq_true'] at hr
      simp only [intLoop, hr.1.1.1]; rfl
  | cons c cs ih =>
    have hc : isDigit c = true := hd c (by simp)
    have hlt := digitVal_lt c hc
    rw [digitsToNat_cons] at hle ⊢
    have hno : overflowMul acc (digitVal c) u64Max = false := by
      cases ho : overflowMul acc (digitVal c) u64Max with
      | false => rfl
      | true =>
        rw [overflowMul_iff _ _ _ hlt] at ho
        have := le_digitsToNat (acc * 10 + digitVal c) cs
        omega
    simp only [List.cons_append, intLoop, hc, hno, if_true]
    exact ih (acc * 10 + digitVal c) (fun c' hc' => hd c' (by simp [hc'])) hle

theorem parseNumber_int_pos (fo : FloatOracle) (n : Nat) (rest : List Char) (hr : numEnd rest = true) :
    parseNumber fo true n rest = .ok (.num n, rest) := by
  cases rest with
  | nil => rfl
  | cons c r =>
    simp only [numEnd, Bool.and_eq_true, Bool.not_eq_true', bne_iff_ne, ne_eq] at hr
    simp [parseNumber, hr.1.1.2, hr.1.2, hr.2]

theorem wrappingNeg_small (n : Nat) (h1 : 1 ≤ n) (h2 : n ≤ 9223372036854775808) :
    wrappingNegAsI64 n = -(n : Int) ∧ wrappingNegAsI64 n < 0 := by
  unfold wrappingNegAsI64 i64MinAbs
  by_cases h : n < 9223372036854775808
  · simp only [h, if_true]
    split <;> omega
  · have : n = 9223372036854775808 := by omega
    subst this; decide

theorem parseNumber_int_neg (fo : FloatOracle) (n : Nat) (rest : List Char) (h1 : 1 ≤ n) (h2 : n ≤ 9223372036854775808)
    (hr : numEnd rest = true) : parseNumber fo false n rest = .ok (.num (-(n : Int)), rest) := by
  obtain ⟨e, hneg⟩ := wrappingNeg_small n h1 h2
  have hn0 : n ≠ 0 := by omega
  cases rest with
  | nil => simp [parseNumber, e, hn0]
  | cons c r =>
    simp only [numEnd, Bool.and_eq_true, Bool.not_eq_true', bne_iff_ne, ne_eq] at hr
    simp [parseNumber, e, hn0, hr.1.1.2, hr.1.2, hr.2]

/-- lexing the digits of `n` (as printed by `Nat.repr`) yields `parseNumber … n` -/
theorem parseInteger_toDigits (fo : FloatOracle) (positive : Bool) (n : Nat) (rest : List Char)
    (hn : n ≤ u64Max) (hr : numEnd rest = true) :
    parseInteger fo positive (Nat.toDigits 10 n ++ rest) = parseNumber fo positive n rest := by
  obtain ⟨hd, hv, hz⟩ := toDigits_spec n
  cases hq : Nat.toDigits 10 n with
  | nil => exact absurd hq Nat.toDigits_ne_nil
  | cons d ds =>
    rw [hq] at hd hv
    have hdd : isDigit d = true := hd d (by simp)
    by_cases h0 : d = '0'
    · -- then n = 0 and the text is exactly "0"
      have hn0 : n = 0 := by
        by_cases hp : 0 < n
        · exact absurd h0 (hz hp d ds hq)
        · omega
      subst hn0
      rw [Nat.toDigits_zero] at hq
      simp at hq
      obtain ⟨rfl, rfl⟩ := hq
      cases rest with
      | nil => rfl
      | cons c r =>
        simp only [numEnd, Bool.and_eq_true, Bool.not_eq_true'] at hr
        simp [parseInteger, hr.1.1.1]
    · simp only [List.cons_append, parseInteger, h0, if_false, hdd, if_true]
      rw [digitsToNat_cons] at hv
      simp only [Nat.zero_mul, Nat.zero_add] at hv
      rw [intLoop_digits fo positive ds (digitVal d) rest (fun c hc => hd c (by simp [hc])) (by omega) hr, hv]

theorem isDigit_ne_minus (c : Char) (h : isDigit c = true) : c ≠ '-' := by
  intro hc; subst hc; revert h; decide

/-- **decimal round trip**: the number lexer reads back what `toString` (itoa) prints, for every integer
`JValue` can hold -/
theorem parseNumTok_toString (fo : FloatOracle) (i : Int) (rest : List Char)
    (hlo : -9223372036854775808 ≤ i) (hhi : i ≤ 18446744073709551615) (hr : numEnd rest = true) :
    parseNumTok fo ((toString i).toList ++ rest) = .ok (.num i, rest) := by
  rw [Int.toString_eq_repr, Int.repr_eq_if]
  by_cases h : 0 ≤ i
  · simp only [h, if_true, Nat.toList_repr]
    have hn : i.toNat ≤ u64Max := by unfold u64Max; omega
    obtain ⟨hd, _, _⟩ := toDigits_spec i.toNat
    cases hq : Nat.toDigits 10 i.toNat with
    | nil => exact absurd hq Nat.toDigits_ne_nil
    | cons d ds =>
      have hdd : isDigit d = true := hd d (by simp [hq])
      have hm := isDigit_ne_minus d hdd
      simp only [List.cons_append, parseNumTok, hm, if_false, hdd, if_true]
      rw [← List.cons_append, ← hq, parseInteger_toDigits fo true _ rest hn hr, parseNumber_int_pos fo _ rest hr]
      congr 2; simp; omega
  · simp only [h, if_false, String.toList_append, Nat.toList_repr]
    have hl : ("-" : String).toList = ['-'] := by decide
    rw [hl]
    simp only [List.cons_append, List.nil_append, parseNumTok, if_true]
    have hn : (-i).toNat ≤ u64Max := by unfold u64Max; omega
    rw [parseInteger_toDigits fo false _ rest hn hr, parseNumber_int_neg fo _ rest (by omega) (by omega) hr]
    congr 2; simp; omega

end AquaProps.JsonLemmas
