import AquaProps.Lemmas.C14Toy
namespace AquaProps.C14
open Aqua Aqua.Data Aqua.Exec Aqua.Run Aqua.Crypto

theorem toy_other_particle_rejected : (verifyData toyEnv curQ "p2").isOk = false := by decide +kernel
theorem toy_forged_rejected : (verifyData toyEnv curForged "p1").isOk = false := by decide +kernel

end AquaProps.C14
