import AquaProps.C05
import AquaProps.C03
/-!
What happens to the merged state a `call` instruction consumed (`meet_call_start`).  The lemmas below
compute `handle_prev_state` and what follows branch by branch (for EVERY context), and conclude:

* on every normal exit of the call step exactly one call state is pushed and it *covers* the consumed one —
  the same result if it was a result, some state of the same call if it was a request;
* the only way a consumed state vanishes without an uncatchable error or a panic is the branch
  `dispatch` → `issueRequest` fails with a non-joinable catchable error: a foreign request for a call
  addressed to the current peer whose arguments do not resolve (known finding C04).
-/
namespace AquaProps
open Aqua Aqua.Exec Aqua.Air Aqua.Data Aqua.Trace Aqua.Json AquaProps.C05

def tr (c : Ctx) : Trace := c.th.keeper.resultTrace

theorem M_bind_apply' {α β : Type} (m : M α) (f : α → M β) (c : Ctx) :
    (m >>= f) c = (match m c with
      | (.ok a, c') => f a c'
      | (.error e, c') => (.error e, c')
      | (.panic s, c') => (.panic s, c')) := rfl

theorem tr_meetCallEnd (c : Ctx) (cr : CallResult) : tr { c with th := c.th.meetCallEnd cr } = tr c ++ [.call cr] := rfl

theorem tr_recordCallCid (c : Ctx) (p cid : String) : tr (c.recordCallCid p cid) = tr c := by
  unfold tr; rw [AquaProps.C03.recordCallCid_th]

/-- the state a call pushes covers the one it consumed -/
def Covers (old new : CallResult) : Prop :=
  match old with
  | .executed _ => new = old
  | .failed _ => new = old
  | .requestSentBy _ => True

/-- exactly one call state covering `old` was appended -/
def Repushed (old : CallResult) (c c' : Ctx) : Prop := ∃ st, tr c' = tr c ++ [.call st] ∧ Covers old st

/-! ### the descriptor step -/

theorem afterState_noexec_none (t : Tetraplet) (args : List Value) (c : Ctx) :
    afterState t args (.mk false none) c = (.ok (), c) := rfl

theorem afterState_noexec_some (t : Tetraplet) (args : List Value) (cr : CallResult) (c : Ctx) :
    afterState t args (.mk false (some cr)) c = (.ok (), { c with th := c.th.meetCallEnd cr }) := rfl

/-- `dispatch` for a local call, in terms of what `issue_request` returns -/
theorem dispatch_local (t : Tetraplet) (args : List Value) (cr : CallResult) (c : Ctx) (hme : t.peerPk = c.currentPeerId) :
    dispatch t args (.mk true (some cr)) c =
      (match issueRequest t args c with
       | .ok c' => (.ok (), c')
       | .error e => if e.isJoinable then (.error e, { c with th := c.th.meetCallEnd cr }) else (.error e, c)
       | .panic s => (.panic s, c)) := by
  unfold dispatch
  rw [M_bind_apply']
  simp only [readCtx]
  have : (t.peerPk != c.currentPeerId) = false := by simp [hme]
  simp only [this, Bool.false_eq_true, if_false]
  rw [M_bind_apply']
  simp only [tryM, modifyER]
  cases issueRequest t args c with
  | ok c' => rfl
  | error e =>
    simp only
    by_cases hj : e.isJoinable = true
    · simp only [hj, if_true]
      rw [M_bind_apply']
      rfl
    · simp only [hj]
      rfl
  | panic s => rfl

theorem tr_issueRequest {t : Tetraplet} {args : List Value} {c c' : Ctx} (h : issueRequest t args c = .ok c') :
    ∃ id, tr c' = tr c ++ [.call (.requestSentBy (.peerIdWithCallId c.currentPeerId id))] := by
  unfold issueRequest at h
  split at h
  · split at h
    · cases h
    · injection h with h; subst h; exact ⟨_, rfl⟩
  · cases h
  · cases h

/-! ### `handle_prev_state`, branch by branch -/

theorem handlePrevState_executed (env : Env) (m : MetCallResult) (t : Tetraplet) (ah : Option String) (out : CallOutput)
    (v : ValueRef) (hres : m.result = .executed v) (c : Ctx) :
    handlePrevState env m t ah out c =
      (match ah with
       | none => (.panic "prev_result_handler.rs:handle_prev_state:argument_hash.unwrap()(Executed)", c)
       | some h =>
         match populateFromData env c v h t m.tracePos out m.source with
         | .ok c1 => (.ok (.mk false none), updPrevExecuted t v c1)
         | .error e => (.error e, c)
         | .panic s => (.panic s, c)) := by
  unfold handlePrevState
  rw [hres]
  simp only
  rw [M_bind_apply']
  cases ah with
  | none => rfl
  | some h =>
    simp only [unwrapHash, pure, M.pure]
    rw [M_bind_apply']
    simp only [modifyER]
    cases populateFromData env c v h t m.tracePos out m.source with
    | ok c1 => rfl
    | error e => rfl
    | panic s => rfl

theorem handlePrevState_own_none (env : Env) (m : MetCallResult) (t : Tetraplet) (ah : Option String) (out : CallOutput)
    (id : Nat) (c : Ctx) (hres : m.result = .requestSentBy (.peerIdWithCallId c.currentPeerId id))
    (hnone : lookup c.callResults (toString id) = none) :
    handlePrevState env m t ah out c = (.ok (.mk false (some m.result)), { c with subgraphComplete := false }) := by
  unfold handlePrevState
  rw [hres]
  simp only
  rw [M_bind_apply']
  simp only [readCtx, beq_self_eq_true, if_true]
  rw [M_bind_apply']
  simp only [readCtx, hnone]
  rfl

theorem sentByOther_eq (m : MetCallResult) (t : Tetraplet) (c : Ctx) :
    sentByOther m t c =
      if t.peerPk == c.currentPeerId then (.ok (.mk true (some m.result)), c)
      else (.ok (.mk false (some m.result)), { c with subgraphComplete := false }) := by
  unfold sentByOther
  rw [M_bind_apply']
  simp only [readCtx]
  split <;> rfl

/-- a request that is not this peer's own pending one -/
def ForeignRequest (me : String) (cr : CallResult) : Prop :=
  ∃ s, cr = .requestSentBy s ∧ ∀ id, s ≠ .peerIdWithCallId me id

theorem handlePrevState_foreign (env : Env) (m : MetCallResult) (t : Tetraplet) (ah : Option String) (out : CallOutput)
    (c : Ctx) (hres : ForeignRequest c.currentPeerId m.result) :
    handlePrevState env m t ah out c = sentByOther m t c := by
  obtain ⟨s, hs, hne⟩ := hres
  unfold handlePrevState
  rw [hs]
  cases s with
  | peerId p => rfl
  | peerIdWithCallId p id =>
    simp only
    rw [M_bind_apply']
    simp only [readCtx]
    have : (p == c.currentPeerId) = false := by
      simp only [beq_eq_false_iff_ne, ne_eq]
      intro h; exact hne id (by rw [h])
    simp only [this, Bool.false_eq_true, if_false]

theorem prepareState_met (env : Env) (m : MetCallResult) (t : Tetraplet) (ah : Option String) (out : CallOutput) :
    prepareState env (.met m) t ah out = handlePrevState env m t ah out := rfl

/-! ### conclusions -/

/-- **A result found in the merged data is re-emitted unchanged** (normal exit of the call step). -/
theorem callTail_executed_repushed (env : Env) (m : MetCallResult) (t : Tetraplet) (ah : Option String) (out : CallOutput)
    (args : List Value) (v : ValueRef) (hres : m.result = .executed v) (c : Ctx)
    (hok : (callTail env (.met m) t ah out args c).1 = .ok ()) :
    Repushed m.result c (callTail env (.met m) t ah out args c).2 := by
  unfold callTail at hok ⊢
  rw [prepareState_met, M_bind_apply', handlePrevState_executed env m t ah out v hres c] at hok ⊢
  cases ah with
  | none => simp at hok
  | some h =>
    simp only at hok ⊢
    cases hp : populateFromData env c v h t m.tracePos out m.source with
    | ok c1 =>
      simp only [hp, afterState_noexec_none] at hok ⊢
      have ht : tr c1 = tr c := by unfold tr; rw [(AquaProps.C03.populateFromData_same hp).2.1]
      refine ⟨.executed v, ?_, by rw [hres]; rfl⟩
      unfold updPrevExecuted
      cases v with
      | scalar cid => rw [tr_meetCallEnd, tr_recordCallCid, ht]
      | stream cid g => rw [tr_meetCallEnd, tr_recordCallCid, ht]
      | unused cid => rw [tr_meetCallEnd, ht]
    | error e => simp [hp] at hok
    | panic s => simp [hp] at hok

/-- **The peer's own pending request without a result is re-emitted as it is.** -/
theorem callTail_pending_repushed (env : Env) (m : MetCallResult) (t : Tetraplet) (ah : Option String) (out : CallOutput)
    (args : List Value) (id : Nat) (c : Ctx) (hres : m.result = .requestSentBy (.peerIdWithCallId c.currentPeerId id))
    (hnone : lookup c.callResults (toString id) = none) :
    (callTail env (.met m) t ah out args c).1 = .ok () ∧
    tr (callTail env (.met m) t ah out args c).2 = tr c ++ [.call m.result] := by
  unfold callTail
  rw [prepareState_met, M_bind_apply', handlePrevState_own_none env m t ah out id c hres hnone]
  simp only [afterState_noexec_some]
  constructor <;> first | rfl | trivial

/-- **A foreign request**: for a call addressed elsewhere it is re-emitted as it is; for a call addressed to
the current peer it is replaced by the peer's own request, or re-emitted while the arguments are still
missing (joinable) — and dropped ONLY when the arguments fail with a non-joinable catchable error
(the known finding), an uncatchable error or a panic. -/
theorem callTail_foreign_request (env : Env) (m : MetCallResult) (t : Tetraplet) (ah : Option String) (out : CallOutput)
    (args : List Value) (c : Ctx) (hres : ForeignRequest c.currentPeerId m.result) :
    let r := callTail env (.met m) t ah out args c
    (t.peerPk ≠ c.currentPeerId → r.1 = .ok () ∧ tr r.2 = tr c ++ [.call m.result]) ∧
    (t.peerPk = c.currentPeerId →
      (∀ c', issueRequest t args c = .ok c' → r.1 = .ok () ∧ ∃ id, tr r.2 = tr c ++ [.call (.requestSentBy (.peerIdWithCallId c.currentPeerId id))]) ∧
      (∀ e, issueRequest t args c = .error e → e.isJoinable = true → r.1 = .error e ∧ tr r.2 = tr c ++ [.call m.result]) ∧
      (∀ e, issueRequest t args c = .error e → e.isJoinable = false → r.1 = .error e ∧ tr r.2 = tr c)) := by
  intro r
  have hcall : r = (handlePrevState env m t ah out >>= fun state => afterState t args state) c := rfl
  rw [M_bind_apply', handlePrevState_foreign env m t ah out c hres, sentByOther_eq] at hcall
  constructor
  · intro hne
    have : (t.peerPk == c.currentPeerId) = false := by simp [hne]
    simp only [this, Bool.false_eq_true, if_false, afterState_noexec_some] at hcall
    rw [hcall]; constructor <;> first | rfl | trivial
  · intro hme
    have : (t.peerPk == c.currentPeerId) = true := by simp [hme]
    simp only [this, if_true] at hcall
    have hd : r = dispatch t args (.mk true (some m.result)) c := by rw [hcall]; rfl
    rw [dispatch_local t args m.result c hme] at hd
    refine ⟨?_, ?_, ?_⟩
    · intro c' hi
      rw [hd, hi]
      exact ⟨rfl, tr_issueRequest hi⟩
    · intro e hi hj
      rw [hd, hi]
      simp only [hj, if_true]
      constructor <;> first | rfl | trivial
    · intro e hi hj
      rw [hd, hi]
      simp only [hj, Bool.false_eq_true, if_false]
      constructor <;> first | rfl | trivial

end AquaProps
